/-
C09 for every STRUCTURALLY VALID document — every segment located in its map, conformant or not — and beyond.

`Props/C09Walk.lean` proves `Ctx.Consistent` for the Walker model's answers on runs satisfying `RunOK` (every segment
found, no error reported, nothing pending).  The property text of C09 quantifies over all documents in which every
segment is located.  Here:

  * `answers_consistent_of_found`  `RunFound` in place of `RunOK`: every walk returns a node; the walker may report
                                   anything (max count exceeded, mandatory segment missing, segment / loop not used …)
  * `answers_consistent_any`       NO hypothesis on the run at all: a segment the walker does not find is handed to the
                                   reader as another occurrence of the previous node with empty pop / push lists — which is
                                   what `iter_segments` does (`self.x12_map_node = orig_node`; the lists the walker
                                   returned are empty, `walk_none_lists`) — and the reader's check accepts that answer too
  * `partition_located`, `instances_located`, `no_crash_located`, `tree_is_maximal_instance_located`,
    `plain_is_outside_located`, `tree_count_located`, `tree_shape_located`, `positions_carried_located`
                                   all theorems of Props/C09.lean instantiated for EVERY segment sequence after ISA, GS

Hypotheses really used: `WFMap`, `CtxMapOK`, `LidOK?`, distinct ISA / GS loop ids, and — instead of `Unambiguous` — only
`ShapeUnamb` (Proofs/CtxFoundUnamb.lean): (i) in a loop that starts with a segment no later SEGMENT child accepts a data
segment that the first segment accepts, (ii) `deepDisjoint` inside wrapper loops.  `Unambiguous` decides WHICH node the
walker picks; the SHAPE of its answer needs only this.  `shapeUnamb_of_unambiguous`: it is implied by `Unambiguous`, so the
theorems here generalise those of Props/C09Walk.lean.  Driver evaluation (op XGOOD): `ShapeUnamb` holds for all 31 loaded
maps, whereas `Unambiguous` / its local part fail for the four 837 maps and others (the listed C02 map findings).
(i) cannot be dropped: with a loop whose first segment and a later child segment accept the same data segment, the
walker — coming up from a child loop — reports a repeat of that OUTER loop without popping it (`pops` = the loops below it,
`pushes` = [that loop]) and the reader nests the new instance in the old one.

About the not-found fallback: consistency (hence partition, no exception) holds; what is lost is the tie between trees
and the DOCUMENT's loop instances: an unknown segment directly after the first segment of the requested loop counts as
that first segment once more (`isStart`), so the reader begins a new tree — the known observation "an unknown segment
directly after the first segment of the requested loop splits the tree".  `tree_is_maximal_instance` speaks of instances
as delimited by the answers, and stays true.
-/
import Pyx12Verif.Proofs.CtxFoundNone
import Pyx12Verif.Props.C09Walk

namespace Pyx12Verif.CtxWalk
open Pyx12Verif.MapSkel Pyx12Verif.Walker Pyx12Verif.WalkerGen

section
variable (K : Consts) (root : List Node) (rootId : Nat)
  (hwf : WFMap root = true) (hsu : ShapeUnamb K root = true) (hok : CtxMapOK root = true)
  {a isaId isaPos isaU isaRep : Nat} {isaW : Bool} {isaSeg : Node} {isaRest : List Node}
  (hroot : root[a]? = some (.loop isaId isaPos isaU isaRep isaW (isaSeg :: isaRest)))
  {g gsId gsPos gsU gsRep : Nat} {gsW : Bool} {gsSeg : Node} {gsRest : List Node}
  (hgs : (isaSeg :: isaRest)[g]? = some (.loop gsId gsPos gsU gsRep gsW (gsSeg :: gsRest))) (hgseg : gsSeg.isSeg = true)
  (hne : isaId ≠ gsId) (lid : Option Nat) (hlid : LidOK? root lid) (si : Nat → Ctx.SegInfo)
include hwf hsu hok hroot hgs hgseg hne hlid

/-- **C09 ⟵ C02 for every segment sequence** (goal 2).  After ISA and GS (pinned), ANY sequence of data segments — found
    or not, in order or not — gives the context reader a consistent answer list. -/
theorem answers_consistent_any (cnt : Counter) (emits : List Emit) :
    Ctx.Consistent lid (answersOf K root rootId si a g cnt emits) := by
  have hs := static2_of (trList_of_wfmap hwf) hsu hok
  have hwfa := wfAt_root hwf
  have hch0 : chAt root [] = some root := rfl
  have hchI : chAt root [a] = some (isaSeg :: isaRest) := by
    have := chAt_snoc hch0 a; simp only [List.nil_append] at this; rw [this, hroot]
  have hchG : chAt root [a, g] = some (gsSeg :: gsRest) := by
    have := chAt_snoc hchI g; simp only [List.cons_append, List.nil_append] at this; rw [this, hgs]
  have hisa0 : (isaSeg :: isaRest)[0]? = some isaSeg := by simp
  have hgs0 : (gsSeg :: gsRest)[0]? = some gsSeg := by simp
  have hidI : idAt root [a] = isaId := by simp [idAt, nodeAt, hroot, Node.ident]
  have hidG : idAt root [a, g] = gsId := by
    have : nodeAt root ([a] ++ [g]) = some (.loop gsId gsPos gsU gsRep gsW (gsSeg :: gsRest)) := by
      rw [nodeAt_snoc hchI]; exact hgs
    simp only [List.cons_append, List.nil_append] at this
    simp [idAt, this, Node.ident]
  have hgsA : gsAnswer root (si 1) [a, 0] [a, g] = answerOf root (si 1) [a, g, 0] [] [[a, g]] := by
    have : (idAt root [a] == idAt root [a, g]) = false := by rw [hidI, hidG]; simpa using hne
    simp [gsAnswer, this]
  have hfacts : StepFacts root [a] (posAt root [a, 0]) [a, g, 0] [] [[a, g]] := by
    refine ⟨[a], [a, g], posAt root [a, 0], 0, gsSeg :: gsRest, gsSeg, by simp [cvPops, Ctx.popRun], ?_, by simp,
      ⟨by simp, _, hchG⟩, hchG, hgs0, hgseg, by simp, by simp, by simp, ?_, by simp⟩
    · have := pushRun_one hchI hgs []
      simp only [List.cons_append, List.nil_append] at this
      simp only [cvPushes, List.map_cons, List.map_nil, this, Ctx.pushRun]
    · intro p0 rest e
      simp only [List.cons.injEq] at e
      rw [← e.1]
      have h1 := posAt_snoc hchI hisa0
      have h2 := posAt_snoc hchI hgs
      simp only [List.cons_append, List.nil_append] at h1 h2
      rw [h1, h2]
      exact posSorted_le (wfAt_chAt hwfa hchI).pos hisa0 hgs (Nat.zero_le _)
  have hstepG := step_consistent hwfa hlid ⟨_, hchI⟩ hfacts (si 1)
  have hsegG : SegAt root [a, g, 0] := ⟨[a, g], 0, _, gsSeg, by simp, hchG, hgs0, hgseg⟩
  have hrunC := run_consistent_any (K := K) (rootId := rootId) hs hwfa hlid si emits 2 cnt [a, g, 0] hsegG
  simp only [Ctx.Consistent, answersOf, Ctx.consistentFrom, isa_step hroot lid (si 0), hgsA]
  rw [hstepG]
  exact hrunC

/-- **C09 ⟵ C02 for located documents** (goal 1): `answers_consistent_of_run` with `RunOK` weakened to `RunFound` —
    every walk returns a node; errors and pending mandatory segments are allowed.  (The hypothesis is not used by the
    proof: see `answers_consistent_any`.) -/
theorem answers_consistent_of_found (cnt : Counter) (emits : List Emit)
    (_hrun : RunFound K root rootId cnt [a, g, 0] emits) :
    Ctx.Consistent lid (answersOf K root rootId si a g cnt emits) :=
  answers_consistent_any K root rootId hwf hsu hok hroot hgs hgseg hne lid hlid si cnt emits

/-- **C09 for every located document** (`partition_located`): no loss, no duplication, no reordering — the yields of
    the context-reader model, fed with the Walker model's answers for ISA, GS and ANY further segments, carry exactly
    the source segments `si 0, si 1, …` in source order -/
theorem partition_located (cnt : Counter) (emits : List Emit) :
    ((Ctx.ctxRun lid (answersOf K root rootId si a g cnt emits)).map Ctx.segsOf).flatten =
      (List.range (emits.length + 2)).map si := by
  rw [Ctx.partition (answers_consistent_any K root rootId hwf hsu hok hroot hgs hgseg hne lid hlid si cnt emits)]
  exact answersOf_segs K root rootId si a g _ _

/-- the yields are plain segments outside the requested loop and one tree per maximal instance (`Ctx.Parts`) -/
theorem instances_located (cnt : Counter) (emits : List Emit) :
    Ctx.Parts lid (answersOf K root rootId si a g cnt emits) (Ctx.ctxRun lid (answersOf K root rootId si a g cnt emits)) :=
  Ctx.instances (answers_consistent_any K root rootId hwf hsu hok hroot hgs hgseg hne lid hlid si cnt emits)

/-- no exception path of `iter_segments` / `_add_segment` is taken, whatever the segments -/
theorem no_crash_located (cnt : Counter) (emits : List Emit) :
    (Ctx.ctxRunFull lid (answersOf K root rootId si a g cnt emits)).crash = none :=
  Ctx.no_crash (answers_consistent_any K root rootId hwf hsu hok hroot hgs hgseg hne lid hlid si cnt emits)

/-- every tree is one maximal instance of the requested loop (instances as delimited by the answers) -/
theorem tree_is_maximal_instance_located (cnt : Counter) (emits : List Emit) :
    ∀ pre d post, Ctx.ctxRun lid (answersOf K root rootId si a g cnt emits) = pre ++ Ctx.Yield.tree d :: post →
      ∃ l A b B C, lid = some l ∧ answersOf K root rootId si a g cnt emits = A ++ (b :: B) ++ C ∧
        (pre.map Ctx.leavesOf).flatten = A.map Ctx.info ∧ Ctx.leaves d = (b :: B).map Ctx.info ∧
        Ctx.isStart lid b = true ∧ (∀ x ∈ B, Ctx.inReq lid x = true ∧ Ctx.isStart lid x = false) ∧
        (∀ c, C.head? = some c → Ctx.inReq lid c = false ∨ Ctx.isStart lid c = true) ∧ Ctx.TreeOk l b.path d :=
  Ctx.tree_is_maximal_instance (answers_consistent_any K root rootId hwf hsu hok hroot hgs hgseg hne lid hlid si cnt emits)

/-- a segment is yielded on its own only when it lies outside every instance of the requested loop -/
theorem plain_is_outside_located (cnt : Counter) (emits : List Emit) :
    ∀ pre s p n post, Ctx.ctxRun lid (answersOf K root rootId si a g cnt emits) = pre ++ Ctx.Yield.plain s p n :: post →
      ∃ A x C, answersOf K root rootId si a g cnt emits = A ++ x :: C ∧ (pre.map Ctx.leavesOf).flatten = A.map Ctx.info ∧
        (s, p, n) = Ctx.info x ∧ Ctx.inReq lid x = false :=
  Ctx.plain_is_outside (answers_consistent_any K root rootId hwf hsu hok hroot hgs hgseg hne lid hlid si cnt emits)

/-- as many trees as instance starts -/
theorem tree_count_located (cnt : Counter) (emits : List Emit) :
    (Ctx.ctxRun lid (answersOf K root rootId si a g cnt emits)).countP Ctx.Yield.isTree =
      (answersOf K root rootId si a g cnt emits).countP (fun x => Ctx.isStart lid x) :=
  Ctx.tree_count (answers_consistent_any K root rootId hwf hsu hok hroot hgs hgseg hne lid hlid si cnt emits)

/-- every tree is rooted at the requested loop; the loop nodes above a segment spell the tail of its map path -/
theorem tree_shape_located (cnt : Counter) (emits : List Emit) :
    ∀ d, Ctx.Yield.tree d ∈ Ctx.ctxRun lid (answersOf K root rootId si a g cnt emits) →
      ∃ l p, lid = some l ∧ Ctx.TreeOk l p d ∧
        ∀ x ∈ Ctx.leavesUnder [] d, x.1.2.1 = p.dropLast ++ x.2 ∧ x.2.head? = some l :=
  Ctx.tree_shape_follows_path (answers_consistent_any K root rootId hwf hsu hok hroot hgs hgseg hne lid hlid si cnt emits)

/-- every yielded segment carries the reader's seg_count and line -/
theorem positions_carried_located (cnt : Counter) (emits : List Emit) :
    (((Ctx.ctxRun lid (answersOf K root rootId si a g cnt emits)).map Ctx.segsOf).flatten.map
        (fun s => (s.segCount, s.line))) =
      (answersOf K root rootId si a g cnt emits).map (fun x => (x.seg.segCount, x.seg.line)) :=
  Ctx.positions_carried (answers_consistent_any K root rootId hwf hsu hok hroot hgs hgseg hne lid hlid si cnt emits)

end

/-! ### non-vacuity on the `exRoot` skeleton of Props/C02Walk.lean -/

/-- the hypotheses hold for the skeleton (and `ShapeUnamb` is implied by `Unambiguous`) -/
example : WFMap exRoot = true ∧ ShapeUnamb exK exRoot = true ∧ CtxMapOK exRoot = true := by decide +kernel

/-- a located but NON-conformant body: `REF*1G` (max_use 2) three times, `DTP` (max_use 2) four times in the first 2000
    loop, the required `SE` left out:  ST BHT REF*0B REF*1G REF*1G REF*1G HL DTP DTP DTP DTP NM1 HL NM1 GE IEA -/
def exLocated : List Emit :=
  [([], sd 15 0 0), ([], sd 17 0 0), ([], sd 18 101 0), ([], sd 18 102 0), ([], sd 18 102 0), ([], sd 18 102 0),
   ([], sd 2 1 201), ([], sd 23 401 0), ([], sd 23 401 0), ([], sd 23 401 0), ([], sd 23 401 0),
   ([], sd 22 301 0), ([], sd 2 2 201), ([], sd 22 301 0), ([], sd 25 0 0), ([], sd 26 0 0)]

/-- every segment is located … -/
example : RunFound exK exRoot 0 exCnt0 [0, 1, 0] exLocated := runFound_of_bool _ _ _ (by decide +kernel)

/-- … but the run is not conformant: the walker reports errors (so `RunOK` fails and Props/C09Walk.lean does not apply) -/
example : (runErrs exK exRoot 0 exCnt0 [0, 1, 0] exLocated).map (fun e => e.1) =
      [.segMaxCount, .segMaxCount, .segMaxCount, .mandatoryMissing] ∧
    runOKb exK exRoot 0 exCnt0 [0, 1, 0] exLocated = false := by
  decide +kernel

def exAnswersLocated : List Ctx.Answer := answersOf exK exRoot 0 exSi 0 1 exCnt0 exLocated

/-- the theorem applies (loop 2000 requested) … -/
example : Ctx.Consistent (some 20) exAnswersLocated :=
  answers_consistent_of_found exK exRoot 0 (by decide +kernel) (by decide +kernel) (by decide +kernel) (a := 0) (g := 1)
    (isaSeg := exISA) (gsSeg := exGS) rfl rfl rfl (by decide) (some 20) (lidOK_of_bool (by decide +kernel)) exSi exCnt0
    exLocated (runFound_of_bool _ _ _ (by decide +kernel))

/-- … and, independently of the proof, the kernel evaluates the reader's check and the partition: two trees (the two
    2000 instances: HL DTP DTP DTP DTP NM1 / HL NM1), every source segment exactly once, in order -/
example : Ctx.Consistent none exAnswersLocated ∧ Ctx.Consistent (some 20) exAnswersLocated ∧
    Ctx.Consistent (some 21) exAnswersLocated ∧ Ctx.Consistent (some 10) exAnswersLocated ∧
    (Ctx.ctxRun (some 20) exAnswersLocated).map (fun y => (Ctx.Yield.isTree y, (Ctx.leavesOf y).length)) =
      [(false, 1), (false, 1), (false, 1), (false, 1), (false, 1), (false, 1), (false, 1), (false, 1), (true, 6), (true, 2),
       (false, 1), (false, 1)] ∧
    ((Ctx.ctxRun (some 20) exAnswersLocated).map Ctx.segsOf).flatten = (List.range 18).map exSi := by
  decide +kernel

/-- a body with segments the walker does NOT find (ids 90, 91 occur nowhere in the map; `N3` = 27 after the second HL has
    no 2100 loop open):  ST BHT ?90 HL ?91 DTP NM1 HL N3 SE GE IEA -/
def exUnknown : List Emit :=
  [([], sd 15 0 0), ([], sd 17 0 0), ([], sd 90 0 0), ([], sd 2 1 201), ([], sd 91 0 0), ([], sd 23 401 0),
   ([], sd 22 301 0), ([], sd 2 2 201), ([], sd 27 0 0), ([], sd 24 0 0), ([], sd 25 0 0), ([], sd 26 0 0)]

def exAnswersUnknown : List Ctx.Answer := answersOf exK exRoot 0 exSi 0 1 exCnt0 exUnknown

/-- three of the twelve are not found (so the run is not `RunFound`) … -/
example : notFoundCount exK exRoot 0 exCnt0 [0, 1, 0] exUnknown = 3 ∧
    runFoundb exK exRoot 0 exCnt0 [0, 1, 0] exUnknown = false := by decide +kernel

/-- … `answers_consistent_any` applies all the same … -/
example : Ctx.Consistent (some 20) exAnswersUnknown :=
  answers_consistent_any exK exRoot 0 (by decide +kernel) (by decide +kernel) (by decide +kernel) (a := 0) (g := 1)
    (isaSeg := exISA) (gsSeg := exGS) rfl rfl rfl (by decide) (some 20) (lidOK_of_bool (by decide +kernel)) exSi exCnt0
    exUnknown

/-- … and the kernel agrees: consistent, partition exact.  The unknown segment `?91` directly after the first HL is read
    as that HL once more, and so is the `N3` after the second HL: loop 2000 yields FOUR trees (HL / ?91 DTP NM1 / HL / N3)
    for two instances in the document: the known observation — about maximality with respect to the document, not about consistency or partition. -/
example : Ctx.Consistent none exAnswersUnknown ∧ Ctx.Consistent (some 20) exAnswersUnknown ∧
    Ctx.Consistent (some 16) exAnswersUnknown ∧
    (Ctx.ctxRun (some 20) exAnswersUnknown).map (fun y => (Ctx.Yield.isTree y, (Ctx.leavesOf y).length)) =
      [(false, 1), (false, 1), (false, 1), (false, 1), (false, 1), (true, 1), (true, 3), (true, 1), (true, 1),
       (false, 1), (false, 1), (false, 1)] ∧
    ((Ctx.ctxRun (some 20) exAnswersUnknown).map Ctx.segsOf).flatten = (List.range 14).map exSi ∧
    (Ctx.ctxRunFull (some 20) exAnswersUnknown).crash = none := by
  decide +kernel

end Pyx12Verif.CtxWalk
