/-
THE BRIDGE between C09 and C10.

C10 is quantified over "any loop tree obtained from the context reader"; the theorems of Props/C10*.lean take an arbitrary
`DataTree.DNode` plus hypotheses — for the insertion laws `posSorted (cleanup cs)`: the live children of the target loop are
in map order.  Here the hypotheses are DISCHARGED for the trees the reader model yields.

1. the conversion                     `Bridge.toDNode` (Model/CtxToData.lean: what `harness/c10.py` does with a real tree)
   `toDNode_serialise`                `segsOf (toDNode md segs t)` = the source segments of `t`, in `iterate_segments()` order

2. reader trees are sorted throughout (`Ctx.AllSortedC`: every loop node has its children in map order)
   `CtxWalk.walk_pos_monotone`        inside one loop instance the walker's matched nodes have non-decreasing positions
                                      (no hypothesis at all: the scan skips `pos < fromPos`); a repeat of the loop's first
                                      segment opens a new instance (`StepFacts`)
   `Ctx.trees_sorted`                 every tree of a `Consistent` and `Mono` answer list is sorted
   `CtxWalk.answers_mono_any`         the Walker model's answers are `Mono` — for EVERY segment sequence after ISA, GS
   `CtxWalk.tree_sorted_located`      hence every tree, every requested loop (ISA_LOOP included), every body, found or not
   `ctx_tree_sorted`                  from the TEXT, for EVERY text (`ctxDoc ms lid text`): every yielded tree is sorted, when
                                      the requested loop is not ISA_LOOP.  Hypotheses (all decidable, `ctx_tree_sorted_bool`):
                                      `MapsGood` (Proofs/CtxFullDefs.lean), `WFMap` of every loaded map, the requested id is
                                      `LidOK` in every loaded map, `BhtAgree` (a GS_LOOP / ST_LOOP tree can span the 278 map
                                      switch at BHT: the maps that switch can connect — the index targets of one 278 release
                                      and functional group — give ISA_LOOP/GS_LOOP/ST_LOOP/HEADER and the first segment of
                                      HEADER the same positions; true of the shipped index: 278.4010.X094.27.A1 / .A1)
   `ctx_tree_sorted_full`             the same WITHOUT "not ISA_LOOP": FALSE (Props/C10BridgeExample.lean,
                                      `ctx_tree_sorted_full_false`): a GS in the middle of a transaction set is attached below
                                      the open loop, and the IEA that follows is appended behind later siblings.  The real code
                                      does the same (witness replayed on pyx12: 997, `… AK1 AK9 GS GE IEA`, loop ISA_LOOP gives
                                      HEADER children at positions 20 20 70 30, and `add_loop('AK2…')` (30) is placed last).
   `ctx_tree_sorted_isa_full`         what stays open: ISA_LOOP trees of texts with a single ISA and a single GS, from the text
                                      (the answer-level statement for exactly those is `tree_sorted_located`)

3. C10 on reader trees, no extra hypothesis (`ReaderOK` = the hypotheses of `ctx_tree_sorted`)
   `reader_tree_allSorted`            `DataTree.AllSorted (toDNode md segs t)` for every yielded tree `t`
   `reader_insert_keeps_sorted`       `insert_keeps_sorted` at every loop node of the tree
   `reader_add_segment_places`        `add_segment_places` with both `posSorted →` premises discharged
   `reader_serialise_reflects_edits`  the serialisation before the call is the tree's source segments
   `step_sorted`, `run_sorted`        (Proofs/C10BridgeData.lean) EVERY call of the C10 operation set keeps `AllSorted`
   `reader_history`                   after ANY finite history of calls starting from a reader tree: every tree of the forest
                                      is sorted throughout, and the serialised forest = the abstract list edits applied to the
                                      tree's source segments (`history_refinement`)
   `reader_history_insert`            … so the insertion laws hold again at every loop node of every tree reached
-/
import Pyx12Verif.Proofs.C10BridgeRun
import Pyx12Verif.Props.C09Found
import Pyx12Verif.Props.C10Hist

/-! ## 2. reader trees are sorted: answer level -/

namespace Pyx12Verif.CtxWalk
open Pyx12Verif.MapSkel Pyx12Verif.Walker Pyx12Verif.WalkerGen

theorem segMono_of_pushes {w : Ctx.Where} {a : Ctx.Answer} (h : Ctx.effPushes a ≠ []) : Ctx.segMonoOk w a = true := by
  unfold Ctx.segMonoOk
  split
  · rfl
  · cases hh : Ctx.effPushes a with
    | nil => exact absurd hh h
    | cons _ _ => simp

section
variable (K : Consts) (root : List Node) (rootId : Nat)
  (hwf : WFMap root = true) (hsu : ShapeUnamb K root = true) (hok : CtxMapOK root = true)
  {a isaId isaPos isaU isaRep : Nat} {isaW : Bool} {isaSeg : Node} {isaRest : List Node}
  (hroot : root[a]? = some (.loop isaId isaPos isaU isaRep isaW (isaSeg :: isaRest)))
  {g gsId gsPos gsU gsRep : Nat} {gsW : Bool} {gsSeg : Node} {gsRest : List Node}
  (hgs : (isaSeg :: isaRest)[g]? = some (.loop gsId gsPos gsU gsRep gsW (gsSeg :: gsRest))) (hgseg : gsSeg.isSeg = true)
  (hne : isaId ≠ gsId) (lid : Option Nat) (hlid : LidOK? root lid) (si : Nat → Ctx.SegInfo)
include hwf hsu hok hroot hgs hgseg hne hlid

/-- **the Walker model's answers are monotone — for every segment sequence** after ISA and GS (pinned): found or not, in
    order or not.  Same hypotheses as `answers_consistent_any`. -/
theorem answers_mono_any (cnt : Counter) (emits : List Emit) :
    Ctx.Mono lid (answersOf K root rootId si a g cnt emits) := by
  have hs := static2_of (trList_of_wfmap hwf) hsu hok
  have hwfa := wfAt_root hwf
  have hch0 : chAt root [] = some root := rfl
  have hchI : chAt root [a] = some (isaSeg :: isaRest) := by
    have := chAt_snoc hch0 a; simp only [List.nil_append] at this; rw [this, hroot]
  have hchG : chAt root [a, g] = some (gsSeg :: gsRest) := by
    have := chAt_snoc hchI g; simp only [List.cons_append, List.nil_append] at this; rw [this, hgs]
  have hisa0 : (isaSeg :: isaRest)[0]? = some isaSeg := by simp
  have hgs0 : (gsSeg :: gsRest)[0]? = some gsSeg := by simp
  have hidI : idAt root [a] = isaId := by simp [idAt, nodeAt, hroot, Node.ident]
  have hidG : idAt root [a, g] = gsId := by
    have : nodeAt root ([a] ++ [g]) = some (.loop gsId gsPos gsU gsRep gsW (gsSeg :: gsRest)) := by
      rw [nodeAt_snoc hchI]; exact hgs
    simp only [List.cons_append, List.nil_append] at this
    simp [idAt, this, Node.ident]
  have hgsA : gsAnswer root (si 1) [a, 0] [a, g] = answerOf root (si 1) [a, g, 0] [] [[a, g]] := by
    have : (idAt root [a] == idAt root [a, g]) = false := by rw [hidI, hidG]; simpa using hne
    simp [gsAnswer, this]
  have hfacts : StepFacts root [a] (posAt root [a, 0]) [a, g, 0] [] [[a, g]] := by
    refine ⟨[a], [a, g], posAt root [a, 0], 0, gsSeg :: gsRest, gsSeg, by simp [cvPops, Ctx.popRun], ?_, by simp,
      ⟨by simp, _, hchG⟩, hchG, hgs0, hgseg, by simp, by simp, by simp, ?_, by simp⟩
    · have := pushRun_one hchI hgs []
      simp only [List.cons_append, List.nil_append] at this
      simp only [cvPushes, List.map_cons, List.map_nil, this, Ctx.pushRun]
    · intro p0 rest e
      simp only [List.cons.injEq] at e
      rw [← e.1]
      have h1 := posAt_snoc hchI hisa0
      have h2 := posAt_snoc hchI hgs
      simp only [List.cons_append, List.nil_append] at h1 h2
      rw [h1, h2]
      exact posSorted_le (wfAt_chAt hwfa hchI).pos hisa0 hgs (Nat.zero_le _)
  have hstepG := step_consistent hwfa hlid ⟨_, hchI⟩ hfacts (si 1)
  have hsegG : SegAt root [a, g, 0] := ⟨[a, g], 0, _, gsSeg, by simp, hchG, hgs0, hgseg⟩
  have hrunM := run_mono_any (K := K) (rootId := rootId) hs hwfa hlid si emits 2 cnt [a, g, 0] hsegG
  -- the two pinned answers open a loop: nothing to compare
  have hm0 : Ctx.segMonoOk { open_ := [], last := 0 } (isaAnswer root (si 0) [a]) = true := by
    apply segMono_of_pushes
    simp [Ctx.effPushes, Ctx.implicitOpen, isaAnswer, answerOf, cvPushes]
  have hm1 : Ctx.segMonoOk { open_ := stackAt root [a], last := posAt root [a, 0] }
      (answerOf root (si 1) [a, g, 0] [] [[a, g]]) = true := by
    apply segMono_of_pushes
    simp [Ctx.effPushes, Ctx.implicitOpen, answerOf, cvPushes]
  simp only [Ctx.Mono, answersOf, Ctx.monoFrom, isa_step hroot lid (si 0), hgsA]
  rw [hstepG]
  simp only [hm0, hm1, Bool.true_and]
  exact hrunM

/-- **every tree the reader builds from the Walker model's answers has the children of every loop node in map order** —
    every requested loop (ISA_LOOP included), every segment sequence after ISA and GS -/
theorem tree_sorted_located (cnt : Counter) (emits : List Emit) :
    ∀ d, Ctx.Yield.tree d ∈ Ctx.ctxRun lid (answersOf K root rootId si a g cnt emits) → Ctx.AllSortedC d :=
  Ctx.trees_sorted (answers_consistent_any K root rootId hwf hsu hok hroot hgs hgseg hne lid hlid si cnt emits)
    (answers_mono_any K root rootId hwf hsu hok hroot hgs hgseg hne lid hlid si cnt emits)

end
end Pyx12Verif.CtxWalk

/-! ## 2. reader trees are sorted: from the text -/

namespace Pyx12Verif.Bridge
open Pyx12Verif Pyx12Verif.Doc

/-- the hypotheses under which every tree of `ctxDoc ms lid text` is sorted, whatever the text -/
structure ReaderOK (ms : Maps) (lid : Option Ctx.LoopId) : Prop where
  good : MapsGood ms
  wf : MapsPosWF ms
  lidOK : LidA ms lid
  notIsa : lid ≠ some ms.ids.isaLoop
  env : BhtAgree ms

/-- the same as Booleans (kernel-evaluable on concrete maps) -/
def readerOKb (ms : Maps) (lid : Option Ctx.LoopId) : Bool :=
  mapsGoodB ms && ms.maps.all (fun m => WalkerGen.WFMap m.root) &&
    (match lid with
     | none => true
     | some l => ms.maps.all (fun m => CtxWalk.lidOKb m.root l) && (l != ms.ids.isaLoop)) &&
    bhtAgreeB ms

theorem readerOK_of_bool {ms : Maps} {lid : Option Ctx.LoopId} (h : readerOKb ms lid = true) : ReaderOK ms lid := by
  simp only [readerOKb, Bool.and_eq_true] at h
  obtain ⟨⟨⟨h1, h2⟩, h3⟩, h4⟩ := h
  refine ⟨mapsGood_of_bool h1, fun m hm => List.all_eq_true.1 h2 m hm, ?_, ?_, bhtAgree_of_bool h4⟩
  · intro l hl m hm
    subst hl
    simp only [Bool.and_eq_true] at h3
    exact CtxWalk.lidOK_of_bool (List.all_eq_true.1 h3.1 m hm)
  · cases lid with
    | none => intro e; cases e
    | some l =>
      simp only [Bool.and_eq_true, bne_iff_ne, ne_eq] at h3
      intro e
      simp only [Option.some.injEq] at e
      exact h3.2 e

/-- **`ctx_tree_sorted`**: for EVERY text, every tree yielded by `ctxDoc ms lid text` has the children of every loop node in
    map order (requested loop ≠ ISA_LOOP) -/
theorem ctx_tree_sorted (ms : Maps) (lid : Option Ctx.LoopId) (text : List Char) (h : ReaderOK ms lid) :
    ∀ t, Ctx.Yield.tree t ∈ (ctxDoc ms lid text).yields → Ctx.AllSortedC t :=
  ctxDoc_ysorted ms lid text h.good h.wf h.lidOK h.notIsa h.env

theorem ctx_tree_sorted_bool (ms : Maps) (lid : Option Ctx.LoopId) (text : List Char) (h : readerOKb ms lid = true) :
    ∀ t, Ctx.Yield.tree t ∈ (ctxDoc ms lid text).yields → Ctx.AllSortedC t :=
  ctx_tree_sorted ms lid text (readerOK_of_bool h)

/-- the statement without "requested loop ≠ ISA_LOOP": FALSE, see Props/C10BridgeExample.lean -/
def ctx_tree_sorted_full : Prop :=
  ∀ (ms : Maps) (lid : Option Ctx.LoopId) (text : List Char), MapsGood ms → MapsPosWF ms → LidA ms lid → BhtAgree ms →
    ∀ t, Ctx.Yield.tree t ∈ (ctxDoc ms lid text).yields → Ctx.AllSortedC t

/-- all loaded maps agree on what sits directly in ISA_LOOP and GS_LOOP (an ISA_LOOP tree holds nodes of the control map and
    of every transaction map selected at a GS) -/
def EnvAgree (ms : Maps) : Prop :=
  ∀ m1 ∈ ms.maps, ∀ m2 ∈ ms.maps, ∀ q1 q2, Walker.idAt m1.root q1 = Walker.idAt m2.root q2 →
    cxPath m1.root q1.dropLast = cxPath m2.root q2.dropLast → cxPath m1.root q1.dropLast <+: gsLoopPath ms →
    cxRecs m1.root q1.dropLast = cxRecs m2.root q2.dropLast ∧ cxPos m1.root q1 = cxPos m2.root q2

/-- NOT PROVED (the gap): ISA_LOOP requested, from the text, for interchanges with one ISA and one GS — ANY other segments.
    The answer-level statement for exactly these runs is `CtxWalk.tree_sorted_located`; what is missing is the glue of
    `ctxDoc` for the two pinned rounds (ISA read off the control map, GS off the selected map: `EnvAgree`). -/
def ctx_tree_sorted_isa_full : Prop :=
  ∀ (ms : Maps) (text : List Char), MapsGood ms → MapsPosWF ms → LidA ms (some ms.ids.isaLoop) → BhtAgree ms → EnvAgree ms →
    (∀ k s, (ctxDoc ms (some ms.ids.isaLoop) text).segs[k]? = some s →
      (k = 0 → s.id = Envelope.idISA) ∧ (k = 1 → s.id = Envelope.idGS) ∧
      (2 ≤ k → s.id ≠ Envelope.idISA ∧ s.id ≠ Envelope.idGS)) →
    ∀ t, Ctx.Yield.tree t ∈ (ctxDoc ms (some ms.ids.isaLoop) text).yields → Ctx.AllSortedC t

/-! ## 3. C10 on reader trees -/

section
variable (ms : Maps) (lid : Option Ctx.LoopId) (text : List Char) (hok : ReaderOK ms lid)
  (md : MapData) (segs : Nat → DataTree.Seg) (t : Ctx.DNode) (ht : Ctx.Yield.tree t ∈ (ctxDoc ms lid text).yields)
include hok ht

/-- the invariant holds of every tree the reader yields, converted as the harness converts it -/
theorem reader_tree_allSorted : DataTree.AllSorted (toDNode md segs t) :=
  toDNode_allSorted md segs t (ctx_tree_sorted ms lid text hok t ht)

/-- `insert_keeps_sorted` at every loop node of a reader tree: its hypothesis holds -/
theorem reader_insert_keeps_sorted (a : List Nat) (hd : DataTree.Hdr) (mk : List DataTree.MNode) (cs : List DataTree.DNode)
    (hg : DataTree.getAt a (toDNode md segs t) = some (.loop hd mk cs)) (n : DataTree.DNode) :
    DataTree.posSorted (DataTree.cleanup cs) ∧ DataTree.posSorted (DataTree.insertChild n cs) := by
  have h := (DataTree.getAt_loop_sorted (reader_tree_allSorted ms lid text hok md segs t ht) hg).1
  exact ⟨h, DataTree.insert_keeps_sorted n cs h⟩

/-- `add_segment_places` on a reader tree, unconditionally: the new node stands after every sibling of the same or an earlier
    position and before every later one, and the children are in map order again -/
theorem reader_add_segment_places (a : List Nat) (s : DataTree.Str) (t' : DataTree.DNode) (na : List Nat)
    (h : DataTree.addSegmentAt (toDNode md segs t) a s = .ok (t', na)) :
    ∃ hd mk cs d sg l1 l2, DataTree.getAt a (toDNode md segs t) = some (.loop hd mk cs) ∧ DataTree.cleanup cs = l1 ++ l2 ∧
      DataTree.getAt a t' = some (.loop hd mk (l1 ++ .seg d sg :: l2)) ∧ na = a ++ [l1.length] ∧
      (∀ y ∈ l2, d.pos < DataTree.nodePos y) ∧ (∀ x ∈ l1, DataTree.nodePos x ≤ d.pos) ∧
      DataTree.posSorted (l1 ++ .seg d sg :: l2) ∧ DataTree.AllSorted t' := by
  obtain ⟨hd, mk, cs, d, sg, l1, l2, h1, h2, h3, h4, h5, h6, h7⟩ := DataTree.add_segment_places _ a s t' na h
  have hall := reader_tree_allSorted ms lid text hok md segs t ht
  have hs := (DataTree.getAt_loop_sorted hall h1).1
  exact ⟨hd, mk, cs, d, sg, l1, l2, h1, h2, h3, h4, h5, h6 hs, h7 hs, DataTree.addSegment_sorted _ a s t' na hall h⟩

omit hok ht in
/-- `serialise_reflects_edits` for `add_segment` on a reader tree: the serialisation before the call is the tree's source
    segments; after it, exactly the parsed segment more -/
theorem reader_serialise_reflects_edits (r : Nat) (a : List Nat) (s : DataTree.Str) :
    DataTree.segsOf (toDNode md segs t) = treeSegs segs t ∧
    ((∃ na sg l1 l2, (DataTree.stepTree (toDNode md segs t) (.addSegment r a s)).1 = .addr r na ∧
        DataTree.mkSegment (toDNode md segs t) a s = .ok sg ∧ treeSegs segs t = l1 ++ l2 ∧
        DataTree.segsOf (DataTree.stepTree (toDNode md segs t) (.addSegment r a s)).2 = l1 ++ sg :: l2) ∨
     (∃ e, (DataTree.stepTree (toDNode md segs t) (.addSegment r a s)).1 = .err e ∧
        (DataTree.stepTree (toDNode md segs t) (.addSegment r a s)).2 = toDNode md segs t)) := by
  have hser := toDNode_serialise md segs t
  refine ⟨hser, ?_⟩
  have := (DataTree.serialise_reflects_edits (toDNode md segs t)).2.2.1 r a s
  rw [hser] at this
  exact this

/-- **after ANY history of calls starting from a reader tree**: every tree of the forest is sorted throughout, and the
    serialised forest is the abstract list edits applied to the tree's source segments -/
theorem reader_history (ops : List DataTree.Op) :
    DataTree.ForestSorted (DataTree.run [toDNode md segs t] ops).2 ∧
    DataTree.serF (DataTree.run [toDNode md segs t] ops).2 =
      DataTree.absRun [treeSegs segs t] (DataTree.resolveRun [toDNode md segs t] ops) := by
  refine ⟨?_, ?_⟩
  · apply DataTree.run_sorted
    intro x hx
    simp only [List.mem_singleton] at hx
    rw [hx]
    exact reader_tree_allSorted ms lid text hok md segs t ht
  · rw [DataTree.history_refinement]
    simp [DataTree.serF, toDNode_serialise]

/-- … so the insertion laws hold at every loop node of every tree reached by any history -/
theorem reader_history_insert (ops : List DataTree.Op) (i : Nat) (T : DataTree.DNode)
    (hT : (DataTree.run [toDNode md segs t] ops).2[i]? = some T) (a : List Nat) (hd : DataTree.Hdr)
    (mk : List DataTree.MNode) (cs : List DataTree.DNode) (hg : DataTree.getAt a T = some (.loop hd mk cs))
    (n : DataTree.DNode) :
    DataTree.posSorted (DataTree.cleanup cs) ∧ DataTree.posSorted (DataTree.insertChild n cs) := by
  have hall := (reader_history ms lid text hok md segs t ht ops).1 T (List.mem_of_getElem? hT)
  have h := (DataTree.getAt_loop_sorted hall hg).1
  exact ⟨h, DataTree.insert_keeps_sorted n cs h⟩

end

/-! ### kernel-evaluable forms of the invariant (for the examples) -/

def leAllC (n : Nat) : List Ctx.DNode → Bool
  | [] => true
  | d :: r => decide (n ≤ d.pos) && leAllC n r

def sortedCb : List Ctx.DNode → Bool
  | [] => true
  | d :: r => leAllC d.pos r && sortedCb r

mutual
def allSortedCb : Ctx.DNode → Bool
  | .seg _ _ _ => true
  | .loop _ _ ch => sortedCb ch && allSortedCLb ch
def allSortedCLb : List Ctx.DNode → Bool
  | [] => true
  | d :: r => allSortedCb d && allSortedCLb r
end

theorem leAllC_iff (n : Nat) (l : List Ctx.DNode) : leAllC n l = true ↔ ∀ y ∈ l, n ≤ y.pos := by
  induction l with
  | nil => simp [leAllC]
  | cons d r ih => simp [leAllC, ih]

theorem sortedCb_iff (l : List Ctx.DNode) : sortedCb l = true ↔ Ctx.sortedC l := by
  induction l with
  | nil => simp [sortedCb, Ctx.sortedC]
  | cons d r ih =>
    simp only [sortedCb, Bool.and_eq_true, leAllC_iff, ih, Ctx.sortedC, List.pairwise_cons]

theorem allSortedCb_iff (t : Ctx.DNode) : allSortedCb t = true ↔ Ctx.AllSortedC t := by
  refine Ctx.DNode.rec (motive_1 := fun t => allSortedCb t = true ↔ Ctx.AllSortedC t)
    (motive_2 := fun ch => allSortedCLb ch = true ↔ Ctx.AllSortedCL ch) ?_ ?_ ?_ ?_ t
  · intro s p n; simp [allSortedCb, Ctx.AllSortedC]
  · intro p n ch ih; simp [allSortedCb, Ctx.AllSortedC, sortedCb_iff, ih]
  · simp [allSortedCLb, Ctx.AllSortedCL]
  · intro c r ihc ihr; simp [allSortedCLb, Ctx.AllSortedCL, ihc, ihr]

def leAllD (n : Nat) : List DataTree.DNode → Bool
  | [] => true
  | d :: r => decide (n ≤ DataTree.nodePos d) && leAllD n r

def posSortedB : List DataTree.DNode → Bool
  | [] => true
  | d :: r => leAllD (DataTree.nodePos d) r && posSortedB r

mutual
def allSortedB : DataTree.DNode → Bool
  | .seg _ _ => true
  | .dead => true
  | .loop _ _ cs => posSortedB (DataTree.cleanup cs) && allSortedLB cs
def allSortedLB : List DataTree.DNode → Bool
  | [] => true
  | d :: r => allSortedB d && allSortedLB r
end

theorem leAllD_iff (n : Nat) (l : List DataTree.DNode) : leAllD n l = true ↔ ∀ y ∈ l, n ≤ DataTree.nodePos y := by
  induction l with
  | nil => simp [leAllD]
  | cons d r ih => simp [leAllD, ih]

theorem posSortedB_iff (l : List DataTree.DNode) : posSortedB l = true ↔ DataTree.posSorted l := by
  induction l with
  | nil => simp [posSortedB, DataTree.posSorted]
  | cons d r ih =>
    simp only [posSortedB, Bool.and_eq_true, leAllD_iff, ih, DataTree.posSorted, List.pairwise_cons]

theorem allSortedB_iff (t : DataTree.DNode) : allSortedB t = true ↔ DataTree.AllSorted t := by
  refine DataTree.DNode.rec (motive_1 := fun t => allSortedB t = true ↔ DataTree.AllSorted t)
    (motive_2 := fun cs => allSortedLB cs = true ↔ DataTree.AllSortedL cs) ?_ ?_ ?_ ?_ ?_ t
  · intro d s; simp [allSortedB, DataTree.AllSorted]
  · intro hd mk cs ih; simp [allSortedB, DataTree.AllSorted, posSortedB_iff, ih]
  · simp [allSortedB, DataTree.AllSorted]
  · simp [allSortedLB, DataTree.AllSortedL]
  · intro c r ihc ihr; simp [allSortedLB, DataTree.AllSortedL, ihc, ihr]

end Pyx12Verif.Bridge
