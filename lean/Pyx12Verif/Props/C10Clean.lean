/-
C10 (extension) — the hypothesis of `copy_preserves_text` is an invariant of the API.

`SegClean` (no delimiter inside segment data, not the ISA) is assumed by `segCopy_format`.  Here it is shown to be
what the API maintains: starting from a forest whose segments are clean and carry the interchange's delimiters
`(st, et, sub)`, after ANY history of calls whose written values contain neither inner delimiter and whose added
segment texts are not ISA segments, every segment of every tree is clean again (`run_clean`) — so at every point of
such a history `copy()` of any node preserves the serialised text and every value (`copy_in_history`).
The proof goes through the history-level refinement: `step_refinement` says what the serialisation after a call
consists of, and each abstract list operation puts only clean segments there (`absApply_ok`).
-/
import Pyx12Verif.Props.C10Hist
import Pyx12Verif.Props.C10Copy
import Pyx12Verif.Proofs.DataTreeClean

namespace Pyx12Verif.DataTree

/-- a clean segment that carries the interchange's delimiters -/
def CleanD (st et sub : Char) (s : Seg) : Prop := s.st = st ∧ s.et = et ∧ s.sub = sub ∧ SegClean s

def AbsOK (st et sub : Char) (A : AbsForest) : Prop := ∀ x ∈ A, ∀ s ∈ x, CleanD st et sub s

/-- every segment of every tree of the forest is clean and carries the delimiters -/
def ForestOK (st et sub : Char) (σ : Forest) : Prop := AbsOK st et sub (serF σ)

/-- the calls of the domain: written values contain neither inner delimiter; added segments are not ISA -/
def OpOK (st et sub : Char) : Op → Prop
  | .getValue _ _ _ => True
  | .setValue _ _ _ v => StrOK et sub v
  | .existsQ _ _ _ => True
  | .count _ _ _ => True
  | .first _ _ _ => True
  | .select _ _ _ => True
  | .addSegment _ _ s => (segParse s st et sub).id ≠ isaId
  | .addLoop _ _ s => (segParse s st et sub).id ≠ isaId
  | .addNode _ _ _ => True
  | .deleteSegment _ _ _ => True
  | .deleteNode _ _ _ => True
  | .copy _ _ => True

def CallOK (st et sub : Char) : AbsCall → Prop
  | .skip => True
  | .set _ _ _ v => StrOK et sub v
  | .addSegment _ _ st' et' sb' s => st' = st ∧ et' = et ∧ sb' = sub ∧ (segParse s st et sub).id ≠ isaId
  | .addLoop _ _ st' et' sb' s => st' = st ∧ et' = et ∧ sb' = sub ∧ (segParse s st et sub).id ≠ isaId
  | .deleteSegment _ _ _ _ _ _ => True
  | .deleteNode _ _ _ => True
  | .addNode _ _ _ => True
  | .copy _ _ _ => True

/-! ## each abstract operation puts only clean segments into the serialisation -/

section
variable {st et sub : Char}

theorem parsed_ok (hne : sub ≠ et) (s : Str) (hid : (segParse s st et sub).id ≠ isaId) :
    CleanD st et sub (segParse s st et sub) := by
  obtain ⟨h1, h2, h3⟩ := segParse_terms s st et sub
  exact ⟨h1, h2, h3, segParse_clean s st et sub hne hid⟩

theorem absSet_ok (i : Nat) (rd v : Str) (x : AbsTree) (hx : ∀ s ∈ x, CleanD st et sub s) (hv : StrOK et sub v) :
    ∀ s ∈ absSet i rd v x, CleanD st et sub s := by
  simp only [absSet]
  split
  · exact hx
  · rename_i s0 h0
    split
    · exact hx
    · rename_i s2 h2
      intro s hs
      rcases List.mem_or_eq_of_mem_set hs with h | h
      · exact hx s h
      · obtain ⟨c1, c2, c3, c4⟩ := hx s0 (List.mem_of_getElem? h0)
        obtain ⟨d1, d2, d3, d4⟩ := segSetStr_clean s0 s2 rd v c4 (by rw [c2, c3]; exact hv) h2
        rw [h]; exact ⟨by rw [d2, c1], by rw [d3, c2], by rw [d4, c3], d1⟩

theorem absInsert_ok (i : Nat) (x : AbsTree) (new : List Seg) (hx : ∀ s ∈ x, CleanD st et sub s)
    (hn : ∀ s ∈ new, CleanD st et sub s) : ∀ s ∈ x.take i ++ new ++ x.drop i, CleanD st et sub s := by
  intro s hs
  simp only [List.mem_append] at hs
  rcases hs with (h | h) | h
  · exact hx s (List.mem_of_mem_take h)
  · exact hn s h
  · exact hx s (List.mem_of_mem_drop h)

theorem absDeleteSegment_ok (i : Nat) (a b c : Char) (t : Str) (x : AbsTree) (hx : ∀ s ∈ x, CleanD st et sub s) :
    ∀ s ∈ absDeleteSegment i a b c t x, CleanD st et sub s := by
  simp only [absDeleteSegment]
  split
  · exact hx
  · split
    · intro s hs; exact hx s (List.mem_of_mem_eraseIdx hs)
    · exact hx

theorem absDeleteNode_ok (i n : Nat) (x : AbsTree) (hx : ∀ s ∈ x, CleanD st et sub s) :
    ∀ s ∈ absDeleteNode i n x, CleanD st et sub s := by
  intro s hs
  simp only [absDeleteNode, List.mem_append] at hs
  rcases hs with h | h
  · exact hx s (List.mem_of_mem_take h)
  · exact hx s (List.mem_of_mem_drop h)

theorem absCopy_ok (i n : Nat) (x : AbsTree) (hx : ∀ s ∈ x, CleanD st et sub s) :
    ∀ s ∈ absCopy i n x, CleanD st et sub s := by
  intro s hs
  simp only [absCopy, List.mem_map] at hs
  obtain ⟨s0, h0, rfl⟩ := hs
  obtain ⟨c1, c2, c3, c4⟩ := hx s0 (List.mem_of_mem_drop (List.mem_of_mem_take h0))
  have e := segCopy_eq s0 c4
  exact ⟨by rw [e]; exact c1, by rw [e]; exact c2, by rw [e]; exact c3, segCopy_clean s0 c4⟩

theorem mem_modify {α : Type} (A : List α) (r : Nat) (f : α → α) (y : α) (h : y ∈ A.modify r f) :
    y ∈ A ∨ ∃ x ∈ A, y = f x := by
  induction A generalizing r with
  | nil => simp at h
  | cons a t ih =>
    cases r with
    | zero =>
      simp at h
      rcases h with h | h
      · exact Or.inr ⟨a, by simp, h⟩
      · exact Or.inl (by simp [h])
    | succ k =>
      simp at h
      rcases h with h | h
      · exact Or.inl (by simp [h])
      · rcases ih k h with h | ⟨x, hx, e⟩
        · exact Or.inl (by simp [h])
        · exact Or.inr ⟨x, by simp [hx], e⟩

theorem modify_ok (A : AbsForest) (r : Nat) (f : AbsTree → AbsTree) (hA : AbsOK st et sub A)
    (hf : ∀ x, (∀ s ∈ x, CleanD st et sub s) → ∀ s ∈ f x, CleanD st et sub s) : AbsOK st et sub (A.modify r f) := by
  intro y hy
  rcases mem_modify A r f y hy with h | ⟨x, hx, rfl⟩
  · exact hA y h
  · exact hf x (hA x hx)

/-- **every abstract operation keeps the serialised forest clean** -/
theorem absApply_ok (hne : sub ≠ et) (A : AbsForest) (c : AbsCall) (hA : AbsOK st et sub A)
    (hc : CallOK st et sub c) : AbsOK st et sub (absApply A c) := by
  cases c with
  | skip => exact hA
  | set r i rd v => exact modify_ok A r _ hA (fun x hx => absSet_ok i rd v x hx hc)
  | addSegment r i a b c s =>
    obtain ⟨rfl, rfl, rfl, hid⟩ := hc
    refine modify_ok A r _ hA (fun x hx => ?_)
    have := absInsert_ok i x [segParse s a b c] hx (by
      intro s' hs'; simp only [List.mem_singleton] at hs'; rw [hs']; exact parsed_ok hne s hid)
    simpa [absAddSegment] using this
  | addLoop r i a b c s =>
    obtain ⟨rfl, rfl, rfl, hid⟩ := hc
    refine modify_ok A r _ hA (fun x hx => ?_)
    have := absInsert_ok i x [segParse s a b c] hx (by
      intro s' hs'; simp only [List.mem_singleton] at hs'; rw [hs']; exact parsed_ok hne s hid)
    simpa [absAddLoop] using this
  | deleteSegment r i a b c s => exact modify_ok A r _ hA (fun x hx => absDeleteSegment_ok i a b c s x hx)
  | deleteNode r i n => exact modify_ok A r _ hA (fun x hx => absDeleteNode_ok i n x hx)
  | addNode r i j =>
    simp only [absApply]
    split
    · exact hA
    · rename_i m hm
      have hmm := hA m (List.mem_of_getElem? hm)
      intro y hy
      rcases List.mem_or_eq_of_mem_set hy with h | h
      · exact modify_ok A r _ hA (fun x hx => absInsert_ok i x m hx hmm) y h
      · rw [h]; simp
  | copy r i n =>
    simp only [absApply]
    split
    · exact hA
    · rename_i x hx
      intro y hy
      simp only [List.mem_append, List.mem_singleton] at hy
      rcases hy with h | h
      · exact hA y h
      · rw [h]; exact absCopy_ok i n x (hA x (List.mem_of_getElem? hx))

end

/-! ## the resolved call of a call of the domain is clean -/

theorem addSegLocus_terms (t : DNode) (a : List Nat) (s : Str) (i : Nat) (st et sb : Char)
    (h : addSegLocus t a s = some (i, st, et, sb)) : termsFrom t (a.length + 1) a = .ok (st, et, sb) := by
  simp only [addSegLocus] at h
  split at h
  · simp at h
  · split at h
    · simp at h
    · rename_i st' et' sb' ht
      split at h
      · simp at h
      · simp at h
        obtain ⟨_, rfl, rfl, rfl⟩ := h
        exact ht

theorem addLoopLocus_terms (t : DNode) (a : List Nat) (s : Str) (i : Nat) (st et sb : Char)
    (h : addLoopLocus t a s = some (i, st, et, sb)) : termsFrom t (a.length + 1) a = .ok (st, et, sb) := by
  simp only [addLoopLocus] at h
  split at h
  · simp at h
  · split at h
    · simp at h
    · rename_i st' et' sb' ht
      split at h
      · simp at h
      · simp at h
      · split at h
        · simp at h
        · simp at h
          obtain ⟨_, rfl, rfl, rfl⟩ := h
          exact ht

theorem forestOK_tree {st et sub : Char} {σ : Forest} (h : ForestOK st et sub σ) (r : Nat) (t : DNode)
    (hr : σ[r]? = some t) : ∀ s ∈ segsOf t, CleanD st et sub s :=
  h (segsOf t) (by simp only [serF, List.mem_map]; exact ⟨t, List.mem_of_getElem? hr, rfl⟩)

theorem terms_of_forest {st et sub : Char} {σ : Forest} (h : ForestOK st et sub σ) (r : Nat) (t : DNode)
    (hr : σ[r]? = some t) (f : Nat) (a : List Nat) (st' et' sb' : Char)
    (ht : termsFrom t f a = .ok (st', et', sb')) : st' = st ∧ et' = et ∧ sb' = sub := by
  obtain ⟨s, hs, e1, e2, e3⟩ := termsFrom_sound t f a st' et' sb' ht
  obtain ⟨c1, c2, c3, _⟩ := forestOK_tree h r t hr s hs
  exact ⟨by rw [← e1, c1], by rw [← e2, c2], by rw [← e3, c3]⟩

theorem resolve_ok {st et sub : Char} (σ : Forest) (op : Op) (h : ForestOK st et sub σ) (ho : OpOK st et sub op) :
    CallOK st et sub (resolve σ op) := by
  cases op with
  | copy r a =>
    simp only [resolve]
    cases hr : σ[r]? with
    | none => trivial
    | some t => cases hn : getAt a t <;> simp [hn, CallOK]
  | addNode r a j =>
    simp only [resolve]
    by_cases hrj : r = j
    · simp [hrj, CallOK]
    · simp only [hrj, if_false]
      cases hr : σ[r]? with
      | none => trivial
      | some t =>
        cases hj : σ[j]? with
        | none => trivial
        | some n => cases hl : addNodeLocus t a n <;> simp [hl, mkAddNode, CallOK]
  | getValue r a p | existsQ r a p | count r a p | first r a p | select r a p =>
    simp only [resolve, opRoot]
    cases σ[r]? <;> simp [resolveTree, CallOK]
  | setValue r a p v =>
    simp only [resolve, opRoot]
    cases σ[r]? with
    | none => trivial
    | some t =>
      simp only [resolveTree]
      cases hl : setLocus t a p with
      | none => trivial
      | some x => obtain ⟨i, rd⟩ := x; exact ho
  | addSegment r a s =>
    simp only [resolve, opRoot]
    cases hr : σ[r]? with
    | none => trivial
    | some t =>
      simp only [resolveTree]
      cases hl : addSegLocus t a s with
      | none => trivial
      | some x =>
        obtain ⟨i, st', et', sb'⟩ := x
        obtain ⟨e1, e2, e3⟩ := terms_of_forest h r t hr _ a st' et' sb' (addSegLocus_terms t a s i st' et' sb' hl)
        exact ⟨e1, e2, e3, ho⟩
  | addLoop r a s =>
    simp only [resolve, opRoot]
    cases hr : σ[r]? with
    | none => trivial
    | some t =>
      simp only [resolveTree]
      cases hl : addLoopLocus t a s with
      | none => trivial
      | some x =>
        obtain ⟨i, st', et', sb'⟩ := x
        obtain ⟨e1, e2, e3⟩ := terms_of_forest h r t hr _ a st' et' sb' (addLoopLocus_terms t a s i st' et' sb' hl)
        exact ⟨e1, e2, e3, ho⟩
  | deleteSegment r a s =>
    simp only [resolve, opRoot]
    cases σ[r]? with
    | none => trivial
    | some t =>
      simp only [resolveTree]
      cases hl : delSegLocus t a s with
      | none => trivial
      | some x => obtain ⟨i, st', et', sb'⟩ := x; trivial
  | deleteNode r a p =>
    simp only [resolve, opRoot]
    cases σ[r]? with
    | none => trivial
    | some t =>
      simp only [resolveTree]
      cases hl : delNodeLocus t a p with
      | none => trivial
      | some x => obtain ⟨i, n⟩ := x; trivial

/-! ## the invariant -/

/-- one call of the domain keeps every segment of every tree clean -/
theorem step_clean {st et sub : Char} (hne : sub ≠ et) (σ : Forest) (op : Op) (h : ForestOK st et sub σ)
    (ho : OpOK st et sub op) : ForestOK st et sub (step σ op).2 := by
  unfold ForestOK
  rw [step_refinement]
  exact absApply_ok hne _ _ h (resolve_ok σ op h ho)

/-- **cleanliness is an invariant of every history of the domain** -/
theorem run_clean {st et sub : Char} (hne : sub ≠ et) (σ : Forest) (ops : List Op) (h : ForestOK st et sub σ)
    (ho : ∀ op ∈ ops, OpOK st et sub op) : ForestOK st et sub (run σ ops).2 := by
  induction ops generalizing σ with
  | nil => exact h
  | cons op r ih =>
    simp only [run]
    exact ih (step σ op).2 (step_clean hne σ op h (ho op (by simp))) (fun o hmem => ho o (by simp [hmem]))

/-- **`copy()` preserves every observation, at any point of any history of the domain**: after a history of calls
whose written values contain no inner delimiter and whose added segments are not ISA, `copy()` of ANY node of ANY
tree serialises to the same text as that node, segment by segment, and its segments answer `get_value` alike -/
theorem copy_in_history {st et sub : Char} (hne : sub ≠ et) (σ : Forest) (ops : List Op)
    (h : ForestOK st et sub σ) (ho : ∀ op ∈ ops, OpOK st et sub op)
    (r : Nat) (a : List Nat) (t n : DNode) (hr : (run σ ops).2[r]? = some t) (hn : getAt a t = some n) :
    AllClean n ∧ fmtAll (copyNode n) = fmtAll n ∧
    ∃ c, (step (run σ ops).2 (.copy r a)).2 = (run σ ops).2 ++ [c] ∧ fmtAll c = fmtAll n ∧ AllClean c := by
  have hc : AllClean n := by
    intro s hs
    obtain ⟨l1, l2, e, _⟩ := segsOf_split a t n hn
    exact (forestOK_tree (run_clean hne σ ops h ho) r t hr s (by rw [e]; simp [hs])).2.2.2
  obtain ⟨c, h1, _, h3, h4⟩ := copy_call_preserves_text _ r a t n hr hn hc
  exact ⟨hc, copy_preserves_text n hc, c, h1, h3, h4⟩

/-! ## non-vacuity -/

/-- the example tree is clean with delimiters `~ * :` -/
theorem exTree_ok : ForestOK '~' '*' ':' [exTree] := by
  intro x hx s hs
  simp only [serF, List.map_cons, List.map_nil, List.mem_singleton] at hx
  subst hx
  have : segsOf exTree = [exSeg ['C', 'L', 'M'] [[['A']], [['1']]], exSeg ['R', 'E', 'F'] [[['E', 'A']], [['X']]],
      exSeg ['L', 'X'] [[['1']]], exSeg ['S', 'V', '1'] [[['H', 'C'], ['9', '9']], [['5']]],
      exSeg ['L', 'X'] [[['2']]]] := by decide +kernel
  rw [this] at hs
  simp only [List.mem_cons, List.not_mem_nil, or_false] at hs
  rcases hs with rfl | rfl | rfl | rfl | rfl <;>
    exact ⟨rfl, rfl, rfl, exSeg_clean _ _ (by decide) (by decide) (by decide)⟩

/-- the example history of Props/C10Hist.lean is in the domain -/
theorem exHistory_ok : ∀ op ∈ exHistory, OpOK '~' '*' ':' op := by
  intro op hop
  simp only [exHistory, List.mem_cons, List.not_mem_nil, or_false] at hop
  rcases hop with rfl | rfl | rfl | rfl | rfl | rfl | rfl | rfl | rfl | rfl <;>
    first | trivial | (simp only [OpOK]; decide)

example : ForestOK '~' '*' ':' (run [exTree] exHistory).2 :=
  run_clean (by decide) _ _ exTree_ok exHistory_ok

end Pyx12Verif.DataTree
