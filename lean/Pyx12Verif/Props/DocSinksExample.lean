/-
Non-vacuity for Props/DocSinks.lean: the maps of Props/DocExample.lean with loop names in the interning table and a REF
definition whose ids are well formed; whole documents run through `docXml` / `docHtmlWrites` by the kernel.

  * `MapsOK` holds for these maps (decidable form), so `docXml_balanced` / `docXml_nesting` apply to every text;
  * conformant document: the XML exists and is balanced; ALL hypotheses of `docXml_roundtrip_generated` are satisfied;
  * a document with a segment the walker cannot place (`ZZZ`): it is written with the node of the previous round — a second
    `seg id='ST'` inside a fresh `ST_LOOP` element (the behaviour of the code, confirmed by the differential);
  * a faulty document: seven segment lines, each decoding to its reader segment; the message lines are escaped.
-/
import Pyx12Verif.Props.DocSinks
import Pyx12Verif.Props.DocExample3

namespace Pyx12Verif.Doc.ExS
open Pyx12Verif Pyx12Verif.Doc Pyx12Verif.Doc.Ex MapSkel WalkerGen

def loopIds : List (Str × Nat) := [("ISA_LOOP".toList, 10), ("GS_LOOP".toList, 12), ("ST_LOOP".toList, 14)]

def refDefS : SegDef :=
  { sid := "REF".toList, name := "Reference".toList, notes := [⟨'P', [2, 3]⟩],
    children := [an 1 .R 2 3 "128" "REF01", an 2 .S 1 30 "127" "REF02", an 3 .S 1 30 "352" "REF03"] }

def mapS (file : String) : MapX :=
  { file := file.toList, is837 := false, v5010 := false, rootId := 0, root := root,
    defs := [([0, 0], isaDef), ([0, 1, 0], gsDef), ([0, 1, 1, 0], stDef), ([0, 1, 1, 1], refDefS), ([0, 1, 1, 2], seDef),
             ([0, 1, 2], geDef), ([0, 2], ieaDef)],
    intern := (mapX file).intern ++ loopIds }

def msS : Maps := { ms with maps := [mapS "x12.control.00401.xml", mapS "m.xml"] }

def sc : SinkCtx :=
  { loopName := fun _ ip => if ip = [0] then "Interchange".toList else if ip = [0, 1] then "Group".toList else "Set".toList,
    nodeMsg := fun _ _ => "text & <b>".toList, date := "01/02/2026 03:04:05".toList }

/-- the per-map side condition holds (evaluated by the kernel through the enumeration of the loop paths) -/
theorem msS_ok : MapsOK msS (allPaths msS) := mapsOK_of_b _ _ (by decide +kernel)

/-- … and so does the condition for all loaded maps together (`docXml_balanced_all`, `docXml_nesting_all`) -/
theorem msS_ok2 : MapsOK2 msS := mapsOK2_of_b _ (by decide +kernel)

/-- conformant document: the XML exists, and `docXml_balanced` speaks about it -/
example : ∃ evs, docXml msS ctx good = some evs ∧ Xml.wellFormed evs = true := by
  have hs : (docXml msS ctx good).isSome = true := by decide +kernel
  cases h : docXml msS ctx good with
  | none => rw [h] at hs; cases hs
  | some evs => exact ⟨evs, rfl, docXml_balanced msS ctx good _ msS_ok evs h⟩

/-- … with the `seg` elements at the depth of their loops: ISA / IEA in ISA_LOOP, GS / GE in GS_LOOP, ST REF SE in ST_LOOP -/
example : (docXml msS ctx good).map (fun evs => (Xml.segCtxs [] evs).map (fun p => (p.1.length, p.2))) =
    some [(2, some "ISA".toList), (3, some "GS".toList), (4, some "ST".toList), (4, some "REF".toList), (4, some "SE".toList),
          (3, some "GE".toList), (2, some "IEA".toList)] := by decide +kernel

/-- a segment the walker cannot place is written with the PREVIOUS node: `ZZZ*1` appears as a second `seg id='ST'`, in a
    fresh `ST_LOOP` element (ST is the first segment of its loop, so the loop element is closed and opened again) -/
example : (docXml msS ctx unknownSeg).map (fun evs => (Xml.segCtxs [] evs).map (fun p => (p.1.length, p.2))) =
    some [(2, some "ISA".toList), (3, some "GS".toList), (4, some "ST".toList), (4, some "ST".toList), (4, some "SE".toList),
          (3, some "GE".toList), (2, some "IEA".toList)] := by decide +kernel
example : (docXml msS ctx unknownSeg).map (fun evs => (evs.filter (fun e => e == .start Xml.tagLoop (some "ST_LOOP".toList))).length) =
    some 2 := by decide +kernel
example : (docXml msS ctx unknownSeg).map Xml.wellFormed = some true := by decide +kernel

/-- the message of the unplaced segment (text from the context, with markup characters) is escaped -/
example : (docHtmlWrites msS ctx sc unknownSeg).map (fun ws => (ws.drop 9).take 1) =
    some ["<span class=\"error\">&nbsp;text&nbsp;&amp;&nbsp;&lt;b&gt; (Segment Error Code: 1)</span><br />\n".toList] := by
  decide +kernel

end Pyx12Verif.Doc.ExS
