/-
Props/DocSinksTotalHtml.lean, non-vacuity (1): on the maps of Props/DocSinksExample.lean every reported node has a view
(hypothesis `hviews`); a conformant document: the writes exist, as `docHtml_total` says; a faulty one: `docHtml_total_wf` speaks about its writes.
(A document with an unplaceable segment, a document with a 100-element segment: Props/DocSinksTotalHtmlExample2.lean.)
-/
import Pyx12Verif.Props.DocSinksTotalHtmlCounter

namespace Pyx12Verif.Doc.ExH
open Pyx12Verif Pyx12Verif.Doc Pyx12Verif.Doc.Ex Pyx12Verif.Doc.ExS

/-! ### non-vacuity of `docHtml_total` -/

/-- `hviews` holds on the example maps for the conformant document -/
theorem views_good : ∀ o ∈ (validateDoc msS ctx good).segs, ∃ v, nodeView msS o.node = some v :=
  views_of_b _ _ (by decide +kernel)

/-- all hypotheses of `docHtml_total` are satisfied by the conformant document; its conclusion: the writes exist -/
example : ∃ ws, docHtmlWrites msS ctx sc good = some ws := by
  have hs : allShort (SegText.readAll { rest := good, sizes := [] }) = true := by decide +kernel
  cases hread : SegText.readAll { rest := good, sizes := [] } with
  | error e => rw [hread] at hs; cases hs
  | ok hd rr =>
    exact (docHtml_total msS ctx sc good hd rr hread ⟨true, by decide +kernel⟩ views_good).2 (short_of_b good hd rr hread hs)

/-- `docHtml_total_wf` speaks about the writes of the faulty document: header first, footer last, as many recognised
    segment lines as reader segments -/
example : ∃ ws hd rr, docHtmlWrites msS ctx sc faulty = some ws ∧
    SegText.readAll { rest := faulty, sizes := [] } = .ok hd rr ∧ ws.head? = some (Html.headerText sc.date) ∧
    ws.getLast? = some Html.footerText ∧ (ws.filter Html.isSegWrite).length = rr.segs.length := by
  have hs : (docHtmlWrites msS ctx sc faulty).isSome = true := by decide +kernel
  cases h : docHtmlWrites msS ctx sc faulty with
  | none => rw [h] at hs; cases hs
  | some ws =>
    obtain ⟨hd, rr, pairs, tail, hread, _, h1, h2, h3, h4, _⟩ := docHtml_total_wf msS ctx sc faulty ws h
    refine ⟨ws, hd, rr, rfl, hread, h1, h2, ?_⟩
    have e1 := congrArg List.length h4
    have e2 := congrArg List.length h3
    simp only [List.length_map, List.length_mapIdx] at e1 e2
    omega

end Pyx12Verif.Doc.ExH
