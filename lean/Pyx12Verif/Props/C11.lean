/-
C11 — the writer always emits balanced envelopes with correct counts.

Model: `Model/Writer.lean` (`X12Writer.Write`, `_popToLoop`, `_close_*`, `_get_trailer_segment`,
`_write_isa_segment`, `Close`) on top of the shared `X12Base._parse_segment` of `Model/Envelope.lean`.  The reader that
re-reads the output is C04's `Envelope.run Fixes.all` (guard fixes applied, `check_837_lx` off = its default) on the
views `rview` of the segments; at text level the segments are those C01's front end (`SegText.segments`: tokeniser +
`Segment(...)`) recovers from what `render` puts on the stream.  Histories: `wellNested` (`Spec/Writer.lean`), the
automaton of the grammar `Interchange* ; Interchange = ISA Group* [IEA] ; Group = GS Set* [GE] ; Set = ST body* [SE]`,
a trailer omitted only when the next envelope event is an enclosing trailer or `Close`; supplied trailers arbitrary.
Domain (`SegDom`, `DelimsOk`/`CfgOk`, `countLimit`): composites have a component; an ISA has 16 elements; every header
carries a non-empty control number free of the delimiters (a missing one is printed `None` and an empty one is dropped
from the generated trailer — both re-read as a mismatch); delimiters are pairwise distinct and no letters or digits;
fewer than 10^4300 segments (Python's int/str conversion limit, which `Envelope.pyInt` models).

  writer_body_preserved            every non-trailer segment is handed to the stream unchanged and in order (ANY history,
                                   well nested or not; the ISA with ISA11/ISA16 set)
  reader_clean_after_close         well nested, control numbers fresh in their scope (ISA13 / file, GS06 / interchange,
                                   ST02 / group — a hypothesis on the history): Close after ANY prefix gives an output on
                                   which the reader reports no envelope error
  reader_clean_after_close_text    … the same for the TEXT on the stream, re-tokenised and re-parsed (C01 ∘ C11 ∘ C04)
  writer_trailers_true(_text)      fresh or not: the output IS the flattening of a structured document, and in EVERY
                                   structured reading of it each IEA / GE / SE carries its header's control number and
                                   groups.length / sets.length / body.length + 2 (the structural recount of Spec/Envelope)
  isa_carries_delims               standard ISA field widths: `RawX12File`'s header parse of the written ISA recovers the
                                   writer's delimiters (repetition separator for 00501)
  writer_total                     no exception other than the deliberate X12Error (ISA without 16 elements)
  orphan_trailer_dropped, short_stack_closes_interchange, isa_refused
                                   what `Write` does with a trailer the stack cannot match (silent in this code, no crash)
  freshCtl_iff_freshFrom           the declarative freshness is what `X12Base`'s id lists check
  reader_end_to_end                history starting with a standard ISA: the text goes through C01's whole reader
                                   (header parse, buffered tokeniser under any read sizes, `__iter__`): writer's
                                   delimiters recovered, no exception, no envelope error
  grammar_wellNested               the automaton accepts every history of the grammar given as a datatype
Nothing is left as `_partial`.  Not covered by a theorem, only by the correspondence: `check_837_lx = True` on the writer
(no caller sets it; the model keeps the branch), composite control numbers.
-/
import Pyx12Verif.Proofs.WriterMisc
import Pyx12Verif.Proofs.WriterHeader
import Pyx12Verif.Proofs.WriterText
import Pyx12Verif.Proofs.WriterGrammar
import Pyx12Verif.Props.C04
import Pyx12Verif.Props.C01

namespace Pyx12Verif.Writer
open Pyx12Verif.Envelope (RState SegView Kind Fixes Str Level Err idISA idIEA idGS idGE idST idSE idHL idLX idCLM decimal
  isEnvId mkISA mkGS mkST mkSE mkGE mkIEA pyInt fieldInt natInt baseStep step dupErr SameEnv Runs Normal)
open Pyx12Verif.SegText (Seg Delims joinWith normComp splitOn)

/-! ### plumbing -/

theorem bind_eq_ok {α β : Type} {o : Outcome α} {f : α → Outcome β} {b : β} (h : o.bind f = .ok b) :
    ∃ a, o = .ok a ∧ f a = .ok b := by
  cases o with
  | ok a => exact ⟨a, rfl, h⟩
  | raised => cases h
  | crash e => cases h

theorem writeAll_cons_ok {c : Cfg} {w w' : RState} {s : Seg} {r outs : List Seg}
    (h : writeAll c w (s :: r) = .ok (w', outs)) :
    ∃ w1 o1 o2, write c w s = .ok (w1, o1) ∧ writeAll c w1 r = .ok (w', o2) ∧ outs = o1 ++ o2 := by
  simp only [writeAll] at h
  obtain ⟨a, ha, h⟩ := bind_eq_ok h
  obtain ⟨b, hb, h⟩ := bind_eq_ok h
  injection h with h
  injection h with e1 e2
  exact ⟨a.1, a.2, b.2, ha, by rw [hb, ← e1], e2.symm⟩

theorem init_sim (d : Delims) : Sim d .top (RState.init false) (RState.init false) :=
  ⟨rfl, rfl, rfl, rfl, rfl, fun h => absurd rfl h, (fun h => by rcases h with h | h <;> cases h), fun h => by cases h⟩

/-! ### 1. every non-trailer segment unchanged and in order -/

theorem writeAll_nonTrailer (c : Cfg) (hd : DelimsOk c.d) : ∀ (h : List Seg) (w w' : RState) (outs : List Seg),
    (∀ s ∈ h, WfSeg s) → w.chk837 = false → writeAll c w h = .ok (w', outs) →
    w'.chk837 = false ∧ outs.filter notTrailer = (h.filter notTrailer).map (fixISA c) := by
  intro h
  induction h with
  | nil =>
    intro w w' outs _ hc hw
    simp only [writeAll] at hw
    injection hw with hw
    injection hw with e1 e2
    subst e1; subst e2
    exact ⟨hc, rfl⟩
  | cons s r ih =>
    intro w w' outs hwf hc hw
    obtain ⟨w1, o1, o2, h1, h2, e⟩ := writeAll_cons_ok hw
    obtain ⟨hc1, hf1⟩ := write_nonTrailer c hd w w1 s o1 (hwf s (by simp)) hc h1
    obtain ⟨hc2, hf2⟩ := ih w1 w' o2 (fun x hx => hwf x (by simp [hx])) hc1 h2
    refine ⟨hc2, ?_⟩
    rw [e, List.filter_append, hf1, hf2]
    have : (s :: r).filter notTrailer = [s].filter notTrailer ++ r.filter notTrailer := by
      rw [← List.filter_append]; rfl
    rw [this, List.map_append]

/-- Whatever is written — well nested or not — and then closed: the segments handed to the stream, generated
trailers aside, are exactly the non-trailer segments of the history, unchanged and in order; only the ISA has its
two separator elements set (`fixISA`). -/
theorem writer_body_preserved (c : Cfg) (hd : DelimsOk c.d) (h : List Seg) (hwf : ∀ s ∈ h, WfSeg s) (out : List Seg)
    (hs : session c h = .ok out) : out.filter notTrailer = (h.filter notTrailer).map (fixISA c) := by
  unfold session at hs
  obtain ⟨a, ha, hs⟩ := bind_eq_ok hs
  injection hs with hs
  obtain ⟨_, hf⟩ := writeAll_nonTrailer c hd h _ a.1 a.2 hwf rfl ha
  rw [← hs, List.filter_append, hf]
  have : (close c a.1).2.filter notTrailer = [] := by
    rw [List.filter_eq_nil_iff]
    intro x hx
    have := (popTo_facts c.d hd .isa a.1.loops a.1).2 x hx
    simp [notTrailer, this]
  rw [this, List.append_nil]

/-- every trailer on the stream is a generated one: a supplied trailer is never passed on -/
theorem writer_discards_supplied_trailers (c : Cfg) (h : List Seg) (hwf : ∀ s ∈ h, WfSeg s) (hd : DelimsOk c.d)
    (out : List Seg) (hs : session c h = .ok out) :
    (out.filter notTrailer).length = (h.filter notTrailer).length := by
  rw [writer_body_preserved c hd h hwf out hs, List.length_map]

/-! ### 2. the lockstep result for a whole session -/

theorem session_accepted (c : Cfg) (hd : DelimsOk c.d) (rv : Seg → SegView) (hrv : RvOk c rv) (p : List Seg)
    (hwn : wellNested p = true) (hdom : ∀ s ∈ p, SegDom c.d s) (hlim : p.length + 1 < countLimit) :
    ∃ out, session c p = .ok out ∧
      Accepted .top (RState.init false) (out.map rv) (FreshFrom c.d ([], [], []) p) ∧
      ∀ s ∈ out, GenTrailer c.d s ∨ ∃ x ∈ p, isTrailerId x.id = false ∧ s = fixISA c x := by
  obtain ⟨w', outs, hw, hacc, hprov⟩ := sim_run c hd rv hrv p .top (RState.init false) (RState.init false) 0 (init_sim c.d)
    hwn hdom ⟨Nat.le_refl _, Nat.le_refl _, Nat.le_refl _⟩ (by omega)
  exact ⟨outs ++ (close c w').2, by simp [session, hw, Outcome.bind], hacc, hprov⟩

theorem run_of_accepted {vs : List SegView} {f : Prop} (h : Accepted .top (RState.init false) vs f) :
    ∃ errs, Envelope.run Fixes.all false vs = .ok (errs ++ [[]]) ∧ ErrsOk f errs := by
  obtain ⟨r', errs, hr, hl, he⟩ := h.run
  refine ⟨errs, ?_, he⟩
  rw [Envelope.run_of_runs hr]
  simp [Envelope.cleanup, hl]

theorem hl_not_env {e : Err} (h : isHlErr e = true) : isEnvErr e = false := by
  cases e <;> simp_all [isHlErr, isEnvErr]

theorem clean_of_accepted {vs : List SegView} {f : Prop} (h : Accepted .top (RState.init false) vs f) (hf : f) :
    envelopeErrs (Envelope.errs (Envelope.run Fixes.all false vs)) = [] := by
  obtain ⟨errs, hrun, he⟩ := run_of_accepted h
  rw [hrun]
  simp only [Envelope.errs, envelopeErrs, List.flatten_append, List.flatten_cons, List.flatten_nil, List.append_nil]
  rw [List.filter_eq_nil_iff]
  intro e hm
  simp [hl_not_env (he.2 hf e hm)]

/-- Composition Writer ∘ Reader.  A well-nested history whose control numbers are fresh within their scope (ISA13 in
the file, GS06 in the interchange, ST02 in the group), written and closed after ANY prefix: the reader run on what is
on the stream completes and reports no envelope error (not at a segment, not at the end of input). -/
theorem reader_clean_after_close (c : Cfg) (hd : DelimsOk c.d) (h : List Seg) (hwn : wellNested h = true)
    (hdom : ∀ s ∈ h, SegDom c.d s) (hfresh : FreshCtl c.d h) (hlim : h.length + 1 < countLimit) :
    ∀ p, p <+: h → ∃ out, session c p = .ok out ∧
      envelopeErrs (Envelope.errs (Envelope.run Fixes.all false (out.map (rview c.d)))) = [] := by
  intro p hp
  obtain ⟨q, rfl⟩ := hp
  have hwn' : wellNested p = true := wellNestedFrom_prefix p q _ hwn
  have hlen : p.length + 1 < countLimit := by simp at hlim; omega
  obtain ⟨out, hs, hacc, _⟩ := session_accepted c hd _ (rvOk_rview c) p hwn' (fun s hs => hdom s (by simp [hs])) hlen
  refine ⟨out, hs, clean_of_accepted hacc ?_⟩
  exact freshFrom_of_freshCtl c.d p [] _ (by simp [IdsMatch, ctlsOf, sinceLast]) (by simpa using freshCtl_prefix c.d p q hfresh)

/-- the configuration of the text-level statement: delimiters pairwise distinct INCLUDING the repetition separator, none
a letter or digit, `eol` made of CR / LF only -/
structure CfgOk (c : Cfg) : Prop where
  delims : DelimsOk c.d
  repTerm : c.rep ≠ c.d.term
  repEle : c.rep ≠ c.d.ele
  repSub : c.rep ≠ c.d.sub
  eol : C01.AllBrk c.eol

/-- The same composition down to the TEXT on the stream: with clean values (no delimiter inside a value — `Clean`,
the domain of C01's round trip) the text `X12Writer` leaves after Close at any prefix is tokenised and parsed by the
reader's front end (`SegText.segments`, C01) into segments on which the envelope checks of C04 report nothing. -/
theorem reader_clean_after_close_text (c : Cfg) (hc : CfgOk c) (h : List Seg) (hwn : wellNested h = true)
    (hdom : ∀ s ∈ h, SegDom c.d s) (hclean : ∀ s ∈ h, SegText.Clean c.d s) (hfresh : FreshCtl c.d h)
    (hlim : h.length + 1 < countLimit) :
    ∀ p, p <+: h → ∃ out txt, session c p = .ok out ∧ render c out = some txt ∧
      envelopeErrs (Envelope.errs (Envelope.run Fixes.all false ((SegText.segments c.d txt).map (rview c.d)))) = [] := by
  intro p hp
  obtain ⟨q, rfl⟩ := hp
  have hwn' : wellNested p = true := wellNestedFrom_prefix p q _ hwn
  have hlen : p.length + 1 < countLimit := by simp at hlim; omega
  obtain ⟨out, hs, hacc, hprov⟩ := session_accepted c hc.delims _ (rvOk_norm c hc.delims) p hwn'
    (fun s hs => hdom s (by simp [hs])) hlen
  have hcl : ∀ s ∈ out, SegText.Clean c.d s := by
    intro s hs'
    rcases hprov s hs' with hg | ⟨x, hx, _, rfl⟩
    · exact genTrailer_clean c.d hc.delims s hg
    · exact fixISA_clean c hc.delims hc.repTerm hc.repEle hc.repSub x (hclean x (by simp [hx]))
  obtain ⟨txt, henc, hseg⟩ := C01.segments_encode c.d hc.delims.distinct c.eol hc.eol out hcl
  refine ⟨out, txt, hs, henc, ?_⟩
  rw [hseg, List.map_map]
  refine clean_of_accepted hacc ?_
  exact freshFrom_of_freshCtl c.d p [] _ (by simp [IdsMatch, ctlsOf, sinceLast]) (by simpa using freshCtl_prefix c.d p q hfresh)

/-! ### 3. trailers are true -/

theorem dup_hl_not (e : Err) (h : isHlErr e = true ∨ isDupErr e = true) :
    e ≠ Err.isa001 ∧ e ≠ Err.isa021 ∧ e ≠ Err.gs4 ∧ e ≠ Err.gs5 ∧ e ≠ Err.st3 ∧ e ≠ Err.st4 ∧ e ≠ Err.isa023 := by
  cases e <;> simp_all [isHlErr, isDupErr]

/-- what acceptance by the lockstep argument says about structure: the views ARE a flattening, and every structured
document they are the flattening of has true trailers (C04's `reader_eq_recount*` read from right to left) -/
theorem trailers_of_accepted {vs : List SegView} {f : Prop} (hacc : Accepted .top (RState.init false) vs f) :
    (∃ doc, Envelope.InDomain false doc ∧ Envelope.flatten doc = vs) ∧
    ∀ doc, Envelope.InDomain false doc → Envelope.flatten doc = vs → TrailersTrue doc := by
  obtain ⟨errs, hrun, he⟩ := run_of_accepted hacc
  refine ⟨?_, ?_⟩
  · -- the output is a flattening: C04's parser theorem, and the reader ended with an empty stack
    obtain ⟨d, hdd, hfl⟩ := Envelope.nested_is_flattening _ hacc.normal (Envelope.nested_of_walk hacc.walk)
    have hopen := Envelope.reader_eq_recount_open false d hdd
    rw [hfl, hrun] at hopen
    injection hopen with hopen
    cases htail : d.tail with
    | none =>
      refine ⟨d.complete, hdd.1, ?_⟩
      rw [← hfl]
      simp [Envelope.flattenDoc, htail, Envelope.flattenTail]
    | some o =>
      exfalso
      obtain ⟨X, l, hX, hl⟩ := recountTail_last false d.complete o
      simp only [Envelope.recountDoc, htail, hX] at hopen
      rw [← List.append_assoc] at hopen
      have := List.append_inj_right' hopen (by simp)
      simp only [List.cons.injEq, and_true] at this
      exact hl this.symm
  · intro doc hdoc hfl
    have hrc := Envelope.reader_eq_recount_segs false doc hdoc
    rw [hfl, hrun] at hrc
    injection hrc with hrc
    have hfile : errs = Envelope.recountFile false [] doc := by
      unfold Envelope.recountSegs at hrc
      exact List.append_inj_left' hrc (by simp)
    have hmem : ∀ l ∈ Envelope.recountFile false [] doc, ∀ e ∈ l, isHlErr e = true ∨ isDupErr e = true := by
      intro l hl e hel
      exact he.1 e (by rw [hfile]; exact List.mem_flatten.mpr ⟨l, hl, hel⟩)
    intro i hi
    obtain ⟨m1, m2⟩ := mem_recountFile false doc [] i hi
    obtain ⟨a1, a2⟩ := trailer_true_of (fun e => isHlErr e = true ∨ isDupErr e = true) _ _ (by decide) (by decide)
      _ _ _ _ (hmem _ m1)
    refine ⟨a1, a2, ?_⟩
    intro g hg
    obtain ⟨n1, n2⟩ := mem_recountGroups false i.groups [] g hg
    obtain ⟨b1, b2⟩ := trailer_true_of (fun e => isHlErr e = true ∨ isDupErr e = true) _ _ (by decide) (by decide)
      _ _ _ _ (hmem _ (m2 _ n1))
    refine ⟨b1, b2, ?_⟩
    intro t ht
    have k1 := mem_recountSets false g.sets [] t ht
    exact trailer_true_of (fun e => isHlErr e = true ∨ isDupErr e = true) _ _ (by decide) (by decide)
      _ _ _ _ (hmem _ (m2 _ (n2 _ k1)))

/-- Every trailer the output needs is generated with the control number of its header and the true count — stated
against the structural recount of `Spec/Envelope`: after Close at any prefix of a well-nested history (fresh control
numbers or not, supplied trailers whatever they are, trailers omitted wherever the grammar allows) the views of the
output ARE the flattening of a structured document `Interchange ⊃ Group ⊃ Set`, and in every structured document they
are the flattening of, each `IEA`/`GE`/`SE` carries its header's control number and `groups.length` / `sets.length` /
`body.length + 2`. -/
theorem writer_trailers_true (c : Cfg) (hd : DelimsOk c.d) (h : List Seg) (hwn : wellNested h = true)
    (hdom : ∀ s ∈ h, SegDom c.d s) (hlim : h.length + 1 < countLimit) :
    ∀ p, p <+: h → ∃ out, session c p = .ok out ∧
      (∃ doc, Envelope.InDomain false doc ∧ Envelope.flatten doc = out.map (rview c.d)) ∧
      ∀ doc, Envelope.InDomain false doc → Envelope.flatten doc = out.map (rview c.d) → TrailersTrue doc := by
  intro p hp
  obtain ⟨q, rfl⟩ := hp
  have hwn' : wellNested p = true := wellNestedFrom_prefix p q _ hwn
  have hlen : p.length + 1 < countLimit := by simp at hlim; omega
  obtain ⟨out, hs, hacc, _⟩ := session_accepted c hd _ (rvOk_rview c) p hwn' (fun s hs => hdom s (by simp [hs])) hlen
  exact ⟨out, hs, trailers_of_accepted hacc⟩

/-- … and the same read off the TEXT on the stream (tokenised and parsed as the reader does, C01) -/
theorem writer_trailers_true_text (c : Cfg) (hc : CfgOk c) (h : List Seg) (hwn : wellNested h = true)
    (hdom : ∀ s ∈ h, SegDom c.d s) (hclean : ∀ s ∈ h, SegText.Clean c.d s) (hlim : h.length + 1 < countLimit) :
    ∀ p, p <+: h → ∃ out txt, session c p = .ok out ∧ render c out = some txt ∧
      (∃ doc, Envelope.InDomain false doc ∧ Envelope.flatten doc = (SegText.segments c.d txt).map (rview c.d)) ∧
      ∀ doc, Envelope.InDomain false doc → Envelope.flatten doc = (SegText.segments c.d txt).map (rview c.d) →
        TrailersTrue doc := by
  intro p hp
  obtain ⟨q, rfl⟩ := hp
  have hwn' : wellNested p = true := wellNestedFrom_prefix p q _ hwn
  have hlen : p.length + 1 < countLimit := by simp at hlim; omega
  obtain ⟨out, hs, hacc, hprov⟩ := session_accepted c hc.delims _ (rvOk_norm c hc.delims) p hwn'
    (fun s hs => hdom s (by simp [hs])) hlen
  have hcl : ∀ s ∈ out, SegText.Clean c.d s := by
    intro s hs'
    rcases hprov s hs' with hg | ⟨x, hx, _, rfl⟩
    · exact genTrailer_clean c.d hc.delims s hg
    · exact fixISA_clean c hc.delims hc.repTerm hc.repEle hc.repSub x (hclean x (by simp [hx]))
  obtain ⟨txt, henc, hseg⟩ := C01.segments_encode c.d hc.delims.distinct c.eol hc.eol out hcl
  refine ⟨out, txt, hs, henc, ?_⟩
  rw [hseg, List.map_map]
  exact trailers_of_accepted hacc

/-! ### 4. totality -/

theorem lift_noCrash {α : Type} (o : Envelope.Outcome α) (h : o.NoCrash) (e : Envelope.Exc) : lift o ≠ .crash (.base e) := by
  cases o with
  | ok a => intro h'; cases h'
  | raised => intro h'; cases h'
  | crash e' => exact absurd rfl (h e')

/-- on well-formed segments (every composite has a component — all that `Segment(...)` can build) `Write` raises
nothing but the deliberate `X12Error` for an ISA without 16 elements -/
theorem write_total (c : Cfg) (w : RState) (s : Seg) (hw : WfSeg s) (e : Exc) : write c w s ≠ .crash e := by
  intro h
  unfold write at h
  have hv : ∃ v, viewOf c.d w.chk837 s = .ok v := by
    unfold viewOf viewISA viewHL
    simp only [getValue_wf _ s hw, Outcome.bind]
    repeat' split
    all_goals exact ⟨_, rfl⟩
  obtain ⟨v, hv⟩ := hv
  rw [hv] at h
  simp only [Outcome.bind] at h
  have hb : (baseStep Fixes.all w v).NoCrash := by
    unfold baseStep
    exact Envelope.noCrash_bind _ _ (Envelope.baseBranch_noCrash w v) (fun _ => Envelope.noCrash_ok _)
  cases hbs : baseStep Fixes.all w v with
  | crash e' => exact hb e' hbs
  | raised => simp [hbs, lift] at h
  | ok r =>
    simp only [hbs, lift] at h
    unfold emitFor at h
    split at h
    · cases h
    · split at h
      · cases h
      · split at h
        · cases h
        · split at h
          · cases h
          · split at h
            · simp only [getValue_wf _ s hw, Outcome.bind] at h
              cases h
            · cases h

theorem writeAll_total (c : Cfg) : ∀ (h : List Seg) (w : RState), (∀ s ∈ h, WfSeg s) → ∀ e, writeAll c w h ≠ .crash e := by
  intro h
  induction h with
  | nil => intro w _ e hc; cases hc
  | cons s r ih =>
    intro w hwf e hc
    simp only [writeAll] at hc
    cases hw : write c w s with
    | crash e' => exact write_total c w s (hwf s (by simp)) e' hw
    | raised => simp [hw, Outcome.bind] at hc
    | ok a =>
      simp only [hw, Outcome.bind] at hc
      cases hr : writeAll c a.1 r with
      | crash e' => exact ih a.1 (fun x hx => hwf x (by simp [hx])) e' hr
      | raised => simp [hr] at hc
      | ok b => simp [hr] at hc

/-- a whole session (any history of well-formed segments, then `Close()`) ends normally or with the deliberate
`X12Error`; `_popToLoop` and `Close` themselves cannot fail, whatever the stack -/
theorem writer_total (c : Cfg) (h : List Seg) (hwf : ∀ s ∈ h, WfSeg s) (e : Exc) : session c h ≠ .crash e := by
  intro hc
  unfold session at hc
  cases hw : writeAll c (RState.init false) h with
  | crash e' => exact writeAll_total c h _ hwf e' hw
  | raised => simp [hw, Outcome.bind] at hc
  | ok a => simp [hw, Outcome.bind] at hc

/-! ### 5. the ISA carries the writer's delimiters -/

/-- For an ISA whose 16 elements are plain values of the standard widths and whose version is 00401 or 00501: the
text `_write_isa_segment` puts on the stream, cut to the 106 characters `RawX12File.__init__` reads, parses to a
header with the writer's segment terminator, element separator, component separator and — for 00501 — repetition
separator. -/
theorem isa_carries_delims (c : Cfg) (s : Seg) (vals : List Str) (hid : s.id = idISA)
    (hel : s.elems = vals.map (fun v => [v])) (hw : vals.map List.length = isaWidths)
    (hrs : c.rep ≠ c.d.sub) (hse : c.d.sub ≠ c.d.ele)
    (icvn : Str) (hicvn : vals[11]? = some icvn) (hver : icvn = Tokenizer.v4010 ∨ icvn = Tokenizer.v5010) :
    ∃ txt, SegText.formatSeg c.d (isaOut c s (valueAt c.d.ele s 11)) = some txt ∧
      Tokenizer.parseHeader (txt.take Tokenizer.ISA_LEN) =
        .ok ⟨c.d.term, c.d.ele, c.d.sub, if icvn = Tokenizer.v5010 then some c.rep else none, icvn⟩ :=
  isa_header c s vals hid hel hw hrs hse icvn hicvn hver

/-- … and what `Write` hands to the stream for that segment is exactly this ISA -/
theorem write_isa_output (c : Cfg) (w : RState) (s : Seg) (hw : WfSeg s) (hid : s.id = idISA) (h16 : s.elems.length = 16) :
    ∃ w', write c w s = .ok (w', [isaOut c s (valueAt c.d.ele s 11)]) := ⟨_, write_ISA c w s hw hid h16⟩

/-- a session that begins with an ISA begins its output with that ISA as `_write_isa_segment` prints it -/
theorem session_starts_with_isa (c : Cfg) (isa : Seg) (p' out : List Seg) (hw : WfSeg isa) (hid : isa.id = idISA)
    (h16 : isa.elems.length = 16) (hs : session c (isa :: p') = .ok out) :
    ∃ out', out = isaOut c isa (valueAt c.d.ele isa 11) :: out' := by
  unfold session at hs
  obtain ⟨a, ha, hs⟩ := bind_eq_ok hs
  obtain ⟨w1, o1, o2, h1, _, e⟩ := writeAll_cons_ok (w' := a.1) (outs := a.2) ha
  rw [write_ISA c _ isa hw hid h16] at h1
  injection h1 with h1
  injection h1 with _ e1
  injection hs with hs
  refine ⟨o2 ++ (close c a.1).2, ?_⟩
  rw [← hs, e, ← e1]
  rfl

/-- End to end, C01 ∘ C11 ∘ C04: the history starts with an ISA of the standard field widths; after Close at any
non-empty prefix the text on the stream is given to the real reader pipeline of C01 — `RawX12File` header parse,
buffered tokeniser under ANY read-size oracle, `X12Reader.__iter__` — which recovers the writer's delimiters from the
ISA, does not raise, and yields segments on which the envelope checks report nothing. -/
theorem reader_end_to_end (c : Cfg) (hc : CfgOk c) (isa : Seg) (rest : List Seg) (vals : List Str) (icvn : Str)
    (hid : isa.id = idISA) (hel : isa.elems = vals.map (fun v => [v])) (hwid : vals.map List.length = isaWidths)
    (hicvn : vals[11]? = some icvn) (hver : icvn = Tokenizer.v4010 ∨ icvn = Tokenizer.v5010)
    (hwn : wellNested (isa :: rest) = true) (hdom : ∀ s ∈ isa :: rest, SegDom c.d s)
    (hclean : ∀ s ∈ isa :: rest, SegText.Clean c.d s) (hfresh : FreshCtl c.d (isa :: rest))
    (hlim : (isa :: rest).length + 1 < countLimit) :
    ∀ p', p' <+: rest → ∀ sizes : List Nat, (∀ k ∈ sizes, 1 ≤ k) →
      ∃ out txt res, session c (isa :: p') = .ok out ∧ render c out = some txt ∧
        SegText.readAll { rest := txt, sizes := sizes } =
          .ok ⟨c.d.term, c.d.ele, c.d.sub, if icvn = Tokenizer.v5010 then some c.rep else none, icvn⟩ res ∧
        res.crashed = false ∧
        envelopeErrs (Envelope.errs (Envelope.run Fixes.all false (res.segs.map (fun x => rview c.d x.2)))) = [] := by
  intro p' hp' sizes hsz
  have hp : (isa :: p') <+: (isa :: rest) := by
    obtain ⟨q, hq⟩ := hp'
    exact ⟨q, by rw [← hq]; rfl⟩
  obtain ⟨out, txt, hs, henc, hcleanres⟩ :=
    reader_clean_after_close_text c hc (isa :: rest) hwn hdom hclean hfresh hlim (isa :: p') hp
  have hdi := hdom isa (by simp)
  obtain ⟨out', hout⟩ := session_starts_with_isa c isa p' out hdi.1 hid (hdi.2.1 hid) hs
  obtain ⟨itxt, hfmt, hhdr⟩ := isa_header c isa vals hid hel hwid hc.repSub (fun e => hc.delims.distinct.2.2 e.symm) icvn
    hicvn hver
  -- the text begins with the printed ISA
  have htxt : ∃ more, txt = itxt ++ more := by
    rw [hout] at henc
    simp only [render, SegText.encode, hfmt] at henc
    cases he : SegText.encode c.d c.eol out' with
    | none => simp [he, SegText.both] at henc
    | some r =>
      simp only [he, SegText.both, Option.some.injEq] at henc
      exact ⟨c.eol ++ r, by rw [← henc]; simp⟩
  obtain ⟨more, hmore⟩ := htxt
  have hlen : Tokenizer.ISA_LEN ≤ itxt.length := by
    unfold Tokenizer.parseHeader at hhdr
    split at hhdr
    · cases hhdr
    · split at hhdr
      · cases hhdr
      · rename_i _ hl
        have hl' : (itxt.take Tokenizer.ISA_LEN).length = Tokenizer.ISA_LEN := by simpa using hl
        rw [List.length_take] at hl'
        omega
  have htake : txt.take Tokenizer.ISA_LEN = itxt.take Tokenizer.ISA_LEN := by
    rw [hmore, List.take_append_of_le_length hlen]
  have hraw : Tokenizer.rawRead { rest := txt, sizes := sizes } =
      .ok ⟨c.d.term, c.d.ele, c.d.sub, if icvn = Tokenizer.v5010 then some c.rep else none, icvn⟩
        (Tokenizer.spec c.d.term txt) := by
    rw [C01.raw_chunk_independent txt sizes hsz]
    simp only [Tokenizer.rawSpec, htake, hhdr]
  refine ⟨out, txt, SegText.readLines c.d [] (Tokenizer.spec c.d.term txt), hs, henc, ?_, ?_, ?_⟩
  · simp only [SegText.readAll, hraw, SegText.delimsOf]
  · exact C01.reader_never_crashes c.d txt
  · have : (SegText.readLines c.d [] (Tokenizer.spec c.d.term txt)).segs.map (fun x => rview c.d x.2) =
        (SegText.segments c.d txt).map (rview c.d) := by
      simp [SegText.segments, List.map_map, Function.comp_def]
    rw [this]
    exact hcleanres

/-! ### 6. trailers the stack cannot match: what the code does (no exception in this code) -/

/-- a trailer while nothing is open is dropped silently: nothing is written, the state is unchanged -/
theorem orphan_trailer_dropped (c : Cfg) (w : RState) (s : Seg) (hid : isTrailerId s.id = true) (hc : w.chk837 = false)
    (hl : w.loops = []) : write c w s = .ok (w, []) := by
  rw [write_trailer c w s hid hc]
  simp [popToLoop, popTo, hl]

/-- a trailer whose own header is not open closes EVERYTHING that is open: `GE` (or `SE`) directly inside an
interchange writes the `IEA` -/
theorem short_stack_closes_interchange (c : Cfg) (w : RState) (s : Seg) (hid : s.id = idGE ∨ s.id = idSE)
    (hc : w.chk837 = false) (ctl : Option Str) (hl : w.loops = [(Kind.isa, ctl)]) :
    write c w s = .ok ({ w with loops := [], gsCount := 0 }, [trailerSeg c.d idIEA w.gsCount ctl]) := by
  have ht : isTrailerId s.id = true := by rcases hid with h | h <;> rw [h] <;> decide
  rw [write_trailer c w s ht hc]
  rcases hid with h | h <;> simp [h, popToLoop, popTo, hl, closeLoop, idGE, idSE, idIEA]

/-- an ISA without 16 elements is refused (X12Error) before anything is written -/
theorem isa_refused (c : Cfg) (w : RState) (s : Seg) (hid : s.id = idISA) (h16 : s.elems.length ≠ 16) :
    write c w s = .raised := write_ISA_short c w s hid h16

/-! ### 7. the scoped freshness the proofs use is the declarative one -/

theorem freshCtl_of_freshFrom (d : Delims) : ∀ (rest pre : List Seg) (ids : Ids), IdsMatch d pre ids →
    FreshFrom d ids rest → ∀ a s b, rest = a ++ s :: b →
      (s.id = idISA → ctlOf d s ∉ ctlsOf d idISA (pre ++ a)) ∧
      (s.id = idGS → ctlOf d s ∉ ctlsOf d idGS (sinceLast idISA (pre ++ a))) ∧
      (s.id = idST → ctlOf d s ∉ ctlsOf d idST (sinceLast idGS (pre ++ a))) := by
  intro rest
  induction rest with
  | nil => intro _ _ _ _ a s b h; simp at h
  | cons x rest ih =>
    intro pre ids hm hf a s b hsplit
    obtain ⟨hfa, hfr⟩ := hf
    cases a with
    | nil =>
      simp only [List.nil_append, List.cons.injEq] at hsplit
      obtain ⟨rfl, _⟩ := hsplit
      simp only [List.append_nil]
      exact ⟨fun h hx => hfa.1 h ((hm.1 _).mpr hx), fun h hx => hfa.2.1 h ((hm.2.1 _).mpr hx),
        fun h hx => hfa.2.2 h ((hm.2.2 _).mpr hx)⟩
    | cons y a' =>
      simp only [List.cons_append, List.cons.injEq] at hsplit
      obtain ⟨rfl, hrest⟩ := hsplit
      have := ih (pre ++ [x]) _ (idsMatch_snoc d pre ids x hm) hfr a' s b hrest
      simpa using this

/-- ISA13 distinct in the file, GS06 in the interchange, ST02 in the group — declaratively (`FreshCtl`) and as the
id lists of `X12Base` see it (`FreshFrom`) -/
theorem freshCtl_iff_freshFrom (d : Delims) (h : List Seg) : FreshCtl d h ↔ FreshFrom d ([], [], []) h := by
  have hm : IdsMatch d [] ([], [], []) := by simp [IdsMatch, ctlsOf, sinceLast]
  constructor
  · intro hf
    exact freshFrom_of_freshCtl d h [] _ hm (by simpa using hf)
  · intro hf pre s post e
    have := freshCtl_of_freshFrom d h [] _ hm hf pre s post e
    simpa using this

/-! ### 8. the hypotheses are satisfiable; the statements are not vacuous -/

instance (d : Delims) (c : Str) : Decidable (CtlOk d c) := by unfold CtlOk; infer_instance

instance (d : Delims) (o : Option Str) : Decidable (∃ c, o = some c ∧ CtlOk d c) :=
  match o with
  | none => isFalse (by rintro ⟨c, h, _⟩; cases h)
  | some c => if h : CtlOk d c then isTrue ⟨c, rfl, h⟩ else isFalse (by rintro ⟨c', h', hc⟩; cases h'; exact h hc)

instance (d : Delims) (s : Seg) : Decidable (SegDom d s) := by unfold SegDom WfSeg; infer_instance

instance (d : Delims) (ids : Ids) (s : Seg) : Decidable (freshAt d ids s) := by unfold freshAt; infer_instance

instance decFreshFrom (d : Delims) : ∀ (h : List Seg) (ids : Ids), Decidable (FreshFrom d ids h)
  | [], _ => isTrue trivial
  | s :: r, ids =>
    have := decFreshFrom d r (nextIds d s ids)
    by unfold FreshFrom; infer_instance

def dflt : Cfg := ⟨⟨'~', '*', ':'⟩, '^', ['\n']⟩

def sg (t : String) : Seg :=
  match SegText.parseSeg dflt.d t.toList with
  | none => ⟨[], []⟩
  | some s => s

/-- two groups; the supplied GE is wrong in count and control number and arrives while the set is still open (SE
omitted); the second group reuses ST02 0001; the history stops inside the second set -/
def hist : List Seg :=
  [sg "ISA*00*          *00*          *ZZ*SENDER         *ZZ*RECEIVER       *200101*1200*U*00501*000000007*0*P*>",
   sg "GS*HC*S*R*20200101*1200*17*X*005010", sg "ST*837*0001", sg "REF**X:", sg "HL*9*zz", sg "GE*77*zz",
   sg "GS*HC*S*R*20200101*1200*18*X*005010", sg "ST*837*0001", sg "BHT*1"]

example : DelimsOk dflt.d := ⟨⟨by decide, by decide, by decide⟩, by decide, by decide, by decide⟩
example : wellNested hist = true := by decide
example : ∀ s ∈ hist, SegDom dflt.d s := by decide
example : FreshCtl dflt.d hist := (freshCtl_iff_freshFrom _ _).mpr (by decide)
example : hist.length + 1 < countLimit :=
  Nat.lt_of_lt_of_le (by decide : hist.length + 1 < 10 ^ 2) (Nat.pow_le_pow_right (by decide) (by decide))

theorem dflt_ok : DelimsOk dflt.d := ⟨⟨by decide, by decide, by decide⟩, by decide, by decide, by decide⟩

theorem hist_small : hist.length + 1 < countLimit :=
  Nat.lt_of_lt_of_le (by decide : hist.length + 1 < 10 ^ 2) (Nat.pow_le_pow_right (by decide) (by decide))

/-- all hypotheses of the two main theorems hold of `hist` -/
example : ∀ p, p <+: hist → ∃ out, session dflt p = .ok out ∧
    envelopeErrs (Envelope.errs (Envelope.run Fixes.all false (out.map (rview dflt.d)))) = [] :=
  reader_clean_after_close dflt dflt_ok hist (by decide) (by decide) ((freshCtl_iff_freshFrom _ _).mpr (by decide)) hist_small

example : ∀ p, p <+: hist → ∃ out, session dflt p = .ok out ∧
    (∃ doc, Envelope.InDomain false doc ∧ Envelope.flatten doc = out.map (rview dflt.d)) ∧
    ∀ doc, Envelope.InDomain false doc → Envelope.flatten doc = out.map (rview dflt.d) → TrailersTrue doc :=
  writer_trailers_true dflt dflt_ok hist (by decide) (by decide) hist_small

theorem dflt_cfg_ok : CfgOk dflt :=
  ⟨dflt_ok, by decide, by decide, by decide, by intro ch hch; simp [dflt] at hch; exact Or.inl hch⟩

def headOkB (d : Delims) (s : Seg) : Bool :=
  match (s.id ++ [d.ele]).head? with
  | none => true
  | some ch => ch != '\n' && ch != '\r' && ch != ' '

theorem headOk_of (d : Delims) (s : Seg) (h : headOkB d s = true) : SegText.HeadOk d s := by
  intro ch hch
  simp only [headOkB, hch, Bool.and_eq_true, bne_iff_ne] at h
  exact ⟨h.1.1, h.1.2, h.2⟩

theorem hist_clean : ∀ s ∈ hist, SegText.Clean dflt.d s := by
  intro s hs
  refine ⟨⟨?_, ?_, ?_⟩, headOk_of _ _ ?_⟩ <;> revert s <;> decide

/-- all hypotheses of the text-level theorems hold of `hist` -/
example : ∀ p, p <+: hist → ∃ out txt, session dflt p = .ok out ∧ render dflt out = some txt ∧
    envelopeErrs (Envelope.errs (Envelope.run Fixes.all false ((SegText.segments dflt.d txt).map (rview dflt.d)))) = [] :=
  reader_clean_after_close_text dflt dflt_cfg_ok hist (by decide) (by decide) hist_clean
    ((freshCtl_iff_freshFrom _ _).mpr (by decide)) hist_small

/-- … and of the end-to-end theorem (the first segment of `hist` is an ISA of the standard widths, version 00501) -/
example : ∀ p', p' <+: hist.tail → ∀ sizes : List Nat, (∀ k ∈ sizes, 1 ≤ k) →
    ∃ out txt res, session dflt (hist.head (by decide) :: p') = .ok out ∧ render dflt out = some txt ∧
      SegText.readAll { rest := txt, sizes := sizes } = .ok ⟨'~', '*', ':', some '^', Tokenizer.v5010⟩ res ∧
      res.crashed = false ∧
      envelopeErrs (Envelope.errs (Envelope.run Fixes.all false (res.segs.map (fun x => rview dflt.d x.2)))) = [] :=
  reader_end_to_end dflt dflt_cfg_ok (hist.head (by decide)) hist.tail
    ((hist.head (by decide)).elems.map (fun c => c.headD [])) Tokenizer.v5010 (by decide) (by decide) (by decide) (by decide)
    (Or.inr rfl) (by decide) (by decide) hist_clean ((freshCtl_iff_freshFrom _ _).mpr (by decide)) hist_small

/-- what is put on the stream: ISA11/ISA16 set, every trailer generated from the counters -/
example : (session dflt hist).bind (fun out => match render dflt out with | none => .raised | some t => .ok (String.ofList t)) =
    .ok ("ISA*00*          *00*          *ZZ*SENDER         *ZZ*RECEIVER       *200101*1200*^*00501*000000007*0*P*:~\n" ++
         "GS*HC*S*R*20200101*1200*17*X*005010~\nST*837*0001~\nREF**X~\nHL*9*zz~\nSE*4*0001~\nGE*1*17~\n" ++
         "GS*HC*S*R*20200101*1200*18*X*005010~\nST*837*0001~\nBHT*1~\nSE*3*0001~\nGE*1*18~\nIEA*2*000000007~\n") := by
  decide +kernel

/-- the reader on it: nothing but the two HL complaints about the body segment `HL*9*zz` -/
example : (session dflt hist).bind (fun out => .ok (Envelope.errs (Envelope.run Fixes.all false (out.map (rview dflt.d))))) =
    .ok [Err.hl1, Err.hl2] := by decide +kernel

/-- a reused ST02 inside ONE group is outside the freshness hypothesis, and the reader does complain (st:23) -/
example : ¬ FreshCtl dflt.d [sg "ISA*00*          *00*          *ZZ*SENDER         *ZZ*RECEIVER       *200101*1200*U*00401*000000007*0*P*>",
    sg "GS*HC*S*R*20200101*1200*17*X*005010", sg "ST*837*0001", sg "SE*2*0001", sg "ST*837*0001"] :=
  fun h => absurd ((freshCtl_iff_freshFrom _ _).mp h) (by decide)

/-- the grammar datatype: one interchange, one group whose only set has its SE omitted, GE supplied, IEA omitted -/
example : HistOk [⟨sg "ISA*1", [⟨sg "GS*1", [⟨sg "ST*1", [sg "REF*1"], none⟩], some (sg "GE*1")⟩], none⟩] := by
  refine ⟨?_, trivial⟩
  intro i hi
  simp only [List.mem_singleton] at hi
  subst hi
  refine ⟨by decide, ?_, trivial, by simp⟩
  intro g hg
  simp only [List.mem_singleton] at hg
  subst hg
  refine ⟨by decide, ?_, trivial, by intro s hs; simp at hs; subst hs; decide⟩
  intro t ht
  simp only [List.mem_singleton] at ht
  subst ht
  exact ⟨by decide, by decide, by simp⟩

/-- not well nested: a second ST inside an open set, a GS inside a set, a body segment outside a set -/
example : wellNested [sg "ISA*1", sg "GS*1", sg "ST*1", sg "ST*2"] = false ∧
    wellNested [sg "ISA*1", sg "GS*1", sg "ST*1", sg "GS*2"] = false ∧
    wellNested [sg "ISA*1", sg "REF*1"] = false ∧ wellNested [sg "GE*1"] = false := by decide

end Pyx12Verif.Writer
