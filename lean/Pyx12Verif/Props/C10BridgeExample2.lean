/-
The counterexample for Props/C10Bridge.lean (see Props/C10BridgeExample.lean for the non-vacuity part).

`ctx_tree_sorted_full_false`: with ISA_LOOP requested the invariant fails on a faulty document — a GS in the middle of a
transaction set.  All map hypotheses hold; only "requested loop ≠ ISA_LOOP" does not.  The same happens in the real code
(replayed: 997 map, `ISA GS ST AK1 AK9 GS GE IEA`, `iter_segments('ISA_LOOP')`: the HEADER node has children at positions
20 20 70 30, and `add_loop('AK2*837*0001~')` — position 30 — is placed LAST, behind AK9 at 70).
-/
import Pyx12Verif.Props.C10BridgeExample

namespace Pyx12Verif.Bridge.Ex
open Pyx12Verif Pyx12Verif.Doc Pyx12Verif.Doc.Ex Pyx12Verif.Bridge

/-! ### (2) ISA_LOOP requested, a GS in the middle of a set: the invariant fails -/

open MapSkel in
/-- as `root`, with REF at position 40 and SE at 50: ISA_LOOP [ISA, GS_LOOP [GS, ST_LOOP [ST 10, REF 40, SE 50], GE], IEA 30] -/
def rootC : List Node :=
  [.loop 10 1 0 1 false
    [.seg 11 0 10 0 1 [] [el 1],
     .loop 12 20 0 0 false
       [.seg 13 0 10 0 1 [] [el 1],
        .loop 14 20 0 0 false [.seg 15 0 10 0 1 [] [el 1], .seg 18 0 40 1 2 [] [el 1], .seg 24 0 50 0 1 [] [el 1]],
        .seg 25 0 30 0 1 [] [el 1]],
     .seg 26 0 30 0 1 [] [el 1]]]

def msC : Maps := { ms with maps := [mapX "x12.control.00401.xml", { (mapX "m.xml") with root := rootC }] }

/-- ISA GS ST REF | GS GE IEA: the second GS arrives while ST_LOOP is open -/
def textC : List Char :=
  (isaText ++ "GS*HC*S*R*20200101*1200*1*X*004010X1~ST*837*0001~REF*AB*1*X~" ++
    "GS*HC*S*R*20200101*1200*2*X*004010X1~GE*1*2~IEA*1*000000001~").toList

def exC : Ctx.DNode := (treesOf (ctxDoc msC (some 10) textC).yields).headD dfltTree

theorem exC_mem : Ctx.Yield.tree exC ∈ (ctxDoc msC (some 10) textC).yields := firstTree_mem _ _ (by decide +kernel)

/-- every map hypothesis holds (so does `LidOK` of ISA_LOOP): what fails is "requested loop ≠ ISA_LOOP" alone -/
theorem msC_hyps : mapsGoodB msC = true ∧ msC.maps.all (fun m => WalkerGen.WFMap m.root) = true ∧
    msC.maps.all (fun m => CtxWalk.lidOKb m.root 10) = true ∧ bhtAgreeB msC = true := by decide +kernel

/-- the run ends normally, ONE tree with all seven segments — in the order 0 1 2 4 5 3 6: the misplaced group (4, 5) is
    attached below ST_LOOP between ST (10) and REF (40), and IEA (30) is appended behind REF (40) -/
example : (ctxDoc msC (some 10) textC).stop = .done ∧ leafIdx (ctxDoc msC (some 10) textC) = [[0, 1, 2, 4, 5, 3, 6]] := by
  decide +kernel

theorem exC_unsorted : allSortedCb exC = false := by decide +kernel

/-- the ST_LOOP node of the tree has its children at positions 10 20 40 30: the misplaced GS_LOOP (20) was inserted by
    position, the IEA (30) appended behind the REF (40).  A node of position 30 … 39 added there by the tree API is placed
    after the IEA — behind the later REF: the insertion law of C10 fails on this tree -/
example : (match exC with
    | .loop _ _ (_ :: .loop _ _ (_ :: .loop _ _ ch :: _) :: _) => ch.map Ctx.DNode.pos
    | _ => []) = [10, 20, 40, 30] := by decide +kernel

attribute [irreducible] exC

/-- **`ctx_tree_sorted_full` is false**: without "requested loop ≠ ISA_LOOP" a faulty document yields an unsorted tree -/
theorem ctx_tree_sorted_full_false : ¬ ctx_tree_sorted_full := by
  intro h
  obtain ⟨h1, h2, h3, h4⟩ := msC_hyps
  have hs := h msC (some 10) textC (mapsGood_of_bool h1) (fun m hm => List.all_eq_true.1 h2 m hm)
    (fun l hl m hm => by
      simp only [Option.some.injEq] at hl
      subst hl
      exact CtxWalk.lidOK_of_bool (List.all_eq_true.1 h3 m hm))
    (bhtAgree_of_bool h4) exC exC_mem
  have := (allSortedCb_iff exC).2 hs
  rw [exC_unsorted] at this
  cases this

end Pyx12Verif.Bridge.Ex

/-! ### answer level: `tree_sorted_located` covers ISA_LOOP for every body after ISA, GS -/

namespace Pyx12Verif.CtxWalk
open Pyx12Verif.MapSkel Pyx12Verif.Walker Pyx12Verif.WalkerGen

/-- the theorem applies to the located but non-conformant body of Props/C09Found.lean with ISA_LOOP (10) requested, and to the
    body with unknown segments with loop 2000 (20) requested … -/
example : ∀ d, Ctx.Yield.tree d ∈ Ctx.ctxRun (some 10) exAnswersLocated → Ctx.AllSortedC d :=
  tree_sorted_located exK exRoot 0 (by decide +kernel) (by decide +kernel) (by decide +kernel) (a := 0) (g := 1)
    (isaSeg := exISA) (gsSeg := exGS) rfl rfl rfl (by decide) (some 10) (lidOK_of_bool (by decide +kernel)) exSi exCnt0
    exLocated

example : ∀ d, Ctx.Yield.tree d ∈ Ctx.ctxRun (some 20) exAnswersUnknown → Ctx.AllSortedC d :=
  tree_sorted_located exK exRoot 0 (by decide +kernel) (by decide +kernel) (by decide +kernel) (a := 0) (g := 1)
    (isaSeg := exISA) (gsSeg := exGS) rfl rfl rfl (by decide) (some 20) (lidOK_of_bool (by decide +kernel)) exSi exCnt0
    exUnknown

/-- … and the kernel evaluates the monotonicity check and the invariant on every yielded tree -/
example : Ctx.Mono (some 10) exAnswersLocated ∧ Ctx.Mono (some 20) exAnswersLocated ∧ Ctx.Mono (some 20) exAnswersUnknown ∧
    (Bridge.treesOf (Ctx.ctxRun (some 10) exAnswersLocated)).map Bridge.allSortedCb = [true] ∧
    (Bridge.treesOf (Ctx.ctxRun (some 20) exAnswersLocated)).map Bridge.allSortedCb = [true, true] ∧
    (Bridge.treesOf (Ctx.ctxRun (some 20) exAnswersUnknown)).map Bridge.allSortedCb = [true, true, true, true] := by
  decide +kernel

end Pyx12Verif.CtxWalk
