/-
WHEN DOES THE XML SINK COMPLETE?  (closes `docXml_total_full` of Props/DocSinks.lean)

1. `docXml_total_full` AS WRITTEN IS FALSE (`docXml_total_full_false`).  `SinkMapsOK` speaks only about nodes that HAVE a
   definition in `Maps`, and nothing forces the first yielded segment to be `ISA`: with a header whose element separator is
   `A` (`ISAA00A…`, accepted by `RawX12File.__init__`, which only compares the first three characters) the first segment is
   `IS`.  It is walked from the initial node `/ISA_LOOP/ISA` of the control map, is not found (the walker's `addSeg` /
   `segError` events do not stop the error tree), and the round hands the sinks that initial node.  With a control map
   whose ISA node has no definition in `Maps` (witness: `defs := []`) the sink model has no view of it: validation ends with
   `verdict true`, `docXml = none`.  (In the real code every node object carries its definition; the gap is one of the
   model's `Maps`, which is why the strongest correct form needs a hypothesis on `Maps` and not on the input.)

2. THE STRONGEST CORRECT FORM (`docXml_total_min`, `docXml_total`, `docXml_total_iff`).  Extra hypothesis `CtlIsaOK ms`
   (Proofs/DocSinksViews.lean; decidable: `ctlIsaOKB`): each control map that can be loaded has `/ISA_LOOP/ISA` with a
   definition.  No hypothesis on the header or the text.  Of `MapsOK2` only the part `NoRootSeg` is needed (no segment
   directly under a map root: `cur_path[-1]`), not C08's `noSiblingLoopIdPrefix`.  Then
        the XML document is written  ⇔  `x12n_document` returns a verdict.
   Ingredients: every round has a view (`validateRead_views`: matched rounds get a node with a definition from
   `validate`, unmatched rounds keep the previous node, the initial node has one by `CtlIsaOK`); the loop bookkeeping of
   `seg()` raises only at `cur_path[-1]` of an empty path (`XmlG.transition_total`); the segment part of `seg()` is total for EVERY
   segment object against EVERY definition with `wfIds` (`XmlG.segOutG_total`: surplus elements / sub-elements hit the two
   `break`s; the bound `children.length ≤ 99` of `wfIds` keeps `'%02i' % (i + 1)` a designator; `Composite.format`'s
   UnboundLocalError needs an element without sub-elements, which `is_empty()` and is skipped).  No `.error` branch of
   the sink is reachable: there is no real-code finding here.

3. WELL-FORMEDNESS OF WHAT IS WRITTEN (`docXml_total_wf`): under the same hypotheses the document exists and
     * is balanced: one root, every start tag closed, properly nested (`Xml.wellFormed`, C08 reader);
     * has one `seg` element per `seg()` call, each inside exactly the loops of its node (`segCtxs`);
     * its element names are the six literals of the code (`KnownTags`);
     * its text is `xmlDecl ++ renderFrom 0 evs`, and a reader that separates markup (`<` … `>`) from character data finds
       as markup `markupOf evs` — tags and `id` attributes, the same whatever the element VALUES are
       (`markupOf (eraseValues evs) = markupOf evs`) — and as character data `contentFrom 0 evs`: indentation, line ends,
       and per text element `escapeText value`, which contains no `<` and decodes to the value
       (C08 `escape_safe`, `unescape_escapeText`).  So no character of the input becomes markup.
   Not stated: that the `id` attribute values (map text: loop ids, segment ids, element ids) are recovered by a reader —
   C08 `escape_safe` / `unescape_escapeAttr` say it per value; the attribute values sit inside `markupOf`.
-/
import Pyx12Verif.Proofs.DocSinksViews
import Pyx12Verif.Proofs.DocXmlTotalRun
import Pyx12Verif.Proofs.DocXmlTotalEsc
import Pyx12Verif.Props.DocSinksExample

namespace Pyx12Verif.Doc
open Pyx12Verif

/-! ### 1. the statement of Props/DocSinks.lean is false -/

namespace ExT
open Pyx12Verif.Doc.Ex Pyx12Verif.Doc.ExS

/-- the control map of Props/DocSinksExample.lean without segment definitions -/
def ctlBare : MapX := { mapS "x12.control.00401.xml" with defs := [] }

def msT : Maps := { msS with maps := [ctlBare, mapS "m.xml"] }

/-- `Ex.isaText` with `A` as element separator: the reader yields one segment, `IS` -/
def textA : List Char :=
  "ISAA00A          A00A          AZZASENDER         AZZARECEIVER       A200101A1200AUA00401A000000001A0APA:~".toList

theorem msT_sink : SinkMapsOK msT := sinkMapsOK_of_b _ (by decide +kernel)
theorem msT_ok2 : MapsOK2 msT := mapsOK2_of_b _ (by decide +kernel)

/-- validation completes: the one segment is not placed, nothing else is wrong -/
theorem textA_verdict : (validateDoc msT ctx textA).outcome = .verdict true := by decide +kernel

/-- the round: segment `IS`, not matched, handed over with `/ISA_LOOP/ISA` of the control map -/
theorem textA_round : (validateDoc msT ctx textA).segs.map (fun o => (o.sid, o.matched, o.node)) =
    [("IS".toList, false, some ("x12.control.00401.xml".toList, [0, 0]))] := by decide +kernel

theorem textA_noXml : docXml msT ctx textA = none := by decide +kernel

end ExT

/-- **`docXml_total_full` is false**: `SinkMapsOK` and `MapsOK2` do not give the initial node a definition -/
theorem docXml_total_full_false : ¬ docXml_total_full := by
  intro h
  obtain ⟨evs, he⟩ := h ExT.msT Ex.ctx ExT.textA ExT.msT_sink ExT.msT_ok2 ⟨true, ExT.textA_verdict⟩
  rw [ExT.textA_noXml] at he
  cases he

/-! ### 2. the strongest correct form -/

theorem xmlSteps_total (ms : Maps) (d : Delims) : ∀ (rounds : List Round),
    (∀ p ∈ rounds, ∃ v, nodeView ms p.1.node = some v) → ∃ steps, xmlSteps ms d rounds = some steps
  | [], _ => ⟨[], rfl⟩
  | p :: r, h => by
    obtain ⟨v, hv⟩ := h p (by simp)
    obtain ⟨steps, hs⟩ := xmlSteps_total ms d r (fun q hq => h q (by simp [hq]))
    exact ⟨xmlStepOf d p.2 v :: steps, by simp only [xmlSteps, hv, hs, consOpt]⟩

/-- a verdict is a verdict of `validateRead` on what the reader returned -/
theorem verdict_read (ms : Maps) (ctx : Ctx) (text : List Char) (b : Bool)
    (hv : (validateDoc ms ctx text).outcome = .verdict b) :
    ∃ hd rr, SegText.readAll { rest := text, sizes := [] } = .ok hd rr ∧ (validateRead ms ctx hd rr).outcome = .verdict b := by
  unfold validateDoc at hv
  split at hv
  · simp [emptyResult] at hv
  · rename_i hd rr hread
    exact ⟨hd, rr, hread, hv⟩

/-- **the `seg()` calls of a completed run exist**, and every one of them uses a definition with well-formed ids -/
theorem docSteps_total (ms : Maps) (hs : SinkMapsOK ms) (hci : CtlIsaOK ms) (ctx : Ctx) (text : List Char)
    (hv : ∃ b, (validateDoc ms ctx text).outcome = .verdict b) :
    ∃ steps, docSteps ms ctx text = some steps ∧ ∀ x ∈ steps, Xml.wfIds x.node = true := by
  obtain ⟨b, hb⟩ := hv
  obtain ⟨hd, rr, hread, hvr⟩ := verdict_read ms ctx text b hb
  obtain ⟨_, _, hlen, _⟩ := validateRead_segs ms ctx hd rr b hvr
  obtain ⟨rounds, hz⟩ := zipExact_some_of_length (validateRead ms ctx hd rr).segs (rr.segs.map (fun p => p.2))
    (by simpa using hlen)
  have hr : roundsOf (validateRead ms ctx hd rr) rr = some rounds := by simp only [roundsOf, hvr, hz]
  obtain ⟨hz1, _⟩ := zipExact_fst _ _ _ hz
  have hviews : ∀ p ∈ rounds, ∃ v, nodeView ms p.1.node = some v := by
    intro p hp
    refine validateRead_views ms hs hci ctx hd rr b hvr p.1 ?_
    rw [← hz1]
    exact List.mem_map.2 ⟨p, hp, rfl⟩
  obtain ⟨steps, hst⟩ := xmlSteps_total ms (SegText.delimsOf hd) rounds hviews
  refine ⟨steps, by simp only [docSteps, hread, hr, stepsOfRounds, hst], ?_⟩
  intro x hx
  obtain ⟨p, _, v, hview, rfl⟩ := (xmlSteps_spec ms _ rounds steps hst).mem_right x hx
  exact view_wfIds ms hs _ v hview

/-- no segment node sits directly under a map root (the part `nonempty` of `MapsOK2`): `seg()` reads `cur_path[-1]` for a
    first-in-loop segment -/
def NoRootSeg (ms : Maps) : Prop := ∀ m ∈ ms.maps, ∀ p ∈ pathsOf m, p ≠ []

theorem noRootSeg_of_ok2 (ms : Maps) (h : MapsOK2 ms) : NoRootSeg ms := h.nonempty

/-- decidable form -/
def noRootSegB (ms : Maps) : Bool := ms.maps.all (fun m => (pathsOf m).all (fun p => !p.isEmpty))

theorem noRootSeg_of_b (ms : Maps) (h : noRootSegB ms = true) : NoRootSeg ms := by
  intro m hm p hp
  simp only [noRootSegB, List.all_eq_true] at h
  have := h m hm p hp
  simpa using this

theorem view_path_ne (ms : Maps) (hnr : NoRootSeg ms) (k : Option (Str × List Nat)) (v : NodeView)
    (h : nodeView ms k = some v) : v.path ≠ [] := by
  obtain ⟨_, hm, _, hl, hp⟩ := nodeView_spec ms k v h
  exact hnr v.map (findMap_in_maps ms _ _ hm) v.path (pathAt_mem v.map v.ip v.path (by simp only [pathAt, hl, hp]))

theorem docSteps_paths (ms : Maps) (hnr : NoRootSeg ms) (ctx : Ctx) (text : List Char) (steps : List Xml.Step)
    (h : docSteps ms ctx text = some steps) : ∀ x ∈ steps, x.path ≠ [] := by
  obtain ⟨_, _, _, _, _, hp⟩ := docSteps_spec ms ctx text steps h
  intro x hx
  obtain ⟨p, _, v, hview, rfl⟩ := hp.mem_right x hx
  exact view_path_ne ms hnr _ v hview

/-- **(a) totality, minimal hypotheses.**  Every definition viewable with well-formed ids (`SinkMapsOK`), no segment
    directly under a map root (`NoRootSeg`), the control maps' `/ISA_LOOP/ISA` defined (`CtlIsaOK`): the XML sink never raises.
    Whenever validation ends with a verdict the document is written, whatever the text: any header, segments the walker
    cannot place, more elements / sub-elements than the node defines, composite data at simple elements.  (C08's
    `noSiblingLoopIdPrefix` is NOT needed for this: where it fails the loop elements may be wrong, but nothing raises.) -/
theorem docXml_total_min (ms : Maps) (hs : SinkMapsOK ms) (hnr : NoRootSeg ms) (hci : CtlIsaOK ms) (ctx : Ctx)
    (text : List Char) (hv : ∃ b, (validateDoc ms ctx text).outcome = .verdict b) : ∃ evs, docXml ms ctx text = some evs := by
  obtain ⟨steps, hst, hwf⟩ := docSteps_total ms hs hci ctx text hv
  obtain ⟨evs, he⟩ := XmlG.docEventsG_total steps
    (fun x hx => ⟨fun _ => docSteps_paths ms hnr ctx text steps hst x hx, hwf x hx⟩)
  exact ⟨evs, by simp only [docXml, eventsOfSteps, hst, he]⟩

/-- **(a) totality**, with the hypotheses of `docXml_total_full` plus `CtlIsaOK` -/
theorem docXml_total (ms : Maps) (hs : SinkMapsOK ms) (hok : MapsOK2 ms) (hci : CtlIsaOK ms) (ctx : Ctx) (text : List Char)
    (hv : ∃ b, (validateDoc ms ctx text).outcome = .verdict b) : ∃ evs, docXml ms ctx text = some evs :=
  docXml_total_min ms hs (noRootSeg_of_ok2 ms hok) hci ctx text hv

/-- the converse needs no hypothesis: a document is only written by a run that returns a verdict -/
theorem docXml_verdict (ms : Maps) (ctx : Ctx) (text : List Char) (evs : List Xml.Ev) (h : docXml ms ctx text = some evs) :
    ∃ b, (validateDoc ms ctx text).outcome = .verdict b := by
  obtain ⟨steps, hst, _⟩ := docXml_unfold ms ctx text evs h
  obtain ⟨hd, rr, rounds, hread, hr, _⟩ := docSteps_spec ms ctx text steps hst
  obtain ⟨hv, _, _⟩ := roundsOf_spec _ _ _ hr
  simpa only [validateDoc, hread] using hv

/-- **the XML document is written exactly when validation completes** -/
theorem docXml_total_iff (ms : Maps) (hs : SinkMapsOK ms) (hnr : NoRootSeg ms) (hci : CtlIsaOK ms) (ctx : Ctx)
    (text : List Char) :
    (∃ evs, docXml ms ctx text = some evs) ↔ ∃ b, (validateDoc ms ctx text).outcome = .verdict b :=
  ⟨fun ⟨evs, h⟩ => docXml_verdict ms ctx text evs h, docXml_total_min ms hs hnr hci ctx text⟩

/-- `CtlIsaOK` cannot be dropped: the maps of the witness satisfy the two other hypotheses and not this one -/
theorem witness_not_ctlIsa : SinkMapsOK ExT.msT ∧ MapsOK2 ExT.msT ∧ ¬ CtlIsaOK ExT.msT := by
  refine ⟨ExT.msT_sink, ExT.msT_ok2, fun h => ?_⟩
  obtain ⟨evs, he⟩ := docXml_total ExT.msT ExT.msT_sink ExT.msT_ok2 h Ex.ctx ExT.textA ⟨true, ExT.textA_verdict⟩
  rw [ExT.textA_noXml] at he
  cases he

/-! ### 3. what is written is well formed -/

/-- **(b) the document that exists is well formed and its data is escaped.** -/
theorem docXml_total_wf (ms : Maps) (hs : SinkMapsOK ms) (hok : MapsOK2 ms) (hci : CtlIsaOK ms) (ctx : Ctx) (text : List Char)
    (hv : ∃ b, (validateDoc ms ctx text).outcome = .verdict b) :
    ∃ evs steps, docXml ms ctx text = some evs ∧ docSteps ms ctx text = some steps ∧
      -- balanced: one root element, every start tag closed, properly nested
      Xml.wellFormed evs = true ∧
      -- one `seg` element per call, in order, inside exactly the loops of its node
      Xml.segCtxs [] evs = steps.map Xml.placeOf ∧
      -- the element names are the six literals of the code
      Xml.KnownTags evs ∧
      -- the text of the document …
      docXmlText ms ctx text = some (Xml.xmlDecl ++ Xml.renderFrom 0 evs) ∧
      -- … splits into markup that is the same whatever the element values are …
      Html.tags (Xml.renderFrom 0 evs) = Xml.markupOf evs ∧ Xml.markupOf (Xml.eraseValues evs) = Xml.markupOf evs ∧
      -- … and character data in which every value stands escaped
      Html.stripTags (Xml.renderFrom 0 evs) = Xml.contentFrom 0 evs := by
  obtain ⟨evs, he⟩ := docXml_total ms hs hok hci ctx text hv
  obtain ⟨steps, hst, hev⟩ := docXml_unfold ms ctx text evs he
  have hk : Xml.KnownTags evs := XmlG.docEventsG_known steps evs hev
  obtain ⟨h1, h2⟩ := Xml.render_split evs 0 (Xml.plain_of_known evs hk)
  exact ⟨evs, steps, he, hst, docXml_balanced_all ms hok ctx text evs he, docXml_nesting_all ms hok ctx text steps evs hst he,
    hk, by simp only [docXmlText, he, textOfEvents], h1, Xml.markupOf_erase evs, h2⟩

/-- the escaped value of a text element: no `<`, no `>`, and entity decoding gives the value back
    (what `contentFrom` carries per value; C08 `escape_safe`, `unescape_escapeText`) -/
theorem escaped_value (x : Xml.Str) :
    (∀ c ∈ Xml.escapeText x, c ≠ '<' ∧ c ≠ '>') ∧ Xml.unescape (Xml.escapeText x) = x :=
  ⟨Xml.escapeText_noAngle x, Xml.unescape_escapeText x⟩

end Pyx12Verif.Doc
