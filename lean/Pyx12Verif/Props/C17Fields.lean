/-
C17 (extension) — fields-level completeness of the designator matcher and of the path parser.

`matchLast_complete` (Proofs/PathSound.lean) shows only that the written-out regex search accepts every text of the
documented designator language `IsDesignator` (Spec/Path.lean).  Here:

* `decomp_unique`    a text has at most one decomposition `seg ++ q ++ ee ++ cc ++ nl` of that language;
* `matchLast_fields` on every text of the language the search returns EXACTLY the four fields the decomposition
                     denotes (segment id, qualifier, element index, component index);
* `parse_fields`     the same for whole paths `[/]L1/…/Ln/<designator>`: the parser returns the loop ids and
                     exactly those fields, or refuses by the two documented rules, and by nothing else;
* `parse_fields_loops_only`  the remaining shape `[/]L1/…/Ln/` (empty last component).
-/
import Pyx12Verif.Props.C17
import Pyx12Verif.Proofs.PathFields

namespace Pyx12Verif.Path

/-- `s` is decomposed into the five optional parts of the documented language (the body of `IsDesignator`) -/
def Decomp (s seg q ee cc nl : List Char) : Prop :=
  s = seg ++ (q ++ (ee ++ (cc ++ nl))) ∧ (seg = [] ∨ SegIdOK seg) ∧ QOk q ∧ EEOk ee ∧ CCOk cc ∧ NLOk nl

/-- `Decomp` is literally what `IsDesignator` quantifies over -/
theorem isDesignator_iff (s : List Char) : IsDesignator s ↔ ∃ seg q ee cc nl, Decomp s seg q ee cc nl :=
  Iff.rfl

/-- the four fields a decomposition denotes -/
def fieldsOf (seg q ee cc : List Char) : Last := ⟨segField seg, qualField q, eleField ee, subField cc⟩

/-- the matcher returns the fields of ANY decomposition of its input -/
theorem matchLast_of_decomp {s seg q ee cc nl : List Char} (h : Decomp s seg q ee cc nl) :
    matchLast s = some (fieldsOf seg q ee cc) := by
  obtain ⟨rfl, hseg, hq, hee, hcc, hnl⟩ := h
  exact matchLast_decomp seg q ee cc nl hseg hq hee hcc hnl

/-! ### uniqueness of the decomposition -/

theorem segField_inj {a b : List Char} (h : segField a = segField b) : a = b := by
  unfold segField at h
  by_cases ha : a = [] <;> by_cases hb : b = [] <;> simp_all

theorem qualField_inj {a b : List Char} (ha : QOk a) (hb : QOk b) (h : qualField a = qualField b) : a = b := by
  rcases ha with rfl | ⟨t, rfl, _, _⟩ <;> rcases hb with rfl | ⟨u, rfl, _, _⟩
  · rfl
  · simp [qualField] at h
  · simp [qualField] at h
  · simp [qualField] at h
    rw [h]

theorem eleField_len {a b : List Char} (ha : EEOk a) (hb : EEOk b) (h : eleField a = eleField b) :
    a.length = b.length := by
  rcases ha with rfl | ⟨d1, d2, rfl, _, _⟩ <;> rcases hb with rfl | ⟨e1, e2, rfl, _, _⟩ <;>
    simp [eleField] at h ⊢

theorem ccnl_inj {cc nl cc' nl' : List Char} (hcc : CCOk cc) (hnl : NLOk nl) (hcc' : CCOk cc') (hnl' : NLOk nl')
    (h : cc ++ nl = cc' ++ nl') : cc = cc' ∧ nl = nl' := by
  have nodigit : ∀ ds : List Char, (∀ x ∈ ds, isDigit x = true) → '\n' ∉ ds :=
    fun ds hd hm => digit_ne _ '\n' (hd _ hm) (by decide) rfl
  have key : ∀ c1 n1 c2 : List Char, CCOk c1 → NLOk n1 → CCOk c2 → c1 ++ n1 = c2 ++ ['\n'] →
      c1 = c2 ∧ n1 = ['\n'] := by
    intro c1 n1 c2 h1 hn1 h2 he
    rcases hn1 with rfl | rfl
    · exfalso
      simp only [List.append_nil] at he
      rcases h1 with rfl | ⟨ds, rfl, _, hd⟩
      · simp at he
      · have : '\n' ∈ '-' :: ds := by rw [he]; simp
        simp only [List.mem_cons] at this
        rcases this with h | h
        · revert h; decide
        · exact nodigit ds hd h
    · exact ⟨List.append_inj_left' he rfl, rfl⟩
  rcases hnl' with rfl | rfl
  · rcases hnl with rfl | rfl
    · exact ⟨by simpa using h, rfl⟩
    · obtain ⟨h1, h2⟩ := key cc' [] cc hcc' (Or.inl rfl) hcc (by simpa using h.symm)
      cases h2
  · obtain ⟨h1, h2⟩ := key cc nl cc' hcc hnl hcc' h
    exact ⟨h1, h2⟩

/-- **the decomposition is unique**: a text of the designator language splits into segment id, qualifier, element
index, component index and final newline in exactly one way -/
theorem decomp_unique {s seg q ee cc nl seg' q' ee' cc' nl' : List Char}
    (h : Decomp s seg q ee cc nl) (h' : Decomp s seg' q' ee' cc' nl') :
    seg = seg' ∧ q = q' ∧ ee = ee' ∧ cc = cc' ∧ nl = nl' := by
  have e := (matchLast_of_decomp h).symm.trans (matchLast_of_decomp h')
  simp only [fieldsOf, Option.some.injEq, Last.mk.injEq] at e
  obtain ⟨e1, e2, e3, _⟩ := e
  obtain ⟨hs, _, hq, hee, hcc, hnl⟩ := h
  obtain ⟨hs', _, hq', hee', hcc', hnl'⟩ := h'
  have a1 := segField_inj e1
  have a2 := qualField_inj hq hq' e2
  subst a1; subst a2
  rw [hs] at hs'
  have r1 := List.append_cancel_left (List.append_cancel_left hs')
  have a3 := List.append_inj_left r1 (eleField_len hee hee' e3)
  subst a3
  have r2 := List.append_cancel_left r1
  obtain ⟨a4, a5⟩ := ccnl_inj hcc hnl hcc' hnl' r2
  exact ⟨rfl, rfl, rfl, a4, a5⟩

/-! ### matchLast_fields -/

/-- **Fields-level completeness of the matcher.**  For every text `s` of the documented designator language there
is exactly one decomposition `seg ++ q ++ ee ++ cc ++ nl`, and the search returns exactly its fields: the segment
id (`none` when absent), the text between the brackets, the value of the two element digits, the value of the
component digits.  (The converse — a returned match implies membership — is `matchLast_sound`.) -/
theorem matchLast_fields (s : List Char) (h : IsDesignator s) :
    ∃ seg q ee cc nl, Decomp s seg q ee cc nl ∧
      matchLast s = some ⟨segField seg, qualField q, eleField ee, subField cc⟩ ∧
      ∀ seg' q' ee' cc' nl', Decomp s seg' q' ee' cc' nl' →
        seg' = seg ∧ q' = q ∧ ee' = ee ∧ cc' = cc ∧ nl' = nl := by
  obtain ⟨seg, q, ee, cc, nl, hd⟩ := h
  exact ⟨seg, q, ee, cc, nl, hd, matchLast_of_decomp hd,
    fun _ _ _ _ _ hd' => decomp_unique hd' hd⟩

/-- the fields read off the parts: what is absent is `none`, what is present is its text / value -/
theorem fields_explicit (seg t : List Char) (d1 d2 : Char) (ds : List Char) :
    segField [] = none ∧ (seg ≠ [] → segField seg = some seg) ∧
    qualField [] = none ∧ qualField ('[' :: (t ++ [']'])) = some t ∧
    eleField [] = none ∧ eleField [d1, d2] = some (digitVal d1 * 10 + digitVal d2) ∧
    subField [] = none ∧ subField ('-' :: ds) = some (num ds) := by
  refine ⟨rfl, ?_, rfl, ?_, rfl, ?_, rfl, ?_⟩
  · intro h; simp [segField, h]
  · simp [qualField]
  · simp [eleField, num]
  · simp [subField]

/-- the matcher is a function of the text, so its four fields are functions of the text: two texts of the
language with different fields are different texts, and (with `matchLast_sound`) a returned match determines the
decomposition up to the spelling of the component digits -/
theorem matchLast_fields_iff (s : List Char) (m : Last) :
    matchLast s = some m ↔ ∃ seg q ee cc nl, Decomp s seg q ee cc nl ∧ m = fieldsOf seg q ee cc := by
  constructor
  · intro hm
    obtain ⟨seg, q, ee, cc, nl, hd⟩ := matchLast_sound s m hm
    refine ⟨seg, q, ee, cc, nl, hd, ?_⟩
    have := matchLast_of_decomp hd
    rw [hm] at this; injection this
  · rintro ⟨seg, q, ee, cc, nl, hd, rfl⟩
    exact matchLast_of_decomp hd

/-! ### parse_fields -/

/-- **Fields-level completeness of the path parser.**  For the text `[/]L1/…/Ln/<designator>` (any number of
non-empty `/`-free loop ids, a non-empty designator of the documented language) the parser
  * refuses (`X12PathError`) exactly when a qualifier comes without a segment id, or an element / component index
    without a segment id follows loop ids;
  * otherwise returns the loop ids as given and exactly the four fields of the designator's decomposition. -/
theorem parse_fields (rel : Bool) (loops : List (List Char)) (seg q ee cc nl : List Char)
    (hl : ∀ l ∈ loops, l ≠ [] ∧ '/' ∉ l)
    (hd : Decomp (seg ++ (q ++ (ee ++ (cc ++ nl)))) seg q ee cc nl)
    (hne : seg ++ (q ++ (ee ++ (cc ++ nl))) ≠ []) :
    parse (pathText rel loops (seg ++ (q ++ (ee ++ (cc ++ nl))))) =
      if seg = [] ∧ q ≠ [] then none
      else if seg = [] ∧ (ee ≠ [] ∨ cc ≠ []) ∧ loops ≠ [] then none
      else some ⟨rel, loops, segField seg, qualField q, eleField ee, subField cc⟩ := by
  obtain ⟨_, hseg, hq, hee, hcc, hnl⟩ := hd
  rw [parse_pathText rel loops _ _ hl hne (designator_no_slash seg q ee cc nl hseg hq hee hcc hnl)
    (matchLast_decomp seg q ee cc nl hseg hq hee hcc hnl)]
  by_cases h1 : seg = [] <;> by_cases h2 : q = [] <;> by_cases h3 : ee = [] <;> by_cases h4 : cc = [] <;>
    by_cases h5 : loops = [] <;>
    simp [checkLast, segField, qualField, eleField, subField, h1, h2, h3, h4, h5]

/-- `parse_fields` for any text of the language given as such -/
theorem parse_fields_designator (rel : Bool) (loops : List (List Char)) (last : List Char)
    (hl : ∀ l ∈ loops, l ≠ [] ∧ '/' ∉ l) (hlast : IsDesignator last) (hne : last ≠ []) :
    ∃ seg q ee cc nl, Decomp last seg q ee cc nl ∧
      parse (pathText rel loops last) =
        if seg = [] ∧ q ≠ [] then none
        else if seg = [] ∧ (ee ≠ [] ∨ cc ≠ []) ∧ loops ≠ [] then none
        else some ⟨rel, loops, segField seg, qualField q, eleField ee, subField cc⟩ := by
  obtain ⟨seg, q, ee, cc, nl, hd⟩ := hlast
  have hs := hd.1
  subst hs
  exact ⟨seg, q, ee, cc, nl, hd, parse_fields rel loops seg q ee cc nl hl hd hne⟩

/-- the other shape of a path text, `[/]L1/…/Ln/` with an empty last component: loop ids only -/
theorem parse_fields_loops_only (rel : Bool) (loops : List (List Char))
    (hl : ∀ l ∈ loops, l ≠ [] ∧ '/' ∉ l) (hne : loops ≠ []) :
    parse (pathText rel loops []) = some ⟨rel, loops, none, none, none, none⟩ := by
  unfold pathText
  rw [parse_join rel (loops ++ [[]]) (by simp)
      (by
        intro y hy; simp only [List.mem_append, List.mem_singleton] at hy
        rcases hy with hy | hy
        · exact (hl y hy).2
        · rw [hy]; simp)
      (by
        intro _ y t e
        cases loops with
        | nil => exact absurd rfl hne
        | cons a b => simp at e; rw [← e.1]; exact (hl a (by simp)).1)]
  simp [finish, loopsOnly]

/-! ### non-vacuity (the hypotheses are satisfiable; the kernel agrees with the theorems) -/

theorem segIdOK_CLM : SegIdOK ['C', 'L', 'M'] := ⟨Or.inr rfl, by decide, 'C', ['L', 'M'], rfl, by decide⟩
theorem segIdOK_AB : SegIdOK ['A', 'B'] := ⟨Or.inl rfl, by decide, 'A', ['B'], rfl, by decide⟩
theorem segIdOK_AB1 : SegIdOK ['A', 'B', '1'] := ⟨Or.inr rfl, by decide, 'A', ['B', '1'], rfl, by decide⟩

/-- `CLM05-1` = `CLM` ++ `` ++ `05` ++ `-1` ++ `` -/
theorem decomp_CLM : Decomp "CLM05-1".toList ['C', 'L', 'M'] [] ['0', '5'] ['-', '1'] [] :=
  ⟨rfl, Or.inr segIdOK_CLM, Or.inl rfl, Or.inr ⟨'0', '5', rfl, by decide, by decide⟩,
    Or.inr ⟨['1'], rfl, by simp, by decide⟩, Or.inl rfl⟩

example : IsDesignator "CLM05-1".toList := ⟨_, _, _, _, _, decomp_CLM⟩

example : matchLast "CLM05-1".toList = some ⟨some ['C', 'L', 'M'], none, some 5, some 1⟩ := by
  rw [matchLast_of_decomp decomp_CLM]; decide

/-- the greedy segment-id group: `AB12` is `AB` + `12` (the three-character attempt `AB1` + `2` is not in the
language), `AB123` is `AB1` + `23` -/
theorem decomp_AB12 : Decomp "AB12".toList ['A', 'B'] [] ['1', '2'] [] [] :=
  ⟨rfl, Or.inr segIdOK_AB, Or.inl rfl, Or.inr ⟨'1', '2', rfl, by decide, by decide⟩, Or.inl rfl, Or.inl rfl⟩
theorem decomp_AB123 : Decomp "AB123".toList ['A', 'B', '1'] [] ['2', '3'] [] [] :=
  ⟨rfl, Or.inr segIdOK_AB1, Or.inl rfl, Or.inr ⟨'2', '3', rfl, by decide, by decide⟩, Or.inl rfl, Or.inl rfl⟩

example : matchLast "AB12".toList = some ⟨some ['A', 'B'], none, some 12, none⟩ := by
  rw [matchLast_of_decomp decomp_AB12]; decide
example : matchLast "AB123".toList = some ⟨some ['A', 'B', '1'], none, some 23, none⟩ := by
  rw [matchLast_of_decomp decomp_AB123]; decide
/-- no other reading of `AB12` exists -/
example (seg q ee cc nl : List Char) (h : Decomp "AB12".toList seg q ee cc nl) : seg = ['A', 'B'] ∧ ee = ['1', '2'] := by
  obtain ⟨h1, _, h3, _, _⟩ := decomp_unique h decomp_AB12
  exact ⟨h1, h3⟩

/-- qualifier and final newline -/
theorem decomp_REF : Decomp "REF[1W]02\n".toList ['R', 'E', 'F'] ['[', '1', 'W', ']'] ['0', '2'] [] ['\n'] :=
  ⟨rfl, Or.inr ⟨Or.inr rfl, by decide, 'R', ['E', 'F'], rfl, by decide⟩,
    Or.inr ⟨['1', 'W'], rfl, by simp, by decide⟩, Or.inr ⟨'0', '2', rfl, by decide, by decide⟩, Or.inl rfl,
    Or.inr rfl⟩
example : matchLast "REF[1W]02\n".toList = some ⟨some ['R', 'E', 'F'], some ['1', 'W'], some 2, none⟩ := by
  rw [matchLast_of_decomp decomp_REF]; decide

/-- whole paths: accepted with exactly the fields … -/
example : parse "/2000A/2300/CLM05-1".toList =
    some ⟨false, [['2','0','0','0','A'], ['2','3','0','0']], some ['C','L','M'], none, some 5, some 1⟩ := by
  have h := parse_fields false [['2','0','0','0','A'], ['2','3','0','0']] ['C', 'L', 'M'] [] ['0', '5'] ['-', '1'] []
    (by decide) decomp_CLM (by decide)
  have e : pathText false [['2','0','0','0','A'], ['2','3','0','0']]
      (['C', 'L', 'M'] ++ ([] ++ (['0', '5'] ++ (['-', '1'] ++ [])))) = "/2000A/2300/CLM05-1".toList := by decide
  rw [e] at h; rw [h]; decide

/-- … and refused by the second rule (an element index after a loop id, no segment id) -/
example : parse "2000A/02-1".toList = none := by
  have hd : Decomp ([] ++ ([] ++ (['0', '2'] ++ (['-', '1'] ++ [])))) [] [] ['0', '2'] ['-', '1'] [] :=
    ⟨rfl, Or.inl rfl, Or.inl rfl, Or.inr ⟨'0', '2', rfl, by decide, by decide⟩,
      Or.inr ⟨['1'], rfl, by simp, by decide⟩, Or.inl rfl⟩
  have h := parse_fields true [['2','0','0','0','A']] [] [] ['0', '2'] ['-', '1'] [] (by decide) hd (by decide)
  have e : pathText true [['2','0','0','0','A']] ([] ++ ([] ++ (['0', '2'] ++ (['-', '1'] ++ [])))) =
      "2000A/02-1".toList := by decide
  rw [e] at h; rw [h]; decide

example : parse "/2000A/2300/".toList = some ⟨false, [['2','0','0','0','A'], ['2','3','0','0']], none, none, none, none⟩ := by
  have h := parse_fields_loops_only false [['2','0','0','0','A'], ['2','3','0','0']] (by decide) (by decide)
  have e : pathText false [['2','0','0','0','A'], ['2','3','0','0']] [] = "/2000A/2300/".toList := by decide
  rw [e] at h; exact h

end Pyx12Verif.Path
