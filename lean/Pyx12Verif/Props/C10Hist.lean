/-
C10 (extension) — history-level refinement: serialising the tree after ANY sequence of API calls reflects those
edits and nothing else.

Abstract specification.  The state of a tree is its SERIALISED VIEW, a plain `List AbstractSeg` (what
`iterate_segments` yields); the state of the program is the list of these, one per root object.  The API is specified
on that view by six list operations

    absSet  absAddSegment  absAddLoop  absDeleteSegment  absDeleteNode  absCopy      (+ absAddNode)

each of which is determined by the call's own arguments (value, segment text) and by a *locus*: the structural
information the flat view cannot contain — at which index of the serialisation the path / the insert rule / the
first match points, how many segments the addressed node spans, which terminators the new segment is parsed with,
and whether the map accepts the call at all.  `resolve σ op` computes that locus on the concrete forest and returns
the abstract call (`AbsCall`); a call that is refused, that finds nothing, or that only observes resolves to `skip`.

    step_refinement     one call :  serF (step σ op).2 = absApply (serF σ) (resolve σ op)
    history_refinement  any history: serF (run σ ops).2 = absRun (serF σ) (resolveRun σ ops)

Both hold for EVERY forest and EVERY call / history — valid, refused (every `Err` outcome) or partially executed
(`add_loop` leaving an empty loop node): there is no side condition.  The domain is the one of the model
(Model/DataTree.lean header): calls are made on addresses (`getAt a t = none` is the refused outcome `.attr`), not
on tombstones or on objects outside every tree; `add_node` takes a detached root.
`resolve_kind` says that a call can only resolve to its own kind of edit, on its own tree, with its own arguments;
`resolve_set_sound` … `resolve_copy_sound` tie every locus to the path / match / insert rule it stands for (these
are the per-call theorems of Props/C10.lean with the index made explicit).
-/
import Pyx12Verif.Props.C10
import Pyx12Verif.Proofs.DataTreeHist

namespace Pyx12Verif.DataTree

/-! ## the abstract state: the serialised view -/

/-- a segment of the serialised view: id, elements (composites of sub-elements) and its three terminators -/
abbrev AbstractSeg := Seg
/-- the serialised view of one tree (`iterate_segments`) -/
abbrev AbsTree := List AbstractSeg
/-- one serialised view per root object -/
abbrev AbsForest := List AbsTree

/-- serialise every tree of the forest -/
def serF (σ : Forest) : AbsForest := σ.map segsOf

/-! ## the abstract operations (list edits of the serialised view) -/

/-- `set_value`: the `i`-th segment is replaced by the result of `Segment.set` with designator `rd`; if `Segment.set`
raises, nothing changes -/
def absSet (i : Nat) (rd v : Str) (segs : AbsTree) : AbsTree :=
  match segs[i]? with
  | none => segs
  | some s => match segSetStr s rd v with
    | .error _ => segs
    | .ok s2 => segs.set i s2

/-- `add_segment`: the text, parsed with the tree's terminators, becomes the `i`-th segment -/
def absAddSegment (i : Nat) (st et sb : Char) (s : Str) (segs : AbsTree) : AbsTree :=
  segs.take i ++ segParse s st et sb :: segs.drop i

/-- `add_loop`: the new loop's first segment becomes the `i`-th segment -/
def absAddLoop (i : Nat) (st et sb : Char) (s : Str) (segs : AbsTree) : AbsTree :=
  segs.take i ++ segParse s st et sb :: segs.drop i

/-- `delete_segment`: the `i`-th segment, which equals (`Segment.__eq__`) the parsed text, disappears -/
def absDeleteSegment (i : Nat) (st et sb : Char) (s : Str) (segs : AbsTree) : AbsTree :=
  match segs[i]? with
  | none => segs
  | some s0 => if segEq s0 (segParse s st et sb) then segs.eraseIdx i else segs

/-- `delete_node`: the `n` segments from index `i` on (the span of the first match) disappear -/
def absDeleteNode (i n : Nat) (segs : AbsTree) : AbsTree := segs.take i ++ segs.drop (i + n)

/-- `copy`: the new tree is the span `[i, i+n)` with every segment copied (`Segment.__copy__`) -/
def absCopy (i n : Nat) (segs : AbsTree) : AbsTree := ((segs.drop i).take n).map segCopy

/-- `add_node`: the serialisation of the moved tree is spliced in at index `i` -/
def absAddNode (i : Nat) (moved : AbsTree) (segs : AbsTree) : AbsTree := segs.take i ++ moved ++ segs.drop i

/-- an API call with its locus resolved: root index `r`, serialisation index `i`, span `n`, terminators -/
inductive AbsCall
  | skip
  | set (r i : Nat) (rd v : Str)
  | addSegment (r i : Nat) (st et sb : Char) (s : Str)
  | addLoop (r i : Nat) (st et sb : Char) (s : Str)
  | deleteSegment (r i : Nat) (st et sb : Char) (s : Str)
  | deleteNode (r i n : Nat)
  | addNode (r i j : Nat)
  | copy (r i n : Nat)
  deriving DecidableEq, Repr

/-- effect of a resolved call on the serialised view of the tree it is made on -/
def absOnTree : AbsCall → AbsTree → AbsTree
  | .skip, x => x
  | .set _ i rd v, x => absSet i rd v x
  | .addSegment _ i st et sb s, x => absAddSegment i st et sb s x
  | .addLoop _ i st et sb s, x => absAddLoop i st et sb s x
  | .deleteSegment _ i st et sb s, x => absDeleteSegment i st et sb s x
  | .deleteNode _ i n, x => absDeleteNode i n x
  | .addNode _ _ _, x => x
  | .copy _ _ _, x => x

/-- effect of a resolved call on the abstract forest: only the view of root `r` is edited; `add_node` also
empties the view of the moved root `j`; `copy` appends a new view -/
def absApply (A : AbsForest) : AbsCall → AbsForest
  | .skip => A
  | .set r i rd v => A.modify r (absSet i rd v)
  | .addSegment r i st et sb s => A.modify r (absAddSegment i st et sb s)
  | .addLoop r i st et sb s => A.modify r (absAddLoop i st et sb s)
  | .deleteSegment r i st et sb s => A.modify r (absDeleteSegment i st et sb s)
  | .deleteNode r i n => A.modify r (absDeleteNode i n)
  | .addNode r i j => match A[j]? with
    | none => A
    | some m => (A.modify r (absAddNode i m)).set j []
  | .copy r i n => match A[r]? with
    | none => A
    | some x => A ++ [absCopy i n x]

/-- fold the abstract operations over a resolved history -/
def absRun (A : AbsForest) (cs : List AbsCall) : AbsForest := cs.foldl absApply A

/-! ## the structural information: where a call points in the serialisation -/

/-- `set_value` / `get_value`: serialisation index of the segment the path designates, and the designator handed
to the segment -/
def setLocus (t : DNode) (a : List Nat) (p : Str) : Option (Nat × Str) :=
  match targetOf t a p with
  | .error _ => none
  | .ok none => none
  | .ok (some (sa, rd)) => match segAt t sa with
    | none => none
    | some _ => some (offset sa t, rd)

/-- `add_segment`: index given by the insert rule among the children of the loop at `a`, and the terminators;
`none` when the receiver is no loop, has no terminators to offer, or the map has no such child segment -/
def addSegLocus (t : DNode) (a : List Nat) (s : Str) : Option (Nat × Char × Char × Char) :=
  match loopParts (getAt a t) with
  | none => none
  | some (_, mk, cs) => match termsFrom t (a.length + 1) a with
    | .error _ => none
    | .ok (st, et, sb) => match childSegDef (segParse s st et sb) mk with
      | none => none
      | some d => some (insOff t a cs d.pos, st, et, sb)

/-- `add_loop`: the same for the child loop the segment starts; `none` also when adding the segment fails after
the empty loop node was inserted (the serialisation is unchanged then) -/
def addLoopLocus (t : DNode) (a : List Nat) (s : Str) : Option (Nat × Char × Char × Char) :=
  match loopParts (getAt a t) with
  | none => none
  | some (_, mk, cs) => match termsFrom t (a.length + 1) a with
    | .error _ => none
    | .ok (st, et, sb) => match childLoopDef (segParse s st et sb) mk with
      | .error _ => none
      | .ok none => none
      | .ok (some (h2, kids)) => match newLoopKids h2 kids (segParse s st et sb) with
        | .error _ => none
        | .ok _ => some (insOff t a cs h2.pos, st, et, sb)

/-- `delete_segment`: index of the first direct segment child (not the first child) equal to the parsed text -/
def delSegLocus (t : DNode) (a : List Nat) (s : Str) : Option (Nat × Char × Char × Char) :=
  match loopParts (getAt a t) with
  | none => none
  | some (_, mk, cs) => match termsFrom t (a.length + 1) a with
    | .error _ => none
    | .ok (st, et, sb) => match childSegDef (segParse s st et sb) mk with
      | none => none
      | some _ => match delAfterOff (segParse s st et sb) (cleanup cs) with
        | none => none
        | some k => some (offset a t + k, st, et, sb)

/-- `delete_node`: index and span of the first match -/
def delNodeLocus (t : DNode) (a : List Nat) (p : Str) : Option (Nat × Nat) :=
  match selectAt t a p with
  | .error _ => none
  | .ok [] => none
  | .ok (x :: _) => match getAt x t with
    | none => none
    | some n => some (offset x t, (segsOf n).length)

/-- `add_node`: index given by the insert rule; `none` when the receiver is no loop or the map parent differs -/
def addNodeLocus (t : DNode) (a : List Nat) (n : DNode) : Option Nat :=
  match loopParts (getAt a t) with
  | none => none
  | some (h, _, cs) => match nodeParentKey n with
    | none => none
    | some k => if k = (h.id, h.pid) then some (insOff t a cs (nodePos n)) else none

def mkSet (r : Nat) (v : Str) : Option (Nat × Str) → AbsCall
  | none => .skip
  | some (i, rd) => .set r i rd v

def mkAddSegment (r : Nat) (s : Str) : Option (Nat × Char × Char × Char) → AbsCall
  | none => .skip
  | some (i, st, et, sb) => .addSegment r i st et sb s

def mkAddLoop (r : Nat) (s : Str) : Option (Nat × Char × Char × Char) → AbsCall
  | none => .skip
  | some (i, st, et, sb) => .addLoop r i st et sb s

def mkDeleteSegment (r : Nat) (s : Str) : Option (Nat × Char × Char × Char) → AbsCall
  | none => .skip
  | some (i, st, et, sb) => .deleteSegment r i st et sb s

def mkDeleteNode (r : Nat) : Option (Nat × Nat) → AbsCall
  | none => .skip
  | some (i, n) => .deleteNode r i n

def mkAddNode (r j : Nat) : Option Nat → AbsCall
  | none => .skip
  | some i => .addNode r i j

/-- the abstract call a call on the tree `t` (= root `r`) resolves to -/
def resolveTree (r : Nat) (t : DNode) : Op → AbsCall
  | .getValue _ _ _ => .skip
  | .setValue _ a p v => mkSet r v (setLocus t a p)
  | .existsQ _ _ _ => .skip
  | .count _ _ _ => .skip
  | .first _ _ _ => .skip
  | .select _ _ _ => .skip
  | .addSegment _ a s => mkAddSegment r s (addSegLocus t a s)
  | .addLoop _ a s => mkAddLoop r s (addLoopLocus t a s)
  | .addNode _ _ _ => .skip
  | .deleteSegment _ a s => mkDeleteSegment r s (delSegLocus t a s)
  | .deleteNode _ a p => mkDeleteNode r (delNodeLocus t a p)
  | .copy _ _ => .skip

/-- the abstract call an API call resolves to on the forest `σ` (same case structure as `step`) -/
def resolve (σ : Forest) : Op → AbsCall
  | .copy r a => match σ[r]? with
    | none => .skip
    | some t => match getAt a t with
      | none => .skip
      | some n => .copy r (offset a t) (segsOf n).length
  | .addNode r a j =>
    if r = j then .skip
    else match σ[r]? with
      | none => .skip
      | some t => match σ[j]? with
        | none => .skip
        | some n => mkAddNode r j (addNodeLocus t a n)
  | op => match σ[opRoot op]? with
    | none => .skip
    | some t => resolveTree (opRoot op) t op

/-- the resolved history: every call resolved on the forest it is made on -/
def resolveRun : Forest → List Op → List AbsCall
  | _, [] => []
  | σ, op :: r => resolve σ op :: resolveRun (step σ op).2 r

/-! ## per-call refinement on one tree -/

theorem setLocus_some (t : DNode) (a : List Nat) (p : Str) (i : Nat) (rd : Str)
    (h : setLocus t a p = some (i, rd)) :
    ∃ sa s, targetOf t a p = .ok (some (sa, rd)) ∧ segAt t sa = some s ∧ i = offset sa t := by
  simp only [setLocus] at h
  split at h
  · simp at h
  · simp at h
  · rename_i sa rd' htg
    split at h
    · simp at h
    · rename_i s hs
      simp at h
      obtain ⟨rfl, rfl⟩ := h
      exact ⟨sa, s, htg, hs, rfl⟩

theorem setLocus_none (t : DNode) (a : List Nat) (p v : Str) (h : setLocus t a p = none) :
    ∃ e, setValueAt t a p v = .error e := by
  simp only [setLocus] at h
  simp only [setValueAt]
  split at h
  · rename_i e he; exact ⟨e, by simp [he]⟩
  · rename_i he; exact ⟨.path, by simp [he]⟩
  · rename_i sa rd he
    split at h
    · rename_i hs; exact ⟨.attr, by simp [he, hs]⟩
    · simp at h

theorem refine_set (t : DNode) (r r' : Nat) (a : List Nat) (p v : Str) :
    segsOf (stepTree t (.setValue r' a p v)).2 = absOnTree (resolveTree r t (.setValue r' a p v)) (segsOf t) := by
  simp only [stepTree, resolveTree]
  cases hl : setLocus t a p with
  | none =>
    obtain ⟨e, he⟩ := setLocus_none t a p v hl
    simp [he, mkSet, absOnTree]
  | some x =>
    obtain ⟨i, rd⟩ := x
    obtain ⟨sa, s, htg, hs, rfl⟩ := setLocus_some t a p i rd hl
    obtain ⟨hidx, hset⟩ := seg_at_offset t sa s hs
    simp only [mkSet, absOnTree, absSet, hidx, setValueAt, htg, hs]
    cases hss : segSetStr s rd v with
    | error e => simp
    | ok s2 => simp [hset]

theorem refine_addSegment (t : DNode) (r r' : Nat) (a : List Nat) (s : Str) :
    segsOf (stepTree t (.addSegment r' a s)).2 = absOnTree (resolveTree r t (.addSegment r' a s)) (segsOf t) := by
  simp only [stepTree, resolveTree, addSegLocus, addSegmentAt, mkSegment]
  cases hp : loopParts (getAt a t) with
  | none => simp [mkAddSegment, absOnTree]
  | some x =>
    obtain ⟨hd, mk, cs⟩ := x
    have hg := loopParts_some _ _ _ _ hp
    cases ht : termsFrom t (a.length + 1) a with
    | error e => simp [mkAddSegment, absOnTree]
    | ok tr =>
      obtain ⟨st, et, sb⟩ := tr
      cases hc : childSegDef (segParse s st et sb) mk with
      | none => simp [hc, mkAddSegment, absOnTree]
      | some d =>
        simp only [hc, mkAddSegment, absOnTree, absAddSegment]
        rw [insert_at_offset t a hd mk cs _ hg]
        simp [segsOf, nodePos]

theorem newLoopKids_ok (h2 : Hdr) (kids : List MNode) (sg : Seg) (ks : List DNode)
    (hk : newLoopKids h2 kids sg = .ok ks) : ∃ d, ks = [.seg d sg] := by
  simp only [newLoopKids] at hk
  split at hk
  · simp at hk
  · rename_i d _
    split at hk
    · simp at hk; exact ⟨d, hk.symm⟩
    · simp at hk

theorem refine_addLoop (t : DNode) (r r' : Nat) (a : List Nat) (s : Str) :
    segsOf (stepTree t (.addLoop r' a s)).2 = absOnTree (resolveTree r t (.addLoop r' a s)) (segsOf t) := by
  simp only [stepTree, resolveTree, addLoopLocus, addLoopAt, mkSegment]
  cases hp : loopParts (getAt a t) with
  | none => simp [mkAddLoop, absOnTree]
  | some x =>
    obtain ⟨hd, mk, cs⟩ := x
    have hg := loopParts_some _ _ _ _ hp
    cases ht : termsFrom t (a.length + 1) a with
    | error e => simp [mkAddLoop, absOnTree]
    | ok tr =>
      obtain ⟨st, et, sb⟩ := tr
      cases hc : childLoopDef (segParse s st et sb) mk with
      | error e => simp [hc, mkAddLoop, absOnTree]
      | ok o =>
        cases o with
        | none => simp [hc, mkAddLoop, absOnTree]
        | some hk =>
          obtain ⟨h2, kids⟩ := hk
          cases hn : newLoopKids h2 kids (segParse s st et sb) with
          | error e =>
            simp only [hc, hn, mkAddLoop, absOnTree]
            rw [insert_at_offset t a hd mk cs _ hg]
            simp [segsOf, segsOfList]
          | ok ks =>
            obtain ⟨d, rfl⟩ := newLoopKids_ok h2 kids _ ks hn
            simp only [hc, hn, mkAddLoop, absOnTree, absAddLoop]
            rw [insert_at_offset t a hd mk cs _ hg]
            simp [segsOf, segsOfList, nodePos]

theorem refine_deleteSegment (t : DNode) (r r' : Nat) (a : List Nat) (s : Str) :
    segsOf (stepTree t (.deleteSegment r' a s)).2 = absOnTree (resolveTree r t (.deleteSegment r' a s)) (segsOf t) := by
  simp only [stepTree, resolveTree, delSegLocus, deleteSegmentAt, mkSegment]
  cases hp : loopParts (getAt a t) with
  | none => simp [mkDeleteSegment, absOnTree]
  | some x =>
    obtain ⟨hd, mk, cs⟩ := x
    have hg := loopParts_some _ _ _ _ hp
    cases ht : termsFrom t (a.length + 1) a with
    | error e => simp [mkDeleteSegment, absOnTree]
    | ok tr =>
      obtain ⟨st, et, sb⟩ := tr
      cases hc : childSegDef (segParse s st et sb) mk with
      | none => simp [hc, mkDeleteSegment, absOnTree]
      | some d =>
        rcases delAfter_off (segParse s st et sb) (cleanup cs) with ⟨h1, h2⟩ | ⟨cs2, k, p, s0, q, h1, h2, h3, h4, h5, h6⟩
        · simp only [hc, h1, h2, mkDeleteSegment, absOnTree]
          exact cleanup_at t a hd mk cs hg
        · obtain ⟨hidx, hdel⟩ := delete_at_offset t a hd mk cs cs2 p q s0 hg h3 h4
          rw [h5] at hidx hdel
          simp only [hc, h1, h2, mkDeleteSegment, absOnTree, absDeleteSegment, hidx, h6, if_true]
          exact hdel

theorem delNodeLocus_ok (t : DNode) (a : List Nat) (p : Str) (x : List Nat) (rest : List (List Nat))
    (h : selectAt t a p = .ok (x :: rest)) :
    ∃ n, getAt x t = some n ∧ delNodeLocus t a p = some (offset x t, (segsOf n).length) := by
  obtain ⟨n, hn, _⟩ := selectAt_sound t a p _ h x (by simp)
  exact ⟨n, hn, by simp [delNodeLocus, h, hn]⟩

theorem refine_deleteNode (t : DNode) (r r' : Nat) (a : List Nat) (p : Str) :
    segsOf (stepTree t (.deleteNode r' a p)).2 = absOnTree (resolveTree r t (.deleteNode r' a p)) (segsOf t) := by
  simp only [stepTree, resolveTree, deleteNodeAt]
  cases hs : selectAt t a p with
  | error e => simp [delNodeLocus, hs, mkDeleteNode, absOnTree]
  | ok l =>
    cases l with
    | nil => simp [delNodeLocus, hs, mkDeleteNode, absOnTree]
    | cons x rest =>
      obtain ⟨n, hn, hl⟩ := delNodeLocus_ok t a p x rest hs
      simp only [hl, mkDeleteNode, absOnTree, absDeleteNode]
      exact kill_at_offset t x n hn

/-- **per-call refinement on one tree**: whatever the call and its outcome, the serialisation afterwards is the
abstract operation applied to the serialisation before -/
theorem tree_refinement (t : DNode) (r : Nat) (op : Op) :
    segsOf (stepTree t op).2 = absOnTree (resolveTree r t op) (segsOf t) := by
  cases op with
  | setValue r' a p v => exact refine_set t r r' a p v
  | addSegment r' a s => exact refine_addSegment t r r' a s
  | addLoop r' a s => exact refine_addLoop t r r' a s
  | deleteSegment r' a s => exact refine_deleteSegment t r r' a s
  | deleteNode r' a p => exact refine_deleteNode t r r' a p
  | getValue _ _ _ | existsQ _ _ _ | count _ _ _ | first _ _ _ | select _ _ _ | addNode _ _ _ | copy _ _ =>
    simp [stepTree, resolveTree, absOnTree]

/-! ## per-call refinement on the forest -/

theorem serF_getElem? (σ : Forest) (r : Nat) : (serF σ)[r]? = (σ[r]?).map segsOf := by
  simp [serF]

theorem serF_set (σ : Forest) (r : Nat) (t : DNode) : serF (σ.set r t) = (serF σ).set r (segsOf t) := by
  simp [serF, List.map_set]

theorem modify_of_getElem? {α : Type} (A : List α) (r : Nat) (f : α → α) (x : α) (h : A[r]? = some x) :
    A.modify r f = A.set r (f x) := by
  induction A generalizing r with
  | nil => simp at h
  | cons y ys ih =>
    cases r with
    | zero => simp at h; simp [h]
    | succ k => simp at h; simp [ih k h]

theorem set_self {α : Type} (A : List α) (r : Nat) (x : α) (h : A[r]? = some x) : A.set r x = A := by
  induction A generalizing r with
  | nil => simp
  | cons y ys ih =>
    cases r with
    | zero => simp at h; simp [h]
    | succ k => simp at h; simp [ih k h]

/-- a call resolved on the tree at root `r` edits the view of root `r` and no other -/
theorem absApply_resolveTree (A : AbsForest) (r : Nat) (x : AbsTree) (t : DNode) (op : Op) (hx : A[r]? = some x) :
    absApply A (resolveTree r t op) = A.set r (absOnTree (resolveTree r t op) x) := by
  cases op with
  | setValue r' a p v =>
    simp only [resolveTree]
    cases setLocus t a p with
    | none => simp [mkSet, absApply, absOnTree, set_self A r x hx]
    | some y => obtain ⟨i, rd⟩ := y; simp [mkSet, absApply, absOnTree, modify_of_getElem? A r _ x hx]
  | addSegment r' a s =>
    simp only [resolveTree]
    cases addSegLocus t a s with
    | none => simp [mkAddSegment, absApply, absOnTree, set_self A r x hx]
    | some y =>
      obtain ⟨i, st, et, sb⟩ := y
      simp [mkAddSegment, absApply, absOnTree, modify_of_getElem? A r _ x hx]
  | addLoop r' a s =>
    simp only [resolveTree]
    cases addLoopLocus t a s with
    | none => simp [mkAddLoop, absApply, absOnTree, set_self A r x hx]
    | some y =>
      obtain ⟨i, st, et, sb⟩ := y
      simp [mkAddLoop, absApply, absOnTree, modify_of_getElem? A r _ x hx]
  | deleteSegment r' a s =>
    simp only [resolveTree]
    cases delSegLocus t a s with
    | none => simp [mkDeleteSegment, absApply, absOnTree, set_self A r x hx]
    | some y =>
      obtain ⟨i, st, et, sb⟩ := y
      simp [mkDeleteSegment, absApply, absOnTree, modify_of_getElem? A r _ x hx]
  | deleteNode r' a p =>
    simp only [resolveTree]
    cases delNodeLocus t a p with
    | none => simp [mkDeleteNode, absApply, absOnTree, set_self A r x hx]
    | some y => obtain ⟨i, n⟩ := y; simp [mkDeleteNode, absApply, absOnTree, modify_of_getElem? A r _ x hx]
  | getValue _ _ _ | existsQ _ _ _ | count _ _ _ | first _ _ _ | select _ _ _ | addNode _ _ _ | copy _ _ =>
    simp [resolveTree, absApply, absOnTree, set_self A r x hx]

theorem addNodeLocus_spec (t : DNode) (a : List Nat) (n : DNode) :
    (∃ e, addNodeAt t a n = .error e ∧ addNodeLocus t a n = none) ∨
    (∃ t' i, addNodeAt t a n = .ok t' ∧ addNodeLocus t a n = some i ∧
      segsOf t' = absAddNode i (segsOf n) (segsOf t)) := by
  simp only [addNodeAt, addNodeLocus]
  cases hp : loopParts (getAt a t) with
  | none => left; exact ⟨.attr, rfl, rfl⟩
  | some x =>
    obtain ⟨hd, mk, cs⟩ := x
    have hg := loopParts_some _ _ _ _ hp
    cases hk : nodeParentKey n with
    | none => left; exact ⟨.attr, rfl, rfl⟩
    | some k =>
      by_cases he : k = (hd.id, hd.pid)
      · right
        refine ⟨modifyAt (withKids (insertChild n cs)) a t, insOff t a cs (nodePos n), by simp [he], by simp [he], ?_⟩
        rw [insert_at_offset t a hd mk cs n hg]; rfl
      · left; exact ⟨.path, by simp [he], by simp [he]⟩

/-- **per-call refinement**: for every forest and every API call — accepted, refused or partially executed — the
serialised forest after the call is the abstract operation applied to the serialised forest before it -/
theorem step_refinement (σ : Forest) (op : Op) : serF (step σ op).2 = absApply (serF σ) (resolve σ op) := by
  have tree : ∀ op' : Op, (∀ r a, op' ≠ .copy r a) → (∀ r a j, op' ≠ .addNode r a j) →
      step σ op' = (match σ[opRoot op']? with
        | none => (.err .attr, σ)
        | some t => ((stepTree t op').1, σ.set (opRoot op') (stepTree t op').2)) ∧
      resolve σ op' = (match σ[opRoot op']? with
        | none => .skip
        | some t => resolveTree (opRoot op') t op') := by
    intro op' h1 h2
    cases op' with
    | copy r a => exact absurd rfl (h1 r a)
    | addNode r a j => exact absurd rfl (h2 r a j)
    | _ => exact ⟨rfl, rfl⟩
  have treeCase : ∀ op' : Op, (∀ r a, op' ≠ .copy r a) → (∀ r a j, op' ≠ .addNode r a j) →
      serF (step σ op').2 = absApply (serF σ) (resolve σ op') := by
    intro op' h1 h2
    obtain ⟨e1, e2⟩ := tree op' h1 h2
    rw [e1, e2]
    cases hr : σ[opRoot op']? with
    | none => simp [absApply]
    | some t =>
      simp only []
      rw [serF_set, tree_refinement t (opRoot op') op',
        absApply_resolveTree (serF σ) (opRoot op') (segsOf t) t op' (by simp [serF_getElem?, hr])]
  cases op with
  | copy r a =>
    cases hr : σ[r]? with
    | none => simp [step, resolve, hr, absApply]
    | some t =>
      cases hn : getAt a t with
      | none => simp [step, resolve, hr, hn, absApply]
      | some n =>
        simp only [step, resolve, hr, hn, absApply, serF_getElem?, Option.map_some, absCopy, segsOf_window a t n hn]
        simp [serF, segsOf_copy_aux]
  | addNode r a j =>
    by_cases hrj : r = j
    · simp [step, resolve, hrj, absApply]
    · cases hr : σ[r]? with
      | none => simp [step, resolve, hrj, hr, absApply]
      | some t =>
        cases hj : σ[j]? with
        | none => simp [step, resolve, hrj, hr, hj, absApply]
        | some n =>
          rcases addNodeLocus_spec t a n with ⟨e, h1, h2⟩ | ⟨t', i, h1, h2, h3⟩
          · simp [step, resolve, hrj, hr, hj, h1, h2, mkAddNode, absApply]
          · simp only [step, resolve, hrj, if_false, hr, hj, h1, h2, mkAddNode, absApply, serF_getElem?, Option.map_some]
            rw [serF_set, serF_set, h3,
              modify_of_getElem? (serF σ) r _ (segsOf t) (by simp [serF_getElem?, hr])]
            simp [segsOf]
  | getValue r a p => exact treeCase _ (by intro r a h; cases h) (by intro r a j h; cases h)
  | setValue r a p v => exact treeCase _ (by intro r a h; cases h) (by intro r a j h; cases h)
  | existsQ r a p => exact treeCase _ (by intro r a h; cases h) (by intro r a j h; cases h)
  | count r a p => exact treeCase _ (by intro r a h; cases h) (by intro r a j h; cases h)
  | first r a p => exact treeCase _ (by intro r a h; cases h) (by intro r a j h; cases h)
  | select r a p => exact treeCase _ (by intro r a h; cases h) (by intro r a j h; cases h)
  | addSegment r a s => exact treeCase _ (by intro r a h; cases h) (by intro r a j h; cases h)
  | addLoop r a s => exact treeCase _ (by intro r a h; cases h) (by intro r a j h; cases h)
  | deleteSegment r a s => exact treeCase _ (by intro r a h; cases h) (by intro r a j h; cases h)
  | deleteNode r a p => exact treeCase _ (by intro r a h; cases h) (by intro r a j h; cases h)

/-! ## history_refinement -/

/-- **History-level refinement.**  For EVERY forest `σ` and EVERY finite sequence `ops` of API calls (valid, refused,
or failing half-way), running the model and then serialising equals folding the abstract list operations over the
serialisation of the initial forest: serialising the trees after a sequence of edits reflects those edits and
nothing else. -/
theorem history_refinement (σ : Forest) (ops : List Op) :
    serF (run σ ops).2 = absRun (serF σ) (resolveRun σ ops) := by
  induction ops generalizing σ with
  | nil => simp [run, resolveRun, absRun]
  | cons op r ih =>
    simp only [run, resolveRun, absRun, List.foldl_cons]
    rw [ih (step σ op).2, step_refinement σ op]
    rfl

/-- the abstract run, state by state: the serialised forest after every prefix of the history -/
theorem history_refinement_prefix (σ : Forest) (ops : List Op) (k : Nat) :
    serF (run σ (ops.take k)).2 = absRun (serF σ) ((resolveRun σ ops).take k) := by
  have : ∀ (σ : Forest) (ops : List Op) (k : Nat), (resolveRun σ ops).take k = resolveRun σ (ops.take k) := by
    intro σ ops
    induction ops generalizing σ with
    | nil => intro k; simp [resolveRun]
    | cons op r ih =>
      intro k
      cases k with
      | zero => simp [resolveRun]
      | succ k => simp [resolveRun, ih]
  rw [this, history_refinement]

/-! ## "and nothing else": what a call can resolve to, and what its locus stands for -/

/-- the abstract calls an API call may resolve to: `skip`, or its own kind of edit on its own root with its own
arguments (value, segment text, moved root) — only the locus is computed from the structure -/
def CallOf : Op → AbsCall → Prop
  | .getValue _ _ _, c => c = .skip
  | .setValue r _ _ v, c => c = .skip ∨ ∃ i rd, c = .set r i rd v
  | .existsQ _ _ _, c => c = .skip
  | .count _ _ _, c => c = .skip
  | .first _ _ _, c => c = .skip
  | .select _ _ _, c => c = .skip
  | .addSegment r _ s, c => c = .skip ∨ ∃ i st et sb, c = .addSegment r i st et sb s
  | .addLoop r _ s, c => c = .skip ∨ ∃ i st et sb, c = .addLoop r i st et sb s
  | .addNode r _ j, c => c = .skip ∨ ∃ i, c = .addNode r i j
  | .deleteSegment r _ s, c => c = .skip ∨ ∃ i st et sb, c = .deleteSegment r i st et sb s
  | .deleteNode r _ _, c => c = .skip ∨ ∃ i n, c = .deleteNode r i n
  | .copy r _, c => c = .skip ∨ ∃ i n, c = .copy r i n

theorem resolve_kind (σ : Forest) (op : Op) : CallOf op (resolve σ op) := by
  cases op with
  | copy r a =>
    simp only [resolve, CallOf]
    cases hr : σ[r]? with
    | none => simp
    | some t => cases hn : getAt a t <;> simp [hn]
  | addNode r a j =>
    simp only [resolve, CallOf]
    by_cases hrj : r = j
    · simp [hrj]
    · simp only [hrj, if_false]
      cases hr : σ[r]? with
      | none => simp
      | some t =>
        cases hj : σ[j]? with
        | none => simp
        | some n => cases hl : addNodeLocus t a n <;> simp [hl, mkAddNode]
  | getValue r a p | existsQ r a p | count r a p | first r a p | select r a p =>
    simp only [resolve, opRoot, CallOf]
    cases σ[r]? <;> simp [resolveTree]
  | setValue r a p v =>
    simp only [resolve, opRoot, CallOf]
    cases σ[r]? with
    | none => simp
    | some t => simp only [resolveTree]; cases setLocus t a p <;> simp [mkSet]
  | addSegment r a s =>
    simp only [resolve, opRoot, CallOf]
    cases σ[r]? with
    | none => simp
    | some t => simp only [resolveTree]; cases addSegLocus t a s <;> simp [mkAddSegment]
  | addLoop r a s =>
    simp only [resolve, opRoot, CallOf]
    cases σ[r]? with
    | none => simp
    | some t => simp only [resolveTree]; cases addLoopLocus t a s <;> simp [mkAddLoop]
  | deleteSegment r a s =>
    simp only [resolve, opRoot, CallOf]
    cases σ[r]? with
    | none => simp
    | some t => simp only [resolveTree]; cases delSegLocus t a s <;> simp [mkDeleteSegment]
  | deleteNode r a p =>
    simp only [resolve, opRoot, CallOf]
    cases σ[r]? with
    | none => simp
    | some t => simp only [resolveTree]; cases delNodeLocus t a p <;> simp [mkDeleteNode]

/-- every call of a history resolves to its own kind of edit -/
theorem resolveRun_kind (σ : Forest) (ops : List Op) :
    (resolveRun σ ops).length = ops.length ∧ ∀ p ∈ List.zip ops (resolveRun σ ops), CallOf p.1 p.2 := by
  induction ops generalizing σ with
  | nil => simp [resolveRun]
  | cons op r ih =>
    obtain ⟨h1, h2⟩ := ih (step σ op).2
    refine ⟨by simp [resolveRun, h1], ?_⟩
    intro p hp
    simp only [resolveRun, List.zip_cons_cons, List.mem_cons] at hp
    rcases hp with rfl | hp
    · exact resolve_kind σ op
    · exact h2 p hp

/-- the locus of `set_value` (and `get_value`): index `i` of the serialisation holds the segment the path
designates, and `rd` is the designator handed to it; `get_value` returns what that segment answers -/
theorem resolve_set_sound (t : DNode) (a : List Nat) (p : Str) (i : Nat) (rd : Str)
    (h : setLocus t a p = some (i, rd)) :
    ∃ sa s, targetOf t a p = .ok (some (sa, rd)) ∧ segAt t sa = some s ∧ (segsOf t)[i]? = some s ∧
      getValueAt t a p = segGetStr s rd := by
  obtain ⟨sa, s, htg, hs, rfl⟩ := setLocus_some t a p i rd h
  exact ⟨sa, s, htg, hs, (seg_at_offset t sa s hs).1, by simp [getValueAt, htg, hs]⟩

/-- the locus of `delete_node`: the window `[i, i+n)` of the serialisation is exactly the first match -/
theorem resolve_deleteNode_sound (t : DNode) (a : List Nat) (p : Str) (i n : Nat)
    (h : delNodeLocus t a p = some (i, n)) :
    ∃ x rest m, selectAt t a p = .ok (x :: rest) ∧ getAt x t = some m ∧ isLive m = true ∧
      ((segsOf t).drop i).take n = segsOf m ∧ n = (segsOf m).length := by
  simp only [delNodeLocus] at h
  split at h
  · simp at h
  · simp at h
  · rename_i x rest hs
    obtain ⟨m, hm, hl⟩ := selectAt_sound t a p _ hs x (by simp)
    simp [hm] at h
    obtain ⟨rfl, rfl⟩ := h
    exact ⟨x, rest, m, hs, hm, hl, segsOf_window x t m hm, rfl⟩

/-- the locus of `add_segment`: the index lies inside the window of the receiving loop, after the segments of all
swept children placed before the new node by the insert rule (`insert_after_le_before_gt`), and the map of the
receiving loop has a child segment matching the parsed text -/
theorem resolve_addSegment_sound (t : DNode) (a : List Nat) (s : Str) (i : Nat) (st et sb : Char)
    (h : addSegLocus t a s = some (i, st, et, sb)) :
    ∃ hd mk cs d, getAt a t = some (.loop hd mk cs) ∧ mkSegment t a s = .ok (segParse s st et sb) ∧
      childSegDef (segParse s st et sb) mk = some d ∧
      i = offset a t + (segsOfList ((cleanup cs).take (insertIdx d.pos (cleanup cs)))).length ∧
      offset a t ≤ i ∧ i ≤ offset a t + (segsOfList cs).length := by
  simp only [addSegLocus] at h
  split at h
  · simp at h
  · rename_i hd mk cs hp
    have hg := loopParts_some _ _ _ _ hp
    split at h
    · simp at h
    · rename_i st' et' sb' ht
      split at h
      · simp at h
      · rename_i d hc
        simp at h
        obtain ⟨rfl, rfl, rfl, rfl⟩ := h
        refine ⟨hd, mk, cs, d, hg, by simp [mkSegment, ht], hc, rfl, by simp [insOff], ?_⟩
        have := segsOfList_take_drop (insertIdx d.pos (cleanup cs)) (cleanup cs)
        rw [segsOfList_cleanup] at this
        simp only [insOff]
        rw [this]; simp

/-- the locus of `delete_segment`: index `i` holds a segment equal (`Segment.__eq__`) to the parsed text -/
theorem resolve_deleteSegment_sound (t : DNode) (a : List Nat) (s : Str) (i : Nat) (st et sb : Char)
    (h : delSegLocus t a s = some (i, st, et, sb)) :
    ∃ s0, (segsOf t)[i]? = some s0 ∧ segEq s0 (segParse s st et sb) = true ∧
      mkSegment t a s = .ok (segParse s st et sb) := by
  simp only [delSegLocus] at h
  split at h
  · simp at h
  · rename_i hd mk cs hp
    have hg := loopParts_some _ _ _ _ hp
    split at h
    · simp at h
    · rename_i st' et' sb' ht
      split at h
      · simp at h
      · split at h
        · simp at h
        · rename_i k hk
          simp at h
          obtain ⟨rfl, rfl, rfl, rfl⟩ := h
          rcases delAfter_off (segParse s st' et' sb') (cleanup cs) with ⟨_, h2⟩ | ⟨cs2, k', p, s0, q, _, h2, h3, h4, h5, h6⟩
          · rw [h2] at hk; cases hk
          · rw [h2] at hk; injection hk with hk; subst hk
            obtain ⟨hidx, _⟩ := delete_at_offset t a hd mk cs cs2 p q s0 hg h3 h4
            rw [h5] at hidx
            exact ⟨s0, hidx, h6, by simp [mkSegment, ht]⟩

/-- the locus of `copy`: the window `[i, i+n)` is the serialisation of the copied node -/
theorem resolve_copy_sound (σ : Forest) (r : Nat) (a : List Nat) (r' i n : Nat)
    (h : resolve σ (.copy r a) = .copy r' i n) :
    r' = r ∧ ∃ t m, σ[r]? = some t ∧ getAt a t = some m ∧ ((segsOf t).drop i).take n = segsOf m := by
  simp only [resolve] at h
  split at h
  · cases h
  · rename_i t hr
    split at h
    · cases h
    · rename_i m hm
      injection h with h1 h2 h3
      subst h1; subst h2; subst h3
      exact ⟨rfl, t, m, hr, hm, segsOf_window a t m hm⟩

/-! ## non-vacuity: an abstract run computed by the kernel -/

/-- a history with accepted, refused and not-found calls on the example tree of Props/C10.lean -/
def exHistory : List Op :=
  [.setValue 0 [2] "../REF[EA]02".toList ['Z'],          -- REF*EA*X~ → REF*EA*Z~
   .addSegment 0 [] "REF*D9*Q~".toList,                  -- inserted after the first REF
   .addSegment 0 [] "ZZZ*1~".toList,                     -- refused: no such child in the map
   .getValue 0 [] "CLM01".toList,                        -- observation
   .deleteNode 0 [] ['2', '4', '0', '0'],                -- removes LX*1~ SV1*HC:99*5~
   .deleteNode 0 [] ['9', '9', '9', '9'],                -- nothing matches
   .copy 0 [],                                           -- new root 1
   .setValue 1 [] "CLM01".toList ['Q'],                  -- edit the copy only
   .deleteSegment 0 [] "REF*D9*Q~".toList,
   .addLoop 0 [] "LX*7~".toList]

/-- the resolved history: loci as serialisation indices -/
example : resolveRun [exTree] exHistory =
    [.set 0 1 "REF02".toList ['Z'], .addSegment 0 2 '~' '*' ':' "REF*D9*Q~".toList, .skip, .skip,
     .deleteNode 0 3 2, .skip, .copy 0 0 4, .set 1 0 "CLM01".toList ['Q'],
     .deleteSegment 0 2 '~' '*' ':' "REF*D9*Q~".toList, .addLoop 0 3 '~' '*' ':' "LX*7~".toList] := by
  decide +kernel

/-- folding the abstract operations over the serialisation alone gives the final serialised forest … -/
example : (absRun (serF [exTree]) (resolveRun [exTree] exHistory)).map (List.map segFmt) =
    [["CLM*A*1~".toList, "REF*EA*Z~".toList, "LX*2~".toList, "LX*7~".toList],
     ["CLM*Q*1~".toList, "REF*EA*Z~".toList, "REF*D9*Q~".toList, "LX*2~".toList]] := by
  decide +kernel

/-- … which is what the model's trees serialise to (instance of `history_refinement`) -/
example : (serF (run [exTree] exHistory).2).map (List.map segFmt) =
    [["CLM*A*1~".toList, "REF*EA*Z~".toList, "LX*2~".toList, "LX*7~".toList],
     ["CLM*Q*1~".toList, "REF*EA*Z~".toList, "REF*D9*Q~".toList, "LX*2~".toList]] := by
  rw [history_refinement]; decide +kernel

end Pyx12Verif.DataTree
