/-
Non-vacuity for Props/DocTotal2.lean on the maps of Props/DocExample.lean (and two variants):
the hypotheses of `doc_total_sharp` hold, each of the three listed call sites is reached, and the two walker sites are
reached by maps that put a set header / trailer outside its loop (so `doc_total_three` cannot do without its hypotheses).
-/
import Pyx12Verif.Props.DocTotal2
import Pyx12Verif.Props.DocExample

namespace Pyx12Verif.Doc.Ex
open Pyx12Verif Pyx12Verif.Doc MapSkel

/-- both pinned nodes exist in the control map, and ISA begins with a simple element -/
theorem ctl_ok (f : Str) (control : MapX) (hf : f = ctl401 ∨ f = ctl501) (h : findMap ms f = some control) :
    ControlOk ms control := by
  rcases hf with rfl | rfl
  · have hc : control = mapX "x12.control.00401.xml" := by
      have : findMap ms ctl401 = some (mapX "x12.control.00401.xml") := rfl
      rw [this] at h
      exact (Option.some.inj h).symm
    subst hc
    refine ⟨⟨_, (rfl : fetchIn ms (mapX "x12.control.00401.xml") (isaPath ms) =
        some ⟨mapX "x12.control.00401.xml", [0, 0]⟩)⟩, ⟨_, (rfl :
        fetchIn ms (mapX "x12.control.00401.xml") (gsPath ms) = some ⟨mapX "x12.control.00401.xml", [0, 1, 0]⟩)⟩, ?_⟩
    intro n sd hn hl
    have hn' : fetchIn ms (mapX "x12.control.00401.xml") (isaPath ms) = some ⟨mapX "x12.control.00401.xml", [0, 0]⟩ :=
      rfl
    rw [hn'] at hn
    have := Option.some.inj hn
    subst this
    have hl' : lookupDef (mapX "x12.control.00401.xml") [0, 0] = some isaDef := rfl
    rw [hl'] at hl
    have := Option.some.inj hl
    subst this
    exact ⟨_, _, rfl⟩
  · have : findMap ms ctl501 = none := rfl
    rw [this] at h
    cases h

/-- `doc_total_sharp` applies to these maps, for every text with sane delimiters -/
example (text : List Char)
    (hsane : ∀ hd, Tokenizer.parseHeader (text.take Tokenizer.ISA_LEN) = .ok hd → SaneHeader hd)
    (c : ErrTree.Site) (h : (validateDoc ms ctx text).outcome = .crash (.errTree c)) :
    SiteOk c (validateDoc ms ctx text).segs := doc_total_sharp ms ctx text hsane ctl_ok c h

/-- the header of the example texts is sane -/
example : ∀ hd, Tokenizer.parseHeader (orphanSe.take Tokenizer.ISA_LEN) = .ok hd → SaneHeader hd := by
  intro hd h
  have : Tokenizer.parseHeader (orphanSe.take Tokenizer.ISA_LEN) =
      .ok { seg := '~', ele := '*', sub := ':', rep := none, icvn := "00401".toList } := by decide +kernel
  rw [this] at h
  injection h with h
  subst h
  exact ⟨by decide, by decide⟩

/-! the three listed sites are reached -/

/-- SE without ST: `st_error` with no set node -/
example : (validateDoc ms ctx orphanSe).outcome = .crash (.errTree .stErrorNoSt) := by decide +kernel

/-- GE without GS is not matched and leaves its group-level error pending; the IEA that follows pops it: `gs_error` with
    no group node -/
def orphanGe : List Char := (isaText ++ "GE*1*1~IEA*0*000000001~").toList
example : (validateDoc ms ctx orphanGe).outcome = .crash (.errTree .gsErrorNoGs) := by decide +kernel

/-- a plain segment outside any set (TA1 after ISA) with an element error: `_add_cur_seg` with no set node -/
def ta1Def : SegDef :=
  { sid := "TA1".toList, name := "Interchange Acknowledgment".toList, notes := [], children := [an 1 .R 9 9 "I12" "TA101"] }

def rootTA1 : List Node :=
  [.loop 10 1 0 1 false
    [.seg 11 0 10 0 1 [] [el 1],
     .loop 12 20 0 0 false
       [.seg 13 0 10 0 1 [] [el 1],
        .loop 14 20 0 0 false [.seg 15 0 10 0 1 [] [el 1], .seg 18 0 20 1 2 [] [el 1], .seg 24 0 30 0 1 [] [el 1]],
        .seg 25 0 30 0 1 [] [el 1]],
     .seg 30 0 25 1 1 [] [el 1],
     .seg 26 0 30 0 1 [] [el 1]]]

def mapTA1 (file : String) : MapX :=
  { (mapX file) with
      root := rootTA1,
      defs := [([0, 0], isaDef), ([0, 1, 0], gsDef), ([0, 1, 1, 0], stDef), ([0, 1, 1, 1], refDef), ([0, 1, 1, 2], seDef),
               ([0, 1, 2], geDef), ([0, 2], ta1Def), ([0, 3], ieaDef)],
      intern := [("ISA".toList, 11), ("GS".toList, 13), ("ST".toList, 15), ("REF".toList, 18), ("SE".toList, 24),
                 ("GE".toList, 25), ("IEA".toList, 26), ("TA1".toList, 30)] }

def msTA1 : Maps := { ms with maps := [mapTA1 "x12.control.00401.xml", mapTA1 "m.xml"] }
def ta1Text : List Char := (isaText ++ "TA1*1~IEA*0*000000001~").toList
example : (validateDoc msTA1 ctx ta1Text).outcome = .crash (.errTree .eleErrorNoSt) := by decide +kernel

/-! the two walker sites are reached by maps that break the envelope nesting -/

/-- a control map with the set header directly inside the interchange loop: ST is matched before any GS -/
def rootBadSt : List Node :=
  [.loop 10 1 0 1 false
    [.seg 11 0 10 0 1 [] [el 1],
     .seg 15 0 15 1 1 [] [el 1],
     .loop 12 20 0 0 false [.seg 13 0 10 0 1 [] [el 1], .seg 25 0 30 0 1 [] [el 1]],
     .seg 26 0 30 0 1 [] [el 1]]]

def mapBadSt (file : String) : MapX :=
  { (mapX file) with
      root := rootBadSt,
      defs := [([0, 0], isaDef), ([0, 1], stDef), ([0, 2, 0], gsDef), ([0, 2, 1], geDef), ([0, 3], ieaDef)] }

def msBadSt : Maps := { ms with maps := [mapBadSt "x12.control.00401.xml"] }
example : (validateDoc msBadSt ctx (isaText ++ "ST*837*0001~").toList).outcome = .crash (.errTree .addStNoGs) := by
  decide +kernel

/-- a map with the set trailer directly inside the group loop: SE is matched although its ST (wrong ST01 code) was not -/
def rootBadSe : List Node :=
  [.loop 10 1 0 1 false
    [.seg 11 0 10 0 1 [] [el 1],
     .loop 12 20 0 0 false
       [.seg 13 0 10 0 1 [] [el 1],
        .seg 24 0 20 1 1 [] [el 1],
        .seg 25 0 30 0 1 [] [el 1]],
     .seg 26 0 30 0 1 [] [el 1]]]

def mapBadSe (file : String) : MapX :=
  { (mapX file) with
      root := rootBadSe,
      defs := [([0, 0], isaDef), ([0, 1, 0], gsDef), ([0, 1, 1], seDef), ([0, 1, 2], geDef), ([0, 2], ieaDef)] }

def msBadSe : Maps := { ms with maps := [mapBadSe "x12.control.00401.xml", mapBadSe "m.xml"] }
example : (validateDoc msBadSe ctx
    (isaText ++ "GS*HC*S*R*20200101*1200*1*X*004010X1~ST*837*0001~SE*2*0001~").toList).outcome =
      .crash (.errTree .closeStNoSt) := by decide +kernel

end Pyx12Verif.Doc.Ex
