/-
Non-vacuity for the structural theorems of Props/DocFault.lean, continued: `doc_rejects_unknown_segment` (`ZZZ` inside the
set) and `doc_unknown_segment_outside_set_accepted` (`ZZZ` between GS and ST: verdict TRUE, finding D27).
-/
import Pyx12Verif.Props.DocFaultExample3

namespace Pyx12Verif.Doc.Ex
open Pyx12Verif Pyx12Verif.Doc MapSkel WalkerGen

/-! ### (3d) unknown segment inside the set -/

def faulty4 : List Char :=
  (isaText ++ "GS*HC*S*R*20200101*1200*1*X*004010X1~ST*837*0001~REF*AB*1*X~ZZZ*1~SE*4*0001~GE*1*1~IEA*1*000000001~").toList

example : SegText.readAll { rest := faulty4, sizes := [] } =
    .ok hdr (readOf isa gs ([stP, refP] ++ zzzP :: [se4P, geP, ieaP])) := by decide +kernel

/-- no segment node of the map carries the number `ZZZ` is interned to -/
theorem noZZZ : Walker.NoSegWithId m.root (segData ms m dlm zzzP.1).sid := by
  intro ip n h hs e
  have := Walker.nodeAt_noSeg (segData ms m dlm zzzP.1).sid ip m.root n (by decide +kernel) h
  cases n with
  | loop => simp [Node.isSeg] at hs
  | seg sid => simp only [Node.ident] at e; subst e; simp [Walker.noSeg] at this

/-- **every hypothesis of `doc_rejects_unknown_segment` is satisfied by `faulty4`** -/
theorem faulty4_rejected : ∃ rsF : Envelope.RState,
    EnvQuiet dlm (bodyRs m rs2) ([stP, refP].map (·.1) ++ [zzzP.1]) rsF ∧
    OneFaultRun (validateRead ms ctx hdr (readOf isa gs ([stP, refP] ++ zzzP :: [se4P, geP, ieaP]))) 2 3
      { sid := zzzP.1.id, matched := false, node := some (m.file, curAfter ms m dlm 0 1 [stP, refP]), popped := [],
        events := [.addSeg zzzP.1.id rsF.segCount none, .segError ['1'] none] }
      (werrSeg zzzP.1.id rsF.segCount ['1']) :=
  doc_rejects_unknown_segment ms ctx hdr dlm rfl control m isa gs 0 1 [0, 0] [0, 1, 0] isaDef gsDef vISA vGS rs1 rs2
    (rsEnd ([stP, refP] ++ zzzP :: [se4P, geP, ieaP])) exEnv [stP, refP] [se4P, geP, ieaP] zzzP
    (runOK_of_b _ _ _ _ _ _ (by decide +kernel)) noZZZ ⟨nREF, rfl⟩
    (envQuiet_of_b _ _ _ _ (by decide +kernel)) (by decide +kernel) (seOk_of_b _ _ (by decide +kernel))
    (by
      have h : [stP, refP].all (bodyOkB ctx m dlm) = true := by decide +kernel
      intro b hb; exact bodyOk_of_b ctx m dlm b (List.all_eq_true.1 h b hb))
    (by
      have h : [se4P, geP, ieaP].all (bodyOkB ctx m dlm) = true := by decide +kernel
      intro b hb; exact bodyOk_of_b ctx m dlm b (List.all_eq_true.1 h b hb))
    (by decide +kernel) ⟨by decide +kernel, by decide +kernel⟩ (by decide +kernel)

/-- the previous node is kept for the unknown segment -/
example : curAfter ms m dlm 0 1 [stP, refP] = [0, 1, 1, 1] := by decide +kernel

example : (validateDoc ms ctx faulty4).outcome = .verdict false ∧
    (validateDoc ms ctx faulty4).segs.map (fun o => o.matched) = [true, true, true, true, false, true, true, true] ∧
    ((validateDoc ms ctx faulty4).segs.map (fun o => o.events.filter isErrorEvent)) =
      [[], [], [], [], [.segError ['1'] none], [], [], []] ∧
    ErrTree.errorCount (validateDoc ms ctx faulty4).final.tree = 1 := by decide +kernel

/-! ### (3d') the same segment between GS and ST: accepted (finding D27) -/

def faulty5 : List Char :=
  (isaText ++ "GS*HC*S*R*20200101*1200*1*X*004010X1~ZZZ*1~ST*837*0001~REF*AB*1*X~SE*3*0001~GE*1*1~IEA*1*000000001~").toList

example : SegText.readAll { rest := faulty5, sizes := [] } =
    .ok hdr (readOf isa gs ([] ++ zzzP :: [stP, refP, seP, geP, ieaP])) := by decide +kernel

/-- **every hypothesis of `doc_unknown_segment_outside_set_accepted` is satisfied by `faulty5`** -/
theorem faulty5_accepted :
    (validateRead ms ctx hdr (readOf isa gs ([] ++ zzzP :: [stP, refP, seP, geP, ieaP]))).outcome = .verdict true ∧
    (validateRead ms ctx hdr (readOf isa gs ([] ++ zzzP :: [stP, refP, seP, geP, ieaP]))).final.lost = 1 :=
  have h := doc_unknown_segment_outside_set_accepted ms ctx hdr dlm rfl control m isa gs 0 1 [0, 0] [0, 1, 0] isaDef gsDef
    vISA vGS rs1 rs2 (rsEnd ([] ++ zzzP :: [stP, refP, seP, geP, ieaP])) exEnv [] [stP, refP, seP, geP, ieaP] zzzP
    (runOK_of_b _ _ _ _ _ _ (by decide +kernel)) noZZZ ⟨nGS, rfl⟩
    (envQuiet_of_b _ _ _ _ (by decide +kernel)) (by decide +kernel) (seOk_of_b _ _ (by decide +kernel))
    (by intro b hb; cases hb)
    (by
      have h : [stP, refP, seP, geP, ieaP].all (bodyOkB ctx m dlm) = true := by decide +kernel
      intro b hb; exact bodyOk_of_b ctx m dlm b (List.all_eq_true.1 h b hb))
    (by decide +kernel) ⟨by decide +kernel, by decide +kernel, by decide +kernel⟩ (by decide +kernel)
  ⟨h.1, h.2.1⟩

example : (validateDoc ms ctx faulty5).outcome = .verdict true ∧ (validateDoc ms ctx faulty5).final.lost = 1 ∧
    ((validateDoc ms ctx faulty5).segs.map (fun o => o.events.filter isErrorEvent)) =
      [[], [], [.segError ['1'] none], [], [], [], [], []] := by decide +kernel

end Pyx12Verif.Doc.Ex
