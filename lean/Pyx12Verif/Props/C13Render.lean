/-
C13 — the date and time languages stated by RENDERING, independent of string positions.

`Spec/Validation.lean` states `IsDate8`, `IsDate6`, `IsDate12`, `IsTime`, `IsRange` on the digit positions of
the string (`take`/`drop` + `num`).  Here the same languages are stated the other way round: a string is in the
language exactly when it IS the zero-padded decimal rendering of numbers that form a real calendar date /
time of day.  Together with `date8_iff`, `date6_iff`, `time_iff`, `rd8_iff`, `dateDT_iff` (Props/C13.lean) this
gives "accepted exactly when it is a real calendar date" in the most literal reading
(`date8_accepts_iff_real_date` …).  `leap_iff_gregorian` restates the leap-year rule by divisibility.
-/
import Pyx12Verif.Props.C13
import Pyx12Verif.Proofs.ValidationRender

namespace Pyx12Verif.Validation

/-! ### calendar -/

/-- the Gregorian rule: every fourth year, except centuries not divisible by 400 -/
theorem leap_iff_gregorian (y : Nat) : leap y ↔ (4 ∣ y ∧ (¬ 100 ∣ y ∨ 400 ∣ y)) := by
  unfold leap; omega

/-- month lengths as the usual table -/
theorem daysIn_table (y m : Nat) :
    daysIn y m =
      if m = 4 ∨ m = 6 ∨ m = 9 ∨ m = 11 then 30
      else if m = 2 then (if 4 ∣ y ∧ (¬ 100 ∣ y ∨ 400 ∣ y) then 29 else 28)
      else 31 := by
  unfold daysIn
  simp only [← leap_iff_gregorian]
  by_cases h2 : m = 2
  · subst h2; simp
  · simp [h2]

theorem daysIn_le (y m : Nat) : daysIn y m ≤ 31 := by
  unfold daysIn; split <;> split <;> omega

/-- a real calendar day from 1800-01-01 to 9999-12-31 -/
def RealDate (y m d : Nat) : Prop := 1800 ≤ y ∧ y ≤ 9999 ∧ 1 ≤ m ∧ m ≤ 12 ∧ 1 ≤ d ∧ d ≤ daysIn y m

/-- CCYYMMDD -/
def renderDate (y m d : Nat) : List Char := render4 y ++ render2 m ++ render2 d

/-! ### D8 -/

theorem isDate8_iff_render (s : List Char) :
    IsDate8 s ↔ ∃ y m d, 1800 ≤ y ∧ y ≤ 9999 ∧ 1 ≤ m ∧ m ≤ 12 ∧ 1 ≤ d ∧ d ≤ daysIn y m ∧
      s = render4 y ++ render2 m ++ render2 d := by
  constructor
  · rintro ⟨hl, hd, hy, hm1, hm12, hd1, hdn⟩
    obtain ⟨a, b, c, d, e, f, g, i, rfl⟩ := len8 s hl
    have ha := hd a (by simp)
    have hb := hd b (by simp)
    have hc := hd c (by simp)
    have hdd := hd d (by simp)
    have he := hd e (by simp)
    have hf := hd f (by simp)
    have hg := hd g (by simp)
    have hi := hd i (by simp)
    simp only [List.take, List.drop] at hy hm1 hm12 hd1 hdn
    refine ⟨num [a, b, c, d], num [e, f], num [g, i], hy, ?_, hm1, hm12, hd1, hdn, ?_⟩
    · have := num4_lt a b c d ha hb hc hdd; omega
    · rw [render4_num a b c d ha hb hc hdd, render2_num e f he hf, render2_num g i hg hi]; rfl
  · rintro ⟨y, m, d, hy, hy2, hm1, hm12, hd1, hdn, rfl⟩
    have hd31 := daysIn_le y m
    have t1 : (render4 y ++ render2 m ++ render2 d).take 4 = render4 y := by simp [render4]
    have t2 : ((render4 y ++ render2 m ++ render2 d).drop 4).take 2 = render2 m := by simp [render4, render2]
    have t3 : ((render4 y ++ render2 m ++ render2 d).drop 6).take 2 = render2 d := by simp [render4, render2]
    refine ⟨by simp [render4, render2], ?_, ?_⟩
    · rw [allDigits_append, allDigits_append]
      exact ⟨⟨allDigits_render4 y, allDigits_render2 m⟩, allDigits_render2 d⟩
    · rw [t1, t2, t3, num_render4 y (by omega), num_render2 m (by omega), num_render2 d (by omega)]
      exact ⟨hy, hm1, hm12, hd1, hdn⟩

theorem isDate8_iff_realDate (s : List Char) : IsDate8 s ↔ ∃ y m d, RealDate y m d ∧ s = renderDate y m d := by
  rw [isDate8_iff_render]
  unfold RealDate renderDate
  constructor
  · rintro ⟨y, m, d, h1, h2, h3, h4, h5, h6, h7⟩; exact ⟨y, m, d, ⟨h1, h2, h3, h4, h5, h6⟩, h7⟩
  · rintro ⟨y, m, d, ⟨h1, h2, h3, h4, h5, h6⟩, h7⟩; exact ⟨y, m, d, h1, h2, h3, h4, h5, h6, h7⟩

/-- the rendering determines the date: different real dates are written differently -/
theorem renderDate_inj (y m d y' m' d' : Nat) (h : RealDate y m d) (h' : RealDate y' m' d')
    (e : renderDate y m d = renderDate y' m' d') : y = y' ∧ m = m' ∧ d = d' := by
  obtain ⟨_, hy, _, hm, _, hd⟩ := h
  obtain ⟨_, hy', _, hm', _, hd'⟩ := h'
  have b := daysIn_le y m
  have b' := daysIn_le y' m'
  unfold renderDate at e
  have t1 : ∀ y m d, (render4 y ++ render2 m ++ render2 d).take 4 = render4 y := by intros; simp [render4]
  have t2 : ∀ y m d, ((render4 y ++ render2 m ++ render2 d).drop 4).take 2 = render2 m := by
    intros; simp [render4, render2]
  have t3 : ∀ y m d, ((render4 y ++ render2 m ++ render2 d).drop 6).take 2 = render2 d := by
    intros; simp [render4, render2]
  have e1 := congrArg (fun s => num (s.take 4)) e
  have e2 := congrArg (fun s => num ((s.drop 4).take 2)) e
  have e3 := congrArg (fun s => num ((s.drop 6).take 2)) e
  simp only [t1, t2, t3] at e1 e2 e3
  rw [num_render4 y (by omega), num_render4 y' (by omega)] at e1
  rw [num_render2 m (by omega), num_render2 m' (by omega)] at e2
  rw [num_render2 d (by omega), num_render2 d' (by omega)] at e3
  exact ⟨e1, e2, e3⟩

/-! ### D6: two-digit year with the century window 00–49 → 20xx, 50–99 → 19xx -/

theorem isDate6_iff_render (s : List Char) :
    IsDate6 s ↔ ∃ yy m d, yy ≤ 99 ∧ 1 ≤ m ∧ m ≤ 12 ∧ 1 ≤ d ∧ d ≤ daysIn (century yy) m ∧
      s = render2 yy ++ render2 m ++ render2 d := by
  constructor
  · rintro ⟨hl, hd, _, hm1, hm12, hd1, hdn⟩
    obtain ⟨a, b, c, d, e, f, rfl⟩ := len6 s hl
    have ha := hd a (by simp)
    have hb := hd b (by simp)
    have hc := hd c (by simp)
    have hdd := hd d (by simp)
    have he := hd e (by simp)
    have hf := hd f (by simp)
    simp only [List.take, List.drop] at hm1 hm12 hd1 hdn
    refine ⟨num [a, b], num [c, d], num [e, f], ?_, hm1, hm12, hd1, hdn, ?_⟩
    · have := num2_lt a b ha hb; omega
    · rw [render2_num a b ha hb, render2_num c d hc hdd, render2_num e f he hf]; rfl
  · rintro ⟨y, m, d, hy, hm1, hm12, hd1, hdn, rfl⟩
    have hd31 := daysIn_le (century y) m
    have t1 : (render2 y ++ render2 m ++ render2 d).take 2 = render2 y := by simp [render2]
    have t2 : ((render2 y ++ render2 m ++ render2 d).drop 2).take 2 = render2 m := by simp [render2]
    have t3 : ((render2 y ++ render2 m ++ render2 d).drop 4).take 2 = render2 d := by simp [render2]
    refine ⟨by simp [render2], ?_, ?_⟩
    · rw [allDigits_append, allDigits_append]
      exact ⟨⟨allDigits_render2 y, allDigits_render2 m⟩, allDigits_render2 d⟩
    · rw [t1, t2, t3, num_render2 y (by omega), num_render2 m (by omega), num_render2 d (by omega)]
      refine ⟨?_, hm1, hm12, hd1, hdn⟩
      unfold century; split <;> omega

/-! ### TM -/

theorem isTime_iff_render (s : List Char) :
    IsTime s ↔ ∃ hh mm, hh ≤ 23 ∧ mm ≤ 59 ∧
      (s = render2 hh ++ render2 mm ∨
       ∃ ss, ss ≤ 59 ∧
        (s = render2 hh ++ render2 mm ++ render2 ss ∨
         (∃ t, t ≤ 9 ∧ s = render2 hh ++ render2 mm ++ render2 ss ++ render1 t) ∨
         (∃ c, c ≤ 99 ∧ s = render2 hh ++ render2 mm ++ render2 ss ++ render2 c))) := by
  constructor
  · rintro ⟨hd, hl, hh, hm, hs⟩
    rcases hl with hl | hl | hl | hl
    · obtain ⟨a, b, c, d, rfl⟩ := len4 s hl
      have ha := hd a (by simp)
      have hb := hd b (by simp)
      have hc := hd c (by simp)
      have hdd := hd d (by simp)
      simp only [List.take, List.drop] at hh hm
      refine ⟨num [a, b], num [c, d], hh, hm, Or.inl ?_⟩
      rw [render2_num a b ha hb, render2_num c d hc hdd]; rfl
    · obtain ⟨a, b, c, d, e, f, rfl⟩ := len6 s hl
      have ha := hd a (by simp)
      have hb := hd b (by simp)
      have hc := hd c (by simp)
      have hdd := hd d (by simp)
      have he := hd e (by simp)
      have hf := hd f (by simp)
      have hs' := hs (by simp)
      simp only [List.take, List.drop] at hh hm hs'
      refine ⟨num [a, b], num [c, d], hh, hm, Or.inr ⟨num [e, f], hs', Or.inl ?_⟩⟩
      rw [render2_num a b ha hb, render2_num c d hc hdd, render2_num e f he hf]; rfl
    · obtain ⟨a, b, c, d, e, f, g, rfl⟩ := len7 s hl
      have ha := hd a (by simp)
      have hb := hd b (by simp)
      have hc := hd c (by simp)
      have hdd := hd d (by simp)
      have he := hd e (by simp)
      have hf := hd f (by simp)
      have hg := hd g (by simp)
      have hs' := hs (by simp)
      simp only [List.take, List.drop] at hh hm hs'
      refine ⟨num [a, b], num [c, d], hh, hm, Or.inr ⟨num [e, f], hs', Or.inr (Or.inl ⟨num [g], ?_, ?_⟩)⟩⟩
      · have := digitVal_lt g hg; rw [num1]; omega
      · rw [render2_num a b ha hb, render2_num c d hc hdd, render2_num e f he hf, render1_num g hg]; rfl
    · obtain ⟨a, b, c, d, e, f, g, i, rfl⟩ := len8 s hl
      have ha := hd a (by simp)
      have hb := hd b (by simp)
      have hc := hd c (by simp)
      have hdd := hd d (by simp)
      have he := hd e (by simp)
      have hf := hd f (by simp)
      have hg := hd g (by simp)
      have hi := hd i (by simp)
      have hs' := hs (by simp)
      simp only [List.take, List.drop] at hh hm hs'
      refine ⟨num [a, b], num [c, d], hh, hm, Or.inr ⟨num [e, f], hs', Or.inr (Or.inr ⟨num [g, i], ?_, ?_⟩)⟩⟩
      · have := num2_lt g i hg hi; omega
      · rw [render2_num a b ha hb, render2_num c d hc hdd, render2_num e f he hf, render2_num g i hg hi]; rfl
  · rintro ⟨hh, mm, hhh, hmm, h⟩
    rcases h with rfl | ⟨ss, hss, rfl | ⟨t, ht, rfl⟩ | ⟨c, hc, rfl⟩⟩
    · have t1 : (render2 hh ++ render2 mm).take 2 = render2 hh := by simp [render2]
      have t2 : ((render2 hh ++ render2 mm).drop 2).take 2 = render2 mm := by simp [render2]
      refine ⟨?_, by simp [render2], ?_, ?_, ?_⟩
      · rw [allDigits_append]; exact ⟨allDigits_render2 hh, allDigits_render2 mm⟩
      · rw [t1, num_render2 hh (by omega)]; exact hhh
      · rw [t2, num_render2 mm (by omega)]; exact hmm
      · intro h6; simp [render2] at h6
    · have t1 : (render2 hh ++ render2 mm ++ render2 ss).take 2 = render2 hh := by simp [render2]
      have t2 : ((render2 hh ++ render2 mm ++ render2 ss).drop 2).take 2 = render2 mm := by simp [render2]
      have t3 : ((render2 hh ++ render2 mm ++ render2 ss).drop 4).take 2 = render2 ss := by simp [render2]
      refine ⟨?_, by simp [render2], ?_, ?_, ?_⟩
      · rw [allDigits_append, allDigits_append]
        exact ⟨⟨allDigits_render2 hh, allDigits_render2 mm⟩, allDigits_render2 ss⟩
      · rw [t1, num_render2 hh (by omega)]; exact hhh
      · rw [t2, num_render2 mm (by omega)]; exact hmm
      · intro _; rw [t3, num_render2 ss (by omega)]; exact hss
    · have t1 : (render2 hh ++ render2 mm ++ render2 ss ++ render1 t).take 2 = render2 hh := by simp [render2]
      have t2 : ((render2 hh ++ render2 mm ++ render2 ss ++ render1 t).drop 2).take 2 = render2 mm := by
        simp [render2]
      have t3 : ((render2 hh ++ render2 mm ++ render2 ss ++ render1 t).drop 4).take 2 = render2 ss := by
        simp [render2]
      refine ⟨?_, by simp [render2, render1], ?_, ?_, ?_⟩
      · rw [allDigits_append, allDigits_append, allDigits_append]
        exact ⟨⟨⟨allDigits_render2 hh, allDigits_render2 mm⟩, allDigits_render2 ss⟩, allDigits_render1 t⟩
      · rw [t1, num_render2 hh (by omega)]; exact hhh
      · rw [t2, num_render2 mm (by omega)]; exact hmm
      · intro _; rw [t3, num_render2 ss (by omega)]; exact hss
    · have t1 : (render2 hh ++ render2 mm ++ render2 ss ++ render2 c).take 2 = render2 hh := by simp [render2]
      have t2 : ((render2 hh ++ render2 mm ++ render2 ss ++ render2 c).drop 2).take 2 = render2 mm := by
        simp [render2]
      have t3 : ((render2 hh ++ render2 mm ++ render2 ss ++ render2 c).drop 4).take 2 = render2 ss := by
        simp [render2]
      refine ⟨?_, by simp [render2], ?_, ?_, ?_⟩
      · rw [allDigits_append, allDigits_append, allDigits_append]
        exact ⟨⟨⟨allDigits_render2 hh, allDigits_render2 mm⟩, allDigits_render2 ss⟩, allDigits_render2 c⟩
      · rw [t1, num_render2 hh (by omega)]; exact hhh
      · rw [t2, num_render2 mm (by omega)]; exact hmm
      · intro _; rw [t3, num_render2 ss (by omega)]; exact hss

/-! ### DT with time: CCYYMMDDHHMM -/

theorem isDate12_iff_render (s : List Char) :
    IsDate12 s ↔ ∃ y m d hh mm, RealDate y m d ∧ hh ≤ 23 ∧ mm ≤ 59 ∧
      s = renderDate y m d ++ render2 hh ++ render2 mm := by
  unfold RealDate renderDate
  constructor
  · rintro ⟨hl, hd, ⟨hy, hm1, hm12, hd1, hdn⟩, hhh, hmm⟩
    obtain ⟨a, b, c, d, e, f, g, i, j, k, l, n, rfl⟩ := len12 s hl
    have ha := hd a (by simp)
    have hb := hd b (by simp)
    have hc := hd c (by simp)
    have hdd := hd d (by simp)
    have he := hd e (by simp)
    have hf := hd f (by simp)
    have hg := hd g (by simp)
    have hi := hd i (by simp)
    have hj := hd j (by simp)
    have hk := hd k (by simp)
    have hl' := hd l (by simp)
    have hn := hd n (by simp)
    simp only [List.take, List.drop] at hy hm1 hm12 hd1 hdn hhh hmm
    refine ⟨num [a, b, c, d], num [e, f], num [g, i], num [j, k], num [l, n],
      ⟨hy, ?_, hm1, hm12, hd1, hdn⟩, hhh, hmm, ?_⟩
    · have := num4_lt a b c d ha hb hc hdd; omega
    · rw [render4_num a b c d ha hb hc hdd, render2_num e f he hf, render2_num g i hg hi,
        render2_num j k hj hk, render2_num l n hl' hn]; rfl
  · rintro ⟨y, m, d, hh, mm, ⟨hy, hy2, hm1, hm12, hd1, hdn⟩, hhh, hmm, rfl⟩
    have hd31 := daysIn_le y m
    have t1 : (render4 y ++ render2 m ++ render2 d ++ render2 hh ++ render2 mm).take 4 = render4 y := by
      simp [render4]
    have t2 : ((render4 y ++ render2 m ++ render2 d ++ render2 hh ++ render2 mm).drop 4).take 2 = render2 m := by
      simp [render4, render2]
    have t3 : ((render4 y ++ render2 m ++ render2 d ++ render2 hh ++ render2 mm).drop 6).take 2 = render2 d := by
      simp [render4, render2]
    have t4 : ((render4 y ++ render2 m ++ render2 d ++ render2 hh ++ render2 mm).drop 8).take 2 = render2 hh := by
      simp [render4, render2]
    have t5 : ((render4 y ++ render2 m ++ render2 d ++ render2 hh ++ render2 mm).drop 10).take 2 = render2 mm := by
      simp [render4, render2]
    refine ⟨by simp [render4, render2], ?_, ?_, ?_, ?_⟩
    · rw [allDigits_append, allDigits_append, allDigits_append, allDigits_append]
      exact ⟨⟨⟨⟨allDigits_render4 y, allDigits_render2 m⟩, allDigits_render2 d⟩, allDigits_render2 hh⟩,
        allDigits_render2 mm⟩
    · rw [t1, t2, t3, num_render4 y (by omega), num_render2 m (by omega), num_render2 d (by omega)]
      exact ⟨hy, hm1, hm12, hd1, hdn⟩
    · rw [t4, num_render2 hh (by omega)]; exact hhh
    · rw [t5, num_render2 mm (by omega)]; exact hmm

/-! ### RD8 -/

theorem isRange_iff_render (s : List Char) :
    IsRange s ↔ ∃ y1 m1 d1 y2 m2 d2, RealDate y1 m1 d1 ∧ RealDate y2 m2 d2 ∧
      s = renderDate y1 m1 d1 ++ '-' :: renderDate y2 m2 d2 := by
  unfold IsRange
  constructor
  · rintro ⟨a, b, rfl, ha, hb⟩
    obtain ⟨y1, m1, d1, h1, rfl⟩ := (isDate8_iff_realDate a).mp ha
    obtain ⟨y2, m2, d2, h2, rfl⟩ := (isDate8_iff_realDate b).mp hb
    exact ⟨y1, m1, d1, y2, m2, d2, h1, h2, rfl⟩
  · rintro ⟨y1, m1, d1, y2, m2, d2, h1, h2, rfl⟩
    exact ⟨_, _, rfl, (isDate8_iff_realDate _).mpr ⟨y1, m1, d1, h1, rfl⟩,
      (isDate8_iff_realDate _).mpr ⟨y2, m2, d2, h2, rfl⟩⟩

/-! ### the recognisers against the render form -/

/-- `D8`: accepted exactly when the value is a real calendar date 1800–9999 written CCYYMMDD -/
theorem date8_accepts_iff_real_date (s : List Char) :
    isValidDate .D8 s = true ↔ ∃ y m d, 1800 ≤ y ∧ y ≤ 9999 ∧ 1 ≤ m ∧ m ≤ 12 ∧ 1 ≤ d ∧ d ≤ daysIn y m ∧
      s = render4 y ++ render2 m ++ render2 d :=
  (date8_iff s).trans (isDate8_iff_render s)

/-- `D6`: accepted exactly when the value is YYMMDD of a real calendar date in 1950–2049 -/
theorem date6_accepts_iff_real_date (s : List Char) :
    isValidDate .D6 s = true ↔ ∃ yy m d, yy ≤ 99 ∧ 1 ≤ m ∧ m ≤ 12 ∧ 1 ≤ d ∧ d ≤ daysIn (century yy) m ∧
      s = render2 yy ++ render2 m ++ render2 d :=
  (date6_iff s).trans (isDate6_iff_render s)

/-- `TM`: accepted exactly when the value is HHMM, HHMMSS, HHMMSSd or HHMMSSdd of a time of day -/
theorem time_accepts_iff_real_time (s : List Char) :
    isValidTime s = true ↔ ∃ hh mm, hh ≤ 23 ∧ mm ≤ 59 ∧
      (s = render2 hh ++ render2 mm ∨
       ∃ ss, ss ≤ 59 ∧
        (s = render2 hh ++ render2 mm ++ render2 ss ∨
         (∃ t, t ≤ 9 ∧ s = render2 hh ++ render2 mm ++ render2 ss ++ render1 t) ∨
         (∃ c, c ≤ 99 ∧ s = render2 hh ++ render2 mm ++ render2 ss ++ render2 c))) :=
  (time_iff s).trans (isTime_iff_render s)

/-- `RD8`: accepted exactly when the value is two real dates joined by one hyphen -/
theorem rd8_accepts_iff_real_dates (s : List Char) :
    isValidRD8 s = true ↔ ∃ y1 m1 d1 y2 m2 d2, RealDate y1 m1 d1 ∧ RealDate y2 m2 d2 ∧
      s = renderDate y1 m1 d1 ++ '-' :: renderDate y2 m2 d2 :=
  (rd8_iff s).trans (isRange_iff_render s)

/-- `DT`: YYMMDD, CCYYMMDD or CCYYMMDDHHMM -/
theorem dateDT_accepts_iff_real_date (s : List Char) :
    isValidDate .DT s = true ↔
      (∃ yy m d, yy ≤ 99 ∧ 1 ≤ m ∧ m ≤ 12 ∧ 1 ≤ d ∧ d ≤ daysIn (century yy) m ∧
        s = render2 yy ++ render2 m ++ render2 d) ∨
      (∃ y m d, RealDate y m d ∧ s = renderDate y m d) ∨
      (∃ y m d hh mm, RealDate y m d ∧ hh ≤ 23 ∧ mm ≤ 59 ∧ s = renderDate y m d ++ render2 hh ++ render2 mm) := by
  rw [dateDT_iff, isDate6_iff_render, isDate8_iff_realDate, isDate12_iff_render]

/-- the dispatcher, data type `D8` -/
theorem dispatch_D8_render (v : List Char) (e x : Bool) :
    isValidDataType v ['D', '8'] e x = true ↔ ∃ y m d, RealDate y m d ∧ v = renderDate y m d :=
  (dispatch_D8 v e x).trans (isDate8_iff_realDate v)

theorem dispatch_D6_render (v : List Char) (e x : Bool) :
    isValidDataType v ['D', '6'] e x = true ↔
      ∃ yy m d, yy ≤ 99 ∧ 1 ≤ m ∧ m ≤ 12 ∧ 1 ≤ d ∧ d ≤ daysIn (century yy) m ∧
        v = render2 yy ++ render2 m ++ render2 d :=
  (dispatch_D6 v e x).trans (isDate6_iff_render v)

theorem dispatch_TM_render (v : List Char) (e x : Bool) :
    isValidDataType v ['T', 'M'] e x = true ↔ ∃ hh mm, hh ≤ 23 ∧ mm ≤ 59 ∧
      (v = render2 hh ++ render2 mm ∨
       ∃ ss, ss ≤ 59 ∧
        (v = render2 hh ++ render2 mm ++ render2 ss ∨
         (∃ t, t ≤ 9 ∧ v = render2 hh ++ render2 mm ++ render2 ss ++ render1 t) ∨
         (∃ c, c ≤ 99 ∧ v = render2 hh ++ render2 mm ++ render2 ss ++ render2 c))) :=
  (dispatch_TM v e x).trans (isTime_iff_render v)

theorem dispatch_RD8_render (v : List Char) (e x : Bool) :
    isValidDataType v ['R', 'D', '8'] e x = true ↔ ∃ y1 m1 d1 y2 m2 d2, RealDate y1 m1 d1 ∧ RealDate y2 m2 d2 ∧
      v = renderDate y1 m1 d1 ++ '-' :: renderDate y2 m2 d2 :=
  (dispatch_RD8 v e x).trans (isRange_iff_render v)

/-! ### non-vacuity -/

example : renderDate 2024 2 29 = "20240229".toList ∧ render2 7 = "07".toList ∧ render4 1800 = "1800".toList := by
  decide

/-- a leap day is accepted through the render statement … -/
example : isValidDate .D8 "20240229".toList = true :=
  (date8_accepts_iff_real_date _).mpr ⟨2024, 2, 29, by decide, by decide, by decide, by decide, by decide,
    by decide, by decide⟩

/-- … and 1900-02-29 is the rendering of no real date -/
example : ¬ ∃ y m d, RealDate y m d ∧ "19000229".toList = renderDate y m d := by
  rw [← isDate8_iff_realDate, ← date8_iff]; decide

example : leap 2000 ∧ ¬ leap 1900 ∧ leap 2024 ∧ ¬ leap 2023 := by decide

example : isValidTime (render2 23 ++ render2 59 ++ render2 59 ++ render1 9) = true :=
  (time_accepts_iff_real_time _).mpr ⟨23, 59, by omega, by omega,
    Or.inr ⟨59, by omega, Or.inr (Or.inl ⟨9, by omega, rfl⟩)⟩⟩

/-- five digits are the rendering of no time of day -/
example : ¬ IsTime "23595".toList := by rw [← time_iff]; decide

example : isValidDate .D6 (render2 0 ++ render2 2 ++ render2 29) = true :=
  (date6_accepts_iff_real_date _).mpr ⟨0, 2, 29, by decide, by decide, by decide, by decide, by decide, rfl⟩

end Pyx12Verif.Validation
