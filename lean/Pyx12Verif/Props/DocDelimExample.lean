/-
Non-vacuity for Props/DocDelim2.lean and Props/DocDelim3.lean: the conformant document of Props/DocExample3.lean written with
three delimiter triples / line layouts; every hypothesis of `doc_delimiter_independent` and of
`doc_delimiter_independent_sub_partial` is discharged, and the common result is the interesting one (verdict true).
-/
import Pyx12Verif.Props.DocDelim3
import Pyx12Verif.Props.DocExample3

namespace Pyx12Verif.Doc.Ex
open Pyx12Verif Pyx12Verif.Doc SegText

instance (d : Delims) (s : Seg) : Decidable (ValuesClean d s) := by unfold ValuesClean; infer_instance

def headOkB (d : Delims) (s : Seg) : Bool :=
  match (s.id ++ [d.ele]).head? with
  | some c => c != '\n' && c != '\r' && c != ' '
  | none => true

theorem clean_of_b (d : Delims) (s : Seg) (h1 : decide (ValuesClean d s) = true) (h2 : headOkB d s = true) : Clean d s := by
  refine ⟨of_decide_eq_true h1, ?_⟩
  intro c hc
  unfold headOkB at h2
  rw [hc] at h2
  simp only [Bool.and_eq_true, bne_iff_ne, ne_eq] at h2
  exact ⟨h2.1.1, h2.1.2, h2.2⟩

def restSegs : List Seg := gs :: body.map (fun b => b.1)
def segsAll : List Seg := isa :: restSegs

/-- `~ * :` with CR LF after every terminator -/
def dA : Delims := ⟨'~', '*', ':'⟩
/-- line feed as terminator, `|` as element separator, the same component separator, no extra line break -/
def dB : Delims := ⟨'\n', '|', ':'⟩
/-- another component separator as well -/
def dC : Delims := ⟨'\n', '|', '>'⟩

def textA : List Char := (encode dA ['\r', '\n'] segsAll).getD []
def textB : List Char := (encode dB [] segsAll).getD []
def textC : List Char := (encode dC [] (withIsa16 isa '>' :: restSegs)).getD []

def hdrA : Tokenizer.Header := { seg := '~', ele := '*', sub := ':', rep := none, icvn := "00401".toList }
def hdrB : Tokenizer.Header := { seg := '\n', ele := '|', sub := ':', rep := none, icvn := "00401".toList }
def hdrC : Tokenizer.Header := { seg := '\n', ele := '|', sub := '>', rep := none, icvn := "00401".toList }

theorem cleanA : ∀ s ∈ segsAll, Clean dA s := by
  have h : segsAll.all (fun s => decide (ValuesClean dA s) && headOkB dA s) = true := by decide +kernel
  intro s hs
  have := List.all_eq_true.1 h s hs
  simp only [Bool.and_eq_true] at this
  exact clean_of_b dA s this.1 this.2

theorem cleanB : ∀ s ∈ segsAll, Clean dB s := by
  have h : segsAll.all (fun s => decide (ValuesClean dB s) && headOkB dB s) = true := by decide +kernel
  intro s hs
  have := List.all_eq_true.1 h s hs
  simp only [Bool.and_eq_true] at this
  exact clean_of_b dB s this.1 this.2

theorem cleanC : ∀ s ∈ withIsa16 isa '>' :: restSegs, Clean dC s := by
  have h : (withIsa16 isa '>' :: restSegs).all (fun s => decide (ValuesClean dC s) && headOkB dC s) = true := by
    decide +kernel
  intro s hs
  have := List.all_eq_true.1 h s hs
  simp only [Bool.and_eq_true] at this
  exact clean_of_b dC s this.1 this.2

theorem brkCRLF : C01.AllBrk ['\r', '\n'] := by
  intro c hc
  simp only [List.mem_cons, List.mem_nil_iff, or_false] at hc
  rcases hc with rfl | rfl
  · exact Or.inr rfl
  · exact Or.inl rfl

theorem brkNone : C01.AllBrk [] := by intro c hc; cases hc

/-- **`doc_delimiter_independent` applies**: `~ * :` with CRLF line breaks against `LF | :` without -/
theorem good_same_sub : validateDoc ms ctx textA = validateDoc ms ctx textB :=
  doc_delimiter_independent ms ctx dA dB ['\r', '\n'] [] segsAll textA textB hdrA hdrB
    ⟨⟨by decide, by decide, by decide⟩, ⟨by decide, by decide, by decide⟩, fun s hs => ⟨cleanA s hs, cleanB s hs⟩⟩
    brkCRLF brkNone (by decide +kernel) (by decide +kernel) (by decide +kernel) (by decide +kernel) rfl rfl rfl rfl

/-- the common result is an accepted document -/
example : (validateDoc ms ctx textB).outcome = .verdict true := by decide +kernel
example : textB.take 8 = "ISA|00| ".toList := by decide +kernel

/-- both separators are admitted by the ISA16 definition of the example control map (character set E) -/
theorem isa16_ok (c : Char) (hc : Validation.inClass (Validation.pickCharset ctx.extended false) c = true) :
    Isa16Admits ctx false isaDef c :=
  isa16_admits_of_charset ctx false isaDef (isaDef.children.take 15)
    { d := { usage := .R, dataType := ElemValid.tyAN, minLen := 1, maxLen := 1, codes := [], extDeclared := false,
             hasRegex := false, typeList := [], seq := 16, parentComposite := false, parentRequired := false },
      defined := true, name := "I15".toList, refdes := "ISA16".toList, dataEle := some ['1'], ext := [], regex := [] }
    rfl rfl (by decide) rfl (by decide) rfl rfl (by decide) rfl rfl rfl c hc

/-- **`doc_delimiter_independent_sub_partial` applies**: component separator `:` against `>` -/
theorem good_other_sub : validateDoc ms ctx textA = validateDoc ms ctx textC :=
  doc_delimiter_independent_sub_partial ms ctx dA dC ['\r', '\n'] [] isa restSegs textA textC hdrA hdrC
    ⟨by decide, by decide, by decide⟩ ⟨by decide, by decide, by decide⟩ brkCRLF brkNone cleanA cleanC
    (by decide +kernel) (by decide +kernel) (by decide +kernel) (by decide +kernel) rfl rfl rfl
    (by decide +kernel) (by decide +kernel) (by decide +kernel)
    (by
      have h : restSegs.all (fun s => s.elems.all (fun c => (normComp c).length == 1)) = true := by
        decide +kernel
      intro s hs _ c hc
      have := List.all_eq_true.1 (List.all_eq_true.1 h s hs) c hc
      simpa using this)
    (by
      intro control n sd hm hn hl
      have hc : control = mapX "x12.control.00401.xml" := by
        have : findMap ms (controlFile hdrA) = some (mapX "x12.control.00401.xml") := rfl
        rw [this] at hm
        exact (Option.some.inj hm).symm
      subst hc
      have hn' : fetchIn ms (mapX "x12.control.00401.xml") (isaPath ms) = some ⟨mapX "x12.control.00401.xml", [0, 0]⟩ :=
        rfl
      rw [hn'] at hn
      have := Option.some.inj hn
      subst this
      have hl' : lookupDef (mapX "x12.control.00401.xml") [0, 0] = some isaDef := rfl
      rw [hl'] at hl
      have := Option.some.inj hl
      subst this
      exact ⟨isa16_ok ':' (by decide), isa16_ok '>' (by decide)⟩)

example : textC.take 8 = "ISA|00| ".toList ∧ textC.drop 99 = "|0|P|>\nGS|HC|S|R|20200101|1200|1|X|004010X1\nST|837|0001\nREF|AB|1|X\nSE|3|0001\nGE|1|1\nIEA|1|000000001\n".toList := by
  decide +kernel

end Pyx12Verif.Doc.Ex
