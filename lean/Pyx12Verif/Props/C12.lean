/-
C12 (Lean part, corollary of C01) — the parsed segments do not depend on the delimiter triple or on the line-break
convention used to write a document.  Everything after the reader (matching, validation, acknowledgement) works on
the parsed segments; that the real pipeline is a function of them is the business of the C12 harness.
-/
import Pyx12Verif.Props.C01

namespace Pyx12Verif.C12
open Pyx12Verif Tokenizer SegText C01

/-- two delimiter triples are admissible for a document: each is pairwise distinct and none of its characters occurs
    in the data ("characters absent from the data"); no segment begins with a character the reader strips -/
def Admissible (d₁ d₂ : Delims) (segs : List Seg) : Prop :=
  d₁.Distinct ∧ d₂.Distinct ∧ ∀ s ∈ segs, Clean d₁ s ∧ Clean d₂ s

/-- Encoding the same segment list with two admissible delimiter triples and two line-break conventions (any run of
    CR/LF after each terminator: none, LF, CR, CRLF, ...) parses to the same segments — namely the segments themselves
    up to the documented trimming. -/
theorem reencode_invariant (d₁ d₂ : Delims) (b₁ b₂ : List Char) (segs : List Seg)
    (h : Admissible d₁ d₂ segs) (hb₁ : AllBrk b₁) (hb₂ : AllBrk b₂) :
    ∃ t₁ t₂, encode d₁ b₁ segs = some t₁ ∧ encode d₂ b₂ segs = some t₂ ∧
      segments d₁ t₁ = segments d₂ t₂ ∧ segments d₁ t₁ = segs.map normSeg := by
  obtain ⟨h1, h2, h3⟩ := h
  obtain ⟨t₁, e1, g1⟩ := segments_encode d₁ h1 b₁ hb₁ segs (fun s hs => (h3 s hs).1)
  obtain ⟨t₂, e2, g2⟩ := segments_encode d₂ h2 b₂ hb₂ segs (fun s hs => (h3 s hs).2)
  exact ⟨t₁, t₂, e1, e2, g1.trans g2.symm, g1⟩

/-- the same through the whole reader (stream with any read-size oracle, header parse included): when the written
    text starts with a header that declares the delimiters it was written with, the reader yields the written
    segments (trimmed), without raising -/
theorem read_encoded (d : Delims) (hd : d.Distinct) (b : List Char) (hb : AllBrk b) (segs : List Seg)
    (hc : ∀ s ∈ segs, Clean d s) (txt : List Char) (henc : encode d b segs = some txt)
    (sizes : List Nat) (hs : ∀ k ∈ sizes, 1 ≤ k) (hdr : Header)
    (hh : parseHeader (txt.take ISA_LEN) = .ok hdr) (hdel : delimsOf hdr = d) :
    ∃ r, readAll { rest := txt, sizes := sizes } = .ok hdr r ∧ r.crashed = false ∧
      r.segs.map (·.2) = segs.map normSeg := by
  obtain ⟨txt', e1, g1⟩ := segments_encode d hd b hb segs hc
  rw [henc] at e1
  have : txt' = txt := (Option.some.inj e1).symm
  subst this
  have hterm : hdr.seg = d.term := by rw [← hdel]; rfl
  refine ⟨readLines d [] (spec d.term txt'), ?_, reader_never_crashes d txt', g1⟩
  unfold readAll
  rw [raw_chunk_independent txt' sizes hs]
  unfold rawSpec
  rw [hh]
  simp only [hdel, hterm]

/-- In a real interchange the first segment (ISA) carries the delimiters themselves (ISA11, ISA16), so the two
    encodings differ there; everything after it is read identically. -/
theorem reencode_invariant_reader (d₁ d₂ : Delims) (b₁ b₂ : List Char) (isa₁ isa₂ : Seg) (rest : List Seg)
    (h1 : d₁.Distinct) (h2 : d₂.Distinct) (hb₁ : AllBrk b₁) (hb₂ : AllBrk b₂)
    (hc₁ : ∀ s ∈ isa₁ :: rest, Clean d₁ s) (hc₂ : ∀ s ∈ isa₂ :: rest, Clean d₂ s)
    (t₁ t₂ : List Char) (e₁ : encode d₁ b₁ (isa₁ :: rest) = some t₁) (e₂ : encode d₂ b₂ (isa₂ :: rest) = some t₂)
    (s₁ s₂ : List Nat) (hs₁ : ∀ k ∈ s₁, 1 ≤ k) (hs₂ : ∀ k ∈ s₂, 1 ≤ k) (hdr₁ hdr₂ : Header)
    (hh₁ : parseHeader (t₁.take ISA_LEN) = .ok hdr₁) (hh₂ : parseHeader (t₂.take ISA_LEN) = .ok hdr₂)
    (hd₁ : delimsOf hdr₁ = d₁) (hd₂ : delimsOf hdr₂ = d₂) :
    ∃ r₁ r₂, readAll { rest := t₁, sizes := s₁ } = .ok hdr₁ r₁ ∧ readAll { rest := t₂, sizes := s₂ } = .ok hdr₂ r₂ ∧
      (r₁.segs.map (·.2)).tail = (r₂.segs.map (·.2)).tail ∧ (r₁.segs.map (·.2)).tail = rest.map normSeg := by
  obtain ⟨r₁, a1, _, a3⟩ := read_encoded d₁ h1 b₁ hb₁ _ hc₁ t₁ e₁ s₁ hs₁ hdr₁ hh₁ hd₁
  obtain ⟨r₂, c1, _, c3⟩ := read_encoded d₂ h2 b₂ hb₂ _ hc₂ t₂ e₂ s₂ hs₂ hdr₂ hh₂ hd₂
  refine ⟨r₁, r₂, a1, c1, ?_, ?_⟩
  · rw [a3, c3]; rfl
  · rw [a3]; rfl

/-! non-vacuity: one document, two encodings -/

def dA : Delims := { term := '~', ele := '*', sub := ':' }
def dB : Delims := { term := '\n', ele := '|', sub := '>' }
def doc : List Seg := [⟨"ST".toList, [["837".toList], ["0001".toList]]⟩,
                       ⟨"SV1".toList, [["HC".toList, "99213".toList, []], [[]], ["40".toList], [[]]]⟩]

example : Admissible dA dB doc := by
  refine ⟨⟨by decide, by decide, by decide⟩, ⟨by decide, by decide, by decide⟩, ?_⟩
  intro s hs
  simp only [doc, List.mem_cons, List.not_mem_nil, or_false] at hs
  rcases hs with rfl | rfl <;>
    refine ⟨⟨by unfold ValuesClean; decide, ?_⟩, ⟨by unfold ValuesClean; decide, ?_⟩⟩ <;> (intro c hc; simp at hc; subst hc; decide)

example : encode dA ['\r', '\n'] doc = some "ST*837*0001~\r\nSV1*HC:99213**40~\r\n".toList := by decide
example : encode dB [] doc = some "ST|837|0001\nSV1|HC>99213||40\n".toList := by decide
example : segments dA "ST*837*0001~\r\nSV1*HC:99213**40~\r\n".toList = segments dB "ST|837|0001\nSV1|HC>99213||40\n".toList := by
  decide

end Pyx12Verif.C12
