/-
C09 ⟵ C02 link — the context reader's assumption holds for the walker model's own answers.

`Props/C09.lean` proves the partition property for every answer list satisfying `Ctx.Consistent`; the harness checks
`Consistent` on real traces.  Here the answer list is *computed* from the Walker model (`answersOf`: path of each
matched node as loop ids, first-segment flag, positions, pops and pushes converted from index paths to loop records,
ISA and GS pinned as `X12ContextReader.iter_segments` does) and `Consistent` is *proved*:

  * `answers_consistent_of_run`  for every run of the walker in which each segment is found (no generator involved)
  * `answers_consistent`         for every generated document (hypotheses of `walk_accepts_generated`)
  * `partition_generated`, `instances_generated`, `no_crash_generated`   C09's theorems instantiated

Map hypotheses beyond C02's: `CtxMapOK` (no segment directly under the map root; in a loop that starts with a segment
every child loop lies strictly after that segment — true of every shipped map), interchange and group loop ids differ.
Requested loop id: `LidOK?` — `none`, or an id that names segment-anchored loops only and at most one loop on a path.
-/
import Pyx12Verif.Proofs.CtxWalkStep
import Pyx12Verif.Props.C02Walk
import Pyx12Verif.Props.C02Multi
import Pyx12Verif.Props.C09

namespace Pyx12Verif.CtxWalk
open Pyx12Verif.MapSkel Pyx12Verif.Walker Pyx12Verif.WalkerGen

/-- ISA is not walked: `self.x12_map_node = control_map.getnodebypath('/ISA_LOOP/ISA')`, no pops, no pushes -/
def isaAnswer (root : List Node) (si : Ctx.SegInfo) (isaLoop : List Nat) : Ctx.Answer :=
  answerOf root si (isaLoop ++ [0]) [] []

/-- GS is not walked either: the node becomes the map's `/ISA_LOOP/GS_LOOP/GS`;
    `if orig_node.parent.id == 'GS_LOOP': pop_loops = [orig_node.parent]`; `push_loops = [GS_LOOP]` -/
def gsAnswer (root : List Node) (si : Ctx.SegInfo) (orig gsLoop : List Nat) : Ctx.Answer :=
  answerOf root si (gsLoop ++ [0])
    (if idAt root orig.dropLast == idAt root gsLoop then [orig.dropLast] else []) [gsLoop]

/-- the answers the context reader derives for an interchange `ISA GS seg₂ seg₃ …`: ISA (`root[a]`'s first child) and GS
    (first child of its child `g`) pinned, every later segment walked from counter `cnt` / node `[a, g, 0]`.
    `si k` = (formatted segment, seg_count, line) of the `k`-th source segment. -/
def answersOf (K : Consts) (root : List Node) (rootId : Nat) (si : Nat → Ctx.SegInfo) (a g : Nat) (cnt : Counter)
    (emits : List Emit) : List Ctx.Answer :=
  isaAnswer root (si 0) [a] :: gsAnswer root (si 1) [a, 0] [a, g] ::
    walkAnswers K root rootId si 2 cnt [a, g, 0] emits

/-- the reader's step for ISA at the start of the file -/
theorem isa_step {root : List Node} {a isaId isaPos isaU isaRep : Nat} {isaW : Bool} {isaSeg : Node} {isaRest : List Node}
    (hroot : root[a]? = some (.loop isaId isaPos isaU isaRep isaW (isaSeg :: isaRest)))
    (lid : Option Nat) (si : Ctx.SegInfo) :
    Ctx.stepOk lid { open_ := [], last := 0 } (isaAnswer root si [a]) =
      some { open_ := stackAt root [a], last := posAt root [a, 0] } := by
  have hp : lpathAt root [a] = [isaId] := by simp [lpathAt, recsAt, hroot, Node.ident]
  have hs : stackAt root [a] = [(isaId, isaPos)] := by simp [stackAt, recsAt, hroot, Node.ident, Node.pos]
  have hpp : posAt root [a] = isaPos := by simp [posAt, nodeAt, hroot, Node.pos]
  have hcount : ∀ l : Nat, List.count l [isaId] ≤ 1 := fun l => by
    have := List.count_le_length (a := l) (l := [isaId]); simpa using this
  rw [hs]
  cases lid with
  | none =>
    simp [isaAnswer, answerOf, Ctx.stepOk, Ctx.effPops, Ctx.effPushes, Ctx.implicitOpen, cvPops, cvPushes, Ctx.pathOf,
      Ctx.popRun, Ctx.pushRun, Ctx.firstPushPos, Ctx.anchoredOk, hp, hpp]
  | some l =>
    have := hcount l
    simp [isaAnswer, answerOf, Ctx.stepOk, Ctx.effPops, Ctx.effPushes, Ctx.implicitOpen, cvPops, cvPushes, Ctx.pathOf,
      Ctx.popRun, Ctx.pushRun, Ctx.firstPushPos, Ctx.anchoredOk, hp, hpp, this]

/-- **C09 ⟵ C02, general form.**  After ISA and GS (pinned), any run of the walker model in which every segment is
    found gives the context reader a consistent answer list — whatever produced the segments. -/
theorem answers_consistent_of_run (K : Consts) (root : List Node) (rootId : Nat)
    (hwf : WFMap root = true) (hun : Unambiguous K root = true) (hok : CtxMapOK root = true)
    {a isaId isaPos isaU isaRep : Nat} {isaW : Bool} {isaSeg : Node} {isaRest : List Node}
    (hroot : root[a]? = some (.loop isaId isaPos isaU isaRep isaW (isaSeg :: isaRest)))
    {g gsId gsPos gsU gsRep : Nat} {gsW : Bool} {gsSeg : Node} {gsRest : List Node}
    (hgs : (isaSeg :: isaRest)[g]? = some (.loop gsId gsPos gsU gsRep gsW (gsSeg :: gsRest))) (hgseg : gsSeg.isSeg = true)
    (hne : isaId ≠ gsId) (lid : Option Nat) (hlid : LidOK? root lid) (si : Nat → Ctx.SegInfo)
    (cnt : Counter) (emits : List Emit) (hrun : RunOK K root rootId cnt [a, g, 0] emits) :
    Ctx.Consistent lid (answersOf K root rootId si a g cnt emits) := by
  have hs := static_of hwf hun hok
  have hch0 : chAt root [] = some root := rfl
  have hchI : chAt root [a] = some (isaSeg :: isaRest) := by
    have := chAt_snoc hch0 a; simp only [List.nil_append] at this; rw [this, hroot]
  have hchG : chAt root [a, g] = some (gsSeg :: gsRest) := by
    have := chAt_snoc hchI g; simp only [List.cons_append, List.nil_append] at this; rw [this, hgs]
  have hisa0 : (isaSeg :: isaRest)[0]? = some isaSeg := by simp
  have hgs0 : (gsSeg :: gsRest)[0]? = some gsSeg := by simp
  -- the GS step as an ordinary walker-shaped step: nothing popped, the group loop pushed
  have hidI : idAt root [a] = isaId := by simp [idAt, nodeAt, hroot, Node.ident]
  have hidG : idAt root [a, g] = gsId := by
    have : nodeAt root ([a] ++ [g]) = some (.loop gsId gsPos gsU gsRep gsW (gsSeg :: gsRest)) := by
      rw [nodeAt_snoc hchI]; exact hgs
    simp only [List.cons_append, List.nil_append] at this
    simp [idAt, this, Node.ident]
  have hgsA : gsAnswer root (si 1) [a, 0] [a, g] = answerOf root (si 1) [a, g, 0] [] [[a, g]] := by
    have : (idAt root [a] == idAt root [a, g]) = false := by rw [hidI, hidG]; simpa using hne
    simp [gsAnswer, this]
  have hfacts : StepFacts root [a] (posAt root [a, 0]) [a, g, 0] [] [[a, g]] := by
    refine ⟨[a], [a, g], posAt root [a, 0], 0, gsSeg :: gsRest, gsSeg, by simp [cvPops, Ctx.popRun], ?_, by simp,
      ⟨by simp, _, hchG⟩, hchG, hgs0, hgseg, by simp, by simp, by simp, ?_, by simp⟩
    · have := pushRun_one hchI hgs []
      simp only [List.cons_append, List.nil_append] at this
      simp only [cvPushes, List.map_cons, List.map_nil, this, Ctx.pushRun]
    · intro p0 rest e
      simp only [List.cons.injEq] at e
      rw [← e.1]
      have h1 := posAt_snoc hchI hisa0
      have h2 := posAt_snoc hchI hgs
      simp only [List.cons_append, List.nil_append] at h1 h2
      rw [h1, h2]
      exact posSorted_le (wfAt_chAt hs.wf hchI).pos hisa0 hgs (Nat.zero_le _)
  have hstepG := step_consistent hs.wf hlid ⟨_, hchI⟩ hfacts (si 1)
  have hsegG : SegAt root [a, g, 0] := ⟨[a, g], 0, _, gsSeg, by simp, hchG, hgs0, hgseg⟩
  have hrunC := run_consistent hs hlid si emits 2 cnt [a, g, 0] hsegG hrun
  simp only [Ctx.Consistent, answersOf, Ctx.consistentFrom, isa_step hroot lid (si 0), hgsA]
  rw [hstepG]
  exact hrunC

/-- **C09 ⟵ C02** (`answers_consistent`): for every generated document — hypotheses of `walk_accepts_generated` —
    the answer list the context reader derives from the Walker model satisfies `Ctx.Consistent`, for `lid = none` and
    for every loop id that names segment-anchored loops only and at most one loop on any path. -/
theorem answers_consistent (K : Consts) (root : List Node) (rootId : Nat)
    (hwf : WFMap root = true) (hun : Unambiguous K root = true) (hok : CtxMapOK root = true)
    {a isaId isaPos isaU isaRep : Nat} {isaW : Bool} {isaSeg : Node} {isaRest : List Node}
    (hroot : root[a]? = some (.loop isaId isaPos isaU isaRep isaW (isaSeg :: isaRest))) (hisa : isaSeg.isSeg = true)
    {g gsId gsPos gsU gsRep : Nat} {gsW : Bool} {gsSeg : Node} {gsRest : List Node}
    (hgs : (isaSeg :: isaRest)[g]? = some (.loop gsId gsPos gsU gsRep gsW (gsSeg :: gsRest))) (hgseg : gsSeg.isSeg = true)
    (hne : isaId ≠ gsId)
    (hopt0 : ∀ (j : Nat) (c : Node), j < a → root[j]? = some c → optional c = true)
    (hopt1 : ∀ (j : Nat) (c : Node), 0 < j → j < g → (isaSeg :: isaRest)[j]? = some c → optional c = true)
    {out1 out2 out3 : List Emit}
    (h1 : GenList K [a, g] 1 gsRest out1)
    (h2 : GenList K [a] (g + 1) ((isaSeg :: isaRest).drop (g + 1)) out2)
    (h3 : GenList K [] (a + 1) (root.drop (a + 1)) out3)
    (lid : Option Nat) (hlid : LidOK? root lid) (si : Nat → Ctx.SegInfo) :
    Ctx.Consistent lid (answersOf K root rootId si a g
      (forceLoopStart (forceLoopStart [] [(isaId, 0)] [(isaId, 0), isaSeg.comp])
        [(isaId, 0), (gsId, 0)] [(isaId, 0), (gsId, 0), gsSeg.comp])
      (out1 ++ out2 ++ out3)) :=
  answers_consistent_of_run K root rootId hwf hun hok hroot hgs hgseg hne lid hlid si _ _
    (walk_accepts_generated K root rootId hwf hun hroot hisa hgs hgseg hopt0 hopt1 h1 h2 h3)

/-- the segments carried by the answers are the source segments `si 0, si 1, …` in order -/
theorem answersOf_segs (K : Consts) (root : List Node) (rootId : Nat) (si : Nat → Ctx.SegInfo) (a g : Nat) (cnt : Counter)
    (emits : List Emit) :
    (answersOf K root rootId si a g cnt emits).map (fun x => x.seg) = (List.range (emits.length + 2)).map si := by
  simp only [answersOf, List.map_cons, walkAnswers_segs, isaAnswer, gsAnswer, answerOf]
  rw [List.range_eq_range', List.range'_succ, List.range'_succ]
  simp

/-- **C09 for generated documents** (`partition_generated`): the context-reader model, fed with the answers of the
    Walker model, yields exactly the source segments `ISA, GS, out1 ++ out2 ++ out3` in source order — nothing lost,
    duplicated or reordered, for every admissible requested loop id. -/
theorem partition_generated (K : Consts) (root : List Node) (rootId : Nat)
    (hwf : WFMap root = true) (hun : Unambiguous K root = true) (hok : CtxMapOK root = true)
    {a isaId isaPos isaU isaRep : Nat} {isaW : Bool} {isaSeg : Node} {isaRest : List Node}
    (hroot : root[a]? = some (.loop isaId isaPos isaU isaRep isaW (isaSeg :: isaRest))) (hisa : isaSeg.isSeg = true)
    {g gsId gsPos gsU gsRep : Nat} {gsW : Bool} {gsSeg : Node} {gsRest : List Node}
    (hgs : (isaSeg :: isaRest)[g]? = some (.loop gsId gsPos gsU gsRep gsW (gsSeg :: gsRest))) (hgseg : gsSeg.isSeg = true)
    (hne : isaId ≠ gsId)
    (hopt0 : ∀ (j : Nat) (c : Node), j < a → root[j]? = some c → optional c = true)
    (hopt1 : ∀ (j : Nat) (c : Node), 0 < j → j < g → (isaSeg :: isaRest)[j]? = some c → optional c = true)
    {out1 out2 out3 : List Emit}
    (h1 : GenList K [a, g] 1 gsRest out1)
    (h2 : GenList K [a] (g + 1) ((isaSeg :: isaRest).drop (g + 1)) out2)
    (h3 : GenList K [] (a + 1) (root.drop (a + 1)) out3)
    (lid : Option Nat) (hlid : LidOK? root lid) (si : Nat → Ctx.SegInfo) :
    ((Ctx.ctxRun lid (answersOf K root rootId si a g
        (forceLoopStart (forceLoopStart [] [(isaId, 0)] [(isaId, 0), isaSeg.comp])
          [(isaId, 0), (gsId, 0)] [(isaId, 0), (gsId, 0), gsSeg.comp])
        (out1 ++ out2 ++ out3))).map Ctx.segsOf).flatten =
      (List.range ((out1 ++ out2 ++ out3).length + 2)).map si := by
  rw [Ctx.partition (answers_consistent K root rootId hwf hun hok hroot hisa hgs hgseg hne hopt0 hopt1 h1 h2 h3 lid hlid si)]
  exact answersOf_segs K root rootId si a g _ _

/-- the yields are plain segments outside the requested loop and one tree per maximal instance (`Ctx.Parts`) -/
theorem instances_generated (K : Consts) (root : List Node) (rootId : Nat)
    (hwf : WFMap root = true) (hun : Unambiguous K root = true) (hok : CtxMapOK root = true)
    {a isaId isaPos isaU isaRep : Nat} {isaW : Bool} {isaSeg : Node} {isaRest : List Node}
    (hroot : root[a]? = some (.loop isaId isaPos isaU isaRep isaW (isaSeg :: isaRest))) (hisa : isaSeg.isSeg = true)
    {g gsId gsPos gsU gsRep : Nat} {gsW : Bool} {gsSeg : Node} {gsRest : List Node}
    (hgs : (isaSeg :: isaRest)[g]? = some (.loop gsId gsPos gsU gsRep gsW (gsSeg :: gsRest))) (hgseg : gsSeg.isSeg = true)
    (hne : isaId ≠ gsId)
    (hopt0 : ∀ (j : Nat) (c : Node), j < a → root[j]? = some c → optional c = true)
    (hopt1 : ∀ (j : Nat) (c : Node), 0 < j → j < g → (isaSeg :: isaRest)[j]? = some c → optional c = true)
    {out1 out2 out3 : List Emit}
    (h1 : GenList K [a, g] 1 gsRest out1)
    (h2 : GenList K [a] (g + 1) ((isaSeg :: isaRest).drop (g + 1)) out2)
    (h3 : GenList K [] (a + 1) (root.drop (a + 1)) out3)
    (lid : Option Nat) (hlid : LidOK? root lid) (si : Nat → Ctx.SegInfo) :
    Ctx.Parts lid
      (answersOf K root rootId si a g
        (forceLoopStart (forceLoopStart [] [(isaId, 0)] [(isaId, 0), isaSeg.comp])
          [(isaId, 0), (gsId, 0)] [(isaId, 0), (gsId, 0), gsSeg.comp])
        (out1 ++ out2 ++ out3))
      (Ctx.ctxRun lid (answersOf K root rootId si a g
        (forceLoopStart (forceLoopStart [] [(isaId, 0)] [(isaId, 0), isaSeg.comp])
          [(isaId, 0), (gsId, 0)] [(isaId, 0), (gsId, 0), gsSeg.comp])
        (out1 ++ out2 ++ out3))) :=
  Ctx.instances (answers_consistent K root rootId hwf hun hok hroot hisa hgs hgseg hne hopt0 hopt1 h1 h2 h3 lid hlid si)

/-- no exception path of `iter_segments` is taken on a generated document -/
theorem no_crash_generated (K : Consts) (root : List Node) (rootId : Nat)
    (hwf : WFMap root = true) (hun : Unambiguous K root = true) (hok : CtxMapOK root = true)
    {a isaId isaPos isaU isaRep : Nat} {isaW : Bool} {isaSeg : Node} {isaRest : List Node}
    (hroot : root[a]? = some (.loop isaId isaPos isaU isaRep isaW (isaSeg :: isaRest))) (hisa : isaSeg.isSeg = true)
    {g gsId gsPos gsU gsRep : Nat} {gsW : Bool} {gsSeg : Node} {gsRest : List Node}
    (hgs : (isaSeg :: isaRest)[g]? = some (.loop gsId gsPos gsU gsRep gsW (gsSeg :: gsRest))) (hgseg : gsSeg.isSeg = true)
    (hne : isaId ≠ gsId)
    (hopt0 : ∀ (j : Nat) (c : Node), j < a → root[j]? = some c → optional c = true)
    (hopt1 : ∀ (j : Nat) (c : Node), 0 < j → j < g → (isaSeg :: isaRest)[j]? = some c → optional c = true)
    {out1 out2 out3 : List Emit}
    (h1 : GenList K [a, g] 1 gsRest out1)
    (h2 : GenList K [a] (g + 1) ((isaSeg :: isaRest).drop (g + 1)) out2)
    (h3 : GenList K [] (a + 1) (root.drop (a + 1)) out3)
    (lid : Option Nat) (hlid : LidOK? root lid) (si : Nat → Ctx.SegInfo) :
    (Ctx.ctxRunFull lid (answersOf K root rootId si a g
        (forceLoopStart (forceLoopStart [] [(isaId, 0)] [(isaId, 0), isaSeg.comp])
          [(isaId, 0), (gsId, 0)] [(isaId, 0), (gsId, 0), gsSeg.comp])
        (out1 ++ out2 ++ out3))).crash = none :=
  Ctx.no_crash (answers_consistent K root rootId hwf hun hok hroot hisa hgs hgseg hne hopt0 hopt1 h1 h2 h3 lid hlid si)

/-! ### several groups per interchange (the runs of `walk_accepts_multi`) -/

/-- the answers for the groups of one interchange: every GS pinned (`_reset_counter_to_gs_counts` = `forceLoopStart` on
    the running counter, node := the GS node; the loop it closes is reported when the previous node sits directly in a
    group loop), the other segments walked; `orig` = the node before the GS, `k` = index of the GS in the file -/
def groupAnswers (K : Consts) (root : List Node) (rootId : Nat) (si : Nat → Ctx.SegInfo) (gp : List Nat) (lk sk : PathKey) :
    Nat → Counter → List Nat → List Emit → List (List Emit) → List Emit → List Ctx.Answer
  | k, cnt, orig, o, [], tail =>
    gsAnswer root (si k) orig gp ::
      walkAnswers K root rootId si (k + 1) (forceLoopStart cnt lk sk) (gp ++ [0]) (o ++ tail)
  | k, cnt, orig, o, o' :: r, tail =>
    gsAnswer root (si k) orig gp ::
      (walkAnswers K root rootId si (k + 1) (forceLoopStart cnt lk sk) (gp ++ [0]) o ++
        groupAnswers K root rootId si gp lk sk (k + 1 + o.length)
          (runCnt K root rootId (forceLoopStart cnt lk sk) (gp ++ [0]) o) (runCur (gp ++ [0]) o) o' r tail)

/-- ISA, then the groups -/
def answersMulti (K : Consts) (root : List Node) (rootId : Nat) (si : Nat → Ctx.SegInfo) (a g : Nat) (lk sk : PathKey)
    (cnt : Counter) (o : List Emit) (os : List (List Emit)) (tail : List Emit) : List Ctx.Answer :=
  isaAnswer root (si 0) [a] :: groupAnswers K root rootId si [a, g] lk sk 1 cnt [a, 0] o os tail

section
variable {K : Consts} {root : List Node} {rootId : Nat} (hs : Static K root)
  {a isaId isaPos isaU isaRep : Nat} {isaW : Bool} {isaSeg : Node} {isaRest : List Node}
  (hroot : root[a]? = some (.loop isaId isaPos isaU isaRep isaW (isaSeg :: isaRest)))
  {g gsId gsPos gsU gsRep : Nat} {gsW : Bool} {gsSeg : Node} {gsRest : List Node}
  (hgs : (isaSeg :: isaRest)[g]? = some (.loop gsId gsPos gsU gsRep gsW (gsSeg :: gsRest))) (hgseg : gsSeg.isSeg = true)
  (hne : isaId ≠ gsId) {lid : Option Nat} (hlid : LidOK? root lid)
include hs hroot hgs hgseg hne hlid

/-- the reader's step for a pinned GS: after ISA (nothing to close) or after a segment that sits directly in the
    previous group loop (that loop is closed, a new instance opened) -/
theorem gs_step {orig : List Nat} (horig : orig = [a, 0] ∨ (orig.dropLast = [a, g] ∧ SegAt root orig)) (si : Ctx.SegInfo) :
    Ctx.stepOk lid { open_ := stackAt root orig.dropLast, last := posAt root orig } (gsAnswer root si orig [a, g]) =
      some { open_ := stackAt root [a, g], last := posAt root [a, g, 0] } := by
  have hch0 : chAt root [] = some root := rfl
  have hchI : chAt root [a] = some (isaSeg :: isaRest) := by
    have := chAt_snoc hch0 a; simp only [List.nil_append] at this; rw [this, hroot]
  have hchG : chAt root [a, g] = some (gsSeg :: gsRest) := by
    have := chAt_snoc hchI g; simp only [List.cons_append, List.nil_append] at this; rw [this, hgs]
  have hisa0 : (isaSeg :: isaRest)[0]? = some isaSeg := by simp
  have hgs0 : (gsSeg :: gsRest)[0]? = some gsSeg := by simp
  have hidI : idAt root [a] = isaId := by simp [idAt, nodeAt, hroot, Node.ident]
  have hpush : Ctx.pushRun (stackAt root [a]) (cvPushes root [[a, g]]) = some (stackAt root [a, g]) := by
    have := pushRun_one hchI hgs []
    simp only [List.cons_append, List.nil_append] at this
    simp only [cvPushes, List.map_cons, List.map_nil, this, Ctx.pushRun]
  have hposG : posAt root [a, g] = gsPos := by
    have h2 := posAt_snoc hchI hgs
    simpa [Node.pos] using h2
  rcases horig with rfl | ⟨hdl, hseg⟩
  · have hgsA : gsAnswer root si [a, 0] [a, g] = answerOf root si [a, g, 0] [] [[a, g]] := by
      have hidG : idAt root [a, g] = gsId := by
        have : nodeAt root ([a] ++ [g]) = some (.loop gsId gsPos gsU gsRep gsW (gsSeg :: gsRest)) := by
          rw [nodeAt_snoc hchI]; exact hgs
        simp only [List.cons_append, List.nil_append] at this
        simp [idAt, this, Node.ident]
      have : (idAt root [a] == idAt root [a, g]) = false := by rw [hidI, hidG]; simpa using hne
      simp [gsAnswer, this]
    have hfacts : StepFacts root [a] (posAt root [a, 0]) [a, g, 0] [] [[a, g]] := by
      refine ⟨[a], [a, g], posAt root [a, 0], 0, gsSeg :: gsRest, gsSeg, by simp [cvPops, Ctx.popRun], hpush, by simp,
        ⟨by simp, _, hchG⟩, hchG, hgs0, hgseg, by simp, by simp, by simp, ?_, by simp⟩
      intro p0 rest e
      simp only [List.cons.injEq] at e
      rw [← e.1]
      have h1 := posAt_snoc hchI hisa0
      simp only [List.cons_append, List.nil_append] at h1
      rw [h1, hposG]
      have := posSorted_le (wfAt_chAt hs.wf hchI).pos hisa0 hgs (Nat.zero_le _)
      simpa [Node.pos] using this
    rw [hgsA]
    exact step_consistent hs.wf hlid ⟨_, hchI⟩ hfacts si
  · have hgsA : gsAnswer root si orig [a, g] = answerOf root si [a, g, 0] [[a, g]] [[a, g]] := by
      simp [gsAnswer, hdl]
    have hfacts : StepFacts root [a, g] (posAt root orig) [a, g, 0] [[a, g]] [[a, g]] := by
      refine ⟨[a], [a, g], gsPos, 0, gsSeg :: gsRest, gsSeg, ?_, hpush, by simp,
        ⟨by simp, _, hchG⟩, hchG, hgs0, hgseg, by simp, by simp, by simp, ?_, by simp⟩
      · have := popRun_one hchI hgs (posAt root orig) []
        simp only [List.cons_append, List.nil_append] at this
        simp only [cvPops, List.map_cons, List.map_nil, this, Ctx.popRun, Node.pos]
      · intro p0 rest e
        simp only [List.cons.injEq] at e
        rw [← e.1, hposG]; exact Nat.le_refl _
    rw [hgsA, hdl]
    exact step_consistent hs.wf hlid ⟨_, hchG⟩ hfacts si

/-- all groups -/
theorem groups_consistent (si : Nat → Ctx.SegInfo) (tail : List Emit) :
    ∀ (os : List (List Emit)) (o : List Emit) (k : Nat) (cnt : Counter) (orig : List Nat),
      (orig = [a, 0] ∨ (orig.dropLast = [a, g] ∧ SegAt root orig)) →
      RunGroups K root rootId [(isaId, 0), (gsId, 0)] [(isaId, 0), (gsId, 0), gsSeg.comp] [a, g, 0] cnt o os tail →
      (∀ o' ∈ o :: os, (runCur [a, g, 0] o').dropLast = [a, g]) →
      Ctx.consistentFrom lid { open_ := stackAt root orig.dropLast, last := posAt root orig }
        (groupAnswers K root rootId si [a, g] [(isaId, 0), (gsId, 0)] [(isaId, 0), (gsId, 0), gsSeg.comp] k cnt orig o os
          tail) = true := by
  have hch0 : chAt root [] = some root := rfl
  have hchI : chAt root [a] = some (isaSeg :: isaRest) := by
    have := chAt_snoc hch0 a; simp only [List.nil_append] at this; rw [this, hroot]
  have hchG : chAt root [a, g] = some (gsSeg :: gsRest) := by
    have := chAt_snoc hchI g; simp only [List.cons_append, List.nil_append] at this; rw [this, hgs]
  have hsegG : SegAt root [a, g, 0] := ⟨[a, g], 0, _, gsSeg, by simp, hchG, by simp, hgseg⟩
  intro os
  induction os with
  | nil =>
    intro o k cnt orig horig hrun _
    simp only [groupAnswers, Ctx.consistentFrom, gs_step hs hroot hgs hgseg hne hlid horig (si k)]
    exact run_consistent hs hlid si (o ++ tail) (k + 1) _ [a, g, 0] hsegG hrun
  | cons o' r ih =>
    intro o k cnt orig horig hrun hend
    obtain ⟨hrun1, hrun2⟩ := hrun
    simp only [groupAnswers, Ctx.consistentFrom, gs_step hs hroot hgs hgseg hne hlid horig (si k)]
    obtain ⟨hw, hseg'⟩ := run_where hs hlid si o (k + 1) (forceLoopStart cnt [(isaId, 0), (gsId, 0)]
      [(isaId, 0), (gsId, 0), gsSeg.comp]) [a, g, 0] hsegG hrun1
    have hdl : ([a, g, 0] : List Nat).dropLast = [a, g] := rfl
    rw [hdl] at hw
    have e : ([a, g] ++ [0] : List Nat) = [a, g, 0] := rfl
    rw [e, consistentFrom_append lid _ _ _ _ hw]
    exact ih o' _ _ _ (Or.inr ⟨hend o (by simp), hseg'⟩) hrun2 (fun o'' ho'' => hend o'' (List.mem_cons_of_mem _ ho''))

end

/-- **C09 ⟵ C02 for several groups.**  Hypotheses of `walk_accepts_multi`; every group ends with a segment that is a
    direct child of the group loop (its GE).  The answers the context reader derives from the Walker model — each GS
    pinned, the loop transitions at a GS reported as the reader does — satisfy `Ctx.Consistent`. -/
theorem answers_consistent_multi (K : Consts) (root : List Node) (rootId : Nat)
    (hwf : WFMap root = true) (hun : Unambiguous K root = true) (hok : CtxMapOK root = true)
    {a isaId isaPos isaU isaRep : Nat} {isaW : Bool} {isaSeg : Node} {isaRest : List Node}
    (hroot : root[a]? = some (.loop isaId isaPos isaU isaRep isaW (isaSeg :: isaRest))) (hisa : isaSeg.isSeg = true)
    {g gsId gsPos gsU gsRep : Nat} {gsW : Bool} {gsSeg : Node} {gsRest : List Node}
    (hgs : (isaSeg :: isaRest)[g]? = some (.loop gsId gsPos gsU gsRep gsW (gsSeg :: gsRest))) (hgseg : gsSeg.isSeg = true)
    (hne : isaId ≠ gsId)
    (hopt0 : ∀ (j : Nat) (c : Node), j < a → root[j]? = some c → optional c = true)
    (hopt1 : ∀ (j : Nat) (c : Node), 0 < j → j < g → (isaSeg :: isaRest)[j]? = some c → optional c = true)
    {o : List Emit} {os : List (List Emit)} {out2 out3 : List Emit}
    (h1 : GenList K [a, g] 1 gsRest o) (hos : ∀ o' ∈ os, GenList K [a, g] 1 gsRest o')
    (hend : ∀ o' ∈ o :: os, (runCur [a, g, 0] o').dropLast = [a, g])
    (h2 : GenList K [a] (g + 1) ((isaSeg :: isaRest).drop (g + 1)) out2)
    (h3 : GenList K [] (a + 1) (root.drop (a + 1)) out3)
    (lid : Option Nat) (hlid : LidOK? root lid) (si : Nat → Ctx.SegInfo) :
    Ctx.Consistent lid (answersMulti K root rootId si a g [(isaId, 0), (gsId, 0)] [(isaId, 0), (gsId, 0), gsSeg.comp]
      (forceLoopStart [] [(isaId, 0)] [(isaId, 0), isaSeg.comp]) o os (out2 ++ out3)) := by
  have hs := static_of hwf hun hok
  have hrun := walk_accepts_multi K root rootId hwf hun hroot hisa hgs hgseg hopt0 hopt1 h1 hos h2 h3
  simp only [Ctx.Consistent, answersMulti, Ctx.consistentFrom, isa_step hroot lid (si 0)]
  have := groups_consistent hs hroot hgs hgseg hne hlid si (out2 ++ out3) os o 1 _ [a, 0] (Or.inl rfl) hrun hend
  simpa using this

/-- number of segments of the groups and the tail: one GS per group plus the walked segments -/
def groupsLen : List Emit → List (List Emit) → List Emit → Nat
  | o, [], tail => (o ++ tail).length + 1
  | o, o' :: r, tail => groupsLen o' r tail + o.length + 1

theorem groupAnswers_segs (K : Consts) (root : List Node) (rootId : Nat) (si : Nat → Ctx.SegInfo) (gp : List Nat)
    (lk sk : PathKey) (tail : List Emit) : ∀ (os : List (List Emit)) (o : List Emit) (k : Nat) (cnt : Counter) (orig : List Nat),
    (groupAnswers K root rootId si gp lk sk k cnt orig o os tail).map (fun x => x.seg) =
      (List.range' k (groupsLen o os tail)).map si
  | [], o, k, cnt, orig => by
    simp only [groupAnswers, groupsLen, List.map_cons, walkAnswers_segs, List.range'_succ, gsAnswer, answerOf]
  | o' :: r, o, k, cnt, orig => by
    simp only [groupAnswers, groupsLen, List.map_cons, List.map_append, walkAnswers_segs, List.range'_succ, gsAnswer,
      answerOf, groupAnswers_segs K root rootId si gp lk sk tail r o', List.cons.injEq, true_and]
    rw [Nat.add_comm (groupsLen o' r tail), ← List.range'_append_1, List.map_append]

/-- **C09 for generated documents with several groups**: the context-reader model yields exactly the source segments
    `ISA, GS, group₁, GS, group₂, …, tail` in source order -/
theorem partition_generated_multi (K : Consts) (root : List Node) (rootId : Nat)
    (hwf : WFMap root = true) (hun : Unambiguous K root = true) (hok : CtxMapOK root = true)
    {a isaId isaPos isaU isaRep : Nat} {isaW : Bool} {isaSeg : Node} {isaRest : List Node}
    (hroot : root[a]? = some (.loop isaId isaPos isaU isaRep isaW (isaSeg :: isaRest))) (hisa : isaSeg.isSeg = true)
    {g gsId gsPos gsU gsRep : Nat} {gsW : Bool} {gsSeg : Node} {gsRest : List Node}
    (hgs : (isaSeg :: isaRest)[g]? = some (.loop gsId gsPos gsU gsRep gsW (gsSeg :: gsRest))) (hgseg : gsSeg.isSeg = true)
    (hne : isaId ≠ gsId)
    (hopt0 : ∀ (j : Nat) (c : Node), j < a → root[j]? = some c → optional c = true)
    (hopt1 : ∀ (j : Nat) (c : Node), 0 < j → j < g → (isaSeg :: isaRest)[j]? = some c → optional c = true)
    {o : List Emit} {os : List (List Emit)} {out2 out3 : List Emit}
    (h1 : GenList K [a, g] 1 gsRest o) (hos : ∀ o' ∈ os, GenList K [a, g] 1 gsRest o')
    (hend : ∀ o' ∈ o :: os, (runCur [a, g, 0] o').dropLast = [a, g])
    (h2 : GenList K [a] (g + 1) ((isaSeg :: isaRest).drop (g + 1)) out2)
    (h3 : GenList K [] (a + 1) (root.drop (a + 1)) out3)
    (lid : Option Nat) (hlid : LidOK? root lid) (si : Nat → Ctx.SegInfo) :
    ((Ctx.ctxRun lid (answersMulti K root rootId si a g [(isaId, 0), (gsId, 0)] [(isaId, 0), (gsId, 0), gsSeg.comp]
        (forceLoopStart [] [(isaId, 0)] [(isaId, 0), isaSeg.comp]) o os (out2 ++ out3))).map Ctx.segsOf).flatten =
      (List.range (groupsLen o os (out2 ++ out3) + 1)).map si := by
  rw [Ctx.partition (answers_consistent_multi K root rootId hwf hun hok hroot hisa hgs hgseg hne hopt0 hopt1 h1 hos hend
    h2 h3 lid hlid si)]
  simp only [answersMulti, List.map_cons, groupAnswers_segs, isaAnswer, answerOf]
  rw [List.range_eq_range', List.range'_succ]
  simp

/-! ### non-vacuity on the `exRoot` skeleton of Props/C02Walk.lean -/

def exSi (k : Nat) : Ctx.SegInfo := ⟨100 + k, k, k + 1⟩

def exAnswers : List Ctx.Answer := answersOf exK exRoot 0 exSi 0 1 exCnt0 (exOut1 ++ exOut2 ++ [])

/-- the extra map hypothesis holds for the skeleton; 2000 (id 20), 2100 (21), ST_LOOP (14), HEADER (16), GS_LOOP (12) and
    ISA_LOOP (10) are admissible requested ids, the transparent DETAIL wrapper (19) is not -/
example : CtxMapOK exRoot = true ∧ lidOKb exRoot 20 = true ∧ lidOKb exRoot 21 = true ∧ lidOKb exRoot 14 = true ∧
    lidOKb exRoot 16 = true ∧ lidOKb exRoot 12 = true ∧ lidOKb exRoot 10 = true ∧ lidOKb exRoot 19 = false := by
  decide +kernel

/-- the theorem applies: loop 2000 requested on the example document … -/
example : Ctx.Consistent (some 20) exAnswers :=
  answers_consistent exK exRoot 0 (by decide +kernel) (by decide +kernel) (by decide +kernel) (a := 0) (g := 1)
    (isaSeg := exISA) (gsSeg := exGS) rfl rfl rfl rfl (by decide) (by intro j c hj; omega) (by intro j c h1 h2; omega)
    exDeriv1 exDeriv2 .nil (some 20) (lidOK_of_bool (by decide +kernel)) exSi

/-- … and, independently of the proof, the kernel evaluates the reader's check on the model's answers -/
example : Ctx.Consistent none exAnswers ∧ Ctx.Consistent (some 20) exAnswers ∧ Ctx.Consistent (some 21) exAnswers ∧
    Ctx.Consistent (some 10) exAnswers := by decide +kernel

/-- the answers are not trivial: 16 segments, the second HL pops 2100 and 2000 and pushes 2000 again -/
example : exAnswers.length = 17 ∧
    (exAnswers.map (fun x => (x.pops.length, x.pushes.length)))[12]? = some (2, 1) := by decide +kernel

/-- two trees (the two 2000 instances) and 12 plain segments; every source segment exactly once, in order -/
example : (Ctx.ctxRun (some 20) exAnswers).map (fun y => (Ctx.Yield.isTree y, (Ctx.leavesOf y).length)) =
    [(false, 1), (false, 1), (false, 1), (false, 1), (false, 1), (false, 1), (false, 1), (true, 5), (true, 2),
     (false, 1), (false, 1), (false, 1)] := by decide +kernel

/-- the hypothesis on the requested id matters: with the transparent DETAIL wrapper (19) requested the reader's check
    fails on the very same answers -/
example : ¬ Ctx.Consistent (some 19) exAnswers := by decide +kernel

/-- three groups (two sets, one set, three sets) and the interchange trailer -/
def exAnswersMulti : List Ctx.Answer :=
  answersMulti exK exRoot 0 exSi 0 1 [(10, 0), (12, 0)] [(10, 0), (12, 0), (13, 0)] exCntIsa
    (groupOut ([exSetA, exSetA], exGEout)) ([([exSetA], exGEout), ([exSetA, exSetA, exSetA], exGEout)].map groupOut)
    (exOut2 ++ [])

/-- 1 + (1 + 11) + (1 + 6) + (1 + 16) + 1 segments; the reader's check holds for ST_LOOP (14: six trees), GS_LOOP (12:
    three trees) and without a requested loop — evaluated by the kernel -/
example : exAnswersMulti.length = 38 ∧ Ctx.Consistent none exAnswersMulti ∧ Ctx.Consistent (some 14) exAnswersMulti ∧
    Ctx.Consistent (some 12) exAnswersMulti ∧
    (Ctx.ctxRun (some 14) exAnswersMulti).countP Ctx.Yield.isTree = 6 ∧
    (Ctx.ctxRun (some 12) exAnswersMulti).countP Ctx.Yield.isTree = 3 := by decide +kernel

end Pyx12Verif.CtxWalk
