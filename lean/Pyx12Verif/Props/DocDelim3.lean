/-
(2) C12 at pipeline level, DIFFERENT component separators: gap (c) of Props/DocDelim.lean closed, gap (b) closed for
documents without multi-component values; the general renaming argument stays open (`…_full`, missing lemma named).

With another component separator the ISA segment itself changes: ISA16 IS the separator.  So the two encodings write
`isa :: rest` and `withIsa16 isa d₂.sub :: rest`.

`isa16_admits_of_charset`                gap (c): for the ISA16 definition of the shipped control maps (simple element, AN,
                                         length 1..1, no code list / external code set / regular expression) a character is
                                         accepted without any report iff … it suffices that it is in the character set selected
                                         by `Ctx` (and the version of the map) — "the component separator being a character
                                         the declared character set allows".
`doc_delimiter_independent_sub_partial`  any terminators, element separators, component separators and CR/LF layouts; ISA16
                                         admitted in both encodings (`Isa16Admits`); no element outside the ISA has more than
                                         one component (after the documented trimming).  Then `validateDoc` returns the SAME
                                         result for both texts — nothing needs renaming, because the only place where the
                                         separator is visible is ISA16, and an admitted ISA16 is not echoed in any event.
`doc_delimiter_independent_sub_full`     the statement with multi-component values, events compared modulo `mapComp`
                                         (the printed composite values carry the separator).  NOT proved.
-/
import Pyx12Verif.Props.DocDelim2
import Pyx12Verif.Proofs.DocDelimIsa

namespace Pyx12Verif.Doc
open Pyx12Verif

/-! ### gap (c): which characters the shipped ISA16 definition admits -/

theorem control_ge32 (n : Nat) (h : 32 ≤ n) : Validation.controlCodes.contains n = false := by
  simp only [Validation.controlCodes, List.contains_eq_mem, List.mem_cons, List.mem_nil_iff, or_false, decide_eq_false_iff_not]
  omega

theorem inClass_ge32 (cs : Validation.Charset) (c : Char) (h : Validation.inClass cs c = true) : 32 ≤ c.toNat := by
  have hU : Validation.isUpper c = true → 32 ≤ c.toNat := by
    intro hu
    simp only [Validation.isUpper, Bool.and_eq_true, decide_eq_true_eq] at hu
    have : ('A' : Char).toNat ≤ c.toNat := hu.1
    have e : ('A' : Char).toNat = 65 := rfl
    omega
  have hL : Validation.isLower c = true → 32 ≤ c.toNat := by
    intro hu
    simp only [Validation.isLower, Bool.and_eq_true, decide_eq_true_eq] at hu
    have : ('a' : Char).toNat ≤ c.toNat := hu.1
    have e : ('a' : Char).toNat = 97 := rfl
    omega
  have hD : Validation.isDigit c = true → 32 ≤ c.toNat := by
    intro hu
    simp only [Validation.isDigit, Bool.and_eq_true, decide_eq_true_eq] at hu
    have : ('0' : Char).toNat ≤ c.toNat := hu.1
    have e : ('0' : Char).toNat = 48 := rfl
    omega
  have hB : Validation.basicPunct.contains c = true → 32 ≤ c.toNat := by
    intro hu
    simp only [Validation.basicPunct, List.contains_eq_mem, List.mem_cons, List.mem_nil_iff, or_false,
      decide_eq_true_eq] at hu
    rcases hu with rfl | rfl | rfl | rfl | rfl | rfl | rfl | rfl | rfl | rfl | rfl | rfl | rfl | rfl | rfl | rfl | rfl <;> decide
  have hE : Validation.extPunct.contains c = true → 32 ≤ c.toNat := by
    intro hu
    simp only [Validation.extPunct, List.contains_eq_mem, List.mem_cons, List.mem_nil_iff, or_false,
      decide_eq_true_eq] at hu
    rcases hu with rfl | rfl | rfl | rfl | rfl | rfl | rfl | rfl | rfl | rfl | rfl | rfl | rfl | rfl <;> decide
  have h5 : Validation.ext5Punct.contains c = true → 32 ≤ c.toNat := by
    intro hu
    simp only [Validation.ext5Punct, List.contains_eq_mem, List.mem_cons, List.mem_nil_iff, or_false,
      decide_eq_true_eq] at hu
    rcases hu with rfl | rfl <;> decide
  cases cs with
  | B =>
    simp only [Validation.inClass, Bool.or_eq_true] at h
    rcases h with (h | h) | h
    · exact hU h
    · exact hD h
    · exact hB h
  | E =>
    simp only [Validation.inClass, Bool.or_eq_true] at h
    rcases h with (((h | h) | h) | h) | h
    · exact hU h
    · exact hD h
    · exact hB h
    · exact hL h
    · exact hE h
  | E5 =>
    simp only [Validation.inClass, Bool.or_eq_true] at h
    rcases h with ((((h | h) | h) | h) | h) | h
    · exact hU h
    · exact hD h
    · exact hB h
    · exact hL h
    · exact hE h
    · exact h5 h

/-- **gap (c).**  The ISA16 definition of the shipped control maps — sixteenth and last child, simple element of type AN,
    length 1..1, used, defined in dataele.xml, no code list, no external code set, no regular expression, not the format
    element 1251 — admits every character of the character set selected by the settings (`Ctx.extended`, map version):
    `element_if.is_valid` returns `True` and hands nothing but the `add_ele` to the error handler. -/
theorem isa16_admits_of_charset (ctx : Ctx) (v5 : Bool) (sd : SegDef) (pre : List ChildX) (x : ElemX)
    (hch : sd.children = pre ++ [ChildX.elem x]) (hpl : pre.length = 15) (hde : x.dataEle ≠ some s1251)
    (hdef : x.defined = true) (hu : x.d.usage ≠ .N) (hty : x.d.dataType = ElemValid.tyAN)
    (hmin : x.d.minLen = 1) (hmax : 1 ≤ x.d.maxLen) (hcodes : x.d.codes = []) (hext : x.d.extDeclared = false)
    (hre : x.d.hasRegex = false) (c : Char)
    (hcs : Validation.inClass (Validation.pickCharset ctx.extended v5) c = true) : Isa16Admits ctx v5 sd c := by
  refine ⟨pre, x, hch, hpl, hde, ?_⟩
  have hnc : Validation.hasControl [c] = false := by
    simp only [Validation.hasControl, Bool.or_false]
    exact control_ge32 _ (inClass_ge32 _ c hcs)
  have hne : ([c] : Str).isEmpty = false := rfl
  have hlen : ElemValid.effLen (defWith x []).dataType [c] = 1 := by
    simp only [defWith, hty, ElemValid.effLen]
    have : ElemValid.isNumType ElemValid.tyAN = false := by decide
    simp [this]
  have hshort : ElemValid.tooShort (defWith x []) [c] = false := by
    simp only [ElemValid.tooShort, hlen]
    simp [defWith, hmin]
  have hlong : ElemValid.tooLong (defWith x []) [c] = false := by
    unfold ElemValid.tooLong
    rw [hlen]
    exact decide_eq_false (by simp only [defWith]; omega)
  have htrail : ElemValid.trailing (defWith x []) [c] = false := by
    simp only [ElemValid.trailing, defWith, hmin]
    by_cases hb : c = ' '
    · subst hb
      have : ElemValid.rstrip [' '] = [] := by decide
      simp [this]
    · simp [ElemValid.endsBlank, hb]
  have hcode : ElemValid.codeOk (defWith x []) (elemCtx ctx v5 x [c]) [c] = true := by
    simp [ElemValid.codeOk, defWith, hcodes, hext]
  have htype : ElemValid.typeOk (defWith x []) (elemCtx ctx v5 x [c]) [c] = true := by
    simp only [ElemValid.typeOk, defWith, hty, elemCtx]
    have : Validation.isValidDataType [c] ElemValid.tyAN ctx.extended v5 =
        Validation.idOk (Validation.pickCharset ctx.extended v5) [c] := by
      simp [Validation.isValidDataType, ElemValid.tyAN, Validation.startsWithN]
    rw [this]
    simp [Validation.idOk, hcs]
  have htl : ElemValid.tlBad (defWith x []) (elemCtx ctx v5 x [c]) [c] = false := by
    simp [ElemValid.tlBad, defWith]
  have hregex : ElemValid.regexBad (defWith x []) (elemCtx ctx v5 x [c]) = false := by
    simp [ElemValid.regexBad, defWith, hre]
  have hun : ¬ (defWith x []).usage = ElemValid.Usage.N := hu
  have hlook : (needsLookup x (.simple [c]) && !x.defined) = false := by simp [hdef]
  have hvalid : (ElemValid.elemValidIn (defWith x []) (elemCtx ctx v5 x [c]) (EIn.simple [c]).toInput).1 = true := by
    simp only [EIn.toInput, ElemValid.elemValidIn, hne, Bool.false_eq_true, if_false, hun, ElemValid.checkValue, hnc,
      hshort, hlong, htrail, hcode, htype, htl, hregex]
    rfl
  have hrep : elemReports x (defWith x []) (elemCtx ctx v5 x [c]) (.simple [c]) = [] := by
    simp only [elemReports, simpleReports, hne, Bool.false_eq_true, if_false, hun, valueReports, hnc, hshort, hlong,
      htrail, hcode, htype, htl, hregex, rcond, Bool.not_true, List.append_nil]
  simp only [elemEvents, hlook, Bool.false_eq_true, if_false, EIn.value, hvalid, hrep, List.map_nil]

/-! ### the ISA segment is printed and read back unchanged -/

theorem trimTrail_last {α : Type} (p : α → Bool) (l : List α) (x : α) (h : p x = false) :
    SegText.trimTrail p (l ++ [x]) = l ++ [x] := by
  simp [SegText.trimTrail, h]

theorem normSeg_isa {s : Seg} {c : Char} (h : IsaWith s c) : SegText.normSeg s = s := by
  have hsplit := isaWith_split h
  have hp : SegText.isEmptyComp [[c]] = false := by simp [SegText.isEmptyComp, SegText.isEmptyVal]
  have htrim : SegText.trimTrail SegText.isEmptyComp s.elems = s.elems := by
    rw [hsplit]; exact trimTrail_last _ _ _ hp
  have hne : s.elems ≠ [] := by intro e; have := h.len; rw [e] at this; cases this
  have hmap : s.elems.map SegText.normComp = s.elems := by
    conv => rhs; rw [← List.map_id s.elems]
    apply List.map_congr_left
    intro x hx
    have := h.single x hx
    match x, this with
    | [v], _ => exact SegText.normComp_single v
  cases s with
  | mk id elems =>
    simp only [SegText.normSeg, SegText.normElems] at htrim hne hmap ⊢
    simp only [htrim, hne, if_false, hmap]

theorem lineReports_isa {s : Seg} {c : Char} (h : IsaWith s c) : C12.lineReports s = [] := by
  have hsplit := isaWith_split h
  have hp : SegText.isEmptyComp [[c]] = false := by simp [SegText.isEmptyComp, SegText.isEmptyVal]
  have htrim : SegText.trimTrail SegText.isEmptyComp s.elems = s.elems := by
    rw [hsplit]; exact trimTrail_last _ _ _ hp
  have hne : s.elems ≠ [] := by intro e; have := h.len; rw [e] at this; cases this
  have hk : SegText.keptSpec s.elems = s.elems := by simp only [SegText.keptSpec, htrim, hne, if_false]
  have hlast : s.elems.getLast? = some [[c]] := by rw [hsplit]; simp
  have : C12.trailEmpty s = false := by
    simp only [C12.trailEmpty, hk, hlast, SegText.normComp_single]
    simp
  simp [C12.lineReports, this]

/-- every element of the normal form has one component when the segment prints no composite with two -/
theorem normSeg_single (s : Seg) (h : ∀ c ∈ s.elems, (SegText.normComp c).length = 1) :
    ∀ c ∈ (SegText.normSeg s).elems, c.length = 1 := by
  intro c hc
  simp only [SegText.normSeg, SegText.normElems] at hc
  split at hc
  · simp only [List.mem_singleton] at hc; subst hc; rfl
  · obtain ⟨c0, hc0, rfl⟩ := List.mem_map.1 hc
    exact h c0 (SegText.mem_trimTrail hc0)

theorem sepAgree_single (d₁ d₂ : Delims) (s : Seg) (h : ∀ c ∈ s.elems, c.length = 1) : SepAgree d₁ d₂ s :=
  fun c hc => formatComp_single _ _ c (h c hc)

theorem readSpec_segs_mem (segs : List Seg) : ∀ pend, ∀ p ∈ (C12.readSpec pend segs).segs, ∃ s ∈ segs, p.2 = SegText.normSeg s := by
  induction segs with
  | nil => intro pend p hp; cases hp
  | cons s ss ih =>
    intro pend p hp
    simp only [C12.readSpec, SegText.ReadResult.push, List.mem_cons] at hp
    rcases hp with rfl | hp
    · exact ⟨s, by simp, rfl⟩
    · obtain ⟨s', hs', e⟩ := ih [] p hp
      exact ⟨s', List.mem_cons_of_mem _ hs', e⟩

theorem finish_congr (rr₁ rr₂ : SegText.ReadResult) (hc : rr₁.crashed = rr₂.crashed) (hp : rr₁.pending = rr₂.pending)
    (e : LoopEnd) : finish rr₁ e = finish rr₂ e := by
  cases e with
  | stopped o a => rfl
  | done a => simp only [finish, finalErrs, hc, hp]

/-- **(2) for different component separators, documents without multi-component values.**
    `isa :: rest` written with `d₁` / `b₁`, and the same document with ISA16 replaced by the other separator written with
    `d₂` / `b₂` (any terminators, element separators, component separators, CR/LF layouts; both triples pairwise distinct and
    absent from the data; both header lines declare their triple and the same version).  If both separators are values the
    ISA16 definition admits (`Isa16Admits`; for the shipped definition: characters of the selected character set,
    `isa16_admits_of_charset`) and no element outside the ISA segments prints more than one component, then `validateDoc`
    returns the same result — outcome, matched nodes, events, error tree, acknowledgement — for both texts. -/
theorem doc_delimiter_independent_sub_partial (ms : Maps) (ctx : Ctx) (d₁ d₂ : Delims) (b₁ b₂ : List Char)
    (isa : Seg) (rest : List Seg) (t₁ t₂ : List Char) (hd₁ hd₂ : Tokenizer.Header)
    (h1 : d₁.Distinct) (h2 : d₂.Distinct) (hb₁ : C01.AllBrk b₁) (hb₂ : C01.AllBrk b₂)
    (hc₁ : ∀ s ∈ isa :: rest, SegText.Clean d₁ s) (hc₂ : ∀ s ∈ withIsa16 isa d₂.sub :: rest, SegText.Clean d₂ s)
    (e₁ : SegText.encode d₁ b₁ (isa :: rest) = some t₁)
    (e₂ : SegText.encode d₂ b₂ (withIsa16 isa d₂.sub :: rest) = some t₂)
    (hh₁ : Tokenizer.parseHeader (t₁.take Tokenizer.ISA_LEN) = .ok hd₁)
    (hh₂ : Tokenizer.parseHeader (t₂.take Tokenizer.ISA_LEN) = .ok hd₂)
    (hdel₁ : SegText.delimsOf hd₁ = d₁) (hdel₂ : SegText.delimsOf hd₂ = d₂) (hicvn : hd₁.icvn = hd₂.icvn)
    (hisa : isa.id = SegText.isaId) (hlen : isa.elems.length = 16) (h16 : isa.elems[15]? = some [[d₁.sub]])
    (hsimple : ∀ s ∈ rest, s.id ≠ SegText.isaId → ∀ c ∈ s.elems, (SegText.normComp c).length = 1)
    (hadm : ∀ control n sd, findMap ms (controlFile hd₁) = some control → fetchIn ms control (isaPath ms) = some n →
      lookupDef n.map n.ip = some sd →
        Isa16Admits ctx n.map.v5010 sd d₁.sub ∧ Isa16Admits ctx n.map.v5010 sd d₂.sub) :
    validateDoc ms ctx t₁ = validateDoc ms ctx t₂ := by
  have hw : IsaWith isa d₁.sub :=
    ⟨hisa, hlen, h16, fun x hx => ((hc₁ isa (by simp)).1.2.2 x hx).2.1 hisa⟩
  have hw' : IsaWith (withIsa16 isa d₂.sub) d₂.sub := withIsa16_isaWith hw d₂.sub
  have nosz : ∀ k ∈ ([] : List Nat), 1 ≤ k := by intro k hk; cases hk
  have hr₁ := C12.read_encoded_reports d₁ h1 b₁ hb₁ _ hc₁ t₁ e₁ [] nosz hd₁ hh₁ hdel₁
  have hr₂ := C12.read_encoded_reports d₂ h2 b₂ hb₂ _ hc₂ t₂ e₂ [] nosz hd₂ hh₂ hdel₂
  simp only [validateDoc, hr₁, hr₂, validateRead]
  have hcf : controlFile hd₂ = controlFile hd₁ := by simp only [controlFile, hicvn]
  rw [hcf, hdel₁, hdel₂]
  cases hm : findMap ms (controlFile hd₁) with
  | none => rfl
  | some control =>
    simp only [C12.readSpec, SegText.ReadResult.push, normSeg_isa hw, normSeg_isa hw', lineReports_isa hw,
      lineReports_isa hw', runSegs, List.append_nil]
    refine (finish_congr _ (SegText.ReadResult.mk (([], withIsa16 isa d₂.sub) :: (C12.readSpec [] rest).segs)
        (C12.readSpec [] rest).crashed (C12.readSpec [] rest).pending) rfl rfl _).trans ?_
    congr 1
    rw [stepSeg_isa16 ms ctx control d₁ d₂ [] hw d₂.sub (initAcc ms control).st
      (fun n sd hn hl => hadm control n sd hm hn hl)]
    have hone : ∀ s ∈ rest, ∀ c ∈ s.elems, (SegText.normComp c).length = 1 := by
      intro s hs c hc
      by_cases hid : s.id = SegText.isaId
      · have hl := ((hc₁ s (List.mem_cons_of_mem _ hs)).1.2.2 c hc).2.1 hid
        match c, hl with
        | [v], _ => rw [SegText.normComp_single]; rfl
      · exact hsimple s hs hid c hc
    have hagree : ∀ p ∈ (C12.readSpec [] rest).segs, SepAgree d₁ d₂ p.2 := by
      intro p hp
      obtain ⟨s, hs, e⟩ := readSpec_segs_mem rest [] p hp
      rw [e]
      exact sepAgree_single d₁ d₂ _ (normSeg_single s (hone s hs))
    cases stepSeg ms ctx control d₂ [] (withIsa16 isa d₂.sub) (initAcc ms control).st with
    | stop o => rfl
    | next st out =>
      simp only
      cases ErrTree.run (initAcc ms control).est out.events with
      | crash site => rfl
      | ok est => simp only; rw [runSegs_congr d₁ d₂ ms ctx control _ _ hagree]

/-! ### the general statement (not proved) -/

/-- the component separator `a` renamed to `b` inside a reported value -/
def mapComp (a b : Char) (v : Str) : Str := v.map (fun c => if c = a then b else c)

/-- an event with its reported values renamed and its message text dropped -/
def mapCompEvent (a b : Char) : Event → Event
  | .segError c v => .segError c (v.map (mapComp a b))
  | .eleError c _ v => .eleError c [] (v.map (mapComp a b))
  | e => e

/-- the separators do not occur where a printed composite value is compared with a constant: the strings the skeletons and
    the index mention, the DTP format qualifiers, and the alphabet of `int()` -/
def SepNeutral (ms : Maps) (c : Char) : Prop :=
  (∀ m ∈ ms.maps, ∀ p ∈ m.intern, c ∉ p.1) ∧
  (∀ x ∈ ms.index, ∀ f ∈ [x.icvn, x.vriic, x.fic, x.tspc], ∀ v, f = some v → c ∉ v) ∧
  (∀ t ∈ dtpTypes, c ∉ t) ∧ Envelope.isDigit c = false ∧ Envelope.isIntSpace c = false ∧ c ≠ '_' ∧ c ≠ '+' ∧ c ≠ '-'

/-- **(2), different component separators, general documents — NOT proved.**  As `doc_delimiter_independent_sub_partial`
    without the restriction to single-component values, with the extra domain conditions the renaming needs (`SepNeutral`
    for both separators; neither separator inside any ISA value other than ISA16), and the conclusion weakened to: same
    outcome, same matched nodes, same events up to `mapComp` inside the reported values (message texts dropped).
    Missing lemma: `stepSeg_rename` — one round of the loop commutes with the renaming, i.e. for a segment that is clean
    for both triples, `stepSeg ms ctx control d₂ le s st₂` is the `mapComp`-image of `stepSeg ms ctx control d₁ le s st₁`
    when `st₂` is the image of `st₁` (reader state: control numbers seen; the walker counter, the matched node and
    `valid` are equal).  Its ingredients: `formatComp d₂.sub c = (formatComp d₁.sub c).map (mapComp …)` for clean values,
    `mapComp` injective on strings free of `d₂.sub`, `Envelope.step` equivariant (`pyInt` of a string containing a neutral
    separator is `none`), `lookupStr` / `getFilename` / `dtpTypes.contains` invariant (`SepNeutral`), `Syn.routeNote_shape`
    (proved), `ErrTree.step` equivariant (it never inspects a value).  The acknowledgement body echoes reported values
    (AK4-04, CTX), so it is the same only up to `mapComp` as well. -/
def doc_delimiter_independent_sub_full : Prop :=
  ∀ (ms : Maps) (ctx : Ctx) (d₁ d₂ : Delims) (b₁ b₂ : List Char) (isa : Seg) (rest : List Seg) (t₁ t₂ : List Char)
    (hd₁ hd₂ : Tokenizer.Header),
    d₁.Distinct → d₂.Distinct → C01.AllBrk b₁ → C01.AllBrk b₂ →
    (∀ s ∈ isa :: rest, SegText.Clean d₁ s ∧ SegText.Clean d₂ s) →
    (∀ s ∈ isa :: rest, s.id = SegText.isaId → ∀ k c, k ≠ 15 → s.elems[k]? = some c → ∀ v ∈ c, d₁.sub ∉ v ∧ d₂.sub ∉ v) →
    SegText.encode d₁ b₁ (isa :: rest) = some t₁ → SegText.encode d₂ b₂ (withIsa16 isa d₂.sub :: rest) = some t₂ →
    Tokenizer.parseHeader (t₁.take Tokenizer.ISA_LEN) = .ok hd₁ → Tokenizer.parseHeader (t₂.take Tokenizer.ISA_LEN) = .ok hd₂ →
    SegText.delimsOf hd₁ = d₁ → SegText.delimsOf hd₂ = d₂ → hd₁.icvn = hd₂.icvn →
    isa.id = SegText.isaId → isa.elems.length = 16 → isa.elems[15]? = some [[d₁.sub]] →
    SepNeutral ms d₁.sub → SepNeutral ms d₂.sub →
    (∀ control n sd, findMap ms (controlFile hd₁) = some control → fetchIn ms control (isaPath ms) = some n →
      lookupDef n.map n.ip = some sd →
        Isa16Admits ctx n.map.v5010 sd d₁.sub ∧ Isa16Admits ctx n.map.v5010 sd d₂.sub) →
    (validateDoc ms ctx t₁).outcome = (validateDoc ms ctx t₂).outcome ∧
    (validateDoc ms ctx t₁).segs.map (fun o => (o.sid, o.matched, o.node)) =
      (validateDoc ms ctx t₂).segs.map (fun o => (o.sid, o.matched, o.node)) ∧
    (validateDoc ms ctx t₁).events.map (mapCompEvent d₁.sub d₂.sub) =
      (validateDoc ms ctx t₂).events.map (mapCompEvent d₁.sub d₂.sub)

end Pyx12Verif.Doc
