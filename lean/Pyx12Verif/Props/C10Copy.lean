/-
C10 (extension) — `copy()` preserves every observation and shares nothing.

Part 1 (closes limit (ii) of Props/C10.lean).  `copy_independent` states that the copy's segments are
`map segCopy` of the original's, where `segCopy` = format and parse again (`Segment.__copy__`).  Here
(Proofs/DataTreeCopy.lean):
  * `segCopy_format`     the copy of a segment formats to exactly the original's text;
  * `segCopy_getValue`   `get_value` on the copy answers what the original answers for every element index `01…`
                         and every sub-element selector, `None` and `''` identified (they DO differ: a trailing
                         blank element is dropped by `format`, see `copy_blank_becomes_none`);
  * `segCopy_clean`, `segParse_clean`  the hypothesis `SegClean` (no delimiter inside the data, not the ISA) is what
                         every segment built from text satisfies, and copying keeps it;
  * `copy_preserves_text`, `copy_preserves_values`  the same for whole trees and through the API call;
  * Props/C10Clean.lean shows `SegClean` to be an invariant of every history of the domain (`run_clean`), hence
                         `copy_in_history`: at any point of such a history `copy()` preserves text and values.

Part 2 (closes limit (iii)).  In the pure model two trees cannot share anything, so `copy_independent` is a frame
property.  Model/DataTreeH.lean puts the mutable objects below a segment (the composites) into a heap:
  * `copy_refines`       the heap-level `copy()` read back is the pure model's `copyNode`;
  * `copy_shares_nothing` the cells reachable from the copy are all freshly allocated, hence disjoint from those
                         of the original (and of every tree that existed before); any number of in-place writes
                         through one of the two leaves every read through the other unchanged;
  * `share_mutant_aliases` the variant that re-uses the composite objects IS expressible and violates this:
                         a component write through the copy changes what the original serialises to.
-/
import Pyx12Verif.Props.C10
import Pyx12Verif.Proofs.DataTreeCopy
import Pyx12Verif.Proofs.DataTreeHeap

namespace Pyx12Verif.DataTree

/-! ## Part 1: the copy reads as the original -/

/-- every segment of the tree is clean (no delimiter inside its data; not the ISA) -/
def AllClean (n : DNode) : Prop := ∀ s ∈ segsOf n, SegClean s

/-- **`copy()` preserves the serialised text** of the copied node, segment by segment -/
theorem copy_preserves_text (n : DNode) (h : AllClean n) : fmtAll (copyNode n) = fmtAll n := by
  simp only [fmtAll, segsOf_copy_aux, List.map_map]
  apply List.map_congr_left
  intro s hs
  exact segCopy_format s (h s hs)

/-- **`copy()` preserves every value**: the `i`-th segment of the copy is the copy of the `i`-th segment; it has
the same text, answers every `get_value` the same way (absent = blank) and is clean again -/
theorem copy_preserves_values (n : DNode) (h : AllClean n) (i : Nat) (s : Seg) (hs : (segsOf n)[i]? = some s) :
    (segsOf (copyNode n))[i]? = some (segCopy s) ∧
    (segsOf (copyNode n)).length = (segsOf n).length ∧
    segFmt (segCopy s) = segFmt s ∧
    (segCopy s).id = s.id ∧
    (∀ e sb, sb ≠ some 0 →
      blankNone (segGet (segCopy s) (some (e + 1)) sb) = blankNone (segGet s (some (e + 1)) sb)) ∧
    SegClean (segCopy s) := by
  have hc := h s (List.mem_of_getElem? hs)
  refine ⟨by simp [segsOf_copy_aux, hs], by simp [segsOf_copy_aux], segCopy_format s hc, ?_,
    fun e sb hsb => segCopy_getValue s hc e sb hsb, segCopy_clean s hc⟩
  rw [segCopy_eq s hc]

/-- the copy of a clean tree is clean -/
theorem copy_allClean (n : DNode) (h : AllClean n) : AllClean (copyNode n) := by
  intro s hs
  rw [segsOf_copy_aux] at hs
  simp only [List.mem_map] at hs
  obtain ⟨s0, h0, rfl⟩ := hs
  exact segCopy_clean s0 (h s0 h0)

/-- through the API: `copy()` of the node at `(r, a)` appends a root that serialises to the same text -/
theorem copy_call_preserves_text (σ : Forest) (r : Nat) (a : List Nat) (t n : DNode)
    (hr : σ[r]? = some t) (hn : getAt a t = some n) (hc : AllClean n) :
    ∃ c, (step σ (.copy r a)).2 = σ ++ [c] ∧ (step σ (.copy r a)).1 = .addr σ.length [] ∧
      fmtAll c = fmtAll n ∧ AllClean c := by
  refine ⟨copyNode n, by simp [step, hr, hn], by simp [step, hr, hn], copy_preserves_text n hc,
    copy_allClean n hc⟩

/-- `None` and `''` must be identified: the original answers `''` for its blank second element, the copy `None` -/
theorem copy_blank_becomes_none :
    okIs (segGet (exSeg ['N', '1'] [[['A']], [[]]]) (some 2) none) (some []) = true ∧
    okIs (segGet (segCopy (exSeg ['N', '1'] [[['A']], [[]]])) (some 2) none) none = true ∧
    segFmt (segCopy (exSeg ['N', '1'] [[['A']], [[]]])) = segFmt (exSeg ['N', '1'] [[['A']], [[]]]) := by
  decide

/-- without `SegClean` the text is NOT preserved: a value that ends in the element separator -/
theorem unclean_copy_changes_text :
    segFmt (segCopy (exSeg ['N', '1'] [[['A', '*']]])) ≠ segFmt (exSeg ['N', '1'] [[['A', '*']]]) := by
  decide

/-- non-vacuity: the example tree of Props/C10.lean is clean -/
theorem exSeg_clean (id : Str) (els : List (List Str)) (h1 : '*' ∉ id) (h2 : id ≠ isaId)
    (h3 : ∀ c ∈ els, ∀ x ∈ c, '*' ∉ x ∧ ':' ∉ x) : SegClean (exSeg id els) :=
  ⟨by show ':' ≠ '*'; decide, h1, h2, h3⟩

example : AllClean exTree := by
  intro s hs
  have : segsOf exTree = [exSeg ['C', 'L', 'M'] [[['A']], [['1']]], exSeg ['R', 'E', 'F'] [[['E', 'A']], [['X']]],
      exSeg ['L', 'X'] [[['1']]], exSeg ['S', 'V', '1'] [[['H', 'C'], ['9', '9']], [['5']]],
      exSeg ['L', 'X'] [[['2']]]] := by decide +kernel
  rw [this] at hs
  simp only [List.mem_cons, List.not_mem_nil, or_false] at hs
  rcases hs with rfl | rfl | rfl | rfl | rfl <;> exact exSeg_clean _ _ (by decide) (by decide) (by decide)

example : fmtAll (copyNode exTree) = fmtAll exTree := by decide +kernel

/-! ## Part 2: the copy shares nothing -/

/-- **the heap model refines the pure model**: reading the heap-level copy gives `copyNode` of what the original
reads as, and reading the original after the copy gives what it read as before -/
theorem copy_refines (H : Heap) (n : DNodeH) (h : WFH H n) :
    abstr (copyH H n).1 (copyH H n).2 = copyNode (abstr H n) ∧ abstr (copyH H n).1 n = abstr H n := by
  obtain ⟨ext, h1, _, h3⟩ := copyH_spec n H h
  exact ⟨h3, by rw [h1]; exact abstr_ext H ext n h⟩

/-- **A copy shares nothing with its original.**  After `copy()` of a tree `n` whose composite references all
point into the heap `H`:
  * every composite cell reachable from the copy was allocated by the copy (its location is `≥ H.length`), so the
    location sets of the copy and of the original — and of every other tree that lived in `H` — are disjoint;
  * therefore any sequence of in-place writes to cells of the copy leaves what the original reads as (hence
    every `get_value`, `select`, `exists`, `count`, `first`, serialisation … of it) exactly as before the copy,
  * any sequence of in-place writes to cells of the original leaves the copy reading as `copyNode` of the
    original at the time of the copy,
  * and, more generally, whatever later calls do to the copy — in-place writes to its cells, allocation of new
    composites (whole-element writes, padding, added segments) and in-place writes to those — every tree that
    lived in `H` still reads as before. -/
theorem copy_shares_nothing (H : Heap) (n : DNodeH) (h : WFH H n) :
    (∀ l : Nat, l ∈ locs (copyH H n).2 → H.length ≤ l) ∧
    (∀ m : DNodeH, WFH H m → ∀ l : Nat, l ∈ locs (copyH H n).2 → l ∉ locs m) ∧
    (∀ l : Nat, l ∈ locs n → l ∉ locs (copyH H n).2) ∧
    (∀ ws : List (Loc × List Str), (∀ w ∈ ws, w.1 ∈ locs (copyH H n).2) →
      ∀ m : DNodeH, WFH H m → abstr (writeCells (copyH H n).1 ws) m = abstr H m) ∧
    (∀ ws : List (Loc × List Str), (∀ w ∈ ws, w.1 ∈ locs n) →
      abstr (writeCells (copyH H n).1 ws) (copyH H n).2 = copyNode (abstr H n)) ∧
    (∀ steps : List HeapStep, (∀ l c, HeapStep.write l c ∈ steps → H.length ≤ l) →
      ∀ m : DNodeH, WFH H m → abstr (heapRun (copyH H n).1 steps) m = abstr H m) := by
  obtain ⟨ext, h1, h2, h3⟩ := copyH_spec n H h
  have fresh : ∀ m : DNodeH, WFH H m → ∀ l : Nat, l ∈ locs (copyH H n).2 → l ∉ locs m := by
    intro m hm l hl hlm
    have := (h2 l hl).1
    have := hm l hlm
    omega
  refine ⟨fun l hl => (h2 l hl).1, fresh, fun l hl hl' => fresh n h l hl' hl, ?_, ?_, ?_⟩
  · intro ws hws m hm
    rw [abstr_writes_frame _ m ws (fun w hw => fresh m hm w.1 (hws w hw)), h1]
    exact abstr_ext H ext m hm
  · intro ws hws
    rw [abstr_writes_frame _ _ ws (fun w hw hl => fresh n h w.1 hl (hws w hw)), h3]
  · intro steps hs m hm
    refine abstr_heapRun_frame H.length H m hm steps hs _ (by rw [h1]; simp) ?_
    intro l hl
    rw [h1]; exact cell_append_lt H ext l hl

/-- every observation is a function of what the tree reads as: instance for `get_value` and the serialisation -/
theorem copy_shares_nothing_observed (H : Heap) (n : DNodeH) (h : WFH H n) (ws : List (Loc × List Str))
    (hws : ∀ w ∈ ws, w.1 ∈ locs (copyH H n).2) (a : List Nat) (p : Str) :
    getValueAt (abstr (writeCells (copyH H n).1 ws) n) a p = getValueAt (abstr H n) a p ∧
    fmtAll (abstr (writeCells (copyH H n).1 ws) n) = fmtAll (abstr H n) := by
  rw [(copy_shares_nothing H n h).2.2.2.1 ws hws n h]
  exact ⟨rfl, rfl⟩

/-! ### the sharing mutant is expressible, and it aliases -/

/-- every cell of the mutant's copy is a cell of the original -/
theorem share_mutant_same_cells (n : DNodeH) : ∀ l, l ∈ locs (copyShareH n) → l ∈ locs n :=
  copyShareH_locs n

def exHeap : Heap := [[['A']], [['1']]]
def exSegH : SegH := { id := ['C', 'L', 'M'], els := [0, 1], st := '~', et := '*', sub := ':' }
def exNodeH : DNodeH := .loop exH23 exMk23 [.seg exClm exSegH]

example : fmtAll (abstr exHeap exNodeH) = ["CLM*A*1~".toList] := by decide +kernel
example : WFH exHeap exNodeH := by
  intro l hl
  have : locs exNodeH = [0, 1] := by decide
  rw [this] at hl
  simp only [List.mem_cons, List.not_mem_nil, or_false] at hl
  rcases hl with rfl | rfl <;> decide

/-- **the mutant aliases**: a component write through the sharing copy (`CLM01-1 := Z`, an in-place write to the
composite object at location 0, which the "copy" reaches) changes what the ORIGINAL serialises to … -/
theorem share_mutant_aliases :
    0 ∈ locs (copyShareH exNodeH) ∧
    fmtAll (abstr (writeCells exHeap [(0, [['Z']])]) exNodeH) = ["CLM*Z*1~".toList] ∧
    fmtAll (abstr exHeap exNodeH) = ["CLM*A*1~".toList] := by
  decide +kernel

/-- … while with the real `copy()` the same write, now to the copy's own cell (location 2), does not -/
theorem real_copy_does_not_alias :
    locs (copyH exHeap exNodeH).2 = [2, 3] ∧
    fmtAll (abstr (writeCells (copyH exHeap exNodeH).1 [(2, [['Z']])]) exNodeH) = ["CLM*A*1~".toList] ∧
    fmtAll (abstr (writeCells (copyH exHeap exNodeH).1 [(2, [['Z']])]) (copyH exHeap exNodeH).2) = ["CLM*Z*1~".toList] := by
  decide +kernel

end Pyx12Verif.DataTree
