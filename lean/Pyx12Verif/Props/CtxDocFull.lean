/-
`ctxDoc_total_full`: which of the seven `Ctx.Crash` exits of `iter_segments` / `_add_segment` any TEXT can reach.

Props/CtxDoc.lean left `def ctxDoc_total_full : Prop` unproved: under `WFMap`, `Unambiguous`, `CtxMapOK`, a sane header and
`isaPinOK`, the only reachable exit of the tree part is `plainNodeAsLoop`.  Here:

  * `ctxDoc_total_full_false`        that statement is FALSE as written: it has no hypothesis on the requested loop id.  With
                                     an id that names a segment-anchored loop in one place of the map and a wrapper loop in
                                     another, `EngineError('cur_loop_node is None')` (`pushOnNone`) is reached — witness
                                     `msMix`, `textMix`, evaluated by the kernel.  (No shipped map has such an id.)
  * `ctxDoc_tree_exits_unreachable`  the corrected statement, proved for EVERY text: `popMismatch`, `popPastRoot`,
                                     `pushOnNone`, `appendOnNone`, `pushAssert` are unreachable when
                                       (1) every loaded map passes `mapGoodB` (`MapsGood`): `trList` (one conjunct of `WFMap`),
                                           `ShapeUnamb` (a small part of `Unambiguous`), `CtxMapOK`, the three
                                           pinned nodes ISA / GS / BHT are first children of loops with the expected paths,
                                           every BHT node sits at the head of …/HEADER;
                                       (2) the requested id is `none`, or (`LidPer`) in each loaded map either names
                                           segment-anchored loops only and occurs at most once on a path (`LidOK`) or names no
                                           segment-anchored loop (`NoAnchor`: a wrapper such as DETAIL, an id the map does not
                                           have) — uniformly so when it is ISA_LOOP, GS_LOOP, ST_LOOP or HEADER.
                                     No hypothesis on the text: segments may be unknown, out of order, repeated beyond their
                                     max use; ISA and GS may occur anywhere; maps may change at GS and at the 278 BHT.
  * `ctxDoc_total_full_lid`          with the two hypotheses of `ctxDoc_total_sharp` in addition: the ONLY reachable exit of
                                     the tree part is `plainNodeAsLoop` (the listed finding
                                     `crash:AttributeError:x12context.py:_add_segment`)
  * `ctxDoc_total_full_sites`        … so an exception leaves the generator only at `nodeNone` (a map without an envelope
                                     node) or at `plainNodeAsLoop`
  * `ctxDoc_total_full_goodPart`     the same for any `Maps` cut down to the maps that pass the checks (`goodPart`): for the
                                     shipped maps, documents that select one of the maps that fail are outside the theorem,
                                     all others inside

Driver evaluation on the 31 loaded maps (ops XGOOD / XLID of Drv/CtxDocFull.lean): `mapGoodB` holds for 27 — all but
277.5010.X212, 830.4010.PS, 841.4010.XXXC (`trList` fails: a loop that starts with a loop has segment children — the recorded
map-shape findings; 830 also has no /ISA_LOOP/GS_LOOP/GS at the head of GS_LOOP) and 837Q3.I.5010.X223.A1.v2 (a map without
envelope loops: its BHT does not sit under ISA_LOOP/GS_LOOP/ST_LOOP/HEADER).  `ShapeUnamb` and `CtxMapOK` hold for all 31 (whereas
`Unambiguous` fails for 8, among them the four 837 maps).  Over those 27 maps `lidGoodB` holds for EVERY loop id that occurs
in any map (112 ids) and for ids that occur nowhere; over all 31 it fails for GS_LOOP, ST_LOOP and HEADER only.
-/
import Pyx12Verif.Proofs.CtxFullRun
import Pyx12Verif.Props.CtxDoc
import Pyx12Verif.Props.CtxDocExample3
import Pyx12Verif.Props.CtxDocExample2

namespace Pyx12Verif.Doc
open Pyx12Verif

/-! ### the theorems -/

/-- **The five tree exits are unreachable — for every text.** -/
theorem ctxDoc_tree_exits_unreachable (ms : Maps) (lid : Option Ctx.LoopId) (text : List Char) (hmg : MapsGood ms)
    (hlid : LidPer ms lid) (c : Ctx.Crash) (h : (ctxDoc ms lid text).stop = .crash (.reader c)) :
    c = Ctx.Crash.plainNodeAsLoop ∨ c = Ctx.Crash.noCurrentNode := by
  have key : (ctxDoc ms lid text).stop.Safe := by
    unfold ctxDoc
    cases hp : Tokenizer.parseHeader (text.take Tokenizer.ISA_LEN) with
    | error e =>
      rw [Pipeline.readAll_of_text text [] (by intro k hk; cases hk)]
      unfold Tokenizer.rawSpec
      rw [hp]
      trivial
    | ok hd =>
      obtain ⟨hr, hcr, hne⟩ := ctx_read_facts text hd hp
      rw [hr]
      simp only [ctxRead]
      cases hm : findMap ms (controlFile hd) with
      | none => trivial
      | some control =>
        have hctl := findMap_mem hm
        exact cFinish_safe lid _ hcr _ (cRunSegs_safe hmg hctl _ lid hlid _ hne)
  rw [h] at key
  exact key

/-- **`ctxDoc_total_full`, corrected.**  Under `MapsGood`, an admissible requested id, a sane header and `isaPinOK` of the
    control maps, the only exit of the tree part that any text can reach is `plainNodeAsLoop` -/
theorem ctxDoc_total_full_lid (ms : Maps) (lid : Option Ctx.LoopId) (text : List Char) (c : Ctx.Crash)
    (hmg : MapsGood ms) (hlid : LidPer ms lid)
    (hsane : ∀ hd, Tokenizer.parseHeader (text.take Tokenizer.ISA_LEN) = .ok hd → SaneHeader hd)
    (hctl : ∀ f control, (f = ctl401 ∨ f = ctl501) → findMap ms f = some control → isaPinOK ms control = true)
    (h : (ctxDoc ms lid text).stop = .crash (.reader c)) : c = Ctx.Crash.plainNodeAsLoop := by
  rcases ctxDoc_tree_exits_unreachable ms lid text hmg hlid c h with h1 | h1
  · exact h1
  · rcases ctxDoc_total_sharp ms lid text hsane hctl _ h with h2 | ⟨c', h2, h3⟩
    · cases h2
    · simp only [CSite.reader.injEq] at h2
      rw [← h2] at h3
      exact absurd h1 h3

/-- every exception that can leave `iter_segments(loop_id)`: a map without an envelope node, or the listed finding -/
theorem ctxDoc_total_full_sites (ms : Maps) (lid : Option Ctx.LoopId) (text : List Char)
    (hmg : MapsGood ms) (hlid : LidPer ms lid)
    (hsane : ∀ hd, Tokenizer.parseHeader (text.take Tokenizer.ISA_LEN) = .ok hd → SaneHeader hd)
    (hctl : ∀ f control, (f = ctl401 ∨ f = ctl501) → findMap ms f = some control → isaPinOK ms control = true)
    (site : CSite) (h : (ctxDoc ms lid text).stop = .crash site) :
    site = .nodeNone ∨ site = .reader Ctx.Crash.plainNodeAsLoop := by
  rcases ctxDoc_total_sharp ms lid text hsane hctl site h with h1 | ⟨c, h1, _⟩
  · exact Or.inl h1
  · subst h1
    exact Or.inr (by rw [ctxDoc_total_full_lid ms lid text c hmg hlid hsane hctl h])

/-- with a segment-anchored id (or none) … stated with the Boolean checks, as the driver evaluates them -/
theorem ctxDoc_total_full_bool (ms : Maps) (lid : Option Ctx.LoopId) (text : List Char) (c : Ctx.Crash)
    (hmg : mapsGoodB ms = true) (hlid : lidGoodB ms lid = true)
    (hsane : ∀ hd, Tokenizer.parseHeader (text.take Tokenizer.ISA_LEN) = .ok hd → SaneHeader hd)
    (hctl : ∀ f control, (f = ctl401 ∨ f = ctl501) → findMap ms f = some control → isaPinOK ms control = true)
    (h : (ctxDoc ms lid text).stop = .crash (.reader c)) : c = Ctx.Crash.plainNodeAsLoop :=
  ctxDoc_total_full_lid ms lid text c (mapsGood_of_bool hmg) (lid_of_bool hlid) hsane hctl h

/-- any set of maps, cut down to those that pass the checks: no map hypothesis is left -/
theorem ctxDoc_total_full_goodPart (ms : Maps) (lid : Option Ctx.LoopId) (text : List Char) (c : Ctx.Crash)
    (hlid : lidGoodB (goodPart ms) lid = true)
    (hsane : ∀ hd, Tokenizer.parseHeader (text.take Tokenizer.ISA_LEN) = .ok hd → SaneHeader hd)
    (hctl : ∀ f control, (f = ctl401 ∨ f = ctl501) → findMap (goodPart ms) f = some control →
      isaPinOK (goodPart ms) control = true)
    (h : (ctxDoc (goodPart ms) lid text).stop = .crash (.reader c)) : c = Ctx.Crash.plainNodeAsLoop :=
  ctxDoc_total_full_lid (goodPart ms) lid text c (mapsGood_goodPart ms) (lid_of_bool hlid) hsane hctl h

/-- the map hypotheses of the earlier statement imply the map part of `mapGoodB` (`WFMap` ⇒ `trList`, `Unambiguous` ⇒
    `ShapeUnamb`); what `ctxDoc_total_full` lacks is the pins of GS / BHT and — essentially — a hypothesis on the requested id -/
theorem mapGood_of_unambiguous (ms : Maps) (m : MapX) (h1 : WalkerGen.WFMap m.root = true)
    (h2 : WalkerGen.Unambiguous ms.consts m.root = true) (h3 : CtxWalk.CtxMapOK m.root = true)
    (h4 : pinOK ms m (isaPath ms) (isaLoopPath ms) = true) (h5 : pinOK ms m (gsPath ms) (gsLoopPath ms) = true)
    (h6 : pinOK ms m (bhtPath ms) (bhtLoopPath ms) = true) (h7 : bhtNodesOK ms m = true) : mapGoodB ms m = true := by
  simp only [mapGoodB, Bool.and_eq_true]
  exact ⟨⟨⟨⟨⟨⟨CtxWalk.trList_of_wfmap h1, CtxWalk.shapeUnamb_of_unambiguous h2⟩, h3⟩, h4⟩, h5⟩, h6⟩, h7⟩

/-! ### the earlier statement is false: the requested id must be constrained -/

namespace Ex
open MapSkel WalkerGen

/-- ST_LOOP [ST, L20 [REF], W40 (wrapper) [L20' (wrapper, the SAME id 20) [L30 [N1]]], SE]: id 20 names a segment-anchored loop
    and, elsewhere, a wrapper -/
def rootMix : List Node :=
  [.loop 10 1 0 1 false
    [.seg 11 0 10 0 1 [] [el 1],
     .loop 12 20 0 0 false
       [.seg 13 0 10 0 1 [] [el 1],
        .loop 14 20 0 0 false
          [.seg 15 0 10 0 1 [] [el 1],
           .loop 20 20 1 0 false [.seg 18 0 10 0 1 [] [el 1]],
           .loop 40 30 1 0 true [.loop 20 10 1 0 true [.loop 30 10 1 0 false [.seg 27 0 10 0 1 [] [el 1]]]],
           .seg 24 0 40 0 1 [] [el 1]],
        .seg 25 0 30 0 1 [] [el 1]],
     .seg 26 0 30 0 1 [] [el 1]]]

def internMix : List (Str × Nat) :=
  [("ISA".toList, 11), ("GS".toList, 13), ("ST".toList, 15), ("REF".toList, 18), ("SE".toList, 24),
   ("GE".toList, 25), ("IEA".toList, 26), ("N1".toList, 27)]

def mapMix : MapX := { (mapX "m.xml") with root := rootMix, defs := [], intern := internMix }

def msMix : Maps := { ms with maps := [mapX "x12.control.00401.xml", mapMix] }

/-- ISA GS ST REF N1 SE GE IEA -/
def textMix : List Char :=
  (isaText ++ "GS*HC*S*R*20200101*1200*1*X*004010X1~ST*837*0001~REF*AB*1~N1*X~SE*4*0001~GE*1*1~IEA*1*000000001~").toList

/-- loop 20 requested: the tree is started at REF (anchored 20); N1 lies in W40/20'/L30 — `20 in loop_list`, not a start;
    `_add_segment` pops the tree root and then has nothing to push onto: `EngineError('cur_loop_node is None')` -/
theorem mix_pushOnNone : (ctxDoc msMix (some 20) textMix).stop = .crash (.reader Ctx.Crash.pushOnNone) := by decide +kernel

/-- both maps satisfy everything `ctxDoc_total_full` asks for — and even `mapGoodB`; only the requested id is bad -/
theorem mix_maps : ∀ m ∈ msMix.maps, WFMap m.root = true ∧ Unambiguous msMix.consts m.root = true ∧
    CtxWalk.CtxMapOK m.root = true := by
  have h : msMix.maps.all (fun m => WFMap m.root && Unambiguous msMix.consts m.root && CtxWalk.CtxMapOK m.root) = true := by
    decide +kernel
  intro m hm
  have := List.all_eq_true.1 h m hm
  simp only [Bool.and_eq_true] at this
  exact ⟨this.1.1, this.1.2, this.2⟩

example : mapsGoodB msMix = true ∧ lidGoodB msMix (some 20) = false ∧ lidGoodB msMix (some 30) = true ∧
    lidGoodB msMix (some 40) = true := by decide +kernel

theorem mix_pin : ∀ f control, (f = ctl401 ∨ f = ctl501) → findMap msMix f = some control → isaPinOK msMix control = true := by
  intro f control hf hm
  rcases hf with rfl | rfl
  · have : findMap msMix ctl401 = some (mapX "x12.control.00401.xml") := rfl
    rw [this] at hm
    rw [← Option.some.inj hm]
    decide +kernel
  · have : findMap msMix ctl501 = none := rfl
    rw [this] at hm
    cases hm

theorem mix_sane : ∀ hd, Tokenizer.parseHeader (textMix.take Tokenizer.ISA_LEN) = .ok hd → SaneHeader hd := by
  intro hd hp
  have : Tokenizer.parseHeader (textMix.take Tokenizer.ISA_LEN) = .ok hdr := by decide +kernel
  rw [this] at hp
  rw [← Tokenizer.HeaderRes.ok.inj hp]
  exact ⟨by decide, by decide⟩

end Ex

/-- **`ctxDoc_total_full` (Props/CtxDoc.lean) does not hold**: maps satisfying `WFMap`, `Unambiguous`, `CtxMapOK`, a sane
    header, `isaPinOK` — and `pushOnNone` is reached, because the requested id names both a segment-anchored loop and a
    wrapper.  The hypothesis missing there is `LidPer` (`lidGoodB`). -/
theorem ctxDoc_total_full_false : ¬ ctxDoc_total_full := by
  intro h
  have := h Ex.msMix (some 20) Ex.textMix Ctx.Crash.pushOnNone Ex.mix_maps Ex.mix_sane Ex.mix_pin Ex.mix_pushOnNone
  cases this

end Pyx12Verif.Doc
