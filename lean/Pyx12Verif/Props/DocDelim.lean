/-
(2) C12 at pipeline level: everything after the reader is a function of the segments it yields.

`validateRead_congr`                   `Doc.validateRead` (the whole pipeline after `X12Reader`) depends on the header only
                                       through the ISA version (control map choice) and the COMPONENT separator (the glue
                                       prints composite values with it); the terminator, the element separator and the line
                                       layout are not consulted.  Holds for every read result whose ISA segments carry
                                       single-valued elements — which the reader guarantees (C01 `readLines_clean`).
`doc_delimiter_independent_partial`    two texts that the reader turns into the same segments with the same line-level
                                       reports (C12 `reencode_invariant` / `read_encoded` for the segments), written with the
                                       same ISA version and the same component separator, get the same `DocResult`:
                                       outcome, matched nodes, errors, event list, error tree, acknowledgement choice.
`doc_delimiter_independent_full`       the statement for two arbitrary admissible triples; kept as a `Prop` with the two gaps named.
-/
import Pyx12Verif.Model.Document
import Pyx12Verif.Props.C12
import Pyx12Verif.Props.C07

namespace Pyx12Verif.Doc
open Pyx12Verif

/-- every element of an ISA segment is a single value (`Segment.__init__` never splits them) -/
def IsaSingle (s : Seg) : Prop := s.id = SegText.isaId → ∀ c ∈ s.elems, c.length = 1

theorem formatComp_single (x y : Char) (c : List Str) (h : c.length = 1) :
    SegText.formatComp x c = SegText.formatComp y c := by
  cases c with
  | nil => simp at h
  | cons v r =>
    cases r with
    | cons w r2 => simp at h
    | nil =>
      unfold SegText.formatComp
      simp only [List.reverse_singleton, List.length_singleton, SegText.scanDown]
      cases SegText.isEmptyVal v <;> rfl

/-- the two delimiter sets print every composite of this segment alike -/
def SepAgree (d₁ d₂ : Delims) (s : Seg) : Prop :=
  ∀ c ∈ s.elems, SegText.formatComp (Pipeline.sepOf d₁ s.id) c = SegText.formatComp (Pipeline.sepOf d₂ s.id) c

theorem sepAgree_of (d₁ d₂ : Delims) (hs : d₁.sub = d₂.sub) (s : Seg) (hI : IsaSingle s) : SepAgree d₁ d₂ s := by
  intro c hc
  by_cases hid : s.id = SegText.isaId
  · exact formatComp_single _ _ c (hI hid c hc)
  · simp only [Pipeline.sepOf, hid, if_false, hs]

theorem getValue_congr {d₁ d₂ : Delims} {s : Seg} (h : SepAgree d₁ d₂ s) (k : Nat) :
    Pipeline.getValue d₁ s k = Pipeline.getValue d₂ s k := by
  unfold Pipeline.getValue
  cases hk : s.elems[k]? with
  | none => rfl
  | some c =>
    simp only [Pipeline.compFormat]
    rw [h c (List.mem_of_getElem? hk)]

theorem viewOf_congr {d₁ d₂ : Delims} {s : Seg} (h : SepAgree d₁ d₂ s) : Pipeline.viewOf d₁ s = Pipeline.viewOf d₂ s := by
  have e : ∀ o, Pipeline.fetch d₁ s o = Pipeline.fetch d₂ s o := by
    intro o; cases o with
    | none => rfl
    | some k => simp only [Pipeline.fetch, getValue_congr h]
  simp only [Pipeline.viewOf, e]

theorem gv_congr {d₁ d₂ : Delims} {s : Seg} (h : SepAgree d₁ d₂ s) (k : Nat) : gv d₁ s k = gv d₂ s k := by
  simp only [gv, getValue_congr h]

theorem elemIn_congr (x y : Char) (data : List Str) (h : SegText.formatComp x data = SegText.formatComp y data) :
    elemIn x data = elemIn y data := by
  cases data with
  | nil => rfl
  | cons a r =>
    cases r with
    | nil => rfl
    | cons b r2 => simp only [elemIn, h]

theorem childrenEvents_congr (ctx : Ctx) (v5 : Bool) (x y : Char) (sid : Str) (v02 : Option Str) :
    ∀ (cs : List ChildX) (i : Nat) (dt tl : List Str) (es : List (List Str)),
      (∀ e ∈ es, SegText.formatComp x e = SegText.formatComp y e) →
      childrenEvents ctx v5 x sid v02 i dt tl cs es = childrenEvents ctx v5 y sid v02 i dt tl cs es := by
  intro cs
  induction cs with
  | nil => intro i dt tl es _; simp only [childrenEvents]
  | cons c cs ih =>
    intro i dt tl es h
    cases es with
    | nil => simp only [childrenEvents, ih _ _ _ [] (by simp)]
    | cons e es =>
      simp only [childrenEvents, ih _ _ _ es (fun z hz => h z (List.mem_cons_of_mem _ hz))]
      congr 1
      cases c with
      | elem xx => simp only [childPresent, elemAt, elemIn_congr x y e (h e (by simp))]
      | comp u seq nm rd de kids => rfl

theorem formatComps_congr (x y : Char) : ∀ (es : List (List Str)),
    (∀ e ∈ es, SegText.formatComp x e = SegText.formatComp y e) → SegText.formatComps x es = SegText.formatComps y es := by
  intro es
  induction es with
  | nil => intro _; rfl
  | cons e es ih =>
    intro h
    simp only [SegText.formatComps, h e (by simp), ih (fun z hz => h z (List.mem_cons_of_mem _ hz))]

theorem segEvents_congr {d₁ d₂ : Delims} {s : Seg} (h : SepAgree d₁ d₂ s) (ctx : Ctx) (v5 : Bool) (sd : SegDef) :
    segEvents ctx v5 d₁ sd s = segEvents ctx v5 d₂ sd s := by
  simp only [segEvents, tooManyEvents, getValue_congr h, gv_congr h,
    childrenEvents_congr ctx v5 _ _ s.id _ sd.children 0 [] [] s.elems h, formatComps_congr _ _ s.elems h]

theorem segData_congr {d₁ d₂ : Delims} {s : Seg} (h : SepAgree d₁ d₂ s) (ms : Maps) (m : MapX) :
    segData ms m d₁ s = segData ms m d₂ s := by
  simp only [segData, gv_congr h]

/-- one round of the loop does not depend on how the segment was delimited -/
theorem stepSeg_congr {d₁ d₂ : Delims} {s : Seg} (h : SepAgree d₁ d₂ s) (ms : Maps) (ctx : Ctx) (control : MapX)
    (le : List SegText.RErr) (st : LState) :
    stepSeg ms ctx control d₁ le s st = stepSeg ms ctx control d₂ le s st := by
  have e1 := viewOf_congr h
  have e2 := gv_congr h
  have e3 := segEvents_congr h ctx
  have e4 := segData_congr h ms
  have hv : ∀ (me : List Event) (pp : List RdErr) (b : Branch), validate ctx d₁ s me pp b = validate ctx d₂ s me pp b := by
    intro me pp b
    cases b with
    | stop o => rfl
    | go st n evs => simp only [validate, e3]
  have hb : ∀ (st : LState) (n : NodeRef), branch ms d₁ s st n = branch ms d₂ s st n := by
    intro st n
    have hg : gsTail ms d₁ s = gsTail ms d₂ s := by
      funext st m
      simp only [gsTail, gsData, e2]
    simp only [branch, gsBranch, hg, bhtBranch, isaData, gsData, stData, e2]
  have hf : ∀ (st : LState) (f : Found), afterFind ms ctx d₁ s st f = afterFind ms ctx d₂ s st f := by
    intro st f
    cases f with
    | crash site => rfl
    | res n cnt evs =>
      cases n with
      | none => rfl
      | some x => simp only [afterFind, hv, hb]
  have hn : ∀ (k : Nat) (st : LState), findNode ms control d₁ s k st = findNode ms control d₂ s k st := by
    intro k st
    simp only [findNode, walkFound, e4]
  have hs : ∀ (st : LState), afterStep ms ctx control d₁ s st = afterStep ms ctx control d₂ s st := by
    intro st
    simp only [afterStep, hf, hn]
  have hr : ∀ (st : LState) (pend : List RdErr) (o : Envelope.Outcome (Envelope.RState × List Envelope.Err)),
      afterReader ms ctx control d₁ s st pend o = afterReader ms ctx control d₂ s st pend o := by
    intro st pend o
    cases o with
    | crash e => rfl
    | raised => rfl
    | ok r => simp only [afterReader, hs]
  simp only [stepSeg, e1]
  cases Pipeline.viewOf d₂ s with
  | none => rfl
  | some v => simp only [withView, hr]

theorem runSegs_congr (d₁ d₂ : Delims) (ms : Maps) (ctx : Ctx) (control : MapX) :
    ∀ (ps : List (List SegText.RErr × Seg)) (a : Acc), (∀ p ∈ ps, SepAgree d₁ d₂ p.2) →
      runSegs ms ctx control d₁ a ps = runSegs ms ctx control d₂ a ps := by
  intro ps
  induction ps with
  | nil => intro a _; rfl
  | cons p ps ih =>
    intro a h
    simp only [runSegs, stepSeg_congr (h p (by simp)) ms ctx control]
    cases stepSeg ms ctx control d₂ p.1 p.2 a.st with
    | stop o => rfl
    | next st out =>
      simp only
      cases ErrTree.run a.est out.events with
      | crash site => rfl
      | ok est => exact ih _ (fun q hq => h q (List.mem_cons_of_mem _ hq))

/-- **Everything after the reader is a function of the segments, the ISA version and the component separator.** -/
theorem validateRead_congr (ms : Maps) (ctx : Ctx) (h₁ h₂ : Tokenizer.Header) (rr : SegText.ReadResult)
    (hicvn : h₁.icvn = h₂.icvn) (hsub : h₁.sub = h₂.sub) (hI : ∀ p ∈ rr.segs, IsaSingle p.2) :
    validateRead ms ctx h₁ rr = validateRead ms ctx h₂ rr := by
  have hc : controlFile h₁ = controlFile h₂ := by simp only [controlFile, hicvn]
  simp only [validateRead, hc]
  cases findMap ms (controlFile h₂) with
  | none => rfl
  | some control =>
    simp only
    rw [runSegs_congr (SegText.delimsOf h₁) (SegText.delimsOf h₂) ms ctx control rr.segs _
      (fun p hp => sepAgree_of _ _ hsub p.2 (hI p hp))]

/-- what the reader yields always has single-valued ISA elements (C01) -/
theorem reader_isaSingle (d : Delims) (text : List Char) :
    ∀ p ∈ (SegText.readLines d [] (Tokenizer.spec d.term text)).segs, IsaSingle p.2 := by
  intro p hp hid c hc
  exact (((C01.readLines_clean d _ (C01.spec_lineOk d text) []).2 p hp).1.2.2 c hc).2.1 hid

/-- **(2), proved part.**  Two texts — any terminators, any element separators, any CR/LF layout — that the reader turns
    into the same segments with the same line-level reports, written with the same ISA version and component separator,
    get the same result in every respect. -/
theorem doc_delimiter_independent_partial (ms : Maps) (ctx : Ctx) (t₁ t₂ : List Char) (h₁ h₂ : Tokenizer.Header)
    (rr : SegText.ReadResult)
    (hr₁ : SegText.readAll { rest := t₁, sizes := [] } = .ok h₁ rr)
    (hr₂ : SegText.readAll { rest := t₂, sizes := [] } = .ok h₂ rr)
    (hicvn : h₁.icvn = h₂.icvn) (hsub : h₁.sub = h₂.sub) :
    validateDoc ms ctx t₁ = validateDoc ms ctx t₂ := by
  have hI : ∀ p ∈ rr.segs, IsaSingle p.2 := by
    have := hr₁
    rw [Pipeline.readAll_of_text t₁ [] (by intro k hk; cases hk)] at this
    unfold Tokenizer.rawSpec at this
    cases hp : Tokenizer.parseHeader (t₁.take Tokenizer.ISA_LEN) with
    | error e => rw [hp] at this; cases this
    | ok hd =>
      rw [hp] at this
      simp only at this
      injection this with e1 e2
      subst e1
      rw [← e2]
      have hterm : (SegText.delimsOf hd).term = hd.seg := rfl
      have := reader_isaSingle (SegText.delimsOf hd) t₁
      rw [hterm] at this
      exact this
  simp only [validateDoc, hr₁, hr₂]
  exact validateRead_congr ms ctx h₁ h₂ rr hicvn hsub hI

/-- the values a result reports, with the component separator `sub` replaced by `:` (what harness/c12.py `canon_value`
    does before it compares two runs) -/
def canonStr (sub : Char) (v : Str) : Str := v.map (fun c => if c = sub then ':' else c)

def canonEvent (sub : Char) : Event → Event
  | .segError c v => .segError c (v.map (canonStr sub))
  | .eleError c m v => .eleError c [] (v.map (canonStr sub))
  | e => e

/-- **(2), full statement (not proved).**  For two admissible delimiter triples (C12 `Admissible`: pairwise distinct
    characters that do not occur in the data) and any CR/LF layouts, the two encodings of one segment list — whose first
    segment is the ISA that declares the respective delimiters — get the same outcome and the same events up to the
    component separator inside reported composite values (message texts dropped).  Gaps to `…_partial`:
    (a) C12 `read_encoded` identifies the SEGMENTS of the two read results, not the line-level reports (a segment whose
        elements are all empty is printed with a trailing element separator in both encodings — the same report, not yet
        proved to be the same);
    (b) with different component separators the printed composite values differ by that character, which needs the
        renaming argument through `segEvents` (codes and positions do not depend on it; values and texts do);
    (c) ISA16 is itself data: the statement needs both component separators inside (or both outside) the declared
        character set, otherwise ISA16 draws an element error in one encoding only. -/
def doc_delimiter_independent_full : Prop :=
  ∀ (ms : Maps) (ctx : Ctx) (d₁ d₂ : Delims) (b₁ b₂ : List Char) (isa₁ isa₂ : Seg) (rest : List Seg) (t₁ t₂ : List Char),
    d₁.Distinct → d₂.Distinct → C01.AllBrk b₁ → C01.AllBrk b₂ →
    (∀ s ∈ isa₁ :: rest, SegText.Clean d₁ s) → (∀ s ∈ isa₂ :: rest, SegText.Clean d₂ s) →
    SegText.encode d₁ b₁ (isa₁ :: rest) = some t₁ → SegText.encode d₂ b₂ (isa₂ :: rest) = some t₂ →
    (∃ hd, Tokenizer.parseHeader (t₁.take Tokenizer.ISA_LEN) = .ok hd ∧ SegText.delimsOf hd = d₁) →
    (∃ hd, Tokenizer.parseHeader (t₂.take Tokenizer.ISA_LEN) = .ok hd ∧ SegText.delimsOf hd = d₂) →
    (validateDoc ms ctx t₁).outcome = (validateDoc ms ctx t₂).outcome ∧
      (validateDoc ms ctx t₁).events.map (canonEvent d₁.sub) = (validateDoc ms ctx t₂).events.map (canonEvent d₂.sub)

end Pyx12Verif.Doc
