/-
C05 at PIPELINE level (1): verdict and well-formedness — statements about `validateDoc ms ctx text` for an arbitrary text,
not about an abstract event list.

  doc_verdict_iff_no_report   when `x12n_document` returns a verdict `b`:  `b = true` ⇔ every error report handed to
                              `err_handler` in the whole run (isa / gs / st / seg / ele error) was SWALLOWED — a segment error
                              reported while the handler's current node is not a segment node of a set (`Swallowed`: no set
                              was ever opened, or the latest pointer-setting call was a loop call; finding D27 — the bare
                              `except` of `err_handler.seg_error`).  "⇒" holds for every set of maps; "⇐" needs the format
                              lists selected by data element 1250 to name a supported date/time format (`MapsTlOk`; C15:
                              otherwise `is_valid` answers False and reports nothing — true of every shipped map).
  doc_verdict_iff_no_report_full (def) / _counterexample
                              the unrestricted form "⇔ no report at all" is FALSE (kernel-evaluated witness in
                              Props/DocC05Example.lean: an unknown segment between GS and ST).
  doc_events_wellformed       for EVERY text: what reached the error handler is the concatenation of the rounds of a `Trace`
                              over a prefix of the yielded segments, followed by reader-level reports only; each round is
                              `walker reports ++ structural call among the popped reader errors ++ element calls`
                              (`RoundWf`, with the arguments of the structural call: `MidX`); a run that ends with a verdict
                              is a run the handler accepted (`ErrTree.run State.init events = .ok final` — the hypothesis
                              of the Props/C05.lean theorems), and its tree REFINES the ledger of the event list
                              (`DocC05.Sim`, the bridge used by Props/DocC05Ack.lean); every `ele_error` found an element
                              node prepared in its own round (`MapsFresh`).
-/
import Pyx12Verif.Proofs.DocC05Run
import Pyx12Verif.Proofs.DocC05Names

namespace Pyx12Verif.Doc
open Pyx12Verif DocC05

/-! ## 1. verdict ⇔ no (unswallowed) report -/

/-- the report is dropped by the bare `except` of `err_handler.seg_error`: it is a segment error, and at that moment either
    no set node exists at all or the current node is an envelope node (the latest pointer-setting call was not `add_seg`) -/
def Swallowed (pre : List Event) (e : Event) : Prop :=
  evSegError e = true ∧ (anchoredBy pre = false ∨ setSeen pre = false)

instance (pre : List Event) (e : Event) : Decidable (Swallowed pre e) := by unfold Swallowed; infer_instance

theorem rdOnly_final (rr : SegText.ReadResult) (st : LState) : RdOnly ((finalErrs rr st).map rdEvent) :=
  map_rdEvent_rdOnly _

/-- the handler accepted everything a run with a verdict handed to it -/
theorem doc_final_run (ms : Maps) (ctx : Ctx) (text : List Char) (b : Bool)
    (h : (validateDoc ms ctx text).outcome = .verdict b) :
    ErrTree.run ErrTree.State.init (validateDoc ms ctx text).events = .ok (validateDoc ms ctx text).final := by
  obtain ⟨hd, rr, control, a, est, _, _, hl, hrun, heq⟩ := validateDoc_verdict ms ctx text b h
  obtain ⟨ps1, ps2, outs, st, _, _, _, e4, e5⟩ := runSegs_trace ms ctx control (SegText.delimsOf hd) rr.segs (initAcc ms control)
  obtain ⟨_, _, f3⟩ := e5 a hl
  rw [hl] at e4
  simp only [LoopEnd.acc, initAcc, List.nil_append] at e4 f3
  rw [heq]
  simp only
  rw [e4, run_append, f3]
  exact hrun

theorem mem_split {α : Type} {l : List α} {x : α} (h : x ∈ l) : ∃ pre post, l = pre ++ x :: post :=
  List.append_of_mem h

theorem isError_of_ele {e : Event} (h : evEleError e = true) : ErrTree.Event.isError e = true := by
  cases e <;> simp_all [evEleError, ErrTree.Event.isError]

/-- "⇒", for every set of maps: a true verdict means every report was swallowed -/
theorem doc_verdict_true_swallowed (ms : Maps) (ctx : Ctx) (text : List Char)
    (h : (validateDoc ms ctx text).outcome = .verdict true) :
    ∀ pre e post, (validateDoc ms ctx text).events = pre ++ e :: post → ErrTree.Event.isError e = true →
      Swallowed pre e := by
  have hrun := doc_final_run ms ctx text true h
  obtain ⟨hd, rr, control, a, est, _, _, hl, _, heq⟩ := validateDoc_verdict ms ctx text true h
  obtain ⟨ps1, ps2, outs, st, _, e2, _, e4, e5⟩ := runSegs_trace ms ctx control (SegText.delimsOf hd) rr.segs (initAcc ms control)
  obtain ⟨_, f2, _⟩ := e5 a hl
  rw [hl] at e4
  simp only [LoopEnd.acc, initAcc, List.nil_append] at e4 e2
  rw [heq] at h hrun ⊢
  simp only [Outcome.verdict.injEq] at h
  simp only at hrun ⊢
  have hv : a.st.valid = true ∧ ErrTree.errorCount est.tree = 0 := by
    simp only [ErrTree.verdict, Bool.and_eq_true, beq_iff_eq] at h
    exact h
  have hne : NoEle (a.events ++ (finalErrs rr a.st).map rdEvent) := by
    rw [e4]
    exact (e2.noEle (f2 ▸ hv.1)).2.append (rdOnly_noEle (rdOnly_final rr a.st))
  exact (tree_count_iff _ est hrun hne).1 hv.2

/-- **verdict ⇔ every report swallowed** -/
theorem doc_verdict_iff_no_report (ms : Maps) (htl : MapsTlOk ms) (ctx : Ctx) (text : List Char) (b : Bool)
    (h : (validateDoc ms ctx text).outcome = .verdict b) :
    b = true ↔
      ∀ pre e post, (validateDoc ms ctx text).events = pre ++ e :: post → ErrTree.Event.isError e = true →
        Swallowed pre e := by
  constructor
  · intro hb
    subst hb
    exact doc_verdict_true_swallowed ms ctx text h
  · intro hsw
    have hrun := doc_final_run ms ctx text b h
    obtain ⟨hd, rr, control, a, est, _, hm, hl, _, heq⟩ := validateDoc_verdict ms ctx text b h
    obtain ⟨ps1, ps2, outs, st, _, e2, _, e4, e5⟩ :=
      runSegs_trace ms ctx control (SegText.delimsOf hd) rr.segs (initAcc ms control)
    obtain ⟨_, f2, _⟩ := e5 a hl
    rw [hl] at e4
    simp only [LoopEnd.acc, initAcc, List.nil_append] at e4 e2
    rw [heq] at h hrun hsw
    simp only [Outcome.verdict.injEq] at h
    simp only at hrun hsw
    have hne : NoEle (a.events ++ (finalErrs rr a.st).map rdEvent) := by
      intro e he
      cases hx : evEleError e with
      | false => rfl
      | true =>
        obtain ⟨pre, post, hsplit⟩ := mem_split he
        have := (hsw pre e post hsplit (isError_of_ele hx)).1
        cases e <;> simp_all [evEleError, evSegError]
    have hc : control ∈ ms.maps := findMap_mem hm
    have hvalid : a.st.valid = true := by
      rw [f2]
      refine e2.valid htl hc (initState_ok ms control hc) rfl ?_
      rw [← e4]
      exact hne.left
    have hcount := (tree_count_iff _ est hrun hne).2 hsw
    rw [← h]
    simp [ErrTree.verdict, hvalid, hcount]

/-- the unrestricted form: true verdict ⇔ no report at all -/
def doc_verdict_iff_no_report_full : Prop :=
  ∀ (ms : Maps) (ctx : Ctx) (text : List Char) (b : Bool), MapsTlOk ms → (validateDoc ms ctx text).outcome = .verdict b →
    (b = true ↔ ∀ e ∈ (validateDoc ms ctx text).events, ErrTree.Event.isError e = false)

/-- what holds of it: no report ⇒ true verdict (every text); a true verdict leaves room for swallowed reports only -/
theorem doc_verdict_iff_no_report_partial (ms : Maps) (htl : MapsTlOk ms) (ctx : Ctx) (text : List Char) (b : Bool)
    (h : (validateDoc ms ctx text).outcome = .verdict b)
    (hq : ∀ e ∈ (validateDoc ms ctx text).events, ErrTree.Event.isError e = false) : b = true := by
  apply (doc_verdict_iff_no_report ms htl ctx text b h).2
  intro pre e post hsplit herr
  have := hq e (by rw [hsplit]; simp)
  rw [this] at herr; cases herr

/-! ## 2. the events of every run are well formed -/

/-- one round: walker reports, then (if a node was found) the structural call of the segment kind among the popped reader
    errors and what `node.is_valid` hands over -/
def RoundWf (d : Delims) (s : Seg) (o : SegOut) : Prop :=
  o.sid = s.id ∧
    ∃ w mid tl, o.events = w ++ mid ++ tl ∧ WalkOnly w ∧ EleOnly tl ∧
      ((o.matched = false ∧ mid = [] ∧ tl = []) ∨
       (o.matched = true ∧ ∃ rs pops, RdOnly pops ∧ MidX d s rs pops mid))

/-- two lists of the same length, related entry by entry -/
inductive Aligned {α β : Type} (R : α → β → Prop) : List α → List β → Prop
  | nil : Aligned R [] []
  | cons {a : α} {b : β} {as : List α} {bs : List β} : R a b → Aligned R as bs → Aligned R (a :: as) (b :: bs)

theorem Trace.rounds {ms : Maps} {ctx : Ctx} {control : MapX} {d : Delims} {st st' : LState}
    {ps : List (List SegText.RErr × Seg)} {outs : List SegOut} (h : Trace ms ctx control d st ps outs st') :
    Aligned (fun p o => RoundWf d p.2 o) ps outs := by
  induction h with
  | nil st => exact .nil
  | cons st st1 st2 p ps o outs hs _ ih =>
    refine .cons ?_ ih
    obtain ⟨v, rs', es, _, _, _, hsid, _, hcase⟩ := stepSeg_full ms ctx control d p.1 p.2 st st1 o hs
    refine ⟨hsid, ?_⟩
    rcases hcase with ⟨hm, hw, _, _⟩ | ⟨hm, w, mid, tl, vv, n, sd, hev, hw, hmid, _, hse, _, _, _⟩
    · exact ⟨o.events, [], [], by simp, hw, EleOnly.nil, Or.inl ⟨hm, rfl, rfl⟩⟩
    · have he := segEvents_eleOnly ctx n.map.v5010 d sd p.2
      rw [hse] at he
      exact ⟨w, mid, tl, hev, hw, he, Or.inr ⟨hm, rs', _, map_rdEvent_rdOnly _, hmid⟩⟩

/-- what every run of the pipeline hands to the error handler -/
structure DocEvWf (ms : Maps) (ctx : Ctx) (text : List Char) : Prop where
  /-- the rounds are a trace of the loop over a prefix of the yielded segments; after them only reader-level reports -/
  trace : ∀ hd rr control, SegText.readAll { rest := text, sizes := [] } = .ok hd rr →
    findMap ms (controlFile hd) = some control →
    ∃ ps1 ps2 st fin, rr.segs = ps1 ++ ps2 ∧
      Trace ms ctx control (SegText.delimsOf hd) (initState ms control) ps1 (validateDoc ms ctx text).segs st ∧
      Aligned (fun p o => RoundWf (SegText.delimsOf hd) p.2 o) ps1 (validateDoc ms ctx text).segs ∧
      (validateDoc ms ctx text).events = evsOf (validateDoc ms ctx text).segs ++ fin ∧ RdOnly fin
  /-- a run with a verdict: the handler accepted every call (hypothesis of the Props/C05.lean theorems), its pointers are
      the last nodes in document order, and the tree refines the ledger of the event list -/
  run : ∀ b, (validateDoc ms ctx text).outcome = .verdict b →
    ErrTree.run ErrTree.State.init (validateDoc ms ctx text).events = .ok (validateDoc ms ctx text).final ∧
      PInv (validateDoc ms ctx text).final ∧ Sim (validateDoc ms ctx text).final (ledger (validateDoc ms ctx text).events)
  /-- every `ele_error` comes after an `add_ele` of its own round -/
  fresh : MapsFresh ms → (ledger (validateDoc ms ctx text).events).ok = true

theorem finish_parts (rr : SegText.ReadResult) (e : LoopEnd) :
    (finish rr e).segs = e.acc.outs ∧ ∃ fin, (finish rr e).events = e.acc.events ++ fin ∧ RdOnly fin := by
  cases e with
  | stopped o a => exact ⟨rfl, [], by simp [finish, LoopEnd.acc], fun _ h => by cases h⟩
  | done a =>
    simp only [finish, LoopEnd.acc]
    split
    · exact ⟨rfl, [], by simp, fun _ h => by cases h⟩
    · cases ErrTree.run a.est (List.map rdEvent (finalErrs rr a.st)) with
      | crash site => exact ⟨rfl, _, rfl, rdOnly_final rr a.st⟩
      | ok est => exact ⟨rfl, _, rfl, rdOnly_final rr a.st⟩

/-- **the events of EVERY run are well formed** -/
theorem doc_events_wellformed (ms : Maps) (ctx : Ctx) (text : List Char) : DocEvWf ms ctx text := by
  -- the trace part, once
  have htrace : ∀ hd rr control, SegText.readAll { rest := text, sizes := [] } = .ok hd rr →
      findMap ms (controlFile hd) = some control →
      ∃ ps1 ps2 st fin, rr.segs = ps1 ++ ps2 ∧
        Trace ms ctx control (SegText.delimsOf hd) (initState ms control) ps1 (validateDoc ms ctx text).segs st ∧
        (validateDoc ms ctx text).events = evsOf (validateDoc ms ctx text).segs ++ fin ∧ RdOnly fin := by
    intro hd rr control hr hm
    obtain ⟨ps1, ps2, outs, st, e1, e2, e3, e4, _⟩ :=
      runSegs_trace ms ctx control (SegText.delimsOf hd) rr.segs (initAcc ms control)
    have hv : validateDoc ms ctx text =
        finish rr (runSegs ms ctx control (SegText.delimsOf hd) (initAcc ms control) rr.segs) := by
      unfold validateDoc
      rw [hr]
      simp only [validateRead, hm]
    obtain ⟨g1, fin, g2, g3⟩ := finish_parts rr (runSegs ms ctx control (SegText.delimsOf hd) (initAcc ms control) rr.segs)
    have e3' : (runSegs ms ctx control (SegText.delimsOf hd) (initAcc ms control) rr.segs).acc.outs = outs := e3
    have e4' : (runSegs ms ctx control (SegText.delimsOf hd) (initAcc ms control) rr.segs).acc.events = evsOf outs := e4
    refine ⟨ps1, ps2, st, fin, e1, ?_, ?_, g3⟩
    · rw [hv, g1, e3']; exact e2
    · rw [hv, g2, g1, e3', e4']
  refine ⟨?_, ?_, ?_⟩
  · intro hd rr control hr hm
    obtain ⟨ps1, ps2, st, fin, e1, e2, e3, e4⟩ := htrace hd rr control hr hm
    exact ⟨ps1, ps2, st, fin, e1, e2, e2.rounds, e3, e4⟩
  · intro b hb
    have hrun := doc_final_run ms ctx text b hb
    obtain ⟨hp, hs⟩ := run_init_sim _ _ hrun
    exact ⟨hrun, hp, hs⟩
  · intro hf
    rw [ledger_ok]
    unfold validateDoc
    cases hr : SegText.readAll { rest := text, sizes := [] } with
    | error e => rfl
    | ok hd rr =>
      simp only [validateRead]
      cases hm : findMap ms (controlFile hd) with
      | none => rfl
      | some control =>
        obtain ⟨ps1, ps2, st, fin, _, e2, e3, e4⟩ := htrace hd rr control hr hm
        have hv : validateDoc ms ctx text =
            finish rr (runSegs ms ctx control (SegText.delimsOf hd) (initAcc ms control) rr.segs) := by
          unfold validateDoc
          rw [hr]
          simp only [validateRead, hm]
        simp only
        rw [← hv, e3]
        have hc : control ∈ ms.maps := findMap_mem hm
        apply eleFresh_append_of
        · exact e2.fresh hf hc (initState_ok ms control hc) false
        · exact eleFresh_of_noEle _ _ (rdOnly_noEle e4)

end Pyx12Verif.Doc
