/-
C05 — verdict, reported errors and acknowledgement always agree.

About the models `ErrTree` (pyx12/error_handler.py) and `Ack` (pyx12/error_997.py, error_999.py; `cfg.legacy = false` =
the code after the proposed repairs).  Spec side: `∀ … ∈` predicates over the tree (`NoCountedError`, `St.CountedClean`, …),
independent recounts (`List.countP`, `List.length`), and `namesOf` / membership statements over the written lines.

Where the statement as worded is false for the code as it is, the full statement is kept as `def …_full : Prop` with a
kernel-checked counterexample next to the proved `…_partial`.
-/
import Pyx12Verif.Proofs.ErrTreeRun
import Pyx12Verif.Proofs.AckContent

namespace Pyx12Verif.C05
open Pyx12Verif.ErrTree Pyx12Verif.Ack

/-! ## verdict ⇔ no error -/

/-- tail of `x12n_document`: the verdict is true exactly when every segment validated and no error is *counted* -/
theorem verdict_iff_no_error (valid : Bool) (t : Tree) :
    verdict valid t = true ↔ valid = true ∧ NoCountedError t := by
  simp [verdict, errorCount_zero]

/-- full statement at tree level: the count is zero exactly when the tree holds no error at all -/
def errorCount_iff_noError_full : Prop := ∀ t : Tree, errorCount t = 0 ↔ NoError t

/-- what holds: a clean tree counts zero; a zero count leaves room only for element errors stored on ST/SE nodes -/
theorem errorCount_iff_noError_partial (t : Tree) :
    (NoError t → errorCount t = 0) ∧
    (errorCount t = 0 → (∀ a ∈ t, ∀ g ∈ a.children, ∀ s ∈ g.children, ∀ e ∈ s.elements, e.errors = []) → NoError t) := by
  constructor
  · intro h; exact (errorCount_zero t).mpr (NoError_of_clean t h)
  · intro h he a ha
    obtain ⟨h1, h2, h3⟩ := (errorCount_zero t).mp h a ha
    refine ⟨h1, h2, fun g hg => ?_⟩
    obtain ⟨g1, g2, g3⟩ := h3 g hg
    exact ⟨g1, g2, fun s hs => ⟨g3 s hs, he a ha g hg s hs⟩⟩

def isaD : IsaData :=
  { e05 := some ['Z', 'Z'], e06 := some ['S'], e07 := some ['Z', 'Z'], e08 := some ['R'], e09 := some ['2', '0', '0', '1', '0', '1'],
    e10 := some ['1', '2', '0', '0'], e11 := some ['U'], e12 := some ['0', '0', '4', '0', '1'], e13 := some ['1'],
    e14 := some ['0'], e15 := some ['P'] }
def gsD : GsData :=
  { e01 := some ['H', 'C'], e02 := some ['S'], e03 := some ['R'], e06 := some ['1'], e07 := some ['X'],
    e08 := some ['0', '0', '4', '0', '1', '0', 'X', '0', '9', '8', 'A', '1'], ctl := some ['1'] }
def stD : StData := { e01 := some ['8', '3', '7'], e03 := none, ctl := some ['1', '2'] }

def treeOf (evs : List Event) : Tree :=
  match run State.init evs with
  | .ok s => s.tree
  | .crash _ => []

/-- D22: `ST*837*12` — ST02 too short: the element error is stored on the set node and not counted -/
def d22Events : List Event :=
  [.addIsa isaD, .addGs gsD, .addSt stD, .addEle 2 none (some ['3', '2', '9']),
   .eleError ['4'] ['(', 'S', 'T', '0', '2', ')'] (some ['1', '2']), .closeSt]

theorem errorCount_iff_noError_counterexample : ¬ errorCount_iff_noError_full := by
  intro h
  have h1 : errorCount (treeOf d22Events) = 0 := by decide
  have h2 : ¬ NoError (treeOf d22Events) := by decide
  exact h2 ((h _).mp h1)

/-- full statement along a run: the count is zero exactly when no error was reported -/
def reported_iff_counted_full : Prop :=
  ∀ (evs : List Event) (s : State), run State.init evs = .ok s →
    (errorCount s.tree = 0 ↔ ∀ e ∈ evs, e.isError = false)

/-- the machine never invents an error: without an error report the count is zero and nothing was dropped -/
theorem reported_iff_counted_partial (evs : List Event) (s : State) (h : run State.init evs = .ok s)
    (he : ∀ e ∈ evs, e.isError = false) : errorCount s.tree = 0 ∧ s.lost = 0 := by
  have := run_clean evs State.init s he ⟨by simp [NoError, State.init], rfl⟩ h
  exact ⟨(errorCount_zero _).mpr (NoError_of_clean _ this.1), this.2⟩

/-- D27: a segment error reported while no set is open is dropped by the bare `except` -/
def d27Events : List Event := [.addIsa isaD, .addGs gsD, .segError ['1'] none]

theorem reported_iff_counted_counterexample : ¬ reported_iff_counted_full := by
  intro h
  have hr : run State.init d27Events = .ok { (match run State.init d27Events with | .ok s => s | .crash _ => State.init) with } := by
    decide
  have := (h d27Events _ hr).mp (by decide)
  have := this (.segError ['1'] none) (by simp [d27Events])
  simp [Event.isError] at this

/-! ## AK5 / IK5 -/

/-- `err_st.close`: the set is marked accepted exactly when nothing `err_count` looks at is present *at that moment* -/
theorem close_accept_iff (st : St) : st.close.ackCode = ['A'] ↔ st.CountedClean := by
  unfold St.close
  rw [← St.errCount_zero]
  by_cases h : st.errCount > 0
  · simp [h]; omega
  · simp [h]; omega

/-- `close_st_loop` rewrites exactly the current set -/
theorem closeSt_at (s : State) (p : Nat × Nat × Nat) (st : St) (hp : s.curSt = some p)
    (hst : getSt s.tree p.1 p.2.1 p.2.2 = some st) :
    ∃ s', step s .closeSt = .ok s' ∧ getSt s'.tree p.1 p.2.1 p.2.2 = some st.close := by
  simp only [step, closeStLoop, hp]
  exact ⟨_, rfl, by simp [getSt_modSt, hst]⟩

/-- the AK5 line of a set: first element = the code fixed by `close`; accepted ⇔ the set was clean when SE arrived -/
theorem ak5_accept_iff (st : St) (codes : List Str) :
    (ak5Seg997 st.close codes).id = sAK5 ∧
    ((ak5Seg997 st.close codes).getValue 0 = some ['A'] ↔ st.CountedClean) := by
  refine ⟨ak5Seg997_id _ _, ?_⟩
  rw [← close_accept_iff]
  unfold ak5Seg997
  rw [appendAll_getValue _ _ 0 (by simp [bare])]
  have hc : st.close.ackCode = ['A'] ∨ st.close.ackCode = ['R'] := by
    unfold St.close; by_cases h : st.errCount > 0 <;> simp [h]
  rcases hc with h | h <;> simp [h, PSeg.getValue, bare, splitOn, consHead, fmtComp, trimR, trimCons, joinWith]

/-- full statement: in the tree a run leaves behind, a set is marked accepted exactly when it holds no error -/
def ak5_accept_iff_full : Prop :=
  ∀ (evs : List Event) (s : State), run State.init evs = .ok s →
    ∀ a ∈ s.tree, ∀ g ∈ a.children, ∀ st ∈ g.children, st.closed = true → (st.ackCode = ['A'] ↔ st.Clean)

/-- D28: an unknown segment after SE is attached to the closed set: `AK5*A*5` -/
def d28Events : List Event :=
  [.addIsa isaD, .addGs gsD, .addSt stD, .closeSt, .addSeg ['Z', 'Z', 'Z'] 3 none, .segError ['1'] none]

theorem ak5_accept_iff_counterexample_envelope_element : ¬ ak5_accept_iff_full := by
  intro h
  have hr : run State.init d22Events = .ok (match run State.init d22Events with | .ok s => s | .crash _ => State.init) := by
    decide
  revert h
  unfold ak5_accept_iff_full
  intro h
  have := h d22Events _ hr
  revert this
  decide

theorem ak5_accept_iff_counterexample_after_close : ¬ ak5_accept_iff_full := by
  intro h
  have hr : run State.init d28Events = .ok (match run State.init d28Events with | .ok s => s | .crash _ => State.init) := by
    decide
  have := h d28Events _ hr
  revert this
  decide

/-! ## AK9 -/

/-- `err_gs._get_ack_code`: accepted ⇔ no error of the group's own list and no set with a counted error -/
theorem ak9_accept_iff (g : Gs) :
    g.getAckCode = ['A'] ↔ g.errors = [] ∧ ∀ s ∈ g.children, s.CountedClean := by
  unfold Gs.getAckCode
  rw [← anyStHasErrors_false]
  cases h : anyStHasErrors g.children
  · cases he : g.errors <;> simp
  · simp

/-- the code written in AK901 is the one fixed by `close` (or `R` when GE never came) -/
theorem ak901_eq (g : Gs) : (ak9Head g).head? = some (match g.ackCode with | some c => if c.isEmpty then ['R'] else c | none => ['R']) := by
  unfold ak9Head
  cases h : g.ackCode with
  | none => simp [truthy, c1]
  | some c => cases c <;> simp [truthy, c1, pyStr]

/-- a set counts as accepted when its AK501 is `A` or `E` -/
def accepted (s : St) : Bool := s.ackCode == ['A'] || s.ackCode == ['E']

theorem accepted_iff (s : St) : accepted s = true ↔ (s.ackCode = ['A'] ∨ s.ackCode = ['E']) := by
  simp [accepted]

theorem countFailed_add_accepted (l : List St) : countFailedSt l + l.countP accepted = l.length := by
  induction l with
  | nil => rfl
  | cons s r ih =>
    rw [List.countP_cons, List.length_cons]
    simp only [countFailedSt]
    by_cases h : s.ackCode = ['A'] ∨ s.ackCode = ['E']
    · have h2 := (accepted_iff s).mpr h
      rw [if_pos h, if_pos h2]; omega
    · have h2 : ¬ (accepted s = true) := fun e => h ((accepted_iff s).mp e)
      rw [if_neg h, if_neg h2]; omega

/-- AK902–AK904 = declared (GE01), received, accepted, where "accepted" is an independent count of the sets
acknowledged `A`/`E`, provided the reader's set counter agrees with the number of sets attached to the group -/
theorem ak9_totals_eq_recount (g : Gs) (hrecv : g.countRecv = g.children.length) :
    (ak9Head g).drop 1 =
      [intStr g.countOrig, natStr g.children.length, natStr (g.children.countP accepted)] := by
  have h1 := countFailed_add_accepted g.children
  have h2 : g.children.length - countFailedSt g.children = g.children.countP accepted := by omega
  simp [ak9Head, hrecv, h2]

/-- `close_gs_loop` stores GE01 and the reader's counter in the current group -/
theorem closeGs_at (s : State) (p : Nat × Nat) (g : Gs) (ge : GeCount) (recv : Nat) (hp : s.curGs = some p)
    (hg : getGs s.tree p.1 p.2 = some g) :
    ∃ s', step s (.closeGs ge recv) = .ok s' ∧ getGs s'.tree p.1 p.2 = some (g.closeWith ge.value recv) := by
  simp only [step, closeGsLoop, hp]
  exact ⟨_, rfl, by simp [getGs_modGs, hg]⟩

/-! ## addressed to the sender -/

def NoColon (o : Option Str) : Prop := ∀ v, o = some v → ':' ∉ v

theorem optAppend_some (s : Option PSeg) (v : Option Str) (x : PSeg) (h : optAppend s v = some x) :
    ∃ y w, s = some y ∧ v = some w ∧ x = y.append w := by
  cases s with
  | none => simp [optAppend] at h
  | some y =>
    cases v with
    | none => simp [optAppend] at h
    | some w => simp [optAppend] at h; exact ⟨y, w, rfl, rfl, h.symm⟩

theorem getValue_append_last (y : PSeg) (w : Str) (h : ':' ∉ w) : (y.append w).getValue y.elems.length = some w := by
  simp [PSeg.getValue, fmtComp_split_safe w h]

theorem getValue_append_lt (y : PSeg) (w : Str) (i : Nat) (h : i < y.elems.length) :
    (y.append w).getValue i = y.getValue i := by
  simp [PSeg.getValue, List.getElem?_append_left h]

theorem isaHead_elems : (mkSeg isaHead).elems.length = 4 ∧ (mkSeg isaHead).id = isaId := by decide

/-- the ISA written by the 997 visitor carries the source's ISA07/08 as sender and ISA05/06 as receiver -/
theorem isa997_swapped (a : Isa) (p : Params) (isa : PSeg) (h : isaSeg997 a p = some isa)
    (h5 : NoColon a.e05) (h6 : NoColon a.e06) (h7 : NoColon a.e07) (h8 : NoColon a.e08) :
    isa.id = isaId ∧ isa.getValue 4 = a.e07 ∧ isa.getValue 5 = a.e08 ∧ isa.getValue 6 = a.e05 ∧ isa.getValue 7 = a.e06 := by
  unfold isaSeg997 at h
  obtain ⟨y12, w12, k12, _, q12⟩ := optAppend_some _ _ _ h
  obtain ⟨y11, w11, k11, _, q11⟩ := optAppend_some _ _ _ k12
  obtain ⟨y10, w10, k10, _, q10⟩ := optAppend_some _ _ _ k11
  obtain ⟨y9, w9, k9, _, q9⟩ := optAppend_some _ _ _ k10
  obtain ⟨y8, w8, k8, _, q8⟩ := optAppend_some _ _ _ k9
  obtain ⟨y7, w7, k7, _, q7⟩ := optAppend_some _ _ _ k8
  obtain ⟨y6, w6, k6, _, q6⟩ := optAppend_some _ _ _ k7
  obtain ⟨y5, w5, k5, _, q5⟩ := optAppend_some _ _ _ k6
  obtain ⟨y4, w4, k4, e4, q4⟩ := optAppend_some _ _ _ k5
  obtain ⟨y3, w3, k3, e3, q3⟩ := optAppend_some _ _ _ k4
  obtain ⟨y2, w2, k2, e2, q2⟩ := optAppend_some _ _ _ k3
  obtain ⟨y1, w1, k1, e1, q1⟩ := optAppend_some _ _ _ k2
  simp only [Option.some.injEq] at k1
  subst q12 q11 q10 q9 q8 q7 q6 q5 q4 q3 q2 q1 k1
  have hl := isaHead_elems.1
  have c1' := h7 w1 e1
  have c2' := h8 w2 e2
  have c3' := h5 w3 e3
  have c4' := h6 w4 e4
  refine ⟨by simp [isaHead_elems.2], ?_, ?_, ?_, ?_⟩
  · rw [e1]; simp [PSeg.getValue, hl, fmtComp_split_safe w1 c1']
  · rw [e2]; simp [PSeg.getValue, hl, fmtComp_split_safe w2 c2']
  · rw [e3]; simp [PSeg.getValue, hl, fmtComp_split_safe w3 c3']
  · rw [e4]; simp [PSeg.getValue, hl, fmtComp_split_safe w4 c4']

/-- the GS written by the 997 visitor: `FA`, sender = source GS03, receiver = source GS02 (trailing blanks removed) -/
theorem gs997_swapped (cfg : Cfg) (a : Isa) (g : Gs) (p : Params) (gs : PSeg) (h : gsSeg997 cfg a g p = some gs)
    (h2 : NoColon (g.gs02.map rstrip)) (h3 : NoColon (g.gs03.map rstrip)) :
    gs.id = sGS ∧ gs.getValue 0 = some ['F', 'A'] ∧ gs.getValue 1 = g.gs03.map rstrip ∧ gs.getValue 2 = g.gs02.map rstrip := by
  unfold gsSeg997 at h
  obtain ⟨y8, w8, k8, _, q8⟩ := optAppend_some _ _ _ h
  obtain ⟨y7, w7, k7, _, q7⟩ := optAppend_some _ _ _ k8
  obtain ⟨y6, w6, k6, _, q6⟩ := optAppend_some _ _ _ k7
  obtain ⟨y5, w5, k5, _, q5⟩ := optAppend_some _ _ _ k6
  obtain ⟨y4, w4, k4, _, q4⟩ := optAppend_some _ _ _ k5
  obtain ⟨y3, w3, k3, e3, q3⟩ := optAppend_some _ _ _ k4
  obtain ⟨y2, w2, k2, e2, q2⟩ := optAppend_some _ _ _ k3
  obtain ⟨y1, w1, k1, e1, q1⟩ := optAppend_some _ _ _ k2
  simp only [Option.some.injEq] at k1 e1
  subst q8 q7 q6 q5 q4 q3 q2 q1 k1 e1
  have c2' := h3 w2 e2
  have c3' := h2 w3 e3
  refine ⟨by simp [bare], ?_, ?_, ?_⟩
  · simp [PSeg.getValue, bare, splitOn, consHead, fmtComp, trimR, trimCons, joinWith]
  · rw [e2]; simp [PSeg.getValue, bare, fmtComp_split_safe w2 c2']
  · rw [e3]; simp [PSeg.getValue, bare, fmtComp_split_safe w3 c3']

/-- the complete 997 starts with an ISA and a GS addressed back to the sender of the *current* (last) interchange
and group -/
theorem ack_addressed_to_sender (cfg : Cfg) (s : State) (p : Params) (h : (ack997 cfg s p).crash = none) :
    ∃ a g isa gs rest, curIsaNode s = some a ∧ curGsNode s = some g ∧ (ack997 cfg s p).out = isa :: gs :: rest ∧
      (NoColon a.e05 → NoColon a.e06 → NoColon a.e07 → NoColon a.e08 →
        isa.id = isaId ∧ isa.getValue 4 = a.e07 ∧ isa.getValue 5 = a.e08 ∧ isa.getValue 6 = a.e05 ∧ isa.getValue 7 = a.e06) ∧
      (NoColon (g.gs02.map rstrip) → NoColon (g.gs03.map rstrip) →
        gs.id = sGS ∧ gs.getValue 0 = some ['F', 'A'] ∧ gs.getValue 1 = g.gs03.map rstrip ∧ gs.getValue 2 = g.gs02.map rstrip) := by
  obtain ⟨a, g, isa, gs, ha, hg, hi, hgs, _, _, hout⟩ := ack997_ok cfg s p h
  refine ⟨a, g, isa, gs, blocks997 cfg 0 (allGs s.tree) ++ [geSeg997 (allGs s.tree).length gs] ++
      (ta1Lines (getIsaErrors997 a) a).segs ++ [ieaSeg997 p], ha, hg, ?_,
    fun h5 h6 h7 h8 => isa997_swapped a p isa hi h5 h6 h7 h8, fun h2 h3 => gs997_swapped cfg a g p gs hgs h2 h3⟩
  rw [hout]; simp

/-! ## names every group and set, in order -/

inductive Name where
  | gs (fic ctl : Option Str)
  | st (id ctl : Option Str)
deriving DecidableEq, Repr

/-- what an acknowledgement line says about *which* group / set it acknowledges -/
def nameOf (s : PSeg) : Option Name :=
  if s.id = sAK1 then some (.gs (s.getValue 0) (s.getValue 1))
  else if s.id = sAK2 then some (.st (s.getValue 0) (s.getValue 1))
  else none

def namesOf (l : List PSeg) : List Name := l.filterMap nameOf

def stNames : List St → List Name
  | [] => []
  | s :: r => .st s.trnSetId (s.ctlNum.map strip) :: stNames r

/-- the groups and sets of the tree in document order with their identifiers and control numbers -/
def gsNames : List Gs → List Name
  | [] => []
  | g :: r => .gs (some (pyStr g.fic)) (some (pyStr g.ctlNum)) :: (stNames g.children ++ gsNames r)

def StNamesSafe (s : St) : Prop := NoColon s.trnSetId ∧ NoColon (s.ctlNum.map strip)
def GsNamesSafe (g : Gs) : Prop := Safe (pyStr g.fic) ∧ Safe (pyStr g.ctlNum) ∧ ∀ s ∈ g.children, StNamesSafe s

theorem nameOf_other (x : PSeg) (h1 : x.id ≠ sAK1) (h2 : x.id ≠ sAK2) : nameOf x = none := by
  simp [nameOf, h1, h2]

theorem namesOf_append (a b : List PSeg) : namesOf (a ++ b) = namesOf a ++ namesOf b := by
  simp [namesOf]

theorem namesOf_none (l : List PSeg) (h : ∀ x ∈ l, x.id ≠ sAK1 ∧ x.id ≠ sAK2) : namesOf l = [] := by
  induction l with
  | nil => rfl
  | cons x r ih =>
    have := h x (by simp)
    simp only [namesOf, List.filterMap_cons, nameOf_other x this.1 this.2]
    exact ih (fun y hy => h y (by simp [hy]))

theorem ak1Seg997_eq (g : Gs) (h1 : Safe (pyStr g.fic)) (h2 : Safe (pyStr g.ctlNum)) :
    ak1Seg997 g = { id := sAK1, elems := [[pyStr g.fic], [pyStr g.ctlNum]] } := by
  unfold ak1Seg997
  rw [mkSeg_starJoin_safe _ (by simp)]
  · have : sAK1 ≠ isaId := by decide
    simp [mkSegOf, this, splitOn_no_sep ':' _ h1.2.1, splitOn_no_sep ':' _ h2.2.1]
  · intro p hp
    simp at hp
    rcases hp with rfl | rfl | rfl
    · decide
    · exact ⟨h1.1, h1.2.2⟩
    · exact ⟨h2.1, h2.2.2⟩

theorem nameOf_ak1 (g : Gs) (h1 : Safe (pyStr g.fic)) (h2 : Safe (pyStr g.ctlNum)) :
    nameOf (ak1Seg997 g) = some (.gs (some (pyStr g.fic)) (some (pyStr g.ctlNum))) := by
  rw [ak1Seg997_eq g h1 h2]
  simp [nameOf, PSeg.getValue, fmtComp_single]

theorem nameOf_ak2 (i c : Str) (hi : ':' ∉ i) (hc : ':' ∉ strip c) :
    nameOf (ak2Seg997 i c) = some (.st (some i) (some (strip c))) := by
  have : sAK2 ≠ sAK1 := by decide
  simp [nameOf, ak2Seg997, bare, this, PSeg.getValue, fmtComp_split_safe _ hi, fmtComp_split_safe _ hc]

theorem namesOf_stLines (cfg : Cfg) (s : St) (h : (stLines997 cfg s).crash = none) (hs : StNamesSafe s) :
    namesOf (stLines997 cfg s).segs = [.st s.trnSetId (s.ctlNum.map strip)] := by
  obtain ⟨i, c, codes, hi, hc, _, e⟩ := stLines997_ok cfg s h
  rw [e]
  have h1 := hs.1 i hi
  have h2 := hs.2 (strip c) (by simp [hc])
  simp only [namesOf, List.filterMap_cons, nameOf_ak2 i c h1 h2, hi, hc, Option.map_some]
  congr 1
  apply namesOf_none
  intro x hx
  simp only [List.mem_append, List.mem_singleton] at hx
  rcases hx with hx | rfl
  · rcases segsLines997_ids _ x hx with h | h <;> rw [h] <;> decide
  · rw [ak5Seg997_id]; decide

theorem namesOf_gsLines (cfg : Cfg) (l : List St) (h : (stsLines (stLines997 cfg) l).crash = none)
    (hs : ∀ s ∈ l, StNamesSafe s) : namesOf (stsLines (stLines997 cfg) l).segs = stNames l := by
  induction l with
  | nil => simp [stsLines, Lines.ok, namesOf, stNames]
  | cons s r ih =>
    obtain ⟨h1, h2, e⟩ := stsLines_cons_ok _ s r h
    rw [e, namesOf_append, namesOf_stLines cfg s h1 (hs s (by simp)), ih h2 (fun x hx => hs x (by simp [hx]))]
    rfl

theorem stSeg997_id (n : Nat) : (stSeg997 n).id = sST := mkSeg_starJoin_id _ _ _ (by decide)
theorem ak9Seg997_id (g : Gs) : (ak9Seg997 g).id = sAK9 := by simp [ak9Seg997, appendAll_id, bare]
theorem seSeg997_id (a b : Nat) : (seSeg997 a b).id = sSE := rfl
theorem geSeg997_id (n : Nat) (gs : PSeg) : (geSeg997 n gs).id = sGE := mkSeg_starJoin_id _ _ _ (by decide)
theorem ieaSeg997_id (p : Params) : (ieaSeg997 p).id = sIEA := mkSeg_starJoin_id _ _ _ (by decide)

theorem namesOf_block (cfg : Cfg) (n : Nat) (g : Gs) (hg : GsOk cfg g) (hs : GsNamesSafe g) :
    namesOf (block997 cfg n g) = .gs (some (pyStr g.fic)) (some (pyStr g.ctlNum)) :: stNames g.children := by
  unfold block997
  have e0 : namesOf (gsLines cfg g).segs = stNames g.children := namesOf_gsLines cfg g.children hg hs.2.2
  rw [namesOf_append, namesOf_append, e0]
  have e1 : namesOf [stSeg997 n, ak1Seg997 g] = [.gs (some (pyStr g.fic)) (some (pyStr g.ctlNum))] := by
    have : nameOf (stSeg997 n) = none := nameOf_other _ (by rw [stSeg997_id]; decide) (by rw [stSeg997_id]; decide)
    simp [namesOf, this, nameOf_ak1 g hs.1 hs.2.1]
  have e2 : namesOf [ak9Seg997 g, seSeg997 ((gsLines cfg g).segs.length + 4) n] = [] := by
    apply namesOf_none
    intro x hx
    simp at hx
    rcases hx with rfl | rfl
    · rw [ak9Seg997_id]; decide
    · rw [seSeg997_id]; decide
  rw [e1, e2]; simp

theorem namesOf_blocks (cfg : Cfg) (n : Nat) (l : List Gs) (hg : ∀ g ∈ l, GsOk cfg g) (hs : ∀ g ∈ l, GsNamesSafe g) :
    namesOf (blocks997 cfg n l) = gsNames l := by
  induction l generalizing n with
  | nil => rfl
  | cons g r ih =>
    simp only [blocks997, gsNames, namesOf_append]
    rw [namesOf_block cfg (n + 1) g (hg g (by simp)) (hs g (by simp)),
      ih (n + 1) (fun x hx => hg x (by simp [hx])) (fun x hx => hs x (by simp [hx]))]
    simp

theorem optAppend_id (s : Option PSeg) (v : Option Str) (x : PSeg) (i : Str) (h : optAppend s v = some x)
    (hs : ∀ y, s = some y → y.id = i) : x.id = i := by
  obtain ⟨y, w, e1, _, e3⟩ := optAppend_some s v x h
  rw [e3]; exact hs y e1

theorem isaSeg997_id (a : Isa) (p : Params) (isa : PSeg) (h : isaSeg997 a p = some isa) : isa.id = isaId := by
  unfold isaSeg997 at h
  refine optAppend_id _ _ _ _ h ?_
  intro y hy
  refine optAppend_id _ _ _ _ hy ?_
  intro y hy
  refine optAppend_id _ _ _ _ hy ?_
  intro y hy
  refine optAppend_id _ _ _ _ hy ?_
  intro y hy
  refine optAppend_id _ _ _ _ hy ?_
  intro y hy
  refine optAppend_id _ _ _ _ hy ?_
  intro y hy
  refine optAppend_id _ _ _ _ hy ?_
  intro y hy
  refine optAppend_id _ _ _ _ hy ?_
  intro y hy
  refine optAppend_id _ _ _ _ hy ?_
  intro y hy
  refine optAppend_id _ _ _ _ hy ?_
  intro y hy
  refine optAppend_id _ _ _ _ hy ?_
  intro y hy
  refine optAppend_id _ _ _ _ hy ?_
  intro y hy
  simp at hy; rw [← hy]; exact isaHead_elems.2

theorem ta1Lines_ids (codes : Except ASite (List Str)) (a : Isa) : ∀ x ∈ (ta1Lines codes a).segs, x.id = sTA1 := by
  intro x hx
  unfold ta1Lines at hx
  split at hx
  · split at hx
    · simp [Lines.fail] at hx
    · rename_i t ht
      have hid : t.id = sTA1 := by
        refine optAppend_id _ _ _ _ ht ?_
        intro y hy
        refine optAppend_id _ _ _ _ hy ?_
        intro y hy
        refine optAppend_id _ _ _ _ hy ?_
        intro y hy
        simp at hy; rw [← hy]; rfl
      split at hx
      · simp [Lines.fail] at hx
      · simp [Lines.ok] at hx; rw [hx]; simp [hid]
      · simp [Lines.ok] at hx; rw [hx]; simp [hid]
  · simp [Lines.ok] at hx

/-- the complete 997 acknowledges exactly the groups and sets of the tree, in order, each with its own functional
identifier / set identifier and control number -/
theorem ack_names_every_group_and_set_in_order (cfg : Cfg) (s : State) (p : Params)
    (h : (ack997 cfg s p).crash = none) (hs : ∀ g ∈ allGs s.tree, GsNamesSafe g) :
    namesOf (ack997 cfg s p).out = gsNames (allGs s.tree) := by
  obtain ⟨a, g, isa, gs, _, _, hi, hgs, hok, _, hout⟩ := ack997_ok cfg s p h
  rw [hout]
  simp only [namesOf_append]
  rw [namesOf_blocks cfg 0 _ hok hs]
  have hgsid : gs.id = sGS := by
    unfold gsSeg997 at hgs
    refine optAppend_id _ _ _ _ hgs ?_
    intro y hy
    refine optAppend_id _ _ _ _ hy ?_
    intro y hy
    refine optAppend_id _ _ _ _ hy ?_
    intro y hy
    refine optAppend_id _ _ _ _ hy ?_
    intro y hy
    refine optAppend_id _ _ _ _ hy ?_
    intro y hy
    refine optAppend_id _ _ _ _ hy ?_
    intro y hy
    refine optAppend_id _ _ _ _ hy ?_
    intro y hy
    refine optAppend_id _ _ _ _ hy ?_
    intro y hy
    simp at hy; rw [← hy]; rfl
  have e1 : namesOf [isa, gs] = [] := by
    apply namesOf_none
    intro x hx
    simp at hx
    rcases hx with rfl | rfl
    · rw [isaSeg997_id a p _ hi]; decide
    · rw [hgsid]; decide
  have e2 : namesOf [geSeg997 (allGs s.tree).length gs] = [] := by
    apply namesOf_none; intro x hx; simp at hx; rw [hx, geSeg997_id]; decide
  have e3 : namesOf (ta1Lines (getIsaErrors997 a) a).segs = [] := by
    apply namesOf_none; intro x hx; rw [ta1Lines_ids _ _ x hx]; decide
  have e4 : namesOf [ieaSeg997 p] = [] := by
    apply namesOf_none; intro x hx; simp at hx; rw [hx, ieaSeg997_id]; decide
  rw [e1, e2, e3, e4]; simp

/-! ## itemisation -/

/-- the line `visit_seg` writes for code `c` of segment node `sg` -/
def ak3Line (sg : Seg) (c : Str) : PSeg := (mkSeg (segBase997 sg)).setEle 3 c

theorem segCodes'_mem (sg : Seg) (c : Str) (hx : c ∈ segCodes sg) (hne : c ≠ sSEG1) : c ∈ segCodes' sg := by
  unfold segCodes'
  split
  · split <;> simp [hx, hne]
  · exact hx

/-- every segment-level error with a standard AK304 code has its AK3 line -/
theorem itemised_seg (sg : Seg) (x : SegErr) (hx : x ∈ sg.errors) (hc : x.code ∈ validAK3) :
    ak3Line sg x.code ∈ segLines997 sg := by
  have hne : x.code ≠ sSEG1 := by
    intro e; rw [e] at hc; revert hc; decide
  have hm : x.code ∈ segCodes' sg := segCodes'_mem sg x.code (by simp [segCodes]; exact ⟨x, hx, rfl⟩) hne
  simp only [segLines997, segLinesWith, List.mem_append, List.mem_map, List.mem_filter]
  left
  exact ⟨x.code, ⟨(mem_sortU _ _).mpr hm, by simpa using hc⟩, rfl⟩

theorem eleChildErrCount_pos (l : List Ele) (e : Ele) (he : e ∈ l) (x : EleErr) (hx : x ∈ e.errors) :
    eleChildErrCount l > 0 := by
  have : ¬ (eleChildErrCount l = 0) := by
    intro h0
    have := (eleChildErrCount_zero l).mp h0 e he
    rw [this] at hx; simp at hx
  omega

/-- a segment with an element error gets an AK3 line with code 8 -/
theorem itemised_ele_flag (sg : Seg) (e : Ele) (he : e ∈ sg.elements) (x : EleErr) (hx : x ∈ e.errors) :
    ak3Line sg ['8'] ∈ segLines997 sg := by
  have hpos : sg.childErrCount > 0 := eleChildErrCount_pos _ e he x hx
  simp only [segLines997, segLinesWith, List.mem_append, List.mem_map, List.mem_filter]
  by_cases h8 : (segCodes' sg).contains (c1 '8') = true
  · left
    refine ⟨c1 '8', ⟨(mem_sortU _ _).mpr (by simpa using h8), by decide⟩, rfl⟩
  · right
    have : (decide (sg.childErrCount > 0) && !(segCodes' sg).contains (c1 '8')) = true := by
      simp at h8; simp [hpos, h8]
    rw [if_pos this]; simp [ak3Line, c1]

/-- every element error with a standard AK403 code has its AK4 line -/
theorem itemised_ele (e : Ele) (x : EleErr) (hx : x ∈ e.errors) (hc : x.code ∈ validAK4) :
    eleErrLine (eleBase997 e) x ∈ eleLines997 e := by
  simp only [eleLines997, eleLinesWith, List.mem_map, List.mem_filter]
  exact ⟨x, ⟨hx, by simpa using hc⟩, rfl⟩

/-- `Segment(seg.format())` gives back the formatted fields when they carry no `*` -/
theorem mkSeg_format_safe (S : PSeg) (hid : '*' ∉ S.id) (hisa : S.id ≠ isaId) (hne : fmtFields S ≠ [])
    (hs : ∀ f ∈ fmtFields S, '*' ∉ f) :
    mkSeg S.format = { id := S.id, elems := (fmtFields S).map (splitOn ':') } := by
  have e1 : S.format = (S.id ++ '*' :: joinWith '*' (fmtFields S)) ++ ['~'] := by simp [PSeg.format]
  have e2 : S.id ++ '*' :: joinWith '*' (fmtFields S) = joinWith '*' (S.id :: fmtFields S) := by
    cases h : fmtFields S with
    | nil => exact absurd h hne
    | cons a r => rfl
  unfold mkSeg stripTerm
  rw [e1]
  simp only [List.getLast?_append, List.getLast?_singleton, Option.some_or, List.dropLast_concat, if_true]
  rw [e2, splitOn_joinWith '*' _ (by simp)]
  · simp [mkSegOf, hisa]
  · intro p hp
    simp at hp
    rcases hp with rfl | hp
    · exact hid
    · exact hs p hp

theorem fmtFields_three (i a b c : Str) (hb : b ≠ []) :
    fmtFields { id := i, elems := [[a], [b], [c]] } = if c = [] then [a, b] else [a, b, c] := by
  cases b with
  | nil => exact absurd rfl hb
  | cons b0 br =>
    cases c with
    | nil => simp [fmtFields, trimRC, trimConsC, compEmpty, fmtComp_single]
    | cons c0 cr => simp [fmtFields, trimRC, trimConsC, compEmpty, fmtComp_single]

def lsStr (sg : Seg) : Str := if truthy sg.lsId then pyStr sg.lsId else []

/-- what the AK3 line says: AK301 = segment identifier, AK302 = `seg_count` (position in the set), AK304 = code -/
theorem ak3Line_decode (sg : Seg) (c : Str) (hs : Safe sg.segId) (hl : Safe (lsStr sg)) (hc : ':' ∉ c) :
    (ak3Line sg c).id = sAK3 ∧ (ak3Line sg c).getValue 0 = some sg.segId ∧
    (ak3Line sg c).getValue 1 = some (natStr sg.segCount) ∧ (ak3Line sg c).getValue 3 = some c := by
  have hS : (((bare sAK3).append sg.segId).append (natStr sg.segCount)).append (lsStr sg) =
      { id := sAK3, elems := [[sg.segId], [natStr sg.segCount], [lsStr sg]] } := by
    simp [bare, PSeg.append, splitOn_no_sep ':' _ hs.2.1, splitOn_no_sep ':' _ hl.2.1,
      splitOn_no_sep ':' _ (natStr_no sg.segCount ':' (by simp))]
  have hbase : segBase997 sg = ({ id := sAK3, elems := [[sg.segId], [natStr sg.segCount], [lsStr sg]] } : PSeg).format := by
    unfold segBase997; rw [← hS]; rfl
  have hf := fmtFields_three sAK3 sg.segId (natStr sg.segCount) (lsStr sg) (natStr_ne_nil _)
  have hstar : ∀ f ∈ fmtFields ({ id := sAK3, elems := [[sg.segId], [natStr sg.segCount], [lsStr sg]] } : PSeg), '*' ∉ f := by
    intro f hfm
    rw [hf] at hfm
    split at hfm <;> simp at hfm
    · rcases hfm with rfl | rfl
      · exact hs.1
      · exact natStr_no _ '*' (by simp)
    · rcases hfm with rfl | rfl | rfl
      · exact hs.1
      · exact natStr_no _ '*' (by simp)
      · exact hl.1
  have hmk := mkSeg_format_safe { id := sAK3, elems := [[sg.segId], [natStr sg.segCount], [lsStr sg]] }
    (by show '*' ∉ sAK3; decide) (by show sAK3 ≠ isaId; decide) (by rw [hf]; split <;> simp) hstar
  unfold ak3Line
  rw [hbase, hmk, hf]
  refine ⟨rfl, ?_, ?_, ?_⟩
  · rw [setEle_getValue_ne _ 3 0 c (by omega) (by split <;> simp)]
    split <;> simp [PSeg.getValue, splitOn_no_sep ':' _ hs.2.1, fmtComp_single]
  · rw [setEle_getValue_ne _ 3 1 c (by omega) (by split <;> simp)]
    split <;> simp [PSeg.getValue, splitOn_no_sep ':' _ (natStr_no sg.segCount ':' (by simp)), fmtComp_single]
  · rw [setEle_getValue, fmtComp_split_safe c hc]

/-- the AK4 line: AK403 = code, AK404 = the offending value when one was given -/
theorem ak4Line_decode (base : Str) (x : EleErr) (hc : ':' ∉ x.code) (hv : ∀ v, x.value = some v → ':' ∉ v) :
    (eleErrLine base x).getValue 2 = some x.code ∧
    (truthy x.value = true → (eleErrLine base x).getValue 3 = x.value) := by
  unfold eleErrLine
  cases hval : x.value with
  | none => simp [truthy, setEle_getValue, fmtComp_split_safe _ hc]
  | some v =>
    by_cases ht : truthy (some v) = true
    · simp only [ht, if_true, pyStr]
      refine ⟨?_, fun _ => ?_⟩
      · rw [setEle_getValue_ne _ 3 2 v (by omega) (by simp [PSeg.setEle, padComps]; omega), setEle_getValue,
          fmtComp_split_safe _ hc]
      · rw [setEle_getValue, fmtComp_split_safe _ (hv v hval)]
    · simp [ht, setEle_getValue, fmtComp_split_safe _ hc]

theorem segsLines_split (fs : Seg → List PSeg) (fe : Ele → List PSeg) (pre post : List Seg) (sg : Seg) :
    segsLines fs fe (pre ++ sg :: post) =
      segsLines fs fe pre ++ (fs sg ++ elesLines fe sg.elements) ++ segsLines fs fe post := by
  induction pre with
  | nil => simp [segsLines]
  | cons a r ih => simp [segsLines, ih]

theorem elesLines_mem_of (f : Ele → List PSeg) (l : List Ele) (e : Ele) (he : e ∈ l) (x : PSeg) (hx : x ∈ f e) :
    x ∈ elesLines f l := by
  induction l with
  | nil => simp at he
  | cons a r ih =>
    simp at he
    rcases he with rfl | he
    · simp [elesLines, hx]
    · simp [elesLines, ih he]

/-- **itemisation**: in a complete 997, the lines of a set `st` (its AK2 … AK5 bracket) form a contiguous piece of the
output, and inside that bracket every segment node's AK3 lines come first, followed by the AK4 lines of its
elements; every segment error with a standard code and every element error with a standard code is among them -/
theorem itemisation_complete (cfg : Cfg) (s : State) (p : Params) (h : (ack997 cfg s p).crash = none)
    (a : Isa) (g : Gs) (st : St) (ha : a ∈ s.tree) (hg : g ∈ a.children) (hst : st ∈ g.children) :
    ∃ i c codes, st.trnSetId = some i ∧ st.ctlNum = some c ∧
      Infix (ak2Seg997 i c :: (segsLines segLines997 eleLines997 st.children ++ [ak5Seg997 st codes])) (ack997 cfg s p).out ∧
      ∀ pre sg post, st.children = pre ++ sg :: post →
        (segsLines segLines997 eleLines997 st.children =
           segsLines segLines997 eleLines997 pre ++ (segLines997 sg ++ elesLines eleLines997 sg.elements) ++
             segsLines segLines997 eleLines997 post) ∧
        (∀ x ∈ sg.errors, x.code ∈ validAK3 → ak3Line sg x.code ∈ segLines997 sg) ∧
        (∀ e ∈ sg.elements, ∀ x ∈ e.errors, x.code ∈ validAK4 →
           ak3Line sg ['8'] ∈ segLines997 sg ∧ eleErrLine (eleBase997 e) x ∈ elesLines eleLines997 sg.elements) := by
  obtain ⟨a0, g0, isa, gs, _, _, _, _, hok, _, hout⟩ := ack997_ok cfg s p h
  have hmem := mem_allGs s.tree a g ha hg
  have hgok := hok g hmem
  obtain ⟨hstok, hinf⟩ := stLines_infix cfg g.children st hst hgok
  obtain ⟨i, c, codes, hi, hc, _, e⟩ := stLines997_ok cfg st hstok
  obtain ⟨m, hblk⟩ := blocks_infix cfg 0 (allGs s.tree) g hmem
  refine ⟨i, c, codes, hi, hc, ?_, ?_⟩
  · rw [← e, hout]
    have h1 : Infix (stLines997 cfg st).segs (blocks997 cfg 0 (allGs s.tree)) :=
      hinf.trans ((block_infix cfg m g).trans hblk)
    obtain ⟨p1, q1, e1⟩ := h1
    exact ⟨[isa, gs] ++ p1, q1 ++ [geSeg997 (allGs s.tree).length gs] ++ (ta1Lines (getIsaErrors997 a0) a0).segs ++ [ieaSeg997 p],
      by rw [e1]; simp⟩
  · intro pre sg post hsplit
    refine ⟨by rw [hsplit]; exact segsLines_split _ _ _ _ _, fun x hx hcx => itemised_seg sg x hx hcx, ?_⟩
    intro el hel x hx hcx
    exact ⟨itemised_ele_flag sg el hel x hx, elesLines_mem_of _ _ el hel _ (itemised_ele el x hx hcx)⟩

end Pyx12Verif.C05
