/-
Non-vacuity and the counterexample for Props/C10Bridge.lean, on the maps of Props/DocExample.lean.

(1) a document with a REPEATED loop (two transaction sets in one group), GS_LOOP requested: the hypotheses of
    `ctx_tree_sorted` hold (Boolean form, kernel-evaluated); the kernel computes the yields, the tree, its conversion, its
    serialisation (Props/C10BridgeExampleData.lean), an `add_segment` into the SECOND ST_LOOP instance, a history of calls and
    the serialisation afterwards (Props/C10BridgeExampleEdit.lean); the corollaries of Props/C10Bridge.lean are applied to
    exactly that tree.
(2) Props/C10BridgeExample2.lean: the counterexample for ISA_LOOP.
-/
import Pyx12Verif.Props.C10Bridge
import Pyx12Verif.Props.CtxDocFullExample

namespace Pyx12Verif.Bridge.Ex
open Pyx12Verif Pyx12Verif.Doc Pyx12Verif.Doc.Ex Pyx12Verif.Bridge

theorem mem_treesOf : ∀ (ys : List Ctx.Yield) (d : Ctx.DNode), d ∈ treesOf ys → Ctx.Yield.tree d ∈ ys
  | [], _, h => by simp [treesOf] at h
  | .tree x :: r, d, h => by
    simp only [treesOf, List.mem_cons] at h
    rcases h with h | h
    · rw [h]; simp
    · exact List.mem_cons_of_mem _ (mem_treesOf r d h)
  | .plain _ _ _ :: r, d, h => by
    simp only [treesOf] at h
    exact List.mem_cons_of_mem _ (mem_treesOf r d h)

/-- the first tree among the yields is one of the yields -/
theorem firstTree_mem (ys : List Ctx.Yield) (dflt : Ctx.DNode) (h : (treesOf ys).length ≠ 0) :
    Ctx.Yield.tree ((treesOf ys).headD dflt) ∈ ys := by
  apply mem_treesOf
  cases hh : treesOf ys with
  | nil => rw [hh] at h; exact absurd rfl h
  | cons x r => simp

/-! ### (1) a repeated loop, an insertion, the serialisation -/

/-- ISA GS ST REF SE ST SE GE IEA: two ST_LOOP instances in one GS_LOOP -/
def textR : List Char :=
  (isaText ++ "GS*HC*S*R*20200101*1200*1*X*004010X1~ST*837*0001~REF*AB*1*X~SE*3*0001~ST*837*0002~SE*2*0002~" ++
    "GE*2*1~IEA*1*000000001~").toList

/-- the hypotheses of `ctx_tree_sorted` hold for GS_LOOP (12) and ST_LOOP (14); for ISA_LOOP (10) only `≠ ISA_LOOP` fails -/
example : readerOKb ms (some 12) = true ∧ readerOKb ms (some 14) = true ∧ readerOKb ms none = true ∧
    readerOKb ms (some 10) = false := by decide +kernel

/-- the generator runs to its end; GS_LOOP requested: ISA plain, ONE tree with the seven segments GS … GE, IEA plain -/
example : (ctxDoc ms (some 12) textR).stop = .done ∧
    leafIdx (ctxDoc ms (some 12) textR) = [[0], [1, 2, 3, 4, 5, 6, 7], [8]] ∧
    (ctxDoc ms (some 12) textR).yields.map isTreeY = [false, true, false] := by decide +kernel

def dfltTree : Ctx.DNode := .seg ⟨0, 0, 0⟩ [] 0

/-- the GS_LOOP tree -/
def exT : Ctx.DNode := (treesOf (ctxDoc ms (some 12) textR).yields).headD dfltTree

theorem exT_mem : Ctx.Yield.tree exT ∈ (ctxDoc ms (some 12) textR).yields :=
  firstTree_mem _ _ (by decide +kernel)

/-- the kernel evaluates the invariant on the tree (independently of the theorem below) -/
example : allSortedCb exT = true := by decide +kernel

/- from here on the elaborator must not unfold the tree (it would evaluate the whole document) -/
attribute [irreducible] exT

theorem rok12 : readerOKb ms (some 12) = true := by decide +kernel

/-- `ctx_tree_sorted` applies to it … -/
theorem exT_sorted : Ctx.AllSortedC exT :=
  ctx_tree_sorted_bool ms (some 12) textR rok12 exT exT_mem

def names : Nat → DataTree.Str
  | 10 => "ISA_LOOP".toList | 11 => "ISA".toList | 12 => "GS_LOOP".toList | 13 => "GS".toList | 14 => "ST_LOOP".toList
  | 15 => "ST".toList | 18 => "REF".toList | 24 => "SE".toList | 25 => "GE".toList | 26 => "IEA".toList
  | _ => []

/-- the map data of the transaction map, as `harness/c10.py : MapEnc` reads it off the loaded map -/
def md : MapData := skelData names ms.consts "837".toList root

def segsR : Nat → DataTree.Seg := segTable ⟨'~', '*', ':'⟩ (ctxDoc ms (some 12) textR).segs

/-- the tree handed to the editing model -/
def exD : DataTree.DNode := toDNode md segsR exT

end Pyx12Verif.Bridge.Ex
