/-
C06, last sentence — "Fed back to the validator, the acknowledgement selects the 997 map and, when the echoed values fit the
acknowledgement's own element definitions, is accepted" — for the models `Ack.ack997` (repaired visitor) and
`Doc.validateDoc` (end-to-end validator).

  `ack997_is_derivation`      (1) the segments of a complete 997 behind GS are a derivation (Spec/WalkerGen.lean `GenList`) of
                                  any skeleton with the DECIDABLE shape `shape997`: per functional group of the input
                                  `ST AK1 (AK2 (AK3 AK4*)* AK5)* AK9 SE`, then GE, no TA1, IEA — under `WithinRepeats`
                                  (AK2 / AK3 loop repeat, AK4 max_use of the map; the AK4 limit 99 CAN be exceeded by the writer)
  `ack997_values_admissible`  (2) under `EchoFits` and the DECIDABLE per-map checks `ackDefsOk` / `isaDefOk` every written
                                  segment conforms to the definition of its node (`Doc.BodyOk` / `Doc.SegAdm`)
  `ack997_revalidates`        (3) composition with the text layer (Proofs/C06RevalText.lean), the envelope
                                  (Proofs/C06RevalEnv.lean, C04 `Consistent`) and `Doc.doc_accepts_generated_consistent`:
                                  `validateDoc` on the written text ends with verdict true and no error event
  `ack997_ak402_not_echo`     AK402 is NOT among the echoed values `EchoFits` speaks about: the writer copies `ele_ref_num` only
                                  when it is a string of ASCII digits (for an error on a composite it is the composite's id,
                                  `C022`, and AK402 is numeric), so with reference numbers of at most four characters every
                                  AK402 is empty or 1..4 digits — the writer's own slot, admissible by `ackDefsOk`
  non-vacuity                 Props/C06RevalExample.lean (kernel-evaluated)
-/
import Pyx12Verif.Proofs.C06RevalAdm4
import Pyx12Verif.Proofs.C06RevalAK402
import Pyx12Verif.Proofs.C06RevalText
import Pyx12Verif.Proofs.C06RevalEnv

namespace Pyx12Verif.C06R
open Pyx12Verif Pyx12Verif.Ack Pyx12Verif.C06 Pyx12Verif.C05 Pyx12Verif.MapSkel Pyx12Verif.Walker Pyx12Verif.WalkerGen

/-! ## (1) derivation -/

/-- `WithinRepeats` for the skeleton read off `root` -/
def WithinRepeatsOf (root : List Node) (s : ErrTree.State) : Prop := ∀ S, view997 root = some S → WithinRepeats S s

/-- **(1)** For every error-tree state with `Complete s` the 997 written by the repaired visitor is `isa :: gs :: rest` where
    `rest` — seen through any reading `sd` of the match-key values under which every segment matches the node meant for it —
    is: the rest of the group (one set loop `ST AK1 (AK2 (AK3 AK4*)* AK5)* AK9 SE` per functional group of the input, in
    order, then GE) followed by the rest of the interchange (TA1 left out, IEA), as derivations of the skeleton `root`. -/
theorem ack997_is_derivation (K : Consts) (ids : Doc.EnvIds) (A : AckIds) (root : List Node)
    (hshape : shape997 K ids A root = true) (sd : PSeg → SegData) (s : ErrTree.State) (p : Params) (hC : Complete s)
    (hw : WithinRepeatsOf root s) :
    ∃ (S : S997) (isa gs : PSeg) (rest : List PSeg), root = S.root ∧ (ack997 fixed s p).out = isa :: gs :: rest ∧
      (AllMatch K S sd rest →
        ∃ out1 out2 : List Emit, GenList K [0, 1] 1 [S.stLoop, S.ge.node] out1 ∧
          GenList K [0] 2 [S.ta1.node, S.iea.node] out2 ∧ rest.map (emitOf sd) = out1 ++ out2 ++ []) := by
  unfold shape997 at hshape
  cases hv : view997 root with
  | none => rw [hv] at hshape; cases hshape
  | some S =>
    rw [hv] at hshape
    obtain ⟨a, g, isa, gs, _, _, _, _, hout, _⟩ := ack997_written s p hC
    refine ⟨S, isa, gs, _, view997_root root S hv, hout, ?_⟩
    intro hm
    exact ack997_gen (S997.ok_facts hshape) s p hC (hw S hv) isa gs _ hout hm

/-! ## (2) values -/

theorem isaId_eq : isaId = Envelope.idISA := rfl

/-- what is known of the interchange values the visitor copies: no component separator, the fixed ISA field widths, a
    version the reader knows -/
structure IsaPlain (s : ErrTree.State) (p : Params) (icvn : Str) : Prop where
  nocolon : ∀ a, curIsaNode s = some a → NoColon a.e05 ∧ NoColon a.e06 ∧ NoColon a.e07 ∧ NoColon a.e08 ∧ NoColon a.e11 ∧
    NoColon a.e12 ∧ NoColon a.e15
  clock : ':' ∉ p.date6 ∧ ':' ∉ p.time4
  widths : ∀ a v05 v06 v07 v08 v11 v15, curIsaNode s = some a → a.e05 = some v05 → a.e06 = some v06 → a.e07 = some v07 →
    a.e08 = some v08 → a.e11 = some v11 → a.e15 = some v15 →
    [v07, v08, v05, v06, p.date6, p.time4, v11, isaCtl p, v15].map List.length = [2, 15, 2, 15, 6, 4, 1, 9, 1]
  isa12 : ∀ a, curIsaNode s = some a → a.e12 = some icvn
  version : icvn = Tokenizer.v4010 ∨ icvn = Tokenizer.v5010

/-- the ISA of a complete 997 in explicit form -/
theorem ack997_isa (s : ErrTree.State) (p : Params) (hC : Complete s) (hsafe : TrailerSafe s p) (icvn : Str)
    (hpl : IsaPlain s p icvn) (isa gs : PSeg) (rest : List PSeg) (hout : (ack997 fixed s p).out = isa :: gs :: rest) :
    ∃ v07 v08 v05 v06 v11 v15, isa = isaOf (isaVals v07 v08 v05 v06 v11 icvn v15 p) ∧
      (isaVals v07 v08 v05 v06 v11 icvn v15 p).map List.length = [2, 10, 2, 10, 2, 15, 2, 15, 6, 4, 1, 5, 9, 1, 1] ∧
      ':' ∉ v11 := by
  obtain ⟨a, g, isa', gs', ha, _, hi, _, hshape, _⟩ := ack997_written s p hC
  rw [hout] at hshape
  simp only [List.cons.injEq] at hshape
  obtain ⟨rfl, _, _⟩ := hshape
  obtain ⟨n05, n06, n07, n08, n11, n12, n15⟩ := hpl.nocolon a ha
  obtain ⟨v07, v08, v05, v06, v11, v12, v15, e07, e08, e05, e06, e11, e12, e15, hisa⟩ :=
    isa997_eq_isaOf a p isa hi n05 n06 n07 n08 n11 n12 n15 hpl.clock.1 hpl.clock.2 hsafe.1.2.1
  have h12 := hpl.isa12 a ha
  rw [e12] at h12
  simp only [Option.some.injEq] at h12
  subst h12
  refine ⟨v07, v08, v05, v06, v11, v15, hisa, ?_, n11 v11 e11⟩
  have hw := hpl.widths a v05 v06 v07 v08 v11 v15 ha e05 e06 e07 e08 e11 e15
  simp only [List.map_cons, List.map_nil, List.cons.injEq, and_true] at hw
  obtain ⟨w1, w2, w3, w4, w5, w6, w7, w8, w9⟩ := hw
  have hv : v12.length = 5 := by rcases hpl.version with h | h <;> (rw [h]; rfl)
  simp [isaVals, blanks10, w1, w2, w3, w4, w5, w6, w7, w8, w9, hv]

theorem segEmpty_isaOf (vals15 : List Str) (hl : vals15.length = 15) : Doc.segEmpty (toSeg (isaOf vals15)) = false := by
  rw [toSeg_isaOf vals15 hl]
  simp only [Doc.segEmpty, Bool.or_eq_false_iff]
  refine ⟨by simp, ?_⟩
  cases hall : ((vals15 ++ [[':']]).map (fun v => [v])).all SegText.isEmptyComp with
  | false => rfl
  | true =>
    have := List.all_eq_true.1 hall [[':']] (by simp)
    revert this; decide

/-- **(2)** Under `EchoFits` and the per-map checks, every written segment conforms to the definition of the node meant for
    it: the ISA to the control map's ISA definition, the GS and every later segment to the 997 map's. -/
theorem ack997_values_admissible (ctx : Doc.Ctx) (control : Doc.MapX) (cip : List Nat) (m : Doc.MapX)
    (hisaDef : isaDefOk control cip = true) (hdefs : ackDefsOk m = true)
    (s : ErrTree.State) (p : Params) (hC : Complete s) (hsz : SizesFit s) (hsafe : TrailerSafe s p)
    (hctl : isaCtl p ≠ []) (hgs06 : ∀ g, curGsNode s = some g → g.gs06 ≠ some []) (icvn : Str) (hpl : IsaPlain s p icvn)
    (hclean : EchoSafe s p) (hfit : EchoFits ctx control cip m s p)
    (isa gs : PSeg) (rest : List PSeg) (hout : (ack997 fixed s p).out = isa :: gs :: rest) :
    (∃ isaDef, Doc.lookupDef control cip = some isaDef ∧ Doc.SegAdm ctx control.v5010 d997 isaDef (toSeg isa)) ∧
    (∃ gsDef, Doc.lookupDef m [0, 1, 0] = some gsDef ∧ Doc.SegAdm ctx m.v5010 d997 gsDef (toSeg gs)) ∧
    ∀ b ∈ bodyOf rest, Doc.BodyOk ctx m d997 b := by
  refine ⟨?_, ?_, ?_⟩
  · obtain ⟨v07, v08, v05, v06, v11, v15, hisa, _, _⟩ := ack997_isa s p hC hsafe icvn hpl isa gs rest hout
    unfold isaDefOk at hisaDef
    cases hl : Doc.lookupDef control cip with
    | none => rw [hl] at hisaDef; cases hisaDef
    | some sd =>
      rw [hl] at hisaDef
      refine ⟨sd, rfl, ?_⟩
      have hecho := hfit.isa isa gs rest hout sd hl
      have hown : OwnFacts kISA 0 (toSeg isa).elems := by rw [hisa]; exact own_isa _ _ _ _ _ _ _ _
      exact (segAdm_of_kind ctx control.v5010 d997 sd (toSeg isa) kISA hisaDef
        (by rw [toSeg_id, hisa]; show isaId ≠ Doc.sDTP; decide) hecho hown (toSeg_comps_ne isa)).2
  · obtain ⟨a, g, isa', gs', _, _, _, hgs, hshape, _⟩ := ack997_written s p hC
    rw [hout] at hshape
    simp only [List.cons.injEq] at hshape
    obtain ⟨_, rfl, _⟩ := hshape
    simp only [ackDefsOk, Bool.and_eq_true] at hdefs
    have hd := hdefs.2
    cases hl : Doc.lookupDef m [0, 1, 0] with
    | none => rw [hl] at hd; cases hd
    | some sd =>
      rw [hl] at hd
      refine ⟨sd, rfl, ?_⟩
      have hnb : NonBare gs := (hclean gs (by rw [hout]; simp)).2
      have hid : gs.id = sGS := gsSeg997_id fixed a g p gs hgs
      exact (segAdm_of_kind ctx m.v5010 d997 sd (toSeg gs) kGS hd (by rw [toSeg_id, hid]; decide)
        (hfit.gs isa gs rest hout sd hl) (own_gs a g p gs hgs hnb) (toSeg_comps_ne gs)).2
  · intro b hb
    simp only [bodyOf, List.mem_map] at hb
    obtain ⟨x, hx, rfl⟩ := hb
    exact (ack997_rest_ok ctx control cip m hdefs s p hC hsz hsafe hctl hgs06 hclean hfit isa gs rest hout x hx).2.1

/-- **AK402 is never an echo obligation.**  In a complete 997 of the repaired visitor, when the reference numbers held by the
    error tree have at most four characters (`RefNumsFit`: they are `data_ele` attributes of the source map, data element
    numbers or composite ids), element 2 of every AK4 line as the reader sees it is empty or a string of one to four ASCII
    digits; `KindSpec.own` holds of it, so `EchoFits` (whose clauses are conditional on `own … = false`) asks nothing about it
    and its admissibility is part of the decidable per-map check `ackDefsOk`.  In particular an element error reported on a
    COMPOSITE node, whose `ele_ref_num` is the composite's id (`C022`), cannot make the acknowledgement unacceptable. -/
theorem ack997_ak402_not_echo (s : ErrTree.State) (p : Params) (hC : Complete s) (hclean : EchoSafe s p) (hfit : RefNumsFit s)
    (isa gs : PSeg) (rest : List PSeg) (hout : (ack997 fixed s p).out = isa :: gs :: rest) :
    ∀ x ∈ rest, x.id = sAK4 → ∀ c, (toSeg x).elems[1]? = some c →
      (kindOf x.id).own 1 c = true ∧
      (c = [[]] ∨ ∃ r, c = [r] ∧ 1 ≤ r.length ∧ r.length ≤ 4 ∧ ∀ ch ∈ r, '0' ≤ ch ∧ ch ≤ '9') := by
  intro x hx hid c hc
  refine ⟨ack997_ak402_own s p hC hclean hfit isa gs rest hout x hx hid c hc, ?_⟩
  obtain ⟨g, hg, st, hst, sg, hsg, e, he, hxe⟩ := ak4_source s p hC isa gs rest hout x hx hid
  have hnb : NonBare x := (hclean x (by rw [hout]; simp [hx])).2
  rcases ak402_read e x hxe hnb c hc with h | ⟨r, hr, h2, h3, h4⟩
  · exact Or.inl h
  · refine Or.inr ⟨r, h2, List.length_pos_iff.2 h3, hfit g hg st hst sg hsg e he r hr, ?_⟩
    intro ch hch
    have := h4 ch hch
    simp only [isDig, Validation.isDigit, Bool.and_eq_true, decide_eq_true_eq] at this
    exact this

/-! ## (3) composition -/

theorem gv_single (s : Doc.Seg) (k : Nat) (v : Str) (h : s.elems[k]? = some [v]) : Doc.gv d997 s k = some v := by
  simp only [Doc.gv, getValue_single d997 s k v h, Doc.optV]

theorem gv_isa12 (vals15 : List Str) (hl : vals15.length = 15) (v12 : Str) (h : vals15[11]? = some v12) :
    Doc.gv d997 (toSeg (isaOf vals15)) 11 = some v12 := by
  apply gv_single
  rw [toSeg_isaOf vals15 hl]
  simp only [List.getElem?_map]
  rw [List.getElem?_append_left (by omega), h]
  rfl

/-- GS01 and GS08 of the written group header as the validator reads them -/
theorem gv_gs (a : ErrTree.Isa) (g : ErrTree.Gs) (p : Params) (gs : PSeg) (h : gsSeg997 fixed a g p = some gs) :
    Doc.gv d997 (toSeg gs) 0 = some ['F', 'A'] ∧ Doc.gv d997 (toSeg gs) 7 = some v004010 := by
  obtain ⟨w2, w3, w6, w7, _, _, _, _, hgs⟩ := gs997_elems a g p gs h
  have hs : toSeg gs = ⟨sGS, ([['F', 'A'], rstrip w3, rstrip w2, p.date8, p.time6, w6, w7].map (splitOn ':') ++
      [[v004010]]).map SegText.normComp⟩ := by
    rw [hgs, toSeg_mk _ _ (by decide)]
    have e : List.map (splitOn ':') [['F', 'A'], rstrip w3, rstrip w2, p.date8, p.time6, w6, w7, v004010] =
        [['F', 'A'], rstrip w3, rstrip w2, p.date8, p.time6, w6, w7].map (splitOn ':') ++ [[v004010]] := by
      have : splitOn ':' v004010 = [v004010] := by decide
      simp [this]
    rw [e, normElems_snoc _ _ (by decide)]
  constructor
  · apply gv_single
    rw [hs]
    have : splitOn ':' ['F', 'A'] = [['F', 'A']] := by decide
    simp [this, SegText.normComp_single]
  · apply gv_single
    rw [hs]
    simp [SegText.normComp_single]

theorem idOk_of_ackIds : ∀ id ∈ sGS :: ackIds, IdOk id := by
  intro id hid
  simp only [ackIds, List.mem_cons, List.not_mem_nil, or_false] at hid
  rcases hid with rfl | rfl | rfl | rfl | rfl | rfl | rfl | rfl | rfl | rfl | rfl <;>
    (refine ⟨by decide, by decide, by decide, fun c hc => ?_⟩; cases hc; decide)

/-- the per-map check of the match keys for the skeleton read off the map -/
def ackKeysOkOf (K : Consts) (unk : Nat) (m : Doc.MapX) : Bool :=
  match view997 m.root with
  | some S => ackKeysOk K unk S m
  | none => false

/-- **(3) the acknowledgement is accepted by the validator.**

Acknowledgement side: `Complete s` (the visitor finds the header values it copies: the hypothesis of `ack_complete`);
`TrailerSafe` / `IsaPlain` / `EchoSafe` (no copied value contains a delimiter — outside that domain lies the listed finding
`pred:ack-echo-contains-delimiter`; the ISA fields have the fixed widths and the interchange version is one the reader knows);
`EchoFits` ("the echoed values fit the acknowledgement's own element definitions"; AK402 is not one of them:
`ack997_ak402_not_echo`); `WithinRepeatsOf` (the map's repeat limits)
and `SizesFit` (counters within their maximal lengths).

Map side: the control map for the echoed interchange version is loadable and has `/ISA_LOOP/ISA`, `/ISA_LOOP/GS_LOOP/GS`, its
ISA definition passes `isaDefOk`; the index sends (version, `004010`, `FA`) to a loadable map `m` whose skeleton has
`shape997`, is `WFMap` and `Unambiguous`, whose definitions pass `ackDefsOk` and whose keys pass `ackKeysOkOf` — all decidable,
evaluated by the kernel on the translated 997 map.

Then the text written by `_write` is read as an interchange, the 997 map is selected, and validation ends with verdict
`True` without any error handed to the error handler. -/
theorem ack997_revalidates (ms : Doc.Maps) (ctx : Doc.Ctx) (control m : Doc.MapX) (cip cgp : List Nat) (A : AckIds)
    (s : ErrTree.State) (p : Params) (icvn : Str)
    (hC : Complete s) (hsafe : TrailerSafe s p) (hctl : isaCtl p ≠ [])
    (hgs06 : ∀ g, curGsNode s = some g → g.gs06 ≠ some []) (hpl : IsaPlain s p icvn)
    (hclean : EchoSafe s p) (hfit : EchoFits ctx control cip m s p)
    (hrep : WithinRepeatsOf m.root s) (hsz : SizesFit s)
    (hctlmap : Doc.findMap ms (if icvn = Tokenizer.v5010 then Doc.ctl501 else Doc.ctl401) = some control)
    (hisaNode : Doc.fetchIn ms control (Doc.isaPath ms) = some ⟨control, cip⟩)
    (hgsNode : Doc.fetchIn ms control (Doc.gsPath ms) = some ⟨control, cgp⟩)
    (hisaDef : isaDefOk control cip = true)
    (hidx : Doc.getFilename ms.index (some icvn) (some v004010) (some ['F', 'A']) none = some m.file)
    (hmap : Doc.findMap ms m.file = some m)
    (hshape : shape997 ms.consts ms.ids A m.root = true) (hdefs : ackDefsOk m = true)
    (hkeys : ackKeysOkOf ms.consts ms.unk m = true)
    (hwf : WFMap m.root = true) (hun : Unambiguous ms.consts m.root = true) :
    (Doc.validateDoc ms ctx (renderText (ack997 fixed s p).out)).outcome = .verdict true ∧
      Doc.Quiet (Doc.validateDoc ms ctx (renderText (ack997 fixed s p).out)).events := by
  -- the skeleton
  unfold shape997 at hshape
  unfold ackKeysOkOf at hkeys
  cases hv : view997 m.root with
  | none => rw [hv] at hshape; cases hshape
  | some S =>
  rw [hv] at hshape hkeys
  have hroot := view997_root m.root S hv
  have F := S997.ok_facts hshape
  -- the written segments
  obtain ⟨a, g, isa, gs, ha, hg, hi, hgs, hout, hwr⟩ := ack997_written s p hC
  generalize hrest : blocks997 fixed 0 (allGs s.tree) ++ [geSeg997 (allGs s.tree).length gs, ieaSeg997 p] = rest at hout hwr
  obtain ⟨v07, v08, v05, v06, v11, v15, hisa, hwid, hv11⟩ := ack997_isa s p hC hsafe icvn hpl isa gs rest hout
  have hl15 : (isaVals v07 v08 v05 v06 v11 icvn v15 p).length = 15 := by simp [isaVals]
  -- (2) values
  obtain ⟨⟨isaDef, hisaD, hisaAdm⟩, ⟨gsDef, hgsD, hgsAdm⟩, hbody⟩ :=
    ack997_values_admissible ctx control cip m hisaDef hdefs s p hC hsz hsafe hctl hgs06 icvn hpl hclean hfit isa gs rest hout
  have hrestok := ack997_rest_ok ctx control cip m hdefs s p hC hsz hsafe hctl hgs06 hclean hfit isa gs rest hout
  -- (1) derivation
  have hmatch := ack997_all_match ms ctx m S hkeys rest (fun x hx => ⟨(hrestok x hx).1, (hrestok x hx).2.2⟩)
  obtain ⟨out1, out2, hg1, hg2, hem⟩ := ack997_gen (sd := fun x => Doc.segData ms m d997 (toSeg x)) F s p hC (hrep S hv)
    isa gs rest hout hmatch
  -- envelope
  obtain ⟨i, grp, hgrp, hviews, hdom, hcons, _⟩ :=
    ack_env_consistent s p hC hsafe hctl hgs06 hsz hclean m.is837 isa gs rest hout
  -- the text
  have hread := read_ack_text (isaVals v07 v08 v05 v06 v11 icvn v15 p) gs rest icvn hwid (by simp [isaVals]) hpl.version
    (by
      simp only [repChar, isaVals, List.getElem?_cons_succ, List.getElem?_cons_zero, Option.getD_some]
      cases v11 with
      | nil => decide
      | cons c r => intro e; simp only [List.headD_cons] at e; subst e; exact hv11 (by simp))
    (by
      intro v hvm
      have hc := (hclean isa (by rw [hout]; simp)).1
      rw [hisa] at hc
      have := hc [v] (by simp only [isaOf, List.mem_append, List.mem_map]; exact Or.inl ⟨v, hvm, rfl⟩)
      have := this.2 v (by simp)
      exact ⟨this.1, this.2.1⟩)
    (by
      intro x hx
      simp only [List.mem_cons] at hx
      rcases hx with rfl | hx
      · rw [gsSeg997_id fixed a g p x hgs]; exact idOk_of_ackIds sGS (by simp)
      · exact idOk_of_ackIds x.id (List.mem_cons_of_mem _ (written_id (hwr x hx))))
    (by
      intro x hx
      exact hclean x (by rw [hout]; exact List.mem_cons_of_mem _ hx))
  rw [← hisa] at hread
  rw [← hout] at hread
  -- composition
  refine Doc.doc_accepts_generated_text ms ctx _ _ (toSeg isa) (toSeg gs) (bodyOf rest) hread ?_
  have hgv := gv_gs a g p gs hgs
  have hgv12 : Doc.gv d997 (toSeg isa) 11 = some icvn := by
    rw [hisa]; exact gv_isa12 _ hl15 icvn (by simp [isaVals])
  have hgsid : gs.id = sGS := gsSeg997_id fixed a g p gs hgs
  have hnbgs : NonBare gs := (hclean gs (by rw [hout]; simp)).2
  refine Doc.doc_accepts_generated_consistent ms ctx _ control m (toSeg isa) (toSeg gs) (bodyOf rest) 0 1 cip cgp isaDef gsDef
    i grp hwf hun
    (isaPos := S.isaL.pos) (isaU := S.isaL.usage) (isaRep := S.isaL.rep) (isaW := S.isaL.w) (isaSeg := S.isa.node)
    (isaRest := [S.gsLoop, S.ta1.node, S.iea.node])
    (by rw [hroot, ← F.isaL]; rfl) rfl (by simp [SegN.node, Node.comp, F.isa, F.isaQ])
    (gsPos := S.gsL.pos) (gsU := S.gsL.usage) (gsRep := S.gsL.rep) (gsW := S.gsL.w) (gsSeg := S.gs.node)
    (gsRest := [S.stLoop, S.ge.node])
    (by rw [← F.gsL]; rfl) rfl (by simp [SegN.node, Node.comp, F.gs, F.gsQ])
    (by intro j c hj; omega) (by intro j c h1 h2; omega)
    (out1 := out1) (out2 := out2) (out3 := [])
    hg1 hg2 (by rw [hroot]; exact .nil)
    (by
      rw [← hem]
      simp only [Doc.emitsOf, bodyOf, List.map_map]
      rfl)
    hctlmap hisaNode hgsNode hisaD hisaAdm
    (by
      show Doc.getFilename ms.index (Doc.gv d997 (toSeg isa) 11) (Doc.gv d997 (toSeg gs) 7) (Doc.gv d997 (toSeg gs) 0) none = _
      rw [hgv12, hgv.1, hgv.2]; exact hidx)
    hmap
    (by
      have := F.fetchGs
      rw [← hroot] at this
      simp only [Doc.fetchIn, Doc.gsPath, this])
    hgsD hgsAdm
    (by
      show Doc.gv d997 (toSeg gs) 7 ≠ _ ∧ Doc.gv d997 (toSeg gs) 7 ≠ _
      rw [hgv.2]; decide)
    (by rw [toSeg_id, hisa]; rfl) (by rw [toSeg_id, hgsid]; rfl)
    (by
      rw [hisa]
      simp only [Doc.baseErrs, segEmpty_isaOf _ hl15, toSeg_id]
      rfl)
    (by
      have h1 := segEmpty_toSeg gs (by rw [hgsid]; decide) hnbgs
      simp only [Doc.baseErrs, h1, toSeg_id, hgsid]
      rfl)
    hgrp hviews hdom hcons hbody

/-! ## the 999 -/

/-- the reader's `Segment` for a line of the 999 (all output goes through `X12Writer`: no special case for the ISA) -/
def toSeg9 (x : PSeg) : Doc.Seg := SegText.normSeg ⟨x.id, x.elems⟩

/-- what `X12Writer` sends to the file for the 999 -/
def renderText9 (out : List PSeg) : List Char := (out.map (fun x => render999 x ++ ['\n'])).flatten

/-- **The same for the 999 — NOT proved.**  For every complete 999 of the repaired visitor whose copied values carry no
    delimiter: if the index sends (interchange version, `005010X231`, `FA`) to a loadable map `m`, the segments behind
    ISA, GS are a derivation of `m`'s skeleton through some assignment `node` of intended nodes, each conforms to the
    definition of its node, ISA and GS conform to theirs, and `m` is `WFMap` and `Unambiguous`, then the written text is
    accepted.  (The counterpart of (3) with (1) and (2) left as hypotheses.)  What blocks the route taken for the 997: both
    shipped 999 maps FAIL `WFMap` — the two `2100/CTX` nodes share one path component, the listed finding
    `map:999.5010.xml:wfmap` / `map:999.5010X231.A1.xml:wfmap` — so `Doc.doc_accepts_generated` does not apply to them, and
    a `shape999` with the segment-context loops has not been written. -/
def ack999_revalidates_full : Prop :=
  ∀ (ms : Doc.Maps) (ctx : Doc.Ctx) (control m : Doc.MapX) (cip cgp : List Nat) (s : ErrTree.State) (p : Params)
    (icvn : Str) (isa gs : PSeg) (rest : List PSeg) (node : PSeg → List Nat) (isaDef gsDef : Doc.SegDef)
    (out1 out2 out3 : List Emit) (isaL gsL : LoopN) (isaN gsN : SegN) (isaRest gsRest : List Node),
    Complete999 s → Safe (isaCtl p) → Safe p.gsCtl → (ack999 fixed s p).out = isa :: gs :: rest →
    (∀ x ∈ isa :: gs :: rest, PSegClean x ∧ NonBare x) →
    Doc.gv d997 (toSeg9 isa) 11 = some icvn → (icvn = Tokenizer.v4010 ∨ icvn = Tokenizer.v5010) →
    Doc.findMap ms (if icvn = Tokenizer.v5010 then Doc.ctl501 else Doc.ctl401) = some control →
    Doc.fetchIn ms control (Doc.isaPath ms) = some ⟨control, cip⟩ →
    Doc.fetchIn ms control (Doc.gsPath ms) = some ⟨control, cgp⟩ →
    Doc.lookupDef control cip = some isaDef → Doc.SegAdm ctx control.v5010 d997 isaDef (toSeg9 isa) →
    Doc.getFilename ms.index (some icvn) (some vriic999) (some ['F', 'A']) none = some m.file →
    Doc.findMap ms m.file = some m →
    m.root = [isaL.node (isaN.node :: isaRest)] → isaL.lid = ms.ids.isaLoop → isaN.sid = ms.ids.isa → isaN.q = 0 →
    isaRest.head? = some (gsL.node (gsN.node :: gsRest)) → gsL.lid = ms.ids.gsLoop → gsN.sid = ms.ids.gs → gsN.q = 0 →
    Doc.lookupDef m [0, 1, 0] = some gsDef → Doc.SegAdm ctx m.v5010 d997 gsDef (toSeg9 gs) →
    (∀ x ∈ rest, Doc.BodyOk ctx m d997 (toSeg9 x, node x)) →
    GenList ms.consts [0, 1] 1 gsRest out1 → GenList ms.consts [0] 2 isaRest.tail out2 → out3 = [] →
    rest.map (fun x => (node x, Doc.segData ms m d997 (toSeg9 x))) = out1 ++ out2 ++ out3 →
    WFMap m.root = true → Unambiguous ms.consts m.root = true →
    (Doc.validateDoc ms ctx (renderText9 (ack999 fixed s p).out)).outcome = .verdict true ∧
      Doc.Quiet (Doc.validateDoc ms ctx (renderText9 (ack999 fixed s p).out)).events

/-- **partial (999)**: the functional group header handed to the writer is `FA` with version `005010X231`, which the map
    index knows — the 999 selects the 999 map -/
theorem ack999_revalidates_partial (g : ErrTree.Gs) (p : Params) (gs : PSeg) (h : gsSeg999 g p = some gs) :
    gs.getValue 0 = some ['F', 'A'] ∧ gs.getValue 7 = some vriic999 := by
  unfold gsSeg999 at h
  obtain ⟨y8, w8, k8, e8, q8⟩ := optSet_some _ _ _ _ h
  obtain ⟨y7, w7, k7, _, q7⟩ := optSet_some _ _ _ _ k8
  obtain ⟨y6, w6, k6, _, q6⟩ := optSet_some _ _ _ _ k7
  obtain ⟨y5, w5, k5, _, q5⟩ := optSet_some _ _ _ _ k6
  obtain ⟨y4, w4, k4, _, q4⟩ := optSet_some _ _ _ _ k5
  obtain ⟨y3, w3, k3, _, q3⟩ := optSet_some _ _ _ _ k4
  obtain ⟨y2, w2, k2, _, q2⟩ := optSet_some _ _ _ _ k3
  obtain ⟨y1, w1, k1, e1, q1⟩ := optSet_some _ _ _ _ k2
  simp only [Option.some.injEq] at k1 e1 e8
  subst q8 q7 q6 q5 q4 q3 q2 q1 k1 e1 e8
  have h1 : fmtComp (splitOn ':' ['F', 'A']) = ['F', 'A'] := by decide
  have h2 : fmtComp (splitOn ':' vriic999) = vriic999 := by decide
  exact ⟨by simp [PSeg.getValue, PSeg.setEle, padComps, bare, h1], by simp [PSeg.getValue, PSeg.setEle, padComps, bare, h2]⟩

end Pyx12Verif.C06R
