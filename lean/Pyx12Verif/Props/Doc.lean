/-
End-to-end theorems about `Doc.validateDoc` (Model/Document.lean), the model of `x12n_document` composed of the
component models of C01 / C04 / C02 / C14 / C15 / C05 / C06.

(1) `doc_total`                      which exceptions can leave the pipeline (all texts, all maps with well-formed
                                     segment definitions, all settings)
(2) `doc_delimiter_independent_*`    see Props/DocDelim.lean
(3) `doc_accepts_generated_*`        see Props/DocAccept.lean
-/
import Pyx12Verif.Proofs.DocTotal

namespace Pyx12Verif.Doc
open Pyx12Verif

/-- **Totality of the whole pipeline model.**  For every text, every set of maps whose segment definitions are well formed
    (fewer than 99 children, syntax notes with a known type letter and at least two positions in 01..99 — C14 / C16 facts
    about the shipped maps) and every setting: the tokenizer, the line wrapper, `_parse_segment`, `Segment.get_value`,
    the walker, `segment_if / composite_if / element_if.is_valid` and the syntax notes never raise.  An exception can leave
    `x12n_document` only at
      * `err_handler` (`errTree e`): the AttributeError call sites listed as findings C07 (st_error / gs_error with no
        open set / group, `_add_cur_seg` outside a set),
      * the data-element lookup of an element whose data element dataele.xml does not define (`dataEle`, finding D30),
      * `nodeNone` / `noSegDef`: a map without the node `/ISA_LOOP/ISA`, `/ISA_LOOP/GS_LOOP/GS` or `…/HEADER/BHT`, or a
        skeleton node without definition — inconsistencies of `Maps` that the translator excludes for the shipped maps
        (checked when the maps are serialised: tools/xdoc.py). -/
theorem doc_total (ms : Maps) (hwf : MapsWF ms) (ctx : Ctx) (text : List Char) (site : Site)
    (h : (validateDoc ms ctx text).outcome = .crash site) :
    site = .dataEle ∨ site = .nodeNone ∨ site = .noSegDef ∨ ∃ e, site = .errTree e := by
  have key : (validateDoc ms ctx text).outcome.Ok := by
    unfold validateDoc
    rw [Pipeline.readAll_of_text text [] (by intro k hk; cases hk)]
    unfold Tokenizer.rawSpec
    cases hp : Tokenizer.parseHeader (text.take Tokenizer.ISA_LEN) with
    | error e => trivial
    | ok hd =>
      simp only [validateRead]
      cases hm : findMap ms (controlFile hd) with
      | none => trivial
      | some control =>
        simp only
        have hterm : (SegText.delimsOf hd).term = hd.seg := rfl
        have hcr := C01.reader_never_crashes (SegText.delimsOf hd) text
        have hne := Pipeline.reader_segments_nonEmpty (SegText.delimsOf hd) text
        rw [hterm] at hcr hne
        exact finish_ok _ hcr _
          (runSegs_ok ms hwf ctx control (findMap_mem hm) (SegText.delimsOf hd) _ _
            (initState_ok ms control (findMap_mem hm)) hne)
  rw [h] at key
  exact key

/-- the outcome is a verdict, one of the four documented refusals, or one of the listed crash sites -/
theorem doc_outcomes (ms : Maps) (hwf : MapsWF ms) (ctx : Ctx) (text : List Char) :
    (∃ b, (validateDoc ms ctx text).outcome = .verdict b) ∨ (∃ e, (validateDoc ms ctx text).outcome = .refused e) ∨
    (validateDoc ms ctx text).outcome = .notX12 ∨ (validateDoc ms ctx text).outcome = .mapNotFound ∨
    (validateDoc ms ctx text).outcome = .mapLoadFailed ∨ (validateDoc ms ctx text).outcome = .crash .dataEle ∨
    (validateDoc ms ctx text).outcome = .crash .nodeNone ∨ (validateDoc ms ctx text).outcome = .crash .noSegDef ∨
    ∃ e, (validateDoc ms ctx text).outcome = .crash (.errTree e) := by
  have h := doc_total ms hwf ctx text
  cases hr : (validateDoc ms ctx text).outcome with
  | verdict b => exact Or.inl ⟨b, rfl⟩
  | refused e => exact Or.inr (Or.inl ⟨e, rfl⟩)
  | notX12 => exact Or.inr (Or.inr (Or.inl rfl))
  | mapNotFound => exact Or.inr (Or.inr (Or.inr (Or.inl rfl)))
  | mapLoadFailed => exact Or.inr (Or.inr (Or.inr (Or.inr (Or.inl rfl))))
  | crash s =>
    rcases h s hr with rfl | rfl | rfl | ⟨e, rfl⟩
    · exact Or.inr (Or.inr (Or.inr (Or.inr (Or.inr (Or.inl rfl)))))
    · exact Or.inr (Or.inr (Or.inr (Or.inr (Or.inr (Or.inr (Or.inl rfl))))))
    · exact Or.inr (Or.inr (Or.inr (Or.inr (Or.inr (Or.inr (Or.inr (Or.inl rfl)))))))
    · exact Or.inr (Or.inr (Or.inr (Or.inr (Or.inr (Or.inr (Or.inr (Or.inr ⟨e, rfl⟩)))))))

end Pyx12Verif.Doc
