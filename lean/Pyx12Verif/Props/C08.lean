/-
C08 — X12 → XML → X12 is the identity on structurally valid documents: theorems about the models
Model/XmlOut.lean (x12xml_simple.seg, XMLWriter) and Model/XmlIn.lean (xmlx12_simple.get_segment).

The spec side (Spec/XmlSpec.lean) is the view of a *reader* of the XML: the chain of open elements (`ctxAfter`),
well-formedness (`wellFormed`), the ancestors of every `seg` element (`segCtxs`), entity decoding (`unescape`), and the
segment a faithful round trip returns (`expectedSeg`).

Hypotheses, all per map / per document and checked by harness/c08.py for every shipped map and every document:
* `GoodFrom`: a first-in-loop segment has a non-empty loop path, and the code's character-wise `commonprefix` test
  agrees with the component-wise one (`Agree`); `good_of_map` derives it from `noSiblingLoopIdPrefix` over the map's
  loop paths.  `misfire_*` shows what the code does without it.
* `wfIds` (element id = segment id + two-digit position, sub-element id = that + `-` + position) and `fits` (the data
  has no more elements / sub-elements than the node, one value per simple element, no `:` in simple values — `*` for
  ISA16) for the rebuild (`rebuild_identity` per segment, `doc_roundtrip` for the whole document).
Everything is proved at full strength; there is no `_partial` statement in this file.
-/
import Pyx12Verif.Proofs.XmlEscape
import Pyx12Verif.Proofs.XmlPaths
import Pyx12Verif.Proofs.XmlPlumb
import Pyx12Verif.Proofs.XmlDoc

namespace Pyx12Verif.Xml
open Pyx12Verif.Segment (SegObj Comp)

/-! ### escaping -/

/-- decoding the five predefined entities inverts the writer's text escaping -/
theorem unescape_escapeText (s : Str) : unescape (escapeText s) = s := by
  induction s with
  | nil => rfl
  | cons c r ih =>
    rw [escapeText_cons]
    unfold unescape at ih ⊢
    rw [unescape_escT, ih]

/-- … and its attribute escaping -/
theorem unescape_escapeAttr (s : Str) : unescape (escapeAttr s) = s := by
  induction s with
  | nil => rfl
  | cons c r ih =>
    rw [escapeAttr_cons]
    unfold unescape at ih ⊢
    rw [unescape_escA, ih]

/-- both at once (the statement named in the design) -/
theorem unescape_escape (s : Str) : unescape (escapeText s) = s ∧ unescape (escapeAttr s) = s :=
  ⟨unescape_escapeText s, unescape_escapeAttr s⟩

/-- escaped text cannot open a tag; an escaped attribute value can neither open a tag nor end the single-quoted value -/
theorem escape_safe (s : Str) : '<' ∉ escapeText s ∧ '<' ∉ escapeAttr s ∧ '\'' ∉ escapeAttr s := by
  induction s with
  | nil => simp [escapeText_nil, escapeAttr_nil]
  | cons c r ih =>
    rw [escapeText_cons, escapeAttr_cons]
    obtain ⟨h1, h2, h3⟩ := ih
    have t : '<' ∉ escT c := by
      unfold escT; split
      · decide
      · split
        · decide
        · split
          · decide
          · rename_i h _; simpa using fun e => h e.symm
    have a : '<' ∉ escA c ∧ '\'' ∉ escA c := by
      unfold escA; split
      · decide
      · split
        · decide
        · split
          · decide
          · split
            · decide
            · rename_i h0 h _; exact ⟨by simpa using fun e => h e.symm, by simpa using fun e => h0 e.symm⟩
    simp only [List.mem_append, not_or]
    exact ⟨⟨t, h1⟩, ⟨a.1, h2⟩, ⟨a.2, h3⟩⟩

/-! ### the loop stack -/

/-- what the theorems assume of a run that starts after a segment with loop path `last` -/
def GoodFrom : List Str → List Step → Prop
  | _, [] => True
  | last, x :: r => (x.first = true → x.path ≠ []) ∧ Agree x.path last ∧ GoodFrom x.path r

def lastPathOf : List Str → List Step → List Str
  | last, [] => last
  | _, x :: r => lastPathOf x.path r

/-- the ancestors a reader must find around the `seg` element of a step -/
def placeOf (x : Step) : Ctx × Option Str := (spell x.path, some x.node.sid)

/-- one call of `seg()` on a stack that spells the previous path -/
theorem segStep_ok (last : List Str) (x : Step) (hne : x.first = true → x.path ≠ []) (hag : Agree x.path last)
    (st' : St) (evs : List Ev) (h : segStep ⟨last, tagRoot :: loopTags last.length⟩ x = .ok (st', evs)) :
    st' = ⟨x.path, tagRoot :: loopTags x.path.length⟩ ∧
    ∃ body, Neutral body ∧
      evs = transEvents last x.path x.first ++ (.start tagSeg (some x.node.sid) :: body ++ [.stop tagSeg]) := by
  unfold segStep at h
  have ht := transition_ok [tagRoot] last x.path x.first [] hne hag
  simp only [List.singleton_append, List.nil_append] at ht
  simp only [ht] at h
  split at h
  · simp at h
  · rename_i w' hw
    simp only [Except.ok.injEq, Prod.mk.injEq] at h
    obtain ⟨hs, body, hn, ho⟩ := segOut_ok _ _ _ _ _ hw
    obtain ⟨h1, h2⟩ := h
    subst h1 h2
    exact ⟨by rw [hs], body, hn, ho⟩

theorem segStep_moves (last : List Str) (x : Step) (hne : x.first = true → x.path ≠ []) (hag : Agree x.path last)
    (st' : St) (evs : List Ev) (h : segStep ⟨last, tagRoot :: loopTags last.length⟩ x = .ok (st', evs)) :
    st' = ⟨x.path, tagRoot :: loopTags x.path.length⟩ ∧ Moves evs (spell last) (spell x.path) [placeOf x] := by
  obtain ⟨hs, body, hn, he⟩ := segStep_ok last x hne hag st' evs h
  refine ⟨hs, ?_⟩
  subst he
  have h1 := transEvents_moves last x.path x.first
  have h2 := Moves.segElem hn (spell x.path) (spell_ne_nil _) (some x.node.sid)
  simpa [placeOf] using h1.append h2

theorem run_moves : ∀ (steps : List Step) (last : List Str), GoodFrom last steps → ∀ (st : St) (evs : List Ev),
    run ⟨last, tagRoot :: loopTags last.length⟩ steps = .ok (st, evs) →
    st = ⟨lastPathOf last steps, tagRoot :: loopTags (lastPathOf last steps).length⟩ ∧
    Moves evs (spell last) (spell (lastPathOf last steps)) (steps.map placeOf)
  | [], last, _, st, evs => by
    intro h
    simp only [run, Except.ok.injEq, Prod.mk.injEq] at h
    obtain ⟨rfl, rfl⟩ := h
    exact ⟨rfl, Moves.nil _⟩
  | x :: r, last, hg, st, evs => by
    intro h
    obtain ⟨hne, hag, hg'⟩ := hg
    simp only [run] at h
    split at h
    · simp at h
    · rename_i st1 evs1 h1
      split at h
      · simp at h
      · rename_i st2 evs2 h2
        simp only [Except.ok.injEq, Prod.mk.injEq] at h
        obtain ⟨rfl, rfl⟩ := h
        obtain ⟨hs1, hm1⟩ := segStep_moves last x hne hag st1 evs1 h1
        subst hs1
        obtain ⟨hs2, hm2⟩ := run_moves r x.path hg' st2 evs2 h2
        exact ⟨hs2, by simpa [lastPathOf] using hm1.append hm2⟩

/-- **stack invariant.**  After every call of `seg()` the writer's stack holds the root element and one `loop` per
    component of the loop path of the node just written, `last_path` is that path, and a reader of everything written so
    far has exactly the elements open that spell this path. -/
theorem stack_invariant (steps : List Step) (hg : GoodFrom [] steps) (st : St) (evs : List Ev)
    (h : run initSt steps = .ok (st, evs)) :
    st.lastPath = lastPathOf [] steps ∧
    st.stack = tagRoot :: (lastPathOf [] steps).map (fun _ => tagLoop) ∧
    ctxAfter [] (initEvs ++ evs) = some (spell (lastPathOf [] steps)) := by
  obtain ⟨hs, hm⟩ := run_moves steps [] hg st evs (by simpa [initSt, loopTags] using h)
  subst hs
  refine ⟨rfl, by simp [loopTags, List.map_const'], ?_⟩
  have := (hm []).1
  simp only [List.append_nil] at this
  simpa [initEvs, ctxAfter, ctxStep, spell] using this

/-- the stop events `__del__` writes for a stack that spells `p` -/
theorem delEvs_eq (p : List Str) :
    delEvs ⟨p, tagRoot :: loopTags p.length⟩ = List.replicate p.length (.stop tagLoop) ++ [.stop tagRoot] := by
  unfold delEvs
  have h := popN_loops [tagRoot] p.length p.length [] (Nat.le_refl _)
  simp only [List.singleton_append, List.nil_append, Nat.sub_self] at h
  have e : (tagRoot :: loopTags p.length).length = p.length + 1 := by simp [loopTags]
  have hp : ∀ (a b : Nat) (w : W), popN (a + b) w = popN b (popN a w) := by
    intro a b w
    induction a generalizing w with
    | zero => simp [popN]
    | succ a ih => rw [Nat.succ_add, popN, popN, ih]
  simp only [e]
  rw [hp, h]
  simp [popN, W.pop, loopTags]

/-- what a reader finds in a whole document -/
theorem doc_moves (steps : List Step) (hg : GoodFrom [] steps) (evs : List Ev) (h : docEvents steps = .ok evs) :
    ∃ body, evs = .start tagRoot none :: (body ++ [.stop tagRoot]) ∧ Moves body (spell []) (spell []) (steps.map placeOf) := by
  unfold docEvents at h
  split at h
  · simp at h
  · rename_i st evs1 h1
    simp only [Except.ok.injEq] at h
    subst h
    obtain ⟨hs, hm⟩ := run_moves steps [] hg st evs1 (by simpa [initSt, loopTags] using h1)
    subst hs
    rw [delEvs_eq]
    refine ⟨evs1 ++ List.replicate (lastPathOf [] steps).length (.stop tagLoop), by simp [initEvs], ?_⟩
    have h2 := Moves.stops (lastPathOf [] steps) []
    simp only [List.nil_append] at h2
    simpa using hm.append h2

/-- **segments sit at their map path.**  In the finished document the `seg` elements are, in order, those of the steps,
    each with the id of its node and inside exactly the root and the `loop` elements that spell the node's loop path. -/
theorem seg_nesting (steps : List Step) (hg : GoodFrom [] steps) (evs : List Ev) (h : docEvents steps = .ok evs) :
    segCtxs [] evs = steps.map placeOf := by
  obtain ⟨body, rfl, hm⟩ := doc_moves steps hg evs h
  have := (hm [.stop tagRoot]).2.1
  have ne : tagRoot ≠ tagSeg := by decide
  simp only [segCtxs, ne, if_false, List.nil_append]
  rw [show [(tagRoot, (none : Option Str))] = spell [] from rfl, this]
  simp [segCtxs]

/-- **balanced.**  After `__del__` every start tag has its end tag, properly nested, under one root. -/
theorem xml_balanced (steps : List Step) (hg : GoodFrom [] steps) (evs : List Ev) (h : docEvents steps = .ok evs) :
    wellFormed evs = true := by
  obtain ⟨body, rfl, hm⟩ := doc_moves steps hg evs h
  have := (hm [.stop tagRoot]).2.2
  simp only [wellFormed]
  rw [show [(tagRoot, (none : Option Str))] = spell [] from rfl, this]
  simp [wfInside, ctxStep, spell]

/-- **loop repeat.**  Same loop path as the previous segment and first segment of the loop: the innermost open element
    is closed and a fresh `loop` element with the same id is opened before the segment (whatever the stack holds). -/
theorem loop_repeat_fresh (st : St) (x : Step) (p : List Str) (l t : Str) (s : List Str)
    (hsame : st.lastPath = x.path) (hfirst : x.first = true) (hp : x.path = p ++ [l]) (hst : st.stack = s ++ [t])
    (st' : St) (evs : List Ev) (h : segStep st x = .ok (st', evs)) :
    st'.stack = s ++ [tagLoop] ∧
    ∃ body, evs = .stop t :: .start tagLoop (some l) :: .start tagSeg (some x.node.sid) :: (body ++ [.stop tagSeg]) := by
  unfold segStep transition at h
  simp only [hsame, hfirst, beq_self_eq_true, Bool.and_self, if_true, hp, List.getLast?_append, List.getLast?_singleton,
    Option.some_or, hst, pop_snoc, W.push, List.nil_append] at h
  split at h
  · simp at h
  · rename_i w' hw
    simp only [Except.ok.injEq, Prod.mk.injEq] at h
    obtain ⟨hs, body, _, ho⟩ := segOut_ok _ _ _ _ _ hw
    obtain ⟨h1, h2⟩ := h
    subst h1 h2
    exact ⟨hs, body, by simp [ho]⟩

/-- **fresh instances in general.**  Before the segment, `seg()` closes the loops below depth `d` and opens those of the
    new path below `d`, where `d` is determined by the map structure alone: the two paths agree on their first `d`
    components; when the segment is the first of its loop and that loop was open (its path is a prefix of the previous
    one) `d` stops just above that loop; otherwise `d` is the longest common prefix. -/
theorem fresh_instances (last : List Str) (x : Step) (hne : x.first = true → x.path ≠ []) (hag : Agree x.path last)
    (st' : St) (evs : List Ev) (h : segStep ⟨last, tagRoot :: loopTags last.length⟩ x = .ok (st', evs)) :
    ∃ d rest, evs = List.replicate (last.length - d) (.stop tagLoop) ++ (x.path.drop d).map loopStart ++ rest ∧
      d ≤ last.length ∧ d ≤ x.path.length ∧ last.take d = x.path.take d ∧
      (x.first = true ∧ x.path <+: last → d = x.path.length - 1) ∧
      (¬ (x.first = true ∧ x.path <+: last) →
        ∀ k, k ≤ last.length → k ≤ x.path.length → last.take k = x.path.take k → k ≤ d) := by
  obtain ⟨_, body, _, he⟩ := segStep_ok last x hne hag st' evs h
  refine ⟨sharedDepth last x.path x.first, _, he, sharedDepth_le_last _ _ _, sharedDepth_le_cur _ _ _, sharedDepth_take _ _ _, ?_, ?_⟩
  · intro hc; simp [sharedDepth, hc]
  · intro hc k hk1 hk2 hk
    simp only [sharedDepth, hc, if_false]
    apply Nat.le_of_not_lt
    intro hlt
    have hd := pmi_differ last x.path (by omega) (by omega)
    apply hd
    have e1 : (last.take k)[pathMatchIdx last x.path]? = last[pathMatchIdx last x.path]? := by
      rw [List.getElem?_take]; simp [hlt]
    have e2 : (x.path.take k)[pathMatchIdx last x.path]? = x.path[pathMatchIdx last x.path]? := by
      rw [List.getElem?_take]; simp [hlt]
    rw [← e1, ← e2, hk]

/-! ### the per-map side condition -/

/-- every loop path a document can present comes from the map's loop paths `P`; when no sibling loop id is a textual
    prefix of another (and ids are non-empty and slash-free) the run is good -/
theorem good_of_map (P : List (List Str)) (hP : noSiblingLoopIdPrefix P = true) :
    ∀ (steps : List Step) (last : List Str), (last = [] ∨ last ∈ P) →
      (∀ x ∈ steps, x.path ∈ P ∧ (x.first = true → x.path ≠ [])) → GoodFrom last steps
  | [], _, _, _ => trivial
  | x :: r, last, hl, hs => by
    have hx := hs x (by simp)
    simp only [noSiblingLoopIdPrefix, Bool.and_eq_true, List.all_eq_true, allPairs] at hP
    have hcur : idsOK x.path = true := hP.1 _ hx.1
    have hag : Agree x.path last := by
      rcases hl with rfl | hl
      · exact agree_of_sibOK _ _ hcur rfl (by cases x.path <;> rfl)
      · exact agree_of_sibOK _ _ hcur (hP.1 _ hl) (hP.2 _ hx.1 _ hl)
    refine ⟨hx.2, hag, good_of_map P ?_ r x.path (Or.inr hx.1) (fun y hy => hs y (by simp [hy]))⟩
    simp only [noSiblingLoopIdPrefix, Bool.and_eq_true, List.all_eq_true, allPairs]
    exact hP

/-- the decidable form of the run hypotheses (what the driver evaluates on every tested document) implies them -/
theorem good_of_goodFromB : ∀ (steps : List Step) (last : List Str), goodFromB last steps = true → GoodFrom last steps
  | [], _, _ => trivial
  | x :: r, last, h => by
    simp only [goodFromB, Bool.and_eq_true, Bool.or_eq_true, Bool.not_eq_true', agreeB, beq_iff_eq] at h
    obtain ⟨⟨h1, h2⟩, h3⟩ := h
    refine ⟨?_, ?_, good_of_goodFromB r x.path h3⟩
    · intro hf hp
      rcases h1 with h1 | h1
      · simp [hf] at h1
      · simp [hp] at h1
    · unfold Agree
      rw [← List.isPrefixOf_iff_prefix, ← h2]
      simp

/-! ### back to X12 -/

/-- **rebuild identity.**  For a node with well-formed ids and data that fits it, `seg()` writes one `seg` element;
    the element tree a parser builds from it is a single node, and `get_segment` on that node returns exactly the source
    segment with not-used elements blanked and trailing empty (sub-)elements dropped. -/
theorem rebuild_identity (node : SegDef) (seg : SegObj) (hw : wfIds node = true) (hf : fits node seg = true)
    (s : List Str) (o : List Ev) :
    ∃ evs n r, segOut node seg ⟨s, o⟩ = .ok ⟨s, o ++ evs⟩ ∧ buildTree evs = some [n] ∧ getSegment n = .ok r ∧
      Segment.toSeg r = expectedSeg node (Segment.toSeg seg) := by
  have hs : segIdOK node.sid = true := by
    simp only [wfIds, Bool.and_eq_true] at hw; exact hw.1.1
  have h99 : node.children.length ≤ 99 := by
    simp only [wfIds, Bool.and_eq_true, decide_eq_true_eq] at hw; exact hw.1.2
  have hids : childrenIdsOK node.sid 0 node.children = true := by
    simp only [wfIds, Bool.and_eq_true] at hw; exact hw.2
  have hfit : fitsFrom (Segment.isISA node.sid) 0 node.children seg.elements = true := by
    simp only [fits, Bool.and_eq_true] at hf; exact hf.2
  obtain ⟨acc, h1, h2⟩ := applyItems_spec node.sid hs node.children seg.elements 0 hids hfit (by omega) [] rfl
    (fun _ h => by simp at h) [] (by simp [trimElems])
  refine ⟨_, _, rb node.sid acc, segOut_evs node seg hw hf s o, buildTree_seg node.sid _, ?_, ?_⟩
  · rw [getSegment_seg node.sid hs, h1]
  · simp only [Segment.toSeg, rb, expectedSeg, h2, List.nil_append]

/-- the `seg` node a parser builds for a step -/
def segNodeOf (x : Step) : XNode :=
  .mk tagSeg (some x.node.sid) none ((itemsOf x.node.children x.seg.elements).map (itemNode x.node.sid))

theorem getSegment_node (node : SegDef) (seg : SegObj) (hw : wfIds node = true) (hf : fits node seg = true) :
    ∃ r, getSegment (.mk tagSeg (some node.sid) none ((itemsOf node.children seg.elements).map (itemNode node.sid))) = .ok r ∧
      Segment.toSeg r = expectedSeg node (Segment.toSeg seg) := by
  obtain ⟨evs, n, r, h1, h2, h3, h4⟩ := rebuild_identity node seg hw hf [] []
  have e := segOut_evs node seg hw hf [] []
  rw [e] at h1
  simp only [Except.ok.injEq, W.mk.injEq, List.nil_append, true_and] at h1
  subst h1
  rw [buildTree_seg] at h2
  simp only [Option.some.injEq, List.cons.injEq, and_true] at h2
  subst h2
  exact ⟨r, h3, h4⟩

/-- one `seg()` call, with the events of the segment spelled out -/
theorem segStep_evs (last : List Str) (x : Step) (hne : x.first = true → x.path ≠ []) (hag : Agree x.path last)
    (hw : wfIds x.node = true) (hf : fits x.node x.seg = true) :
    segStep ⟨last, tagRoot :: loopTags last.length⟩ x = .ok (⟨x.path, tagRoot :: loopTags x.path.length⟩,
      transEvents last x.path x.first ++ (.start tagSeg (some x.node.sid) ::
        itemsEvs x.node.sid (itemsOf x.node.children x.seg.elements) ++ [.stop tagSeg])) := by
  unfold segStep
  have ht := transition_ok [tagRoot] last x.path x.first [] hne hag
  simp only [List.singleton_append, List.nil_append] at ht
  simp only [ht, segOut_evs x.node x.seg hw hf]

def StepsFit (steps : List Step) : Prop := ∀ x ∈ steps, wfIds x.node = true ∧ fits x.node x.seg = true

/-- the decidable form evaluated by the driver on every tested document -/
theorem stepsFit_of_stepsFitB : ∀ (steps : List Step), stepsFitB steps = true → StepsFit steps
  | [], _ => by intro x hx; simp at hx
  | y :: r, h => by
    simp only [stepsFitB, Bool.and_eq_true] at h
    intro x hx
    simp only [List.mem_cons] at hx
    rcases hx with rfl | hx
    · exact ⟨h.1.1, h.1.2⟩
    · exact stepsFit_of_stepsFitB r h.2 x hx

theorem run_TB : ∀ (steps : List Step) (last : List Str), GoodFrom last steps → StepsFit steps →
    ∃ evs, run ⟨last, tagRoot :: loopTags last.length⟩ steps
        = .ok (⟨lastPathOf last steps, tagRoot :: loopTags (lastPathOf last steps).length⟩, evs) ∧
      TB evs (spell last) (spell (lastPathOf last steps)) (steps.map segNodeOf)
  | [], last, _, _ => ⟨[], rfl, TB.nil _⟩
  | x :: r, last, hg, hfit => by
    obtain ⟨hne, hag, hg'⟩ := hg
    have hx := hfit x (by simp)
    obtain ⟨evs2, h2, t2⟩ := run_TB r x.path hg' (fun y hy => hfit y (by simp [hy]))
    refine ⟨transEvents last x.path x.first ++ (.start tagSeg (some x.node.sid) ::
        itemsEvs x.node.sid (itemsOf x.node.children x.seg.elements) ++ [.stop tagSeg]) ++ evs2,
      by simp only [run, segStep_evs last x hne hag hx.1 hx.2, h2, lastPathOf], ?_⟩
    have t1 := (TB.trans last x.path x.first).append
      (TB.segElem (spell x.path) (spell_ne_nil _) x.node.sid (itemsOf x.node.children x.seg.elements))
    simpa [segNodeOf, lastPathOf] using t1.append t2

theorem segsOf_nodes : ∀ (steps : List Step), StepsFit steps →
    ∃ segs, segsOf (steps.map segNodeOf) = .ok segs ∧
      segs.map Segment.toSeg = steps.map (fun x => expectedSeg x.node (Segment.toSeg x.seg))
  | [], _ => ⟨[], rfl, rfl⟩
  | x :: r, hfit => by
    have hx := hfit x (by simp)
    obtain ⟨s1, g1, g2⟩ := getSegment_node x.node x.seg hx.1 hx.2
    obtain ⟨ss, h1, h2⟩ := segsOf_nodes r (fun y hy => hfit y (by simp [hy]))
    refine ⟨s1 :: ss, ?_, by simp [g2, h2]⟩
    have ht : (segNodeOf x).tag = tagSeg := rfl
    simp only [List.map_cons, segsOf, ht, if_true]
    rw [show getSegment (segNodeOf x) = .ok s1 from g1, h1]

/-- **the round trip of a whole document.**  Under the run hypotheses, with well-formed ids and fitting data in every
    step: `seg()` never fails, the events form one element tree, and the segments `convert` hands to the X12 writer on its
    walk over that tree are, in order, the source segments with not-used elements blanked and trailing empties dropped. -/
theorem doc_roundtrip (steps : List Step) (hg : GoodFrom [] steps) (hfit : StepsFit steps) :
    ∃ evs root segs, docEvents steps = .ok evs ∧ buildTree evs = some [root] ∧ convertSegs root = .ok segs ∧
      segs.map Segment.toSeg = steps.map (fun x => expectedSeg x.node (Segment.toSeg x.seg)) := by
  obtain ⟨body, hrun, tb⟩ := run_TB steps [] hg hfit
  have hrun' : run initSt steps = .ok (⟨lastPathOf [] steps, tagRoot :: loopTags (lastPathOf [] steps).length⟩, body) := by
    simpa [initSt, loopTags] using hrun
  have tb2 := tb.append (TB.stops (lastPathOf [] steps) [])
  simp only [List.append_nil] at tb2
  obtain ⟨fs', hf', hb, hv⟩ := tb2 [⟨tagRoot, none, []⟩] rfl [] [.stop tagRoot]
  obtain ⟨segs, hs1, hs2⟩ := segsOf_nodes steps hfit
  -- the frames that spell the empty path are the root frame alone
  obtain ⟨f', rfl, htag, hid⟩ : ∃ f', fs' = [f'] ∧ f'.tag = tagRoot ∧ f'.id = none := by
    cases fs' with
    | nil => simp [FramesFor, spell] at hf'
    | cons f' r =>
      cases r with
      | nil =>
        simp only [FramesFor, spell, List.reverse_cons, List.reverse_nil, List.nil_append, List.map_cons, List.map_nil,
          List.cons.injEq, Prod.mk.injEq, and_true] at hf'
        exact ⟨f', rfl, hf'.1, hf'.2⟩
      | cons g r' =>
        have := congrArg List.length hf'
        simp [FramesFor, spell] at this
  refine ⟨initEvs ++ body ++ (List.replicate (lastPathOf [] steps).length (.stop tagLoop) ++ [.stop tagRoot]),
    .mk f'.tag f'.id none f'.kids, segs, ?_, ?_, ?_, hs2⟩
  · simp only [docEvents, hrun', delEvs_eq]
  · simp only [buildTree, initEvs, List.cons_append, List.nil_append, buildFrom, List.append_assoc]
    rw [← List.append_assoc, hb]
    simp [buildFrom, htag, attach]
  · have hns : ¬ f'.tag = tagSeg := by rw [htag]; decide
    simp only [convertSegs, iterNode, segsOf, XNode.tag, hns, if_false]
    rw [segsOf_filter]
    have : segView (iterList f'.kids) = steps.map segNodeOf := by
      simpa [flat, iterList, segView] using hv
    rw [this, hs1]

/-! ### what happens without the side condition (the code as it is) -/

section misfire
def idA : Str := ['A']
def id20 : Str := ['2', '0']
def id200 : Str := ['2', '0', '0']
def idX : Str := ['X']

/-- sibling loops `20` and `200` under `A`: leaving `A/200/X` for the first segment of `A/20`, the code also closes and
    re-opens `A` (three end tags, two start tags) although the map structure asks only for `200/X` to be closed -/
theorem misfire_reopens_parent :
    transition [idA, id200, idX] [idA, id20] true ⟨tagRoot :: loopTags 3, []⟩ =
      .ok ⟨tagRoot :: loopTags 2, [.stop tagLoop, .stop tagLoop, .stop tagLoop, loopStart idA, loopStart id20]⟩
    ∧ transEvents [idA, id200, idX] [idA, id20] true = [.stop tagLoop, .stop tagLoop, loopStart id20]
    ∧ ¬ Agree [idA, id20] [idA, id200, idX] := by
  refine ⟨rfl, rfl, ?_⟩
  intro h
  have := h.mp rfl
  revert this
  decide

/-- the same at the top level closes the root element: the document gets a second root -/
theorem misfire_closes_root :
    transition [id200] [id20] true ⟨tagRoot :: loopTags 1, []⟩ =
      .ok ⟨[tagLoop, tagLoop], [.stop tagLoop, .stop tagRoot, loopStart id20, loopStart id20]⟩ := rfl

/-- such ids are what `noSiblingLoopIdPrefix` excludes -/
example : noSiblingLoopIdPrefix [[idA], [idA, id20], [idA, id200], [idA, id200, idX]] = false := by decide
end misfire

/-! ### non-vacuity: a small run satisfying every hypothesis -/

section example_run
def lI : Str := ['I']
def lG : Str := ['G']
def lD : Str := ['2', '0', '0', '0', 'A']
def lN : Str := ['2', '0', '1', '0']
def sHL : Str := ['H', 'L']
def sNM : Str := ['N', 'M', '1']

def nodeHL : SegDef := ⟨sHL, [.elem 1 (sHL ++ ['0', '1']) false, .elem 2 (sHL ++ ['0', '2']) true]⟩
def nodeNM : SegDef :=
  ⟨sNM, [.elem 1 (sNM ++ ['0', '1']) false, .comp 2 false [sNM ++ ['0', '2', '-', '0', '1'], sNM ++ ['0', '2', '-', '2']]]⟩
def dataHL (v : Str) : SegObj := ⟨sHL, [⟨':', [v]⟩, ⟨':', [['x']]⟩], '*', ':'⟩
def dataNM : SegObj := ⟨sNM, [⟨':', [['<', '&']]⟩, ⟨':', [[], ['b', ' ']]⟩], '*', ':'⟩

def exPaths : List (List Str) := [[lI], [lI, lG], [lI, lG, lD], [lI, lG, lD, lN]]

/-- two `2000A` loops back to back, the second reached from inside the nested `2010` loop -/
def exSteps : List Step :=
  [⟨[lI, lG, lD], true, nodeHL, dataHL ['1']⟩, ⟨[lI, lG, lD, lN], true, nodeNM, dataNM⟩,
   ⟨[lI, lG, lD], true, nodeHL, dataHL ['2']⟩, ⟨[lI, lG, lD], true, nodeHL, dataHL ['3']⟩]

example : noSiblingLoopIdPrefix exPaths = true := by decide
example : wfIds nodeHL = true ∧ wfIds nodeNM = true := by decide
example : fits nodeHL (dataHL ['1']) = true ∧ fits nodeNM dataNM = true := by decide
/-- `HL02` is not used and dropped; the composite keeps its empty first component; `<&` and the trailing blank survive -/
example : expectedSeg nodeNM (Segment.toSeg dataNM) = ⟨sNM, [[['<', '&']], [[], ['b', ' ']]]⟩
    ∧ expectedSeg nodeHL (Segment.toSeg (dataHL ['1'])) = ⟨sHL, [[['1']]]⟩ := by decide

theorem exSteps_good : GoodFrom [] exSteps :=
  good_of_map exPaths (by decide) exSteps [] (Or.inl rfl) (by decide)

/-- the whole-document round trip applies to it -/
example : ∃ evs root segs, docEvents exSteps = .ok evs ∧ buildTree evs = some [root] ∧ convertSegs root = .ok segs ∧
    segs.map Segment.toSeg = exSteps.map (fun x => expectedSeg x.node (Segment.toSeg x.seg)) :=
  doc_roundtrip exSteps exSteps_good (stepsFit_of_stepsFitB exSteps (by decide))

/-- the run succeeds, so the theorems above speak about it -/
theorem exSteps_runs : ∃ evs, docEvents exSteps = .ok evs ∧ wellFormed evs = true ∧ segCtxs [] evs = exSteps.map placeOf := by
  have hok : (match docEvents exSteps with | .ok _ => true | .error _ => false) = true := by decide
  cases h : docEvents exSteps with
  | error e => rw [h] at hok; simp at hok
  | ok evs => exact ⟨evs, rfl, xml_balanced _ exSteps_good _ h, seg_nesting _ exSteps_good _ h⟩
end example_run

end Pyx12Verif.Xml
