/-
Non-vacuity, second part (see Props/CtxDocExample.lean): the hypotheses of `ctxDoc_total_sharp`,
`ctxDoc_partition_generated` and `ctxDoc_delimiter_independent` are satisfiable — all of them are discharged for the
conformant document of Props/DocExample3.lean written with `~ * :` / CRLF (and `LF | :`), ST_LOOP requested.
-/
import Pyx12Verif.Props.CtxDoc
import Pyx12Verif.Props.CtxDocPartition
import Pyx12Verif.Props.CtxDocDelim
import Pyx12Verif.Props.DocDelimExample

namespace Pyx12Verif.Doc.Ex
open Pyx12Verif Pyx12Verif.Doc MapSkel WalkerGen

/-! ### (a) applies -/

theorem pin_ok : ∀ f control, (f = ctl401 ∨ f = ctl501) → findMap ms f = some control → isaPinOK ms control = true := by
  intro f control hf hm
  rcases hf with rfl | rfl
  · have : findMap ms ctl401 = some (mapX "x12.control.00401.xml") := rfl
    rw [this] at hm
    rw [← Option.some.inj hm]
    decide +kernel
  · have : findMap ms ctl501 = none := rfl
    rw [this] at hm
    cases hm

example (lid : Option Ctx.LoopId) (site : CSite) (h : (ctxDoc ms lid good).stop = .crash site) :
    site = .nodeNone ∨ ∃ c, site = .reader c ∧ c ≠ Ctx.Crash.noCurrentNode :=
  ctxDoc_total_sharp ms lid good
    (by
      intro hd hp
      have : Tokenizer.parseHeader (good.take Tokenizer.ISA_LEN) = .ok hdr := by decide +kernel
      rw [this] at hp
      rw [← Tokenizer.HeaderRes.ok.inj hp]
      exact ⟨by decide, by decide⟩)
    pin_ok site h

/-! ### (b) applies -/

theorem norm_all : ∀ s ∈ isa :: gs :: body.map (·.1), SegText.normSeg s = s := by
  have h : (isa :: gs :: body.map (·.1)).all (fun s => decide (SegText.normSeg s = s)) = true := by decide +kernel
  intro s hs
  exact of_decide_eq_true (List.all_eq_true.1 h s hs)

theorem ctlAgree : CtlAgrees ms control m 0 [0, 0] :=
  ⟨by decide +kernel, by decide +kernel, by decide +kernel, by decide +kernel, by decide +kernel, by decide +kernel⟩

/-- **every hypothesis of `ctxDoc_partition_generated` is satisfied** by the conformant document written with `~ * :` and
    CRLF after every terminator, ST_LOOP requested -/
theorem good_partition :
    (ctxDoc ms (some 14) textA).stop = .done ∧
    (((ctxDoc ms (some 14) textA).yields.map Ctx.segsOf).flatten.map (fun i => (i.text, i.line))) =
      (List.range (body.length + 2)).map (fun k => (k, k + 1)) ∧
    (ctxDoc ms (some 14) textA).segs = isa :: gs :: body.map (·.1) :=
  ctxDoc_partition_generated ms (some 14) dA ['\r', '\n'] isa gs body textA hdrA control m 0 1 [0, 0] [0, 1, 0]
    ⟨by decide, by decide, by decide⟩ brkCRLF cleanA norm_all (by decide +kernel) (by decide +kernel) rfl
    (by decide +kernel) (by decide +kernel) (by decide +kernel)
    (isaSeg := nISA) (isaRest := [nGSLOOP, nIEA]) rfl rfl rfl
    (gsSeg := nGS) (gsRest := [nSTLOOP, nGE]) rfl rfl rfl
    (by decide)
    (by intro j c hj; omega) (by intro j c h1 h2; omega)
    deriv1 deriv2 .nil hemits
    (CtxWalk.lidOK_of_bool (by decide +kernel))
    rfl rfl rfl ctlAgree (by decide +kernel) rfl rfl (by decide +kernel) (by decide +kernel) (by decide +kernel)
    (by decide +kernel)
    (by
      have h : body.all (fun x => decide (x.1.id ≠ Envelope.idISA) && decide (x.1.id ≠ Envelope.idGS)) = true := by
        decide +kernel
      intro x hx
      have := List.all_eq_true.1 h x hx
      simp only [Bool.and_eq_true, decide_eq_true_eq] at this
      exact this)

/-- … and, independently of the proof, the kernel computes these yields -/
example : (ctxDoc ms (some 14) textA).yields.map (fun y => (Ctx.segsOf y).map (·.text)) = [[0], [1], [2, 3, 4], [5], [6]] := by
  decide +kernel

/-! ### (c) applies -/

theorem good_ctx_same_sub (lid : Option Ctx.LoopId) : ctxDoc ms lid textA = ctxDoc ms lid textB :=
  ctxDoc_delimiter_independent ms lid dA dB ['\r', '\n'] [] segsAll textA textB hdrA hdrB
    ⟨⟨by decide, by decide, by decide⟩, ⟨by decide, by decide, by decide⟩, fun s hs => ⟨cleanA s hs, cleanB s hs⟩⟩
    brkCRLF brkNone (by decide +kernel) (by decide +kernel) (by decide +kernel) (by decide +kernel) rfl rfl rfl rfl

end Pyx12Verif.Doc.Ex
