/-
C10 — the tree-editing API obeys its read / write / insert / delete / copy laws (theorems about
Model/DataTree.lean, the model of pyx12/x12context.py with the fixes D12, D40, D41).
-/
import Pyx12Verif.Model.DataTree
import Pyx12Verif.Proofs.DataTree
import Pyx12Verif.Proofs.DataTreeSet

namespace Pyx12Verif.DataTree

/-! ## queries_agree : exists / count / first / select -/

/-- On a loop node: whenever `select` returns normally with the list `l`, `exists` is `l ≠ []`, `count` is its
length and `first` is its head; whenever the search itself raises, all four raise the same exception.  (The only
other outcome of `select` is its own assertion; see `queries_agree_assert`.) -/
theorem queries_agree (t : DNode) (a : List Nat) (ps : Str) (hl : isSegNode (getAt a t) = false) :
    (∀ l, selectApi t a ps = .ok l →
        existsAt t a ps = .ok (!l.isEmpty) ∧ countAt t a ps = .ok l.length ∧ firstAt t a ps = .ok l.head? ∧
        (existsAt t a ps = .ok true ↔ 0 < l.length) ∧ (firstAt t a ps = .ok none ↔ l = [])) ∧
    (∀ e, selectAt t a ps = .error e →
        selectApi t a ps = .error e ∧ existsAt t a ps = .error e ∧ countAt t a ps = .error e ∧
        firstAt t a ps = .error e) := by
  constructor
  · intro l h
    simp only [selectApi, hl, selectLoopAt] at h
    cases hs : selectAt t a ps with
    | error e => simp [hs] at h
    | ok l0 =>
      simp only [hs] at h
      cases hst : startOf a ps with
      | error e => simp [hst] at h
      | ok bx =>
        obtain ⟨b, xp⟩ := bx
        simp only [hst] at h
        by_cases hA : allAssertOk t xp l0 = true
        · simp [hA] at h
          subst h
          have hfirst : firstAt t a ps = .ok l0.head? := by
            simp only [firstAt, existsAt, hs, hl, hst]
            cases l0 with
            | nil => simp
            | cons x r =>
              have hx : allAssertOk t xp [x] = true := by
                simp only [allAssertOk, List.all_cons] at hA ⊢
                simp only [Bool.and_eq_true] at hA
                simp [hA.1]
              simp [headAssertOk, hx]
          refine ⟨by simp [existsAt, hs], by simp [countAt, hs], hfirst, ?_, ?_⟩
          · simp only [existsAt, hs]
            cases l0 <;> simp
          · rw [hfirst]
            cases l0 <;> simp
        · simp [hA] at h
  · intro e hs
    refine ⟨?_, by simp [existsAt, hs], by simp [countAt, hs], by simp [firstAt, existsAt, hs]⟩
    simp [selectApi, hl, selectLoopAt, hs]

/-- the remaining outcome of `select`: its assertion on a yielded node fails; the search itself succeeded, so
`exists` and `count` still answer. -/
theorem queries_agree_assert (t : DNode) (a : List Nat) (ps : Str) (hl : isSegNode (getAt a t) = false)
    (h : selectApi t a ps = .error .assertion) (hne : selectAt t a ps ≠ .error .assertion) :
    ∃ l, selectAt t a ps = .ok l ∧ countAt t a ps = .ok l.length ∧ existsAt t a ps = .ok (!l.isEmpty) := by
  simp only [selectApi, hl, selectLoopAt] at h
  cases hs : selectAt t a ps with
  | error e => simp [hs] at h; subst h; exact absurd hs hne
  | ok l => exact ⟨l, rfl, by simp [countAt, hs], by simp [existsAt, hs]⟩

/-- On a segment node `select` ignores the path and `first` finds nothing, while `exists`/`count` follow `../`
(known finding pred:segment-node-select-ignores-path); `exists` and `count` still agree with each other. -/
theorem queries_agree_seg (t : DNode) (a : List Nat) (ps : Str) (hs : isSegNode (getAt a t) = true) :
    selectApi t a ps = .ok [] ∧
    (∀ l, selectAt t a ps = .ok l → existsAt t a ps = .ok (!l.isEmpty) ∧ countAt t a ps = .ok l.length ∧
        firstAt t a ps = .ok none) := by
  refine ⟨by simp [selectApi, hs], ?_⟩
  intro l h
  refine ⟨by simp [existsAt, h], by simp [countAt, h], ?_⟩
  simp only [firstAt, existsAt, h, hs]
  cases l <;> simp

/-! ## insert_after_le_before_gt, insert_keeps_sorted -/

/-- the children are in map order -/
def posSorted (cs : List DNode) : Prop := List.Pairwise (fun x y => nodePos x ≤ nodePos y) cs

theorem insert_split_spec (n : DNode) (cs : List DNode) :
    insertChild n cs = (cleanup cs).take (insertIdx (nodePos n) (cleanup cs)) ++
        n :: (cleanup cs).drop (insertIdx (nodePos n) (cleanup cs)) ∧
      (∀ y ∈ (cleanup cs).drop (insertIdx (nodePos n) (cleanup cs)), nodePos n < nodePos y) ∧
      (posSorted (cleanup cs) → ∀ x ∈ (cleanup cs).take (insertIdx (nodePos n) (cleanup cs)), nodePos x ≤ nodePos n) := by
  obtain ⟨hlen, hafter, hbefore⟩ := insertIdx_spec (nodePos n) (cleanup cs)
  refine ⟨rfl, hafter, ?_⟩
  intro hs x hx
  rcases hbefore with h0 | ⟨z, hz, hzp⟩
  · simp [h0] at hx
  · obtain ⟨j, hj, rfl⟩ := List.getElem_of_mem hx
    simp at hj
    have hjl : j < (cleanup cs).length := by omega
    simp only [List.getElem_take]
    by_cases hjk : j = insertIdx (nodePos n) (cleanup cs) - 1
    · subst hjk
      have : (cleanup cs)[insertIdx (nodePos n) (cleanup cs) - 1]? = some ((cleanup cs)[insertIdx (nodePos n) (cleanup cs) - 1]) :=
        List.getElem?_eq_getElem hjl
      rw [this] at hz
      injection hz with hz
      rw [hz]; exact hzp
    · have hlt : j < insertIdx (nodePos n) (cleanup cs) - 1 := by omega
      have hkl : insertIdx (nodePos n) (cleanup cs) - 1 < (cleanup cs).length := by omega
      have hzz : (cleanup cs)[insertIdx (nodePos n) (cleanup cs) - 1] = z := by
        have := List.getElem?_eq_getElem hkl
        rw [this] at hz; injection hz
      have := List.pairwise_iff_getElem.mp hs j (insertIdx (nodePos n) (cleanup cs) - 1) hjl hkl hlt
      rw [hzz] at this
      omega


/-- An added node is placed after every existing sibling of the same or an earlier position (every sibling after
it is strictly later) and, when the siblings are in map order, before every later one (every sibling before it is
at the same or an earlier position). -/
theorem insert_after_le_before_gt (n : DNode) (cs : List DNode) :
    ∃ l1 l2, cleanup cs = l1 ++ l2 ∧ insertChild n cs = l1 ++ n :: l2 ∧
      (∀ y ∈ l2, nodePos n < nodePos y) ∧
      (posSorted (cleanup cs) → ∀ x ∈ l1, nodePos x ≤ nodePos n) := by
  obtain ⟨h1, h2, h3⟩ := insert_split_spec n cs
  exact ⟨_, _, (List.take_append_drop _ _).symm, h1, h2, h3⟩

/-- inserting keeps the children in map order -/
theorem insert_keeps_sorted (n : DNode) (cs : List DNode) (hs : posSorted (cleanup cs)) :
    posSorted (insertChild n cs) := by
  obtain ⟨l1, l2, h1, h2, h3, h4⟩ := insert_after_le_before_gt n cs
  rw [h2]
  rw [h1] at hs
  unfold posSorted at hs ⊢
  rw [List.pairwise_append] at hs ⊢
  obtain ⟨p1, p2, p3⟩ := hs
  refine ⟨p1, ?_, ?_⟩
  · rw [List.pairwise_cons]
    exact ⟨fun y hy => Nat.le_of_lt (h3 y hy), p2⟩
  · intro x hx y hy
    simp at hy
    rcases hy with rfl | hy
    · exact h4 (by unfold posSorted; rw [h1, List.pairwise_append]; exact ⟨p1, p2, p3⟩) x hx
    · exact p3 x hx y hy


/-- `add_segment` on the tree: the target loop's children become the swept old children with the new segment node
inserted by the rule above, the returned address is that of the new node, and the serialisation gains exactly the
parsed segment. -/
theorem add_segment_serialisation (t : DNode) (a : List Nat) (s : Str) (t' : DNode) (na : List Nat)
    (h : addSegmentAt t a s = .ok (t', na)) :
    ∃ sg d, mkSegment t a s = .ok sg ∧ getAt na t' = some (.seg d sg) ∧
      ∃ l1 l2, segsOf t = l1 ++ l2 ∧ segsOf t' = l1 ++ sg :: l2 := by
  simp only [addSegmentAt] at h
  split at h
  · simp at h
  · rename_i hd mk cs hp
    have hg := loopParts_some _ _ _ _ hp
    split at h
    · simp at h
    · rename_i sg hsg
      split at h
      · simp at h
      · rename_i d hd'
        simp at h
        obtain ⟨ht, hna⟩ := h
        obtain ⟨l1, l2, h1, h2⟩ := segsOf_withKids t a hd mk cs hg
        obtain ⟨m1, m2, h3, h4⟩ := segsOfList_insertChild (.seg d sg) cs
        refine ⟨sg, d, hsg, ?_, l1 ++ m1, m2 ++ l2, ?_, ?_⟩
        · rw [← hna, ← ht, getAt_append, getAt_modifyAt_same, hg]
          simp [withKids, getAt_cons_loop, insertChild, insertAt, nodePos]
          have := (insertIdx_le d.pos (cleanup cs))
          simp [List.length_take, Nat.min_eq_left this, getAt]
        · rw [h1, h3]; simp
        · rw [← ht, h2, h4]; simp [segsOf]


/-- `add_loop`: on success exactly the given segment appears (inside a new loop node placed by the insert rule); on
any failure — also the one that leaves an empty loop node behind — the serialisation is unchanged. -/
theorem add_loop_serialisation (t : DNode) (a : List Nat) (s : Str) :
    (∀ e, (addLoopAt t a s).res = .error e → segsOf (addLoopAt t a s).tree = segsOf t) ∧
    (∀ na, (addLoopAt t a s).res = .ok na →
      ∃ sg hd kids d, mkSegment t a s = .ok sg ∧ getAt na (addLoopAt t a s).tree = some (.loop hd kids [.seg d sg]) ∧
        ∃ l1 l2, segsOf t = l1 ++ l2 ∧ segsOf (addLoopAt t a s).tree = l1 ++ sg :: l2) := by
  simp only [addLoopAt]
  split
  · simp
  · rename_i hd mk cs hp
    have hg := loopParts_some _ _ _ _ hp
    obtain ⟨l1, l2, h1, h2⟩ := segsOf_withKids t a hd mk cs hg
    split
    · simp
    · rename_i sg hsg
      split
      · simp
      · simp
      · rename_i h2' kids hcl
        split
        · rename_i e hk
          constructor
          · intro e' _
            obtain ⟨m1, m2, h3, h4⟩ := segsOfList_insertChild (.loop h2' kids []) cs
            simp only []
            rw [h2, h4, h1, h3]; simp [segsOf, segsOfList]
          · intro na hna; simp at hna
        · rename_i ks hk
          constructor
          · intro e' he; simp at he
          · intro na hna
            simp at hna
            have hks : ∃ d, ks = [.seg d sg] := by
              simp only [newLoopKids] at hk
              split at hk
              · simp at hk
              · rename_i d _
                split at hk
                · simp at hk; exact ⟨d, hk.symm⟩
                · simp at hk
            obtain ⟨d, rfl⟩ := hks
            obtain ⟨m1, m2, h3, h4⟩ := segsOfList_insertChild (.loop h2' kids [.seg d sg]) cs
            refine ⟨sg, h2', kids, d, hsg, ?_, l1 ++ m1, m2 ++ l2, ?_, ?_⟩
            · simp only []
              rw [← hna, getAt_append, getAt_modifyAt_same, hg]
              simp [withKids, getAt_cons_loop, insertChild, insertAt, nodePos]
              have := (insertIdx_le h2'.pos (cleanup cs))
              simp [List.length_take, Nat.min_eq_left this, getAt]
            · rw [h1, h3]; simp
            · simp only []
              rw [h2, h4]; simp [segsOf, segsOfList]

/-- `add_node`: the serialisation gains exactly the segments of the added subtree, in one place -/
theorem add_node_serialisation (t : DNode) (a : List Nat) (n : DNode) (t' : DNode)
    (h : addNodeAt t a n = .ok t') :
    ∃ l1 l2, segsOf t = l1 ++ l2 ∧ segsOf t' = l1 ++ segsOf n ++ l2 := by
  simp only [addNodeAt] at h
  split at h
  · simp at h
  · rename_i hd mk cs hp
    have hg := loopParts_some _ _ _ _ hp
    split at h
    · simp at h
    · split at h
      · simp at h; subst h
        obtain ⟨l1, l2, h1, h2⟩ := segsOf_withKids t a hd mk cs hg
        obtain ⟨m1, m2, h3, h4⟩ := segsOfList_insertChild n cs
        refine ⟨l1 ++ m1, m2 ++ l2, ?_, ?_⟩
        · rw [h1, h3]; simp
        · rw [h2, h4]; simp
      · simp at h


/-! ## delete_removes_exactly_one, deleted_invisible -/

theorem delete_node_result (t : DNode) (a : List Nat) (ps : Str) (b : Bool) (t' : DNode)
    (h : deleteNodeAt t a ps = .ok (b, t')) :
    (b = false ∧ t' = t ∧ selectAt t a ps = .ok []) ∨
    (b = true ∧ ∃ x r, selectAt t a ps = .ok (x :: r) ∧ t' = modifyAt kill x t) := by
  simp only [deleteNodeAt] at h
  split at h
  · simp at h
  · rename_i hs
    simp at h
    exact Or.inl ⟨h.1, h.2.symm, hs⟩
  · rename_i x r hs
    simp at h
    exact Or.inr ⟨h.1, x, r, hs, h.2.symm⟩

/-- `delete_node` returning True tombstones exactly the first match: the serialisation loses exactly the
segments of that node, in place, and nothing else. -/
theorem delete_removes_exactly_one (t : DNode) (a : List Nat) (ps : Str) (t' : DNode)
    (h : deleteNodeAt t a ps = .ok (true, t')) :
    ∃ x r n, selectAt t a ps = .ok (x :: r) ∧ getAt x t = some n ∧ isLive n = true ∧
      t' = modifyAt kill x t ∧ getAt x t' = some .dead ∧
      ∃ l1 l2, segsOf t = l1 ++ segsOf n ++ l2 ∧ segsOf t' = l1 ++ l2 := by
  rcases delete_node_result t a ps true t' h with ⟨hb, _⟩ | ⟨_, x, r, hs, ht⟩
  · simp at hb
  · obtain ⟨n, hn, hl⟩ := selectAt_sound t a ps _ hs x (by simp)
    obtain ⟨l1, l2, h1, h2⟩ := segsOf_split x t n hn
    refine ⟨x, r, n, hs, hn, hl, ht, ?_, l1, l2, h1, ?_⟩
    · rw [ht, getAt_modifyAt_same, hn]; simp [kill]
    · rw [ht, h2 kill]; simp [kill, segsOf]

/-- `delete_node` returning False changes nothing and nothing matched -/
theorem delete_node_false (t : DNode) (a : List Nat) (ps : Str) (t' : DNode)
    (h : deleteNodeAt t a ps = .ok (false, t')) : t' = t ∧ countAt t a ps = .ok 0 := by
  rcases delete_node_result t a ps false t' h with ⟨_, ht, hs⟩ | ⟨hb, _⟩
  · exact ⟨ht, by simp [countAt, hs]⟩
  · simp at hb

/-- After a successful `delete_node` no query started anywhere returns the deleted node or anything below it,
and no `get_value` of a loop node reads a segment at or below it. -/
theorem deleted_invisible (t : DNode) (a : List Nat) (ps : Str) (t' : DNode)
    (h : deleteNodeAt t a ps = .ok (true, t')) :
    ∃ x, (∃ r, selectAt t a ps = .ok (x :: r)) ∧
      (∀ b q l, selectAt t' b q = .ok l → ∀ y ∈ l, ¬ x <+: y) ∧
      (∀ b q y, gfmsLoopAt t' b q = .ok (some y) → ¬ x <+: y) ∧
      (∀ b q y, gfmsSeg t' b q = .ok (some y) → y ≠ b → ¬ x <+: y) := by
  obtain ⟨x, r, n, hs, hn, hl, ht, hd, _⟩ := delete_removes_exactly_one t a ps t' h
  refine ⟨x, ⟨r, hs⟩, ?_, ?_, ?_⟩
  · intro b q l hsel y hy hp
    exact not_live_below_dead t' x y hd hp (selectAt_sound t' b q l hsel y hy)
  · intro b q y hg hp
    obtain ⟨d, s, hy⟩ := gfmsLoop_sound t' _ b q y hg
    exact not_live_below_dead t' x y hd hp ⟨_, hy, by simp [isLive, isDead]⟩
  · intro b q y hg hyb hp
    simp only [gfmsSeg] at hg
    split at hg
    · simp at hg
    · rename_i c xp hst
      split at hg
      · simp at hg
      · split at hg
        · simp at hg; exact hyb hg.symm
        · split at hg
          · rename_i d s hc
            split at hg
            · simp at hg; subst hg
              exact not_live_below_dead t' x c hd hp ⟨_, hc, by simp [isLive, isDead]⟩
            · simp at hg
          · simp at hg
          · simp at hg
          · simp at hg

/-- `delete_segment` returning True removes exactly one segment, equal to the given one, which was a direct
child other than the first; returning False leaves the serialisation unchanged. -/
theorem delete_segment_serialisation (t : DNode) (a : List Nat) (s : Str) (b : Bool) (t' : DNode)
    (h : deleteSegmentAt t a s = .ok (b, t')) :
    (b = false ∧ segsOf t' = segsOf t) ∨
    (b = true ∧ ∃ sg hd mk cs c0 m1 d s0 m2, mkSegment t a s = .ok sg ∧ segEq s0 sg = true ∧
        getAt a t = some (.loop hd mk cs) ∧ cleanup cs = c0 :: m1 ++ .seg d s0 :: m2 ∧
        getAt a t' = some (.loop hd mk (c0 :: m1 ++ m2)) ∧
        ∃ l1 l2, segsOf t = l1 ++ s0 :: l2 ∧ segsOf t' = l1 ++ l2) := by
  simp only [deleteSegmentAt] at h
  split at h
  · simp at h
  · rename_i hd mk cs hp
    have hg := loopParts_some _ _ _ _ hp
    obtain ⟨l1, l2, h1, h2⟩ := segsOf_withKids t a hd mk cs hg
    split at h
    · simp at h
    · rename_i sg hsg
      split at h
      · simp at h; exact Or.inl ⟨h.1, by rw [← h.2]⟩
      · split at h
        · simp at h
          refine Or.inl ⟨h.1, ?_⟩
          rw [← h.2, h2, h1, segsOfList_cleanup]
        · rename_i cs2 hdel
          simp at h
          refine Or.inr ⟨h.1, ?_⟩
          simp only [delAfterFirst] at hdel
          split at hdel
          · simp at hdel
          · rename_i c0 r hcl
            split at hdel
            · simp at hdel
            · rename_i r2 hr
              simp at hdel; subst hdel
              obtain ⟨m1, d, s0, m2, rfl, rfl, he⟩ := delFirstEq_spec sg r r2 hr
              refine ⟨sg, hd, mk, cs, c0, m1, d, s0, m2, hsg, he, hg, by simpa using hcl, ?_,
                l1 ++ segsOf c0 ++ segsOfList m1, segsOfList m2 ++ l2, ?_, ?_⟩
              · rw [← h.2, getAt_modifyAt_same, hg]; simp [withKids]
              · rw [h1, ← segsOfList_cleanup cs, hcl]
                simp [segsOfList_cons, segsOfList_append, segsOf]
              · rw [← h.2, h2]
                simp [segsOfList_cons, segsOfList_append]

/-- `set_value`: exactly one segment of the serialisation is replaced, by the result of `Segment.set` -/
theorem set_value_serialisation (t : DNode) (a : List Nat) (ps v : Str) (t' : DNode)
    (h : setValueAt t a ps v = .ok t') :
    ∃ sa rd d s s2, targetOf t a ps = .ok (some (sa, rd)) ∧ getAt sa t = some (.seg d s) ∧
      segSetStr s rd v = .ok s2 ∧ t' = modifyAt (putSeg s2) sa t ∧
      ∃ l1 l2, segsOf t = l1 ++ s :: l2 ∧ segsOf t' = l1 ++ s2 :: l2 := by
  simp only [setValueAt] at h
  split at h
  · simp at h
  · simp at h
  · rename_i sa rd htg
    split at h
    · simp at h
    · rename_i s hs
      split at h
      · simp at h
      · rename_i s2 hset
        simp at h
        have hgs : ∃ d, getAt sa t = some (.seg d s) := by
          simp only [segAt] at hs
          split at hs
          · rename_i d s' hg
            simp at hs; subst hs; exact ⟨d, hg⟩
          · simp at hs
        obtain ⟨d, hg⟩ := hgs
        obtain ⟨l1, l2, h1, h2⟩ := segsOf_split sa t _ hg
        refine ⟨sa, rd, d, s, s2, htg, hg, hset, h.symm, l1, l2, by simpa [segsOf] using h1, ?_⟩
        rw [← h, h2]; simp [putSeg, segsOf]


/-! ## copy_independent -/

/-- roots an operation may change (a copy only appends a new root) -/
def touches : Op → List Nat
  | .addNode r _ j => [r, j]
  | .copy _ _ => []
  | .getValue r _ _ => [r]
  | .setValue r _ _ _ => [r]
  | .existsQ r _ _ => [r]
  | .count r _ _ => [r]
  | .first r _ _ => [r]
  | .select r _ _ => [r]
  | .addSegment r _ _ => [r]
  | .addLoop r _ _ => [r]
  | .deleteSegment r _ _ => [r]
  | .deleteNode r _ _ => [r]

theorem step_length (σ : Forest) (op : Op) : σ.length ≤ (step σ op).2.length := by
  cases op <;> simp only [step] <;> (try split) <;> (try split) <;> (try split) <;> (try split) <;> simp

theorem getElem?_set_ne {α : Type} (l : List α) (i j : Nat) (x : α) (h : i ≠ j) : (l.set i x)[j]? = l[j]? := by
  simp [h]

theorem step_frame (σ : Forest) (op : Op) (i : Nat) (h : i ∉ touches op) (hi : i < σ.length) :
    (step σ op).2[i]? = σ[i]? := by
  cases op with
  | copy r a =>
    simp only [step]
    split
    · rfl
    · split
      · rfl
      · simp [List.getElem?_append, hi]
  | addNode r a j =>
    simp only [touches, List.mem_cons, List.mem_nil_iff, or_false, not_or] at h
    simp only [step]
    split
    · rfl
    · split
      · rfl
      · split
        · rfl
        · split
          · rfl
          · simp only []
            rw [getElem?_set_ne _ _ _ _ (Ne.symm h.2), getElem?_set_ne _ _ _ _ (Ne.symm h.1)]
  | getValue r a p | setValue r a p v | existsQ r a p | count r a p | first r a p | select r a p
  | addSegment r a s | addLoop r a s | deleteSegment r a s | deleteNode r a p =>
    simp only [touches, List.mem_cons, List.mem_nil_iff, or_false] at h
    simp only [step, opRoot]
    split
    · rfl
    · simp only []
      rw [getElem?_set_ne _ _ _ _ (Ne.symm h)]

/-- a history that never touches root `i` leaves it exactly as it was -/
theorem run_frame (σ : Forest) (ops : List Op) (i : Nat) (hi : i < σ.length)
    (h : ∀ op ∈ ops, i ∉ touches op) : (run σ ops).2[i]? = σ[i]? := by
  induction ops generalizing σ with
  | nil => simp [run]
  | cons op r ih =>
    simp only [run]
    rw [ih (step σ op).2 (Nat.lt_of_lt_of_le hi (step_length σ op)) (fun o ho => h o (by simp [ho]))]
    exact step_frame σ op i (h op (by simp)) hi

/-- the calls that only observe -/
def isObservation : Op → Bool
  | .getValue _ _ _ => true
  | .existsQ _ _ _ => true
  | .count _ _ _ => true
  | .first _ _ _ => true
  | .select _ _ _ => true
  | _ => false

/-- the answer of an observing call depends on nothing but the tree it is made on -/
theorem observation_local (σ σ' : Forest) (op : Op) (ho : isObservation op = true)
    (h : σ[opRoot op]? = σ'[opRoot op]?) : (step σ op).1 = (step σ' op).1 := by
  cases op <;> simp [isObservation] at ho <;> simp only [step, opRoot] at h ⊢ <;> rw [h] <;> split <;> rfl

/-- A copy shares nothing with its original.  `copy()` of the node at `(r, a)` appends a new root `c` holding a
structural copy (same nodes and map keys, every segment re-parsed from its own text, tombstones dropped) and
changes no existing root.  Afterwards any history of calls that touch only `c` and trees created later leaves
every earlier tree — the original in particular — exactly as it was, hence every observation made on them gives
the same answer; conversely any history that does not touch `c` leaves the copy exactly as it was. -/
theorem copy_independent (σ : Forest) (r : Nat) (a : List Nat) (t n : DNode)
    (hr : σ[r]? = some t) (hn : getAt a t = some n) :
    (step σ (.copy r a)).1 = .addr σ.length [] ∧
    (step σ (.copy r a)).2 = σ ++ [copyNode n] ∧
    segsOf (copyNode n) = (segsOf n).map segCopy ∧
    (∀ ops : List Op, (∀ op ∈ ops, ∀ k ∈ touches op, σ.length ≤ k) →
      (∀ i, i < σ.length → (run (σ ++ [copyNode n]) ops).2[i]? = σ[i]?) ∧
      (∀ obs, isObservation obs = true → opRoot obs < σ.length →
        (step (run (σ ++ [copyNode n]) ops).2 obs).1 = (step σ obs).1)) ∧
    (∀ ops : List Op, (∀ op ∈ ops, σ.length ∉ touches op) →
      (run (σ ++ [copyNode n]) ops).2[σ.length]? = some (copyNode n) ∧
      (∀ obs, isObservation obs = true → opRoot obs = σ.length →
        (step (run (σ ++ [copyNode n]) ops).2 obs).1 = (step (σ ++ [copyNode n]) obs).1)) := by
  have hstep : step σ (.copy r a) = (.addr σ.length [], σ ++ [copyNode n]) := by
    simp [step, hr, hn]
  refine ⟨by rw [hstep], by rw [hstep], segsOf_copy_aux n, ?_, ?_⟩
  · intro ops hops
    have hroots : ∀ i, i < σ.length → (run (σ ++ [copyNode n]) ops).2[i]? = σ[i]? := by
      intro i hi
      rw [run_frame (σ ++ [copyNode n]) ops i (by simp; omega)
        (fun op ho hk => by have := hops op ho i hk; omega)]
      simp [List.getElem?_append, hi]
    refine ⟨hroots, ?_⟩
    intro obs ho hlt
    exact observation_local _ _ obs ho (hroots _ hlt)
  · intro ops hops
    have hc : (run (σ ++ [copyNode n]) ops).2[σ.length]? = (σ ++ [copyNode n])[σ.length]? :=
      run_frame (σ ++ [copyNode n]) ops σ.length (by simp) hops
    refine ⟨by rw [hc]; simp, ?_⟩
    intro obs ho heq
    exact observation_local _ _ obs ho (by rw [heq, hc])



/-- where `add_segment` puts the node: the children of the target become the swept old children with the new
node placed by `insert_after_le_before_gt`; the returned address is the new node's -/
theorem add_segment_places (t : DNode) (a : List Nat) (s : Str) (t' : DNode) (na : List Nat)
    (h : addSegmentAt t a s = .ok (t', na)) :
    ∃ hd mk cs d sg l1 l2, getAt a t = some (.loop hd mk cs) ∧ cleanup cs = l1 ++ l2 ∧
      getAt a t' = some (.loop hd mk (l1 ++ .seg d sg :: l2)) ∧ na = a ++ [l1.length] ∧
      (∀ y ∈ l2, d.pos < nodePos y) ∧ (posSorted (cleanup cs) → ∀ x ∈ l1, nodePos x ≤ d.pos) ∧
      (posSorted (cleanup cs) → posSorted (l1 ++ .seg d sg :: l2)) := by
  simp only [addSegmentAt] at h
  split at h
  · simp at h
  · rename_i hd mk cs hp
    have hg := loopParts_some _ _ _ _ hp
    split at h
    · simp at h
    · rename_i sg hsg
      split at h
      · simp at h
      · rename_i d hd'
        simp at h
        obtain ⟨ht, hna⟩ := h
        obtain ⟨h2, h3, h4⟩ := insert_split_spec (.seg d sg) cs
        have hle := insertIdx_le d.pos (cleanup cs)
        refine ⟨hd, mk, cs, d, sg, _, _, hg, (List.take_append_drop (insertIdx d.pos (cleanup cs)) _).symm, ?_, ?_, h3, h4, ?_⟩
        · rw [← ht, getAt_modifyAt_same, hg]; simp only [withKids, Option.map_some, h2]; rfl
        · rw [← hna]; simp [List.length_take, Nat.min_eq_left hle]
        · intro hs
          have := insert_keeps_sorted (.seg d sg) cs hs
          rw [h2] at this; exact this

/-! ## set_frame, get_set -/

/-- `set_value` changes one element of one segment and nothing else: every other segment node keeps its data,
every other node keeps its kind, map keys and data, and in the written segment the id, the terminators and every
other element are unchanged (an absent element and a blank one being the same element). -/
theorem set_frame (t : DNode) (a : List Nat) (ps v : Str) (t' : DNode) (h : setValueAt t a ps v = .ok t') :
    ∃ sa rd d s s2 e sb, targetOf t a ps = .ok (some (sa, rd)) ∧ getAt sa t = some (.seg d s) ∧
      refOf s rd = .ok (e, sb) ∧ segSet s v e sb = .ok s2 ∧
      segAt t' sa = some s2 ∧ (∀ b, b ≠ sa → segAt t' b = segAt t b) ∧
      (∀ b, b ≠ sa → (getAt b t').map hv = (getAt b t).map hv) ∧
      s2.id = s.id ∧ s2.st = s.st ∧ s2.et = s.et ∧ s2.sub = s.sub ∧
      (∀ j, j ≠ eleIndex s e → s2.els.getD j [[]] = s.els.getD j [[]]) ∧
      (∃ l1 l2, segsOf t = l1 ++ s :: l2 ∧ segsOf t' = l1 ++ s2 :: l2) := by
  obtain ⟨sa, rd, d, s, s2, htg, hg, hset, ht, hser⟩ := set_value_serialisation t a ps v t' h
  simp only [segSetStr] at hset
  split at hset
  · simp at hset
  · rename_i e sb href
    obtain ⟨f1, f2, f3, f4, f5⟩ := segSet_frame s s2 v e sb hset
    refine ⟨sa, rd, d, s, s2, e, sb, htg, hg, href, hset, ?_, ?_, ?_, f1, f2, f3, f4, f5, hser⟩
    · rw [ht, segAt_putSeg]; simp [segAt, hg]
    · intro b hb; rw [ht, segAt_putSeg]; simp [hb]
    · intro b hb; rw [ht]; exact getAt_putSeg_hv s2 sa b t hb

/-- the written data answers every (segment id, qualifier) question as the old data did -/
def KeepsQualifier (d : SegDef) (s s2 : Seg) : Prop := ∀ sid q, isMatchQual d s2 sid q = isMatchQual d s sid q

/-- Setting a value at a path and reading the same path returns that value (`writtenValue`: the value itself for
a sub-element designator or a value without sub-element separator, its composite text otherwise), provided the
write does not make the segment answer the path's own qualifier differently. -/
theorem get_set (t : DNode) (a : List Nat) (ps v : Str) (t' : DNode) (h : setValueAt t a ps v = .ok t')
    (hq : ∀ sa rd d s s2, targetOf t a ps = .ok (some (sa, rd)) → getAt sa t = some (.seg d s) →
      segSetStr s rd v = .ok s2 → KeepsQualifier d s s2) :
    ∃ sa rd d s e sb, targetOf t a ps = .ok (some (sa, rd)) ∧ getAt sa t = some (.seg d s) ∧
      refOf s rd = .ok (e, sb) ∧ getValueAt t' a ps = .ok (some (writtenValue s.sub v sb)) := by
  obtain ⟨sa, rd, d, s, s2, e, sb, htg, hg, href, hset, hs2, _, _, f1, _, _, f4, _, _⟩ := set_frame t a ps v t' h
  have hss : segSetStr s rd v = .ok s2 := by simp [segSetStr, href, hset]
  have hk := hq sa rd d s s2 htg hg hss
  obtain ⟨_, _, _, _, _, _, _, _, ht, _⟩ := set_value_serialisation t a ps v t' h
  have ht2 : t' = modifyAt (putSeg s2) sa t := by
    have h2 := h
    simp only [setValueAt, htg, segAt, hg, hss] at h2
    simp at h2; exact h2.symm
  refine ⟨sa, rd, d, s, e, sb, htg, hg, href, ?_⟩
  have hto : targetOf t' a ps = .ok (some (sa, rd)) := by
    rw [ht2, targetOf_stable t sa d s s2 hg hk a ps]; exact htg
  have href2 : refOf s2 rd = .ok (e, sb) := by
    simp only [refOf, f1] at href ⊢; exact href
  simp only [getValueAt, hto, hs2, segGetStr, href2]
  exact segGet_segSet s s2 v e sb hset

/-- segments whose map node has no qualifier rule keep their qualifier answers whatever is written -/
theorem keepsQualifier_unkeyed (d : SegDef) (s s2 : Seg) (h : d.qkey = none) : KeepsQualifier d s s2 := by
  intro sid q
  simp only [isMatchQual, h, qualOk]

/-- value without the sub-element separator: `get_value` returns exactly what was written -/
theorem get_set_plain (t : DNode) (a : List Nat) (ps v : Str) (t' : DNode) (h : setValueAt t a ps v = .ok t')
    (hq : ∀ sa rd d s s2, targetOf t a ps = .ok (some (sa, rd)) → getAt sa t = some (.seg d s) →
      segSetStr s rd v = .ok s2 → KeepsQualifier d s s2)
    (hv : ∀ sa rd d s, targetOf t a ps = .ok (some (sa, rd)) → getAt sa t = some (.seg d s) → s.sub ∉ v) :
    getValueAt t' a ps = .ok (some v) := by
  obtain ⟨sa, rd, d, s, e, sb, htg, hg, _, hget⟩ := get_set t a ps v t' h hq
  rw [hget, writtenValue_plain _ _ _ (hv sa rd d s htg hg)]


theorem segSet_other (s s2 : Seg) (v : Str) (e sb : Option Nat) (h : segSet s v e sb = .ok s2)
    (j : Nat) (hj : j ≠ eleIndex s e) :
    (∀ c, s.els[j]? = some c → s2.els[j]? = some c) ∧
    (s.els[j]? = none → s2.els[j]? = none ∨ s2.els[j]? = some [[]]) := by
  cases e with
  | none => simp [segSet] at h
  | some e =>
    cases e with
    | zero =>
      simp only [segSet] at h
      split at h
      · simp at h
      · simp at h; subst h
        simp only [eleIndex] at hj
        simp only [setLast, List.getElem?_append, List.length_dropLast]
        constructor
        · intro c hc
          have hlt : j < s.els.length := by
            rcases Nat.lt_or_ge j s.els.length with h | h
            · exact h
            · simp [List.getElem?_eq_none h] at hc
          have : j < s.els.length - 1 := by omega
          have hg : s.els[j] = c := by
            have := List.getElem?_eq_getElem hlt
            rw [this] at hc; injection hc
          simp [this, hg]
        · intro hn
          have hge : s.els.length ≤ j := by
            rcases Nat.lt_or_ge j s.els.length with h | h
            · simp [List.getElem?_eq_getElem h] at hn
            · exact h
          left
          have h1 : ¬ j < s.els.length - 1 := by omega
          have h2 : j - (s.els.length - 1) ≠ 0 := by omega
          simp only [h1, if_false]
          cases hk : j - (s.els.length - 1) with
          | zero => exact absurd hk h2
          | succ k => simp
    | succ k =>
      simp only [segSet] at h
      simp at h; subst h
      simp only [eleIndex] at hj
      simp only [List.getElem?_set, Ne.symm hj, if_false, padTo, List.getElem?_append]
      constructor
      · intro c hc
        have hlt : j < s.els.length := by
          rcases Nat.lt_or_ge j s.els.length with h | h
          · exact h
          · simp [List.getElem?_eq_none h] at hc
        have hg : s.els[j] = c := by
          have := List.getElem?_eq_getElem hlt
          rw [this] at hc; injection hc
        simp [hlt, hg]
      · intro hn
        have hge : ¬ j < s.els.length := by
          intro h; simp [List.getElem?_eq_getElem h] at hn
        simp only [hge, if_false]
        cases hr : (List.replicate (k + 1 - s.els.length) ([[]] : List Str))[j - s.els.length]? with
        | none => left; rfl
        | some y =>
          right
          have := List.mem_of_getElem? hr
          simp at this
          simp [this.2]

theorem compPart_blank (sbc : Char) (sub : Option Nat) :
    compPart sbc [[]] sub = .ok none ∨ compPart sbc [[]] sub = .ok (some []) := by
  cases sub with
  | none => right; simp [compPart, compFmt, trimKeepOne, dropTrailing, strEmpty, joinWith, List.dropWhile]
  | some m =>
    cases m with
    | zero => right; simp [compPart]
    | succ m =>
      cases m with
      | zero => right; simp [compPart]
      | succ m => left; simp [compPart]

/-- writing an element other than the one the map uses as qualifier never changes how the segment answers a
(segment id, qualifier) question -/
theorem keepsQualifier_other_element (d : SegDef) (s s2 : Seg) (v : Str) (e sb : Option Nat)
    (h : segSet s v e sb = .ok s2)
    (hk : ∀ k, d.qkey = some k → [] ∉ k.codes ∧ 1 ≤ k.ele ∧ k.ele - 1 ≠ eleIndex s e) :
    KeepsQualifier d s s2 := by
  intro sid q
  simp only [isMatchQual]
  cases sid with
  | none => rfl
  | some i =>
    by_cases hi : i = d.id
    · simp only [hi, if_true]
      cases q with
      | none => rfl
      | some qc =>
        cases hq : d.qkey with
        | none => rfl
        | some k =>
          obtain ⟨hne, hele, hidx⟩ := hk k hq
          simp only [qualOk]
          by_cases hc : k.codes.contains qc = true
          · have hqc : qc ≠ [] := by
              intro e; subst e; simp at hc; exact hne hc
            obtain ⟨f1, f2, f3, f4, _⟩ := segSet_frame s s2 v e sb h
            obtain ⟨o1, o2⟩ := segSet_other s s2 v e sb h (k.ele - 1) hidx
            have hke : k.ele = (k.ele - 1) + 1 := by omega
            have key : (keyVal s2 k = some qc) ↔ (keyVal s k = some qc) := by
              simp only [keyVal]
              rw [hke]
              simp only [segGet, f4]
              cases hs : s.els[k.ele - 1]? with
              | some c => rw [o1 c hs]
              | none =>
                rcases o2 hs with h2 | h2
                · rw [h2]
                · rw [h2]
                  simp only []
                  rcases compPart_blank s.sub k.sub with hb | hb
                  · rw [hb]
                  · rw [hb]; simp; exact fun e => hqc e
            simp [key]
          · have hc2 : (decide (qc ∈ k.codes)) = false := by simpa using hc
            simp [hc2]
    · simp [hi]


/-- `get_set` with its hypothesis discharged: the written element is not the element the map uses as qualifier of
that segment (or the segment has no qualifier rule at all) -/
theorem get_set_other_element (t : DNode) (a : List Nat) (ps v : Str) (t' : DNode) (h : setValueAt t a ps v = .ok t')
    (hk : ∀ sa rd d s e sb, targetOf t a ps = .ok (some (sa, rd)) → getAt sa t = some (.seg d s) →
      refOf s rd = .ok (e, sb) → ∀ k, d.qkey = some k → [] ∉ k.codes ∧ 1 ≤ k.ele ∧ k.ele - 1 ≠ eleIndex s e) :
    ∃ sa rd d s e sb, targetOf t a ps = .ok (some (sa, rd)) ∧ getAt sa t = some (.seg d s) ∧
      refOf s rd = .ok (e, sb) ∧ getValueAt t' a ps = .ok (some (writtenValue s.sub v sb)) := by
  apply get_set t a ps v t' h
  intro sa rd d s s2 htg hg hset
  simp only [segSetStr] at hset
  split at hset
  · simp at hset
  · rename_i e sb href
    exact keepsQualifier_other_element d s s2 v e sb hset (hk sa rd d s e sb htg hg href)

/-! ## serialise_reflects_edits -/

/-- Serialising after an edit reflects that edit and nothing else (single tree).  For every call, the
serialisation `segsOf` of the tree after the call is the serialisation before it edited by the corresponding
list operation: observations change nothing; `set_value` replaces one segment by the result of `Segment.set`;
`add_segment` / `add_loop` insert exactly the parsed segment; `delete_segment` removes one segment equal to the
given one; `delete_node` removes exactly the segments of the first match; every call that raises leaves the
serialisation unchanged (and, except for `add_loop`, the whole tree). -/
theorem serialise_reflects_edits (t : DNode) :
    (∀ op, isObservation op = true → (stepTree t op).2 = t) ∧
    (∀ r a p v,
      ((stepTree t (.setValue r a p v)).1 = .none ∧ ∃ l1 s s2 l2 rd, segSetStr s rd v = .ok s2 ∧
          segsOf t = l1 ++ s :: l2 ∧ segsOf (stepTree t (.setValue r a p v)).2 = l1 ++ s2 :: l2) ∨
      (∃ e, (stepTree t (.setValue r a p v)).1 = .err e ∧ (stepTree t (.setValue r a p v)).2 = t)) ∧
    (∀ r a s,
      (∃ na sg l1 l2, (stepTree t (.addSegment r a s)).1 = .addr r na ∧ mkSegment t a s = .ok sg ∧
          segsOf t = l1 ++ l2 ∧ segsOf (stepTree t (.addSegment r a s)).2 = l1 ++ sg :: l2) ∨
      (∃ e, (stepTree t (.addSegment r a s)).1 = .err e ∧ (stepTree t (.addSegment r a s)).2 = t)) ∧
    (∀ r a s,
      (∃ na sg l1 l2, (stepTree t (.addLoop r a s)).1 = .addr r na ∧ mkSegment t a s = .ok sg ∧
          segsOf t = l1 ++ l2 ∧ segsOf (stepTree t (.addLoop r a s)).2 = l1 ++ sg :: l2) ∨
      (∃ e, (stepTree t (.addLoop r a s)).1 = .err e ∧
          segsOf (stepTree t (.addLoop r a s)).2 = segsOf t)) ∧
    (∀ r a s,
      ((stepTree t (.deleteSegment r a s)).1 = .bool true ∧ ∃ sg s0 l1 l2, mkSegment t a s = .ok sg ∧
          segEq s0 sg = true ∧ segsOf t = l1 ++ s0 :: l2 ∧
          segsOf (stepTree t (.deleteSegment r a s)).2 = l1 ++ l2) ∨
      ((stepTree t (.deleteSegment r a s)).1 = .bool false ∧
          segsOf (stepTree t (.deleteSegment r a s)).2 = segsOf t) ∨
      (∃ e, (stepTree t (.deleteSegment r a s)).1 = .err e ∧ (stepTree t (.deleteSegment r a s)).2 = t)) ∧
    (∀ r a p,
      ((stepTree t (.deleteNode r a p)).1 = .bool true ∧ ∃ x rest n l1 l2, selectAt t a p = .ok (x :: rest) ∧
          getAt x t = some n ∧ segsOf t = l1 ++ segsOf n ++ l2 ∧
          segsOf (stepTree t (.deleteNode r a p)).2 = l1 ++ l2) ∨
      ((stepTree t (.deleteNode r a p)).1 = .bool false ∧ (stepTree t (.deleteNode r a p)).2 = t) ∨
      (∃ e, (stepTree t (.deleteNode r a p)).1 = .err e ∧ (stepTree t (.deleteNode r a p)).2 = t)) := by
  refine ⟨?_, ?_, ?_, ?_, ?_, ?_⟩
  · intro op ho
    cases op <;> simp [isObservation] at ho <;> simp [stepTree]
  · intro r a p v
    simp only [stepTree]
    cases h : setValueAt t a p v with
    | error e => right; exact ⟨e, rfl, rfl⟩
    | ok t' =>
      left
      obtain ⟨sa, rd, d, s, s2, _, _, hset, _, l1, l2, h1, h2⟩ := set_value_serialisation t a p v t' h
      exact ⟨rfl, l1, s, s2, l2, rd, hset, h1, h2⟩
  · intro r a s
    simp only [stepTree]
    cases h : addSegmentAt t a s with
    | error e => right; exact ⟨e, rfl, rfl⟩
    | ok x =>
      obtain ⟨t', na⟩ := x
      left
      obtain ⟨sg, d, hsg, _, l1, l2, h1, h2⟩ := add_segment_serialisation t a s t' na h
      exact ⟨na, sg, l1, l2, rfl, hsg, h1, h2⟩
  · intro r a s
    simp only [stepTree]
    obtain ⟨he, hok⟩ := add_loop_serialisation t a s
    cases h : (addLoopAt t a s).res with
    | error e => right; exact ⟨e, by simp [resOptAddr, Except.map], he e h⟩
    | ok na =>
      left
      obtain ⟨sg, hd, kids, d, hsg, _, l1, l2, h1, h2⟩ := hok na h
      exact ⟨na, sg, l1, l2, by simp [resOptAddr, Except.map], hsg, h1, h2⟩
  · intro r a s
    simp only [stepTree]
    cases h : deleteSegmentAt t a s with
    | error e => right; right; exact ⟨e, rfl, rfl⟩
    | ok x =>
      obtain ⟨b, t'⟩ := x
      rcases delete_segment_serialisation t a s b t' h with ⟨hb, hs⟩ | ⟨hb, sg, hd, mk, cs, c0, m1, d, s0, m2, hsg, he, _, _, _, l1, l2, h1, h2⟩
      · right; left; subst hb; exact ⟨rfl, hs⟩
      · left; subst hb; exact ⟨rfl, sg, s0, l1, l2, hsg, he, h1, h2⟩
  · intro r a p
    simp only [stepTree]
    cases h : deleteNodeAt t a p with
    | error e => right; right; exact ⟨e, rfl, rfl⟩
    | ok x =>
      obtain ⟨b, t'⟩ := x
      cases b with
      | false => right; left; exact ⟨rfl, (delete_node_false t a p t' h).1⟩
      | true =>
        left
        obtain ⟨x, rest, n, hs, hn, _, _, _, l1, l2, h1, h2⟩ := delete_removes_exactly_one t a p t' h
        exact ⟨rfl, x, rest, n, l1, l2, hs, hn, h1, h2⟩

/-- … and on the forest: `add_node` moves the segments of the added tree into the target in one place (its old
slot becomes empty), `copy` appends a tree whose serialisation is the copied node's with every segment re-parsed
from its own text, and no call changes the serialisation of a tree it does not touch (`step_frame`). -/
theorem serialise_reflects_edits_forest (σ : Forest) :
    (∀ r a j,
      ((step σ (.addNode r a j)).1 = .none ∧ ∃ t n t' l1 l2, σ[r]? = some t ∧ σ[j]? = some n ∧
          (step σ (.addNode r a j)).2 = (σ.set r t').set j .dead ∧
          segsOf t = l1 ++ l2 ∧ segsOf t' = l1 ++ segsOf n ++ l2) ∨
      (∃ e, (step σ (.addNode r a j)).1 = .err e ∧ (step σ (.addNode r a j)).2 = σ)) ∧
    (∀ r a,
      (∃ t n, σ[r]? = some t ∧ getAt a t = some n ∧ (step σ (.copy r a)).1 = .addr σ.length [] ∧
          (step σ (.copy r a)).2 = σ ++ [copyNode n] ∧ segsOf (copyNode n) = (segsOf n).map segCopy) ∨
      (∃ e, (step σ (.copy r a)).1 = .err e ∧ (step σ (.copy r a)).2 = σ)) ∧
    (∀ op i, i ∉ touches op → i < σ.length → (step σ op).2[i]? = σ[i]?) := by
  refine ⟨?_, ?_, fun op i h hi => step_frame σ op i h hi⟩
  · intro r a j
    by_cases hrj : r = j
    · right; exact ⟨.attr, by simp [step, hrj], by simp [step, hrj]⟩
    · cases hr : σ[r]? with
      | none => right; exact ⟨.attr, by simp [step, hrj, hr], by simp [step, hrj, hr]⟩
      | some t =>
        cases hj : σ[j]? with
        | none => right; exact ⟨.attr, by simp [step, hrj, hr, hj], by simp [step, hrj, hr, hj]⟩
        | some n =>
          cases h : addNodeAt t a n with
          | error e => right; exact ⟨e, by simp [step, hrj, hr, hj, h], by simp [step, hrj, hr, hj, h]⟩
          | ok t' =>
            left
            obtain ⟨l1, l2, h1, h2⟩ := add_node_serialisation t a n t' h
            exact ⟨by simp [step, hrj, hr, hj, h], t, n, t', l1, l2, rfl, rfl, by simp [step, hrj, hr, hj, h], h1, h2⟩
  · intro r a
    cases hr : σ[r]? with
    | none => right; exact ⟨.attr, by simp [step, hr], by simp [step, hr]⟩
    | some t =>
      cases hn : getAt a t with
      | none => right; exact ⟨.attr, by simp [step, hr, hn], by simp [step, hr, hn]⟩
      | some n =>
        left
        exact ⟨t, n, rfl, hn, by simp [step, hr, hn], by simp [step, hr, hn], segsOf_copy_aux n⟩


/-! ## non-vacuity: a small claim loop on which every hypothesis above is satisfied -/

def exRefKey : QKey := { ele := 1, sub := none, codes := [['E', 'A'], ['D', '9']] }
def exClm : SegDef := { id := ['C', 'L', 'M'], pos := 10, pid := ['2', '3', '0', '0'], gid := ['2', '0', '0', '0'], mkeys := [], qkey := none }
def exRef : SegDef := { id := ['R', 'E', 'F'], pos := 20, pid := ['2', '3', '0', '0'], gid := ['2', '0', '0', '0'], mkeys := [exRefKey], qkey := some exRefKey }
def exLx : SegDef := { id := ['L', 'X'], pos := 30, pid := ['2', '4', '0', '0'], gid := ['2', '3', '0', '0'], mkeys := [], qkey := none }
def exSv : SegDef := { id := ['S', 'V', '1'], pos := 40, pid := ['2', '4', '0', '0'], gid := ['2', '3', '0', '0'], mkeys := [], qkey := none }
def exH24 : Hdr := { id := ['2', '4', '0', '0'], pos := 30, pid := ['2', '3', '0', '0'], gid := ['2', '0', '0', '0'] }
def exH23 : Hdr := { id := ['2', '3', '0', '0'], pos := 50, pid := ['2', '0', '0', '0'], gid := ['D', 'E', 'T'] }
def exMk24 : List MNode := [.seg exLx, .seg exSv]
def exMk23 : List MNode := [.seg exClm, .seg exRef, .loop exH24 exMk24]
def exSeg (id : Str) (els : List (List Str)) : Seg := { id := id, els := els, st := '~', et := '*', sub := ':' }

/-- CLM*A*1~ REF*EA*X~ [LX*1~ SV1*HC:99*5~] [LX*2~] -/
def exTree : DNode :=
  .loop exH23 exMk23
    [.seg exClm (exSeg ['C', 'L', 'M'] [[['A']], [['1']]]),
     .seg exRef (exSeg ['R', 'E', 'F'] [[['E', 'A']], [['X']]]),
     .loop exH24 exMk24 [.seg exLx (exSeg ['L', 'X'] [[['1']]]), .seg exSv (exSeg ['S', 'V', '1'] [[['H', 'C'], ['9', '9']], [['5']]])],
     .loop exH24 exMk24 [.seg exLx (exSeg ['L', 'X'] [[['2']]])]]

def fmtAll (t : DNode) : List Str := (segsOf t).map segFmt

example : fmtAll exTree = ["CLM*A*1~".toList, "REF*EA*X~".toList, "LX*1~".toList, "SV1*HC:99*5~".toList, "LX*2~".toList] := by decide +kernel

/-- `r` is the normal result `x` -/
def okIs {α : Type} [DecidableEq α] (r : Except Err α) (x : α) : Bool :=
  match r with
  | .ok y => decide (y = x)
  | .error _ => false

-- queries agree (select returns the two 2400 loops)
example : (okIs (selectApi exTree [] ['2', '4', '0', '0']) [[2], [3]] && okIs (countAt exTree [] ['2', '4', '0', '0']) 2 &&
    okIs (firstAt exTree [] ['2', '4', '0', '0']) (some [2]) && okIs (existsAt exTree [] ['2', '4', '0', '0']) true) = true := by decide +kernel

-- set then get through a parent step and a qualified path; nothing else changes
example : (match setValueAt exTree [2] "../REF[EA]02".toList ['Z'] with
    | .ok t' => okIs (getValueAt t' [2] "../REF[EA]02".toList) (some ['Z']) &&
        fmtAll t' == ["CLM*A*1~".toList, "REF*EA*Z~".toList, "LX*1~".toList, "SV1*HC:99*5~".toList, "LX*2~".toList]
    | .error _ => false) = true := by decide +kernel

-- get_value descends into the first 2400 only (D35): the LX of the second instance is never read
example : okIs (getValueAt exTree [] "2400/LX01".toList) (some ['1']) = true := by decide +kernel

-- delete_node removes exactly the first 2400
example : (match deleteNodeAt exTree [] ['2', '4', '0', '0'] with
    | .ok (true, t') => fmtAll t' == ["CLM*A*1~".toList, "REF*EA*X~".toList, "LX*2~".toList] && okIs (countAt t' [] ['2', '4', '0', '0']) 1
    | _ => false) = true := by decide +kernel

-- add_segment places a second REF after the first and before the loops
example : (match addSegmentAt exTree [] "REF*D9*Q~".toList with
    | .ok (t', na) => na == [2] && fmtAll t' == ["CLM*A*1~".toList, "REF*EA*X~".toList, "REF*D9*Q~".toList, "LX*1~".toList,
        "SV1*HC:99*5~".toList, "LX*2~".toList]
    | .error _ => false) = true := by decide +kernel

-- after deleting the anchor, adding it again puts it in front (fix D41)
example : (match deleteNodeAt exTree [] ['C', 'L', 'M'] with
    | .ok (true, t1) => (match addSegmentAt t1 [] "CLM*B*2~".toList with
        | .ok (t2, na) => na == [0] && (fmtAll t2).head? == some "CLM*B*2~".toList
        | .error _ => false)
    | _ => false) = true := by decide +kernel

-- copy of a tree with a tombstone (fix D40), edit inside the copy through ../ (fix D12): the original is unchanged
example : (match deleteNodeAt exTree [] ['R', 'E', 'F'] with
    | .ok (true, t1) =>
      (match run [t1] [.copy 0 [], .setValue 1 [1] "../CLM01".toList ['Q'], .getValue 0 [] "CLM01".toList,
          .getValue 1 [] "CLM01".toList] with
       | (rs, σ) => rs == [.addr 1 [], .none, .str ['A'], .str ['Q']] && σ.map fmtAll ==
           [["CLM*A*1~".toList, "LX*1~".toList, "SV1*HC:99*5~".toList, "LX*2~".toList],
            ["CLM*Q*1~".toList, "LX*1~".toList, "SV1*HC:99*5~".toList, "LX*2~".toList]])
    | _ => false) = true := by decide +kernel

-- the hypothesis of get_set is satisfiable: CLM has no qualifier rule
example : KeepsQualifier exClm (exSeg ['C', 'L', 'M'] [[['A']]]) (exSeg ['C', 'L', 'M'] [[['B']]]) :=
  keepsQualifier_unkeyed _ _ _ rfl

example : posSorted (cleanup [DNode.seg exClm (exSeg [] []), .dead, .seg exRef (exSeg [] [])]) := by
  simp [posSorted, cleanup, isLive, isDead, nodePos, exClm, exRef]


end Pyx12Verif.DataTree
