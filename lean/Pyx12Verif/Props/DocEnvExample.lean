/-
Non-vacuity for Props/DocEnv.lean: the conformant document `good` of Props/DocExample.lean IS the flattening of a structured
interchange that is `Consistent` and in C04's domain, so `doc_accepts_generated_consistent` applies to it (every hypothesis
discharged) and yields what the kernel computed independently in Props/DocExample.lean.
-/
import Pyx12Verif.Props.DocEnv
import Pyx12Verif.Props.DocExample3

namespace Pyx12Verif.Doc.Ex
open Pyx12Verif Pyx12Verif.Doc MapSkel WalkerGen

instance viewsAreDec (d : Delims) : ∀ (segs : List Seg) (vs : List Envelope.SegView), Decidable (ViewsAre d segs vs)
  | [], [] => isTrue trivial
  | [], _ :: _ => isFalse (fun h => h)
  | _ :: _, [] => isFalse (fun h => h)
  | s :: r, v :: w => by
    unfold ViewsAre
    exact @instDecidableAnd _ _ _ (viewsAreDec d r w)

def refView : Envelope.SegView := ⟨"REF".toList, none, none, false⟩
def theSet : Envelope.TSet := ⟨some "0001".toList, [refView], some "3".toList, some "0001".toList⟩
def theGroup : Envelope.Group := ⟨some "1".toList, [theSet], some "1".toList, some "1".toList⟩
def theInterchange : Envelope.Interchange :=
  ⟨some "000000001".toList, [theGroup], some "1".toList, some "000000001".toList⟩

/-- the segments of `good`, seen by the reader, are the flattening of the structured interchange -/
theorem good_views : ViewsAre dlm (isa :: gs :: body.map (·.1)) (Envelope.flatten [theInterchange]) := by decide +kernel

theorem good_domain : Envelope.InDomain false [theInterchange] := by
  intro i hi g hg t ht
  simp only [List.mem_singleton] at hi
  subst hi
  simp only [theInterchange, List.mem_singleton] at hg
  subst hg
  simp only [theGroup, List.mem_singleton] at ht
  subst ht
  refine ⟨?_, fun h => by cases h⟩
  intro v hv
  simp only [theSet, List.mem_singleton] at hv
  subst hv
  decide

theorem good_body_consistent : Envelope.BodyConsistent false [refView] := by
  intro pre v post e
  have hv : v = refView := by
    cases pre with
    | nil => simp at e; exact e.1.symm
    | cons p q =>
      cases q <;> simp at e
  subst hv
  exact ⟨fun h => absurd h (by decide), fun h => by cases h⟩

theorem good_consistent : Envelope.Consistent false [theInterchange] := by
  refine ⟨by simp, ?_⟩
  intro i hi
  simp only [List.mem_singleton] at hi
  subst hi
  refine ⟨rfl, by decide, by simp [theInterchange], ?_⟩
  intro g hg
  simp only [theInterchange, List.mem_singleton] at hg
  subst hg
  refine ⟨rfl, by decide, by simp [theGroup], ?_⟩
  intro t ht
  simp only [theGroup, List.mem_singleton] at ht
  subst ht
  exact ⟨rfl, by decide, good_body_consistent⟩

/-- `envQuiet_of_consistent` applies: its conclusion for the document `good` -/
example : ∃ vISA vGS rs1 rs2 rs3,
    Pipeline.viewOf dlm isa = some vISA ∧
    Envelope.step Envelope.Fixes.all (Envelope.RState.init false) vISA = .ok (rs1, []) ∧
    Pipeline.viewOf dlm gs = some vGS ∧ Envelope.step Envelope.Fixes.all rs1 vGS = .ok (rs2, []) ∧
    EnvQuiet dlm { rs2 with chk837 := false } (body.map (·.1)) rs3 ∧ Envelope.cleanup rs3 = [] ∧
    SeOk false ((body.map (·.1)).map (·.id)) :=
  envQuiet_of_consistent dlm false theInterchange theGroup rfl good_domain good_consistent isa gs (body.map (·.1)) good_views

/-- **every hypothesis of `doc_accepts_generated_consistent` is satisfied by the document `good`** -/
theorem good_accepted_consistent :
    (validateRead ms ctx hdr (readOf isa gs body)).outcome = .verdict true ∧
      Quiet (validateRead ms ctx hdr (readOf isa gs body)).events :=
  doc_accepts_generated_consistent ms ctx hdr control m isa gs body 0 1 [0, 0] [0, 1, 0] isaDef gsDef
    theInterchange theGroup
    (by decide +kernel) (by decide +kernel)
    (isaSeg := nISA) (isaRest := [nGSLOOP, nIEA]) rfl rfl rfl
    (gsSeg := nGS) (gsRest := [nSTLOOP, nGE]) rfl rfl rfl
    (by intro j c hj; omega) (by intro j c h1 h2; omega)
    deriv1 deriv2 .nil hemits
    rfl rfl rfl rfl
    (segAdm_of_b _ _ _ _ _ (by decide +kernel))
    (by decide +kernel) rfl rfl rfl
    (segAdm_of_b _ _ _ _ _ (by decide +kernel))
    (by decide +kernel) (by decide +kernel) (by decide +kernel) (by decide +kernel) (by decide +kernel)
    rfl good_views good_domain good_consistent
    body_ok

end Pyx12Verif.Doc.Ex
