/-
(1) sharpened: WHICH `err_handler` call sites can raise out of `x12n_document`.

`doc_total` (Props/Doc.lean) leaves `errTree e` for any of the twelve `AttributeError` sites of the error-handler model.  Here:

`doc_total_sharp`   an `errTree e` outcome of `validateDoc` is one of
                      * `stErrorNoSt`   `st_error` while no set node exists              (finding C07 … error_handler.py:st_error)
                      * `gsErrorNoGs`   `gs_error` while no group node exists            (finding C07 … error_handler.py:gs_error)
                      * `eleErrorNoSt`  `_add_cur_seg` while no set node exists          (finding C07 … error_handler.py:_add_cur_seg)
                    or one of two sites that need the WALKER to match a set header / trailer out of place, each with its
                    witness in the result:
                      * `addStNoGs`     an ST was matched although no GS segment was ever yielded   (`StWithoutGs`)
                      * `closeStNoSt`   an SE was matched although no ST was ever matched           (`SeWithoutSt`)
                    The other seven sites (`addGsNoIsa`, `addEleNoSeg`, `isaErrorNoIsa`, `eleErrorNoEle`, `eleErrorNoSeg`,
                    `closeIsaNoIsa`, `closeGsNoGs`) are unreachable.
`doc_total_three`   hence exactly the three listed findings whenever the two walker witnesses are excluded.
`doc_total_sharp_full`  the unconditional "exactly three" for maps with the envelope nesting of the shipped maps — not
                    proved; the missing lemma is named there.

Ingredients: the first yielded segment is ISA (`first_segment_isa`, tokenizer model), the handler's pointers are never
cleared (`step_ok_props`), the order of the calls inside one round (`stepSeg_shape`: walker reports, then the structural
call before / after the popped reader errors, then `add_ele` / `ele_error`), and for `closeGsNoGs` the reader (C04 model):
a GE read while no group is on the stack draws a group-level error, which is handed over BEFORE `close_gs_loop`.

Hypotheses: the terminator and the element separator are not letters of `ISA` (`SaneHeader`; otherwise the first piece is
not the ISA segment and e.g. `add_gs_loop` can come first), and the control map has `/ISA_LOOP/ISA` and `/ISA_LOOP/GS_LOOP/GS`,
the ISA segment beginning with a simple element (`ControlOk`; true of both shipped control maps).
-/
import Pyx12Verif.Proofs.DocSharpStop
import Pyx12Verif.Props.Doc

namespace Pyx12Verif.Doc
open Pyx12Verif

/-- what the glue needs of a control map: the two pinned nodes exist, and the ISA definition starts with a simple element
    (so that its validation begins with `add_ele`) -/
def ControlOk (ms : Maps) (control : MapX) : Prop :=
  (∃ n, fetchIn ms control (isaPath ms) = some n) ∧ (∃ n, fetchIn ms control (gsPath ms) = some n) ∧
    ∀ n sd, fetchIn ms control (isaPath ms) = some n → lookupDef n.map n.ip = some sd →
      ∃ x cs, sd.children = .elem x :: cs

theorem viewOf_sid {d : Delims} {s : Seg} {v : Envelope.SegView} (h : Pipeline.viewOf d s = some v) : v.id = s.id := by
  unfold Pipeline.viewOf at h
  cases h1 : Pipeline.fetch d s (Pipeline.cntIdx s.id) with
  | crash => rw [h1] at h; cases h
  | got c =>
    cases h2 : Pipeline.fetch d s (Pipeline.ctlIdx s.id) with
    | crash => rw [h1, h2] at h; cases h
    | got k =>
      rw [h1, h2] at h
      simp only [Pipeline.mkView, Pipeline.mkView2, Option.some.injEq] at h
      rw [← h]

theorem isGsError_rd (e : Envelope.Err) (h : (envErr e).level = Level.gs) : isGsError (rdEvent (envErr e)) = true := by
  unfold rdEvent
  rw [h]
  rfl

/-- how the loop ends, as far as the error handler is concerned -/
def LoopEnd.Sharp : LoopEnd → Prop
  | .done a => Inv a
  | .stopped o a => ∀ c, o = .crash (.errTree c) → SiteOk c a.outs

/-- one round, started with the invariant: it stops without blaming the handler, fails at an admitted site, or re-establishes
    the invariant -/
theorem round_sharp (ms : Maps) (ctx : Ctx) (control : MapX) (d : Delims)
    (hgs : ∃ n, fetchIn ms control (gsPath ms) = some n)
    (a : Acc) (hinv : Inv a) (le : List SegText.RErr) (s : Seg) (st : LState) (out : SegOut)
    (h : stepSeg ms ctx control d le s a.st = .next st out) :
    (∀ c, ErrTree.run a.est out.events = .crash c → SiteOk c (a.outs ++ [out])) ∧
    (∀ est, ErrTree.run a.est out.events = .ok est → Inv (pushOut a st est out)) := by
  obtain ⟨v, rs', es, w, mid, tl, hv, hstep, hloops, hsid, hev, hw, htl, hcase⟩ :=
    stepSeg_shape ms ctx control d le s a.st st out h
  have hp : RdOnly ((a.st.pend ++ le.map lineErr ++ baseErrs s ++ es.map envErr).map rdEvent) := map_rdEvent_rdOnly _
  have hm : (out.matched = false ∧ mid = []) ∨
      (out.matched = true ∧ Mid s.id ((a.st.pend ++ le.map lineErr ++ baseErrs s ++ es.map envErr).map rdEvent) mid) := by
    rcases hcase with ⟨h1, h2, _⟩ | ⟨h1, h2, _⟩
    · exact Or.inl ⟨h1, h2⟩
    · exact Or.inr ⟨h1, h2⟩
  have htl' : EleOnly tl := htl
  refine ⟨?_, ?_⟩
  · intro c hc
    refine round_crash a hinv out s.id w mid tl _ hsid hev hw htl' hp hm ?_ c hc
    intro hid hno
    obtain ⟨e, he, hlev⟩ := ge_without_gs a.st.rs rs' v es hstep ((viewOf_sid hv).trans hid) hno
    refine ⟨rdEvent (envErr e), ?_, isGsError_rd e hlev⟩
    apply List.mem_map_of_mem
    apply List.mem_append_right
    exact List.mem_map_of_mem he
  · intro est hrun
    refine round_ok a hinv st out s.id w mid tl _ est hsid hev hp hm ?_ ?_ hrun
    · intro hg
      rw [hloops] at hg
      rcases step_loops_gs a.st.rs rs' v es hstep hg with h1 | h1
      · exact Or.inl h1
      · exact Or.inr ((viewOf_sid hv).symm.trans h1)
    · intro hid
      rcases hcase with ⟨_, _, _, _, h5⟩ | ⟨h1, _⟩
      · obtain ⟨n, hn⟩ := hgs
        rw [h5 hid] at hn
        cases hn
      · exact h1

theorem runSegs_sharp (ms : Maps) (ctx : Ctx) (control : MapX) (d : Delims)
    (hgs : ∃ n, fetchIn ms control (gsPath ms) = some n) :
    ∀ (ps : List (List SegText.RErr × Seg)) (a : Acc), Inv a → (runSegs ms ctx control d a ps).Sharp := by
  intro ps
  induction ps with
  | nil => intro a ha; exact ha
  | cons p ps ih =>
    intro a ha
    simp only [runSegs]
    cases hs : stepSeg ms ctx control d p.1 p.2 a.st with
    | stop o =>
      intro c hc
      exact absurd hc (stepSeg_stop ms ctx control d p.1 p.2 a.st o hs c)
    | next st out =>
      obtain ⟨r1, r2⟩ := round_sharp ms ctx control d hgs a ha p.1 p.2 st out hs
      simp only
      cases hr : ErrTree.run a.est out.events with
      | crash site =>
        intro c hc
        simp only [Outcome.crash.injEq, Site.errTree.injEq] at hc
        subst hc
        exact r1 site hr
      | ok est => exact ih _ (r2 est hr)

/-- the first round: the ISA segment on the fresh handler -/
theorem first_round_sharp (ms : Maps) (ctx : Ctx) (control : MapX) (d : Delims) (hctl : ControlOk ms control)
    (le : List SegText.RErr) (s : Seg) (hid : s.id = Envelope.idISA) (st : LState) (out : SegOut)
    (h : stepSeg ms ctx control d le s (initState ms control) = .next st out) :
    (∀ c, ErrTree.run ErrTree.State.init out.events = .crash c → SiteOk c ([] ++ [out])) ∧
    (∀ est, ErrTree.run ErrTree.State.init out.events = .ok est → Inv (pushOut (initAcc ms control) st est out)) := by
  obtain ⟨⟨nisa, hnisa⟩, _, hdef⟩ := hctl
  obtain ⟨v, rs', es, w, mid, tl, hv, hstep, hloops, hsid, hev, hw, htl, hcase⟩ :=
    stepSeg_shape ms ctx control d le s (initState ms control) st out h
  rcases hcase with ⟨_, _, _, h4, _⟩ | ⟨_, hM, hval⟩
  · rw [h4 hid] at hnisa; cases hnisa
  · obtain ⟨sd, vv, hl, hse⟩ := hval hid nisa hnisa
    obtain ⟨x, cs, hch⟩ := hdef nisa sd hnisa hl
    have hhead := segEvents_head ctx nisa.map.v5010 d sd s x cs hch vv tl hse
    have hp : RdOnly (((initState ms control).pend ++ le.map lineErr ++ baseErrs s ++ es.map envErr).map rdEvent) :=
      map_rdEvent_rdOnly _
    have hmid : ∃ xx, mid = .addIsa xx ::
        ((initState ms control).pend ++ le.map lineErr ++ baseErrs s ++ es.map envErr).map rdEvent := by
      cases hM with
      | isa xx _ => exact ⟨xx, rfl⟩
      | iea h1 => rw [hid] at h1; exact absurd h1 (by decide)
      | gs _ h1 => rw [hid] at h1; exact absurd h1 (by decide)
      | ge _ _ h1 => rw [hid] at h1; exact absurd h1 (by decide)
      | st _ h1 => rw [hid] at h1; exact absurd h1 (by decide)
      | se h1 => rw [hid] at h1; exact absurd h1 (by decide)
      | plain _ _ _ h1 => exact absurd hid h1
    obtain ⟨xx, rfl⟩ := hmid
    obtain ⟨f1, f2⟩ := first_round_run xx w _ tl hw hp htl hhead
    rw [hev]
    refine ⟨?_, ?_⟩
    · intro c hc
      rcases f1 c hc with h | h | h
      · exact Or.inr (Or.inl h)
      · exact Or.inl h
      · exact Or.inr (Or.inr (Or.inl h))
    · intro est hrun
      have hnogs : ¬ ∃ p ∈ st.rs.loops, p.1 = Envelope.Kind.gs := by
        intro hg
        rw [hloops] at hg
        rcases step_loops_gs _ rs' v es hstep hg with ⟨p, hp', _⟩ | h1
        · simp [initState, Envelope.RState.init] at hp'
        · rw [viewOf_sid hv, hid] at h1
          exact absurd h1 (by decide)
      refine ⟨f2 est hrun, fun hg => absurd hg hnogs, ?_, ?_⟩
      · intro o ho hgsid
        simp only [pushOut, initAcc, List.nil_append, List.mem_singleton] at ho
        subst ho
        rw [hsid, hid] at hgsid
        exact absurd hgsid (by decide)
      · intro o ho hstid
        simp only [pushOut, initAcc, List.nil_append, List.mem_singleton] at ho
        subst ho
        rw [hsid, hid] at hstid
        exact absurd hstid (by decide)

/-- the whole loop, started on the fresh state with the ISA segment first -/
theorem runSegs_init_sharp (ms : Maps) (ctx : Ctx) (control : MapX) (d : Delims) (hctl : ControlOk ms control)
    (le : List SegText.RErr) (s : Seg) (hid : s.id = Envelope.idISA) (ps : List (List SegText.RErr × Seg)) :
    (runSegs ms ctx control d (initAcc ms control) ((le, s) :: ps)).Sharp := by
  simp only [runSegs]
  have hst : (initAcc ms control).st = initState ms control := rfl
  rw [hst]
  cases hs : stepSeg ms ctx control d le s (initState ms control) with
  | stop o =>
    intro c hc
    exact absurd hc (stepSeg_stop ms ctx control d le s _ o hs c)
  | next st out =>
    obtain ⟨r1, r2⟩ := first_round_sharp ms ctx control d hctl le s hid st out hs
    simp only
    have hest : (initAcc ms control).est = ErrTree.State.init := rfl
    rw [hest]
    cases hr : ErrTree.run ErrTree.State.init out.events with
    | crash site =>
      intro c hc
      simp only [Outcome.crash.injEq, Site.errTree.injEq] at hc
      subst hc
      exact r1 site hr
    | ok est => exact runSegs_sharp ms ctx control d hctl.2.1 ps _ (r2 est hr)

theorem finish_sharp (rr : SegText.ReadResult) (e : LoopEnd) (he : e.Sharp) (c : ErrTree.Site)
    (h : (finish rr e).outcome = .crash (.errTree c)) : SiteOk c (finish rr e).segs := by
  cases e with
  | stopped o a => exact he c h
  | done a =>
    simp only [finish] at h ⊢
    split at h
    · cases h
    · rename_i hcr
      simp only [hcr]
      cases hr : ErrTree.run a.est (List.map rdEvent (finalErrs rr a.st)) with
      | ok est => rw [hr] at h; cases h
      | crash site =>
        rw [hr] at h
        simp only [finishDone, Outcome.crash.injEq, Site.errTree.injEq] at h
        subst h
        have hinv : Inv a := he
        rcases run_rd_crash _ a.est site hinv.good.1 (map_rdEvent_rdOnly _) hr with h | h
        · exact Or.inr (Or.inl h)
        · exact Or.inl h

/-- **Totality, sharpened.**  For every text whose declared terminator and element separator are not letters of `ISA`, and
    every set of maps whose control maps have the two pinned nodes (ISA beginning with a simple element): if an exception
    of the error handler leaves `x12n_document`, it was raised at one of the three call sites that are listed findings, or
    by `add_st_loop` / `close_st_loop` after the walker matched an ST with no group ever opened / an SE with no set ever
    opened — the result then shows that segment last. -/
theorem doc_total_sharp (ms : Maps) (ctx : Ctx) (text : List Char)
    (hsane : ∀ hd, Tokenizer.parseHeader (text.take Tokenizer.ISA_LEN) = .ok hd → SaneHeader hd)
    (hctl : ∀ f control, (f = ctl401 ∨ f = ctl501) → findMap ms f = some control → ControlOk ms control)
    (c : ErrTree.Site) (h : (validateDoc ms ctx text).outcome = .crash (.errTree c)) :
    SiteOk c (validateDoc ms ctx text).segs := by
  unfold validateDoc at h ⊢
  rw [Pipeline.readAll_of_text text [] (by intro k hk; cases hk)] at h ⊢
  unfold Tokenizer.rawSpec at h ⊢
  cases hp : Tokenizer.parseHeader (text.take Tokenizer.ISA_LEN) with
  | error e => rw [hp] at h; cases h
  | ok hd =>
    rw [hp] at h
    simp only [validateRead] at h ⊢
    cases hm : findMap ms (controlFile hd) with
    | none => rw [hm] at h; cases h
    | some control =>
      rw [hm] at h
      simp only at h ⊢
      have hc : ControlOk ms control := by
        refine hctl (controlFile hd) control ?_ hm
        unfold controlFile
        split
        · exact Or.inr rfl
        · exact Or.inl rfl
      obtain ⟨le, s, rest, hsegs, hid⟩ := first_segment_isa text hd hp (hsane hd hp)
      rw [hsegs] at h ⊢
      exact finish_sharp _ _ (runSegs_init_sharp ms ctx control (SegText.delimsOf hd) hc le s hid rest) c h

/-- **exactly the three listed call sites**, when the walker does not match set headers / trailers out of place -/
theorem doc_total_three (ms : Maps) (ctx : Ctx) (text : List Char)
    (hsane : ∀ hd, Tokenizer.parseHeader (text.take Tokenizer.ISA_LEN) = .ok hd → SaneHeader hd)
    (hctl : ∀ f control, (f = ctl401 ∨ f = ctl501) → findMap ms f = some control → ControlOk ms control)
    (hw1 : ¬ StWithoutGs (validateDoc ms ctx text).segs) (hw2 : ¬ SeWithoutSt (validateDoc ms ctx text).segs)
    (c : ErrTree.Site) (h : (validateDoc ms ctx text).outcome = .crash (.errTree c)) :
    c = .stErrorNoSt ∨ c = .gsErrorNoGs ∨ c = .eleErrorNoSt := by
  rcases doc_total_sharp ms ctx text hsane hctl c h with h | h | h | ⟨_, h⟩ | ⟨_, h⟩
  · exact Or.inl h
  · exact Or.inr (Or.inl h)
  · exact Or.inr (Or.inr h)
  · exact absurd h hw1
  · exact absurd h hw2

/-- with `doc_total`: every crash outcome of the pipeline, itemised -/
theorem doc_crash_sites (ms : Maps) (hwf : MapsWF ms) (ctx : Ctx) (text : List Char)
    (hsane : ∀ hd, Tokenizer.parseHeader (text.take Tokenizer.ISA_LEN) = .ok hd → SaneHeader hd)
    (hctl : ∀ f control, (f = ctl401 ∨ f = ctl501) → findMap ms f = some control → ControlOk ms control)
    (site : Site) (h : (validateDoc ms ctx text).outcome = .crash site) :
    site = .dataEle ∨ site = .nodeNone ∨ site = .noSegDef ∨
      ∃ c, site = .errTree c ∧ SiteOk c (validateDoc ms ctx text).segs := by
  rcases doc_total ms hwf ctx text site h with h1 | h1 | h1 | ⟨c, rfl⟩
  · exact Or.inl h1
  · exact Or.inr (Or.inl h1)
  · exact Or.inr (Or.inr (Or.inl h1))
  · exact Or.inr (Or.inr (Or.inr ⟨c, rfl, doc_total_sharp ms ctx text hsane hctl c h⟩))

/-- **Full statement (not proved).**  For maps whose envelope nesting is that of the shipped maps — in every map the nodes
    with identifier ST are first children of a loop that lies inside the loop headed by GS, and the nodes with identifier
    SE are later children of a loop headed by ST — the two walker witnesses cannot occur, so exactly the three listed sites
    remain.  Missing lemma (`walk_nested`, a C02-style invariant of `Walker.walk` along `runSegs`): the node returned by
    `walk` is a child of a loop that encloses the start node, or the first segment of a loop entered from there; hence a
    node inside a loop `L` is only ever the current node after the first segment of `L` was matched. -/
def doc_total_sharp_full : Prop :=
  ∀ (ms : Maps) (ctx : Ctx) (text : List Char),
    (∀ hd, Tokenizer.parseHeader (text.take Tokenizer.ISA_LEN) = .ok hd → SaneHeader hd) →
    (∀ f control, (f = ctl401 ∨ f = ctl501) → findMap ms f = some control → ControlOk ms control) →
    (∀ m ∈ ms.maps, WalkerGen.WFMap m.root = true) →
    ∀ c, (validateDoc ms ctx text).outcome = .crash (.errTree c) →
      c = .stErrorNoSt ∨ c = .gsErrorNoGs ∨ c = .eleErrorNoSt

end Pyx12Verif.Doc
