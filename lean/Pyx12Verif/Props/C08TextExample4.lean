/-
Non-vacuity for Props/C08Text.lean, fourth part (document of Props/C08TextExample.lean): the same segments in another layout (no line
breaks), and supplied trailers with wrong counts.
-/
import Pyx12Verif.Props.C08TextExample

namespace Pyx12Verif.Doc.ExS
open Pyx12Verif Pyx12Verif.Doc Pyx12Verif.Doc.Ex MapSkel WalkerGen
open Pyx12Verif.Convert

/-- the same segments without line breaks: not the canonical layout — the output is the canonical text, the segments are the
source's (`text_roundtrip_generated` applies: its hypotheses speak about the segments, not the layout) -/
example : convertOpt (docXml msS ctx good) = some (.ok goodNl) := by decide +kernel
example : ¬ Canonical convCfg good := by unfold Canonical; decide +kernel
example : roundTripSegments [] msS ctx good = readSegments [] good := by decide +kernel

/-- wrong supplied counts: the reader complains (the document is not conformant), the XML sink still completes, and
`convert` writes the TRUE counts: the output is `goodNl` (`text_roundtrip_repairs_counts`) -/
def badCounts : List Char :=
  (isaText ++ "GS*HC*S*R*20200101*1200*1*X*004010X1~ST*837*0001~REF*AB*1*X~SE*9*0001~GE*5*1~IEA*7*000000001~").toList

example : convertOpt (docXml msS ctx badCounts) = some (.ok goodNl) := by decide +kernel

end Pyx12Verif.Doc.ExS
