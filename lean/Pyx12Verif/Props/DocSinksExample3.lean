/-
Non-vacuity for Props/DocSinks.lean, third part (maps and documents of Props/DocSinksExample.lean): ALL hypotheses of
`docXml_roundtrip_generated` are satisfied by the conformant document, and what comes back is the document as read.
-/
import Pyx12Verif.Props.DocSinksExample

namespace Pyx12Verif.Doc.ExS
open Pyx12Verif Pyx12Verif.Doc Pyx12Verif.Doc.Ex MapSkel WalkerGen

/-! ### every hypothesis of `docXml_roundtrip_generated` is satisfied by the conformant document -/

def controlS : MapX := mapS "x12.control.00401.xml"
def mS : MapX := mapS "m.xml"

theorem hemitsS : emitsOf msS mS dlm body = [eST, eREF, eSE, eGE] ++ [eIEA] ++ [] := by decide +kernel

theorem body_okS : ∀ b ∈ body, BodyOk ctx mS dlm b := by
  have h : body.all (bodyOkB ctx mS dlm) = true := by decide +kernel
  intro b hb
  exact bodyOk_of_b ctx mS dlm b (List.all_eq_true.1 h b hb)

theorem body_fitsS : ∀ b ∈ body, FitsAt msS dlm (some (mS.file, b.2)) b.1 := by
  have h : body.all (fun b => fitsAtB msS dlm (some (mS.file, b.2)) b.1) = true := by decide +kernel
  intro b hb
  exact fitsAt_of_b _ _ _ _ (List.all_eq_true.1 h b hb)

/-- the XML of `good` converts back to ISA, GS and the body: here every element is used, so the segments come back as read -/
theorem good_roundtrip :
    ∃ evs root segs, docXml msS ctx good = some evs ∧ Xml.buildTree evs = some [root] ∧ Xml.convertSegs root = .ok segs ∧
      segs.map Segment.toSeg =
        expectedAt msS (some (controlS.file, [0, 0])) isa :: expectedAt msS (some (mS.file, [0, 1, 0])) gs ::
          body.map (fun b => expectedAt msS (some (mS.file, b.2)) b.1) :=
  docXml_roundtrip_generated msS ctx good (fun steps h => docSteps_good2 msS msS_ok2 ctx good steps h) Ex.hdr controlS mS isa gs body 0 1 [0, 0] [0, 1, 0] isaDef gsDef vISA vGS rs1 rs2 rs3
    (by decide +kernel)
    (by decide +kernel) (by decide +kernel)
    (isaSeg := nISA) (isaRest := [nGSLOOP, nIEA]) rfl rfl rfl
    (gsSeg := nGS) (gsRest := [nSTLOOP, nGE]) rfl rfl rfl
    (by intro j c hj; omega) (by intro j c h1 h2; omega)
    deriv1 deriv2 .nil hemitsS
    rfl rfl rfl rfl
    (segAdm_of_b _ _ _ _ _ (by decide +kernel))
    (by decide +kernel) rfl rfl rfl
    (segAdm_of_b _ _ _ _ _ (by decide +kernel))
    (by decide +kernel) (by decide +kernel) (by decide +kernel) (by decide +kernel) (by decide +kernel)
    (by decide +kernel) (by decide +kernel) (by decide +kernel) (by decide +kernel)
    (envQuiet_of_b _ _ _ _ (by decide +kernel)) (by decide +kernel)
    body_okS (seOk_of_b _ _ (by decide +kernel))
    (fitsAt_of_b _ _ _ _ (by decide +kernel)) (fitsAt_of_b _ _ _ _ (by decide +kernel)) body_fitsS

/-- … and what comes back is the document as read -/
example : expectedAt msS (some (controlS.file, [0, 0])) isa :: expectedAt msS (some (mS.file, [0, 1, 0])) gs ::
    body.map (fun b => expectedAt msS (some (mS.file, b.2)) b.1) = isa :: gs :: body.map (·.1) := by decide +kernel

end Pyx12Verif.Doc.ExS
