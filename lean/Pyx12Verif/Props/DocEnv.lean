/-
Glue between C04 and the end-to-end model: the envelope hypothesis of `doc_accepts_generated` (`EnvQuiet`: the reader reports
nothing, segment by segment) follows from the DECLARATIVE consistency of Spec/Envelope.lean.

`x12n_document` creates the reader with `check_837_lx = False`, and switches it to `cur_map.id == '837'` when the GS segment
selects the map.  C04's theorems run the reader with one constant flag; the flag is consulted by the CLM / LX branches only,
so the run splits at GS: ISA and GS are read with the flag off, everything behind GS with the flag of the selected map.

`envQuiet_of_consistent`            a structured document (one interchange, one group — what the pinned ISA / GS of
                                    `doc_accepts_generated` admits) that is `Consistent chk` and in C04's domain `InDomain chk`,
                                    seen through `Pipeline.viewOf`, gives: the ISA and GS steps from `RState.init false` are
                                    silent, `EnvQuiet` holds for the rest from the state with `chk837 := chk`, nothing is left
                                    open (`cleanup = []`), and no SE comes before the first ST (`SeOk`).
`doc_accepts_generated_consistent`  `doc_accepts_generated` with `Consistent` in place of `EnvQuiet` / `cleanup` / `SeOk`.
-/
import Pyx12Verif.Props.DocAccept
import Pyx12Verif.Props.C04

namespace Pyx12Verif.Doc
open Pyx12Verif WalkerGen

/-- the reader sees the segments `segs` as the views `vs` (`Pipeline.viewOf`: the element reads of `_parse_segment`) -/
def ViewsAre (d : Delims) : List Seg → List Envelope.SegView → Prop
  | [], [] => True
  | s :: r, v :: w => Pipeline.viewOf d s = some v ∧ ViewsAre d r w
  | [], _ :: _ => False
  | _ :: _, [] => False

theorem viewOf_id {d : Delims} {s : Seg} {v : Envelope.SegView} (h : Pipeline.viewOf d s = some v) : v.id = s.id := by
  unfold Pipeline.viewOf at h
  cases h1 : Pipeline.fetch d s (Pipeline.cntIdx s.id) with
  | crash => rw [h1] at h; cases h
  | got c =>
    cases h2 : Pipeline.fetch d s (Pipeline.ctlIdx s.id) with
    | crash => rw [h1, h2] at h; cases h
    | got k =>
      rw [h1, h2] at h
      simp only [Pipeline.mkView, Pipeline.mkView2, Option.some.injEq] at h
      rw [← h]

theorem viewsAre_ids (d : Delims) : ∀ (segs : List Seg) (vs : List Envelope.SegView), ViewsAre d segs vs →
    segs.map (·.id) = vs.map (·.id) := by
  intro segs
  induction segs with
  | nil => intro vs h; cases vs with
    | nil => rfl
    | cons v w => cases h
  | cons s r ih =>
    intro vs h
    cases vs with
    | nil => cases h
    | cons v w =>
      obtain ⟨h1, h2⟩ := h
      simp only [List.map_cons, viewOf_id h1, ih w h2]

/-- a silent run of the (guarded) reader over the views is `EnvQuiet` over the segments -/
theorem envQuiet_of_runs (d : Delims) : ∀ (segs : List Seg) (vs : List Envelope.SegView) (s s' : Envelope.RState)
    (outs : List (List Envelope.Err)), ViewsAre d segs vs → Envelope.Runs s vs s' outs → Envelope.AllNil outs →
    EnvQuiet d s segs s' := by
  intro segs
  induction segs with
  | nil =>
    intro vs s s' outs hv hr _
    cases vs with
    | cons v w => cases hv
    | nil =>
      have := Envelope.Runs.det hr (Envelope.Runs.nil s)
      exact this.1
  | cons x r ih =>
    intro vs s s' outs hv hr hn
    cases vs with
    | nil => cases hv
    | cons v w =>
      obtain ⟨h1, h2⟩ := hv
      obtain ⟨s1, es, o', hs, hr', eo⟩ := Envelope.Runs.cons_inv hr
      subst eo
      have hes : es = [] := hn es (by simp)
      subst hes
      exact ⟨v, s1, h1, hs, ih w s1 s' o' h2 hr' (fun l hl => hn l (List.mem_cons_of_mem _ hl))⟩

/-! ### no SE before the first ST -/

theorem seOk_tail (b : Bool) : SeOk b [Envelope.idGE, Envelope.idIEA] := by
  refine ⟨fun h => absurd h (by decide), fun h => absurd h (by decide), trivial⟩

theorem seOk_body (body : List Envelope.SegView) (hb : Envelope.BodyOk body) (rest : List Str)
    (h : SeOk true rest) : SeOk true (body.map (·.id) ++ rest) := by
  induction body with
  | nil => exact h
  | cons v r ih =>
    have hv := hb v (by simp)
    refine ⟨fun _ => rfl, ?_⟩
    simp only [Bool.true_or]
    exact ih (fun x hx => hb x (List.mem_cons_of_mem _ hx))

theorem seOk_sets (ts : List Envelope.TSet) (hb : ∀ t ∈ ts, Envelope.BodyOk t.body) (rest : List Str)
    (h : ∀ b, SeOk b rest) : ∀ seen, SeOk seen ((Envelope.flattenSets ts).map (·.id) ++ rest) := by
  induction ts with
  | nil => intro seen; exact h seen
  | cons t r ih =>
    intro seen
    have ih' := ih (fun x hx => hb x (List.mem_cons_of_mem _ hx)) true
    simp only [Envelope.flattenSets, Envelope.flattenSet, List.map_cons, List.map_append, List.cons_append,
      List.append_assoc, List.nil_append, Envelope.mkST, Envelope.mkSE]
    refine ⟨fun hx => absurd hx (by decide), ?_⟩
    have e : (seen || decide (Envelope.idST = Envelope.idST)) = true := by simp
    rw [e]
    apply seOk_body t.body (hb t (by simp))
    refine ⟨fun _ => rfl, ?_⟩
    simp only [Bool.true_or]
    exact ih'

/-! ### the glue lemma -/

/-- reader state after the ISA of a fresh reader -/
def afterIsa (c : Option Str) : Envelope.RState :=
  { Envelope.RState.init false with loops := [(Envelope.Kind.isa, c)], isaIds := [c], gsCount := 0, gsIds := [] }

/-- reader state after ISA, GS of a fresh reader (`check_837_lx` still off) -/
def afterGs (c gc : Option Str) : Envelope.RState :=
  { afterIsa c with gsCount := 1, gsIds := [gc], loops := [(Envelope.Kind.gs, gc), (Envelope.Kind.isa, c)],
                    stCount := 0, stIds := [] }

/-- **C04 ⟹ the envelope hypothesis of `doc_accepts_generated`.**  Document = the flattening of ONE interchange `i` with
    ONE group `g` (the pinned ISA / GS rounds of the glue admit nothing else in front of the body), seen through
    `Pipeline.viewOf`; `chk` = `check_837_lx` as the glue sets it at GS (`m.is837`).  If the structured document is in C04's
    domain and `Consistent` for that flag, then — although the reader is created with the flag off and switched at GS —
    the ISA and GS steps report nothing, the reader is `EnvQuiet` on everything behind GS from the switched state, nothing
    stays open at the end, and no SE precedes the first ST. -/
theorem envQuiet_of_consistent (d : Delims) (chk : Bool) (i : Envelope.Interchange) (g : Envelope.Group)
    (hg : i.groups = [g]) (hd : Envelope.InDomain chk [i]) (hc : Envelope.Consistent chk [i])
    (isa gs : Seg) (body : List Seg) (hviews : ViewsAre d (isa :: gs :: body) (Envelope.flatten [i])) :
    ∃ vISA vGS rs1 rs2 rs3,
      Pipeline.viewOf d isa = some vISA ∧
      Envelope.step Envelope.Fixes.all (Envelope.RState.init false) vISA = .ok (rs1, []) ∧
      Pipeline.viewOf d gs = some vGS ∧ Envelope.step Envelope.Fixes.all rs1 vGS = .ok (rs2, []) ∧
      EnvQuiet d { rs2 with chk837 := chk } body rs3 ∧ Envelope.cleanup rs3 = [] ∧
      SeOk false (body.map (·.id)) := by
  -- shape of the flattening
  have hflat : Envelope.flatten [i] = Envelope.mkISA i.isaCtl :: Envelope.mkGS g.gsCtl ::
      (Envelope.flattenSets g.sets ++ [Envelope.mkGE g.geCnt g.geCtl, Envelope.mkIEA i.ieaCnt i.ieaCtl]) := by
    simp [Envelope.flatten, Envelope.flattenInterchange, hg, Envelope.flattenGroups, Envelope.flattenGroup]
  rw [hflat] at hviews
  obtain ⟨hvI, hvG, hvB⟩ := hviews
  -- consistency, unpacked
  obtain ⟨_, hci⟩ := hc
  obtain ⟨i1, i2, _, i4⟩ := hci i (by simp)
  rw [hg] at i2 i4
  obtain ⟨g1, g2, g3, g4⟩ := i4 g (by simp)
  have hdg : Envelope.SetsDom chk g.sets := by
    have := hd i (by simp)
    rw [hg] at this
    exact this g (by simp)
  -- ISA and GS with the flag off
  have hsI : Envelope.step Envelope.Fixes.all (Envelope.RState.init false) (Envelope.mkISA i.isaCtl) =
      .ok (afterIsa i.isaCtl, []) := by
    rw [Envelope.step_ISA]
    simp [afterIsa, Envelope.RState.init, Envelope.dupErr]
  have hsG : Envelope.step Envelope.Fixes.all (afterIsa i.isaCtl) (Envelope.mkGS g.gsCtl) =
      .ok (afterGs i.isaCtl g.gsCtl, []) := by
    rw [Envelope.step_GS]
    simp [afterGs, afterIsa, Envelope.RState.init, Envelope.dupErr]
  -- the sets, the GE and the IEA with the flag of the selected map
  obtain ⟨s3, hrun3, l3, n3, _, c3, _, _, _⟩ := Envelope.sets_run chk g.sets []
    { afterGs i.isaCtl g.gsCtl with chk837 := chk } rfl (by simp [afterGs]) rfl hdg
  have hl3 : s3.loops = (Envelope.Kind.gs, g.gsCtl) :: [(Envelope.Kind.isa, i.isaCtl)] := by rw [l3]; rfl
  have hge := Envelope.step_GE s3 g.geCnt g.geCtl g.gsCtl _ hl3
  have hc3 : s3.gsCount = 1 := by rw [c3]; rfl
  have hiea := Envelope.step_IEA { s3 with loops := [(Envelope.Kind.isa, i.isaCtl)] } i.ieaCnt i.ieaCtl i.isaCtl [] rfl
  have hruns := Envelope.Runs.snoc (Envelope.Runs.snoc hrun3 hge) hiea
  have hnil : Envelope.AllNil (Envelope.recountSets chk [] g.sets ++
      [Envelope.trailerErrs Envelope.Err.gs4 Envelope.Err.gs5 g.gsCtl g.geCtl g.geCnt s3.stCount] ++
      [Envelope.trailerErrs Envelope.Err.isa001 Envelope.Err.isa021 i.isaCtl i.ieaCtl i.ieaCnt
        ({ s3 with loops := [(Envelope.Kind.isa, i.isaCtl)] } : Envelope.RState).gsCount]) := by
    apply Envelope.AllNil.append
    · apply Envelope.AllNil.append
      · exact Envelope.recountSets_nil chk g.sets [] (by simpa using g3) g4
      · refine Envelope.AllNil.cons (Envelope.trailerErrs_nil _ _ _ _ _ _ g1 ?_) (fun l hl => by cases hl)
        rw [n3]; simpa using g2
    · refine Envelope.AllNil.cons (Envelope.trailerErrs_nil _ _ _ _ _ _ i1 ?_) (fun l hl => by cases hl)
      simp only [hc3]; simpa using i2
  have hvB' : ViewsAre d body (Envelope.flattenSets g.sets ++ [Envelope.mkGE g.geCnt g.geCtl] ++
      [Envelope.mkIEA i.ieaCnt i.ieaCtl]) := by simpa using hvB
  refine ⟨_, _, _, _, _, hvI, hsI, hvG, hsG, envQuiet_of_runs d body _ _ _ _ hvB' hruns hnil, rfl, ?_⟩
  -- SeOk
  rw [viewsAre_ids d body _ hvB]
  have hb : ∀ t ∈ g.sets, Envelope.BodyOk t.body := fun t ht => (hdg t ht).1
  have := seOk_sets g.sets hb [Envelope.idGE, Envelope.idIEA] seOk_tail false
  simpa [Envelope.mkGE, Envelope.mkIEA] using this

/-- **`doc_accepts_generated` with the reader hypothesis discharged by C04.**  As `doc_accepts_generated`, but instead of
    the step-by-step silence of the reader (`EnvQuiet`, `cleanup = []`, `SeOk`, the two header steps) the hypothesis is
    declarative: ISA, GS and the body are — through `Pipeline.viewOf` — the flattening of a structured interchange `i` with
    one group that lies in C04's domain and is `Consistent` (Spec/Envelope.lean: trailers repeat their headers' control
    numbers, counts are the numbers of members actually present, control numbers are unique among siblings, HL / LX
    numbering is right), for `check_837_lx = m.is837`. -/
theorem doc_accepts_generated_consistent (ms : Maps) (ctx : Ctx) (h : Tokenizer.Header) (control m : MapX)
    (isa gs : Seg) (body : List (Seg × List Nat)) (a g : Nat) (cip cgp : List Nat) (isaDef gsDef : SegDef)
    (i : Envelope.Interchange) (grp : Envelope.Group)
    (hwf : WFMap m.root = true) (hun : Unambiguous ms.consts m.root = true)
    {isaPos isaU isaRep : Nat} {isaW : Bool} {isaSeg : MapSkel.Node} {isaRest : List MapSkel.Node}
    (hroot : m.root[a]? = some (.loop ms.ids.isaLoop isaPos isaU isaRep isaW (isaSeg :: isaRest)))
    (hisaSeg : isaSeg.isSeg = true) (hisaComp : isaSeg.comp = (ms.ids.isa, 0))
    {gsPos gsU gsRep : Nat} {gsW : Bool} {gsSeg : MapSkel.Node} {gsRest : List MapSkel.Node}
    (hgsLoop : (isaSeg :: isaRest)[g]? = some (.loop ms.ids.gsLoop gsPos gsU gsRep gsW (gsSeg :: gsRest)))
    (hgsSeg : gsSeg.isSeg = true) (hgsComp : gsSeg.comp = (ms.ids.gs, 0))
    (hopt0 : ∀ (j : Nat) (c : MapSkel.Node), j < a → m.root[j]? = some c → optional c = true)
    (hopt1 : ∀ (j : Nat) (c : MapSkel.Node), 0 < j → j < g → (isaSeg :: isaRest)[j]? = some c → optional c = true)
    {out1 out2 out3 : List Emit}
    (hg1 : GenList ms.consts [a, g] 1 gsRest out1)
    (hg2 : GenList ms.consts [a] (g + 1) ((isaSeg :: isaRest).drop (g + 1)) out2)
    (hg3 : GenList ms.consts [] (a + 1) (m.root.drop (a + 1)) out3)
    (hemits : emitsOf ms m (SegText.delimsOf h) body = out1 ++ out2 ++ out3)
    (hctl : findMap ms (controlFile h) = some control)
    (hisaNode : fetchIn ms control (isaPath ms) = some ⟨control, cip⟩)
    (hgsNode : fetchIn ms control (gsPath ms) = some ⟨control, cgp⟩)
    (hisaDef : lookupDef control cip = some isaDef)
    (hisaAdm : SegAdm ctx control.v5010 (SegText.delimsOf h) isaDef isa)
    (hidx : getFilename ms.index (gv (SegText.delimsOf h) isa 11) (gv (SegText.delimsOf h) gs 7)
              (gv (SegText.delimsOf h) gs 0) none = some m.file)
    (hmap : findMap ms m.file = some m)
    (hgsM : fetchIn ms m (gsPath ms) = some ⟨m, [a, g, 0]⟩)
    (hgsDef : lookupDef m [a, g, 0] = some gsDef)
    (hgsAdm : SegAdm ctx m.v5010 (SegText.delimsOf h) gsDef gs)
    (h278 : gv (SegText.delimsOf h) gs 7 ≠ some v278a ∧ gv (SegText.delimsOf h) gs 7 ≠ some v278b)
    (hisaId : isa.id = Envelope.idISA) (hgsId : gs.id = Envelope.idGS)
    (hbIsa : baseErrs isa = []) (hbGs : baseErrs gs = [])
    (hgrp : i.groups = [grp])
    (hviews : ViewsAre (SegText.delimsOf h) (isa :: gs :: body.map (·.1)) (Envelope.flatten [i]))
    (hdom : Envelope.InDomain m.is837 [i]) (hcons : Envelope.Consistent m.is837 [i])
    (hbody : ∀ b ∈ body, BodyOk ctx m (SegText.delimsOf h) b) :
    (validateRead ms ctx h (readOf isa gs body)).outcome = .verdict true ∧
      Quiet (validateRead ms ctx h (readOf isa gs body)).events := by
  obtain ⟨vISA, vGS, rs1, rs2, rs3, hvIsa, hsIsa, hvGs, hsGs, henv, hclean, hse⟩ :=
    envQuiet_of_consistent (SegText.delimsOf h) m.is837 i grp hgrp hdom hcons isa gs (body.map (·.1)) hviews
  have hse' : SeOk false (body.map (·.1.id)) := by rw [List.map_map] at hse; exact hse
  exact doc_accepts_generated ms ctx h control m isa gs body a g cip cgp isaDef gsDef vISA vGS rs1 rs2 rs3
    hwf hun hroot hisaSeg hisaComp hgsLoop hgsSeg hgsComp hopt0 hopt1 hg1 hg2 hg3 hemits
    hctl hisaNode hgsNode hisaDef hisaAdm hidx hmap hgsM hgsDef hgsAdm h278 hisaId hgsId hbIsa hbGs hvIsa hsIsa hvGs hsGs
    henv hclean hbody hse'

end Pyx12Verif.Doc
