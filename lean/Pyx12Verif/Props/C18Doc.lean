/-
C18 at the level of the END-TO-END model.

The composed models of the validator (`Doc.validateDoc`), of the XML sink (`docXmlText`) and of the context reader
(`CtxDoc.ctxDoc`) are functions of the maps, the parameters and the text: no state is threaded from one run to the next.  A
process that handles a sequence of documents is therefore modelled by mapping the function over the sequence, and the
statements below are what that construction gives: the result for a document does not depend on what was handled before it,
on how often it is handled, or on its position.  They are immediate — the CONTENT of C18 for the real code is that this pure
model agrees with `x12n_document` / `iter_segments` when the real calls are made one after the other in ONE process with
reused parameter objects, after arbitrary earlier work: that is what harness/c18.py checks (histories against fresh
interpreters, and the documents of the histories against this model in the process that ran the histories).
-/
import Pyx12Verif.Model.Document
import Pyx12Verif.Model.DocSinks
import Pyx12Verif.Model.CtxDoc

namespace Pyx12Verif.Doc

/-- one request of a session: what is asked for one document -/
structure Request where
  ctx : Ctx
  text : List Char

/-- what one request observes: validation result and the XML rendering -/
structure Observed where
  res : DocResult
  xml : Option (List Char)

def observe (ms : Maps) (r : Request) : Observed :=
  { res := validateDoc ms r.ctx r.text, xml := docXmlText ms r.ctx r.text }

/-- a process handling the requests in order -/
def session (ms : Maps) (rs : List Request) : List Observed := rs.map (observe ms)

theorem session_length (ms : Maps) (rs : List Request) : (session ms rs).length = rs.length := by
  simp [session]

/-- the observation for the i-th request is the observation of that request alone, whatever came before and after -/
theorem session_nth (ms : Maps) (rs : List Request) (i : Nat) (r : Request) (h : rs[i]? = some r) :
    (session ms rs)[i]? = some (observe ms r) := by
  simp [session, List.getElem?_map, h]

/-- any history before a request leaves its observation what a fresh process gives (`session ms [r]`) -/
theorem session_history_independent (ms : Maps) (hist : List Request) (r : Request) :
    (session ms (hist ++ [r])).getLast? = (session ms [r]).getLast? := by
  simp [session]

/-- handling the same request again gives the same observation -/
theorem session_repeat (ms : Maps) (a b c : List Request) (r : Request) :
    (session ms (a ++ r :: b ++ r :: c))[a.length]? = (session ms (a ++ r :: b ++ r :: c))[a.length + 1 + b.length]? := by
  have h1 : (a ++ r :: b ++ r :: c)[a.length]? = some r := by simp
  have h2 : (a ++ r :: b ++ r :: c)[a.length + 1 + b.length]? = some r := by
    have : a ++ r :: b ++ r :: c = (a ++ r :: b) ++ r :: c := by simp
    rw [this, List.getElem?_append_right (by simp [List.length_append]; omega)]
    have : a.length + 1 + b.length - (a ++ r :: b).length = 0 := by simp [List.length_append]; omega
    rw [this]; rfl
  rw [session_nth ms _ _ r h1, session_nth ms _ _ r h2]

/-- permuting the earlier requests does not change the observation of the last one -/
theorem session_order_independent (ms : Maps) (h1 h2 : List Request) (r : Request) :
    (session ms (h1 ++ [r])).getLast? = (session ms (h2 ++ [r])).getLast? := by
  rw [session_history_independent, session_history_independent]


/-- the context reader likewise: a sequence of iterations is the map of `ctxDoc` -/
def ctxSession (ms : Maps) (rs : List (Option Ctx.LoopId × List Char)) : List CtxOutcome :=
  rs.map (fun r => ctxDoc ms r.1 r.2)

theorem ctxSession_history_independent (ms : Maps) (hist : List (Option Ctx.LoopId × List Char)) (r : Option Ctx.LoopId × List Char) :
    (ctxSession ms (hist ++ [r])).getLast? = some (ctxDoc ms r.1 r.2) := by
  simp [ctxSession]

end Pyx12Verif.Doc
