/-
END-TO-END theorems about the output sinks of `x12n_document` (`Model/DocSinks.lean`): what holds of the XML document and
of the HTML report for EVERY input text, by composing the finished component theorems (C08 for the XML sink, C19 /
C19Iter for the HTML sink) with the end-to-end validation model.

XML (`docXml`, the events the writer emits; `docXmlText` their rendering)
  docXml_of_c08             wherever `Model/XmlOut.lean` (the pre-fix model C08 is stated on) succeeds on the steps of the
                            document, `docXml` is its result: C08's theorems apply verbatim to the current code
  MapsOK / mapsOK_of_b      C08's side condition for a set of maps: `noSiblingLoopIdPrefix` over a list covering all loop paths
                            (holds for {control maps, one transaction map}, for each shipped map; NOT for the union of all
                            shipped maps: `2000` of one map, `2000A` of another)
  MapsOK2 / mapsOK2_of_b    the condition that holds for ALL shipped maps together: per map, plus the three envelope nodes
                            reached by path against every loop path (`Proofs/DocSinksGood.lean`; evaluated by the driver, op SKOK)
  docSteps_good[2]          C08's per-run hypothesis `GoodFrom` for the `seg()` calls of every document, from `MapsOK` / `MapsOK2`
                            (`docSteps_good2` follows `node` through the run: `Proofs/DocSinksTrans.lean : stepSeg_trans`)
  docXml_balanced[_all | _of_good]   for every text on which the run completes — conformant, faulty, with segments the walker
                            cannot place: one root element, every start tag closed, properly nested
  docXml_nesting[_all | _of_good]    … and the `seg` elements are, in reader order, one per reader segment, each inside exactly
                            the `loop` elements that spell the map path of the node of its round (`docXml_nesting_rounds`:
                            said with the rounds of `validateDoc`).  For a structurally valid text — every segment matched —
                            the node of a round is the node the walker matched for that segment; an unmatched segment is written
                            with the node of the previous round (`Proofs/DocSinksNodes.lean : stepSeg_node, validateRead_segs`)
  docXml_roundtrip[_rounds] well-formed ids + fitting data in every round (C08 `StepsFit` / `FitsAt`): converting the XML back
                            gives the reader segments modulo not-used elements and trailing empties (C08 `doc_roundtrip`)
  docXml_roundtrip_of_runOK, docXml_roundtrip_generated
                            the same from the hypotheses of `doc_accepts_of_runOK` / `doc_accepts_generated` (conformant
                            derivation): what comes back is `expectedSeg` of the definition of each segment's OWN node
HTML (`docHtmlWrites`, the `fd.write` calls; `docHtml` their concatenation)
  docHtml_report            the writes are `Html.report` of one (segment, annotation) pair per reader segment
  docHtml_lists_every_segment   exactly one segment line per reader segment, in order, numbered 1, 2, …; stripping the markup
                            and decoding the entities gives the segment as read
  docHtml_codes_plain       every error code printed is one of pyx12's literals (no `<`, `>`, `&`)
  docHtml_escaped           every write is the header, the footer, a loop-information line made of MAP text (loop id and name,
                            written unescaped by the code), a message line whose markup is the fixed template, or a segment
                            line whose markup is a function of marks and shape only: no character of the input becomes markup
Open (full statement as `def … : Prop`, proved part beside it, gap named): `docXml_total_full` / `_partial`,
`docHtml_total_full` / `_partial` — when the sinks complete.
-/
import Pyx12Verif.Proofs.DocSinksXml
import Pyx12Verif.Proofs.DocSinksRounds
import Pyx12Verif.Proofs.DocSinksHtml
import Pyx12Verif.Proofs.DocSinksGen
import Pyx12Verif.Proofs.DocSinksMaps
import Pyx12Verif.Proofs.DocSinksGood
import Pyx12Verif.Proofs.DocSinksPlain

namespace Pyx12Verif.Doc
open Pyx12Verif

/-! ### the per-map side condition of C08 -/

/-- `p` is the loop path (`_path_list(parent.get_path())`) of a segment node of map `m` -/
def IsLoopPath (m : MapX) (p : List Str) : Prop :=
  ∃ ip loops, loopsTo m.root ip = some loops ∧ strsOf m loops = some p

/-- C08's side condition for the loaded maps: `P` lists (at least) the loop paths of their segment nodes, no loop id is
    empty or contains `/`, where two paths of `P` part neither id is a textual prefix of the other
    (`noSiblingLoopIdPrefix`, evaluated per map by harness/c08.py), and no segment sits directly under a map root -/
structure MapsOK (ms : Maps) (P : List (List Str)) : Prop where
  sib : Xml.noSiblingLoopIdPrefix P = true
  cover : ∀ m ∈ ms.maps, ∀ p, IsLoopPath m p → p ∈ P ∧ p ≠ []

theorem view_path_ok (ms : Maps) (P : List (List Str)) (hok : MapsOK ms P) (k : Option (Str × List Nat)) (v : NodeView)
    (h : nodeView ms k = some v) : v.path ∈ P ∧ v.path ≠ [] := by
  obtain ⟨_, hm, _, hl, hp⟩ := nodeView_spec ms k v h
  exact hok.cover v.map (findMap_in_maps ms _ _ hm) v.path ⟨v.ip, v.loops, hl, hp⟩

/-- the decidable form (Model/DocSinks.lean `mapsOKB`; `allPaths ms` is a canonical `P`) implies `MapsOK` -/
theorem mapsOK_of_b (ms : Maps) (P : List (List Str)) (h : mapsOKB ms P = true) : MapsOK ms P := by
  simp only [mapsOKB, Bool.and_eq_true, List.all_eq_true] at h
  refine ⟨h.1, ?_⟩
  intro m hm p ⟨ip, loops, hl, hp⟩
  have h1 := h.2 m hm (strsOf m loops) (by
    simp only [mapPaths]
    exact List.mem_map.2 ⟨loops, loopsTo_mem ip m.root loops hl, rfl⟩)
  rw [hp] at h1
  simp only [pathCovered, Bool.and_eq_true, Bool.not_eq_true', List.contains_iff_mem, List.isEmpty_eq_false_iff] at h1
  exact ⟨h1.1, h1.2⟩

/-- the run hypothesis of C08 holds for the `seg()` calls of every document -/
theorem docSteps_good (ms : Maps) (ctx : Ctx) (text : List Char) (P : List (List Str)) (hok : MapsOK ms P)
    (steps : List Xml.Step) (h : docSteps ms ctx text = some steps) : Xml.GoodFrom [] steps := by
  obtain ⟨hd, rr, rounds, _, _, hp⟩ := docSteps_spec ms ctx text steps h
  refine Xml.good_of_map P hok.sib steps [] (Or.inl rfl) ?_
  intro x hx
  obtain ⟨p, _, v, hv, rfl⟩ := hp.mem_right x hx
  have := view_path_ok ms P hok _ v hv
  exact ⟨this.1, fun _ => this.2⟩

/-! ### XML -/

theorem docXml_unfold (ms : Maps) (ctx : Ctx) (text : List Char) (evs : List Xml.Ev) (h : docXml ms ctx text = some evs) :
    ∃ steps, docSteps ms ctx text = some steps ∧ XmlG.docEventsG steps = .ok evs := by
  unfold docXml eventsOfSteps at h
  split at h
  · simp at h
  · rename_i steps hs
    split at h
    · simp at h
    · rename_i evs' he
      simp only [Option.some.injEq] at h
      subst h
      exact ⟨steps, hs, he⟩

/-- **C08 applies to the current code.**  Where the model C08 is stated on produces the document, `docXml` is that document. -/
theorem docXml_of_c08 (ms : Maps) (ctx : Ctx) (text : List Char) (steps : List Xml.Step) (evs : List Xml.Ev)
    (hs : docSteps ms ctx text = some steps) (h : Xml.docEvents steps = .ok evs) : docXml ms ctx text = some evs := by
  unfold docXml eventsOfSteps
  simp only [hs, XmlG.docEvents_agrees steps evs h]

/-- balanced, from C08's per-run hypothesis (`GoodFrom`, decidable as `goodFromB`, evaluated by the driver on every
    document of the differential — also where `MapsOK` fails for the union of all loaded maps) -/
theorem docXml_balanced_of_good (ms : Maps) (ctx : Ctx) (text : List Char) (steps : List Xml.Step)
    (hs : docSteps ms ctx text = some steps) (hg : Xml.GoodFrom [] steps)
    (evs : List Xml.Ev) (h : docXml ms ctx text = some evs) : Xml.wellFormed evs = true := by
  obtain ⟨steps', hs', he⟩ := docXml_unfold ms ctx text evs h
  rw [hs] at hs'
  simp only [Option.some.injEq] at hs'
  subst hs'
  exact XmlG.xml_balanced_G steps hg evs he

/-- nesting, from C08's per-run hypothesis -/
theorem docXml_nesting_of_good (ms : Maps) (ctx : Ctx) (text : List Char) (steps : List Xml.Step)
    (hs : docSteps ms ctx text = some steps) (hg : Xml.GoodFrom [] steps)
    (evs : List Xml.Ev) (h : docXml ms ctx text = some evs) : Xml.segCtxs [] evs = steps.map Xml.placeOf := by
  obtain ⟨steps', hs', he⟩ := docXml_unfold ms ctx text evs h
  rw [hs] at hs'
  simp only [Option.some.injEq] at hs'
  subst hs'
  exact XmlG.seg_nesting_G steps hg evs he

/-- **balanced.**  Whatever the text — conformant, faulty, with segments the walker cannot place — when the run completes
    the XML document has one root, every start tag has its end tag, and the elements are properly nested. -/
theorem docXml_balanced (ms : Maps) (ctx : Ctx) (text : List Char) (P : List (List Str)) (hok : MapsOK ms P)
    (evs : List Xml.Ev) (h : docXml ms ctx text = some evs) : Xml.wellFormed evs = true := by
  obtain ⟨steps, hs, he⟩ := docXml_unfold ms ctx text evs h
  exact XmlG.xml_balanced_G steps (docSteps_good ms ctx text P hok steps hs) evs he

/-- **segments sit at their map path.**  The `seg` elements of the document are, in order, those of the `seg()` calls, each
    with the id of its node and inside exactly the root and the `loop` elements that spell the node's loop path. -/
theorem docXml_nesting (ms : Maps) (ctx : Ctx) (text : List Char) (P : List (List Str)) (hok : MapsOK ms P)
    (steps : List Xml.Step) (evs : List Xml.Ev) (hs : docSteps ms ctx text = some steps) (h : docXml ms ctx text = some evs) :
    Xml.segCtxs [] evs = steps.map Xml.placeOf := by
  obtain ⟨steps', hs', he⟩ := docXml_unfold ms ctx text evs h
  rw [hs] at hs'
  simp only [Option.some.injEq] at hs'
  subst hs'
  exact XmlG.seg_nesting_G steps (docSteps_good ms ctx text P hok steps hs) evs he

/-- **balanced, for all loaded maps together** (`MapsOK2`: per map + envelope paths across maps; holds for the shipped maps) -/
theorem docXml_balanced_all (ms : Maps) (hok : MapsOK2 ms) (ctx : Ctx) (text : List Char)
    (evs : List Xml.Ev) (h : docXml ms ctx text = some evs) : Xml.wellFormed evs = true := by
  obtain ⟨steps, hs, _⟩ := docXml_unfold ms ctx text evs h
  exact docXml_balanced_of_good ms ctx text steps hs (docSteps_good2 ms hok ctx text steps hs) evs h

/-- **segments sit at their map path, for all loaded maps together** -/
theorem docXml_nesting_all (ms : Maps) (hok : MapsOK2 ms) (ctx : Ctx) (text : List Char)
    (steps : List Xml.Step) (evs : List Xml.Ev) (hs : docSteps ms ctx text = some steps) (h : docXml ms ctx text = some evs) :
    Xml.segCtxs [] evs = steps.map Xml.placeOf :=
  docXml_nesting_of_good ms ctx text steps hs (docSteps_good2 ms hok ctx text steps hs) evs h

/-- where a reader of the XML must find the segment of a round: the loops of the round's node, the node's id -/
def placeOfNode (ms : Maps) (k : Option (Str × List Nat)) : Xml.Ctx × Option Str :=
  match nodeView ms k with
  | some v => (Xml.spell v.path, some v.sd.sid)
  | none => ([], none)

theorem places_of_paired (ms : Maps) (d : Delims) : ∀ (rounds : List Round) (steps : List Xml.Step),
    Paired (fun (p : Round) (x : Xml.Step) => ∃ v, nodeView ms p.1.node = some v ∧ x = xmlStepOf d p.2 v) rounds steps →
    steps.map Xml.placeOf = rounds.map (fun p => placeOfNode ms p.1.node)
  | _, _, .nil => rfl
  | _, _, .cons ⟨v, hv, hx⟩ t => by
    subst hx
    simp only [List.map_cons, places_of_paired ms d _ _ t, placeOfNode, hv, Xml.placeOf, xmlStepOf, xmlDef]

/-- the same said with the rounds of the validation model: one `seg` element per reader segment, in reader order, at the
    map path of the node `x12n_document` holds at the end of that segment's round -/
theorem docXml_nesting_rounds (ms : Maps) (ctx : Ctx) (text : List Char) (P : List (List Str)) (hok : MapsOK ms P)
    (evs : List Xml.Ev) (h : docXml ms ctx text = some evs) :
    ∃ hd rr, ∃ rounds : List Round, SegText.readAll { rest := text, sizes := [] } = .ok hd rr ∧
      (∃ b, (validateDoc ms ctx text).outcome = .verdict b) ∧
      rounds.map (·.1) = (validateDoc ms ctx text).segs ∧ rounds.map (·.2) = rr.segs.map (·.2) ∧
      Xml.segCtxs [] evs = rounds.map (fun p => placeOfNode ms p.1.node) := by
  obtain ⟨steps, hs, _⟩ := docXml_unfold ms ctx text evs h
  obtain ⟨hd, rr, rounds, hread, hr, hp⟩ := docSteps_spec ms ctx text steps hs
  obtain ⟨hv, h1, h2⟩ := roundsOf_spec _ _ _ hr
  have hdoc : validateDoc ms ctx text = validateRead ms ctx hd rr := by simp only [validateDoc, hread]
  refine ⟨hd, rr, rounds, hread, by rw [hdoc]; exact hv, by rw [hdoc]; exact h1, h2, ?_⟩
  rw [docXml_nesting ms ctx text P hok steps evs hs h, places_of_paired ms _ rounds steps hp]

/-- **round trip.**  When every round has a node with well-formed ids and data that fits it (C08's `StepsFit`), the run
    completes, the events form one element tree, and `xmlx12_simple.convert` hands the X12 writer, in order, the reader
    segments with not-used elements blanked and trailing empties dropped.  (`hg`: C08's run hypothesis, discharged for
    every document by `docSteps_good` — `MapsOK` — or `docSteps_good2` — `MapsOK2`, all shipped maps together.) -/
theorem docXml_roundtrip (ms : Maps) (ctx : Ctx) (text : List Char)
    (steps : List Xml.Step) (hs : docSteps ms ctx text = some steps) (hg : Xml.GoodFrom [] steps) (hfit : Xml.StepsFit steps) :
    ∃ evs root segs, docXml ms ctx text = some evs ∧ Xml.buildTree evs = some [root] ∧ Xml.convertSegs root = .ok segs ∧
      segs.map Segment.toSeg = steps.map (fun x => Xml.expectedSeg x.node (Segment.toSeg x.seg)) := by
  obtain ⟨evs, root, segs, h1, h2, h3, h4⟩ := Xml.doc_roundtrip steps hg hfit
  exact ⟨evs, root, segs, docXml_of_c08 ms ctx text steps evs hs h1, h2, h3, h4⟩

/-! ### the round trip said with the rounds, and on conformant documents -/

/-- the segment a faithful round trip returns for a round: C08 `expectedSeg` for the definition of the round's node -/
def expectedAt (ms : Maps) (k : Option (Str × List Nat)) (s : Seg) : Seg :=
  match nodeView ms k with
  | some v => Xml.expectedSeg (xmlDef v.sd) s
  | none => s

/-- C08's per-step hypotheses for a round: the node has well-formed ids (per-map fact, `wfIds`) and the data fits it -/
def FitsAt (ms : Maps) (d : Delims) (k : Option (Str × List Nat)) (s : Seg) : Prop :=
  ∃ v, nodeView ms k = some v ∧ Xml.wfIds (xmlDef v.sd) = true ∧ Xml.fits (xmlDef v.sd) (segObjOf d s) = true

/-- decidable form of `FitsAt` -/
def fitsAtB (ms : Maps) (d : Delims) (k : Option (Str × List Nat)) (s : Seg) : Bool :=
  match nodeView ms k with
  | some v => Xml.wfIds (xmlDef v.sd) && Xml.fits (xmlDef v.sd) (segObjOf d s)
  | none => false

theorem fitsAt_of_b (ms : Maps) (d : Delims) (k : Option (Str × List Nat)) (s : Seg) (h : fitsAtB ms d k s = true) :
    FitsAt ms d k s := by
  unfold fitsAtB at h
  split at h
  · rename_i v hv
    simp only [Bool.and_eq_true] at h
    exact ⟨v, hv, h.1, h.2⟩
  · simp at h

theorem toSeg_segObjOf (d : Delims) (s : Seg) : Segment.toSeg (segObjOf d s) = s := by
  cases s with
  | mk id elems =>
    simp only [segObjOf, Segment.ofSeg, Segment.toSeg, List.map_map]
    congr 1
    induction elems with
    | nil => rfl
    | cons e r ih => simp [ih]

theorem xmlSteps_of_fits (ms : Maps) (d : Delims) : ∀ (rounds : List Round), (∀ p ∈ rounds, FitsAt ms d p.1.node p.2) →
    ∃ steps, xmlSteps ms d rounds = some steps ∧ Xml.StepsFit steps ∧
      steps.map (fun x => Xml.expectedSeg x.node (Segment.toSeg x.seg)) = rounds.map (fun p => expectedAt ms p.1.node p.2)
  | [], _ => ⟨[], rfl, by intro x hx; simp at hx, rfl⟩
  | p :: r, h => by
    obtain ⟨v, hv, hw, hf⟩ := h p (by simp)
    obtain ⟨steps, hs, hfit, he⟩ := xmlSteps_of_fits ms d r (fun q hq => h q (by simp [hq]))
    refine ⟨xmlStepOf d p.2 v :: steps, by simp [xmlSteps, hv, hs, consOpt], ?_, ?_⟩
    · intro x hx
      rcases List.mem_cons.1 hx with rfl | hx
      · exact ⟨hw, hf⟩
      · exact hfit x hx
    · simp [he, expectedAt, hv, xmlStepOf, toSeg_segObjOf]

/-- **round trip, said with the rounds.**  The run completes with rounds whose nodes have well-formed ids and whose
    segments fit them: converting the XML back gives, per reader segment, `expectedSeg` of its node's definition. -/
theorem docXml_roundtrip_rounds (ms : Maps) (ctx : Ctx) (text : List Char)
    (hgood : ∀ steps, docSteps ms ctx text = some steps → Xml.GoodFrom [] steps)
    (hd : Tokenizer.Header) (rr : SegText.ReadResult) (rounds : List Round)
    (hread : SegText.readAll { rest := text, sizes := [] } = .ok hd rr)
    (hr : roundsOf (validateRead ms ctx hd rr) rr = some rounds)
    (hfit : ∀ p ∈ rounds, FitsAt ms (SegText.delimsOf hd) p.1.node p.2) :
    ∃ evs root segs, docXml ms ctx text = some evs ∧ Xml.buildTree evs = some [root] ∧ Xml.convertSegs root = .ok segs ∧
      segs.map Segment.toSeg = rounds.map (fun p => expectedAt ms p.1.node p.2) := by
  obtain ⟨steps, hs, hsf, he⟩ := xmlSteps_of_fits ms _ rounds hfit
  have hds : docSteps ms ctx text = some steps := by
    simp only [docSteps, hread, hr, stepsOfRounds, hs]
  obtain ⟨evs, root, segs, h1, h2, h3, h4⟩ := docXml_roundtrip ms ctx text steps hds (hgood steps hds) hsf
  exact ⟨evs, root, segs, h1, h2, h3, by rw [h4, he]⟩

theorem zip_map_same {α β γ : Type} (f : α → β) (g : α → γ) : ∀ (l : List α), (l.map f).zip (l.map g) = l.map (fun x => (f x, g x))
  | [] => rfl
  | a :: r => by simp [zip_map_same f g r]

/-- **round trip of a conformant document** (walker hypothesis as C02 `RunOK`; `docXml_roundtrip_generated` discharges it).
    Hypotheses: those of `doc_accepts_of_runOK` (the document ISA, GS, body is accepted: verdict true), the text reads as
    that document, the C08 side conditions (`hgood`: the run hypothesis, from `MapsOK` by `docSteps_good` or from `MapsOK2` by
    `docSteps_good2`; per round `FitsAt`: well-formed ids of the node, data that fits).
    Then the XML exists, is one element tree, and converting it back yields ISA, GS and every body segment as
    `expectedSeg` of the definition of ITS node — the source segments modulo not-used elements and trailing empties. -/
theorem docXml_roundtrip_of_runOK (ms : Maps) (ctx : Ctx) (text : List Char)
    (hgood : ∀ steps, docSteps ms ctx text = some steps → Xml.GoodFrom [] steps)
    (h : Tokenizer.Header) (control m : MapX)
    (isa gs : Seg) (body : List (Seg × List Nat)) (a g : Nat) (cip cgp : List Nat) (isaDef gsDef : SegDef)
    (vISA vGS : Envelope.SegView) (rs1 rs2 rs3 : Envelope.RState)
    (hread : SegText.readAll { rest := text, sizes := [] } = .ok h (readOf isa gs body))
    (hctl : findMap ms (controlFile h) = some control)
    (hisaNode : fetchIn ms control (isaPath ms) = some ⟨control, cip⟩)
    (hgsNode : fetchIn ms control (gsPath ms) = some ⟨control, cgp⟩)
    (hisaDef : lookupDef control cip = some isaDef)
    (hisaAdm : SegAdm ctx control.v5010 (SegText.delimsOf h) isaDef isa)
    (hidx : getFilename ms.index (gv (SegText.delimsOf h) isa 11) (gv (SegText.delimsOf h) gs 7)
              (gv (SegText.delimsOf h) gs 0) none = some m.file)
    (hmap : findMap ms m.file = some m)
    (hgsM : fetchIn ms m (gsPath ms) = some ⟨m, [a, g, 0]⟩)
    (hgsDef : lookupDef m [a, g, 0] = some gsDef)
    (hgsAdm : SegAdm ctx m.v5010 (SegText.delimsOf h) gsDef gs)
    (h278 : gv (SegText.delimsOf h) gs 7 ≠ some v278a ∧ gv (SegText.delimsOf h) gs 7 ≠ some v278b)
    (hisaId : isa.id = Envelope.idISA) (hgsId : gs.id = Envelope.idGS)
    (hbIsa : baseErrs isa = []) (hbGs : baseErrs gs = [])
    (hvIsa : Pipeline.viewOf (SegText.delimsOf h) isa = some vISA)
    (hsIsa : Envelope.step Envelope.Fixes.all (Envelope.RState.init false) vISA = .ok (rs1, []))
    (hvGs : Pipeline.viewOf (SegText.delimsOf h) gs = some vGS)
    (hsGs : Envelope.step Envelope.Fixes.all rs1 vGS = .ok (rs2, []))
    (henv : EnvQuiet (SegText.delimsOf h) { rs2 with chk837 := m.is837 } (body.map (·.1)) rs3)
    (hclean : Envelope.cleanup rs3 = [])
    (hbody : ∀ b ∈ body, BodyOk ctx m (SegText.delimsOf h) b)
    (hse : SeOk false (body.map (·.1.id)))
    (hrun : WalkerGen.RunOK ms.consts m.root m.rootId (pinnedCnt ms) [a, g, 0] (emitsOf ms m (SegText.delimsOf h) body))
    (hfI : FitsAt ms (SegText.delimsOf h) (some (control.file, cip)) isa)
    (hfG : FitsAt ms (SegText.delimsOf h) (some (m.file, [a, g, 0])) gs)
    (hfB : ∀ b ∈ body, FitsAt ms (SegText.delimsOf h) (some (m.file, b.2)) b.1) :
    ∃ evs root segs, docXml ms ctx text = some evs ∧ Xml.buildTree evs = some [root] ∧ Xml.convertSegs root = .ok segs ∧
      segs.map Segment.toSeg =
        expectedAt ms (some (control.file, cip)) isa :: expectedAt ms (some (m.file, [a, g, 0])) gs ::
          body.map (fun b => expectedAt ms (some (m.file, b.2)) b.1) := by
  have hacc := doc_accepts_of_runOK ms ctx h control m isa gs body a g cip cgp isaDef gsDef vISA vGS rs1 rs2 rs3
    hctl hisaNode hgsNode hisaDef hisaAdm hidx hmap hgsM hgsDef hgsAdm h278 hisaId hgsId hbIsa hbGs hvIsa hsIsa hvGs hsGs
    henv hclean hbody hse hrun
  have hnodes := doc_nodes_of_runOK ms ctx h control m isa gs body a g cip cgp isaDef gsDef vISA vGS rs1 rs2 rs3
    hctl hisaNode hgsNode hisaDef hisaAdm hidx hmap hgsM hgsDef hgsAdm h278 hisaId hgsId hbIsa hbGs hvIsa hsIsa hvGs hsGs
    henv hbody hse hrun
  have hlen : (validateRead ms ctx h (readOf isa gs body)).segs.length = ((readOf isa gs body).segs.map (·.2)).length := by
    have := congrArg List.length hnodes
    simpa [readOf] using this
  obtain ⟨rounds, hz⟩ := zipExact_some_of_length _ _ hlen
  have hr : roundsOf (validateRead ms ctx h (readOf isa gs body)) (readOf isa gs body) = some rounds := by
    simp only [roundsOf, hacc.1, hz]
  obtain ⟨hz1, hz2⟩ := zipExact_fst _ _ _ hz
  -- the (node, segment) pairs of the rounds
  have hpairs : rounds.map (fun p => (p.1.node, p.2)) =
      (some (control.file, cip), isa) :: (some (m.file, [a, g, 0]), gs) ::
        body.map (fun b => (some (m.file, b.2), b.1)) := by
    have e1 : rounds.map (fun p => p.1.node) =
        some (control.file, cip) :: some (m.file, [a, g, 0]) :: body.map (fun b => some (m.file, b.2)) := by
      rw [← hnodes, ← hz1, List.map_map]; rfl
    have e2 : rounds.map (fun p => p.2) = isa :: gs :: body.map (fun b => b.1) := by
      rw [hz2]; simp [readOf]
    rw [← zip_map_same (fun (p : Round) => p.1.node) (fun p => p.2) rounds, e1, e2]
    simp [zip_map_same]
  have hfit : ∀ p ∈ rounds, FitsAt ms (SegText.delimsOf h) p.1.node p.2 := by
    intro p hp
    have : (p.1.node, p.2) ∈ rounds.map (fun p => (p.1.node, p.2)) := List.mem_map.2 ⟨p, hp, rfl⟩
    rw [hpairs] at this
    simp only [List.mem_cons, List.mem_map, Prod.mk.injEq] at this
    rcases this with ⟨h1, h2⟩ | ⟨h1, h2⟩ | ⟨b, hb, h1, h2⟩
    · rw [h1, h2]; exact hfI
    · rw [h1, h2]; exact hfG
    · rw [← h1, ← h2]; exact hfB b hb
  obtain ⟨evs, root, segs, g1, g2, g3, g4⟩ := docXml_roundtrip_rounds ms ctx text hgood h _ rounds hread hr hfit
  refine ⟨evs, root, segs, g1, g2, g3, ?_⟩
  rw [g4]
  have : rounds.map (fun p => expectedAt ms p.1.node p.2) =
      (rounds.map (fun p => (p.1.node, p.2))).map (fun q => expectedAt ms q.1 q.2) := by
    rw [List.map_map]; rfl
  rw [this, hpairs]
  simp [List.map_map, Function.comp_def]

/-- **round trip of a generated document**: the walker hypothesis discharged by C02 exactly as in `doc_accepts_generated`
    (`WFMap ∧ Unambiguous`, a conformant derivation `GenList` of the body from the map). -/
theorem docXml_roundtrip_generated (ms : Maps) (ctx : Ctx) (text : List Char)
    (hgood : ∀ steps, docSteps ms ctx text = some steps → Xml.GoodFrom [] steps)
    (h : Tokenizer.Header) (control m : MapX)
    (isa gs : Seg) (body : List (Seg × List Nat)) (a g : Nat) (cip cgp : List Nat) (isaDef gsDef : SegDef)
    (vISA vGS : Envelope.SegView) (rs1 rs2 rs3 : Envelope.RState)
    (hread : SegText.readAll { rest := text, sizes := [] } = .ok h (readOf isa gs body))
    (hwf : WalkerGen.WFMap m.root = true) (hun : WalkerGen.Unambiguous ms.consts m.root = true)
    {isaPos isaU isaRep : Nat} {isaW : Bool} {isaSeg : MapSkel.Node} {isaRest : List MapSkel.Node}
    (hroot : m.root[a]? = some (.loop ms.ids.isaLoop isaPos isaU isaRep isaW (isaSeg :: isaRest)))
    (hisaSeg : isaSeg.isSeg = true) (hisaComp : isaSeg.comp = (ms.ids.isa, 0))
    {gsPos gsU gsRep : Nat} {gsW : Bool} {gsSeg : MapSkel.Node} {gsRest : List MapSkel.Node}
    (hgsLoop : (isaSeg :: isaRest)[g]? = some (.loop ms.ids.gsLoop gsPos gsU gsRep gsW (gsSeg :: gsRest)))
    (hgsSeg : gsSeg.isSeg = true) (hgsComp : gsSeg.comp = (ms.ids.gs, 0))
    (hopt0 : ∀ (j : Nat) (c : MapSkel.Node), j < a → m.root[j]? = some c → WalkerGen.optional c = true)
    (hopt1 : ∀ (j : Nat) (c : MapSkel.Node), 0 < j → j < g → (isaSeg :: isaRest)[j]? = some c → WalkerGen.optional c = true)
    {out1 out2 out3 : List WalkerGen.Emit}
    (hg1 : WalkerGen.GenList ms.consts [a, g] 1 gsRest out1)
    (hg2 : WalkerGen.GenList ms.consts [a] (g + 1) ((isaSeg :: isaRest).drop (g + 1)) out2)
    (hg3 : WalkerGen.GenList ms.consts [] (a + 1) (m.root.drop (a + 1)) out3)
    (hemits : emitsOf ms m (SegText.delimsOf h) body = out1 ++ out2 ++ out3)
    (hctl : findMap ms (controlFile h) = some control)
    (hisaNode : fetchIn ms control (isaPath ms) = some ⟨control, cip⟩)
    (hgsNode : fetchIn ms control (gsPath ms) = some ⟨control, cgp⟩)
    (hisaDef : lookupDef control cip = some isaDef)
    (hisaAdm : SegAdm ctx control.v5010 (SegText.delimsOf h) isaDef isa)
    (hidx : getFilename ms.index (gv (SegText.delimsOf h) isa 11) (gv (SegText.delimsOf h) gs 7)
              (gv (SegText.delimsOf h) gs 0) none = some m.file)
    (hmap : findMap ms m.file = some m)
    (hgsM : fetchIn ms m (gsPath ms) = some ⟨m, [a, g, 0]⟩)
    (hgsDef : lookupDef m [a, g, 0] = some gsDef)
    (hgsAdm : SegAdm ctx m.v5010 (SegText.delimsOf h) gsDef gs)
    (h278 : gv (SegText.delimsOf h) gs 7 ≠ some v278a ∧ gv (SegText.delimsOf h) gs 7 ≠ some v278b)
    (hisaId : isa.id = Envelope.idISA) (hgsId : gs.id = Envelope.idGS)
    (hbIsa : baseErrs isa = []) (hbGs : baseErrs gs = [])
    (hvIsa : Pipeline.viewOf (SegText.delimsOf h) isa = some vISA)
    (hsIsa : Envelope.step Envelope.Fixes.all (Envelope.RState.init false) vISA = .ok (rs1, []))
    (hvGs : Pipeline.viewOf (SegText.delimsOf h) gs = some vGS)
    (hsGs : Envelope.step Envelope.Fixes.all rs1 vGS = .ok (rs2, []))
    (henv : EnvQuiet (SegText.delimsOf h) { rs2 with chk837 := m.is837 } (body.map (·.1)) rs3)
    (hclean : Envelope.cleanup rs3 = [])
    (hbody : ∀ b ∈ body, BodyOk ctx m (SegText.delimsOf h) b)
    (hse : SeOk false (body.map (·.1.id)))
    (hfI : FitsAt ms (SegText.delimsOf h) (some (control.file, cip)) isa)
    (hfG : FitsAt ms (SegText.delimsOf h) (some (m.file, [a, g, 0])) gs)
    (hfB : ∀ b ∈ body, FitsAt ms (SegText.delimsOf h) (some (m.file, b.2)) b.1) :
    ∃ evs root segs, docXml ms ctx text = some evs ∧ Xml.buildTree evs = some [root] ∧ Xml.convertSegs root = .ok segs ∧
      segs.map Segment.toSeg =
        expectedAt ms (some (control.file, cip)) isa :: expectedAt ms (some (m.file, [a, g, 0])) gs ::
          body.map (fun b => expectedAt ms (some (m.file, b.2)) b.1) := by
  have hrun := WalkerGen.walk_accepts_generated ms.consts m.root m.rootId hwf hun hroot hisaSeg hgsLoop hgsSeg hopt0 hopt1 hg1 hg2 hg3
  rw [hisaComp, hgsComp, ← hemits] at hrun
  exact docXml_roundtrip_of_runOK ms ctx text hgood h control m isa gs body a g cip cgp isaDef gsDef vISA vGS rs1 rs2 rs3
    hread hctl hisaNode hgsNode hisaDef hisaAdm hidx hmap hgsM hgsDef hgsAdm h278 hisaId hgsId hbIsa hbGs hvIsa hsIsa hvGs hsGs
    henv hclean hbody hse hrun hfI hfG hfB

/-! ### HTML -/

theorem mapIdx_map' {α β γ : Type} (g : α → β) : ∀ (l : List α) (f : Nat → β → γ),
    (l.map g).mapIdx f = l.mapIdx (fun i a => f i (g a))
  | [], _ => rfl
  | a :: r, f => by simp [List.mapIdx_cons, mapIdx_map' g r]

/-- **the report is `Html.report` of one pair per reader segment.** -/
theorem docHtml_report (ms : Maps) (ctx : Ctx) (sc : SinkCtx) (text : List Char) (ws : List (List Char))
    (h : docHtmlWrites ms ctx sc text = some ws) :
    ∃ hd rr pairs tail hsegs, SegText.readAll { rest := text, sizes := [] } = .ok hd rr ∧
      ws = Html.report sc.date (htmlDelims (SegText.delimsOf hd)) pairs tail ∧
      htmlSegs (rr.segs.map (·.2)) = some hsegs ∧ pairs.map (·.1) = hsegs := by
  obtain ⟨hd, rr, pairs, tail, hsegs, h1, h2, h3, h4, _⟩ := docHtmlWrites_report ms ctx sc text ws h
  exact ⟨hd, rr, pairs, tail, hsegs, h1, h2, h3, h4⟩

/-- **every segment once, in order.**  Among the writes exactly the segment lines are recognised; there is one per reader
    segment, in the reader's order, numbered 1, 2, 3, …; stripping the markup and decoding the entities gives back the
    segment as read (identifier, all elements and sub-elements joined by the source delimiters, terminator). -/
theorem docHtml_lists_every_segment (ms : Maps) (ctx : Ctx) (sc : SinkCtx) (text : List Char) (ws : List (List Char))
    (h : docHtmlWrites ms ctx sc text = some ws) :
    ∃ hd rr hsegs, SegText.readAll { rest := text, sizes := [] } = .ok hd rr ∧
      htmlSegs (rr.segs.map (·.2)) = some hsegs ∧
      (ws.filter Html.isSegWrite).map (fun w => Html.unescape (Html.stripTags w)) =
        hsegs.mapIdx (fun i s => Html.render (i + 1) s (htmlDelims (SegText.delimsOf hd))) := by
  obtain ⟨hd, rr, pairs, tail, hsegs, hread, hw, hh, hp⟩ := docHtml_report ms ctx sc text ws h
  refine ⟨hd, rr, hsegs, hread, hh, ?_⟩
  rw [hw, Html.every_segment_once_in_order, ← hp, mapIdx_map']

/-- the view of a reader segment that the segment lines recover: nothing is lost -/
theorem htmlSeg_faithful (s : Seg) (hs : Html.Seg) (h : htmlSeg s = some hs) :
    hs.id = s.id ∧ hs.elems.map Html.Elem.subs = s.elems :=
  htmlSeg_spec s hs h

/-- every error code printed in the report is one of pyx12's own literals: no `<`, `>`, `&` (the codes of ALL
    `err_handler` calls of a run are literals — Proofs/DocSinksEvents.lean — and the error tree and the `err_iter` /
    `gen_seg` / `footer` selection only hand over stored codes — Proofs/DocSinksCodes.lean) -/
theorem docHtml_codes_plain (ms : Maps) (ctx : Ctx) (sc : SinkCtx) (text : List Char) (ws : List (List Char))
    (h : docHtmlWrites ms ctx sc text = some ws) :
    ∃ hd pairs tail, ws = Html.report sc.date (htmlDelims (SegText.delimsOf hd)) pairs tail ∧
      (∀ sa ∈ pairs, ∀ m ∈ sa.2.pre ++ sa.2.post, Html.plainCode m.code) ∧ ∀ m ∈ tail, Html.plainCode m.code := by
  obtain ⟨hd, pairs, tail, hw, hp, ht, _⟩ := docHtmlWrites_report_plain ms ctx sc text ws h
  refine ⟨hd, pairs, tail, hw, ?_, ht⟩
  intro sa hsa m hm
  rcases List.mem_append.1 hm with hm | hm
  · exact (hp sa hsa).1 m hm
  · exact (hp sa hsa).2 m hm

/-- **escaped.**  Every write of the report is one of: the header (template + clock text), the footer (template), a
    loop-information line (text of the MAP: loop id and name), a message line, a segment line.  The markup of a message
    line is the fixed template — whatever the message text, which decodes to itself; the markup of a segment line is a
    function of the marks and of the shape of the segment only, and the line decodes to the segment as read.  So no
    character of the input text becomes markup. -/
theorem docHtml_escaped (ms : Maps) (ctx : Ctx) (sc : SinkCtx) (text : List Char) (ws : List (List Char))
    (h : docHtmlWrites ms ctx sc text = some ws) :
    ∀ w ∈ ws, w = Html.headerText sc.date ∨ w = Html.footerText ∨
      (∃ v lid, w = Html.infoLine (loopInfoText sc v lid)) ∨
      (∃ m : Html.Msg, w = Html.msgLine m ∧ Html.tags w = "<span class=\"error\"></span><br />".toList ∧
          Html.unescape (Html.stripTags w) = Html.shown m) ∨
      (∃ marks n s d, w = Html.segLineM marks n s d ∧
        Html.tags w = Html.spanSegOpen ++ Html.shapeTags marks 1 (Html.shape s) ++ "</span><br />".toList ∧
        Html.unescape (Html.stripTags w) = Html.render n s d) := by
  obtain ⟨hd, pairs, tail, hw, hp, ht, hinfo⟩ := docHtmlWrites_report_plain ms ctx sc text ws h
  subst hw
  intro w hw
  have := report_classifiedU sc.date (fun i => ∃ v lid, i = loopInfoText sc v lid) _ pairs tail hinfo hp ht w hw
  rcases this with h | h | ⟨i, ⟨v, lid, rfl⟩, h⟩ | h | h
  · exact Or.inl h
  · exact Or.inr (Or.inl h)
  · exact Or.inr (Or.inr (Or.inl ⟨v, lid, h⟩))
  · exact Or.inr (Or.inr (Or.inr (Or.inl h)))
  · exact Or.inr (Or.inr (Or.inr (Or.inr h)))

/-! ### when do the sinks complete?  (open: stated in full, proved in part) -/

/-- every segment definition of every loaded map can be viewed by the sinks (loop ids have names in the interning table)
    and has well-formed ids -/
def SinkMapsOK (ms : Maps) : Prop :=
  ∀ m ∈ ms.maps, ∀ p ∈ m.defs, (∃ v, nodeView ms (some (m.file, p.1)) = some v) ∧ Xml.wfIds (xmlDef p.2) = true

/-- FULL statement (not proved): on consistent maps the XML sink never raises — whenever validation ends with a verdict the
    document is written, also for segments with more elements / sub-elements than their node defines (the two `break`s).
    Evidence: the differential (harness/docsinks.py: real raises <=> model `none`, per sink). -/
def docXml_total_full : Prop :=
  ∀ (ms : Maps) (ctx : Ctx) (text : List Char), SinkMapsOK ms → MapsOK2 ms →
    (∃ b, (validateDoc ms ctx text).outcome = .verdict b) → ∃ evs, docXml ms ctx text = some evs

/-- PROVED part: on C08's domain (every round fits its node).  The gap: rounds with surplus data and rounds of unplaced
    segments (written with the previous node), where `XmlG.segOutG` has not been shown total. -/
theorem docXml_total_partial (ms : Maps) (ctx : Ctx) (text : List Char) (steps : List Xml.Step)
    (hs : docSteps ms ctx text = some steps) (hg : Xml.GoodFrom [] steps) (hfit : Xml.StepsFit steps) :
    ∃ evs, docXml ms ctx text = some evs := by
  obtain ⟨evs, _, _, h, _⟩ := docXml_roundtrip ms ctx text steps hs hg hfit
  exact ⟨evs, h⟩

/-- FULL statement (not proved): the HTML sink completes exactly when no reader segment has 100 or more elements
    (`'%02i' % 100` is no reference designator: `gen_seg` raises TypeError). -/
def docHtml_total_full : Prop :=
  ∀ (ms : Maps) (ctx : Ctx) (sc : SinkCtx) (text : List Char) (hd : Tokenizer.Header) (rr : SegText.ReadResult),
    SinkMapsOK ms → MapsOK2 ms → SegText.readAll { rest := text, sizes := [] } = .ok hd rr →
    (∃ b, (validateDoc ms ctx text).outcome = .verdict b) →
    ((∃ ws, docHtmlWrites ms ctx sc text = some ws) ↔ ∀ p ∈ rr.segs, p.2.elems.length < 100)

theorem htmlSegs_lt : ∀ (l : List Seg) (hs : List Html.Seg), htmlSegs l = some hs → ∀ s ∈ l, s.elems.length < 100
  | [], _, _ => by intro s h; cases h
  | a :: r, hs, h => by
    simp only [htmlSegs] at h
    split at h
    · simp at h
    · rename_i x hx
      obtain ⟨t, ht, _⟩ := consOpt_eq_some _ _ _ h
      intro s hmem
      rcases List.mem_cons.1 hmem with rfl | hmem
      · unfold htmlSeg at hx
        split at hx
        · simp at hx
        · omega
      · exact htmlSegs_lt r t ht s hmem

/-- PROVED part: the "only if" direction.  The gap: that nothing else stops the HTML sink (the replay of the
    `err_handler` calls does not raise when validation did not, every node has a view, reader composites are non-empty). -/
theorem docHtml_total_partial (ms : Maps) (ctx : Ctx) (sc : SinkCtx) (text : List Char) (ws : List (List Char))
    (h : docHtmlWrites ms ctx sc text = some ws) :
    ∃ hd rr, SegText.readAll { rest := text, sizes := [] } = .ok hd rr ∧ ∀ p ∈ rr.segs, p.2.elems.length < 100 := by
  obtain ⟨hd, rr, _, _, hsegs, hread, _, hh, _⟩ := docHtml_report ms ctx sc text ws h
  refine ⟨hd, rr, hread, ?_⟩
  intro p hp
  exact htmlSegs_lt _ hsegs hh p.2 (List.mem_map.2 ⟨p, hp, rfl⟩)

end Pyx12Verif.Doc
