/-
C13 — data-type recognisers accept exactly the X12 value languages.

Specs (`IsInt`, `IsDecimal`, `InCharset`, `IsDate8/6/12`, `IsRange`, `IsTime`) are written with
quantifiers over digit lists and calendar arithmetic; the theorems say the model of
`pyx12.validation` accepts a string iff it is in the language — for every string, no length bound.
-/
import Pyx12Verif.Spec.Validation
import Pyx12Verif.Proofs.ValidationChars

namespace Pyx12Verif.Validation

/-! ### helper lemmas -/

theorem allDigits_iff (s : List Char) : allDigits s = true ↔ AllDigits s := by
  induction s with
  | nil => simp [allDigits, AllDigits]
  | cons c cs ih => simp [allDigits, AllDigits, ih] at *

theorem span_append (s : List Char) : (spanDigits s).1 ++ (spanDigits s).2 = s := by
  induction s with
  | nil => simp [spanDigits]
  | cons c cs ih => simp only [spanDigits]; split <;> simp [ih]

theorem span_fst_digits (s : List Char) : AllDigits (spanDigits s).1 := by
  induction s with
  | nil => simp [spanDigits, AllDigits]
  | cons c cs ih =>
    simp only [spanDigits]; split
    · rename_i h; intro x hx; simp at hx; rcases hx with rfl | hx; exact h; exact ih x hx
    · simp [AllDigits]

theorem span_snd_head (s : List Char) : ∀ c r, (spanDigits s).2 = c :: r → isDigit c = false := by
  induction s with
  | nil => simp [spanDigits]
  | cons c cs ih =>
    intro x r; simp only [spanDigits]; split
    · exact ih x r
    · rename_i h; intro e; simp at e; rw [← e.1]; simpa using h

theorem span_of_digits (d r : List Char) (hd : AllDigits d)
    (hr : ∀ c r', r = c :: r' → isDigit c = false) : spanDigits (d ++ r) = (d, r) := by
  induction d with
  | nil =>
    cases r with
    | nil => simp [spanDigits]
    | cons c r' => simp [spanDigits, hr c r' rfl]
  | cons c cs ih =>
    have hc : isDigit c = true := hd c (by simp)
    have := ih (fun x hx => hd x (by simp [hx]))
    simp [spanDigits, hc, this]

theorem minus_not_digit : isDigit '-' = false := by decide
theorem dot_not_digit : isDigit '.' = false := by decide

theorem span_all (d : List Char) (hd : AllDigits d) : spanDigits d = (d, []) := by
  have := span_of_digits d [] hd (by simp); simpa using this

theorem hasDigit_iff (s : List Char) : hasDigit s = true ↔ ∃ c ∈ s, isDigit c = true := by
  induction s with
  | nil => simp [hasDigit]
  | cons c cs ih => simp [hasDigit, ih]

theorem hasDigit_of_digits (d : List Char) (hne : d ≠ []) (hd : AllDigits d) : hasDigit d = true := by
  cases d with
  | nil => exact absurd rfl hne
  | cons c cs => simp [hasDigit, hd c (by simp)]

theorem hasDigit_append (a b : List Char) : hasDigit (a ++ b) = (hasDigit a || hasDigit b) := by
  induction a with
  | nil => simp [hasDigit]
  | cons c cs ih => simp [hasDigit, ih, Bool.or_assoc]

/-! ### integers (`N`, `N0`…`N9`) -/

theorem matchN_iff (s : List Char) : matchN s = true ↔ IsInt s := by
  unfold matchN
  simp only [Bool.and_eq_true, Bool.not_eq_true', List.isEmpty_iff, List.isEmpty_eq_false_iff]
  constructor
  · rintro ⟨⟨h1, h2⟩, _⟩
    have happ := span_append (stripMinus s)
    rw [h2, List.append_nil] at happ
    have hd := span_fst_digits (stripMinus s)
    rw [happ] at hd h1
    cases s with
    | nil => simp [stripMinus] at h1
    | cons c r =>
      simp only [stripMinus] at hd h1
      split at hd
      · rename_i hc; subst hc
        simp only [if_true] at h1
        exact ⟨r, h1, hd, Or.inr rfl⟩
      · rename_i hc
        simp only [hc, if_false] at h1
        exact ⟨c :: r, h1, hd, Or.inl rfl⟩
  · rintro ⟨d, hne, hd, rfl | rfl⟩
    · cases s with
      | nil => exact absurd rfl hne
      | cons c cs =>
        have hc : c ≠ '-' := by
          intro e; have := hd c (by simp); rw [e, minus_not_digit] at this; exact Bool.noConfusion this
        simp only [stripMinus, hc, if_false]
        rw [span_all _ hd]; exact ⟨⟨by simp, rfl⟩, hasDigit_of_digits _ hne hd⟩
    · simp only [stripMinus, if_true]
      rw [span_all _ hd]
      refine ⟨⟨hne, rfl⟩, ?_⟩
      simp [hasDigit, hasDigit_of_digits _ hne hd]

/-! ### decimals (`R`) -/

theorem stripMinus_cases (s : List Char) :
    (stripMinus s = s ∧ ∀ r, s ≠ '-' :: r) ∨ s = '-' :: stripMinus s := by
  cases s with
  | nil => left; simp [stripMinus]
  | cons c r =>
    by_cases hc : c = '-'
    · right; simp [stripMinus, hc]
    · left; simp [stripMinus, hc]

theorem hasDigit_minus (r : List Char) : hasDigit ('-' :: r) = hasDigit r := by
  simp [hasDigit, minus_not_digit]

theorem hasDigit_nil_false (i : List Char) (h : hasDigit i = true) : i ≠ [] := by
  intro e; subst e; simp [hasDigit] at h

theorem matchR_iff (s : List Char) : matchR s = true ↔ IsDecimal s := by
  unfold matchR
  rw [Bool.and_eq_true]
  constructor
  · rintro ⟨hf, hd⟩
    have happ := span_append (stripMinus s)
    have hi := span_fst_digits (stripMinus s)
    generalize hrest : (spanDigits (stripMinus s)).2 = rest at hf happ
    generalize (spanDigits (stripMinus s)).1 = i at happ hi
    cases rest with
    | nil =>
      rw [List.append_nil] at happ
      refine ⟨i, [], hi, by simp [AllDigits], ?_, Or.inl ⟨rfl, ?_⟩⟩
      · left
        rcases stripMinus_cases s with ⟨h, _⟩ | h
        · rw [← h, ← happ] at hd; exact hasDigit_nil_false _ hd
        · rw [h, hasDigit_minus, ← happ] at hd; exact hasDigit_nil_false _ hd
      · rcases stripMinus_cases s with ⟨h, _⟩ | h
        · left; rw [← h, ← happ]
        · right; rw [h, ← happ]
    | cons c r =>
      simp only [fracOk, Bool.and_eq_true, decide_eq_true_eq, Bool.not_eq_true',
        List.isEmpty_eq_false_iff, List.isEmpty_iff] at hf
      obtain ⟨⟨hc, hne⟩, hnil⟩ := hf
      subst hc
      have hr := span_append r
      rw [hnil, List.append_nil] at hr
      have hfd := span_fst_digits r
      rw [hr] at hfd hne
      refine ⟨i, r, hi, hfd, Or.inr hne, Or.inr ⟨hne, ?_⟩⟩
      rcases stripMinus_cases s with ⟨h, _⟩ | h
      · left; rw [← h, ← happ]
      · right; rw [h, ← happ]
  · rintro ⟨i, f, hi, hf, hne, ⟨hf0, hs | hs⟩ | ⟨hfne, hs | hs⟩⟩ <;> rw [hs]
    · have hine : i ≠ [] := by rcases hne with h | h; exact h; exact absurd hf0 h
      have hs : stripMinus i = i := by
        cases i with
        | nil => exact absurd rfl hine
        | cons c cs =>
          have hc : c ≠ '-' := by
            intro e; have := hi c (by simp); rw [e, minus_not_digit] at this; exact Bool.noConfusion this
          simp [stripMinus, hc]
      rw [hs, span_all _ hi]
      exact ⟨rfl, hasDigit_of_digits _ hine hi⟩
    · have hine : i ≠ [] := by rcases hne with h | h; exact h; exact absurd hf0 h
      simp only [stripMinus, if_true]
      rw [span_all _ hi, hasDigit_minus]
      exact ⟨rfl, hasDigit_of_digits _ hine hi⟩
    · have hs : stripMinus (i ++ '.' :: f) = i ++ '.' :: f := by
        cases i with
        | nil => simp [stripMinus]
        | cons c cs =>
          have hc : c ≠ '-' := by
            intro e; have := hi c (by simp); rw [e, minus_not_digit] at this; exact Bool.noConfusion this
          simp [stripMinus, hc]
      rw [hs, span_of_digits i ('.' :: f) hi (by intro c r' e; simp at e; rw [← e.1]; exact dot_not_digit)]
      simp only [fracOk, span_all _ hf, hasDigit_append, hasDigit, dot_not_digit,
        hasDigit_of_digits _ hfne hf]
      simp [hfne]
    · simp only [stripMinus, if_true]
      rw [span_of_digits i ('.' :: f) hi (by intro c r' e; simp at e; rw [← e.1]; exact dot_not_digit)]
      simp only [fracOk, span_all _ hf, hasDigit_append, hasDigit, dot_not_digit, minus_not_digit,
        hasDigit_of_digits _ hfne hf]
      simp [hfne]

/-! ### times (`TM`) -/

theorem time_iff (s : List Char) : isValidTime s = true ↔ IsTime s := by
  unfold isValidTime IsTime
  rw [← allDigits_iff]
  generalize num (s.take 2) = hh
  generalize num ((s.drop 2).take 2) = mm
  generalize num ((s.drop 4).take 2) = ss
  generalize s.length = n
  cases allDigits s
  · simp
  · simp only [Bool.not_true, Bool.false_eq_true, if_false, true_and]
    grind

/-! ### dates (`D8`, `D6`, `DT`) -/

theorem dayOk_iff (y m d : Nat) (h1 : 1 ≤ m) (h12 : m ≤ 12) :
    dayOk y m d = true ↔ 1 ≤ d ∧ d ≤ daysIn y m := by
  unfold dayOk daysIn leap
  have : m = 1 ∨ m = 2 ∨ m = 3 ∨ m = 4 ∨ m = 5 ∨ m = 6 ∨ m = 7 ∨ m = 8 ∨ m = 9 ∨ m = 10 ∨ m = 11 ∨ m = 12 := by
    omega
  rcases this with h | h | h | h | h | h | h | h | h | h | h | h <;> subst h <;> simp <;> grind

theorem ymdOk_core (s : List Char) :
    ymdOk s = true ↔
      IsYMD (num (s.take 4)) (num ((s.drop 4).take 2)) (num ((s.drop 6).take 2)) ∧
        (s.length = 12 → isValidTime ((s.drop 8).take 4) = true) := by
  unfold ymdOk IsYMD
  generalize num (s.take 4) = y
  generalize num ((s.drop 4).take 2) = m
  generalize num ((s.drop 6).take 2) = d
  generalize isValidTime ((s.drop 8).take 4) = t
  by_cases hy : y < 1800
  · simp [hy]; omega
  · by_cases hm : m < 1 ∨ m > 12
    · simp [hy]; omega
    · have h1 : 1 ≤ m := by omega
      have h12 : m ≤ 12 := by omega
      have hd := dayOk_iff y m d h1 h12
      have hm' : ¬ (m < 1) ∧ ¬ (12 < m) := by omega
      simp only [hy, hm'.1, hm'.2, decide_false, Bool.or_false, Bool.false_eq_true, if_false,
        Bool.not_eq_true']
      cases hdo : dayOk y m d
      · simp; intro _ _ _ h4; rw [hdo] at hd; have := hd.mpr; simp at this; omega
      · rw [hdo] at hd; have := hd.mp rfl
        by_cases hl : s.length = 12 <;> simp [hl] <;> omega

theorem ymdOk_iff8 (s : List Char) (h : s.length = 8) :
    ymdOk s = true ↔ IsYMD (num (s.take 4)) (num ((s.drop 4).take 2)) (num ((s.drop 6).take 2)) := by
  rw [ymdOk_core]; simp [h]

theorem date8_iff (s : List Char) : isValidDate .D8 s = true ↔ IsDate8 s := by
  unfold isValidDate IsDate8
  rw [← allDigits_iff]
  by_cases h : s.length = 8
  · cases had : allDigits s
    · simp [h]
    · simp [h, ymdOk_iff8 s h]
  · simp [h]

theorem digitVal_2 : digitVal '2' = 2 := by decide
theorem digitVal_0 : digitVal '0' = 0 := by decide
theorem digitVal_1 : digitVal '1' = 1 := by decide
theorem digitVal_9 : digitVal '9' = 9 := by decide

theorem ymdOk_addCentury (a b c d e f : Char) :
    ymdOk (addCentury [a, b, c, d, e, f]) = true ↔
      IsYMD (century (num [a, b])) (num [c, d]) (num [e, f]) := by
  unfold addCentury century
  by_cases hc : num [a, b] < 50
  · rw [if_pos (by simpa [num] using hc), if_pos hc, ymdOk_iff8 _ (by simp)]
    simp only [num, List.take, List.drop, List.foldl, digitVal_2, digitVal_0]
    rw [show ((((0 * 10 + 2) * 10 + 0) * 10 + digitVal a) * 10 + digitVal b) = 2000 + ((0 * 10 + digitVal a) * 10 + digitVal b) by omega]
  · rw [if_neg (by simpa [num] using hc), if_neg hc, ymdOk_iff8 _ (by simp)]
    simp only [num, List.take, List.drop, List.foldl, digitVal_1, digitVal_9]
    rw [show ((((0 * 10 + 1) * 10 + 9) * 10 + digitVal a) * 10 + digitVal b) = 1900 + ((0 * 10 + digitVal a) * 10 + digitVal b) by omega]

theorem date6_iff (s : List Char) : isValidDate .D6 s = true ↔ IsDate6 s := by
  unfold IsDate6
  rw [← allDigits_iff]
  by_cases h : s.length = 6
  · cases had : allDigits s
    · simp [isValidDate, h, had]
    · match s, h with
      | [a, b, c, d, e, f], _ =>
        have : isValidDate .D6 [a, b, c, d, e, f] = ymdOk (addCentury [a, b, c, d, e, f]) := by
          simp [isValidDate, had]
        rw [this, ymdOk_addCentury]
        simp
  · simp [isValidDate, h]

theorem time4_iff (a b c d : Char) (h : allDigits [a, b, c, d] = true) :
    isValidTime [a, b, c, d] = true ↔ num [a, b] ≤ 23 ∧ num [c, d] ≤ 59 := by
  rw [time_iff]; unfold IsTime
  rw [← allDigits_iff]; simp [h]

theorem date12_iff (s : List Char) (h : s.length = 12) :
    isValidDate .DT s = true ↔ IsDate12 s := by
  unfold IsDate12
  rw [← allDigits_iff]
  cases had : allDigits s
  · simp [isValidDate, h, had]
  · match s, h with
    | [a, b, c, d, e, f, g, i, j, k, l, m], _ =>
      have : isValidDate .DT [a, b, c, d, e, f, g, i, j, k, l, m] = ymdOk [a, b, c, d, e, f, g, i, j, k, l, m] := by
        simp [isValidDate, had]
      have hd : allDigits [j, k, l, m] = true := by
        simp only [allDigits, Bool.and_eq_true] at had ⊢
        obtain ⟨_, _, _, _, _, _, _, _, hj, hk, hl, hm, _⟩ := had
        exact ⟨hj, hk, hl, hm, trivial⟩
      rw [this, ymdOk_core]
      simp only [List.length_cons, List.length_nil, List.take, List.drop, true_implies,
        time4_iff j k l m hd, true_and]

/-- `DT` accepts the three date shapes and nothing else -/
theorem dateDT_iff (s : List Char) : isValidDate .DT s = true ↔ IsDate6 s ∨ IsDate8 s ∨ IsDate12 s := by
  by_cases h6 : s.length = 6
  · have : isValidDate .DT s = isValidDate .D6 s := by simp [isValidDate, h6]
    rw [this, date6_iff]
    have n8 : ¬ IsDate8 s := fun h => by have := h.1; omega
    have n12 : ¬ IsDate12 s := fun h => by have := h.1; omega
    simp [n8, n12]
  · by_cases h8 : s.length = 8
    · have : isValidDate .DT s = isValidDate .D8 s := by simp [isValidDate, h8]
      rw [this, date8_iff]
      have n6 : ¬ IsDate6 s := fun h => by have := h.1; omega
      have n12 : ¬ IsDate12 s := fun h => by have := h.1; omega
      simp [n6, n12]
    · by_cases h12 : s.length = 12
      · rw [date12_iff s h12]
        have n6 : ¬ IsDate6 s := fun h => by have := h.1; omega
        have n8 : ¬ IsDate8 s := fun h => by have := h.1; omega
        simp [n6, n8]
      · have n6 : ¬ IsDate6 s := fun h => h6 h.1
        have n8 : ¬ IsDate8 s := fun h => h8 h.1
        have n12 : ¬ IsDate12 s := fun h => h12 h.1
        simp [isValidDate, h6, h8, h12, n6, n8, n12]

/-! ### date ranges (`RD8`) -/

theorem countHyphen_append (a b : List Char) : countHyphen (a ++ b) = countHyphen a + countHyphen b := by
  induction a with
  | nil => simp [countHyphen]
  | cons c r ih => simp [countHyphen, ih]; omega

theorem countHyphen_digits (a : List Char) (h : AllDigits a) : countHyphen a = 0 := by
  induction a with
  | nil => rfl
  | cons c r ih =>
    have hc : c ≠ '-' := by
      intro e; have := h c (by simp); rw [e, minus_not_digit] at this; exact Bool.noConfusion this
    simp [countHyphen, hc, ih (fun x hx => h x (by simp [hx]))]

theorem before_after (a b : List Char) (h : countHyphen a = 0) :
    beforeHyphen (a ++ '-' :: b) = a ∧ afterHyphen (a ++ '-' :: b) = b := by
  induction a with
  | nil => simp [beforeHyphen, afterHyphen]
  | cons c r ih =>
    have hc : c ≠ '-' := by intro e; simp [countHyphen, e] at h
    have hr : countHyphen r = 0 := by simpa [countHyphen, hc] using h
    simp [beforeHyphen, afterHyphen, hc, ih hr]

theorem split_at_hyphen (s : List Char) (h : countHyphen s ≠ 0) :
    s = beforeHyphen s ++ '-' :: afterHyphen s := by
  induction s with
  | nil => simp [countHyphen] at h
  | cons c r ih =>
    by_cases hc : c = '-'
    · simp [beforeHyphen, afterHyphen, hc]
    · have : countHyphen r ≠ 0 := by simpa [countHyphen, hc] using h
      simp only [beforeHyphen, afterHyphen, hc, if_false, List.cons_append]
      rw [← ih this]

theorem rd8_iff (s : List Char) : isValidRD8 s = true ↔ IsRange s := by
  unfold isValidRD8 IsRange
  constructor
  · intro h
    split at h
    · rename_i h1
      rw [Bool.and_eq_true, date8_iff, date8_iff] at h
      exact ⟨beforeHyphen s, afterHyphen s, split_at_hyphen s (by omega), h.1, h.2⟩
    · exact absurd h (by simp)
  · rintro ⟨a, b, rfl, ha, hb⟩
    have ca := countHyphen_digits a ha.2.1
    have cb := countHyphen_digits b hb.2.1
    have hcount : countHyphen (a ++ '-' :: b) = 1 := by
      rw [countHyphen_append]; simp [countHyphen, ca, cb]
    have hba := before_after a b ca
    rw [if_pos hcount, hba.1, hba.2, Bool.and_eq_true, date8_iff, date8_iff]
    exact ⟨ha, hb⟩

/-! ### the dispatcher `IsValidDataType` -/

theorem dispatch_N (v : List Char) (suffix : List Char) (e x : Bool) :
    isValidDataType v ('N' :: suffix) e x = true ↔ IsInt v := by
  simp [isValidDataType, startsWithN, matchN_iff]

theorem dispatch_R (v : List Char) (e x : Bool) : isValidDataType v ['R'] e x = true ↔ IsDecimal v := by
  simp [isValidDataType, startsWithN, matchR_iff]

theorem dispatch_ID (v : List Char) (e x : Bool) :
    isValidDataType v ['I', 'D'] e x = true ↔ InCharset (pickCharset e x) v := by
  simp [isValidDataType, startsWithN, idOk_iff]

theorem dispatch_AN (v : List Char) (e x : Bool) :
    isValidDataType v ['A', 'N'] e x = true ↔ InCharset (pickCharset e x) v := by
  simp [isValidDataType, startsWithN, idOk_iff]

theorem dispatch_RD8 (v : List Char) (e x : Bool) :
    isValidDataType v ['R', 'D', '8'] e x = true ↔ IsRange v := by
  simp [isValidDataType, startsWithN, rd8_iff]

theorem dispatch_DT (v : List Char) (e x : Bool) :
    isValidDataType v ['D', 'T'] e x = true ↔ IsDate6 v ∨ IsDate8 v ∨ IsDate12 v := by
  simp [isValidDataType, startsWithN, dateDT_iff]

theorem dispatch_D8 (v : List Char) (e x : Bool) :
    isValidDataType v ['D', '8'] e x = true ↔ IsDate8 v := by
  simp [isValidDataType, startsWithN, date8_iff]

theorem dispatch_D6 (v : List Char) (e x : Bool) :
    isValidDataType v ['D', '6'] e x = true ↔ IsDate6 v := by
  simp [isValidDataType, startsWithN, date6_iff]

theorem dispatch_TM (v : List Char) (e x : Bool) :
    isValidDataType v ['T', 'M'] e x = true ↔ IsTime v := by
  simp [isValidDataType, startsWithN, time_iff]

/-! ### non-vacuity: every language has members and non-members -/

example : IsInt ['-', '4', '2'] := ⟨['4', '2'], by simp, by simp [AllDigits, isDigit], Or.inr rfl⟩
example : matchR ['-', '.', '5'] = true ∧ matchR ['-'] = false ∧ matchR [] = false ∧ matchR ['5', '.'] = false := by decide
example : isValidDate .D8 "20240229".toList = true ∧ isValidDate .D8 "19000229".toList = false ∧
    isValidDate .D8 "17991231".toList = false ∧ isValidDate .D6 "000229".toList = true := by decide
example : isValidTime "2359".toList = true ∧ isValidTime "235".toList = false ∧
    isValidTime "23595".toList = false ∧ isValidTime "23595999".toList = true ∧
    isValidTime "235959999".toList = false := by decide
example : isValidRD8 "20200101-20200102".toList = true ∧
    isValidRD8 "20200101-20200102-20200103".toList = false := by decide

end Pyx12Verif.Validation
