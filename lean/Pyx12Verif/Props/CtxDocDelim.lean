/-
(c) C12 for the context reader: the yields do not depend on how the document was delimited.

`ctxRead_congr`                  everything `iter_segments` does after the reader depends on the header only through the ISA
                                 version (control map choice) and the component separator (`Segment.get_value` prints
                                 composites with it: GS01 / GS08 / BHT02 for the map index, 01 / 02 / 03 / 01-1 for the
                                 walker) — the terminator, the element separator and the line layout are not consulted;
`ctxDoc_delimiter_independent`   two admissible encodings of ONE segment list (any terminators, any element separators,
                                 any CR/LF layout, the same component separator, headers declaring the triple they were
                                 written with and the same ISA version) get the identical `CtxOutcome`: the way the
                                 generator ends, the yielded nodes (plain nodes and trees with nesting, source index,
                                 seg_count, line), the source segments and the errors found on the plain nodes.
Mirror of Props/DocDelim2.lean; the unrestricted form is false for the reason given there (the ISA version is read by
offset) and the different-component-separator form is left as `ctxDoc_delimiter_independent_full`.
-/
import Pyx12Verif.Model.CtxDoc
import Pyx12Verif.Props.DocDelim2

namespace Pyx12Verif.Doc
open Pyx12Verif

/-- the glue part of one round does not depend on how the segment was delimited -/
theorem cStepSeg_congr {d₁ d₂ : Delims} {s : Seg} (h : SepAgree d₁ d₂ s) (ms : Maps) (control : MapX) (k : Nat)
    (le : List SegText.RErr) (st : CState) :
    cStepSeg ms control d₁ k le s st = cStepSeg ms control d₂ k le s st := by
  have e1 := viewOf_congr h
  have e2 := gv_congr h
  have e4 := segData_congr h ms
  have hb : ∀ (orig : Option NodeRef) (st : CState) (n : NodeRef) (pops : List Ctx.LPath) (pushes : List (Ctx.LPath × Nat)),
      cBranch ms d₁ s orig st n pops pushes = cBranch ms d₂ s orig st n pops pushes := by
    intro orig st n pops pushes
    simp only [cBranch, cGsBranch, cBhtBranch, e2]
  have hf : ∀ (si : Ctx.SegInfo) (re : List RdErr) (st : CState) (f : CFound),
      cAfterFind ms d₁ s si re st f = cAfterFind ms d₂ s si re st f := by
    intro si re st f
    cases f with
    | crash site => rfl
    | res n pops pushes cnt we =>
      cases n with
      | none => rfl
      | some x => simp only [cAfterFind, hb]
  have hn : ∀ (st : CState), cFind ms control d₁ s st = cFind ms control d₂ s st := by
    intro st
    simp only [cFind, cWalk, e4]
  have hr : ∀ (st : CState) (pre : List RdErr) (o : Envelope.Outcome (Envelope.RState × List Envelope.Err)),
      cAfterReader ms control d₁ k s st pre o = cAfterReader ms control d₂ k s st pre o := by
    intro st pre o
    cases o with
    | crash e => rfl
    | raised => rfl
    | ok r => simp only [cAfterReader, hf, hn]
  simp only [cStepSeg, e1]
  cases Pipeline.viewOf d₂ s with
  | none => rfl
  | some v => simp only [cWithView, hr]

theorem cRunSegs_congr (d₁ d₂ : Delims) (ms : Maps) (control : MapX) (lid : Option Ctx.LoopId) :
    ∀ (ps : List (List SegText.RErr × Seg)) (k : Nat) (a : CAcc), (∀ p ∈ ps, SepAgree d₁ d₂ p.2) →
      cRunSegs ms control d₁ lid k a ps = cRunSegs ms control d₂ lid k a ps := by
  intro ps
  induction ps with
  | nil => intro k a _; rfl
  | cons p ps ih =>
    intro k a h
    simp only [cRunSegs, cStepSeg_congr (h p (by simp)) ms control]
    cases cRound lid (a.read p.2) (cStepSeg ms control d₂ k p.1 p.2 a.st) with
    | inl e => rfl
    | inr a' => exact ih _ _ (fun q hq => h q (List.mem_cons_of_mem _ hq))

/-- **Everything after the reader is a function of the segments, the ISA version and the component separator.** -/
theorem ctxRead_congr (ms : Maps) (lid : Option Ctx.LoopId) (h₁ h₂ : Tokenizer.Header) (rr : SegText.ReadResult)
    (hicvn : h₁.icvn = h₂.icvn) (hsub : h₁.sub = h₂.sub) (hI : ∀ p ∈ rr.segs, IsaSingle p.2) :
    ctxRead ms lid h₁ rr = ctxRead ms lid h₂ rr := by
  have hc : controlFile h₁ = controlFile h₂ := by simp only [controlFile, hicvn]
  simp only [ctxRead, hc]
  cases findMap ms (controlFile h₂) with
  | none => rfl
  | some control =>
    simp only
    rw [cRunSegs_congr (SegText.delimsOf h₁) (SegText.delimsOf h₂) ms control lid rr.segs _ _
      (fun p hp => sepAgree_of _ _ hsub p.2 (hI p hp))]

/-- two texts that the reader turns into the same read result, written with the same ISA version and component separator -/
theorem ctxDoc_delimiter_independent_partial (ms : Maps) (lid : Option Ctx.LoopId) (t₁ t₂ : List Char)
    (h₁ h₂ : Tokenizer.Header) (rr : SegText.ReadResult)
    (hr₁ : SegText.readAll { rest := t₁, sizes := [] } = .ok h₁ rr)
    (hr₂ : SegText.readAll { rest := t₂, sizes := [] } = .ok h₂ rr)
    (hicvn : h₁.icvn = h₂.icvn) (hsub : h₁.sub = h₂.sub) :
    ctxDoc ms lid t₁ = ctxDoc ms lid t₂ := by
  have hI : ∀ p ∈ rr.segs, IsaSingle p.2 := by
    have := hr₁
    rw [Pipeline.readAll_of_text t₁ [] (by intro k hk; cases hk)] at this
    unfold Tokenizer.rawSpec at this
    cases hp : Tokenizer.parseHeader (t₁.take Tokenizer.ISA_LEN) with
    | error e => rw [hp] at this; cases this
    | ok hd =>
      rw [hp] at this
      simp only at this
      injection this with e1 e2
      subst e1
      rw [← e2]
      have hterm : (SegText.delimsOf hd).term = hd.seg := rfl
      have := reader_isaSingle (SegText.delimsOf hd) t₁
      rw [hterm] at this
      exact this
  simp only [ctxDoc, hr₁, hr₂]
  exact ctxRead_congr ms lid h₁ h₂ rr hicvn hsub hI

/-- **(c) for one component separator.**  `segs` written with `d₁` / line break `b₁` and with `d₂` / `b₂`; both triples
    pairwise distinct and absent from the data (`C12.Admissible`), both texts begin with a header line that declares the
    triple they were written with (and the same ISA version), `d₁.sub = d₂.sub`.  Then `iter_segments(lid)` yields the
    same nodes and ends the same way for both texts, for every requested loop id. -/
theorem ctxDoc_delimiter_independent (ms : Maps) (lid : Option Ctx.LoopId) (d₁ d₂ : Delims) (b₁ b₂ : List Char)
    (segs : List Seg) (t₁ t₂ : List Char) (hd₁ hd₂ : Tokenizer.Header)
    (hadm : C12.Admissible d₁ d₂ segs) (hb₁ : C01.AllBrk b₁) (hb₂ : C01.AllBrk b₂)
    (e₁ : SegText.encode d₁ b₁ segs = some t₁) (e₂ : SegText.encode d₂ b₂ segs = some t₂)
    (hh₁ : Tokenizer.parseHeader (t₁.take Tokenizer.ISA_LEN) = .ok hd₁)
    (hh₂ : Tokenizer.parseHeader (t₂.take Tokenizer.ISA_LEN) = .ok hd₂)
    (hdel₁ : SegText.delimsOf hd₁ = d₁) (hdel₂ : SegText.delimsOf hd₂ = d₂)
    (hsub : d₁.sub = d₂.sub) (hicvn : hd₁.icvn = hd₂.icvn) :
    ctxDoc ms lid t₁ = ctxDoc ms lid t₂ := by
  obtain ⟨r, hr₁, hr₂, _, _, _⟩ := C12.reencode_reports_invariant d₁ d₂ b₁ b₂ segs hadm hb₁ hb₂ t₁ t₂ e₁ e₂ [] []
    (by intro k hk; cases hk) (by intro k hk; cases hk) hd₁ hd₂ hh₁ hh₂ hdel₁ hdel₂
  have hs : hd₁.sub = hd₂.sub := by
    have h1 : (SegText.delimsOf hd₁).sub = hd₁.sub := rfl
    have h2 : (SegText.delimsOf hd₂).sub = hd₂.sub := rfl
    rw [← h1, ← h2, hdel₁, hdel₂]; exact hsub
  exact ctxDoc_delimiter_independent_partial ms lid t₁ t₂ hd₁ hd₂ r hr₁ hr₂ hicvn hs

/-- the same, itemised -/
theorem ctxDoc_delimiter_independent_views (ms : Maps) (lid : Option Ctx.LoopId) (d₁ d₂ : Delims) (b₁ b₂ : List Char)
    (segs : List Seg) (t₁ t₂ : List Char) (hd₁ hd₂ : Tokenizer.Header)
    (hadm : C12.Admissible d₁ d₂ segs) (hb₁ : C01.AllBrk b₁) (hb₂ : C01.AllBrk b₂)
    (e₁ : SegText.encode d₁ b₁ segs = some t₁) (e₂ : SegText.encode d₂ b₂ segs = some t₂)
    (hh₁ : Tokenizer.parseHeader (t₁.take Tokenizer.ISA_LEN) = .ok hd₁)
    (hh₂ : Tokenizer.parseHeader (t₂.take Tokenizer.ISA_LEN) = .ok hd₂)
    (hdel₁ : SegText.delimsOf hd₁ = d₁) (hdel₂ : SegText.delimsOf hd₂ = d₂)
    (hsub : d₁.sub = d₂.sub) (hicvn : hd₁.icvn = hd₂.icvn) :
    (ctxDoc ms lid t₁).stop = (ctxDoc ms lid t₂).stop ∧
    (ctxDoc ms lid t₁).yields.map Ctx.leavesOf = (ctxDoc ms lid t₂).yields.map Ctx.leavesOf ∧
    (ctxDoc ms lid t₁).segs = (ctxDoc ms lid t₂).segs ∧ (ctxDoc ms lid t₁).errs = (ctxDoc ms lid t₂).errs := by
  rw [ctxDoc_delimiter_independent ms lid d₁ d₂ b₁ b₂ segs t₁ t₂ hd₁ hd₂ hadm hb₁ hb₂ e₁ e₂ hh₁ hh₂ hdel₁ hdel₂ hsub hicvn]
  exact ⟨rfl, rfl, rfl, rfl⟩

/-- **(c), full statement (not proved).**  With two DIFFERENT component separators the two runs read the same values
    wherever a composite has one component, but `Segment.get_value` of a multi-component element prints the components
    joined by the respective separator; GS01 / GS08 / BHT02 and the walker's 01 / 02 / 03 then differ by that character.
    The statement needs the renaming argument through `getFilename` and `segData` (the interned value of a string that
    contains the separator is `unk` in both runs only when the map mentions neither spelling).  Same gap as
    `doc_delimiter_independent_full` (b). -/
def ctxDoc_delimiter_independent_full : Prop :=
  ∀ (ms : Maps) (lid : Option Ctx.LoopId) (d₁ d₂ : Delims) (b₁ b₂ : List Char) (segs : List Seg) (t₁ t₂ : List Char)
    (hd₁ hd₂ : Tokenizer.Header),
    C12.Admissible d₁ d₂ segs → C01.AllBrk b₁ → C01.AllBrk b₂ →
    SegText.encode d₁ b₁ segs = some t₁ → SegText.encode d₂ b₂ segs = some t₂ →
    Tokenizer.parseHeader (t₁.take Tokenizer.ISA_LEN) = .ok hd₁ → Tokenizer.parseHeader (t₂.take Tokenizer.ISA_LEN) = .ok hd₂ →
    SegText.delimsOf hd₁ = d₁ → SegText.delimsOf hd₂ = d₂ → hd₁.icvn = hd₂.icvn →
    (ctxDoc ms lid t₁).stop = (ctxDoc ms lid t₂).stop ∧
      (ctxDoc ms lid t₁).yields.map Ctx.leavesOf = (ctxDoc ms lid t₂).yields.map Ctx.leavesOf

end Pyx12Verif.Doc
