/-
C07 — validation is total: any input yields a verdict or a documented refusal.          CLAIM LEVEL: PARTIAL

`pipeline_total` is a theorem about the composed model `Pipeline.readAndCheck` (Model/Pipeline.lean): for every text,
every read-size oracle (sizes ≥ 1) and every matched-node oracle whose nodes are well formed, the outcome is a Boolean
verdict, a refusal (`refused`, `notX12`) or `mapNotFound` — never `crash`.  It assembles

    C01.raw_chunk_independent, C01.reader_never_crashes, C01.readLines_clean   (tokeniser + line wrapper never raise; every
                                                                               composite of a yielded segment is non-empty)
    Envelope.step_noCrash (the step lemma of C04.reader_total)                 (_parse_segment after the D5/D6/D34 guards)
    ElemValid.elemValidIn / compValid true (total functions, C13/C15; the fixed composite loop cannot iterate None)
    Syn.syntaxErrors_spec (built on Syn.no_crash, C14)                         (well-formed notes never raise)

with the glue written in Model/Pipeline.lean (`getValue`, `viewOf`, `segValid`, the segment loop).  `reader_total` is the
same for plain reading (`readEnvelope`: iteration, `pop_errors`, `cleanup`).

PARTIAL: the theorem covers only the modelled core.  Not in the composition, hence covered only by the mutation fuzz of
harness/c07.py: map_walker.walk and the walker-to-validation glue of x12n_document (`node is None` fallback, map lookup
and switching), the error tree (err_handler), the 997/999 visitors, the HTML and XML sinks, the callback, logging, the
context reader's tree building, data-element lookup failures.  The hypotheses on the oracle (`Oracle.WF`: fewer than 99
children per segment node, syntax notes with at least two positions in 01..99 and a known type letter) are facts about
the shipped maps checked by C14 / C16, not about the input.
-/
import Pyx12Verif.Model.Pipeline
import Pyx12Verif.Props.C01
import Pyx12Verif.Props.C04
import Pyx12Verif.Props.C14
import Pyx12Verif.Props.C15

namespace Pyx12Verif.Pipeline
open Pyx12Verif

/-! ### hypotheses on the oracle (map facts) -/

def NodeWF (nd : NodeDef) : Prop := nd.children.length < 99 ∧ Syn.AllWF nd.notes

def Oracle.WF (o : Oracle) : Prop := ∀ i s nd chk, o.matched i s = .node nd chk → NodeWF nd

/-- what the reader guarantees of every segment it yields (from `C01.readLines_clean`) -/
def NonEmptyComps (s : Seg) : Prop := ∀ c ∈ s.elems, c ≠ []

def SegRes.NoCrash (r : SegRes) : Prop := ∀ site, r ≠ .crash site

theorem andThen_noCrash {a b : SegRes} (ha : a.NoCrash) (hb : b.NoCrash) : (a.andThen b).NoCrash := by
  intro site
  cases a with
  | crash s => exact absurd rfl (ha s)
  | ok v n =>
    cases b with
    | crash s => exact absurd rfl (hb s)
    | ok w m => simp [SegRes.andThen]

/-! ### Segment.get_value on reader segments -/

theorem compFormat_noCrash (sep : Char) (c : List Str) (hc : c ≠ []) : compFormat sep c ≠ .crash := by
  unfold compFormat
  rw [SegText.formatComp_eq sep c hc]
  simp

theorem getValue_noCrash (d : Delims) (s : Seg) (k : Nat) (hs : NonEmptyComps s) : getValue d s k ≠ .crash := by
  unfold getValue
  cases h : s.elems[k]? with
  | none => simp
  | some c =>
    simp only
    exact compFormat_noCrash _ c (hs c (List.mem_of_getElem? h))

theorem fetch_noCrash (d : Delims) (s : Seg) (k : Option Nat) (hs : NonEmptyComps s) : fetch d s k ≠ .crash := by
  cases k with
  | none => simp [fetch]
  | some k =>
    have := getValue_noCrash d s k hs
    cases h : getValue d s k with
    | crash => exact absurd h this
    | absent => simp [fetch, h, fetchOf]
    | value v => simp [fetch, h, fetchOf]

theorem viewOf_isSome (d : Delims) (s : Seg) (hs : NonEmptyComps s) : ∃ v, viewOf d s = some v := by
  unfold viewOf
  have h1 := fetch_noCrash d s (ctlIdx s.id) hs
  have h2 := fetch_noCrash d s (cntIdx s.id) hs
  cases hk : fetch d s (ctlIdx s.id) with
  | crash => exact absurd hk h1
  | got k =>
    cases hc : fetch d s (cntIdx s.id) with
    | crash => exact absurd hc h2
    | got c => exact ⟨_, rfl⟩

/-! ### segment_if.is_valid -/

theorem ofPair_noCrash (p : Bool × List ElemValid.Code) : (ofPair p).NoCrash := by
  intro site h; cases h

theorem elemRes_noCrash (d : ElemValid.ElemDef) (ctx : ElemValid.Ctx) (data : Option (List Str))
    (h : ∀ c, data = some c → c ≠ []) : (elemRes d ctx data).NoCrash := by
  cases data with
  | none => exact ofPair_noCrash _
  | some c =>
    cases c with
    | nil => exact absurd rfl (h [] rfl)
    | cons v r =>
      cases r with
      | nil => exact ofPair_noCrash _
      | cons w r2 => exact ofPair_noCrash _

/-- the composite loop after fix C15-D19a has no raising branch -/
theorem compValid_patched_ok (u : ElemValid.Usage) (kids : List (ElemValid.ElemDef × ElemValid.Ctx))
    (data : Option (List Str)) : ElemValid.compValid true u kids data ≠ .crashIterNone := by
  cases data with
  | none => cases u <;> simp [ElemValid.compValid]
  | some vs =>
    simp only [ElemValid.compValid]
    split
    · simp
    · split <;> simp

theorem childRes_noCrash (c : ChildDef) (data : Option (List Str)) (h : ∀ x, data = some x → x ≠ []) :
    (childRes c data).NoCrash := by
  cases c with
  | elem d ctx => exact elemRes_noCrash d ctx data h
  | comp u kids =>
    intro site
    have := compValid_patched_ok u kids data
    simp only [childRes]
    cases hv : ElemValid.compValid true u kids data with
    | crashIterNone => exact absurd hv this
    | ok v codes => simp [ofComp]

theorem childrenRes_noCrash (cs : List ChildDef) : ∀ (es : List (List Str)), (∀ e ∈ es, e ≠ []) →
    (childrenRes cs es).NoCrash := by
  induction cs with
  | nil => intro es _ site h; cases es <;> cases h
  | cons c cs ih =>
    intro es hes
    cases es with
    | nil =>
      simp only [childrenRes]
      exact andThen_noCrash (childRes_noCrash c none (by intro x hx; cases hx)) (ih [] (by simp))
    | cons e es =>
      simp only [childrenRes]
      refine andThen_noCrash (childRes_noCrash c (some e) ?_) (ih es (fun x hx => hes x (List.mem_cons_of_mem _ hx)))
      intro x hx
      cases hx
      exact hes e (by simp)

theorem tooMany_noCrash (d : Delims) (nd : NodeDef) (s : Seg) (hn : nd.children.length < 99) (hs : NonEmptyComps s) :
    (tooMany d nd s).NoCrash := by
  intro site
  unfold tooMany
  split
  · have h100 : ¬ 100 ≤ nd.children.length + 1 := by omega
    simp only [h100, if_false]
    have := getValue_noCrash d s nd.children.length hs
    cases hv : getValue d s nd.children.length with
    | crash => exact absurd hv this
    | absent => simp [tooManyValue]
    | value v => simp [tooManyValue]
  · simp

theorem notesRes_noCrash (d : Delims) (nd : NodeDef) (s : Seg) (hw : Syn.AllWF nd.notes) (hs : NonEmptyComps s) :
    (notesRes d nd s).NoCrash := by
  intro site
  unfold notesRes
  rw [SegText.formatComps_eq _ s.elems hs]
  obtain ⟨errs, he, _⟩ := Syn.syntaxErrors_spec
    (List.map (fun c => SegText.joinWith (sepOf d s.id) (SegText.normComp c)) s.elems) nd.notes hw
  simp [notesOn, he, ofNotes]

theorem segValid_noCrash (d : Delims) (nd : NodeDef) (s : Seg) (hw : NodeWF nd) (hs : NonEmptyComps s) :
    (segValid d nd s).NoCrash :=
  andThen_noCrash
    (andThen_noCrash (tooMany_noCrash d nd s hw.1 hs) (childrenRes_noCrash nd.children s.elems hs))
    (notesRes_noCrash d nd s hw.2 hs)

/-! ### the segment loop -/

def Step.NoCrash (t : Step) : Prop := ∀ site, t ≠ .stop (.crash site)

theorem checkSeg_noCrash (o : Oracle) (ho : o.WF) (d : Delims) (i : Nat) (a : Acc) (nr : Nat) (s : Seg)
    (hs : NonEmptyComps s) : (checkSeg o d i a nr s).NoCrash := by
  intro site
  obtain ⟨v, hv⟩ := viewOf_isSome d s hs
  simp only [checkSeg, hv, withView]
  have hstep := Envelope.step_noCrash a.st v
  cases hr : Envelope.step Envelope.Fixes.all a.st v with
  | crash e => exact absurd hr (hstep e)
  | raised => simp [afterReader]
  | ok r =>
    simp only [afterReader]
    cases hm : o.matched i s with
    | unmatched => simp [afterMatch]
    | mapNotFound => simp [afterMatch]
    | node nd chk =>
      simp only [afterMatch]
      have hseg := segValid_noCrash d nd s (ho i s nd chk hm) hs
      cases hv2 : segValid d nd s with
      | crash st => exact absurd hv2 (hseg st)
      | ok w m => simp [afterValid]

theorem checkSegs_noCrash (o : Oracle) (ho : o.WF) (d : Delims) (ps : List (List SegText.RErr × Seg)) :
    ∀ (i : Nat) (a : Acc), (∀ p ∈ ps, NonEmptyComps p.2) → (checkSegs o d i a ps).NoCrash := by
  induction ps with
  | nil => intro i a _ site h; cases h
  | cons p ps ih =>
    intro i a hps site
    have h1 := checkSeg_noCrash o ho d i a p.1.length p.2 (hps p (by simp))
    simp only [checkSegs]
    cases hc : checkSeg o d i a p.1.length p.2 with
    | stop out =>
      simp only
      intro h
      injection h with h
      exact h1 site (by rw [hc, h])
    | next b =>
      simp only
      exact ih (i + 1) b (fun q hq => hps q (List.mem_cons_of_mem _ hq)) site

/-- every segment the reader yields has non-empty composites -/
theorem reader_segments_nonEmpty (d : Delims) (text : List Char) :
    ∀ p ∈ (SegText.readLines d [] (Tokenizer.spec d.term text)).segs, NonEmptyComps p.2 := by
  intro p hp c hc
  exact (((C01.readLines_clean d _ (C01.spec_lineOk d text) []).2 p hp).1.2.2 c hc).1

theorem readAll_of_text (text : List Char) (sizes : List Nat) (hsz : ∀ k ∈ sizes, 1 ≤ k) :
    SegText.readAll { rest := text, sizes := sizes } =
      (match Tokenizer.rawSpec text with
       | .error e => .error e
       | .ok h lines => .ok h (SegText.readLines (SegText.delimsOf h) [] lines)) := by
  unfold SegText.readAll
  rw [C01.raw_chunk_independent text sizes hsz]
  cases Tokenizer.rawSpec text <;> rfl

/-! ### the property (modelled core) -/

/-- PARTIAL (see the file header).  Whatever the text, however the stream chunks it, whatever the walker / map lookup
    answer (any oracle with well-formed nodes): the modelled pipeline ends with a Boolean verdict or a documented
    refusal, never with an unintended exception. -/
theorem pipeline_total (o : Oracle) (ho : o.WF) (text : List Char) (sizes : List Nat) (hsz : ∀ k ∈ sizes, 1 ≤ k)
    (site : Site) : readAndCheck o { rest := text, sizes := sizes } ≠ .crash site := by
  unfold readAndCheck
  rw [readAll_of_text text sizes hsz]
  unfold Tokenizer.rawSpec
  cases hp : Tokenizer.parseHeader (text.take Tokenizer.ISA_LEN) with
  | error e => simp
  | ok h =>
    simp only
    have hd : (SegText.delimsOf h).term = h.seg := rfl
    have hcr := C01.reader_never_crashes (SegText.delimsOf h) text
    have hne := reader_segments_nonEmpty (SegText.delimsOf h) text
    rw [hd] at hcr hne
    have hloop := checkSegs_noCrash o ho (SegText.delimsOf h) _ 0 Acc.init hne
    cases hc : checkSegs o (SegText.delimsOf h) 0 Acc.init
        (SegText.readLines (SegText.delimsOf h) [] (Tokenizer.spec h.seg text)).segs with
    | stop out =>
      simp only [finish]
      intro hout
      exact hloop site (by rw [hc, hout])
    | next a =>
      simp only [finish, hcr]
      simp

/-- the outcome is one of the four documented kinds -/
theorem pipeline_outcomes (o : Oracle) (ho : o.WF) (text : List Char) (sizes : List Nat) (hsz : ∀ k ∈ sizes, 1 ≤ k) :
    (∃ b, readAndCheck o ⟨text, sizes⟩ = .verdict b) ∨ (∃ e, readAndCheck o ⟨text, sizes⟩ = .refused e) ∨
      readAndCheck o ⟨text, sizes⟩ = .notX12 ∨ readAndCheck o ⟨text, sizes⟩ = .mapNotFound := by
  have h := pipeline_total o ho text sizes hsz
  cases hr : readAndCheck o ⟨text, sizes⟩ with
  | verdict b => exact Or.inl ⟨b, rfl⟩
  | refused e => exact Or.inr (Or.inl ⟨e, rfl⟩)
  | notX12 => exact Or.inr (Or.inr (Or.inl rfl))
  | mapNotFound => exact Or.inr (Or.inr (Or.inr rfl))
  | crash s => exact absurd hr (h s)

/-! ### plain reading -/

theorem envSegs_noCrash (d : Delims) (ps : List (List SegText.RErr × Seg)) :
    ∀ (k : Nat) (st : Envelope.RState), (∀ p ∈ ps, NonEmptyComps p.2) →
      ∀ j site, envSegs d k st ps ≠ .inl (.crash j site) := by
  induction ps with
  | nil => intro k st _ j site h; cases h
  | cons p ps ih =>
    intro k st hps j site
    obtain ⟨v, hv⟩ := viewOf_isSome d p.2 (hps p (by simp))
    simp only [envSegs, hv, envView]
    have hstep := Envelope.step_noCrash st v
    cases hr : Envelope.step Envelope.Fixes.all st v with
    | crash e => exact absurd hr (hstep e)
    | raised => simp [envAfter]
    | ok r =>
      simp only [envAfter]
      exact ih (k + 1) r.1 (fun q hq => hps q (List.mem_cons_of_mem _ hq)) j site

/-- constructing `X12Reader` on any stream, iterating it to the end (popping the errors) and calling `cleanup()`
    ends in `refused`, `raised` (both the documented X12Error) or `done` -/
theorem reader_total (text : List Char) (sizes : List Nat) (hsz : ∀ k ∈ sizes, 1 ≤ k) (j : Nat) (site : Site) :
    readEnvelope { rest := text, sizes := sizes } ≠ .crash j site := by
  unfold readEnvelope
  rw [readAll_of_text text sizes hsz]
  unfold Tokenizer.rawSpec
  cases hp : Tokenizer.parseHeader (text.take Tokenizer.ISA_LEN) with
  | error e => simp
  | ok h =>
    simp only
    have hd : (SegText.delimsOf h).term = h.seg := rfl
    have hcr := C01.reader_never_crashes (SegText.delimsOf h) text
    have hne := reader_segments_nonEmpty (SegText.delimsOf h) text
    rw [hd] at hcr hne
    have hloop := envSegs_noCrash (SegText.delimsOf h) _ 0 (Envelope.RState.init false) hne
    cases hc : envSegs (SegText.delimsOf h) 0 (Envelope.RState.init false)
        (SegText.readLines (SegText.delimsOf h) [] (Tokenizer.spec h.seg text)).segs with
    | inl out =>
      simp only [envFinish]
      intro hout
      exact hloop j site (by rw [hc, hout])
    | inr n =>
      simp only [envFinish, hcr]
      simp

/-! ### the guards matter: the same glue over the unguarded code does crash -/

/-- without the hypothesis on composites (a composite without sub-elements cannot come out of the reader, but the
    datatype allows it) `get_value` raises: the hypothesis `NonEmptyComps` is used, not decoration -/
example : getValue ⟨'~', '*', ':'⟩ ⟨['S', 'E'], [[]]⟩ 0 = .crash := by decide

/-- a node with 99 children and a segment with 100 elements: `'%02i' % 100` is no reference designator -/
example : tooMany ⟨'~', '*', ':'⟩ ⟨List.replicate 99 (.comp .S []), []⟩ ⟨['X'], List.replicate 100 [[]]⟩ = .crash .refDes := by
  decide

/-! ### non-vacuity: a well-formed oracle and inputs reaching every outcome kind -/

def exElem : ElemValid.ElemDef :=
  { usage := .R, dataType := ElemValid.tyAN, minLen := 1, maxLen := 3, codes := [], extDeclared := false,
    hasRegex := false, typeList := [], seq := 1, parentComposite := false, parentRequired := false }

def exCtx : ElemValid.Ctx := { extended := false, v5010 := false, extMember := false, regexFound := false }

/-- a one-element segment node with a well-formed exclusion note -/
def exNode : NodeDef := { children := [.elem exElem exCtx], notes := [⟨'E', [1, 2]⟩] }

/-- the oracle: `ZZ` segments have no map, `QQ` segments are not found by the walker, everything else matches `exNode` -/
def exOracle : Oracle :=
  { matched := fun _ s => if s.id = ['Z', 'Z'] then .mapNotFound else if s.id = ['Q', 'Q'] then .unmatched
                          else .node exNode false }

theorem exOracle_wf : exOracle.WF := by
  intro i s nd chk h
  simp only [exOracle] at h
  split at h
  · cases h
  · split at h
    · cases h
    · injection h with h1 _
      subst h1
      refine ⟨by decide, ?_⟩
      intro n hn
      simp only [exNode, List.mem_singleton] at hn
      subst hn
      exact ⟨⟨by decide, by decide⟩, Or.inr (Or.inr (Or.inl rfl))⟩

example : exOracle.WF := exOracle_wf

/-- segment-level outcomes on both sides: accepted, rejected with one error, rejected for a surplus element -/
example : segValid ⟨'~', '*', ':'⟩ exNode ⟨['N', '1'], [[['A']]]⟩ = .ok true 0 := by decide
example : segValid ⟨'~', '*', ':'⟩ exNode ⟨['N', '1'], [[['A', 'B', 'C', 'D']]]⟩ = .ok false 1 := by decide
example : segValid ⟨'~', '*', ':'⟩ exNode ⟨['N', '1'], [[['A']], [['B']]]⟩ = .ok false 2 := by decide

/-- loop outcomes: a verdict on both sides, map-not-found, and the X12Error for an ISA without 16 elements -/
example : finish ⟨[], false, []⟩ (checkSegs exOracle ⟨'~', '*', ':'⟩ 0 Acc.init [([], ⟨['N', '1'], [[['A']]]⟩)]) = .verdict true := by
  decide
example : finish ⟨[], false, []⟩ (checkSegs exOracle ⟨'~', '*', ':'⟩ 0 Acc.init [([], ⟨['N', '1'], [[[]]]⟩)]) = .verdict false := by
  decide
example : finish ⟨[], false, []⟩ (checkSegs exOracle ⟨'~', '*', ':'⟩ 0 Acc.init [([], ⟨['S', 'E'], []⟩)]) = .verdict false := by
  decide
example : checkSegs exOracle ⟨'~', '*', ':'⟩ 0 Acc.init [([], ⟨['Z', 'Z'], []⟩)] = .stop .mapNotFound := by decide
example : checkSegs exOracle ⟨'~', '*', ':'⟩ 0 Acc.init [([], ⟨['I', 'S', 'A'], [[['1']]]⟩)] = .stop .notX12 := by decide

/-- whole-input outcomes: text that is not an interchange is refused -/
example : readAndCheck exOracle ⟨['G', 'S', '*', '~'], []⟩ = .refused .notISA := by decide
example : readAndCheck exOracle ⟨['I', 'S', 'A', '*', '~'], [1, 2]⟩ = .refused .short := by decide
example : readEnvelope ⟨[], []⟩ = .refused .notISA := by decide

/-- whole inputs with a complete 106-character ISA, kernel-evaluated through tokeniser, reader and loop: every outcome
    kind of `readAndCheck` / `readEnvelope` is reached -/
def exText : List Char :=
  "ISA*00*          *00*          *ZZ*SENDER         *ZZ*RECEIVER       *200101*1200*U*00401*000000001*0*P*:~IEA*0*000000001~".toList
def exTextNoMap : List Char :=
  "ISA*00*          *00*          *ZZ*SENDER         *ZZ*RECEIVER       *200101*1200*U*00401*000000001*0*P*:~ZZ*1~".toList
def exTextBadIsa : List Char :=
  "ISA*00*          *00*          *ZZ*SENDER         *ZZ*RECEIVER       *200101*1200*U*00401*000000001*0*P*:~ISA*1~".toList
def noMatch : Oracle := { matched := fun _ _ => .unmatched }

example : readAndCheck noMatch ⟨exText, [7, 1, 200]⟩ = .verdict true := by decide +kernel
example : readAndCheck exOracle ⟨exText, []⟩ = .verdict false := by decide +kernel
example : readAndCheck exOracle ⟨exTextNoMap, []⟩ = .mapNotFound := by decide +kernel
example : readAndCheck exOracle ⟨exTextBadIsa, []⟩ = .notX12 := by decide +kernel
example : readEnvelope ⟨exText, []⟩ = .done 2 := by decide +kernel
example : readEnvelope ⟨exTextBadIsa, [3]⟩ = .raised 1 := by decide +kernel

end Pyx12Verif.Pipeline
