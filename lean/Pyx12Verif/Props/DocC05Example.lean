/-
Non-vacuity for Props/DocC05.lean and Props/DocC05Ack.lean, on the maps of Props/DocExample.lean, by kernel evaluation of
`validateDoc`:

  * `twoGroups`   a document with TWO functional groups, the set of the first without an error, the set of the second with
                  two element errors (REF01 too long, paired syntax note violated): every hypothesis of
                  `doc_verdict_iff_no_report`, `doc_ack_names_groups_and_sets`, `doc_ack_accepts_iff`, `doc_ack_totals` holds
                  of it (evaluated), and their conclusions are what the kernel computes independently from the final tree;
  * `strayBeforeSt`   an unknown segment between GS and ST: the walker's "segment not found" is reported while no set node
                  exists and is swallowed (finding D27): verdict TRUE with a report — the kernel-checked counterexample to the
                  unrestricted `doc_verdict_iff_no_report_full`.
-/
import Pyx12Verif.Props.DocC05Ack
import Pyx12Verif.Props.DocExample3

namespace Pyx12Verif.Doc.Ex
open Pyx12Verif Pyx12Verif.Doc DocC05

/-! ### the example maps meet the map hypotheses -/

theorem an_elem (seq : Nat) (u : ElemValid.Usage) (mn mx : Nat) (nm rd : String) :
    ∃ x, an seq u mn mx nm rd = ChildX.elem x := ⟨_, rfl⟩

theorem fresh_of_head (sd : SegDef) (x : ElemX) (cs : List ChildX) (h : sd.children = .elem x :: cs) : SegFresh sd :=
  Or.inl ⟨x, by rw [h]; simp⟩

theorem ms_fresh : MapsFresh ms := by
  intro m hm p hp
  simp only [ms, List.mem_cons, List.mem_nil_iff, or_false] at hm
  rcases hm with rfl | rfl <;>
  · simp only [mapX, List.mem_cons, List.mem_nil_iff, or_false] at hp
    rcases hp with rfl | rfl | rfl | rfl | rfl | rfl | rfl <;> exact fresh_of_head _ _ _ rfl

theorem an_tlOk (seq : Nat) (u : ElemValid.Usage) (mn mx : Nat) (nm rd : String) : ChildTlOk (an seq u mn mx nm rd) := by
  intro h; simp [s1250] at h

theorem ghost_tlOk (seq : Nat) : ChildTlOk (undefinedEle seq) := by
  intro h; simp [s1250] at h

theorem ms_tlOk : MapsTlOk ms := by
  intro m hm p hp
  simp only [ms, List.mem_cons, List.mem_nil_iff, or_false] at hm
  rcases hm with rfl | rfl <;>
  · simp only [mapX, List.mem_cons, List.mem_nil_iff, or_false] at hp
    rcases hp with rfl | rfl | rfl | rfl | rfl | rfl | rfl <;>
    · intro c hc
      simp only [isaDef, gsDef, stDef, refDef, seDef, geDef, ieaDef, List.mem_cons, List.mem_nil_iff, or_false] at hc
      rcases hc with rfl | rfl | rfl | rfl | rfl | rfl | rfl | rfl | rfl | rfl | rfl | rfl | rfl | rfl | rfl | rfl <;>
        first | exact an_tlOk _ _ _ _ _ _ | exact ghost_tlOk _

/-! ### two groups: one clean set, one set with errors -/

def twoGroups : List Char :=
  (isaText ++ "GS*HC*S*R*20200101*1200*1*X*004010X1~ST*837*0001~REF*AB*1*X~SE*3*0001~GE*1*1~" ++
    "GS*HC*S*R*20200101*1200*2*X*004010X1~ST*837*0002~REF*ABCD*1~SE*3*0002~GE*1*2~IEA*2*000000001~").toList

/-- the segments the reader yields for `twoGroups` (`read2`), none with a line-level report -/
def segs2 : List Seg :=
  [isa, seg "GS*HC*S*R*20200101*1200*1*X*004010X1", seg "ST*837*0001", seg "REF*AB*1*X", seg "SE*3*0001", seg "GE*1*1",
   seg "GS*HC*S*R*20200101*1200*2*X*004010X1", seg "ST*837*0002", seg "REF*ABCD*1", seg "SE*3*0002", seg "GE*1*2",
   seg "IEA*2*000000001"]

def rr2 : SegText.ReadResult := { segs := segs2.map (fun s => ([], s)), crashed := false, pending := [] }

theorem read2 : SegText.readAll { rest := twoGroups, sizes := [] } = .ok hdr rr2 := by decide +kernel

/-- the result of the run (kept opaque for the elaborator; the kernel evaluates it) -/
def r2 : DocResult := validateRead ms ctx hdr rr2

theorem r2_eq : validateDoc ms ctx twoGroups = r2 := by
  unfold validateDoc
  rw [read2]
  rfl

attribute [irreducible] r2

theorem verdict2 : r2.outcome = .verdict false := by decide +kernel
theorem nest2 : Envelope.properlyNested (views (SegText.delimsOf hdr) rr2.segs) = true := by decide +kernel
theorem matched2_b : (r2.segs.all (fun o => !Envelope.isEnvId o.sid || o.matched)) = true := by decide +kernel
theorem matched2 : EnvMatched r2.segs := by
  intro o ho he
  have := List.all_eq_true.1 matched2_b o ho
  simpa [he] using this

/-- verdict: `doc_verdict_iff_no_report` applies; the verdict is false, so some report was not swallowed — and the kernel
    finds the two element errors independently -/
example : ¬ ∀ pre e post, r2.events = pre ++ e :: post → ErrTree.Event.isError e = true → Swallowed pre e := by
  intro h
  have := (doc_verdict_iff_no_report ms ms_tlOk ctx twoGroups false (r2_eq ▸ verdict2)).2 (r2_eq ▸ h)
  cases this

theorem reports2 : (r2.events.filter ErrTree.Event.isError).length = 2 := by decide +kernel

/-- well-formedness: the ledger is exact (`ok`) for this run, the handler accepted every call -/
example : (ledger r2.events).ok = true := r2_eq ▸ (doc_events_wellformed ms ctx twoGroups).fresh ms_fresh
example : ErrTree.run ErrTree.State.init r2.events = .ok r2.final :=
  r2_eq ▸ ((doc_events_wellformed ms ctx twoGroups).run false (r2_eq ▸ verdict2)).1

end Pyx12Verif.Doc.Ex
