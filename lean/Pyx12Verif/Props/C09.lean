/-
C09 — the context reader partitions the document without loss, duplication or reordering.

Theorems about `Ctx.ctxRun` (Model/CtxReader.lean: `X12ContextReader.iter_segments` after the fixes C09-D10 /
C09-D11 / C09-gs-loop-level) for ALL answer lists satisfying `Consistent`:
  * `instances`                 the yields are, in order, plain segments outside the requested loop and one tree per
                                maximal instance (the inductive specification `Parts`)
  * `partition`                 concatenating the segments of the yields gives the source segments in source order
  * `tree_is_maximal_instance`  every tree = one instance: from a first segment of the requested loop up to the next
                                segment outside it (or the next instance start)
  * `tree_shape_follows_path`   every tree is rooted at the requested loop and each segment sits under child loops
                                spelling its map path below the root
  * `positions_carried`         every yielded segment carries the reader's seg_count and line
  * `no_crash`                  no exception path of the code is taken
-/
import Pyx12Verif.Proofs.CtxReader

namespace Pyx12Verif.Ctx

/-- root and shape of a yielded tree: a loop node of the requested id whose descendants sit where their map paths say -/
def TreeOk (lid : LoopId) (rootp : LPath) (d : DNode) : Prop :=
  ∃ pos ch, d = .loop rootp pos ch ∧ rootp.getLast? = some lid ∧ shapedL rootp ch

/-- The property as a specification of the yield list, written without reference to the code:
    `Parts lid answers yields` — the answers split, in order, into single segments outside the requested loop
    (yielded plain) and maximal instances `b :: B` of it (each yielded as one tree holding exactly those segments). -/
inductive Parts (lid : Option LoopId) : List Answer → List Yield → Prop
  | nil : Parts lid [] []
  | plain (a : Answer) (r : List Answer) (ys : List Yield) :
      inReq lid a = false → Parts lid r ys → Parts lid (a :: r) (Yield.plain a.seg a.path a.pos :: ys)
  | tree (l : LoopId) (b : Answer) (B r : List Answer) (d : DNode) (ys : List Yield) :
      lid = some l → isStart lid b = true →
      (∀ x ∈ B, inReq lid x = true ∧ isStart lid x = false) →
      (∀ c, r.head? = some c → inReq lid c = false ∨ isStart lid c = true) →
      leaves d = (b :: B).map info → TreeOk l b.path d →
      Parts lid r ys → Parts lid (b :: B ++ r) (Yield.tree d :: ys)

theorem tree_of_cursor {l : LoopId} {rs : List (LoopId × Nat)} {last : Nat} {c : Cursor} {p : LPath}
    (hc : CInv rs last c) (hr : rootPath c.path c.up = p) (hl : p.getLast? = some l) : TreeOk l p c.tree := by
  obtain ⟨m, ch', h1, h2⟩ := plug_shape c.path c.pos c.ch c.up hc.sh hc.up
  rw [hr] at h1 h2
  exact ⟨m, ch', h1, hl, h2⟩

theorem prepend_mk (ys zs : List Yield) (cr : Option Crash) :
    Run.prepend ys { yields := zs, crash := cr } = { yields := ys ++ zs, crash := cr } := rfl

/-- the simulation: outside an instance (1) and inside one (2) -/
theorem run_parts (lid : Option LoopId) : ∀ (as : List Answer),
    (∀ (w : Where) (hp : Bool), consistentFrom lid w as = true → (∀ l, lid = some l → l ∉ pathOf w.open_) →
      ∃ ys, runFrom lid none hp as = { yields := ys, crash := none } ∧ Parts lid as ys) ∧
    (∀ (l : LoopId) (w : Where) (hp : Bool) (c : Cursor) (b : Answer) (B : List Answer),
      lid = some l → consistentFrom lid w as = true → CInv w.open_ w.last c →
      rootPath c.path c.up = b.path → b.path.getLast? = some l → b.path.count l ≤ 1 → isStart lid b = true →
      (∀ x ∈ B, inReq lid x = true ∧ isStart lid x = false) → leaves c.tree = (b :: B).map info →
      ∃ B' r d ys, as = B' ++ r ∧ (∀ x ∈ B', inReq lid x = true ∧ isStart lid x = false) ∧
        (∀ c0, r.head? = some c0 → inReq lid c0 = false ∨ isStart lid c0 = true) ∧
        runFrom lid (some c) hp as = { yields := Yield.tree d :: ys, crash := none } ∧
        leaves d = (b :: B ++ B').map info ∧ TreeOk l b.path d ∧ Parts lid r ys) := by
  intro as
  induction as with
  | nil =>
    refine ⟨?_, ?_⟩
    · intro w hp _ _
      exact ⟨[], by simp [runFrom, emit], Parts.nil⟩
    · intro l w hp c b B _ _ hc hr hl _ _ _ hlv
      exact ⟨[], [], c.tree, [], by simp, by simp, by simp, by simp [runFrom, emit], by simpa using hlv,
        tree_of_cursor hc hr hl, Parts.nil⟩
  | cons a r' ih =>
    obtain ⟨ih1, ih2⟩ := ih
    refine ⟨?_, ?_⟩
    · intro w hp hcons hout
      obtain ⟨w', hs, hcons'⟩ := consistentFrom_cons hcons
      by_cases hin : inReq lid a = true
      · -- a new instance starts
        cases hlid : lid with
        | none => rw [hlid] at hin; simp [inReq] at hin
        | some l =>
          subst hlid
          obtain ⟨ho1, _, _, _⟩ := outside_step hs (hout l rfl)
          have hst := ho1 hin
          obtain ⟨c', ha, hci, hlv, hrt, hcnt⟩ := start_ok hs hst
          obtain ⟨B', r, d, ys, hsplit, hB', hhead, hrun, hld, htok, hparts⟩ :=
            ih2 l w' true c' a [] rfl hcons' hci hrt ((isStart_some.mp hst).1) hcnt hst (by simp) (by simpa using hlv)
          refine ⟨Yield.tree d :: ys, ?_, ?_⟩
          · simp only [runFrom, hin, hst, if_true, ha, hrun, emit, prepend_mk, List.nil_append]
          · rw [hsplit]
            exact Parts.tree l a B' r d ys rfl hst hB' hhead (by simpa using hld) htok hparts
      · -- a segment outside the requested loop
        have hin' : inReq lid a = false := by simpa using hin
        have hassert : pushAssertFails lid hp a = false := by
          cases hlid : lid with
          | none => simp [pushAssertFails]
          | some l =>
            subst hlid
            exact (outside_step hs (hout l rfl)).2.1 hin' hp
        have hout' : ∀ l, lid = some l → l ∉ pathOf w'.open_ := by
          intro l hl
          subst hl
          rw [(outside_step hs (hout l rfl)).2.2.1]
          intro hm; rw [← inReq_some] at hm; rw [hm] at hin'; simp at hin'
        obtain ⟨ys, hrun, hparts⟩ := ih1 w' true hcons' hout'
        refine ⟨Yield.plain a.seg a.path a.pos :: ys, ?_, Parts.plain a r' ys hin' hparts⟩
        simp [runFrom, hin', hassert, hrun, emit, prepend_mk]
    · intro l w hp c b B hlid hcons hc hr hl hcnt hstb hB hlv
      subst hlid
      obtain ⟨w', hs, hcons'⟩ := consistentFrom_cons hcons
      by_cases hin : inReq (some l) a = true
      · by_cases hst : isStart (some l) a = true
        · -- the next instance starts: hand the tree over, begin a new one
          obtain ⟨c', ha, hci, hlv', hrt, hcnt'⟩ := start_ok hs hst
          obtain ⟨B', r, d, ys, hsplit, hB', hhead, hrun, hld, htok, hparts⟩ :=
            ih2 l w' true c' a [] rfl hcons' hci hrt ((isStart_some.mp hst).1) hcnt' hst (by simp) (by simpa using hlv')
          refine ⟨[], a :: r', c.tree, Yield.tree d :: ys, by simp, by simp, ?_, ?_, by simpa using hlv,
            tree_of_cursor hc hr hl, ?_⟩
          · intro c0 h0; simp at h0; subst h0; exact Or.inr hst
          · simp only [runFrom, hin, hst, if_true, ha, hrun, emit, prepend_mk, List.singleton_append]
          · rw [hsplit]
            exact Parts.tree l a B' r d ys rfl hst hB' hhead (by simpa using hld) htok hparts
        · -- one more segment of the current instance
          obtain ⟨c', ha, hci, hlv', hrt⟩ := addSegment_ok hc hs hin hst (by rw [hr]; exact hl) (by rw [hr]; exact hcnt)
          have hst' : isStart (some l) a = false := by simpa using hst
          obtain ⟨B', r, d, ys, hsplit, hB', hhead, hrun, hld, htok, hparts⟩ :=
            ih2 l w' true c' b (B ++ [a]) rfl hcons' hci (by rw [hrt, hr]) hl hcnt hstb
              (by intro x hx; simp at hx; rcases hx with hx | hx; exact hB x hx; subst hx; exact ⟨hin, hst'⟩)
              (by rw [hlv', hlv]; simp)
          refine ⟨a :: B', r, d, ys, by simp [hsplit], ?_, hhead, ?_, by simpa using hld, htok, hparts⟩
          · intro x hx; simp at hx; rcases hx with hx | hx
            · subst hx; exact ⟨hin, hst'⟩
            · exact hB' x hx
          · simp only [runFrom, hin, hst, if_true, ha, hrun]; simp
      · -- the instance is over: hand the tree over, then the plain segment
        have hin' : inReq (some l) a = false := by simpa using hin
        have hnin : l ∉ a.path := by
          intro hm; rw [← inReq_some] at hm; rw [hm] at hin'; simp at hin'
        obtain ⟨rs1, lastC, rs2, hpop, hpush, h3, h4, h5, h6, h7, h8, h9, hw'⟩ := stepOk_spec hs
        have hassert : pushAssertFails (some l) hp a = false := by
          simp only [pushAssertFails, Bool.and_eq_false_iff]
          right
          rw [List.contains_eq_mem]
          simp only [decide_eq_false_iff_not]
          intro hm
          by_cases hi : implicitOpen a = true
          · simp [implicitOpen] at hi; simp [hi.2] at hm
          · have hepu : effPushes a = a.pushes := by simp [effPushes, hi]
            rw [hepu] at hpush
            obtain ⟨top, h1, _, h3'⟩ := pushRun_spec _ _ _ hpush
            apply hnin
            rw [← h3, h1, pathOf_append, List.mem_append]
            right
            rw [mem_pathOf]
            have : some l ∈ top.map (fun x => some x.1) := by rw [h3']; simpa using hm
            simp only [List.mem_map] at this ⊢
            obtain ⟨y, hy, hy'⟩ := this
            exact ⟨y, hy, by simpa using hy'⟩
        have hout' : ∀ l', some l = some l' → l' ∉ pathOf w'.open_ := by
          intro l' hl'
          simp at hl'; subst hl'
          rw [hw']; simp only; rw [h3]; exact hnin
        obtain ⟨ys, hrun, hparts⟩ := ih1 w' true hcons' hout'
        refine ⟨[], a :: r', c.tree, Yield.plain a.seg a.path a.pos :: ys, by simp, by simp, ?_, ?_, by simpa using hlv,
          tree_of_cursor hc hr hl, Parts.plain a r' ys hin' hparts⟩
        · intro c0 h0; simp at h0; subst h0; exact Or.inl hin'
        · simp [runFrom, hin', hassert, hrun, emit, prepend_mk]


/-! ### the property theorems -/

/-- the yields of a consistent run are exactly the plain segments and maximal instances, and nothing raises -/
theorem run_spec {lid : Option LoopId} {answers : List Answer} (h : Consistent lid answers) :
    (ctxRunFull lid answers).crash = none ∧ Parts lid answers (ctxRun lid answers) := by
  obtain ⟨ys, hrun, hparts⟩ := (run_parts lid answers).1 { open_ := [], last := 0 } false h (by intro l _; simp [pathOf])
  constructor
  · simp [ctxRunFull, hrun]
  · simp only [ctxRun, ctxRunFull, hrun]; exact hparts

theorem no_crash {lid : Option LoopId} {answers : List Answer} (h : Consistent lid answers) :
    (ctxRunFull lid answers).crash = none := (run_spec h).1

theorem instances {lid : Option LoopId} {answers : List Answer} (h : Consistent lid answers) :
    Parts lid answers (ctxRun lid answers) := (run_spec h).2

theorem parts_leaves {lid : Option LoopId} {as : List Answer} {ys : List Yield} (h : Parts lid as ys) :
    (ys.map leavesOf).flatten = as.map info := by
  induction h with
  | nil => simp
  | plain a r ys _ _ ih => simp [leavesOf, ih, info]
  | tree l b B r d ys _ _ _ _ hl _ _ ih => simp [leavesOf, ih, hl]

/-- every leaf of every yield, in order = (segment, matched map path, matched position) of the answers, in order -/
theorem partition_leaves {lid : Option LoopId} {answers : List Answer} (h : Consistent lid answers) :
    ((ctxRun lid answers).map leavesOf).flatten = answers.map info := parts_leaves (instances h)

/-- C09, first sentence: no loss, no duplication, no reordering (this needs the final flush, C09-D10) -/
theorem partition {lid : Option LoopId} {answers : List Answer} (h : Consistent lid answers) :
    ((ctxRun lid answers).map segsOf).flatten = answers.map (fun a => a.seg) := by
  have := congrArg (List.map (fun (l : Leaf) => l.1)) (partition_leaves h)
  rw [List.map_flatten, List.map_map, List.map_map] at this
  exact this

/-- C09, last clause: each yielded segment carries the reader's position in the set and source line -/
theorem positions_carried {lid : Option LoopId} {answers : List Answer} (h : Consistent lid answers) :
    (((ctxRun lid answers).map segsOf).flatten.map (fun s => (s.segCount, s.line)))
      = answers.map (fun a => (a.seg.segCount, a.seg.line)) := by
  rw [partition h]; simp

/-- occurrence-wise reading of `Parts`: any tree in the yield list is one maximal instance -/
theorem parts_tree {lid : Option LoopId} {as : List Answer} {ys : List Yield} (h : Parts lid as ys) :
    ∀ pre d post, ys = pre ++ Yield.tree d :: post →
      ∃ l A b B C, lid = some l ∧ as = A ++ (b :: B) ++ C ∧ (pre.map leavesOf).flatten = A.map info ∧
        leaves d = (b :: B).map info ∧ isStart lid b = true ∧
        (∀ x ∈ B, inReq lid x = true ∧ isStart lid x = false) ∧
        (∀ c, C.head? = some c → inReq lid c = false ∨ isStart lid c = true) ∧ TreeOk l b.path d := by
  induction h with
  | nil => intro pre d post h; simp at h
  | plain a r ys hin _ ih =>
    intro pre d post h
    cases pre with
    | nil => simp at h
    | cons y pre' =>
      simp only [List.cons_append, List.cons.injEq] at h
      obtain ⟨l, A, b, B, C, h1, h2, h3, h4⟩ := ih pre' d post h.2
      refine ⟨l, a :: A, b, B, C, h1, by simp [h2], ?_, h4⟩
      rw [← h.1]; simp [leavesOf, h3, info]
  | tree l b B r d0 ys hl hst hB hhead hlv htok hparts ih =>
    intro pre d post h
    cases pre with
    | nil =>
      simp only [List.nil_append, List.cons.injEq, Yield.tree.injEq] at h
      refine ⟨l, [], b, B, r, hl, by simp, by simp, ?_, hst, hB, hhead, ?_⟩
      · rw [← h.1]; exact hlv
      · rw [← h.1]; exact htok
    | cons y pre' =>
      simp only [List.cons_append, List.cons.injEq] at h
      obtain ⟨l', A, b', B', C, h1, h2, h3, h4⟩ := ih pre' d post h.2
      refine ⟨l', (b :: B) ++ A, b', B', C, h1, by simp [h2], ?_, h4⟩
      rw [← h.1]; simp [leavesOf, h3, hlv]

/-- C09, second sentence: every tree is rooted at one instance of the requested loop and contains precisely the
    segments from that instance's first segment `b` up to the next segment outside it (head of `C`: not in the
    loop, or the first segment of the next instance; or the end of the file) -/
theorem tree_is_maximal_instance {lid : Option LoopId} {answers : List Answer} (h : Consistent lid answers) :
    ∀ pre d post, ctxRun lid answers = pre ++ Yield.tree d :: post →
      ∃ l A b B C, lid = some l ∧ answers = A ++ (b :: B) ++ C ∧ (pre.map leavesOf).flatten = A.map info ∧
        leaves d = (b :: B).map info ∧ isStart lid b = true ∧
        (∀ x ∈ B, inReq lid x = true ∧ isStart lid x = false) ∧
        (∀ c, C.head? = some c → inReq lid c = false ∨ isStart lid c = true) ∧ TreeOk l b.path d :=
  parts_tree (instances h)

theorem parts_plain {lid : Option LoopId} {as : List Answer} {ys : List Yield} (h : Parts lid as ys) :
    ∀ pre s p n post, ys = pre ++ Yield.plain s p n :: post →
      ∃ A a C, as = A ++ a :: C ∧ (pre.map leavesOf).flatten = A.map info ∧ (s, p, n) = info a ∧ inReq lid a = false := by
  induction h with
  | nil => intro pre s p n post h; simp at h
  | plain a r ys hin _ ih =>
    intro pre s p n post h
    cases pre with
    | nil =>
      simp only [List.nil_append, List.cons.injEq, Yield.plain.injEq] at h
      exact ⟨[], a, r, by simp, by simp, by simp [info, h.1], hin⟩
    | cons y pre' =>
      simp only [List.cons_append, List.cons.injEq] at h
      obtain ⟨A, a', C, h2, h3, h4⟩ := ih pre' s p n post h.2
      refine ⟨a :: A, a', C, by simp [h2], ?_, h4⟩
      rw [← h.1]; simp [leavesOf, h3, info]
  | tree l b B r d0 ys hl hst hB hhead hlv htok hparts ih =>
    intro pre s p n post h
    cases pre with
    | nil => simp at h
    | cons y pre' =>
      simp only [List.cons_append, List.cons.injEq] at h
      obtain ⟨A, a', C, h2, h3, h4⟩ := ih pre' s p n post h.2
      refine ⟨(b :: B) ++ A, a', C, by simp [h2], ?_, h4⟩
      rw [← h.1]; simp [leavesOf, h3, hlv]

/-- a segment is yielded on its own only when it lies outside every instance of the requested loop -/
theorem plain_is_outside {lid : Option LoopId} {answers : List Answer} (h : Consistent lid answers) :
    ∀ pre s p n post, ctxRun lid answers = pre ++ Yield.plain s p n :: post →
      ∃ A a C, answers = A ++ a :: C ∧ (pre.map leavesOf).flatten = A.map info ∧ (s, p, n) = info a ∧
        inReq lid a = false :=
  parts_plain (instances h)

def Yield.isTree : Yield → Bool
  | .tree _ => true
  | .plain .. => false

theorem isStart_inReq {lid : Option LoopId} {a : Answer} (h : isStart lid a = true) : inReq lid a = true := by
  cases lid with
  | none => simp [isStart] at h
  | some l =>
    rw [isStart_some] at h; rw [inReq_some]
    exact List.mem_of_getLast? h.1

theorem parts_tree_count {lid : Option LoopId} {as : List Answer} {ys : List Yield} (hp : Parts lid as ys) :
    ys.countP Yield.isTree = as.countP (fun a => isStart lid a) := by
  induction hp with
  | nil => simp
  | plain a r ys hin _ ih =>
    have : isStart lid a = false := by
      cases hs : isStart lid a with
      | false => rfl
      | true => rw [isStart_inReq hs] at hin; simp at hin
    simp [Yield.isTree, this, ih]
  | tree l b B r d ys hl hst hB _ _ _ _ ih =>
    have hB0 : B.countP (fun a => isStart lid a) = 0 := by
      rw [List.countP_eq_zero]; intro x hx; simp [(hB x hx).2]
    simp [Yield.isTree, List.countP_cons, List.countP_append, hst, hB0, ih]

/-- as many trees as instance starts in the source -/
theorem tree_count {lid : Option LoopId} {answers : List Answer} (h : Consistent lid answers) :
    (ctxRun lid answers).countP Yield.isTree = answers.countP (fun a => isStart lid a) :=
  parts_tree_count (instances h)


/-! ### shape, spelled out: the loop ids above a segment inside a tree are the tail of its map path -/

mutual
/-- every leaf with the ids of the loop nodes above it (root first); `acc` = ids collected so far -/
def leavesUnder (acc : List LoopId) : DNode → List (Leaf × List LoopId)
  | .seg s p n => [((s, p, n), acc)]
  | .loop q _ ch => leavesUnderL (acc ++ [(idOf q).getD 0]) ch
def leavesUnderL (acc : List LoopId) : List DNode → List (Leaf × List LoopId)
  | [] => []
  | d :: r => leavesUnder acc d ++ leavesUnderL acc r
end

mutual
theorem shaped_under : ∀ (d : DNode) (q pre acc : LPath), q = pre ++ acc → shaped q d →
    ∀ x ∈ leavesUnder acc d, x.1.2.1 = pre ++ x.2 ∧ acc <+: x.2
  | .seg s p n, q, pre, acc, hq, hs => by
    intro x hx
    simp only [leavesUnder, List.mem_singleton] at hx
    subst hx
    simp only [shaped] at hs
    exact ⟨by rw [hs, hq], List.prefix_refl _⟩
  | .loop q' m ch, q, pre, acc, hq, hs => by
    intro x hx
    simp only [shaped] at hs
    obtain ⟨⟨y, hy⟩, hch⟩ := hs
    simp only [leavesUnder] at hx
    have hid : (idOf q').getD 0 = y := by simp [idOf, hy]
    rw [hid] at hx
    obtain ⟨h1, h2⟩ := shapedL_under ch q' pre (acc ++ [y]) (by rw [hy, hq, List.append_assoc]) hch x hx
    exact ⟨h1, List.IsPrefix.trans (List.prefix_append acc [y]) h2⟩
theorem shapedL_under : ∀ (ch : List DNode) (q pre acc : LPath), q = pre ++ acc → shapedL q ch →
    ∀ x ∈ leavesUnderL acc ch, x.1.2.1 = pre ++ x.2 ∧ acc <+: x.2
  | [], _, _, _, _, _ => by intro x hx; simp [leavesUnderL] at hx
  | d :: r, q, pre, acc, hq, hs => by
    intro x hx
    simp only [shapedL] at hs
    simp only [leavesUnderL, List.mem_append] at hx
    rcases hx with hx | hx
    · exact shaped_under d q pre acc hq hs.1 x hx
    · exact shapedL_under r q pre acc hq hs.2 x hx
end

theorem treeOk_under {l : LoopId} {p : LPath} {d : DNode} (h : TreeOk l p d) :
    ∀ x ∈ leavesUnder [] d, x.1.2.1 = p.dropLast ++ x.2 ∧ x.2.head? = some l := by
  obtain ⟨pos, ch, hd, hl, hs⟩ := h
  subst hd
  intro x hx
  simp only [leavesUnder, List.nil_append] at hx
  have hp : p = p.dropLast ++ [l] := by
    rcases List.eq_nil_or_concat p with h0 | ⟨i, y, h0⟩
    · subst h0; simp at hl
    · subst h0; simp at hl; simp [hl]
  have hid : (idOf p).getD 0 = l := by simp [idOf, hl]
  rw [hid] at hx
  obtain ⟨h1, h2⟩ := shapedL_under ch p p.dropLast [l] hp hs x hx
  refine ⟨h1, ?_⟩
  obtain ⟨t, ht⟩ := h2
  rw [← ht]; simp

/-- C09, "arranged under child loops according to the map path each segment matched": every yielded tree is a loop
    node of the requested id; every loop node below it is a child loop (by map path) of the node it sits in, every
    segment sits in the loop its matched node belongs to (`TreeOk`); hence the ids of the loop nodes above a segment,
    from the tree root down, are exactly the tail of the segment's map path that begins at the requested loop. -/
theorem tree_shape_follows_path {lid : Option LoopId} {answers : List Answer} (h : Consistent lid answers) :
    ∀ d, Yield.tree d ∈ ctxRun lid answers →
      ∃ l p, lid = some l ∧ TreeOk l p d ∧
        ∀ x ∈ leavesUnder [] d, x.1.2.1 = p.dropLast ++ x.2 ∧ x.2.head? = some l := by
  intro d hd
  obtain ⟨pre, post, hsplit⟩ := List.append_of_mem hd
  obtain ⟨l, A, b, B, C, hl, _, _, _, _, _, _, htok⟩ := tree_is_maximal_instance h pre d post hsplit
  exact ⟨l, b.path, hl, htok, treeOk_under htok⟩

/-! ### non-vacuity: a realistic answer list (837 4010 X098: header, two back-to-back 2000A instances each with a
    2010AA and a 2000B holding 2010BA / 2010BB, trailers), taken from the real walker by the harness -/

-- ISA GS ST BHT REF NM1 PER NM1 HL NM1 N3 N4 HL SBR NM1 NM1 HL NM1 N3 N4 HL SBR NM1 NM1 SE GE IEA
-- ids: ISA_LOOP=1, GS_LOOP=2, ST_LOOP=3, HEADER=4, 1000A=5, 1000B=6, DETAIL=7, 2000A=8, 2010AA=9, 2000B=10, 2010BA=11, 2010BB=12
def sample : List Answer := [
  { seg := ⟨0, 0, 1⟩, path := [1], first := true, pos := 10, ppos := 1, pops := [], pushes := [] },
  { seg := ⟨1, 0, 2⟩, path := [1, 2], first := true, pos := 10, ppos := 20, pops := [], pushes := [([1, 2], 20)] },
  { seg := ⟨2, 1, 3⟩, path := [1, 2, 3], first := true, pos := 5, ppos := 20, pops := [], pushes := [([1, 2, 3], 20)] },
  { seg := ⟨3, 2, 4⟩, path := [1, 2, 3, 4], first := true, pos := 10, ppos := 10, pops := [], pushes := [([1, 2, 3, 4], 10)] },
  { seg := ⟨4, 3, 5⟩, path := [1, 2, 3, 4], first := false, pos := 15, ppos := 10, pops := [], pushes := [] },
  { seg := ⟨5, 4, 6⟩, path := [1, 2, 3, 4, 5], first := true, pos := 20, ppos := 20, pops := [], pushes := [([1, 2, 3, 4, 5], 20)] },
  { seg := ⟨6, 5, 7⟩, path := [1, 2, 3, 4, 5], first := false, pos := 45, ppos := 20, pops := [], pushes := [] },
  { seg := ⟨7, 6, 8⟩, path := [1, 2, 3, 4, 6], first := true, pos := 20, ppos := 20, pops := [[1, 2, 3, 4, 5]], pushes := [([1, 2, 3, 4, 6], 20)] },
  { seg := ⟨8, 7, 9⟩, path := [1, 2, 3, 7, 8], first := true, pos := 1, ppos := 1, pops := [[1, 2, 3, 4, 6], [1, 2, 3, 4]], pushes := [([1, 2, 3, 7], 20), ([1, 2, 3, 7, 8], 1)] },
  { seg := ⟨9, 8, 10⟩, path := [1, 2, 3, 7, 8, 9], first := true, pos := 15, ppos := 15, pops := [], pushes := [([1, 2, 3, 7, 8, 9], 15)] },
  { seg := ⟨10, 9, 11⟩, path := [1, 2, 3, 7, 8, 9], first := false, pos := 25, ppos := 15, pops := [], pushes := [] },
  { seg := ⟨11, 10, 12⟩, path := [1, 2, 3, 7, 8, 9], first := false, pos := 30, ppos := 15, pops := [], pushes := [] },
  { seg := ⟨12, 11, 13⟩, path := [1, 2, 3, 7, 8, 10], first := true, pos := 1, ppos := 20, pops := [[1, 2, 3, 7, 8, 9]], pushes := [([1, 2, 3, 7, 8, 10], 20)] },
  { seg := ⟨13, 12, 14⟩, path := [1, 2, 3, 7, 8, 10], first := false, pos := 5, ppos := 20, pops := [], pushes := [] },
  { seg := ⟨14, 13, 15⟩, path := [1, 2, 3, 7, 8, 10, 11], first := true, pos := 15, ppos := 15, pops := [], pushes := [([1, 2, 3, 7, 8, 10, 11], 15)] },
  { seg := ⟨15, 14, 16⟩, path := [1, 2, 3, 7, 8, 10, 12], first := true, pos := 15, ppos := 15, pops := [[1, 2, 3, 7, 8, 10, 11]], pushes := [([1, 2, 3, 7, 8, 10, 12], 15)] },
  { seg := ⟨16, 15, 17⟩, path := [1, 2, 3, 7, 8], first := true, pos := 1, ppos := 1, pops := [[1, 2, 3, 7, 8, 10, 12], [1, 2, 3, 7, 8, 10], [1, 2, 3, 7, 8]], pushes := [([1, 2, 3, 7, 8], 1)] },
  { seg := ⟨17, 16, 18⟩, path := [1, 2, 3, 7, 8, 9], first := true, pos := 15, ppos := 15, pops := [], pushes := [([1, 2, 3, 7, 8, 9], 15)] },
  { seg := ⟨18, 17, 19⟩, path := [1, 2, 3, 7, 8, 9], first := false, pos := 25, ppos := 15, pops := [], pushes := [] },
  { seg := ⟨19, 18, 20⟩, path := [1, 2, 3, 7, 8, 9], first := false, pos := 30, ppos := 15, pops := [], pushes := [] },
  { seg := ⟨20, 19, 21⟩, path := [1, 2, 3, 7, 8, 10], first := true, pos := 1, ppos := 20, pops := [[1, 2, 3, 7, 8, 9]], pushes := [([1, 2, 3, 7, 8, 10], 20)] },
  { seg := ⟨21, 20, 22⟩, path := [1, 2, 3, 7, 8, 10], first := false, pos := 5, ppos := 20, pops := [], pushes := [] },
  { seg := ⟨22, 21, 23⟩, path := [1, 2, 3, 7, 8, 10, 11], first := true, pos := 15, ppos := 15, pops := [], pushes := [([1, 2, 3, 7, 8, 10, 11], 15)] },
  { seg := ⟨23, 22, 24⟩, path := [1, 2, 3, 7, 8, 10, 12], first := true, pos := 15, ppos := 15, pops := [[1, 2, 3, 7, 8, 10, 11]], pushes := [([1, 2, 3, 7, 8, 10, 12], 15)] },
  { seg := ⟨24, 22, 25⟩, path := [1, 2, 3], first := false, pos := 555, ppos := 20, pops := [[1, 2, 3, 7, 8, 10, 12], [1, 2, 3, 7, 8, 10], [1, 2, 3, 7, 8], [1, 2, 3, 7]], pushes := [] },
  { seg := ⟨25, 22, 26⟩, path := [1, 2], first := false, pos := 30, ppos := 20, pops := [[1, 2, 3]], pushes := [] },
  { seg := ⟨26, 22, 27⟩, path := [1], first := false, pos := 30, ppos := 1, pops := [[1, 2]], pushes := [] }]

example : Consistent none sample := by decide +kernel
example : Consistent (some 8) sample := by decide +kernel      -- 2000A: two instances back to back
example : Consistent (some 10) sample := by decide +kernel     -- 2000B: nested in a repeating parent, last in its parent
example : Consistent (some 1) sample := by decide +kernel      -- ISA_LOOP: the tree that ends the file
example : (ctxRun (some 8) sample).map (fun y => (Yield.isTree y, (leavesOf y).length)) =
    [(false, 1), (false, 1), (false, 1), (false, 1), (false, 1), (false, 1), (false, 1), (false, 1),
     (true, 8), (true, 8), (false, 1), (false, 1), (false, 1)] := by decide +kernel
example : (ctxRun (some 1) sample).map (fun y => (Yield.isTree y, (leavesOf y).length)) = [(true, 27)] := by decide +kernel
/-- the hypothesis is not vacuous the other way either: dropping a pop makes the list inconsistent -/
example : ¬ Consistent (some 8) (sample.take 24 ++ sample.drop 25) := by decide +kernel

end Pyx12Verif.Ctx
