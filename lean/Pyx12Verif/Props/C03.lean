/-
C03 — every single injected fault is rejected and localised: the element-level and syntax-note part.

Every fault kind of the catalogue that is decided inside one segment is a statement about the models
of `element_if.is_valid` (Model/ElemValid.lean, C15) and `is_syntax_valid` + its routing
(Model/Syntax.lean, C14):

* detection  `fault_k_detected`  — the fault, described on the *spec* side (the X12 value languages of
  C13, effective length, declared code list, presence of positions), forces the standard code `k`
  into the list of codes the model reports, for every definition and every value;
* isolation  `fault_k_isolated`  — when the value is otherwise admissible the reported codes are
  exactly `{k}`; in general (`fault_isolated`) they are exactly the implied set `Spec d ctx v`.

The walker part is at the end of this file: unknown segment and the local steps for max_use, repeat, mandatory
segment (lemmas in Proofs/C03Walker.lean), then the three run-level statements for ONE structural fault in an
otherwise conformant document — `max_use_exceeded_reported`, `loop_repeat_reported`, `mandatory_missing_reported`
(lemmas in Proofs/C03Run*.lean) — with the witnesses for the corners in which they are false.
-/
import Pyx12Verif.Props.C15
import Pyx12Verif.Props.C14
import Pyx12Verif.Proofs.C03Walker
import Pyx12Verif.Props.C02
import Pyx12Verif.Proofs.C03RunHRun
import Pyx12Verif.Proofs.C03RunFacts

namespace Pyx12Verif.C03
open Pyx12Verif.ElemValid Pyx12Verif.Validation

/-! ### the clauses of "the value meets the definition", one by one -/

/-- not too short -/
def LenLo (d : ElemDef) (v : List Char) : Prop := ∃ n, LenOf d.dataType v n ∧ d.minLen ≤ n
/-- not too long -/
def LenHi (d : ElemDef) (v : List Char) : Prop := ∃ n, LenOf d.dataType v n ∧ n ≤ d.maxLen
def NoBlanks (d : ElemDef) (v : List Char) : Prop := ¬ (TextType d.dataType ∧ NeedlessBlanks d.minLen v)
def CodesOk (d : ElemDef) (ctx : Ctx) (v : List Char) : Prop := DeclaresCodes d → InCodes d ctx v
def LangOk (d : ElemDef) (ctx : Ctx) (v : List Char) : Prop :=
  InLang d.dataType (pickCharset ctx.extended ctx.v5010) v
def TlOk (d : ElemDef) (ctx : Ctx) (v : List Char) : Prop :=
  d.typeList ≠ [] → InSomeLang d.typeList ctx.extended v
def ReOk (d : ElemDef) (ctx : Ctx) : Prop := d.hasRegex = true → ctx.regexFound = true

/-- the faults of the catalogue, spec side -/
def TooLong (d : ElemDef) (v : List Char) : Prop := ∃ n, LenOf d.dataType v n ∧ d.maxLen < n
def TooShort (d : ElemDef) (v : List Char) : Prop := ∃ n, LenOf d.dataType v n ∧ n < d.minLen
def OutsideCodes (d : ElemDef) (ctx : Ctx) (v : List Char) : Prop := DeclaresCodes d ∧ ¬ InCodes d ctx v

theorem lenOf_unique (ty v : List Char) (n m : Nat) (h1 : LenOf ty v n) (h2 : LenOf ty v m) : n = m := by
  rw [effLen_spec] at h1 h2; rw [h1, h2]

theorem not_tooShort_of_lenLo (d : ElemDef) (v : List Char) (h : LenLo d v) : ¬ TooShort d v := by
  rintro ⟨n, hn, hlt⟩
  obtain ⟨m, hm, hle⟩ := h
  have := lenOf_unique _ _ _ _ hn hm
  omega

theorem not_tooLong_of_lenHi (d : ElemDef) (v : List Char) (h : LenHi d v) : ¬ TooLong d v := by
  rintro ⟨n, hn, hlt⟩
  obtain ⟨m, hm, hle⟩ := h
  have := lenOf_unique _ _ _ _ hn hm
  omega

/-- the codes reported for a present value of a usable element -/
theorem codes_present (d : ElemDef) (ctx : Ctx) (v : List Char) (hv : v ≠ []) (hu : d.usage ≠ .N) (c : Code) :
    c ∈ (elemValid d ctx (some v)).2 ↔ ValueSpec d ctx v c := by
  rw [elemErrors_spec_opt]
  simp [toInput, Spec, hv, hu]

/-! ### detection: the fault forces its standard code (all definitions, all values) -/

/-- element too long ⇒ 5 -/
theorem fault_too_long_detected (d : ElemDef) (ctx : Ctx) (v : List Char) (hv : v ≠ []) (hu : d.usage ≠ .N)
    (h : TooLong d v) : 5 ∈ (elemValid d ctx (some v)).2 :=
  (codes_present d ctx v hv hu 5).2 (Or.inr (Or.inl ⟨rfl, h⟩))

/-- the same with the length the code computes: `len(v)` without `-` and `.` for numbers -/
theorem fault_too_long_detected_effLen (d : ElemDef) (ctx : Ctx) (v : List Char) (hv : v ≠ []) (hu : d.usage ≠ .N)
    (h : effLen d.dataType v > d.maxLen) : 5 ∈ (elemValid d ctx (some v)).2 :=
  fault_too_long_detected d ctx v hv hu ⟨_, (effLen_spec _ _ _).2 rfl, h⟩

/-- element too short ⇒ 4 -/
theorem fault_too_short_detected (d : ElemDef) (ctx : Ctx) (v : List Char) (hv : v ≠ []) (hu : d.usage ≠ .N)
    (h : TooShort d v) : 4 ∈ (elemValid d ctx (some v)).2 :=
  (codes_present d ctx v hv hu 4).2 (Or.inl ⟨rfl, h⟩)

/-- value outside the declared code list (inline list and external set) ⇒ 7 -/
theorem fault_not_in_codes_detected (d : ElemDef) (ctx : Ctx) (v : List Char) (hv : v ≠ []) (hu : d.usage ≠ .N)
    (hc : ¬ HasControl v) (h : OutsideCodes d ctx v) : 7 ∈ (elemValid d ctx (some v)).2 :=
  (codes_present d ctx v hv hu 7).2 (Or.inr (Or.inr (Or.inr ⟨hc, Or.inr (Or.inl ⟨rfl, h.1, h.2⟩)⟩)))

/-- wrong character class (value not in the language of a type that is neither a date nor a time) ⇒ 6;
    a control character gives 6 as well, so no side condition on the characters is needed -/
theorem fault_wrong_class_detected (d : ElemDef) (ctx : Ctx) (v : List Char) (hv : v ≠ []) (hu : d.usage ≠ .N)
    (hty : ¬ DateType d.dataType ∧ d.dataType ≠ tyTM) (h : ¬ LangOk d ctx v) :
    6 ∈ (elemValid d ctx (some v)).2 := by
  rw [codes_present d ctx v hv hu]
  by_cases hc : HasControl v
  · exact Or.inr (Or.inr (Or.inl ⟨hc, rfl⟩))
  · exact Or.inr (Or.inr (Or.inr ⟨hc, Or.inr (Or.inr (Or.inl ⟨h, Or.inr (Or.inr ⟨rfl, hty.1, hty.2⟩)⟩))⟩))

/-- impossible date in an element of a date type ⇒ 8 -/
theorem fault_bad_date_detected (d : ElemDef) (ctx : Ctx) (v : List Char) (hv : v ≠ []) (hu : d.usage ≠ .N)
    (hc : ¬ HasControl v) (hty : DateType d.dataType) (h : ¬ LangOk d ctx v) :
    8 ∈ (elemValid d ctx (some v)).2 :=
  (codes_present d ctx v hv hu 8).2
    (Or.inr (Or.inr (Or.inr ⟨hc, Or.inr (Or.inr (Or.inl ⟨h, Or.inl ⟨rfl, hty⟩⟩))⟩)))

/-- impossible date where the format is selected by a qualifier (DTP02 / data element 1250) ⇒ 8 -/
theorem fault_bad_date_by_qualifier_detected (d : ElemDef) (ctx : Ctx) (v : List Char) (hv : v ≠ [])
    (hu : d.usage ≠ .N) (hc : ¬ HasControl v) (hne : d.typeList ≠ []) (hTM : tyTM ∉ d.typeList)
    (hdate : ∃ t ∈ d.typeList, DateType t) (h : ¬ InSomeLang d.typeList ctx.extended v) :
    8 ∈ (elemValid d ctx (some v)).2 :=
  (codes_present d ctx v hv hu 8).2
    (Or.inr (Or.inr (Or.inr ⟨hc, Or.inr (Or.inr (Or.inr (Or.inl ⟨hne, h, Or.inr ⟨rfl, hTM, hdate⟩⟩)))⟩)))

/-- impossible time ⇒ 9 -/
theorem fault_bad_time_detected (d : ElemDef) (ctx : Ctx) (v : List Char) (hv : v ≠ []) (hu : d.usage ≠ .N)
    (hc : ¬ HasControl v) (hty : d.dataType = tyTM) (h : ¬ LangOk d ctx v) :
    9 ∈ (elemValid d ctx (some v)).2 :=
  (codes_present d ctx v hv hu 9).2
    (Or.inr (Or.inr (Or.inr ⟨hc, Or.inr (Or.inr (Or.inl ⟨h, Or.inr (Or.inl ⟨rfl, hty⟩)⟩))⟩)))

/-- impossible time where the format is selected by a qualifier ⇒ 9 -/
theorem fault_bad_time_by_qualifier_detected (d : ElemDef) (ctx : Ctx) (v : List Char) (hv : v ≠ [])
    (hu : d.usage ≠ .N) (hc : ¬ HasControl v) (hTM : tyTM ∈ d.typeList)
    (h : ¬ InSomeLang d.typeList ctx.extended v) : 9 ∈ (elemValid d ctx (some v)).2 :=
  (codes_present d ctx v hv hu 9).2
    (Or.inr (Or.inr (Or.inr ⟨hc, Or.inr (Or.inr (Or.inr (Or.inl
      ⟨List.ne_nil_of_mem hTM, h, Or.inl ⟨rfl, hTM⟩⟩)))⟩)))

/-- required element absent or empty ⇒ 1 (except the first sub-element of an optional composite, for which the
    element spec implies nothing) -/
theorem fault_missing_required_detected (d : ElemDef) (ctx : Ctx) (v : Option (List Char))
    (hv : v = none ∨ v = some []) (hu : d.usage = .R) (hf : ¬ FirstOfOptionalComposite d) :
    1 ∈ (elemValid d ctx v).2 := by
  rw [elemErrors_spec_opt]
  rcases hv with rfl | rfl <;> simp [toInput, Spec, EmptySpec, hu, hf]

/-- a value in a not-used element ⇒ 10, and nothing else whatever the value is -/
theorem fault_not_used_detected (d : ElemDef) (ctx : Ctx) (v : List Char) (hv : v ≠ []) (hu : d.usage = .N) :
    (elemValid d ctx (some v)) = (false, [10]) := by
  have : v.isEmpty = false := by simpa using hv
  simp [elemValid, toInput, elemValidIn, this, hu]

/-- in every case above the element is rejected: a reported code makes the result `False` -/
theorem fault_rejected (d : ElemDef) (ctx : Ctx) (v : Option (List Char)) (c : Code)
    (h : c ∈ (elemValid d ctx v).2) : (elemValid d ctx v).1 = false :=
  error_imp_false d ctx (toInput v) (by intro e; rw [elemValid, e] at h; exact absurd h (by simp))

/-! ### "impossible" dates and times are outside the C13 languages -/

theorem month_out_of_range_not_date8 (s : List Char) (h : 12 < num ((s.drop 4).take 2)) : ¬ IsDate8 s := by
  rintro ⟨_, _, _, _, hm, _⟩; omega

theorem day_out_of_range_not_date8 (s : List Char)
    (h : daysIn (num (s.take 4)) (num ((s.drop 4).take 2)) < num ((s.drop 6).take 2)) : ¬ IsDate8 s := by
  rintro ⟨_, _, _, _, _, _, hd⟩; omega

theorem month_out_of_range_not_date6 (s : List Char) (h : 12 < num ((s.drop 2).take 2)) : ¬ IsDate6 s := by
  rintro ⟨_, _, _, _, hm, _⟩; omega

theorem hour_out_of_range_not_time (s : List Char) (h : 23 < num (s.take 2)) : ¬ IsTime s := by
  rintro ⟨_, _, hh, _⟩; omega

theorem minute_out_of_range_not_time (s : List Char) (h : 59 < num ((s.drop 2).take 2)) : ¬ IsTime s := by
  rintro ⟨_, _, _, hm, _⟩; omega

theorem not_langOk_D8 (d : ElemDef) (ctx : Ctx) (v : List Char) (hty : d.dataType = tyD8) (h : ¬ IsDate8 v) :
    ¬ LangOk d ctx v := by
  unfold LangOk InLang
  rw [hty]
  simp [tyD8, tyR, tyID, tyAN, tyRD8, tyDT, tyD6, tyTM, h]

theorem not_langOk_TM (d : ElemDef) (ctx : Ctx) (v : List Char) (hty : d.dataType = tyTM) (h : ¬ IsTime v) :
    ¬ LangOk d ctx v := by
  unfold LangOk InLang
  rw [hty]
  simp [tyD8, tyR, tyID, tyAN, tyRD8, tyDT, tyD6, tyTM, h]

/-- a D8 element whose month field exceeds 12 draws code 8 -/
theorem fault_month13_detected (d : ElemDef) (ctx : Ctx) (v : List Char) (hv : v ≠ []) (hu : d.usage ≠ .N)
    (hc : ¬ HasControl v) (hty : d.dataType = tyD8) (h : 12 < num ((v.drop 4).take 2)) :
    8 ∈ (elemValid d ctx (some v)).2 :=
  fault_bad_date_detected d ctx v hv hu hc (by rw [hty]; exact Or.inr (Or.inr (Or.inl rfl)))
    (not_langOk_D8 d ctx v hty (month_out_of_range_not_date8 v h))

/-- a TM element whose hour field exceeds 23 draws code 9 -/
theorem fault_hour24_detected (d : ElemDef) (ctx : Ctx) (v : List Char) (hv : v ≠ []) (hu : d.usage ≠ .N)
    (hc : ¬ HasControl v) (hty : d.dataType = tyTM) (h : 23 < num (v.take 2)) :
    9 ∈ (elemValid d ctx (some v)).2 :=
  fault_bad_time_detected d ctx v hv hu hc hty (not_langOk_TM d ctx v hty (hour_out_of_range_not_time v h))

/-! ### isolation: nothing but the implied codes is reported -/

/-- general form: whatever was injected, the reported codes are exactly the set the definition implies for the
    faulty value (`Spec`, C15) — no code beyond the implied set, none of it missing -/
theorem fault_isolated (d : ElemDef) (ctx : Ctx) (v : Option (List Char)) (c : Code) :
    c ∈ (elemValid d ctx v).2 ↔ Spec d ctx (toInput v) c :=
  elemErrors_spec_opt d ctx v c

/-- the other clauses of admissibility, as one hypothesis bundle -/
structure Otherwise (d : ElemDef) (ctx : Ctx) (v : List Char) : Prop where
  noControl : ¬ HasControl v
  noBlanks : NoBlanks d v
  re : ReOk d ctx

theorem valueSpec_clauses (d : ElemDef) (ctx : Ctx) (v : List Char) (o : Otherwise d ctx v) (c : Code) :
    ValueSpec d ctx v c ↔
      (c = 4 ∧ TooShort d v) ∨ (c = 5 ∧ TooLong d v) ∨ (c = 7 ∧ OutsideCodes d ctx v) ∨
      (¬ LangOk d ctx v ∧ WrongTypeCode d.dataType c) ∨
      (d.typeList ≠ [] ∧ ¬ InSomeLang d.typeList ctx.extended v ∧
        ((c = 9 ∧ tyTM ∈ d.typeList) ∨ (c = 8 ∧ tyTM ∉ d.typeList ∧ ∃ t ∈ d.typeList, DateType t))) := by
  obtain ⟨hc, hb, hr⟩ := o
  have hr' : ¬ (d.hasRegex = true ∧ ctx.regexFound = false) := by
    rintro ⟨a, b⟩; have := hr a; simp_all
  unfold ValueSpec TooShort TooLong OutsideCodes LangOk
  unfold NoBlanks at hb
  constructor
  · rintro (h | h | ⟨h, _⟩ | ⟨_, h | h | h | h | h⟩)
    · exact Or.inl h
    · exact Or.inr (Or.inl h)
    · exact absurd h hc
    · exact absurd h.2 hb
    · exact Or.inr (Or.inr (Or.inl h))
    · exact Or.inr (Or.inr (Or.inr (Or.inl h)))
    · exact Or.inr (Or.inr (Or.inr (Or.inr h)))
    · exact absurd h.2 hr'
  · rintro (h | h | h | h | h)
    · exact Or.inl h
    · exact Or.inr (Or.inl h)
    · exact Or.inr (Or.inr (Or.inr ⟨hc, Or.inr (Or.inl h)⟩))
    · exact Or.inr (Or.inr (Or.inr ⟨hc, Or.inr (Or.inr (Or.inl h))⟩))
    · exact Or.inr (Or.inr (Or.inr ⟨hc, Or.inr (Or.inr (Or.inr (Or.inl h)))⟩))

/-- only too long ⇒ exactly {5} -/
theorem fault_too_long_isolated (d : ElemDef) (ctx : Ctx) (v : List Char) (hv : v ≠ []) (hu : d.usage ≠ .N)
    (o : Otherwise d ctx v) (h : TooLong d v) (h1 : LenLo d v) (h2 : CodesOk d ctx v) (h3 : LangOk d ctx v)
    (h4 : TlOk d ctx v) (c : Code) : c ∈ (elemValid d ctx (some v)).2 ↔ c = 5 := by
  rw [codes_present d ctx v hv hu, valueSpec_clauses d ctx v o]
  have n1 := not_tooShort_of_lenLo d v h1
  have n2 : ¬ OutsideCodes d ctx v := fun x => x.2 (h2 x.1)
  have n4 : ¬ (d.typeList ≠ [] ∧ ¬ InSomeLang d.typeList ctx.extended v) := fun x => x.2 (h4 x.1)
  constructor
  · rintro (x | x | x | x | ⟨a, b, _⟩)
    · exact absurd x.2 n1
    · exact x.1
    · exact absurd x.2 n2
    · exact absurd h3 x.1
    · exact absurd ⟨a, b⟩ n4
  · rintro rfl; exact Or.inr (Or.inl ⟨rfl, h⟩)

/-- only too short ⇒ exactly {4} -/
theorem fault_too_short_isolated (d : ElemDef) (ctx : Ctx) (v : List Char) (hv : v ≠ []) (hu : d.usage ≠ .N)
    (o : Otherwise d ctx v) (h : TooShort d v) (h1 : LenHi d v) (h2 : CodesOk d ctx v) (h3 : LangOk d ctx v)
    (h4 : TlOk d ctx v) (c : Code) : c ∈ (elemValid d ctx (some v)).2 ↔ c = 4 := by
  rw [codes_present d ctx v hv hu, valueSpec_clauses d ctx v o]
  have n1 := not_tooLong_of_lenHi d v h1
  have n2 : ¬ OutsideCodes d ctx v := fun x => x.2 (h2 x.1)
  have n4 : ¬ (d.typeList ≠ [] ∧ ¬ InSomeLang d.typeList ctx.extended v) := fun x => x.2 (h4 x.1)
  constructor
  · rintro (x | x | x | x | ⟨a, b, _⟩)
    · exact x.1
    · exact absurd x.2 n1
    · exact absurd x.2 n2
    · exact absurd h3 x.1
    · exact absurd ⟨a, b⟩ n4
  · rintro rfl; exact Or.inl ⟨rfl, h⟩

/-- only outside the code list ⇒ exactly {7} -/
theorem fault_not_in_codes_isolated (d : ElemDef) (ctx : Ctx) (v : List Char) (hv : v ≠ []) (hu : d.usage ≠ .N)
    (o : Otherwise d ctx v) (h : OutsideCodes d ctx v) (h0 : LenLo d v) (h1 : LenHi d v) (h3 : LangOk d ctx v)
    (h4 : TlOk d ctx v) (c : Code) : c ∈ (elemValid d ctx (some v)).2 ↔ c = 7 := by
  rw [codes_present d ctx v hv hu, valueSpec_clauses d ctx v o]
  have n0 := not_tooShort_of_lenLo d v h0
  have n1 := not_tooLong_of_lenHi d v h1
  have n4 : ¬ (d.typeList ≠ [] ∧ ¬ InSomeLang d.typeList ctx.extended v) := fun x => x.2 (h4 x.1)
  constructor
  · rintro (x | x | x | x | ⟨a, b, _⟩)
    · exact absurd x.2 n0
    · exact absurd x.2 n1
    · exact x.1
    · exact absurd h3 x.1
    · exact absurd ⟨a, b⟩ n4
  · rintro rfl; exact Or.inr (Or.inr (Or.inl ⟨rfl, h⟩))

/-- only outside the language of the declared type ⇒ exactly the type's code: 8 for a date type, 9 for TM,
    6 otherwise (wrong character class) -/
theorem fault_wrong_type_isolated (d : ElemDef) (ctx : Ctx) (v : List Char) (hv : v ≠ []) (hu : d.usage ≠ .N)
    (o : Otherwise d ctx v) (h : ¬ LangOk d ctx v) (h0 : LenLo d v) (h1 : LenHi d v) (h2 : CodesOk d ctx v)
    (h4 : TlOk d ctx v) (c : Code) : c ∈ (elemValid d ctx (some v)).2 ↔ WrongTypeCode d.dataType c := by
  rw [codes_present d ctx v hv hu, valueSpec_clauses d ctx v o]
  have n0 := not_tooShort_of_lenLo d v h0
  have n1 := not_tooLong_of_lenHi d v h1
  have n2 : ¬ OutsideCodes d ctx v := fun x => x.2 (h2 x.1)
  have n4 : ¬ (d.typeList ≠ [] ∧ ¬ InSomeLang d.typeList ctx.extended v) := fun x => x.2 (h4 x.1)
  constructor
  · rintro (x | x | x | x | ⟨a, b, _⟩)
    · exact absurd x.2 n0
    · exact absurd x.2 n1
    · exact absurd x.2 n2
    · exact x.2
    · exact absurd ⟨a, b⟩ n4
  · intro x; exact Or.inr (Or.inr (Or.inr (Or.inl ⟨h, x⟩)))

theorem fault_wrong_class_isolated (d : ElemDef) (ctx : Ctx) (v : List Char) (hv : v ≠ []) (hu : d.usage ≠ .N)
    (o : Otherwise d ctx v) (hty : ¬ DateType d.dataType ∧ d.dataType ≠ tyTM) (h : ¬ LangOk d ctx v)
    (h0 : LenLo d v) (h1 : LenHi d v) (h2 : CodesOk d ctx v) (h4 : TlOk d ctx v) (c : Code) :
    c ∈ (elemValid d ctx (some v)).2 ↔ c = 6 := by
  rw [fault_wrong_type_isolated d ctx v hv hu o h h0 h1 h2 h4]
  unfold WrongTypeCode
  constructor
  · rintro (x | x | x)
    · exact absurd x.2 hty.1
    · exact absurd x.2 hty.2
    · exact x.1
  · rintro rfl; exact Or.inr (Or.inr ⟨rfl, hty.1, hty.2⟩)

theorem fault_bad_date_isolated (d : ElemDef) (ctx : Ctx) (v : List Char) (hv : v ≠ []) (hu : d.usage ≠ .N)
    (o : Otherwise d ctx v) (hty : DateType d.dataType) (h : ¬ LangOk d ctx v)
    (h0 : LenLo d v) (h1 : LenHi d v) (h2 : CodesOk d ctx v) (h4 : TlOk d ctx v) (c : Code) :
    c ∈ (elemValid d ctx (some v)).2 ↔ c = 8 := by
  rw [fault_wrong_type_isolated d ctx v hv hu o h h0 h1 h2 h4]
  have hne : d.dataType ≠ tyTM := by
    rcases hty with e | e | e | e <;> rw [e] <;> decide
  unfold WrongTypeCode
  constructor
  · rintro (x | x | x)
    · exact x.1
    · exact absurd x.2 hne
    · exact absurd hty x.2.1
  · rintro rfl; exact Or.inl ⟨rfl, hty⟩

theorem fault_bad_time_isolated (d : ElemDef) (ctx : Ctx) (v : List Char) (hv : v ≠ []) (hu : d.usage ≠ .N)
    (o : Otherwise d ctx v) (hty : d.dataType = tyTM) (h : ¬ LangOk d ctx v)
    (h0 : LenLo d v) (h1 : LenHi d v) (h2 : CodesOk d ctx v) (h4 : TlOk d ctx v) (c : Code) :
    c ∈ (elemValid d ctx (some v)).2 ↔ c = 9 := by
  rw [fault_wrong_type_isolated d ctx v hv hu o h h0 h1 h2 h4]
  have hnd : ¬ DateType d.dataType := by
    rw [hty]; unfold DateType; decide
  unfold WrongTypeCode
  constructor
  · rintro (x | x | x)
    · exact absurd x.2 hnd
    · exact x.1
    · exact absurd hty x.2.2
  · rintro rfl; exact Or.inr (Or.inl ⟨rfl, hty⟩)

/-- a qualifier-selected date/time format missed, everything else fine ⇒ exactly {9} (TM listed) or {8} -/
theorem fault_by_qualifier_isolated (d : ElemDef) (ctx : Ctx) (v : List Char) (hv : v ≠ []) (hu : d.usage ≠ .N)
    (o : Otherwise d ctx v) (hne : d.typeList ≠ []) (h : ¬ InSomeLang d.typeList ctx.extended v)
    (hwf : tyTM ∈ d.typeList ∨ ∃ t ∈ d.typeList, DateType t)
    (h0 : LenLo d v) (h1 : LenHi d v) (h2 : CodesOk d ctx v) (h3 : LangOk d ctx v) (c : Code) :
    c ∈ (elemValid d ctx (some v)).2 ↔ c = (if tyTM ∈ d.typeList then 9 else 8) := by
  rw [codes_present d ctx v hv hu, valueSpec_clauses d ctx v o]
  have n0 := not_tooShort_of_lenLo d v h0
  have n1 := not_tooLong_of_lenHi d v h1
  have n2 : ¬ OutsideCodes d ctx v := fun x => x.2 (h2 x.1)
  by_cases hTM : tyTM ∈ d.typeList
  · rw [if_pos hTM]
    constructor
    · rintro (x | x | x | x | ⟨_, _, x | x⟩)
      · exact absurd x.2 n0
      · exact absurd x.2 n1
      · exact absurd x.2 n2
      · exact absurd h3 x.1
      · exact x.1
      · exact absurd hTM x.2.1
    · rintro rfl; exact Or.inr (Or.inr (Or.inr (Or.inr ⟨hne, h, Or.inl ⟨rfl, hTM⟩⟩)))
  · rw [if_neg hTM]
    have hd : ∃ t ∈ d.typeList, DateType t := by
      rcases hwf with x | x
      · exact absurd x hTM
      · exact x
    constructor
    · rintro (x | x | x | x | ⟨_, _, x | x⟩)
      · exact absurd x.2 n0
      · exact absurd x.2 n1
      · exact absurd x.2 n2
      · exact absurd h3 x.1
      · exact absurd x.2 hTM
      · exact x.1
    · rintro rfl; exact Or.inr (Or.inr (Or.inr (Or.inr ⟨hne, h, Or.inr ⟨rfl, hTM, hd⟩⟩)))

/-- required element missing ⇒ exactly {1} -/
theorem fault_missing_required_isolated (d : ElemDef) (ctx : Ctx) (v : Option (List Char))
    (hv : v = none ∨ v = some []) (hu : d.usage = .R) (hf : ¬ FirstOfOptionalComposite d) (c : Code) :
    c ∈ (elemValid d ctx v).2 ↔ c = 1 := by
  rw [elemErrors_spec_opt]
  rcases hv with rfl | rfl <;> simp [toInput, Spec, EmptySpec, hu, hf]

/-- not-used element filled ⇒ exactly {10} -/
theorem fault_not_used_isolated (d : ElemDef) (ctx : Ctx) (v : List Char) (hv : v ≠ []) (hu : d.usage = .N)
    (c : Code) : c ∈ (elemValid d ctx (some v)).2 ↔ c = 10 := by
  rw [fault_not_used_detected d ctx v hv hu]; simp

/-- and where no fault is injected nothing is reported (the conformant value; C15 `admissible_no_error`) -/
theorem no_fault_no_error (d : ElemDef) (ctx : Ctx) (v : Option (List Char)) (h : Admissible d ctx (toInput v)) :
    elemValid d ctx v = (true, []) :=
  admissible_no_error d ctx (toInput v) h

/-! ### composite level (`composite_if.is_valid`, with the guard of fix 5fc3f4f) -/

/-- required composite absent, or present with every component empty ⇒ exactly {2} -/
theorem fault_composite_missing_isolated (kids : List (ElemDef × Ctx)) (data : Option (List (List Char)))
    (h : data = none ∨ ∃ vs, data = some vs ∧ ∀ v ∈ vs, v = []) (c : Code) :
    c ∈ codesOf (compValid true .R kids data) ↔ c = 2 := by
  rw [compErrors_spec]
  rcases h with rfl | ⟨vs, rfl, hv⟩
  · simp [CompSpec]
  · simp only [CompSpec, if_pos hv]; simp

/-- a component in a not-used composite ⇒ exactly {5} -/
theorem fault_composite_not_used_isolated (kids : List (ElemDef × Ctx)) (vs : List (List Char))
    (h : ¬ ∀ v ∈ vs, v = []) (c : Code) : c ∈ codesOf (compValid true .N kids (some vs)) ↔ c = 5 := by
  rw [compErrors_spec]
  simp only [CompSpec, if_neg h, if_true]

/-- more components than the composite declares ⇒ 3 (besides what the declared sub-elements imply) -/
theorem fault_too_many_subelements_detected (usage : Usage) (kids : List (ElemDef × Ctx)) (vs : List (List Char))
    (hu : usage ≠ .N) (hne : ¬ ∀ v ∈ vs, v = []) (h : kids.length < vs.length) :
    3 ∈ codesOf (compValid true usage kids (some vs)) := by
  rw [compErrors_spec]
  simp only [CompSpec, if_neg hne, if_neg hu]
  exact Or.inl (by simp [h])

/-- isolation at composite level: the reported codes are exactly `CompSpec` (C15) of the faulty components -/
theorem fault_composite_isolated (usage : Usage) (kids : List (ElemDef × Ctx)) (data : Option (List (List Char)))
    (c : Code) : c ∈ codesOf (compValid true usage kids data) ↔ CompSpec usage kids data c :=
  compErrors_spec usage kids data c

/-! ### syntax notes: a broken note is reported with code 2 (P R C L) or 10 (E) at its first position -/

open Pyx12Verif.Syn

/-- the element error a violated note is routed to -/
def noteError (n : Note) (k : Nat) : EleErr := ⟨if n.code = 'E' then ['1', '0'] else ['2'], k⟩

/-- detection, whole loop of `segment_if.is_valid`: every violated note of the segment is reported -/
theorem fault_syntax_detected (seg : Seg) (notes : List Note) (hwf : AllWF notes) (n : Note) (hn : n ∈ notes)
    (hv : Violated (Present seg) n.code n.idx) :
    ∃ errs k rest, syntaxErrors seg notes = some errs ∧ n.idx = k :: rest ∧ noteError n k ∈ errs := by
  obtain ⟨errs, he, hspec⟩ := syntaxErrors_spec seg notes hwf
  obtain ⟨hw, _⟩ := hwf n hn
  obtain ⟨c, idx⟩ := n
  cases idx with
  | nil => have := hw.1; simp at this
  | cons k rest =>
    refine ⟨errs, k, rest, he, rfl, ?_⟩
    exact (hspec _).2 ⟨⟨c, k :: rest⟩, hn, hv, rfl, rfl⟩

/-- isolation: when the injected fault breaks exactly the note `n` (every other note of the segment stays
    satisfied) the syntax stage reports exactly one error: `n`'s -/
theorem fault_syntax_isolated (seg : Seg) (notes : List Note) (hwf : AllWF notes) (n : Note) (hn : n ∈ notes)
    (hv : Violated (Present seg) n.code n.idx)
    (hothers : ∀ m ∈ notes, m ≠ n → Satisfied (Present seg) m.code m.idx) :
    ∃ errs k rest, syntaxErrors seg notes = some errs ∧ n.idx = k :: rest ∧ ∀ e, e ∈ errs ↔ e = noteError n k := by
  obtain ⟨errs, he, hspec⟩ := syntaxErrors_spec seg notes hwf
  obtain ⟨hw, _⟩ := hwf n hn
  obtain ⟨c, idx⟩ := n
  cases idx with
  | nil => have := hw.1; simp at this
  | cons k rest =>
    refine ⟨errs, k, rest, he, rfl, fun e => ?_⟩
    rw [hspec e]
    constructor
    · rintro ⟨m, hm, hmv, hcode, hpos⟩
      by_cases hmn : m = ⟨c, k :: rest⟩
      · subst hmn
        obtain ⟨ec, ep⟩ := e
        simp only [List.head?_cons, Option.some.injEq] at hpos
        simp only at hcode
        simp [noteError, hcode, hpos]
      · obtain ⟨hmw, hmk⟩ := hwf m hm
        exact absurd (hothers m hm hmn) ((violated_iff_not_satisfied seg m hmw hmk).1 hmv)
    · rintro rfl
      exact ⟨⟨c, k :: rest⟩, hn, hv, rfl, rfl⟩

/-- the five ways of breaking a note, as the injector does it -/
theorem broken_P (seg : Seg) (idx : List Nat) (a b : Nat) (ha : a ∈ idx) (hb : b ∈ idx)
    (pa : Present seg a) (pb : ¬ Present seg b) : Violated (Present seg) 'P' idx :=
  Or.inl ⟨rfl, ⟨a, ha, pa⟩, ⟨b, hb, pb⟩⟩

theorem broken_R (seg : Seg) (idx : List Nat) (h : ∀ k ∈ idx, ¬ Present seg k) : Violated (Present seg) 'R' idx :=
  Or.inr (Or.inl ⟨rfl, h⟩)

theorem broken_E (seg : Seg) (idx : List Nat) (i j a b : Nat) (hij : i < j) (ha : idx[i]? = some a)
    (hb : idx[j]? = some b) (pa : Present seg a) (pb : Present seg b) : Violated (Present seg) 'E' idx :=
  Or.inr (Or.inr (Or.inl ⟨rfl, i, j, a, b, hij, ha, hb, pa, pb⟩))

theorem broken_C (seg : Seg) (k : Nat) (rest : List Nat) (j : Nat) (hj : j ∈ rest) (pk : Present seg k)
    (pj : ¬ Present seg j) : Violated (Present seg) 'C' (k :: rest) :=
  Or.inr (Or.inr (Or.inr (Or.inl ⟨rfl, k, rest, rfl, pk, j, hj, pj⟩)))

theorem broken_L (seg : Seg) (k : Nat) (rest : List Nat) (pk : Present seg k)
    (h : ∀ j ∈ rest, ¬ Present seg j) : Violated (Present seg) 'L' (k :: rest) :=
  Or.inr (Or.inr (Or.inr (Or.inr ⟨rfl, k, rest, rfl, pk, h⟩)))

/-- per note: the code is 10 for an exclusion note and 2 for the four others (C14 routing theorems) -/
theorem fault_syntax_code (seg : Seg) (n : Note) (hwf : WF n) (hk : Known n.code)
    (hv : Violated (Present seg) n.code n.idx) :
    ∃ k rest, n.idx = k :: rest ∧ routeNote seg n = some [noteError n k] := by
  by_cases hc : n.code = 'E'
  · obtain ⟨k, rest, h1, h2⟩ := route_E_is_10 seg n hwf hc hv
    exact ⟨k, rest, h1, by simp [noteError, hc, h2]⟩
  · obtain ⟨k, rest, h1, h2⟩ := route_other_is_2 seg n hwf hk hc hv
    exact ⟨k, rest, h1, by simp [noteError, hc, h2]⟩

/-! ### non-vacuity: every hypothesis bundle is inhabited, and the conclusions are seen on concrete values -/

/-- `NM103`-like: AN 1..5, required, no codes -/
def exAN : ElemDef :=
  { usage := .R, dataType := tyAN, minLen := 2, maxLen := 5, codes := [], extDeclared := false, hasRegex := false,
    typeList := [], seq := 3, parentComposite := false, parentRequired := true }
def exID : ElemDef := { exAN with dataType := tyID, minLen := 2, maxLen := 2, codes := [['8', '5'], ['4', '0']] }
def exN0 : ElemDef := { exAN with dataType := ['N', '0'], minLen := 1, maxLen := 3 }
def exD8 : ElemDef := { exAN with dataType := tyD8, minLen := 8, maxLen := 8 }
def exTM : ElemDef := { exAN with dataType := tyTM, minLen := 4, maxLen := 8 }
def exNU : ElemDef := { exAN with usage := .N }

example : elemValid exAN exCtx (some "ABCDEF".toList) = (false, [5]) := by decide
example : elemValid exAN exCtx (some "A".toList) = (false, [4]) := by decide
example : elemValid exID exCtx (some "ZZ".toList) = (false, [7]) := by decide
example : elemValid exN0 exCtx (some "A".toList) = (false, [6]) := by decide
example : elemValid exD8 exCtx (some "20201301".toList) = (false, [8]) := by decide
example : elemValid exTM exCtx (some "2500".toList) = (false, [9]) := by decide
example : elemValid exAN exCtx none = (false, [1]) := by decide
example : elemValid exNU exCtx (some "AB".toList) = (false, [10]) := by decide
example : elemValid (exDTP03 [tyD8]) exCtx (some "20201301".toList) = (false, [8]) := by decide
example : elemValid (exDTP03 [tyTM]) exCtx (some "2500".toList) = (false, [9]) := by decide
-- an injection artefact: a too-long date also implies 8 (the implied set is what is reported)
example : elemValid exD8 exCtx (some "202001011".toList) = (false, [5, 8]) := by decide
-- conformant values draw nothing
example : elemValid exAN exCtx (some "ABC".toList) = (true, []) := by decide
example : elemValid exD8 exCtx (some "20200101".toList) = (true, []) := by decide

/-- the hypotheses of `fault_too_long_isolated` are satisfiable (and its conclusion agrees with evaluation) -/
example : ∃ v, v ≠ [] ∧ Otherwise exAN exCtx v ∧ TooLong exAN v ∧ LenLo exAN v ∧ CodesOk exAN exCtx v ∧
    LangOk exAN exCtx v ∧ TlOk exAN exCtx v := by
  have hl : LenOf exAN.dataType "ABCDEF".toList 6 := (effLen_spec _ _ _).2 (by decide)
  have hadm : Admissible { exAN with maxLen := 6 } exCtx (.simple "ABCDEF".toList) :=
    no_error_admissible _ _ _ (Or.inl rfl) (fun c hc => by
      have := (elemErrors_spec { exAN with maxLen := 6 } exCtx (.simple "ABCDEF".toList) c).2 hc
      have e : (elemValidIn { exAN with maxLen := 6 } exCtx (.simple "ABCDEF".toList)).2 = [] := by decide
      rw [e] at this; exact absurd this (by simp))
  have hv : "ABCDEF".toList ≠ [] := by decide
  simp only [Admissible, hv, if_false] at hadm
  obtain ⟨_, _, hctl, hblank, hcodes, hlang, htl, hre⟩ := hadm
  exact ⟨"ABCDEF".toList, hv, ⟨hctl, hblank, hre⟩, ⟨6, hl, by decide⟩, ⟨6, hl, by decide⟩, hcodes, hlang, htl⟩

example : 12 < num (("20201301".toList.drop 4).take 2) := by decide
example : 23 < num ("2500".toList.take 2) := by decide
example : OutsideCodes exID exCtx "ZZ".toList := by
  refine ⟨Or.inl (by decide), ?_⟩
  rintro (h | h)
  · revert h; decide
  · exact absurd h.1 (by decide)

example : compValid true .R exKids (some [[], []]) = .ok false [2] := by decide
example : compValid true .N exKids (some [['1']]) = .ok false [5] := by decide
example : compValid true .R exKids (some [['1'], ['7'], ['X']]) = .ok false [3] := by decide

-- syntax notes: the injector's edits break the note, one error results
example : routeNote [['A'], [], ['X']] ⟨'P', [3, 4]⟩ = some [noteError ⟨'P', [3, 4]⟩ 3] := by decide
example : routeNote [['A'], ['B'], [], [], [], [], ['C']] ⟨'E', [2, 7]⟩ = some [noteError ⟨'E', [2, 7]⟩ 2] := by decide
example : Violated (Present [['A'], [], ['X']]) 'P' [3, 4] :=
  broken_P _ _ 3 4 (by simp) (by simp) ⟨by decide, ['X'], by simp, by simp⟩
    (by rintro ⟨_, v, hv, _⟩; simp at hv)

end Pyx12Verif.C03

/-! ### structural kinds, over the walker model (Model/Walker.lean, unchanged) -/

namespace Pyx12Verif.C03
open Pyx12Verif.Walker Pyx12Verif.MapSkel

/-- **unknown segment.**  A data segment whose id is carried by no segment node of the map (spec side: no index
    path leads to a segment node with that id) is answered, from any start node, with `node = none`, no pops,
    no pushes, an unchanged counter and exactly one error — `notFound` (997 code 1) at the start node. -/
theorem unknown_segment_not_found (k : Consts) (root : List Node) (rootId : Nat) (cnt : Counter) (cur : List Nat)
    (s : SegData) (n : Node) (hno : NoSegWithId root s.sid) (hcur : nodeAt root cur = some n) :
    (walk k root rootId cnt cur s).node = none ∧ (walk k root rootId cnt cur s).pops = [] ∧
    (walk k root rootId cnt cur s).pushes = [] ∧ (walk k root rootId cnt cur s).st.cnt = cnt ∧
    (walk k root rootId cnt cur s).st.errs = [(ErrKind.notFound, cur)] :=
  walk_unknown_segment k root rootId cnt cur s n (noSegList_of_spec s.sid root hno) hcur

/-- the unknown segment does not disturb the matching of its neighbours: the counter is the same, the walker
    returns no node (x12n_document then keeps the previous node), so the next segment is walked from the same
    state as in the document without the unknown segment -/
theorem unknown_segment_isolated (k : Consts) (root : List Node) (rootId : Nat) (cnt : Counter) (cur : List Nat)
    (s t : SegData) (n : Node) (hno : NoSegWithId root s.sid) (hcur : nodeAt root cur = some n) :
    walk k root rootId (walk k root rootId cnt cur s).st.cnt cur t = walk k root rootId cnt cur t := by
  rw [(unknown_segment_not_found k root rootId cnt cur s n hno hcur).2.2.2.1]

/-- **segment beyond max_use, local step** (`_check_seg_usage`): a plain segment child that matches while its
    count already equals a finite `max_use` draws `segMaxCount` (997 code 5) at that node -/
theorem max_use_exceeded_reported_step (lip : List Nat) (lkey : PathKey) (loopNid : NodeId) (c : Node) (i : Nat)
    (pops : List (List Nat)) (st : WState) (hu : c.usage ≠ 2) (hr : c.rep ≠ 0)
    (hcount : c.rep ≤ st.cnt.get (lkey ++ [c.comp])) :
    ∃ r, scanChildren.scanSegMatched lip lkey loopNid c i pops st = .found r ∧ r.node = some (lip ++ [i]) ∧
      (ErrKind.segMaxCount, lip ++ [i]) ∈ r.st.errs := by
  apply segMatched_max_use
  · simpa using hu
  · rw [exceeds_iff, get_incr_same]; exact ⟨hr, by omega⟩

/-- … and a repetition within the limit draws nothing -/
theorem max_use_within_silent_step (lip : List Nat) (lkey : PathKey) (loopNid : NodeId) (c : Node) (i : Nat)
    (pops : List (List Nat)) (st : WState) (hu : c.usage ≠ 2) (hp : st.pending = [])
    (hcount : c.rep = 0 ∨ st.cnt.get (lkey ++ [c.comp]) < c.rep) :
    ∃ r, scanChildren.scanSegMatched lip lkey loopNid c i pops st = .found r ∧ r.st.errs = st.errs := by
  apply segMatched_within _ _ _ _ _ _ _ (by simpa using hu) hp
  cases h : exceeds ((st.cnt.incr (lkey ++ [c.comp])).get (lkey ++ [c.comp])) c.rep with
  | false => rfl
  | true =>
    rw [exceeds_iff, get_incr_same] at h
    rcases hcount with h0 | h0
    · exact absurd h0 h.1
    · omega

/-- **loop beyond repeat, local step** (`_check_loop_usage`): entering a loop whose instance count already equals
    a finite `repeat` draws `loopMaxCount` (997 code 4) at the loop node -/
theorem loop_repeat_reported_step (ip : List Nat) (key : PathKey) (usage rep : Nat) (st : WState) (hu : usage ≠ 2)
    (hr : rep ≠ 0) (hcount : rep ≤ st.cnt.get key) :
    (ErrKind.loopMaxCount, ip) ∈ (checkLoopUsage ip key usage rep st).errs := by
  apply loopUsage_repeat _ _ _ _ _ (by simpa using hu)
  rw [exceeds_iff, get_incr_same]
  have : ∀ q : PathKey, isStrictPrefix q q = false := by
    intro q
    induction q with
    | nil => rfl
    | cons a r ih => simp [isStrictPrefix, ih]
  have := this key
  rw [get_resetTo_other _ _ _ this]
  exact ⟨hr, by omega⟩

/-- **missing mandatory segment, local steps** (`_flush_mandatory_segs`): a pending entry is reported (997 code
    3, at its own node) when the walk settles at a different position, and is carried on, unreported, while the
    walk stays at its position — which is why the report can come one or more segments after the gap -/
theorem mandatory_missing_reported_step (st : WState) (curPos : Option Nat) (p : Pending) (hp : p ∈ st.pending)
    (hpos : some p.pos ≠ curPos) : (ErrKind.mandatoryMissing, p.ip) ∈ (flush st curPos).errs :=
  flush_reports st curPos p hp hpos

theorem mandatory_missing_deferred_step (st : WState) (curPos : Option Nat) (p : Pending) (hp : p ∈ st.pending)
    (hpos : some p.pos = curPos) :
    p ∈ (flush st curPos).pending ∧ (flush st curPos).errs = st.errs ++
      (st.pending.filter (fun q => some q.pos != curPos)).map (fun q => (ErrKind.mandatoryMissing, q.ip)) :=
  ⟨flush_keeps st curPos p hp hpos, rfl⟩

/-! non-vacuity: a two-level map, ids 10/11/12 known, 99 unknown -/

def exK : Consts := { ent := 900, hl := 901, ctx := 902 }
def exMap : List Node :=
  [.loop 1 10 0 1 false
     [.seg 10 0 10 0 1 [] [], .seg 11 0 20 0 1 [] [],
      .loop 2 30 1 2 false [.seg 12 0 10 0 1 [] [], .seg 13 0 20 1 1 [] []]]]
def exSeg (sid : Nat) : SegData := { sid := sid, v01 := 0, v02 := 0, v03 := 0, v011 := 0 }

example : noSegList 99 exMap = true := by decide
example : noSegList 12 exMap = false := by decide
/-- the hypothesis of `unknown_segment_not_found` holds for id 99 … -/
example : NoSegWithId exMap 99 := by
  intro ip n h hs e
  have := nodeAt_noSeg 99 ip exMap n (by decide) h
  cases n with
  | loop => simp [Node.isSeg] at hs
  | seg sid => simp only [Node.ident] at e; subst e; simp [noSeg] at this
/-- … the conclusion is what evaluation gives, from a node two loops deep … -/
example : (walk exK exMap 0 [] [0, 2, 1] (exSeg 99)).node = none ∧
    (walk exK exMap 0 [] [0, 2, 1] (exSeg 99)).st.errs = [(ErrKind.notFound, [0, 2, 1])] := by decide
/-- … and it is not a triviality of the model: a known id is matched -/
example : (walk exK exMap 0 [] [0, 0] (exSeg 11)).node = some [0, 1] := by decide
/-- max_use: the second `11` in the same loop instance draws `segMaxCount` at its node -/
example : (ErrKind.segMaxCount, [0, 1]) ∈
    (walk exK exMap 0 (walk exK exMap 0 [] [0, 0] (exSeg 11)).st.cnt [0, 1] (exSeg 11)).st.errs := by decide
/-- mandatory segment: skipping the required `11` is reported when `12` opens the inner loop -/
example : (ErrKind.mandatoryMissing, [0, 1]) ∈ (walk exK exMap 0 [] [0, 0] (exSeg 12)).st.errs := by decide
/-- loop repeat: the third instance of the inner loop (repeat 2) draws `loopMaxCount` at the loop -/
example : (ErrKind.loopMaxCount, [0, 2]) ∈
    (walk exK exMap 0 [([(1, 0), (2, 0)], 2)] [0, 2, 0] (exSeg 12)).st.errs := by decide

end Pyx12Verif.C03

/-! ### structural kinds at run level: ONE structural fault in an otherwise conformant document

Setting as in `walk_accepts_generated` (C02): `root[a]` is the interchange loop, its child `g` the group loop; ISA and
GS are pinned with `forceWalkCounterToLoopStart` on an empty counter and the walk starts at the GS node `[a, g, 0]`.
The rest of the group carries the fault (`pre ++ x :: post`), the rest of the interchange (`out2`) and what follows at
top level (`out3`) are conformant.  `RunErrAt … pre x post e` (Proofs/C03RunSpec.lean): every segment is answered
with the map node it instantiates, the step on `x` reports exactly `[e]`, every other step reports nothing and leaves
nothing pending — i.e. all the other segments are matched exactly as in `RunOK`.

Faulty derivations (small inductive relations on top of `GenList`):
* `XList K e …` (Proofs/C03RunSpec.lean): one instance too many of a counted node; `x` = first segment of the surplus
  instance;
* `HList K e …` (Proofs/C03RunHSpec.lean): one required segment, not the first of its loop, left out ("hole"); `x` =
  the segment on which the model reports it, i.e. the first segment emitted after the hole.
Proofs: Proofs/C03Run*.lean (the part for the hole runs over a generalisation of the C02 simulation invariant in
which a segment child positioned strictly before the current child may be outstanding). -/

namespace Pyx12Verif.C03
open Pyx12Verif.MapSkel Pyx12Verif.Walker Pyx12Verif.WalkerGen Pyx12Verif.WalkerGenW

/-- **(1) segment beyond max_use.**  A segment node (index path `ip`) with finite `max_use = m ≥ 1` instantiated
    `m + 1` times (`XReps.over`: `k = c.rep` instances were emitted, then one more): the walk over the faulty sequence
    answers the `(m+1)`-th instance `x` with that very node and reports exactly one error there, `segMaxCount` (997
    code 5) attached to the node; every other segment is matched as in the conformant run, without error. -/
theorem max_use_exceeded_reported (K : Consts) (root : List Node) (rootId : Nat) (ip : List Nat)
    (hwf : WFMap root = true) (hun : Unambiguous K root = true)
    {a isaId isaPos isaU isaRep : Nat} {isaW : Bool} {isaSeg : Node} {isaRest : List Node}
    (hroot : root[a]? = some (.loop isaId isaPos isaU isaRep isaW (isaSeg :: isaRest))) (hisa : isaSeg.isSeg = true)
    {g gsId gsPos gsU gsRep : Nat} {gsW : Bool} {gsSeg : Node} {gsRest : List Node}
    (hgs : (isaSeg :: isaRest)[g]? = some (.loop gsId gsPos gsU gsRep gsW (gsSeg :: gsRest))) (hgseg : gsSeg.isSeg = true)
    (hopt0 : ∀ (j : Nat) (c : Node), j < a → root[j]? = some c → optional c = true)
    (hopt1 : ∀ (j : Nat) (c : Node), 0 < j → j < g → (isaSeg :: isaRest)[j]? = some c → optional c = true)
    {pre : List Emit} {x : Emit} {post out2 out3 : List Emit}
    (h1 : XList K (ErrKind.segMaxCount, ip) [a, g] 1 gsRest pre x post)
    (h2 : GenList K [a] (g + 1) ((isaSeg :: isaRest).drop (g + 1)) out2)
    (h3 : GenList K [] (a + 1) (root.drop (a + 1)) out3) :
    x.1 = ip ∧
    RunErrAt K root rootId
      (forceLoopStart (forceLoopStart [] [(isaId, 0)] [(isaId, 0), isaSeg.comp])
        [(isaId, 0), (gsId, 0)] [(isaId, 0), (gsId, 0), gsSeg.comp])
      [a, g, 0] pre x (post ++ out2 ++ out3) (ErrKind.segMaxCount, ip) := by
  refine ⟨?_, over_limit_run K root rootId _ hwf hun (fun hk => by cases hk) hroot hisa hgs hgseg hopt0 hopt1 h1 h2 h3⟩
  rcases xlist_fault h1 with ⟨_, hx⟩ | ⟨hk, _⟩
  · exact hx
  · cases hk

/-- the statement of (2) without the hypothesis `sfList` (the self-follow check for loops with `repeat = 1`) -/
def loop_repeat_reported_full : Prop :=
  ∀ (K : Consts) (root : List Node) (rootId : Nat) (lp : List Nat),
    WFMap root = true → Unambiguous K root = true →
    ∀ {a isaId isaPos isaU isaRep : Nat} {isaW : Bool} {isaSeg : Node} {isaRest : List Node},
    root[a]? = some (.loop isaId isaPos isaU isaRep isaW (isaSeg :: isaRest)) → isaSeg.isSeg = true →
    ∀ {g gsId gsPos gsU gsRep : Nat} {gsW : Bool} {gsSeg : Node} {gsRest : List Node},
    (isaSeg :: isaRest)[g]? = some (.loop gsId gsPos gsU gsRep gsW (gsSeg :: gsRest)) → gsSeg.isSeg = true →
    (∀ (j : Nat) (c : Node), j < a → root[j]? = some c → optional c = true) →
    (∀ (j : Nat) (c : Node), 0 < j → j < g → (isaSeg :: isaRest)[j]? = some c → optional c = true) →
    ∀ {pre : List Emit} {x : Emit} {post out2 out3 : List Emit},
    XList K (ErrKind.loopMaxCount, lp) [a, g] 1 gsRest pre x post →
    GenList K [a] (g + 1) ((isaSeg :: isaRest).drop (g + 1)) out2 →
    GenList K [] (a + 1) (root.drop (a + 1)) out3 →
    RunErrAt K root rootId
      (forceLoopStart (forceLoopStart [] [(isaId, 0)] [(isaId, 0), isaSeg.comp])
        [(isaId, 0), (gsId, 0)] [(isaId, 0), (gsId, 0), gsSeg.comp])
      [a, g, 0] pre x (post ++ out2 ++ out3) (ErrKind.loopMaxCount, lp)

/-- **(2) loop beyond repeat.**  A first-seg loop (index path `lp`) with finite `repeat = r ≥ 1` instantiated `r + 1`
    times: the walk enters the `(r+1)`-th instance all the same (its first segment `x` is answered with the loop's
    first-segment node `lp ++ [0]`, the counters are reset and counted as for a regular repeat) and reports exactly one
    error on that step, `loopMaxCount` (997 code 4) attached to the loop node; every other segment — the rest of
    the surplus instance included — is matched as in the conformant run, without error.
    PARTIAL w.r.t. `loop_repeat_reported_full`: the hypothesis `sfList K root` (every loop with `repeat = 1` passes the
    check `Unambiguous` makes for repeatable loops only: no node nested below it can be entered by the loop's own
    first segment) cannot be dropped, see `loop_repeat_reported_full_false`. -/
theorem loop_repeat_reported (K : Consts) (root : List Node) (rootId : Nat) (lp : List Nat)
    (hwf : WFMap root = true) (hun : Unambiguous K root = true) (hsf : sfList K root = true)
    {a isaId isaPos isaU isaRep : Nat} {isaW : Bool} {isaSeg : Node} {isaRest : List Node}
    (hroot : root[a]? = some (.loop isaId isaPos isaU isaRep isaW (isaSeg :: isaRest))) (hisa : isaSeg.isSeg = true)
    {g gsId gsPos gsU gsRep : Nat} {gsW : Bool} {gsSeg : Node} {gsRest : List Node}
    (hgs : (isaSeg :: isaRest)[g]? = some (.loop gsId gsPos gsU gsRep gsW (gsSeg :: gsRest))) (hgseg : gsSeg.isSeg = true)
    (hopt0 : ∀ (j : Nat) (c : Node), j < a → root[j]? = some c → optional c = true)
    (hopt1 : ∀ (j : Nat) (c : Node), 0 < j → j < g → (isaSeg :: isaRest)[j]? = some c → optional c = true)
    {pre : List Emit} {x : Emit} {post out2 out3 : List Emit}
    (h1 : XList K (ErrKind.loopMaxCount, lp) [a, g] 1 gsRest pre x post)
    (h2 : GenList K [a] (g + 1) ((isaSeg :: isaRest).drop (g + 1)) out2)
    (h3 : GenList K [] (a + 1) (root.drop (a + 1)) out3) :
    x.1 = lp ++ [0] ∧
    RunErrAt K root rootId
      (forceLoopStart (forceLoopStart [] [(isaId, 0)] [(isaId, 0), isaSeg.comp])
        [(isaId, 0), (gsId, 0)] [(isaId, 0), (gsId, 0), gsSeg.comp])
      [a, g, 0] pre x (post ++ out2 ++ out3) (ErrKind.loopMaxCount, lp) := by
  refine ⟨?_, over_limit_run K root rootId _ hwf hun (fun _ => hsf) hroot hisa hgs hgseg hopt0 hopt1 h1 h2 h3⟩
  rcases xlist_fault h1 with ⟨hk, _⟩ | ⟨_, hx⟩
  · cases hk
  · exact hx

/-- **(3) mandatory segment missing.**  A required segment (usage R, index path `ip`, not the first segment of its
    loop: `HList.gap` / `HListO.gap` sit in a child list that starts at index 1) left out of an otherwise conformant
    document: exactly one error, `mandatoryMissing` (997 code 3) attached to the missing node, on the step at which the
    model raises it — the FIRST segment `x` emitted after the hole (`mandatory_segs_missing` does not survive a
    call), namely
    * a later sibling of the hole in the same loop instance (`HList.gap`, `TList`): a segment with another id at a
      later position, or the first segment of a later-positioned first-seg loop; children in between are left out;
    * when the rest of the instance is left out (`HListO`): a later child (segment of another id and another position,
      or first-seg loop) of an enclosing loop instance (`HList.under`), or the first segment of the NEXT INSTANCE of the
      loop containing the hole or of an enclosing loop (`HReps.again`).
    Every other segment is matched as in the conformant run, without error.
    Corners excluded by the hypotheses inside `HList …`, each because the statement is false there:
    `HReps.again` asks that the last segment before the hole is not the repeated loop's own first segment (finding
    "unreported when only the first segment precedes a repeat of the loop", `mandatory_missing_unreported_witness`);
    `TList.hitSeg` asks for another id and another position (the pending entry is dropped by id, kept by position:
    `mandatory_missing_same_position_witness`).  Not covered (no claim): a reporting segment that enters a loop through
    a transparent wrapper loop, or that lies outside the group (`out2`, `out3`). -/
theorem mandatory_missing_reported (K : Consts) (root : List Node) (rootId : Nat) (ip : List Nat)
    (hwf : WFMap root = true) (hun : Unambiguous K root = true)
    {a isaId isaPos isaU isaRep : Nat} {isaW : Bool} {isaSeg : Node} {isaRest : List Node}
    (hroot : root[a]? = some (.loop isaId isaPos isaU isaRep isaW (isaSeg :: isaRest))) (hisa : isaSeg.isSeg = true)
    {g gsId gsPos gsU gsRep : Nat} {gsW : Bool} {gsSeg : Node} {gsRest : List Node}
    (hgs : (isaSeg :: isaRest)[g]? = some (.loop gsId gsPos gsU gsRep gsW (gsSeg :: gsRest))) (hgseg : gsSeg.isSeg = true)
    (hopt0 : ∀ (j : Nat) (c : Node), j < a → root[j]? = some c → optional c = true)
    (hopt1 : ∀ (j : Nat) (c : Node), 0 < j → j < g → (isaSeg :: isaRest)[j]? = some c → optional c = true)
    {pre : List Emit} {x : Emit} {post out2 out3 : List Emit}
    (h1 : HList K (ErrKind.mandatoryMissing, ip) [a, g] 1 gsRest pre x post)
    (h2 : GenList K [a] (g + 1) ((isaSeg :: isaRest).drop (g + 1)) out2)
    (h3 : GenList K [] (a + 1) (root.drop (a + 1)) out3) :
    RunErrAt K root rootId
      (forceLoopStart (forceLoopStart [] [(isaId, 0)] [(isaId, 0), isaSeg.comp])
        [(isaId, 0), (gsId, 0)] [(isaId, 0), (gsId, 0), gsSeg.comp])
      [a, g, 0] pre x (post ++ out2 ++ out3) (ErrKind.mandatoryMissing, ip) :=
  missing_run K root rootId _ hwf hun hroot hisa hgs hgseg hopt0 hopt1 h1 h2 h3

/-- the unrestricted reading of (3), in its weakest form: leaving out the only instance of a required, non-repeatable
    segment (not the first of its loop) from a conformant group is at least *noticed* by the walk -/
def mandatory_missing_reported_full : Prop :=
  ∀ (K : Consts) (root : List Node) (rootId : Nat),
    WFMap root = true → Unambiguous K root = true →
    ∀ {a isaId isaPos isaU isaRep : Nat} {isaW : Bool} {isaSeg : Node} {isaRest : List Node},
    root[a]? = some (.loop isaId isaPos isaU isaRep isaW (isaSeg :: isaRest)) → isaSeg.isSeg = true →
    ∀ {g gsId gsPos gsU gsRep : Nat} {gsW : Bool} {gsSeg : Node} {gsRest : List Node},
    (isaSeg :: isaRest)[g]? = some (.loop gsId gsPos gsU gsRep gsW (gsSeg :: gsRest)) → gsSeg.isSeg = true →
    ∀ (o1 : List Emit) (ipc : List Nat) (s : SegData) (o2 : List Emit) (c : Node),
    GenList K [a, g] 1 gsRest (o1 ++ (ipc, s) :: o2) → nodeAt root ipc = some c → c.isSeg = true → c.usage = 0 →
    c.rep = 1 → ipc.getLast? ≠ some 0 →
    ¬ RunOK K root rootId
      (forceLoopStart (forceLoopStart [] [(isaId, 0)] [(isaId, 0), isaSeg.comp])
        [(isaId, 0), (gsId, 0)] [(isaId, 0), (gsId, 0), gsSeg.comp])
      [a, g, 0] (o1 ++ o2)

theorem runOK_of_b (K : Consts) (root : List Node) (rootId : Nat) : ∀ (out : List Emit) (cnt : Counter) (cur : List Nat),
    runOKb K root rootId cnt cur out = true → RunOK K root rootId cnt cur out
  | [], _, _, _ => trivial
  | e :: r, cnt, cur, h => by
    simp only [runOKb, Bool.and_eq_true, beq_iff_eq, List.isEmpty_iff] at h
    exact ⟨h.1.1.1, h.1.1.2, h.1.2, runOK_of_b K root rootId r _ _ h.2⟩

/-! #### non-vacuity on the skeleton `exRoot` of Props/C02Walk.lean (each run is also evaluated by the kernel) -/

def eST : Emit := ([0, 1, 1, 0], sd 15 0 0)
def eBHT : Emit := ([0, 1, 1, 1, 0], sd 17 0 0)
def eREF0B : Emit := ([0, 1, 1, 1, 1], sd 18 101 0)
def eHL : Emit := ([0, 1, 1, 2, 0, 0], sd 2 1 201)
def eNM1 : Emit := ([0, 1, 1, 2, 0, 2, 0], sd 22 301 0)
def eSE : Emit := ([0, 1, 1, 3], sd 24 0 0)
def eGE : Emit := ([0, 1, 2], sd 25 0 0)

example : sfList WalkerGen.exK exRoot = true := by decide +kernel

/-- DETAIL with one 2000 loop: HL, then one 2100 loop: NM1 -/
theorem gDETAIL : GenChild WalkerGen.exK [0, 1, 1, 2] exDETAIL [eHL, eNM1] :=
  .wrapper rfl (by decide)
    (.cons (o1 := [eHL, eNM1]) (o2 := [])
      (.counted rfl
        (.more (o1 := [eHL, eNM1]) (o2 := []) (by decide) (by decide)
          (.loop (s := sd 2 1 201) rfl (by decide +kernel)
            (.cons (o1 := []) (o2 := [eNM1]) (genChild_none rfl (by decide))
              (.cons (o1 := [eNM1]) (o2 := [])
                (.counted rfl
                  (.more (o1 := [eNM1]) (o2 := []) (by decide) (by decide)
                    (.loop (s := sd 22 301 0) rfl (by decide +kernel)
                      (.cons (o1 := []) (o2 := []) (genChild_none rfl (by decide)) .nil))
                    (.stop (by decide))))
                .nil)))
          (.stop (by decide))))
      .nil)

theorem gSE : GenChild WalkerGen.exK [0, 1, 1, 3] exSE [eSE] := genChild_seg1 (by decide +kernel) (by decide) (by decide)
theorem gGE : GenChild WalkerGen.exK [0, 1, 2] exGE [eGE] := genChild_seg1 (by decide +kernel) (by decide) (by decide)

/-- HEADER: BHT only -/
theorem gHEADER0 : GenChild WalkerGen.exK [0, 1, 1, 1] exHEADER [eBHT] :=
  .counted rfl (.more (o1 := [eBHT]) (o2 := []) (by decide) (by decide)
    (.loop (s := sd 17 0 0) rfl (by decide +kernel)
      (.cons (o1 := []) (o2 := []) (genChild_none rfl (by decide))
        (.cons (o1 := []) (o2 := []) (genChild_none rfl (by decide)) .nil)))
    (.stop (by decide)))

/-- (1) `ST BHT REF*0B REF*0B HL NM1 SE GE`: REF*0B has `max_use` 1 -/
theorem exX1 : XList WalkerGen.exK (ErrKind.segMaxCount, [0, 1, 1, 1, 1]) [0, 1] 1 [exSTLOOP, exGE] [eST, eBHT, eREF0B] eREF0B
    [eHL, eNM1, eSE, eGE] :=
  .here (pre := [eST, eBHT, eREF0B]) (post := [eHL, eNM1, eSE]) (o2 := [eGE])
    (.counted rfl (.inside (pre := [eST, eBHT, eREF0B]) (post := [eHL, eNM1, eSE]) (o2 := []) (by decide) (by decide)
      (.loop (s := sd 15 0 0) (pre := [eBHT, eREF0B]) rfl (by decide +kernel)
        (.here (pre := [eBHT, eREF0B]) (post := []) (o2 := [eHL, eNM1, eSE])
          (.counted rfl (.inside (pre := [eBHT, eREF0B]) (post := []) (o2 := []) (by decide) (by decide)
            (.loop (s := sd 17 0 0) (pre := [eREF0B]) rfl (by decide +kernel)
              (.here (pre := [eREF0B]) (post := []) (o2 := [])
                (.counted rfl (.later (o1 := [eREF0B]) (pre := []) (by decide) (by decide) (.seg (by decide +kernel))
                  (.over (by decide) (by decide) rfl (.seg (by decide +kernel)) rfl)))
                (.cons (o1 := []) (o2 := []) (genChild_none rfl (by decide)) .nil)))
            (.stop (by decide))))
          (.cons (o1 := [eHL, eNM1]) (o2 := [eSE]) gDETAIL (.cons (o1 := [eSE]) (o2 := []) gSE .nil))))
      (.stop (by decide))))
    (.cons (o1 := [eGE]) (o2 := []) gGE .nil)

example : RunErrAt WalkerGen.exK exRoot 0 exCnt0 [0, 1, 0] [eST, eBHT, eREF0B] eREF0B ([eHL, eNM1, eSE, eGE] ++ exOut2 ++ [])
    (ErrKind.segMaxCount, [0, 1, 1, 1, 1]) :=
  (max_use_exceeded_reported WalkerGen.exK exRoot 0 _ (by decide +kernel) (by decide +kernel) (a := 0) (g := 1)
    (isaSeg := exISA) (gsSeg := exGS) rfl rfl rfl rfl (by intro j c hj; omega) (by intro j c h1 h2; omega)
    exX1 exDeriv2 .nil).2

example : runErrAtb WalkerGen.exK exRoot 0 exCnt0 [0, 1, 0] [eST, eBHT, eREF0B] eREF0B ([eHL, eNM1, eSE, eGE] ++ exOut2)
    (ErrKind.segMaxCount, [0, 1, 1, 1, 1]) = true := by decide +kernel

/-- (2) `ST BHT BHT REF*0B HL NM1 SE GE`: loop HEADER has `repeat` 1 -/
theorem exX2 : XList WalkerGen.exK (ErrKind.loopMaxCount, [0, 1, 1, 1]) [0, 1] 1 [exSTLOOP, exGE] [eST, eBHT] eBHT
    [eREF0B, eHL, eNM1, eSE, eGE] :=
  .here (pre := [eST, eBHT]) (post := [eREF0B, eHL, eNM1, eSE]) (o2 := [eGE])
    (.counted rfl (.inside (pre := [eST, eBHT]) (post := [eREF0B, eHL, eNM1, eSE]) (o2 := []) (by decide) (by decide)
      (.loop (s := sd 15 0 0) (pre := [eBHT]) rfl (by decide +kernel)
        (.here (pre := [eBHT]) (post := [eREF0B]) (o2 := [eHL, eNM1, eSE])
          (.counted rfl (.later (o1 := [eBHT]) (pre := []) (by decide) (by decide)
            (.loop (s := sd 17 0 0) rfl (by decide +kernel)
              (.cons (o1 := []) (o2 := []) (genChild_none rfl (by decide))
                (.cons (o1 := []) (o2 := []) (genChild_none rfl (by decide)) .nil)))
            (.over (x := eBHT) (post := [eREF0B]) (by decide) (by decide) rfl
              (.loop (s := sd 17 0 0) rfl (by decide +kernel)
                (.cons (o1 := [eREF0B]) (o2 := []) (genChild_seg1 (by decide +kernel) (by decide) (by decide))
                  (.cons (o1 := []) (o2 := []) (genChild_none rfl (by decide)) .nil)))
              rfl)))
          (.cons (o1 := [eHL, eNM1]) (o2 := [eSE]) gDETAIL (.cons (o1 := [eSE]) (o2 := []) gSE .nil))))
      (.stop (by decide))))
    (.cons (o1 := [eGE]) (o2 := []) gGE .nil)

example : RunErrAt WalkerGen.exK exRoot 0 exCnt0 [0, 1, 0] [eST, eBHT] eBHT ([eREF0B, eHL, eNM1, eSE, eGE] ++ exOut2 ++ [])
    (ErrKind.loopMaxCount, [0, 1, 1, 1]) :=
  (loop_repeat_reported WalkerGen.exK exRoot 0 _ (by decide +kernel) (by decide +kernel) (by decide +kernel) (a := 0) (g := 1)
    (isaSeg := exISA) (gsSeg := exGS) rfl rfl rfl rfl (by intro j c hj; omega) (by intro j c h1 h2; omega)
    exX2 exDeriv2 .nil).2

example : runErrAtb WalkerGen.exK exRoot 0 exCnt0 [0, 1, 0] [eST, eBHT] eBHT ([eREF0B, eHL, eNM1, eSE, eGE] ++ exOut2)
    (ErrKind.loopMaxCount, [0, 1, 1, 1]) = true := by decide +kernel

/-- the open ST loop instance `ST BHT HL NM1`, SE left out -/
theorem exSTopen : HOneO WalkerGen.exK (ErrKind.mandatoryMissing, [0, 1, 1, 3]) exSE [0, 1, 1] exSTLOOP [eST, eBHT, eHL, eNM1] :=
  .loop (s := sd 15 0 0) (pre := [eBHT, eHL, eNM1]) rfl (by decide +kernel)
    (.later (o1 := [eBHT]) (pre := [eHL, eNM1]) gHEADER0
      (.later (o1 := [eHL, eNM1]) (pre := []) gDETAIL (.gap rfl rfl rfl rfl)))

/-- (3, leaving the loop) `ST BHT HL NM1 GE`: SE left out; GE, a later sibling of the ST loop, reports it -/
theorem exH3a : HList WalkerGen.exK (ErrKind.mandatoryMissing, [0, 1, 1, 3]) [0, 1] 1 [exSTLOOP, exGE] [eST, eBHT, eHL, eNM1]
    eGE [] :=
  .under (c0 := exSE) (.counted rfl (.last (by decide) (by decide) exSTopen))
    (.hitSeg (s := sd 25 0 0) (o1 := []) (o2 := []) (by decide +kernel) (by decide) (by decide) (by decide) (by decide)
      (.stop (by decide)) .nil)

example : RunErrAt WalkerGen.exK exRoot 0 exCnt0 [0, 1, 0] [eST, eBHT, eHL, eNM1] eGE ([] ++ exOut2 ++ [])
    (ErrKind.mandatoryMissing, [0, 1, 1, 3]) :=
  mandatory_missing_reported WalkerGen.exK exRoot 0 _ (by decide +kernel) (by decide +kernel) (a := 0) (g := 1)
    (isaSeg := exISA) (gsSeg := exGS) rfl rfl rfl rfl (by intro j c hj; omega) (by intro j c h1 h2; omega)
    exH3a exDeriv2 .nil

example : runErrAtb WalkerGen.exK exRoot 0 exCnt0 [0, 1, 0] [eST, eBHT, eHL, eNM1] eGE exOut2
    (ErrKind.mandatoryMissing, [0, 1, 1, 3]) = true := by decide +kernel

/-- (3, re-entering the loop) `ST BHT HL NM1 ST BHT HL NM1 SE GE`: SE left out; the next ST loop instance reports it -/
theorem exH3b : HList WalkerGen.exK (ErrKind.mandatoryMissing, [0, 1, 1, 3]) [0, 1] 1 [exSTLOOP, exGE] [eST, eBHT, eHL, eNM1]
    eST [eBHT, eHL, eNM1, eSE, eGE] :=
  .here (pre := [eST, eBHT, eHL, eNM1]) (post := [eBHT, eHL, eNM1, eSE]) (o2 := [eGE])
    (.counted rfl
      (.again (c0 := exSE) (x := eST) (post1 := [eBHT, eHL, eNM1, eSE]) (o2 := []) (by decide) (by decide) exSTopen
        (by decide) (by decide)
        (.loop (s := sd 15 0 0) rfl (by decide +kernel)
          (.cons (o1 := [eBHT]) (o2 := [eHL, eNM1, eSE]) gHEADER0
            (.cons (o1 := [eHL, eNM1]) (o2 := [eSE]) gDETAIL (.cons (o1 := [eSE]) (o2 := []) gSE .nil))))
        (.stop (by decide))))
    (.cons (o1 := [eGE]) (o2 := []) gGE .nil)

example : RunErrAt WalkerGen.exK exRoot 0 exCnt0 [0, 1, 0] [eST, eBHT, eHL, eNM1] eST
    ([eBHT, eHL, eNM1, eSE, eGE] ++ exOut2 ++ []) (ErrKind.mandatoryMissing, [0, 1, 1, 3]) :=
  mandatory_missing_reported WalkerGen.exK exRoot 0 _ (by decide +kernel) (by decide +kernel) (a := 0) (g := 1)
    (isaSeg := exISA) (gsSeg := exGS) rfl rfl rfl rfl (by intro j c hj; omega) (by intro j c h1 h2; omega)
    exH3b exDeriv2 .nil

example : runErrAtb WalkerGen.exK exRoot 0 exCnt0 [0, 1, 0] [eST, eBHT, eHL, eNM1] eST ([eBHT, eHL, eNM1, eSE, eGE] ++ exOut2)
    (ErrKind.mandatoryMissing, [0, 1, 1, 3]) = true := by decide +kernel

/-! a variant of `exRoot` in which DTP (second child of loop 2000, inside the transparent DETAIL loop) is required -/
def exDTPr : Node := .seg 23 0 20 0 1 [] [elID 1 [401], elAN 2]
def exL2000r : Node := .loop 20 10 0 0 false [exHL, exDTPr, exL2100]
def exDETAILr : Node := .loop 19 30 1 0 true [exL2000r]
def exSTLOOPr : Node := .loop 14 20 0 0 false [exST, exHEADER, exDETAILr, exSE]
def exGSLOOPr : Node := .loop 12 20 0 0 false [exGS, exSTLOOPr, exGE]
def exISALOOPr : Node := .loop 10 1 0 1 false [exISA, exGSLOOPr, exIEA]
def exRootR : List Node := [exISALOOPr]

def eDTP : Emit := ([0, 1, 1, 2, 0, 1], sd 23 401 0)
def eHL2 : Emit := ([0, 1, 1, 2, 0, 0], sd 2 2 201)

/-- (3, later sibling in the same instance) `ST BHT HL NM1 SE GE`: DTP left out; NM1, which opens the later sibling
    loop 2100, reports it -/
theorem exH3c : HList WalkerGen.exK (ErrKind.mandatoryMissing, [0, 1, 1, 2, 0, 1]) [0, 1] 1 [exSTLOOPr, exGE] [eST, eBHT, eHL]
    eNM1 [eSE, eGE] :=
  .here (pre := [eST, eBHT, eHL]) (post := [eSE]) (o2 := [eGE])
    (.counted rfl (.inside (pre := [eST, eBHT, eHL]) (post := [eSE]) (o2 := []) (by decide) (by decide)
      (.loop (s := sd 15 0 0) (pre := [eBHT, eHL]) rfl (by decide +kernel)
        (.later (o1 := [eBHT]) (pre := [eHL]) gHEADER0
          (.here (pre := [eHL]) (post := []) (o2 := [eSE])
            (.wrapper rfl (by decide)
              (.here (pre := [eHL]) (post := []) (o2 := [])
                (.counted rfl (.inside (pre := [eHL]) (post := []) (o2 := []) (by decide) (by decide)
                  (.loop (s := sd 2 1 201) (pre := []) rfl (by decide +kernel)
                    (.gap (c0 := exDTPr) rfl rfl rfl
                      (.hitLoop (s := sd 22 301 0) (o := []) (o1 := []) (o2 := []) rfl (by decide +kernel) (by decide)
                        (by decide) (by decide)
                        (.cons (o1 := []) (o2 := []) (genChild_none rfl (by decide)) .nil)
                        (.stop (by decide)) .nil)))
                  (.stop (by decide))))
                .nil))
            (.cons (o1 := [eSE]) (o2 := []) gSE .nil))))
      (.stop (by decide))))
    (.cons (o1 := [eGE]) (o2 := []) gGE .nil)

example : RunErrAt WalkerGen.exK exRootR 0 exCnt0 [0, 1, 0] [eST, eBHT, eHL] eNM1 ([eSE, eGE] ++ exOut2 ++ [])
    (ErrKind.mandatoryMissing, [0, 1, 1, 2, 0, 1]) :=
  mandatory_missing_reported WalkerGen.exK exRootR 0 _ (by decide +kernel) (by decide +kernel) (a := 0) (g := 1)
    (isaSeg := exISA) (gsSeg := exGS) rfl rfl rfl rfl (by intro j c hj; omega) (by intro j c h1 h2; omega)
    exH3c exDeriv2 .nil

example : runErrAtb WalkerGen.exK exRootR 0 exCnt0 [0, 1, 0] [eST, eBHT, eHL] eNM1 ([eSE, eGE] ++ exOut2)
    (ErrKind.mandatoryMissing, [0, 1, 1, 2, 0, 1]) = true := by decide +kernel

/-! #### the false corners, on concrete witness skeletons -/

/-- **witness for the excluded corner of (3)** (finding "unreported when only the first segment precedes a repeat of
    the loop"): in `ST BHT HL HL DTP NM1 SE GE IEA` the first 2000 instance consists of HL only, its required DTP is
    left out and the next segment opens the next 2000 instance — the model accepts the whole sequence, every step
    answered with the intended node and NO error -/
theorem mandatory_missing_unreported_witness :
    runOKb WalkerGen.exK exRootR 0 exCnt0 [0, 1, 0] ([eST, eBHT, eHL, eHL2, eDTP, eNM1, eSE, eGE] ++ exOut2) = true := by
  decide +kernel

/-- the conformant document the witness is obtained from: `ST BHT HL DTP HL DTP NM1 SE GE` -/
theorem exConformantR : GenList WalkerGen.exK [0, 1] 1 [exSTLOOPr, exGE]
    ([eST, eBHT, eHL] ++ eDTP :: [eHL2, eDTP, eNM1, eSE, eGE]) :=
  .cons (o1 := [eST, eBHT, eHL, eDTP, eHL2, eDTP, eNM1, eSE]) (o2 := [eGE])
    (.counted rfl (.more (o1 := [eST, eBHT, eHL, eDTP, eHL2, eDTP, eNM1, eSE]) (o2 := []) (by decide) (by decide)
      (.loop (s := sd 15 0 0) rfl (by decide +kernel)
        (.cons (o1 := [eBHT]) (o2 := [eHL, eDTP, eHL2, eDTP, eNM1, eSE]) gHEADER0
          (.cons (o1 := [eHL, eDTP, eHL2, eDTP, eNM1]) (o2 := [eSE])
            (.wrapper rfl (by decide)
              (.cons (o1 := [eHL, eDTP, eHL2, eDTP, eNM1]) (o2 := [])
                (.counted rfl
                  (.more (o1 := [eHL, eDTP]) (o2 := [eHL2, eDTP, eNM1]) (by decide) (by decide)
                    (.loop (s := sd 2 1 201) rfl (by decide +kernel)
                      (.cons (o1 := [eDTP]) (o2 := []) (genChild_seg1 (by decide +kernel) (by decide) (by decide))
                        (.cons (o1 := []) (o2 := []) (genChild_none rfl (by decide)) .nil)))
                    (.more (o1 := [eHL2, eDTP, eNM1]) (o2 := []) (by decide) (by decide)
                      (.loop (s := sd 2 2 201) rfl (by decide +kernel)
                        (.cons (o1 := [eDTP]) (o2 := [eNM1]) (genChild_seg1 (by decide +kernel) (by decide) (by decide))
                          (.cons (o1 := [eNM1]) (o2 := [])
                            (.counted rfl
                              (.more (o1 := [eNM1]) (o2 := []) (by decide) (by decide)
                                (.loop (s := sd 22 301 0) rfl (by decide +kernel)
                                  (.cons (o1 := []) (o2 := []) (genChild_none rfl (by decide)) .nil))
                                (.stop (by decide))))
                            .nil)))
                      (.stop (by decide)))))
                .nil))
            (.cons (o1 := [eSE]) (o2 := []) gSE .nil))))
      (.stop (by decide))))
    (.cons (o1 := [eGE]) (o2 := []) gGE .nil)

/-- hence the unrestricted statement is false in the model (as it is in pyx12: the finding) -/
theorem mandatory_missing_reported_full_false : ¬ mandatory_missing_reported_full := by
  intro hfull
  have := hfull WalkerGen.exK exRootR 0 (by decide +kernel) (by decide +kernel) (a := 0) (g := 1) (isaSeg := exISA)
    (gsSeg := exGS) rfl rfl rfl rfl [eST, eBHT, eHL] [0, 1, 1, 2, 0, 1] (sd 23 401 0) [eHL2, eDTP, eNM1, eSE, eGE] exDTPr
    exConformantR rfl rfl rfl rfl (by decide)
  apply this
  apply runOK_of_b
  decide +kernel

/-- **further corner of (3), same mechanism as the flush by position**: `_flush_mandatory_segs(errh, child.pos)`
    compares positions of nodes of DIFFERENT loops.  Skeleton = `exRoot` with SE moved to the position of GE (30): in
    `ST BHT HL NM1 GE IEA` the missing SE is still pending after the step on GE (its position equals GE's), the next
    call starts with an empty list, and no error is ever raised (this is why `TList.hitSeg` asks for another position
    also across levels) -/
def exSEp : Node := .seg 24 0 30 0 1 [] [elAN 1]
def exRootP : List Node :=
  [.loop 10 1 0 1 false
    [exISA, .loop 12 20 0 0 false [exGS, .loop 14 20 0 0 false [exST, exHEADER, exDETAIL, exSEp], exGE], exIEA]]

theorem mandatory_missing_same_position_witness :
    WFMap exRootP = true ∧ Unambiguous WalkerGen.exK exRootP = true ∧
    (walk WalkerGen.exK exRootP 0 (runCnt WalkerGen.exK exRootP 0 exCnt0 [0, 1, 0] [eST, eBHT, eHL, eNM1]) eNM1.1 eGE.2).node
      = some [0, 1, 2] ∧
    (walk WalkerGen.exK exRootP 0 (runCnt WalkerGen.exK exRootP 0 exCnt0 [0, 1, 0] [eST, eBHT, eHL, eNM1]) eNM1.1 eGE.2).st.errs
      = [] ∧
    (walk WalkerGen.exK exRootP 0
      (walk WalkerGen.exK exRootP 0 (runCnt WalkerGen.exK exRootP 0 exCnt0 [0, 1, 0] [eST, eBHT, eHL, eNM1]) eNM1.1 eGE.2).st.cnt
      [0, 1, 2] (sd 26 0 0)).st.errs = [] := by
  decide +kernel

/-! a skeleton with a loop `L` of `repeat` 1 whose nested loop `M` holds a segment with the id of `L`'s first segment -/
def wA : Node := .seg 30 0 10 0 1 [] [elAN 1]
def wB : Node := .seg 31 0 10 0 1 [] [elAN 1]
def wA' : Node := .seg 30 0 20 1 1 [] [elAN 1]
def wM : Node := .loop 41 20 1 0 false [wB, wA']
def wL : Node := .loop 40 20 1 1 false [wA, wM]
def wGSLOOP : Node := .loop 12 20 0 0 false [exGS, wL, exGE]
def wRoot : List Node := [.loop 10 1 0 1 false [exISA, wGSLOOP, exIEA]]

def eA : Emit := ([0, 1, 1, 0], sd 30 0 0)
def eB : Emit := ([0, 1, 1, 1, 0], sd 31 0 0)

/-- `A B A GE`: loop `L` (repeat 1) twice -/
theorem wX : XList WalkerGen.exK (ErrKind.loopMaxCount, [0, 1, 1]) [0, 1] 1 [wL, exGE] [eA, eB] eA [eGE] :=
  .here (pre := [eA, eB]) (post := []) (o2 := [eGE])
    (.counted rfl (.later (o1 := [eA, eB]) (pre := []) (by decide) (by decide)
      (.loop (s := sd 30 0 0) rfl (by decide +kernel)
        (.cons (o1 := [eB]) (o2 := [])
          (.counted rfl (.more (o1 := [eB]) (o2 := []) (by decide) (by decide)
            (.loop (s := sd 31 0 0) rfl (by decide +kernel)
              (.cons (o1 := []) (o2 := []) (genChild_none rfl (by decide)) .nil))
            (.stop (by decide))))
          .nil))
      (.over (x := eA) (post := []) (by decide) (by decide) rfl
        (.loop (s := sd 30 0 0) rfl (by decide +kernel)
          (.cons (o1 := []) (o2 := []) (genChild_none rfl (by decide)) .nil))
        rfl)))
    (.cons (o1 := [eGE]) (o2 := []) gGE .nil)

/-- **witness for the hypothesis `sfList` of (2)**: the skeleton is well-formed and `Unambiguous`, but not `sfList`; the
    second `A` is answered with the node `A'` inside the nested loop `M`, not with `L`'s first segment, and without
    any error: the surplus instance of `L` goes unreported -/
theorem loop_repeat_unreported_witness :
    WFMap wRoot = true ∧ Unambiguous WalkerGen.exK wRoot = true ∧ sfList WalkerGen.exK wRoot = false ∧
    (walk WalkerGen.exK wRoot 0 (runCnt WalkerGen.exK wRoot 0 exCnt0 [0, 1, 0] [eA, eB]) eB.1 eA.2).node = some [0, 1, 1, 1, 1] ∧
    (walk WalkerGen.exK wRoot 0 (runCnt WalkerGen.exK wRoot 0 exCnt0 [0, 1, 0] [eA, eB]) eB.1 eA.2).st.errs = [] := by
  decide +kernel

theorem loop_repeat_reported_full_false : ¬ loop_repeat_reported_full := by
  intro hfull
  have := hfull WalkerGen.exK wRoot 0 [0, 1, 1] (by decide +kernel) (by decide +kernel) (a := 0) (g := 1) (isaSeg := exISA)
    (gsSeg := exGS) rfl rfl rfl rfl (by intro j c hj; omega) (by intro j c h1 h2; omega) wX exDeriv2 .nil
  have h2 := this.2.1
  revert h2
  decide +kernel

end Pyx12Verif.C03
