/-
C03 — every single injected fault is rejected and localised: the element-level and syntax-note part.

Every fault kind of the catalogue that is decided inside one segment is a statement about the models
of `element_if.is_valid` (Model/ElemValid.lean, C15) and `is_syntax_valid` + its routing
(Model/Syntax.lean, C14):

* detection  `fault_k_detected`  — the fault, described on the *spec* side (the X12 value languages of
  C13, effective length, declared code list, presence of positions), forces the standard code `k`
  into the list of codes the model reports, for every definition and every value;
* isolation  `fault_k_isolated`  — when the value is otherwise admissible the reported codes are
  exactly `{k}`; in general (`fault_isolated`) they are exactly the implied set `Spec d ctx v`.

The walker part (unknown segment; the local steps for max_use, repeat, mandatory segment) is at the end of this
file, with the lemmas in Proofs/C03Walker.lean.
-/
import Pyx12Verif.Props.C15
import Pyx12Verif.Props.C14
import Pyx12Verif.Proofs.C03Walker
import Pyx12Verif.Props.C02

namespace Pyx12Verif.C03
open Pyx12Verif.ElemValid Pyx12Verif.Validation

/-! ### the clauses of "the value meets the definition", one by one -/

/-- not too short -/
def LenLo (d : ElemDef) (v : List Char) : Prop := ∃ n, LenOf d.dataType v n ∧ d.minLen ≤ n
/-- not too long -/
def LenHi (d : ElemDef) (v : List Char) : Prop := ∃ n, LenOf d.dataType v n ∧ n ≤ d.maxLen
def NoBlanks (d : ElemDef) (v : List Char) : Prop := ¬ (TextType d.dataType ∧ NeedlessBlanks d.minLen v)
def CodesOk (d : ElemDef) (ctx : Ctx) (v : List Char) : Prop := DeclaresCodes d → InCodes d ctx v
def LangOk (d : ElemDef) (ctx : Ctx) (v : List Char) : Prop :=
  InLang d.dataType (pickCharset ctx.extended ctx.v5010) v
def TlOk (d : ElemDef) (ctx : Ctx) (v : List Char) : Prop :=
  d.typeList ≠ [] → InSomeLang d.typeList ctx.extended v
def ReOk (d : ElemDef) (ctx : Ctx) : Prop := d.hasRegex = true → ctx.regexFound = true

/-- the faults of the catalogue, spec side -/
def TooLong (d : ElemDef) (v : List Char) : Prop := ∃ n, LenOf d.dataType v n ∧ d.maxLen < n
def TooShort (d : ElemDef) (v : List Char) : Prop := ∃ n, LenOf d.dataType v n ∧ n < d.minLen
def OutsideCodes (d : ElemDef) (ctx : Ctx) (v : List Char) : Prop := DeclaresCodes d ∧ ¬ InCodes d ctx v

theorem lenOf_unique (ty v : List Char) (n m : Nat) (h1 : LenOf ty v n) (h2 : LenOf ty v m) : n = m := by
  rw [effLen_spec] at h1 h2; rw [h1, h2]

theorem not_tooShort_of_lenLo (d : ElemDef) (v : List Char) (h : LenLo d v) : ¬ TooShort d v := by
  rintro ⟨n, hn, hlt⟩
  obtain ⟨m, hm, hle⟩ := h
  have := lenOf_unique _ _ _ _ hn hm
  omega

theorem not_tooLong_of_lenHi (d : ElemDef) (v : List Char) (h : LenHi d v) : ¬ TooLong d v := by
  rintro ⟨n, hn, hlt⟩
  obtain ⟨m, hm, hle⟩ := h
  have := lenOf_unique _ _ _ _ hn hm
  omega

/-- the codes reported for a present value of a usable element -/
theorem codes_present (d : ElemDef) (ctx : Ctx) (v : List Char) (hv : v ≠ []) (hu : d.usage ≠ .N) (c : Code) :
    c ∈ (elemValid d ctx (some v)).2 ↔ ValueSpec d ctx v c := by
  rw [elemErrors_spec_opt]
  simp [toInput, Spec, hv, hu]

/-! ### detection: the fault forces its standard code (all definitions, all values) -/

/-- element too long ⇒ 5 -/
theorem fault_too_long_detected (d : ElemDef) (ctx : Ctx) (v : List Char) (hv : v ≠ []) (hu : d.usage ≠ .N)
    (h : TooLong d v) : 5 ∈ (elemValid d ctx (some v)).2 :=
  (codes_present d ctx v hv hu 5).2 (Or.inr (Or.inl ⟨rfl, h⟩))

/-- the same with the length the code computes: `len(v)` without `-` and `.` for numbers -/
theorem fault_too_long_detected_effLen (d : ElemDef) (ctx : Ctx) (v : List Char) (hv : v ≠ []) (hu : d.usage ≠ .N)
    (h : effLen d.dataType v > d.maxLen) : 5 ∈ (elemValid d ctx (some v)).2 :=
  fault_too_long_detected d ctx v hv hu ⟨_, (effLen_spec _ _ _).2 rfl, h⟩

/-- element too short ⇒ 4 -/
theorem fault_too_short_detected (d : ElemDef) (ctx : Ctx) (v : List Char) (hv : v ≠ []) (hu : d.usage ≠ .N)
    (h : TooShort d v) : 4 ∈ (elemValid d ctx (some v)).2 :=
  (codes_present d ctx v hv hu 4).2 (Or.inl ⟨rfl, h⟩)

/-- value outside the declared code list (inline list and external set) ⇒ 7 -/
theorem fault_not_in_codes_detected (d : ElemDef) (ctx : Ctx) (v : List Char) (hv : v ≠ []) (hu : d.usage ≠ .N)
    (hc : ¬ HasControl v) (h : OutsideCodes d ctx v) : 7 ∈ (elemValid d ctx (some v)).2 :=
  (codes_present d ctx v hv hu 7).2 (Or.inr (Or.inr (Or.inr ⟨hc, Or.inr (Or.inl ⟨rfl, h.1, h.2⟩)⟩)))

/-- wrong character class (value not in the language of a type that is neither a date nor a time) ⇒ 6;
    a control character gives 6 as well, so no side condition on the characters is needed -/
theorem fault_wrong_class_detected (d : ElemDef) (ctx : Ctx) (v : List Char) (hv : v ≠ []) (hu : d.usage ≠ .N)
    (hty : ¬ DateType d.dataType ∧ d.dataType ≠ tyTM) (h : ¬ LangOk d ctx v) :
    6 ∈ (elemValid d ctx (some v)).2 := by
  rw [codes_present d ctx v hv hu]
  by_cases hc : HasControl v
  · exact Or.inr (Or.inr (Or.inl ⟨hc, rfl⟩))
  · exact Or.inr (Or.inr (Or.inr ⟨hc, Or.inr (Or.inr (Or.inl ⟨h, Or.inr (Or.inr ⟨rfl, hty.1, hty.2⟩)⟩))⟩))

/-- impossible date in an element of a date type ⇒ 8 -/
theorem fault_bad_date_detected (d : ElemDef) (ctx : Ctx) (v : List Char) (hv : v ≠ []) (hu : d.usage ≠ .N)
    (hc : ¬ HasControl v) (hty : DateType d.dataType) (h : ¬ LangOk d ctx v) :
    8 ∈ (elemValid d ctx (some v)).2 :=
  (codes_present d ctx v hv hu 8).2
    (Or.inr (Or.inr (Or.inr ⟨hc, Or.inr (Or.inr (Or.inl ⟨h, Or.inl ⟨rfl, hty⟩⟩))⟩)))

/-- impossible date where the format is selected by a qualifier (DTP02 / data element 1250) ⇒ 8 -/
theorem fault_bad_date_by_qualifier_detected (d : ElemDef) (ctx : Ctx) (v : List Char) (hv : v ≠ [])
    (hu : d.usage ≠ .N) (hc : ¬ HasControl v) (hne : d.typeList ≠ []) (hTM : tyTM ∉ d.typeList)
    (hdate : ∃ t ∈ d.typeList, DateType t) (h : ¬ InSomeLang d.typeList ctx.extended v) :
    8 ∈ (elemValid d ctx (some v)).2 :=
  (codes_present d ctx v hv hu 8).2
    (Or.inr (Or.inr (Or.inr ⟨hc, Or.inr (Or.inr (Or.inr (Or.inl ⟨hne, h, Or.inr ⟨rfl, hTM, hdate⟩⟩)))⟩)))

/-- impossible time ⇒ 9 -/
theorem fault_bad_time_detected (d : ElemDef) (ctx : Ctx) (v : List Char) (hv : v ≠ []) (hu : d.usage ≠ .N)
    (hc : ¬ HasControl v) (hty : d.dataType = tyTM) (h : ¬ LangOk d ctx v) :
    9 ∈ (elemValid d ctx (some v)).2 :=
  (codes_present d ctx v hv hu 9).2
    (Or.inr (Or.inr (Or.inr ⟨hc, Or.inr (Or.inr (Or.inl ⟨h, Or.inr (Or.inl ⟨rfl, hty⟩)⟩))⟩)))

/-- impossible time where the format is selected by a qualifier ⇒ 9 -/
theorem fault_bad_time_by_qualifier_detected (d : ElemDef) (ctx : Ctx) (v : List Char) (hv : v ≠ [])
    (hu : d.usage ≠ .N) (hc : ¬ HasControl v) (hTM : tyTM ∈ d.typeList)
    (h : ¬ InSomeLang d.typeList ctx.extended v) : 9 ∈ (elemValid d ctx (some v)).2 :=
  (codes_present d ctx v hv hu 9).2
    (Or.inr (Or.inr (Or.inr ⟨hc, Or.inr (Or.inr (Or.inr (Or.inl
      ⟨List.ne_nil_of_mem hTM, h, Or.inl ⟨rfl, hTM⟩⟩)))⟩)))

/-- required element absent or empty ⇒ 1 (except the first sub-element of an optional composite, for which the
    element spec implies nothing) -/
theorem fault_missing_required_detected (d : ElemDef) (ctx : Ctx) (v : Option (List Char))
    (hv : v = none ∨ v = some []) (hu : d.usage = .R) (hf : ¬ FirstOfOptionalComposite d) :
    1 ∈ (elemValid d ctx v).2 := by
  rw [elemErrors_spec_opt]
  rcases hv with rfl | rfl <;> simp [toInput, Spec, EmptySpec, hu, hf]

/-- a value in a not-used element ⇒ 10, and nothing else whatever the value is -/
theorem fault_not_used_detected (d : ElemDef) (ctx : Ctx) (v : List Char) (hv : v ≠ []) (hu : d.usage = .N) :
    (elemValid d ctx (some v)) = (false, [10]) := by
  have : v.isEmpty = false := by simpa using hv
  simp [elemValid, toInput, elemValidIn, this, hu]

/-- in every case above the element is rejected: a reported code makes the result `False` -/
theorem fault_rejected (d : ElemDef) (ctx : Ctx) (v : Option (List Char)) (c : Code)
    (h : c ∈ (elemValid d ctx v).2) : (elemValid d ctx v).1 = false :=
  error_imp_false d ctx (toInput v) (by intro e; rw [elemValid, e] at h; exact absurd h (by simp))

/-! ### "impossible" dates and times are outside the C13 languages -/

theorem month_out_of_range_not_date8 (s : List Char) (h : 12 < num ((s.drop 4).take 2)) : ¬ IsDate8 s := by
  rintro ⟨_, _, _, _, hm, _⟩; omega

theorem day_out_of_range_not_date8 (s : List Char)
    (h : daysIn (num (s.take 4)) (num ((s.drop 4).take 2)) < num ((s.drop 6).take 2)) : ¬ IsDate8 s := by
  rintro ⟨_, _, _, _, _, _, hd⟩; omega

theorem month_out_of_range_not_date6 (s : List Char) (h : 12 < num ((s.drop 2).take 2)) : ¬ IsDate6 s := by
  rintro ⟨_, _, _, _, hm, _⟩; omega

theorem hour_out_of_range_not_time (s : List Char) (h : 23 < num (s.take 2)) : ¬ IsTime s := by
  rintro ⟨_, _, hh, _⟩; omega

theorem minute_out_of_range_not_time (s : List Char) (h : 59 < num ((s.drop 2).take 2)) : ¬ IsTime s := by
  rintro ⟨_, _, _, hm, _⟩; omega

theorem not_langOk_D8 (d : ElemDef) (ctx : Ctx) (v : List Char) (hty : d.dataType = tyD8) (h : ¬ IsDate8 v) :
    ¬ LangOk d ctx v := by
  unfold LangOk InLang
  rw [hty]
  simp [tyD8, tyR, tyID, tyAN, tyRD8, tyDT, tyD6, tyTM, h]

theorem not_langOk_TM (d : ElemDef) (ctx : Ctx) (v : List Char) (hty : d.dataType = tyTM) (h : ¬ IsTime v) :
    ¬ LangOk d ctx v := by
  unfold LangOk InLang
  rw [hty]
  simp [tyD8, tyR, tyID, tyAN, tyRD8, tyDT, tyD6, tyTM, h]

/-- a D8 element whose month field exceeds 12 draws code 8 -/
theorem fault_month13_detected (d : ElemDef) (ctx : Ctx) (v : List Char) (hv : v ≠ []) (hu : d.usage ≠ .N)
    (hc : ¬ HasControl v) (hty : d.dataType = tyD8) (h : 12 < num ((v.drop 4).take 2)) :
    8 ∈ (elemValid d ctx (some v)).2 :=
  fault_bad_date_detected d ctx v hv hu hc (by rw [hty]; exact Or.inr (Or.inr (Or.inl rfl)))
    (not_langOk_D8 d ctx v hty (month_out_of_range_not_date8 v h))

/-- a TM element whose hour field exceeds 23 draws code 9 -/
theorem fault_hour24_detected (d : ElemDef) (ctx : Ctx) (v : List Char) (hv : v ≠ []) (hu : d.usage ≠ .N)
    (hc : ¬ HasControl v) (hty : d.dataType = tyTM) (h : 23 < num (v.take 2)) :
    9 ∈ (elemValid d ctx (some v)).2 :=
  fault_bad_time_detected d ctx v hv hu hc hty (not_langOk_TM d ctx v hty (hour_out_of_range_not_time v h))

/-! ### isolation: nothing but the implied codes is reported -/

/-- general form: whatever was injected, the reported codes are exactly the set the definition implies for the
    faulty value (`Spec`, C15) — no code beyond the implied set, none of it missing -/
theorem fault_isolated (d : ElemDef) (ctx : Ctx) (v : Option (List Char)) (c : Code) :
    c ∈ (elemValid d ctx v).2 ↔ Spec d ctx (toInput v) c :=
  elemErrors_spec_opt d ctx v c

/-- the other clauses of admissibility, as one hypothesis bundle -/
structure Otherwise (d : ElemDef) (ctx : Ctx) (v : List Char) : Prop where
  noControl : ¬ HasControl v
  noBlanks : NoBlanks d v
  re : ReOk d ctx

theorem valueSpec_clauses (d : ElemDef) (ctx : Ctx) (v : List Char) (o : Otherwise d ctx v) (c : Code) :
    ValueSpec d ctx v c ↔
      (c = 4 ∧ TooShort d v) ∨ (c = 5 ∧ TooLong d v) ∨ (c = 7 ∧ OutsideCodes d ctx v) ∨
      (¬ LangOk d ctx v ∧ WrongTypeCode d.dataType c) ∨
      (d.typeList ≠ [] ∧ ¬ InSomeLang d.typeList ctx.extended v ∧
        ((c = 9 ∧ tyTM ∈ d.typeList) ∨ (c = 8 ∧ tyTM ∉ d.typeList ∧ ∃ t ∈ d.typeList, DateType t))) := by
  obtain ⟨hc, hb, hr⟩ := o
  have hr' : ¬ (d.hasRegex = true ∧ ctx.regexFound = false) := by
    rintro ⟨a, b⟩; have := hr a; simp_all
  unfold ValueSpec TooShort TooLong OutsideCodes LangOk
  unfold NoBlanks at hb
  constructor
  · rintro (h | h | ⟨h, _⟩ | ⟨_, h | h | h | h | h⟩)
    · exact Or.inl h
    · exact Or.inr (Or.inl h)
    · exact absurd h hc
    · exact absurd h.2 hb
    · exact Or.inr (Or.inr (Or.inl h))
    · exact Or.inr (Or.inr (Or.inr (Or.inl h)))
    · exact Or.inr (Or.inr (Or.inr (Or.inr h)))
    · exact absurd h.2 hr'
  · rintro (h | h | h | h | h)
    · exact Or.inl h
    · exact Or.inr (Or.inl h)
    · exact Or.inr (Or.inr (Or.inr ⟨hc, Or.inr (Or.inl h)⟩))
    · exact Or.inr (Or.inr (Or.inr ⟨hc, Or.inr (Or.inr (Or.inl h))⟩))
    · exact Or.inr (Or.inr (Or.inr ⟨hc, Or.inr (Or.inr (Or.inr (Or.inl h)))⟩))

/-- only too long ⇒ exactly {5} -/
theorem fault_too_long_isolated (d : ElemDef) (ctx : Ctx) (v : List Char) (hv : v ≠ []) (hu : d.usage ≠ .N)
    (o : Otherwise d ctx v) (h : TooLong d v) (h1 : LenLo d v) (h2 : CodesOk d ctx v) (h3 : LangOk d ctx v)
    (h4 : TlOk d ctx v) (c : Code) : c ∈ (elemValid d ctx (some v)).2 ↔ c = 5 := by
  rw [codes_present d ctx v hv hu, valueSpec_clauses d ctx v o]
  have n1 := not_tooShort_of_lenLo d v h1
  have n2 : ¬ OutsideCodes d ctx v := fun x => x.2 (h2 x.1)
  have n4 : ¬ (d.typeList ≠ [] ∧ ¬ InSomeLang d.typeList ctx.extended v) := fun x => x.2 (h4 x.1)
  constructor
  · rintro (x | x | x | x | ⟨a, b, _⟩)
    · exact absurd x.2 n1
    · exact x.1
    · exact absurd x.2 n2
    · exact absurd h3 x.1
    · exact absurd ⟨a, b⟩ n4
  · rintro rfl; exact Or.inr (Or.inl ⟨rfl, h⟩)

/-- only too short ⇒ exactly {4} -/
theorem fault_too_short_isolated (d : ElemDef) (ctx : Ctx) (v : List Char) (hv : v ≠ []) (hu : d.usage ≠ .N)
    (o : Otherwise d ctx v) (h : TooShort d v) (h1 : LenHi d v) (h2 : CodesOk d ctx v) (h3 : LangOk d ctx v)
    (h4 : TlOk d ctx v) (c : Code) : c ∈ (elemValid d ctx (some v)).2 ↔ c = 4 := by
  rw [codes_present d ctx v hv hu, valueSpec_clauses d ctx v o]
  have n1 := not_tooLong_of_lenHi d v h1
  have n2 : ¬ OutsideCodes d ctx v := fun x => x.2 (h2 x.1)
  have n4 : ¬ (d.typeList ≠ [] ∧ ¬ InSomeLang d.typeList ctx.extended v) := fun x => x.2 (h4 x.1)
  constructor
  · rintro (x | x | x | x | ⟨a, b, _⟩)
    · exact x.1
    · exact absurd x.2 n1
    · exact absurd x.2 n2
    · exact absurd h3 x.1
    · exact absurd ⟨a, b⟩ n4
  · rintro rfl; exact Or.inl ⟨rfl, h⟩

/-- only outside the code list ⇒ exactly {7} -/
theorem fault_not_in_codes_isolated (d : ElemDef) (ctx : Ctx) (v : List Char) (hv : v ≠ []) (hu : d.usage ≠ .N)
    (o : Otherwise d ctx v) (h : OutsideCodes d ctx v) (h0 : LenLo d v) (h1 : LenHi d v) (h3 : LangOk d ctx v)
    (h4 : TlOk d ctx v) (c : Code) : c ∈ (elemValid d ctx (some v)).2 ↔ c = 7 := by
  rw [codes_present d ctx v hv hu, valueSpec_clauses d ctx v o]
  have n0 := not_tooShort_of_lenLo d v h0
  have n1 := not_tooLong_of_lenHi d v h1
  have n4 : ¬ (d.typeList ≠ [] ∧ ¬ InSomeLang d.typeList ctx.extended v) := fun x => x.2 (h4 x.1)
  constructor
  · rintro (x | x | x | x | ⟨a, b, _⟩)
    · exact absurd x.2 n0
    · exact absurd x.2 n1
    · exact x.1
    · exact absurd h3 x.1
    · exact absurd ⟨a, b⟩ n4
  · rintro rfl; exact Or.inr (Or.inr (Or.inl ⟨rfl, h⟩))

/-- only outside the language of the declared type ⇒ exactly the type's code: 8 for a date type, 9 for TM,
    6 otherwise (wrong character class) -/
theorem fault_wrong_type_isolated (d : ElemDef) (ctx : Ctx) (v : List Char) (hv : v ≠ []) (hu : d.usage ≠ .N)
    (o : Otherwise d ctx v) (h : ¬ LangOk d ctx v) (h0 : LenLo d v) (h1 : LenHi d v) (h2 : CodesOk d ctx v)
    (h4 : TlOk d ctx v) (c : Code) : c ∈ (elemValid d ctx (some v)).2 ↔ WrongTypeCode d.dataType c := by
  rw [codes_present d ctx v hv hu, valueSpec_clauses d ctx v o]
  have n0 := not_tooShort_of_lenLo d v h0
  have n1 := not_tooLong_of_lenHi d v h1
  have n2 : ¬ OutsideCodes d ctx v := fun x => x.2 (h2 x.1)
  have n4 : ¬ (d.typeList ≠ [] ∧ ¬ InSomeLang d.typeList ctx.extended v) := fun x => x.2 (h4 x.1)
  constructor
  · rintro (x | x | x | x | ⟨a, b, _⟩)
    · exact absurd x.2 n0
    · exact absurd x.2 n1
    · exact absurd x.2 n2
    · exact x.2
    · exact absurd ⟨a, b⟩ n4
  · intro x; exact Or.inr (Or.inr (Or.inr (Or.inl ⟨h, x⟩)))

theorem fault_wrong_class_isolated (d : ElemDef) (ctx : Ctx) (v : List Char) (hv : v ≠ []) (hu : d.usage ≠ .N)
    (o : Otherwise d ctx v) (hty : ¬ DateType d.dataType ∧ d.dataType ≠ tyTM) (h : ¬ LangOk d ctx v)
    (h0 : LenLo d v) (h1 : LenHi d v) (h2 : CodesOk d ctx v) (h4 : TlOk d ctx v) (c : Code) :
    c ∈ (elemValid d ctx (some v)).2 ↔ c = 6 := by
  rw [fault_wrong_type_isolated d ctx v hv hu o h h0 h1 h2 h4]
  unfold WrongTypeCode
  constructor
  · rintro (x | x | x)
    · exact absurd x.2 hty.1
    · exact absurd x.2 hty.2
    · exact x.1
  · rintro rfl; exact Or.inr (Or.inr ⟨rfl, hty.1, hty.2⟩)

theorem fault_bad_date_isolated (d : ElemDef) (ctx : Ctx) (v : List Char) (hv : v ≠ []) (hu : d.usage ≠ .N)
    (o : Otherwise d ctx v) (hty : DateType d.dataType) (h : ¬ LangOk d ctx v)
    (h0 : LenLo d v) (h1 : LenHi d v) (h2 : CodesOk d ctx v) (h4 : TlOk d ctx v) (c : Code) :
    c ∈ (elemValid d ctx (some v)).2 ↔ c = 8 := by
  rw [fault_wrong_type_isolated d ctx v hv hu o h h0 h1 h2 h4]
  have hne : d.dataType ≠ tyTM := by
    rcases hty with e | e | e | e <;> rw [e] <;> decide
  unfold WrongTypeCode
  constructor
  · rintro (x | x | x)
    · exact x.1
    · exact absurd x.2 hne
    · exact absurd hty x.2.1
  · rintro rfl; exact Or.inl ⟨rfl, hty⟩

theorem fault_bad_time_isolated (d : ElemDef) (ctx : Ctx) (v : List Char) (hv : v ≠ []) (hu : d.usage ≠ .N)
    (o : Otherwise d ctx v) (hty : d.dataType = tyTM) (h : ¬ LangOk d ctx v)
    (h0 : LenLo d v) (h1 : LenHi d v) (h2 : CodesOk d ctx v) (h4 : TlOk d ctx v) (c : Code) :
    c ∈ (elemValid d ctx (some v)).2 ↔ c = 9 := by
  rw [fault_wrong_type_isolated d ctx v hv hu o h h0 h1 h2 h4]
  have hnd : ¬ DateType d.dataType := by
    rw [hty]; unfold DateType; decide
  unfold WrongTypeCode
  constructor
  · rintro (x | x | x)
    · exact absurd x.2 hnd
    · exact x.1
    · exact absurd hty x.2.2
  · rintro rfl; exact Or.inr (Or.inl ⟨rfl, hty⟩)

/-- a qualifier-selected date/time format missed, everything else fine ⇒ exactly {9} (TM listed) or {8} -/
theorem fault_by_qualifier_isolated (d : ElemDef) (ctx : Ctx) (v : List Char) (hv : v ≠ []) (hu : d.usage ≠ .N)
    (o : Otherwise d ctx v) (hne : d.typeList ≠ []) (h : ¬ InSomeLang d.typeList ctx.extended v)
    (hwf : tyTM ∈ d.typeList ∨ ∃ t ∈ d.typeList, DateType t)
    (h0 : LenLo d v) (h1 : LenHi d v) (h2 : CodesOk d ctx v) (h3 : LangOk d ctx v) (c : Code) :
    c ∈ (elemValid d ctx (some v)).2 ↔ c = (if tyTM ∈ d.typeList then 9 else 8) := by
  rw [codes_present d ctx v hv hu, valueSpec_clauses d ctx v o]
  have n0 := not_tooShort_of_lenLo d v h0
  have n1 := not_tooLong_of_lenHi d v h1
  have n2 : ¬ OutsideCodes d ctx v := fun x => x.2 (h2 x.1)
  by_cases hTM : tyTM ∈ d.typeList
  · rw [if_pos hTM]
    constructor
    · rintro (x | x | x | x | ⟨_, _, x | x⟩)
      · exact absurd x.2 n0
      · exact absurd x.2 n1
      · exact absurd x.2 n2
      · exact absurd h3 x.1
      · exact x.1
      · exact absurd hTM x.2.1
    · rintro rfl; exact Or.inr (Or.inr (Or.inr (Or.inr ⟨hne, h, Or.inl ⟨rfl, hTM⟩⟩)))
  · rw [if_neg hTM]
    have hd : ∃ t ∈ d.typeList, DateType t := by
      rcases hwf with x | x
      · exact absurd x hTM
      · exact x
    constructor
    · rintro (x | x | x | x | ⟨_, _, x | x⟩)
      · exact absurd x.2 n0
      · exact absurd x.2 n1
      · exact absurd x.2 n2
      · exact absurd h3 x.1
      · exact absurd x.2 hTM
      · exact x.1
    · rintro rfl; exact Or.inr (Or.inr (Or.inr (Or.inr ⟨hne, h, Or.inr ⟨rfl, hTM, hd⟩⟩)))

/-- required element missing ⇒ exactly {1} -/
theorem fault_missing_required_isolated (d : ElemDef) (ctx : Ctx) (v : Option (List Char))
    (hv : v = none ∨ v = some []) (hu : d.usage = .R) (hf : ¬ FirstOfOptionalComposite d) (c : Code) :
    c ∈ (elemValid d ctx v).2 ↔ c = 1 := by
  rw [elemErrors_spec_opt]
  rcases hv with rfl | rfl <;> simp [toInput, Spec, EmptySpec, hu, hf]

/-- not-used element filled ⇒ exactly {10} -/
theorem fault_not_used_isolated (d : ElemDef) (ctx : Ctx) (v : List Char) (hv : v ≠ []) (hu : d.usage = .N)
    (c : Code) : c ∈ (elemValid d ctx (some v)).2 ↔ c = 10 := by
  rw [fault_not_used_detected d ctx v hv hu]; simp

/-- and where no fault is injected nothing is reported (the conformant value; C15 `admissible_no_error`) -/
theorem no_fault_no_error (d : ElemDef) (ctx : Ctx) (v : Option (List Char)) (h : Admissible d ctx (toInput v)) :
    elemValid d ctx v = (true, []) :=
  admissible_no_error d ctx (toInput v) h

/-! ### composite level (`composite_if.is_valid`, with the guard of fix 5fc3f4f) -/

/-- required composite absent, or present with every component empty ⇒ exactly {2} -/
theorem fault_composite_missing_isolated (kids : List (ElemDef × Ctx)) (data : Option (List (List Char)))
    (h : data = none ∨ ∃ vs, data = some vs ∧ ∀ v ∈ vs, v = []) (c : Code) :
    c ∈ codesOf (compValid true .R kids data) ↔ c = 2 := by
  rw [compErrors_spec]
  rcases h with rfl | ⟨vs, rfl, hv⟩
  · simp [CompSpec]
  · simp only [CompSpec, if_pos hv]; simp

/-- a component in a not-used composite ⇒ exactly {5} -/
theorem fault_composite_not_used_isolated (kids : List (ElemDef × Ctx)) (vs : List (List Char))
    (h : ¬ ∀ v ∈ vs, v = []) (c : Code) : c ∈ codesOf (compValid true .N kids (some vs)) ↔ c = 5 := by
  rw [compErrors_spec]
  simp only [CompSpec, if_neg h, if_true]

/-- more components than the composite declares ⇒ 3 (besides what the declared sub-elements imply) -/
theorem fault_too_many_subelements_detected (usage : Usage) (kids : List (ElemDef × Ctx)) (vs : List (List Char))
    (hu : usage ≠ .N) (hne : ¬ ∀ v ∈ vs, v = []) (h : kids.length < vs.length) :
    3 ∈ codesOf (compValid true usage kids (some vs)) := by
  rw [compErrors_spec]
  simp only [CompSpec, if_neg hne, if_neg hu]
  exact Or.inl (by simp [h])

/-- isolation at composite level: the reported codes are exactly `CompSpec` (C15) of the faulty components -/
theorem fault_composite_isolated (usage : Usage) (kids : List (ElemDef × Ctx)) (data : Option (List (List Char)))
    (c : Code) : c ∈ codesOf (compValid true usage kids data) ↔ CompSpec usage kids data c :=
  compErrors_spec usage kids data c

/-! ### syntax notes: a broken note is reported with code 2 (P R C L) or 10 (E) at its first position -/

open Pyx12Verif.Syn

/-- the element error a violated note is routed to -/
def noteError (n : Note) (k : Nat) : EleErr := ⟨if n.code = 'E' then ['1', '0'] else ['2'], k⟩

/-- detection, whole loop of `segment_if.is_valid`: every violated note of the segment is reported -/
theorem fault_syntax_detected (seg : Seg) (notes : List Note) (hwf : AllWF notes) (n : Note) (hn : n ∈ notes)
    (hv : Violated (Present seg) n.code n.idx) :
    ∃ errs k rest, syntaxErrors seg notes = some errs ∧ n.idx = k :: rest ∧ noteError n k ∈ errs := by
  obtain ⟨errs, he, hspec⟩ := syntaxErrors_spec seg notes hwf
  obtain ⟨hw, _⟩ := hwf n hn
  obtain ⟨c, idx⟩ := n
  cases idx with
  | nil => have := hw.1; simp at this
  | cons k rest =>
    refine ⟨errs, k, rest, he, rfl, ?_⟩
    exact (hspec _).2 ⟨⟨c, k :: rest⟩, hn, hv, rfl, rfl⟩

/-- isolation: when the injected fault breaks exactly the note `n` (every other note of the segment stays
    satisfied) the syntax stage reports exactly one error: `n`'s -/
theorem fault_syntax_isolated (seg : Seg) (notes : List Note) (hwf : AllWF notes) (n : Note) (hn : n ∈ notes)
    (hv : Violated (Present seg) n.code n.idx)
    (hothers : ∀ m ∈ notes, m ≠ n → Satisfied (Present seg) m.code m.idx) :
    ∃ errs k rest, syntaxErrors seg notes = some errs ∧ n.idx = k :: rest ∧ ∀ e, e ∈ errs ↔ e = noteError n k := by
  obtain ⟨errs, he, hspec⟩ := syntaxErrors_spec seg notes hwf
  obtain ⟨hw, _⟩ := hwf n hn
  obtain ⟨c, idx⟩ := n
  cases idx with
  | nil => have := hw.1; simp at this
  | cons k rest =>
    refine ⟨errs, k, rest, he, rfl, fun e => ?_⟩
    rw [hspec e]
    constructor
    · rintro ⟨m, hm, hmv, hcode, hpos⟩
      by_cases hmn : m = ⟨c, k :: rest⟩
      · subst hmn
        obtain ⟨ec, ep⟩ := e
        simp only [List.head?_cons, Option.some.injEq] at hpos
        simp only at hcode
        simp [noteError, hcode, hpos]
      · obtain ⟨hmw, hmk⟩ := hwf m hm
        exact absurd (hothers m hm hmn) ((violated_iff_not_satisfied seg m hmw hmk).1 hmv)
    · rintro rfl
      exact ⟨⟨c, k :: rest⟩, hn, hv, rfl, rfl⟩

/-- the five ways of breaking a note, as the injector does it -/
theorem broken_P (seg : Seg) (idx : List Nat) (a b : Nat) (ha : a ∈ idx) (hb : b ∈ idx)
    (pa : Present seg a) (pb : ¬ Present seg b) : Violated (Present seg) 'P' idx :=
  Or.inl ⟨rfl, ⟨a, ha, pa⟩, ⟨b, hb, pb⟩⟩

theorem broken_R (seg : Seg) (idx : List Nat) (h : ∀ k ∈ idx, ¬ Present seg k) : Violated (Present seg) 'R' idx :=
  Or.inr (Or.inl ⟨rfl, h⟩)

theorem broken_E (seg : Seg) (idx : List Nat) (i j a b : Nat) (hij : i < j) (ha : idx[i]? = some a)
    (hb : idx[j]? = some b) (pa : Present seg a) (pb : Present seg b) : Violated (Present seg) 'E' idx :=
  Or.inr (Or.inr (Or.inl ⟨rfl, i, j, a, b, hij, ha, hb, pa, pb⟩))

theorem broken_C (seg : Seg) (k : Nat) (rest : List Nat) (j : Nat) (hj : j ∈ rest) (pk : Present seg k)
    (pj : ¬ Present seg j) : Violated (Present seg) 'C' (k :: rest) :=
  Or.inr (Or.inr (Or.inr (Or.inl ⟨rfl, k, rest, rfl, pk, j, hj, pj⟩)))

theorem broken_L (seg : Seg) (k : Nat) (rest : List Nat) (pk : Present seg k)
    (h : ∀ j ∈ rest, ¬ Present seg j) : Violated (Present seg) 'L' (k :: rest) :=
  Or.inr (Or.inr (Or.inr (Or.inr ⟨rfl, k, rest, rfl, pk, h⟩)))

/-- per note: the code is 10 for an exclusion note and 2 for the four others (C14 routing theorems) -/
theorem fault_syntax_code (seg : Seg) (n : Note) (hwf : WF n) (hk : Known n.code)
    (hv : Violated (Present seg) n.code n.idx) :
    ∃ k rest, n.idx = k :: rest ∧ routeNote seg n = some [noteError n k] := by
  by_cases hc : n.code = 'E'
  · obtain ⟨k, rest, h1, h2⟩ := route_E_is_10 seg n hwf hc hv
    exact ⟨k, rest, h1, by simp [noteError, hc, h2]⟩
  · obtain ⟨k, rest, h1, h2⟩ := route_other_is_2 seg n hwf hk hc hv
    exact ⟨k, rest, h1, by simp [noteError, hc, h2]⟩

/-! ### non-vacuity: every hypothesis bundle is inhabited, and the conclusions are seen on concrete values -/

/-- `NM103`-like: AN 1..5, required, no codes -/
def exAN : ElemDef :=
  { usage := .R, dataType := tyAN, minLen := 2, maxLen := 5, codes := [], extDeclared := false, hasRegex := false,
    typeList := [], seq := 3, parentComposite := false, parentRequired := true }
def exID : ElemDef := { exAN with dataType := tyID, minLen := 2, maxLen := 2, codes := [['8', '5'], ['4', '0']] }
def exN0 : ElemDef := { exAN with dataType := ['N', '0'], minLen := 1, maxLen := 3 }
def exD8 : ElemDef := { exAN with dataType := tyD8, minLen := 8, maxLen := 8 }
def exTM : ElemDef := { exAN with dataType := tyTM, minLen := 4, maxLen := 8 }
def exNU : ElemDef := { exAN with usage := .N }

example : elemValid exAN exCtx (some "ABCDEF".toList) = (false, [5]) := by decide
example : elemValid exAN exCtx (some "A".toList) = (false, [4]) := by decide
example : elemValid exID exCtx (some "ZZ".toList) = (false, [7]) := by decide
example : elemValid exN0 exCtx (some "A".toList) = (false, [6]) := by decide
example : elemValid exD8 exCtx (some "20201301".toList) = (false, [8]) := by decide
example : elemValid exTM exCtx (some "2500".toList) = (false, [9]) := by decide
example : elemValid exAN exCtx none = (false, [1]) := by decide
example : elemValid exNU exCtx (some "AB".toList) = (false, [10]) := by decide
example : elemValid (exDTP03 [tyD8]) exCtx (some "20201301".toList) = (false, [8]) := by decide
example : elemValid (exDTP03 [tyTM]) exCtx (some "2500".toList) = (false, [9]) := by decide
-- an injection artefact: a too-long date also implies 8 (the implied set is what is reported)
example : elemValid exD8 exCtx (some "202001011".toList) = (false, [5, 8]) := by decide
-- conformant values draw nothing
example : elemValid exAN exCtx (some "ABC".toList) = (true, []) := by decide
example : elemValid exD8 exCtx (some "20200101".toList) = (true, []) := by decide

/-- the hypotheses of `fault_too_long_isolated` are satisfiable (and its conclusion agrees with evaluation) -/
example : ∃ v, v ≠ [] ∧ Otherwise exAN exCtx v ∧ TooLong exAN v ∧ LenLo exAN v ∧ CodesOk exAN exCtx v ∧
    LangOk exAN exCtx v ∧ TlOk exAN exCtx v := by
  have hl : LenOf exAN.dataType "ABCDEF".toList 6 := (effLen_spec _ _ _).2 (by decide)
  have hadm : Admissible { exAN with maxLen := 6 } exCtx (.simple "ABCDEF".toList) :=
    no_error_admissible _ _ _ (Or.inl rfl) (fun c hc => by
      have := (elemErrors_spec { exAN with maxLen := 6 } exCtx (.simple "ABCDEF".toList) c).2 hc
      have e : (elemValidIn { exAN with maxLen := 6 } exCtx (.simple "ABCDEF".toList)).2 = [] := by decide
      rw [e] at this; exact absurd this (by simp))
  have hv : "ABCDEF".toList ≠ [] := by decide
  simp only [Admissible, hv, if_false] at hadm
  obtain ⟨_, _, hctl, hblank, hcodes, hlang, htl, hre⟩ := hadm
  exact ⟨"ABCDEF".toList, hv, ⟨hctl, hblank, hre⟩, ⟨6, hl, by decide⟩, ⟨6, hl, by decide⟩, hcodes, hlang, htl⟩

example : 12 < num (("20201301".toList.drop 4).take 2) := by decide
example : 23 < num ("2500".toList.take 2) := by decide
example : OutsideCodes exID exCtx "ZZ".toList := by
  refine ⟨Or.inl (by decide), ?_⟩
  rintro (h | h)
  · revert h; decide
  · exact absurd h.1 (by decide)

example : compValid true .R exKids (some [[], []]) = .ok false [2] := by decide
example : compValid true .N exKids (some [['1']]) = .ok false [5] := by decide
example : compValid true .R exKids (some [['1'], ['7'], ['X']]) = .ok false [3] := by decide

-- syntax notes: the injector's edits break the note, one error results
example : routeNote [['A'], [], ['X']] ⟨'P', [3, 4]⟩ = some [noteError ⟨'P', [3, 4]⟩ 3] := by decide
example : routeNote [['A'], ['B'], [], [], [], [], ['C']] ⟨'E', [2, 7]⟩ = some [noteError ⟨'E', [2, 7]⟩ 2] := by decide
example : Violated (Present [['A'], [], ['X']]) 'P' [3, 4] :=
  broken_P _ _ 3 4 (by simp) (by simp) ⟨by decide, ['X'], by simp, by simp⟩
    (by rintro ⟨_, v, hv, _⟩; simp at hv)

end Pyx12Verif.C03

/-! ### structural kinds, over the walker model (Model/Walker.lean, unchanged) -/

namespace Pyx12Verif.C03
open Pyx12Verif.Walker Pyx12Verif.MapSkel

/-- **unknown segment.**  A data segment whose id is carried by no segment node of the map (spec side: no index
    path leads to a segment node with that id) is answered, from any start node, with `node = none`, no pops,
    no pushes, an unchanged counter and exactly one error — `notFound` (997 code 1) at the start node. -/
theorem unknown_segment_not_found (k : Consts) (root : List Node) (rootId : Nat) (cnt : Counter) (cur : List Nat)
    (s : SegData) (n : Node) (hno : NoSegWithId root s.sid) (hcur : nodeAt root cur = some n) :
    (walk k root rootId cnt cur s).node = none ∧ (walk k root rootId cnt cur s).pops = [] ∧
    (walk k root rootId cnt cur s).pushes = [] ∧ (walk k root rootId cnt cur s).st.cnt = cnt ∧
    (walk k root rootId cnt cur s).st.errs = [(ErrKind.notFound, cur)] :=
  walk_unknown_segment k root rootId cnt cur s n (noSegList_of_spec s.sid root hno) hcur

/-- the unknown segment does not disturb the matching of its neighbours: the counter is the same, the walker
    returns no node (x12n_document then keeps the previous node), so the next segment is walked from the same
    state as in the document without the unknown segment -/
theorem unknown_segment_isolated (k : Consts) (root : List Node) (rootId : Nat) (cnt : Counter) (cur : List Nat)
    (s t : SegData) (n : Node) (hno : NoSegWithId root s.sid) (hcur : nodeAt root cur = some n) :
    walk k root rootId (walk k root rootId cnt cur s).st.cnt cur t = walk k root rootId cnt cur t := by
  rw [(unknown_segment_not_found k root rootId cnt cur s n hno hcur).2.2.2.1]

/-- **segment beyond max_use, local step** (`_check_seg_usage`): a plain segment child that matches while its
    count already equals a finite `max_use` draws `segMaxCount` (997 code 5) at that node -/
theorem max_use_exceeded_reported_step (lip : List Nat) (lkey : PathKey) (loopNid : NodeId) (c : Node) (i : Nat)
    (pops : List (List Nat)) (st : WState) (hu : c.usage ≠ 2) (hr : c.rep ≠ 0)
    (hcount : c.rep ≤ st.cnt.get (lkey ++ [c.comp])) :
    ∃ r, scanChildren.scanSegMatched lip lkey loopNid c i pops st = .found r ∧ r.node = some (lip ++ [i]) ∧
      (ErrKind.segMaxCount, lip ++ [i]) ∈ r.st.errs := by
  apply segMatched_max_use
  · simpa using hu
  · rw [exceeds_iff, get_incr_same]; exact ⟨hr, by omega⟩

/-- … and a repetition within the limit draws nothing -/
theorem max_use_within_silent_step (lip : List Nat) (lkey : PathKey) (loopNid : NodeId) (c : Node) (i : Nat)
    (pops : List (List Nat)) (st : WState) (hu : c.usage ≠ 2) (hp : st.pending = [])
    (hcount : c.rep = 0 ∨ st.cnt.get (lkey ++ [c.comp]) < c.rep) :
    ∃ r, scanChildren.scanSegMatched lip lkey loopNid c i pops st = .found r ∧ r.st.errs = st.errs := by
  apply segMatched_within _ _ _ _ _ _ _ (by simpa using hu) hp
  cases h : exceeds ((st.cnt.incr (lkey ++ [c.comp])).get (lkey ++ [c.comp])) c.rep with
  | false => rfl
  | true =>
    rw [exceeds_iff, get_incr_same] at h
    rcases hcount with h0 | h0
    · exact absurd h0 h.1
    · omega

/-- the full statement: whenever `walk` answers with a plain segment node (no loop entered) whose count had
    reached its finite `max_use`, the error is among those reported.
    GAP: needs the inversion "a result with `pushes = []` and `node = some ip` was produced by `scanSegMatched`
    at `ip` with counter key `keyAt root ip`" (case analysis of `walkUp`/`scanChildren`, and
    `keyAt root (lip ++ [i]) = keyAt root lip ++ [c.comp]`); `max_use_exceeded_reported_step` is the step it
    reduces to. -/
def max_use_exceeded_reported_full : Prop :=
  ∀ (k : Consts) (root : List Node) (rootId : Nat) (cnt : Counter) (cur ip : List Nat) (s : SegData) (c : Node),
    nodeAt root ip = some c → c.isSeg = true →
    (walk k root rootId cnt cur s).node = some ip → (walk k root rootId cnt cur s).pushes = [] →
    c.usage ≠ 2 → c.rep ≠ 0 → c.rep ≤ cnt.get (keyAt root ip) →
    (ErrKind.segMaxCount, ip) ∈ (walk k root rootId cnt cur s).st.errs

/-- **loop beyond repeat, local step** (`_check_loop_usage`): entering a loop whose instance count already equals
    a finite `repeat` draws `loopMaxCount` (997 code 4) at the loop node -/
theorem loop_repeat_reported_step (ip : List Nat) (key : PathKey) (usage rep : Nat) (st : WState) (hu : usage ≠ 2)
    (hr : rep ≠ 0) (hcount : rep ≤ st.cnt.get key) :
    (ErrKind.loopMaxCount, ip) ∈ (checkLoopUsage ip key usage rep st).errs := by
  apply loopUsage_repeat _ _ _ _ _ (by simpa using hu)
  rw [exceeds_iff, get_incr_same]
  have : ∀ q : PathKey, isStrictPrefix q q = false := by
    intro q
    induction q with
    | nil => rfl
    | cons a r ih => simp [isStrictPrefix, ih]
  have := this key
  rw [get_resetTo_other _ _ _ this]
  exact ⟨hr, by omega⟩

/-- full statement.  GAP: inversion of `walk` for results with `pushes ≠ []` (the innermost pushed loop is the one
    `gotoSegMatch` counted), same kind of case analysis as above. -/
def loop_repeat_reported_full : Prop :=
  ∀ (k : Consts) (root : List Node) (rootId : Nat) (cnt : Counter) (cur lp : List Nat) (s : SegData)
    (lid pos usage rep : Nat) (w : Bool) (ch : List Node),
    (walk k root rootId cnt cur s).pushes.getLast? = some lp → (walk k root rootId cnt cur s).node ≠ none →
    nodeAt root lp = some (.loop lid pos usage rep w ch) → usage ≠ 2 → rep ≠ 0 → rep ≤ cnt.get (keyAt root lp) →
    (ErrKind.loopMaxCount, lp) ∈ (walk k root rootId cnt cur s).st.errs

/-- **missing mandatory segment, local steps** (`_flush_mandatory_segs`): a pending entry is reported (997 code
    3, at its own node) when the walk settles at a different position, and is carried on, unreported, while the
    walk stays at its position — which is why the report can come one or more segments after the gap -/
theorem mandatory_missing_reported_step (st : WState) (curPos : Option Nat) (p : Pending) (hp : p ∈ st.pending)
    (hpos : some p.pos ≠ curPos) : (ErrKind.mandatoryMissing, p.ip) ∈ (flush st curPos).errs :=
  flush_reports st curPos p hp hpos

theorem mandatory_missing_deferred_step (st : WState) (curPos : Option Nat) (p : Pending) (hp : p ∈ st.pending)
    (hpos : some p.pos = curPos) :
    p ∈ (flush st curPos).pending ∧ (flush st curPos).errs = st.errs ++
      (st.pending.filter (fun q => some q.pos != curPos)).map (fun q => (ErrKind.mandatoryMissing, q.ip)) :=
  ⟨flush_keeps st curPos p hp hpos, rfl⟩

/-- full statement: a required segment child `c` (index `j`) of the loop at `lip` that has not occurred, lies at
    a position from the start node's on and strictly before the matched sibling's, and does not match the data
    segment, is reported missing when the walk answers with that later sibling.
    GAP: the scan-order invariant of C02 (`scanChildren` visits the children in index order, positions are
    sorted — `posSorted` of C16) and the inversion of `scanChildren`; `mandatory_missing_reported_step` is the
    flush it ends in. -/
def mandatory_missing_reported_full : Prop :=
  ∀ (k : Consts) (root : List Node) (rootId : Nat) (cnt : Counter) (lip : List Nat) (a b j : Nat) (s : SegData)
    (na nb c : Node),
    nodeAt root (lip ++ [a]) = some na → nodeAt root (lip ++ [b]) = some nb → nodeAt root (lip ++ [j]) = some c →
    c.isSeg = true → c.usage = 0 → isMatch k c s = false → cnt.get (keyAt root (lip ++ [j])) = 0 →
    na.pos ≤ c.pos → c.pos < nb.pos →
    (walk k root rootId cnt (lip ++ [a]) s).node = some (lip ++ [b]) → (walk k root rootId cnt (lip ++ [a]) s).pushes = [] →
    (ErrKind.mandatoryMissing, lip ++ [j]) ∈ (walk k root rootId cnt (lip ++ [a]) s).st.errs

/-! non-vacuity: a two-level map, ids 10/11/12 known, 99 unknown -/

def exK : Consts := { ent := 900, hl := 901, ctx := 902 }
def exMap : List Node :=
  [.loop 1 10 0 1 false
     [.seg 10 0 10 0 1 [] [], .seg 11 0 20 0 1 [] [],
      .loop 2 30 1 2 false [.seg 12 0 10 0 1 [] [], .seg 13 0 20 1 1 [] []]]]
def exSeg (sid : Nat) : SegData := { sid := sid, v01 := 0, v02 := 0, v03 := 0, v011 := 0 }

example : noSegList 99 exMap = true := by decide
example : noSegList 12 exMap = false := by decide
/-- the hypothesis of `unknown_segment_not_found` holds for id 99 … -/
example : NoSegWithId exMap 99 := by
  intro ip n h hs e
  have := nodeAt_noSeg 99 ip exMap n (by decide) h
  cases n with
  | loop => simp [Node.isSeg] at hs
  | seg sid => simp only [Node.ident] at e; subst e; simp [noSeg] at this
/-- … the conclusion is what evaluation gives, from a node two loops deep … -/
example : (walk exK exMap 0 [] [0, 2, 1] (exSeg 99)).node = none ∧
    (walk exK exMap 0 [] [0, 2, 1] (exSeg 99)).st.errs = [(ErrKind.notFound, [0, 2, 1])] := by decide
/-- … and it is not a triviality of the model: a known id is matched -/
example : (walk exK exMap 0 [] [0, 0] (exSeg 11)).node = some [0, 1] := by decide
/-- max_use: the second `11` in the same loop instance draws `segMaxCount` at its node -/
example : (ErrKind.segMaxCount, [0, 1]) ∈
    (walk exK exMap 0 (walk exK exMap 0 [] [0, 0] (exSeg 11)).st.cnt [0, 1] (exSeg 11)).st.errs := by decide
/-- mandatory segment: skipping the required `11` is reported when `12` opens the inner loop -/
example : (ErrKind.mandatoryMissing, [0, 1]) ∈ (walk exK exMap 0 [] [0, 0] (exSeg 12)).st.errs := by decide
/-- loop repeat: the third instance of the inner loop (repeat 2) draws `loopMaxCount` at the loop -/
example : (ErrKind.loopMaxCount, [0, 2]) ∈
    (walk exK exMap 0 [([(1, 0), (2, 0)], 2)] [0, 2, 0] (exSeg 12)).st.errs := by decide

end Pyx12Verif.C03
