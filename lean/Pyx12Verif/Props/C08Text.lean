/-
C08 at TEXT level: X12 text -> `x12n_document` XML sink -> `xmlx12_simple.convert` -> X12 text, composing
  * the XML sink of the end-to-end model (`Doc.docXml`, Model/DocSinks.lean; round trip to SEGMENTS: Props/DocSinks.lean),
  * the converter up to the text (`Convert.convertText`, Model/Convert.lean: `get_segment` of Model/XmlIn.lean feeding
    `X12Writer.Write` of Model/Writer.lean with the fixed delimiters `~ * :`, eol `\n`, repetition separator `^`, NO `Close()`),
  * C01's reader (`SegText.readAll`: header parse, buffered tokeniser under any read sizes, `X12Reader.__iter__`).

The writer DISCARDS every SE / GE / IEA it is handed and generates its own from its counters (C11).  The envelope is
therefore described as a datatype (`XInter ⊃ XGroup ⊃ XSet`, Proofs/C08TextWriter.lean) and "the trailers carry the right
counts" is said with the writer's own `_get_trailer_segment` (`Writer.trailerSeg`): `XInter.TrueTrailers` = every supplied
trailer IS `trailerSeg d id <true count> <control number of its header>` — the count printed `'{:d}'` (a source `SE*007*1`
is accepted by the reader and comes back `SE*7*1`: outside this hypothesis, covered by `text_roundtrip_repairs_counts`).

  convertText_complete (Proofs/C08TextLoop.lean)
                            `convert` on a complete structured document: returns normally, the text is one segment per line of
                            the document with every trailer regenerated and ISA11 (00501) / ISA16 set
  convert_of_rounds         the same from a source text: the run completes with rounds whose segments fit their nodes
                            (`docXml_roundtrip_rounds`), what comes back per segment (`expectedAt`) forms complete interchanges
  text_roundtrip_repairs_counts
                            … ANY supplied trailers (wrong counts, wrong control numbers): the real reader on the output
                            recovers the writer's delimiters, does not raise, and yields the same headers and bodies with
                            trailers `SE*<body+2>*<ST02>`, `GE*<sets>*<GS06>`, `IEA*<groups>*<ISA13>` (`written_trailers`)
  text_roundtrip_generated  hypotheses of `docXml_roundtrip_generated` (generated conformant document) + no data in not-used
                            elements / no trailing empties (`expectedAt … s = s`, `normSeg s = s`) + envelope with TRUE
                            trailers + source separators `:` (ISA16) and, for 00501, `^` (ISA11) + clean values:
                            `readSegments (convertText (docXml doc)) = readSegments doc`, trailers included
  text_roundtrip_identity   … and when the source text is in the writer's canonical layout (`Canonical`: the text IS what
                            `_write_segment` prints for its own segments, `<segment>~\n` each): the output text EQUALS the source
  canonical_printed, normal_of_canonical
                            the layout predicate is satisfied by every print of clean, trimmed segments, and implies trimmed
Non-vacuity: Props/C08TextExample.lean.
-/
import Pyx12Verif.Proofs.C08TextLoop
import Pyx12Verif.Props.DocSinks

namespace Pyx12Verif.Convert
open Pyx12Verif Pyx12Verif.Doc
open Pyx12Verif.Envelope (RState idISA idIEA idGS idGE idST idSE isEnvId decimal)
open Pyx12Verif.SegText (normSeg Clean)
open Pyx12Verif.Writer

/-! ### reading, layout -/

/-- the segments the real reader yields for a text (`none`: the constructor refuses it) -/
def readSegments (sizes : List Nat) (text : List Char) : Option (List Seg) :=
  match SegText.readAll { rest := text, sizes := sizes } with
  | .ok _ rr => some (rr.segs.map (·.2))
  | .error _ => none

/-- the text of a completed conversion -/
def textOf : ConvOut → Option (List Char)
  | .ok t => some t
  | _ => none

/-- `convert` applied to what the XML sink left, read again: `none` unless every stage completes -/
def roundTripSegments (sizes : List Nat) (ms : Maps) (ctx : Ctx) (text : List Char) : Option (List Seg) :=
  match docXml ms ctx text with
  | none => none
  | some evs =>
    match textOf (convertText evs) with
    | none => none
    | some t => readSegments sizes t

/-- **the writer's canonical layout**: the text is exactly what `X12Writer._write_segment` (configuration `c`) prints for
the segments the reader's front end recovers from it — every segment `Segment.format(term, ele, sub)` (trailing empty
elements / components not printed) followed by `eol`, nothing before, between or after -/
def Canonical (c : Cfg) (text : List Char) : Prop := render c (SegText.segments c.d text) = some text

/-- every print of clean, trimmed segments is canonical -/
theorem canonical_printed (c : Cfg) (hc : CfgOk c) (segs : List Seg) (hclean : ∀ s ∈ segs, Clean c.d s)
    (hnorm : ∀ s ∈ segs, normSeg s = s) : Canonical c (C01.encText c.d c.eol segs) := by
  obtain ⟨txt, henc, hseg⟩ := C01.segments_encode c.d hc.delims.distinct c.eol hc.eol segs hclean
  have hwf : ∀ s ∈ segs, ∀ comp ∈ s.elems, comp ≠ [] := fun s hs comp hm => ((hclean s hs).1.2.2 comp hm).1
  rw [C01.encode_eq _ _ _ hwf] at henc
  injection henc with henc
  subst henc
  unfold Canonical render
  rw [hseg, map_id_of normSeg segs hnorm]
  exact C01.encode_eq _ _ _ hwf

theorem map_eq_self {α : Type} (f : α → α) : ∀ (l : List α), l.map f = l → ∀ x ∈ l, f x = x
  | [], _, x, hx => by simp at hx
  | a :: r, h, x, hx => by
    simp only [List.map_cons, List.cons.injEq] at h
    rcases List.mem_cons.1 hx with rfl | hx
    · exact h.1
    · exact map_eq_self f r h.2 x hx

/-- a canonical text has no trailing empty element or component anywhere -/
theorem normal_of_canonical (c : Cfg) (hc : CfgOk c) (text : List Char) (h : Canonical c text) :
    ∀ s ∈ SegText.segments c.d text, normSeg s = s := by
  obtain ⟨txt, henc, hseg⟩ := C01.segments_encode c.d hc.delims.distinct c.eol hc.eol (SegText.segments c.d text)
    (C01.segments_clean c.d text)
  unfold Canonical render at h
  rw [h] at henc
  injection henc with henc
  subst henc
  exact map_eq_self normSeg _ hseg.symm

/-! ### membership in a flattened document -/

theorem mem_flatInters_of {is : List XInter} {i : XInter} {s : Seg} (hi : i ∈ is) (hs : s ∈ i.flat) : s ∈ flatInters is := by
  induction is with
  | nil => simp at hi
  | cons j r ih =>
    simp only [flatInters, List.mem_append]
    rcases List.mem_cons.1 hi with rfl | hi
    · exact Or.inl hs
    · exact Or.inr (ih hi)

theorem mem_flatGroups_of {gs : List XGroup} {g : XGroup} {s : Seg} (hg : g ∈ gs) (hs : s ∈ g.flat) : s ∈ flatGroups gs := by
  induction gs with
  | nil => simp at hg
  | cons j r ih =>
    simp only [flatGroups, List.mem_append]
    rcases List.mem_cons.1 hg with rfl | hg
    · exact Or.inl hs
    · exact Or.inr (ih hg)

theorem mem_flatSets_of {ts : List XSet} {t : XSet} {s : Seg} (ht : t ∈ ts) (hs : s ∈ t.flat) : s ∈ flatSets ts := by
  induction ts with
  | nil => simp at ht
  | cons j r ih =>
    simp only [flatSets, List.mem_append]
    rcases List.mem_cons.1 ht with rfl | ht
    · exact Or.inl hs
    · exact Or.inr (ih ht)

theorem isa_mem {is : List XInter} {i : XInter} (hi : i ∈ is) : i.isa ∈ flatInters is :=
  mem_flatInters_of hi (by simp [XInter.flat])

theorem gs_mem {is : List XInter} {i : XInter} {g : XGroup} (hi : i ∈ is) (hg : g ∈ i.groups) : g.gs ∈ flatInters is :=
  mem_flatInters_of hi (by
    simp only [XInter.flat, List.mem_cons, List.mem_append]
    exact Or.inr (Or.inl (mem_flatGroups_of hg (by simp [XGroup.flat]))))

theorem st_mem {is : List XInter} {i : XInter} {g : XGroup} {t : XSet} (hi : i ∈ is) (hg : g ∈ i.groups) (ht : t ∈ g.sets) :
    t.st ∈ flatInters is :=
  mem_flatInters_of hi (by
    simp only [XInter.flat, List.mem_cons, List.mem_append]
    refine Or.inr (Or.inl (mem_flatGroups_of hg ?_))
    simp only [XGroup.flat, List.mem_cons, List.mem_append]
    exact Or.inr (Or.inl (mem_flatSets_of ht (by simp [XSet.flat]))))

theorem body_mem {is : List XInter} {i : XInter} {g : XGroup} {t : XSet} {b : Seg} (hi : i ∈ is) (hg : g ∈ i.groups)
    (ht : t ∈ g.sets) (hb : b ∈ t.body) : b ∈ flatInters is :=
  mem_flatInters_of hi (by
    simp only [XInter.flat, List.mem_cons, List.mem_append]
    refine Or.inr (Or.inl (mem_flatGroups_of hg ?_))
    simp only [XGroup.flat, List.mem_cons, List.mem_append]
    exact Or.inr (Or.inl (mem_flatSets_of ht (by simp [XSet.flat, hb]))))

/-! ### the generated trailers, as data -/

/-- **the regenerated trailers carry the true counts**: with header control numbers that survive printing (`CtlOk`: not
empty, free of `~ * :`), `SE*<number of segments of the set, ST and SE included>*<ST02>`, `GE*<number of sets>*<GS06>`,
`IEA*<number of groups>*<ISA13>` -/
theorem written_trailers (d : Delims) (hd : DelimsOk d) :
    (∀ (t : XSet) (x : Str), ctlOf d t.st = some x → CtlOk d x →
        t.trueSE d = ⟨idSE, [[decimal (t.body.length + 2)], [x]]⟩) ∧
    (∀ (g : XGroup) (x : Str), ctlOf d g.gs = some x → CtlOk d x → g.trueGE d = ⟨idGE, [[decimal g.sets.length], [x]]⟩) ∧
    (∀ (i : XInter) (x : Str), ctlOf d i.isa = some x → CtlOk d x → i.trueIEA d = ⟨idIEA, [[decimal i.groups.length], [x]]⟩) :=
  ⟨fun t x h hx => by rw [XSet.trueSE, h]; exact trailerSeg_eq d hd idSE (by decide) _ x hx,
   fun g x h hx => by rw [XGroup.trueGE, h]; exact trailerSeg_eq d hd idGE (by decide) _ x hx,
   fun i x h hx => by rw [XInter.trueIEA, h]; exact trailerSeg_eq d hd idIEA (by decide) _ x hx⟩

/-- … and the body, the headers and the order of everything are untouched (the ISA separators aside) -/
theorem written_keeps (c : Cfg) (i : XInter) :
    (i.written c).isa = fixISA c i.isa ∧ (i.written c).groups.map (·.gs) = i.groups.map (·.gs) ∧
    (i.written c).groups.map (fun g => g.sets.map (fun t => (t.st, t.body))) =
      i.groups.map (fun g => g.sets.map (fun t => (t.st, t.body))) := by
  refine ⟨rfl, ?_, ?_⟩
  · simp [XInter.written, XGroup.retrailer, List.map_map, Function.comp_def]
  · simp [XInter.written, XGroup.retrailer, XSet.retrailer, List.map_map, Function.comp_def]

theorem trailer_clean (d : Delims) (hd : DelimsOk d) (id : Str) (hid : isTrailerId id = true) (n : Nat) (o : Option Str)
    (h : ∃ x, o = some x ∧ CtlOk d x) : Clean d (trailerSeg d id n o) := by
  obtain ⟨x, rfl, hx⟩ := h
  rw [trailerSeg_eq d hd id hid n x hx]
  exact genTrailer_clean d hd _ ⟨id, n, x, hid, hx, rfl⟩

/-! ### reading what `convert` wrote -/

/-- the core composition: `convert` on an XML document whose segments form complete interchanges, then C01's reader -/
theorem read_converted (evs : List Xml.Ev) (root : Xml.XNode) (segs : List Segment.SegObj) (i : XInter) (more : List XInter)
    (h1 : Xml.buildTree evs = some [root]) (h2 : Xml.convertSegs root = .ok segs)
    (h3 : segs.map Segment.toSeg = flatInters (i :: more)) (hok : ∀ j ∈ i :: more, j.Ok)
    (vals : List Str) (icvn : Str) (hel : i.isa.elems = vals.map (fun v => [v])) (hwid : vals.map List.length = isaWidths)
    (hicvn : vals[11]? = some icvn) (hver : icvn = Tokenizer.v4010 ∨ icvn = Tokenizer.v5010)
    (hclean : ∀ s ∈ flatInters ((i :: more).map (XInter.written convCfg)), Clean convCfg.d s) :
    ∃ txt, convertText evs = .ok txt ∧
      txt = C01.encText convCfg.d convCfg.eol (flatInters ((i :: more).map (XInter.written convCfg))) ∧
      ∀ sizes : List Nat, (∀ k ∈ sizes, 1 ≤ k) →
        ∃ res, SegText.readAll { rest := txt, sizes := sizes } = .ok (convHeader icvn) res ∧ res.crashed = false ∧
          res.segs.map (·.2) = (flatInters ((i :: more).map (XInter.written convCfg))).map normSeg := by
  refine ⟨_, convertText_complete evs root segs (i :: more) h1 h2 h3 hok, rfl, ?_⟩
  intro sizes hsz
  have hshape : flatInters ((i :: more).map (XInter.written convCfg)) =
      fixISA convCfg i.isa :: (flatGroups (i.groups.map (XGroup.retrailer convCfg.d)) ++ [i.trueIEA convCfg.d] ++
        flatInters (more.map (XInter.written convCfg))) := by
    simp [flatInters, XInter.flat, XInter.written]
  rw [hshape] at hclean ⊢
  exact read_printed convCfg convCfg_ok i.isa _ vals icvn (hok i (by simp)).1 hel hwid hicvn hver hclean sizes hsz

/-- `convert` after the XML sink, from a source TEXT: the run completes with rounds whose segments fit their nodes, and what
the round trip to segments returns per round (`expectedAt`) forms complete interchanges.  `convert` returns normally and the
text is the document with every trailer regenerated. -/
theorem convert_of_rounds (ms : Maps) (ctx : Ctx) (text : List Char)
    (hgood : ∀ steps, docSteps ms ctx text = some steps → Xml.GoodFrom [] steps)
    (hd : Tokenizer.Header) (rr : SegText.ReadResult) (rounds : List Round)
    (hread : SegText.readAll { rest := text, sizes := [] } = .ok hd rr)
    (hr : roundsOf (validateRead ms ctx hd rr) rr = some rounds)
    (hfit : ∀ p ∈ rounds, FitsAt ms (SegText.delimsOf hd) p.1.node p.2)
    (is : List XInter) (henv : rounds.map (fun p => expectedAt ms p.1.node p.2) = flatInters is) (hok : ∀ j ∈ is, j.Ok) :
    ∃ evs, docXml ms ctx text = some evs ∧
      convertText evs = .ok (C01.encText convCfg.d convCfg.eol (flatInters (is.map (XInter.written convCfg)))) := by
  obtain ⟨evs, root, segs, g1, g2, g3, g4⟩ := docXml_roundtrip_rounds ms ctx text hgood hd rr rounds hread hr hfit
  exact ⟨evs, g1, convertText_complete evs root segs is g2 g3 (g4.trans henv) hok⟩

/-- **the round trip repairs the trailers and nothing else.**  Source text on which the run completes (conformant or not:
the supplied SE / GE / IEA may carry ANY count and control number), whose segments fit their nodes and come back
(`expectedAt`: not-used elements blanked, trailing empties dropped) as complete interchanges `i :: more`; header and body
values free of `~ * :` (`Clean`), header control numbers not empty (`CtlOk`), the first ISA of the standard widths.  Then
`convert` returns normally; the real reader on its output recovers `~ * :` (and `^` for 00501), does not raise, and yields —
under ANY read sizes — the segments of `written`: the same headers (ISA11 / ISA16 set) and bodies in the same order
(`written_keeps`), every trailer `<id>*<true count>*<control number of its header>` (`written_trailers`). -/
theorem text_roundtrip_repairs_counts (ms : Maps) (ctx : Ctx) (text : List Char)
    (hgood : ∀ steps, docSteps ms ctx text = some steps → Xml.GoodFrom [] steps)
    (hd : Tokenizer.Header) (rr : SegText.ReadResult) (rounds : List Round)
    (hread : SegText.readAll { rest := text, sizes := [] } = .ok hd rr)
    (hr : roundsOf (validateRead ms ctx hd rr) rr = some rounds)
    (hfit : ∀ p ∈ rounds, FitsAt ms (SegText.delimsOf hd) p.1.node p.2)
    (i : XInter) (more : List XInter)
    (henv : rounds.map (fun p => expectedAt ms p.1.node p.2) = flatInters (i :: more)) (hok : ∀ j ∈ i :: more, j.Ok)
    (vals : List Str) (icvn : Str) (hel : i.isa.elems = vals.map (fun v => [v])) (hwid : vals.map List.length = isaWidths)
    (hicvn : vals[11]? = some icvn) (hver : icvn = Tokenizer.v4010 ∨ icvn = Tokenizer.v5010)
    (hclean : ∀ s ∈ flatInters (i :: more), isTrailerId s.id = false → Clean convCfg.d s)
    (hctl : ∀ s ∈ flatInters (i :: more), (s.id = idISA ∨ s.id = idGS ∨ s.id = idST) →
      ∃ x, ctlOf convCfg.d s = some x ∧ CtlOk convCfg.d x) :
    ∃ evs txt, docXml ms ctx text = some evs ∧ convertText evs = .ok txt ∧
      ∀ sizes : List Nat, (∀ k ∈ sizes, 1 ≤ k) →
        ∃ res, SegText.readAll { rest := txt, sizes := sizes } = .ok (convHeader icvn) res ∧ res.crashed = false ∧
          res.segs.map (·.2) = (flatInters ((i :: more).map (XInter.written convCfg))).map normSeg := by
  obtain ⟨evs, root, segs, g1, g2, g3, g4⟩ := docXml_roundtrip_rounds ms ctx text hgood hd rr rounds hread hr hfit
  have hdok := convCfg_ok.delims
  have hcl : ∀ s ∈ flatInters ((i :: more).map (XInter.written convCfg)), Clean convCfg.d s := by
    refine written_all convCfg (Clean convCfg.d) (i :: more) ?_ ?_ ?_ ?_ ?_ ?_ ?_
    · intro j hj
      exact fixISA_clean convCfg hdok convCfg_ok.repTerm convCfg_ok.repEle convCfg_ok.repSub _
        (hclean _ (isa_mem hj) (by rw [(hok j hj).1]; decide))
    · intro j hj
      exact trailer_clean _ hdok _ (by decide) _ _ (hctl _ (isa_mem hj) (Or.inl (hok j hj).1))
    · intro j hj g hg
      exact hclean _ (gs_mem hj hg) (by rw [((hok j hj).2.2.2.1 g hg).1]; decide)
    · intro j hj g hg
      exact trailer_clean _ hdok _ (by decide) _ _ (hctl _ (gs_mem hj hg) (Or.inr (Or.inl ((hok j hj).2.2.2.1 g hg).1)))
    · intro j hj g hg t ht
      exact hclean _ (st_mem hj hg ht) (by rw [(((hok j hj).2.2.2.1 g hg).2.2.1 t ht).1]; decide)
    · intro j hj g hg t ht
      exact trailer_clean _ hdok _ (by decide) _ _
        (hctl _ (st_mem hj hg ht) (Or.inr (Or.inr (((hok j hj).2.2.2.1 g hg).2.2.1 t ht).1)))
    · intro j hj g hg t ht b hb
      exact hclean _ (body_mem hj hg ht hb)
        (not_trailer_of_not_env (((((hok j hj).2.2.2.1 g hg).2.2.1 t ht).2.2.1 b hb).1))
  obtain ⟨txt, k1, _, k3⟩ := read_converted evs root segs i more g2 g3 (g4.trans henv) hok vals icvn hel hwid hicvn hver hcl
  exact ⟨evs, txt, g1, k1, k3⟩

/-! ### the ISA of a source that already uses the converter's separators -/

theorem set_same {α : Type} : ∀ (l : List α) (n : Nat) (x : α), l[n]? = some x → l.set n x = l
  | [], _, _, h => by simp at h
  | a :: r, 0, x, h => by
    simp only [List.getElem?_cons_zero, Option.some.injEq] at h
    simp [h]
  | a :: r, n + 1, x, h => by
    simp only [List.getElem?_cons_succ] at h
    simp [set_same r n x h]

/-- ISA16 is `:` and, for 00501, ISA11 is `^`: `_write_isa_segment` changes nothing -/
theorem fixISA_same (isa : Seg) (vals : List Str) (icvn : Str) (hid : isa.id = idISA)
    (hel : isa.elems = vals.map (fun v => [v])) (hicvn : vals[11]? = some icvn)
    (hsub : vals[15]? = some [':']) (hrep : icvn = Tokenizer.v5010 → vals[10]? = some ['^']) :
    fixISA convCfg isa = isa := by
  have h11 : isa.elems[11]? = some [icvn] := by rw [hel]; simp [hicvn]
  have h15 : isa.elems[15]? = some [[':']] := by rw [hel]; simp [hsub]
  have hv : valueAt convCfg.d.ele isa 11 = some icvn := valueAt_single_elem _ _ _ _ h11
  have e1 : SegText.splitOn convCfg.d.ele [convCfg.d.sub] = [[':']] := by decide
  have e2 : SegText.splitOn convCfg.d.sub [convCfg.rep] = [['^']] := by decide
  obtain ⟨id, elems⟩ := isa
  simp only at hid hel h11 h15 hv
  subst hid
  simp only [fixISA, if_true, Writer.isaOut, hv, e1, e2, Segment.Seg.mk.injEq, true_and]
  split
  · rename_i h5
    have h5' : icvn = Tokenizer.v5010 := Option.some.inj h5
    have h10 : elems[10]? = some [['^']] := by rw [hel]; simp [hrep h5']
    rw [set_same elems 10 _ h10, set_same elems 15 _ h15]
  · rw [set_same elems 15 _ h15]

/-! ### the extra hypotheses of the text-level round trip of a generated document -/

/-- what `text_roundtrip_generated` asks of the source segments `src` (as the reader yields them) beyond the hypotheses of
`docXml_roundtrip_generated` -/
structure TextDomain (src : List Seg) (i : XInter) (vals : List Str) (icvn : Str) : Prop where
  /-- the envelope: the segments ARE the flattening of one complete interchange (groups ⊃ sets ⊃ body) … -/
  env : src = i.flat
  ok : i.Ok
  /-- … in which every trailer is the one `X12Writer._get_trailer_segment` generates: control number of its header, true
      count printed `'{:d}'` -/
  trailers : i.TrueTrailers convCfg.d
  /-- the ISA: 16 plain values of the standard widths, a known version, ISA16 `:` and (00501) ISA11 `^` -/
  isaVals : i.isa.elems = vals.map (fun v => [v])
  isaWidths : vals.map List.length = Writer.isaWidths
  version : vals[11]? = some icvn
  known : icvn = Tokenizer.v4010 ∨ icvn = Tokenizer.v5010
  isa16 : vals[15]? = some [':']
  isa11 : icvn = Tokenizer.v5010 → vals[10]? = some ['^']
  /-- no value contains `~ * :` (ISA16 aside), no segment begins with a character the reader strips -/
  clean : ∀ s ∈ src, Clean convCfg.d s
  /-- no trailing empty element or component (`normal_of_canonical`: implied by the canonical layout) -/
  normal : ∀ s ∈ src, normSeg s = s

/-- under `TextDomain` the writer reproduces the segments exactly: the recomputed counts ARE the source's -/
theorem written_same {src : List Seg} {i : XInter} {vals : List Str} {icvn : Str} (h : TextDomain src i vals icvn) :
    flatInters ([i].map (XInter.written convCfg)) = src := by
  have hfix := fixISA_same i.isa vals icvn h.ok.1 h.isaVals h.version h.isa16 h.isa11
  simp only [List.map_cons, List.map_nil, flatInters, List.append_nil, XInter.written_of_true convCfg i h.trailers, hfix, h.env]

/-- the core of the two theorems below, from the conclusion of the segment-level round trip -/
theorem text_roundtrip_core (ms : Maps) (ctx : Ctx) (text : List Char) (src : List Seg)
    (hseg : ∃ evs root segs, docXml ms ctx text = some evs ∧ Xml.buildTree evs = some [root] ∧
      Xml.convertSegs root = .ok segs ∧ segs.map Segment.toSeg = src)
    (i : XInter) (vals : List Str) (icvn : Str) (hdom : TextDomain src i vals icvn) :
    ∃ evs, docXml ms ctx text = some evs ∧ convertText evs = .ok (C01.encText convCfg.d convCfg.eol src) ∧
      ∀ sizes : List Nat, (∀ k ∈ sizes, 1 ≤ k) →
        ∃ res, SegText.readAll { rest := C01.encText convCfg.d convCfg.eol src, sizes := sizes } = .ok (convHeader icvn) res ∧
          res.crashed = false ∧ res.segs.map (·.2) = src := by
  obtain ⟨evs, root, segs, g1, g2, g3, g4⟩ := hseg
  have hsame := written_same hdom
  have h3 : segs.map Segment.toSeg = flatInters [i] := by rw [g4, hdom.env]; simp [flatInters]
  have hok : ∀ j ∈ [i], j.Ok := by intro j hj; simp only [List.mem_singleton] at hj; subst hj; exact hdom.ok
  obtain ⟨txt, k1, k2, k3⟩ := read_converted evs root segs i [] g2 g3 h3 hok vals icvn hdom.isaVals hdom.isaWidths
    hdom.version hdom.known (by rw [hsame]; exact hdom.clean)
  rw [hsame] at k2 k3
  subst k2
  refine ⟨evs, g1, k1, ?_⟩
  intro sizes hsz
  obtain ⟨res, r1, r2, r3⟩ := k3 sizes hsz
  exact ⟨res, r1, r2, by rw [r3, map_id_of normSeg src hdom.normal]⟩

/-! ### the text-level round trip of a generated conformant document -/

/-- **X12 text -> XML -> X12 text, segments.**  Hypotheses of `docXml_roundtrip_generated` (a generated conformant document
ISA, GS, body — the trailers are in `body` — accepted by the whole validation model), `hexp`: every segment comes back from the
XML as it went in (no data in an element the map marks not used, no trailing empties), and `TextDomain`: a complete envelope
whose trailers are the ones the writer generates, the converter's separators in the ISA, clean values.
Then the XML sink completes, `convert` returns normally, and the real reader — under any read sizes — yields for the
converted text exactly the segments it yields for the source, ISA, GS, every body segment and SE / GE / IEA included. -/
theorem text_roundtrip_generated (ms : Maps) (ctx : Ctx) (text : List Char)
    (hgood : ∀ steps, docSteps ms ctx text = some steps → Xml.GoodFrom [] steps)
    (h : Tokenizer.Header) (control m : MapX)
    (isa gs : Seg) (body : List (Seg × List Nat)) (a g : Nat) (cip cgp : List Nat) (isaDef gsDef : SegDef)
    (vISA vGS : Envelope.SegView) (rs1 rs2 rs3 : Envelope.RState)
    (hread : SegText.readAll { rest := text, sizes := [] } = .ok h (readOf isa gs body))
    (hwf : WalkerGen.WFMap m.root = true) (hun : WalkerGen.Unambiguous ms.consts m.root = true)
    {isaPos isaU isaRep : Nat} {isaW : Bool} {isaSeg : MapSkel.Node} {isaRest : List MapSkel.Node}
    (hroot : m.root[a]? = some (.loop ms.ids.isaLoop isaPos isaU isaRep isaW (isaSeg :: isaRest)))
    (hisaSeg : isaSeg.isSeg = true) (hisaComp : isaSeg.comp = (ms.ids.isa, 0))
    {gsPos gsU gsRep : Nat} {gsW : Bool} {gsSeg : MapSkel.Node} {gsRest : List MapSkel.Node}
    (hgsLoop : (isaSeg :: isaRest)[g]? = some (.loop ms.ids.gsLoop gsPos gsU gsRep gsW (gsSeg :: gsRest)))
    (hgsSeg : gsSeg.isSeg = true) (hgsComp : gsSeg.comp = (ms.ids.gs, 0))
    (hopt0 : ∀ (j : Nat) (c : MapSkel.Node), j < a → m.root[j]? = some c → WalkerGen.optional c = true)
    (hopt1 : ∀ (j : Nat) (c : MapSkel.Node), 0 < j → j < g → (isaSeg :: isaRest)[j]? = some c → WalkerGen.optional c = true)
    {out1 out2 out3 : List WalkerGen.Emit}
    (hg1 : WalkerGen.GenList ms.consts [a, g] 1 gsRest out1)
    (hg2 : WalkerGen.GenList ms.consts [a] (g + 1) ((isaSeg :: isaRest).drop (g + 1)) out2)
    (hg3 : WalkerGen.GenList ms.consts [] (a + 1) (m.root.drop (a + 1)) out3)
    (hemits : emitsOf ms m (SegText.delimsOf h) body = out1 ++ out2 ++ out3)
    (hctl : findMap ms (controlFile h) = some control)
    (hisaNode : fetchIn ms control (isaPath ms) = some ⟨control, cip⟩)
    (hgsNode : fetchIn ms control (gsPath ms) = some ⟨control, cgp⟩)
    (hisaDef : lookupDef control cip = some isaDef)
    (hisaAdm : SegAdm ctx control.v5010 (SegText.delimsOf h) isaDef isa)
    (hidx : getFilename ms.index (gv (SegText.delimsOf h) isa 11) (gv (SegText.delimsOf h) gs 7)
              (gv (SegText.delimsOf h) gs 0) none = some m.file)
    (hmap : findMap ms m.file = some m)
    (hgsM : fetchIn ms m (gsPath ms) = some ⟨m, [a, g, 0]⟩)
    (hgsDef : lookupDef m [a, g, 0] = some gsDef)
    (hgsAdm : SegAdm ctx m.v5010 (SegText.delimsOf h) gsDef gs)
    (h278 : gv (SegText.delimsOf h) gs 7 ≠ some v278a ∧ gv (SegText.delimsOf h) gs 7 ≠ some v278b)
    (hisaId : isa.id = Envelope.idISA) (hgsId : gs.id = Envelope.idGS)
    (hbIsa : baseErrs isa = []) (hbGs : baseErrs gs = [])
    (hvIsa : Pipeline.viewOf (SegText.delimsOf h) isa = some vISA)
    (hsIsa : Envelope.step Envelope.Fixes.all (Envelope.RState.init false) vISA = .ok (rs1, []))
    (hvGs : Pipeline.viewOf (SegText.delimsOf h) gs = some vGS)
    (hsGs : Envelope.step Envelope.Fixes.all rs1 vGS = .ok (rs2, []))
    (henv : EnvQuiet (SegText.delimsOf h) { rs2 with chk837 := m.is837 } (body.map (·.1)) rs3)
    (hclean : Envelope.cleanup rs3 = [])
    (hbody : ∀ b ∈ body, BodyOk ctx m (SegText.delimsOf h) b)
    (hse : SeOk false (body.map (·.1.id)))
    (hfI : FitsAt ms (SegText.delimsOf h) (some (control.file, cip)) isa)
    (hfG : FitsAt ms (SegText.delimsOf h) (some (m.file, [a, g, 0])) gs)
    (hfB : ∀ b ∈ body, FitsAt ms (SegText.delimsOf h) (some (m.file, b.2)) b.1)
    -- beyond `docXml_roundtrip_generated`:
    (hexp : expectedAt ms (some (control.file, cip)) isa :: expectedAt ms (some (m.file, [a, g, 0])) gs ::
        body.map (fun b => expectedAt ms (some (m.file, b.2)) b.1) = isa :: gs :: body.map (·.1))
    (i : XInter) (vals : List Str) (icvn : Str) (hdom : TextDomain (isa :: gs :: body.map (·.1)) i vals icvn) :
    ∃ evs txt, docXml ms ctx text = some evs ∧ convertText evs = .ok txt ∧
      txt = C01.encText convCfg.d convCfg.eol (isa :: gs :: body.map (·.1)) ∧
      ∀ sizes : List Nat, (∀ k ∈ sizes, 1 ≤ k) →
        readSegments sizes txt = readSegments [] text ∧ roundTripSegments sizes ms ctx text = readSegments [] text := by
  obtain ⟨evs0, root, segs, g1, g2, g3, g4⟩ := docXml_roundtrip_generated ms ctx text hgood h control m isa gs body a g cip cgp
    isaDef gsDef vISA vGS rs1 rs2 rs3 hread hwf hun hroot hisaSeg hisaComp hgsLoop hgsSeg hgsComp hopt0 hopt1 hg1 hg2 hg3 hemits
    hctl hisaNode hgsNode hisaDef hisaAdm hidx hmap hgsM hgsDef hgsAdm h278 hisaId hgsId hbIsa hbGs hvIsa hsIsa hvGs hsGs henv
    hclean hbody hse hfI hfG hfB
  obtain ⟨evs, k1, k2, k3⟩ := text_roundtrip_core ms ctx text (isa :: gs :: body.map (·.1))
    ⟨evs0, root, segs, g1, g2, g3, g4.trans hexp⟩ i vals icvn hdom
  refine ⟨evs, _, k1, k2, rfl, ?_⟩
  intro sizes hsz
  obtain ⟨res, r1, _, r3⟩ := k3 sizes hsz
  have hsrc : readSegments [] text = some (isa :: gs :: body.map (·.1)) := by
    simp [readSegments, hread, readOf, List.map_map, Function.comp_def]
  have hout : readSegments sizes (C01.encText convCfg.d convCfg.eol (isa :: gs :: body.map (·.1))) =
      some (isa :: gs :: body.map (·.1)) := by
    simp only [readSegments, r1, r3]
  refine ⟨by rw [hout, hsrc], ?_⟩
  simp only [roundTripSegments, k1, k2, textOf, hout, hsrc]

/-- **X12 text -> XML -> X12 text, identity.**  The same, for a source in the writer's canonical layout with the converter's
delimiters (`Canonical convCfg text`: every segment as `Segment.format('~', '*', ':')` prints it, followed by exactly one
`\n`): what `convert` leaves on its output stream EQUALS the source text.  (`TextDomain.normal` is then implied —
`normal_of_canonical` — but is kept so that both theorems share their hypotheses.) -/
theorem text_roundtrip_identity (ms : Maps) (ctx : Ctx) (text : List Char)
    (hgood : ∀ steps, docSteps ms ctx text = some steps → Xml.GoodFrom [] steps)
    (h : Tokenizer.Header) (control m : MapX)
    (isa gs : Seg) (body : List (Seg × List Nat)) (a g : Nat) (cip cgp : List Nat) (isaDef gsDef : SegDef)
    (vISA vGS : Envelope.SegView) (rs1 rs2 rs3 : Envelope.RState)
    (hread : SegText.readAll { rest := text, sizes := [] } = .ok h (readOf isa gs body))
    (hwf : WalkerGen.WFMap m.root = true) (hun : WalkerGen.Unambiguous ms.consts m.root = true)
    {isaPos isaU isaRep : Nat} {isaW : Bool} {isaSeg : MapSkel.Node} {isaRest : List MapSkel.Node}
    (hroot : m.root[a]? = some (.loop ms.ids.isaLoop isaPos isaU isaRep isaW (isaSeg :: isaRest)))
    (hisaSeg : isaSeg.isSeg = true) (hisaComp : isaSeg.comp = (ms.ids.isa, 0))
    {gsPos gsU gsRep : Nat} {gsW : Bool} {gsSeg : MapSkel.Node} {gsRest : List MapSkel.Node}
    (hgsLoop : (isaSeg :: isaRest)[g]? = some (.loop ms.ids.gsLoop gsPos gsU gsRep gsW (gsSeg :: gsRest)))
    (hgsSeg : gsSeg.isSeg = true) (hgsComp : gsSeg.comp = (ms.ids.gs, 0))
    (hopt0 : ∀ (j : Nat) (c : MapSkel.Node), j < a → m.root[j]? = some c → WalkerGen.optional c = true)
    (hopt1 : ∀ (j : Nat) (c : MapSkel.Node), 0 < j → j < g → (isaSeg :: isaRest)[j]? = some c → WalkerGen.optional c = true)
    {out1 out2 out3 : List WalkerGen.Emit}
    (hg1 : WalkerGen.GenList ms.consts [a, g] 1 gsRest out1)
    (hg2 : WalkerGen.GenList ms.consts [a] (g + 1) ((isaSeg :: isaRest).drop (g + 1)) out2)
    (hg3 : WalkerGen.GenList ms.consts [] (a + 1) (m.root.drop (a + 1)) out3)
    (hemits : emitsOf ms m (SegText.delimsOf h) body = out1 ++ out2 ++ out3)
    (hctl : findMap ms (controlFile h) = some control)
    (hisaNode : fetchIn ms control (isaPath ms) = some ⟨control, cip⟩)
    (hgsNode : fetchIn ms control (gsPath ms) = some ⟨control, cgp⟩)
    (hisaDef : lookupDef control cip = some isaDef)
    (hisaAdm : SegAdm ctx control.v5010 (SegText.delimsOf h) isaDef isa)
    (hidx : getFilename ms.index (gv (SegText.delimsOf h) isa 11) (gv (SegText.delimsOf h) gs 7)
              (gv (SegText.delimsOf h) gs 0) none = some m.file)
    (hmap : findMap ms m.file = some m)
    (hgsM : fetchIn ms m (gsPath ms) = some ⟨m, [a, g, 0]⟩)
    (hgsDef : lookupDef m [a, g, 0] = some gsDef)
    (hgsAdm : SegAdm ctx m.v5010 (SegText.delimsOf h) gsDef gs)
    (h278 : gv (SegText.delimsOf h) gs 7 ≠ some v278a ∧ gv (SegText.delimsOf h) gs 7 ≠ some v278b)
    (hisaId : isa.id = Envelope.idISA) (hgsId : gs.id = Envelope.idGS)
    (hbIsa : baseErrs isa = []) (hbGs : baseErrs gs = [])
    (hvIsa : Pipeline.viewOf (SegText.delimsOf h) isa = some vISA)
    (hsIsa : Envelope.step Envelope.Fixes.all (Envelope.RState.init false) vISA = .ok (rs1, []))
    (hvGs : Pipeline.viewOf (SegText.delimsOf h) gs = some vGS)
    (hsGs : Envelope.step Envelope.Fixes.all rs1 vGS = .ok (rs2, []))
    (henv : EnvQuiet (SegText.delimsOf h) { rs2 with chk837 := m.is837 } (body.map (·.1)) rs3)
    (hclean : Envelope.cleanup rs3 = [])
    (hbody : ∀ b ∈ body, BodyOk ctx m (SegText.delimsOf h) b)
    (hse : SeOk false (body.map (·.1.id)))
    (hfI : FitsAt ms (SegText.delimsOf h) (some (control.file, cip)) isa)
    (hfG : FitsAt ms (SegText.delimsOf h) (some (m.file, [a, g, 0])) gs)
    (hfB : ∀ b ∈ body, FitsAt ms (SegText.delimsOf h) (some (m.file, b.2)) b.1)
    (hexp : expectedAt ms (some (control.file, cip)) isa :: expectedAt ms (some (m.file, [a, g, 0])) gs ::
        body.map (fun b => expectedAt ms (some (m.file, b.2)) b.1) = isa :: gs :: body.map (·.1))
    (i : XInter) (vals : List Str) (icvn : Str) (hdom : TextDomain (isa :: gs :: body.map (·.1)) i vals icvn)
    -- the layout of the source:
    (hdel : SegText.delimsOf h = convCfg.d) (hcanon : Canonical convCfg text) :
    ∃ evs, docXml ms ctx text = some evs ∧ convertText evs = .ok text := by
  obtain ⟨evs, txt, k1, k2, k3, _⟩ := text_roundtrip_generated ms ctx text hgood h control m isa gs body a g cip cgp
    isaDef gsDef vISA vGS rs1 rs2 rs3 hread hwf hun hroot hisaSeg hisaComp hgsLoop hgsSeg hgsComp hopt0 hopt1 hg1 hg2 hg3 hemits
    hctl hisaNode hgsNode hisaDef hisaAdm hidx hmap hgsM hgsDef hgsAdm h278 hisaId hgsId hbIsa hbGs hvIsa hsIsa hvGs hsGs henv
    hclean hbody hse hfI hfG hfB hexp i vals icvn hdom
  refine ⟨evs, k1, ?_⟩
  rw [k2, k3]
  congr 1
  -- the segments of the source text are ISA, GS, body; the canonical text is their print
  have hsegs : SegText.segments convCfg.d text = isa :: gs :: body.map (·.1) := by
    rw [← hdel, segments_of_readAll text [] (by intro k hk; simp at hk) h _ hread]
    simp [readOf, List.map_map, Function.comp_def]
  unfold Canonical render at hcanon
  rw [hsegs, C01.encode_eq _ _ _ (fun s hs comp hm => ((hdom.clean s hs).1.2.2 comp hm).1)] at hcanon
  exact Option.some.inj hcanon

end Pyx12Verif.Convert
