/-
The unproved statement `doc_delimiter_independent_full` of Props/DocDelim.lean is FALSE as it stands: `RawX12File.__init__`
reads the ISA version by OFFSET (characters 84..89 of the header line), and nothing forces those five characters to be data.
With a digit as element separator the separator itself can sit inside them: the line `ISA4A…A004 01B…B4:~` reads version
`00401`; re-encoded with element separator `5` (a legal choice: distinct from the other delimiters, absent from the data) it
reads `00501`, another control map is selected, and the outcomes differ.

Hence `doc_delimiter_independent` (Props/DocDelim2.lean) and `doc_delimiter_independent_sub_partial` (Props/DocDelim3.lean)
carry the hypothesis `hicvn : hd₁.icvn = hd₂.icvn`.  (The real pyx12 behaves like the model here: the harness keeps the
element separator out of the digits, harness/c12.py.)
-/
import Pyx12Verif.Props.DocDelimExample

namespace Pyx12Verif.Doc.Ex
open Pyx12Verif Pyx12Verif.Doc SegText

/-- an "ISA" of three elements whose printed form has the separator at offset 86 -/
def oddIsa : Seg :=
  ⟨['I', 'S', 'A'], [[List.replicate 80 'A' ++ ['0', '0']], [['0', '1'] ++ List.replicate 14 'B'], [[':']]]⟩

def d4 : Delims := ⟨'~', '4', ':'⟩
def d5 : Delims := ⟨'~', '5', ':'⟩
def text4 : List Char := (encode d4 [] [oddIsa]).getD []
def text5 : List Char := (encode d5 [] [oddIsa]).getD []

example : text4.drop 80 = "AAAA00401BBBBBBBBBBBBBB4:~".toList := by decide +kernel
example : text5.drop 80 = "AAAA00501BBBBBBBBBBBBBB5:~".toList := by decide +kernel

/-- **`doc_delimiter_independent_full` does not hold.** -/
theorem doc_delimiter_independent_full_counterexample : ¬ doc_delimiter_independent_full := by
  intro h
  have := h ms ctx d4 d5 [] [] oddIsa oddIsa [] text4 text5
    ⟨by decide, by decide, by decide⟩ ⟨by decide, by decide, by decide⟩
    (by intro c hc; cases hc) (by intro c hc; cases hc)
    (by intro s hs; simp only [List.mem_singleton] at hs; subst hs; exact clean_of_b d4 oddIsa (by decide +kernel) (by decide +kernel))
    (by intro s hs; simp only [List.mem_singleton] at hs; subst hs; exact clean_of_b d5 oddIsa (by decide +kernel) (by decide +kernel))
    (by decide +kernel) (by decide +kernel)
    ⟨{ seg := '~', ele := '4', sub := ':', rep := none, icvn := "00401".toList }, by decide +kernel, rfl⟩
    ⟨{ seg := '~', ele := '5', sub := ':', rep := some 'A', icvn := "00501".toList }, by decide +kernel, rfl⟩
  have h4 : (validateDoc ms ctx text4).outcome = .notX12 := by decide +kernel
  have h5 : (validateDoc ms ctx text5).outcome = .mapLoadFailed := by decide +kernel
  rw [h4, h5] at this
  exact absurd this.1 (by decide)

end Pyx12Verif.Doc.Ex
