/-
(b) C09 at pipeline level: for a conformant document GIVEN AS TEXT the yields of `iter_segments(lid)` partition the source
segments.

`ctxRead_partition`            the composition proper: the reader yielded ISA, GS and a body that is a conformant derivation
                               of the selected map (hypotheses of C02 `walk_accepts_generated` + C09Walk `CtxMapOK`, `LidOK?`)
                               ⟹ the answers the glue of `ctxDoc` computes ARE `CtxWalk.answersOf` (the list for which
                               Props/C09Walk.lean proves `Ctx.Consistent`), the generator runs to its end (`done`: no refusal,
                               no exception), and the leaves of the yielded nodes, in order, are the source segments
                               0, 1, 2, … each exactly once, carrying line k + 1 (C09 `partition`).
`ctxDoc_partition_generated`   the same from the text: `encode d b (isa :: gs :: body)` for any clean segments in the
                               reader's normal form, any admissible delimiters and CR/LF layout (C01 `read_encoded_reports`:
                               the reader returns exactly those segments).

Besides the C02 / C09 hypotheses the glue needs what `doc_accepts_generated` needs — the control map has the two pinned
nodes, the index sends (ISA12, GS08, GS01) to the file of `m`, `m` has `/ISA_LOOP/GS_LOOP/GS` at `[a, g, 0]`, GS08 is not one
of the two 278 releases that switch maps at BHT — plus `CtlAgrees`: ISA_LOOP / ISA sit at the same positions in the
control map and in `m` (the ISA answer is read off the control map, the rest off `m`).  No hypothesis on element values,
envelope counters or control numbers: the context reader does not validate, reader errors only end up on plain nodes.
-/
import Pyx12Verif.Proofs.CtxDocRun
import Pyx12Verif.Proofs.DocDelimRead

namespace Pyx12Verif.Doc
open Pyx12Verif WalkerGen

/-- the control map's pinned ISA node against the map `m` selected at GS (ISA_LOOP = `m.root[a]`) -/
structure CtlAgrees (ms : Maps) (control m : MapX) (a : Nat) (cip : List Nat) : Prop where
  first : cip.getLast? = some 0
  path : cxPath control.root cip.dropLast = [ms.ids.isaLoop]
  loopId : Walker.idAt control.root cip.dropLast = ms.ids.isaLoop
  segId : Walker.idAt control.root cip = ms.ids.isa
  pos : cxPos control.root cip = cxPos m.root [a, 0]
  ppos : cxPos control.root cip.dropLast = cxPos m.root [a]

/-- loop state after the ISA round -/
def isaC (ms : Maps) (control : MapX) (d : Delims) (isa : Seg) (cip : List Nat) (rs1 : Envelope.RState) : CState :=
  { cInitState ms control with rs := rs1, node := some ⟨control, cip⟩, icvn := gv d isa 11 }

theorem cStep_isa (ms : Maps) (control : MapX) (d : Delims) (le : List SegText.RErr) (isa : Seg) (cip : List Nat)
    (v : Envelope.SegView) (rs1 : Envelope.RState) (es : List Envelope.Err)
    (hid : isa.id = Envelope.idISA) (hnode : fetchIn ms control (isaPath ms) = some ⟨control, cip⟩)
    (hview : Pipeline.viewOf d isa = some v)
    (hstep : Envelope.step Envelope.Fixes.all (Envelope.RState.init false) v = .ok (rs1, es)) :
    cStepSeg ms control d 0 le isa (cInitState ms control) =
      .next (isaC ms control d isa cip rs1)
        (mkRound ⟨control, cip⟩ ms.ids ⟨0, rs1.segCount, 1⟩ [] [] [] (le.map lineErr ++ baseErrs isa ++ es.map envErr)) := by
  simp only [cStepSeg, hview, cWithView, cInitState, hstep, cAfterReader, cFind, hid, if_true, hnode, cAfterFind, cBranch,
    cAfterBranch, isaC]

/-- the part of the loop state that no longer changes after the GS round -/
def gsBaseC (ms : Maps) (control m : MapX) (d : Delims) (isa gs : Seg) : CState :=
  { cInitState ms control with
      mapFile := some m.file, curMap := some m, icvn := gv d isa 11, fic := gv d gs 0, vriic := gv d gs 7 }

/-- counter after the first GS: `_reset_counter_to_isa_counts`, `_reset_counter_to_gs_counts` on a fresh walker -/
def ctxPinnedCnt (ms : Maps) : Walker.Counter :=
  Walker.forceLoopStart (Walker.forceLoopStart [] (isaLoopKey ms) (isaKey ms)) (gsLoopKey ms) (gsKey ms)

theorem cStep_gs (ms : Maps) (control m : MapX) (d : Delims) (le : List SegText.RErr) (isa gs : Seg) (cip cgp : List Nat)
    (a g : Nat) (v : Envelope.SegView) (rs1 rs2 : Envelope.RState) (es : List Envelope.Err)
    (hid : gs.id = Envelope.idGS) (hgsNode : fetchIn ms control (gsPath ms) = some ⟨control, cgp⟩)
    (hidx : getFilename ms.index (gv d isa 11) (gv d gs 7) (gv d gs 0) none = some m.file)
    (hmap : findMap ms m.file = some m) (hgsM : fetchIn ms m (gsPath ms) = some ⟨m, [a, g, 0]⟩)
    (hview : Pipeline.viewOf d gs = some v) (hstep : Envelope.step Envelope.Fixes.all rs1 v = .ok (rs2, es)) :
    cStepSeg ms control d 1 le gs (isaC ms control d isa cip rs1) =
      .next (bodyC (gsBaseC ms control m d isa gs) m [a, g, 0] (ctxPinnedCnt ms) { rs2 with chk837 := m.is837 })
        (mkRound ⟨m, [a, g, 0]⟩ ms.ids ⟨1, rs2.segCount, 2⟩ (gsPops ms ⟨control, cip⟩)
          [(cxPath m.root [a, g], cxPos m.root [a, g])] [] (le.map lineErr ++ baseErrs gs ++ es.map envErr)) := by
  have hne1 : ¬ Envelope.idGS = Envelope.idISA := by decide
  simp only [cStepSeg, hview, cWithView, isaC, cInitState, hstep, cAfterReader, cFind, hid, hne1, if_true, if_false, hgsNode,
    cAfterFind, cBranch, cGsBranch, Option.isNone_none, or_true, cWithNewMap, hidx, hmap, cGsReload, cGsTail, hgsM,
    cAfterBranch, bodyC, gsBaseC, ctxPinnedCnt]
  rfl

/-- (source index, seg_count, line) of the `j`-th source segment: `c0` / `c1` = seg_count after ISA / GS, `cs` = after each
    body segment -/
def siOf (c0 c1 : Nat) (cs : List Nat) : Nat → Ctx.SegInfo
  | 0 => ⟨0, c0, 1⟩
  | 1 => ⟨1, c1, 2⟩
  | j + 2 => ⟨j + 2, cs.getD j 0, j + 3⟩

theorem siOf_text (c0 c1 : Nat) (cs : List Nat) : ∀ j, ((siOf c0 c1 cs j).text, (siOf c0 c1 cs j).line) = (j, j + 1)
  | 0 => rfl
  | 1 => rfl
  | _ + 2 => rfl

/-- **(b) composition.**  The reader yielded `ISA, GS, body` (with whatever line-level reports `le₀ le₁ …`). -/
theorem ctxRead_partition (ms : Maps) (lid : Option Ctx.LoopId) (h : Tokenizer.Header) (control m : MapX)
    (le0 le1 : List SegText.RErr) (isa gs : Seg) (ps : List (List SegText.RErr × Seg)) (ips : List (List Nat))
    (pend : List SegText.RErr) (a g : Nat) (cip cgp : List Nat)
    (hwf : WFMap m.root = true) (hun : Unambiguous ms.consts m.root = true) (hok : CtxWalk.CtxMapOK m.root = true)
    {isaPos isaU isaRep : Nat} {isaW : Bool} {isaSeg : MapSkel.Node} {isaRest : List MapSkel.Node}
    (hroot : m.root[a]? = some (.loop ms.ids.isaLoop isaPos isaU isaRep isaW (isaSeg :: isaRest)))
    (hisaSeg : isaSeg.isSeg = true) (hisaComp : isaSeg.comp = (ms.ids.isa, 0))
    {gsPos gsU gsRep : Nat} {gsW : Bool} {gsSeg : MapSkel.Node} {gsRest : List MapSkel.Node}
    (hgsLoop : (isaSeg :: isaRest)[g]? = some (.loop ms.ids.gsLoop gsPos gsU gsRep gsW (gsSeg :: gsRest)))
    (hgsSeg : gsSeg.isSeg = true) (hgsComp : gsSeg.comp = (ms.ids.gs, 0))
    (hne : ms.ids.isaLoop ≠ ms.ids.gsLoop)
    (hopt0 : ∀ (j : Nat) (c : MapSkel.Node), j < a → m.root[j]? = some c → optional c = true)
    (hopt1 : ∀ (j : Nat) (c : MapSkel.Node), 0 < j → j < g → (isaSeg :: isaRest)[j]? = some c → optional c = true)
    {out1 out2 out3 : List Emit}
    (hg1 : GenList ms.consts [a, g] 1 gsRest out1)
    (hg2 : GenList ms.consts [a] (g + 1) ((isaSeg :: isaRest).drop (g + 1)) out2)
    (hg3 : GenList ms.consts [] (a + 1) (m.root.drop (a + 1)) out3)
    (hlen : ips.length = ps.length)
    (hemits : List.zipWith (fun ip p => (ip, segData ms m (SegText.delimsOf h) p.2)) ips ps = out1 ++ out2 ++ out3)
    (hlid : CtxWalk.LidOK? m.root lid)
    (hctl : findMap ms (controlFile h) = some control)
    (hisaNode : fetchIn ms control (isaPath ms) = some ⟨control, cip⟩)
    (hgsNode : fetchIn ms control (gsPath ms) = some ⟨control, cgp⟩)
    (hagree : CtlAgrees ms control m a cip)
    (hidx : getFilename ms.index (gv (SegText.delimsOf h) isa 11) (gv (SegText.delimsOf h) gs 7)
              (gv (SegText.delimsOf h) gs 0) none = some m.file)
    (hmap : findMap ms m.file = some m)
    (hgsM : fetchIn ms m (gsPath ms) = some ⟨m, [a, g, 0]⟩)
    (h278 : gv (SegText.delimsOf h) gs 7 ≠ some v278a ∧ gv (SegText.delimsOf h) gs 7 ≠ some v278b)
    (hisaId : isa.id = Envelope.idISA) (hisa16 : isa.elems.length = 16) (hgsId : gs.id = Envelope.idGS)
    (hneI : Pipeline.NonEmptyComps isa) (hneG : Pipeline.NonEmptyComps gs)
    (hbody : ∀ p ∈ ps, BodySeg p.2) :
    (ctxRead ms lid h { segs := (le0, isa) :: (le1, gs) :: ps, crashed := false, pending := pend }).stop = .done ∧
    (((ctxRead ms lid h { segs := (le0, isa) :: (le1, gs) :: ps, crashed := false, pending := pend }).yields.map
        Ctx.segsOf).flatten.map (fun i => (i.text, i.line))) = (List.range (ps.length + 2)).map (fun k => (k, k + 1)) ∧
    (ctxRead ms lid h { segs := (le0, isa) :: (le1, gs) :: ps, crashed := false, pending := pend }).segs =
      isa :: gs :: ps.map (·.2) := by
  -- the reader's bookkeeping on ISA and GS
  obtain ⟨vI, rs1, es1, hvI, hsI⟩ := env_step_ok (SegText.delimsOf h) isa (Envelope.RState.init false) hneI (fun _ => hisa16)
  obtain ⟨vG, rs2, es2, hvG, hsG⟩ := env_step_ok (SegText.delimsOf h) gs rs1 hneG
    (fun hh => by rw [hgsId] at hh; exact absurd hh (by decide))
  have hem : (out1 ++ out2 ++ out3).map (·.2) = ps.map (fun p => segData ms m (SegText.delimsOf h) p.2) := by
    rw [← hemits]
    clear hemits hbody
    induction ips generalizing ps with
    | nil => cases ps with
      | nil => rfl
      | cons p ps => simp at hlen
    | cons ip ips ih =>
      cases ps with
      | nil => simp at hlen
      | cons p ps =>
        simp only [List.zipWith_cons_cons, List.map_cons, List.cons.injEq, true_and]
        exact ih ps (by simpa using hlen)
  -- seg_count / line of every source segment
  have hsiDef : ∃ si : Nat → Ctx.SegInfo, si = siOf rs1.segCount rs2.segCount
      (countsFrom (SegText.delimsOf h) { rs2 with chk837 := m.is837 } (ps.map (·.2))) := ⟨_, rfl⟩
  obtain ⟨si, hsi⟩ := hsiDef
  have hsiText : ∀ j, ((si j).text, (si j).line) = (j, j + 1) := by rw [hsi]; exact siOf_text _ _ _
  have hsi0 : si 0 = ⟨0, rs1.segCount, 1⟩ := by rw [hsi]; rfl
  have hsi1 : si 1 = ⟨1, rs2.segCount, 2⟩ := by rw [hsi]; rfl
  -- the two pinned rounds
  have hstepI := cStep_isa ms control (SegText.delimsOf h) le0 isa cip vI rs1 es1 hisaId hisaNode hvI hsI
  have hstepG := cStep_gs ms control m (SegText.delimsOf h) le1 isa gs cip cgp a g vG rs1 rs2 es2 hgsId hgsNode hidx hmap
    hgsM hvG hsG
  -- the body
  have hrunOK := walk_accepts_generated ms.consts m.root m.rootId hwf hun hroot hisaSeg hgsLoop hgsSeg hopt0 hopt1 hg1 hg2 hg3
  rw [hisaComp, hgsComp] at hrunOK
  have hv : (gsBaseC ms control m (SegText.delimsOf h) isa gs).vriic ≠ some v278a ∧
      (gsBaseC ms control m (SegText.delimsOf h) isa gs).vriic ≠ some v278b := h278
  obtain ⟨rounds, st', hglue, hans⟩ := glue_body ms control (SegText.delimsOf h)
    (gsBaseC ms control m (SegText.delimsOf h) isa gs) m hv si ps (out1 ++ out2 ++ out3) 2 [a, g, 0] (ctxPinnedCnt ms)
    { rs2 with chk837 := m.is837 } hem hbody hrunOK (by
      intro i _
      have e : 2 + i = i + 2 := by omega
      rw [e, hsi]
      rfl)
  -- the answers of the three parts are `answersOf`
  have hchI : CtxWalk.lpathAt m.root [a] = [ms.ids.isaLoop] := by
    simp [CtxWalk.lpathAt, CtxWalk.recsAt, hroot, MapSkel.Node.ident]
  have hansI : (mkRound ⟨control, cip⟩ ms.ids ⟨0, rs1.segCount, 1⟩ [] [] []
      (le0.map lineErr ++ baseErrs isa ++ es1.map envErr)).ans = CtxWalk.isaAnswer m.root (si 0) [a] := by
    simp [mkRound, answerAt, CtxWalk.isaAnswer, CtxWalk.answerOf, CtxWalk.cvPops, CtxWalk.cvPushes,
      hagree.first, hagree.path, hagree.pos, hagree.ppos, cxPos_eq, hchI, hsi0]
  have hidI : Walker.idAt m.root [a] = ms.ids.isaLoop := by simp [Walker.idAt, Walker.nodeAt, hroot, MapSkel.Node.ident]
  have hidG : Walker.idAt m.root [a, g] = ms.ids.gsLoop := by
    simp [Walker.idAt, Walker.nodeAt, hroot, hgsLoop, MapSkel.Node.ident]
  have hansG : (mkRound ⟨m, [a, g, 0]⟩ ms.ids ⟨1, rs2.segCount, 2⟩ (gsPops ms ⟨control, cip⟩)
      [(cxPath m.root [a, g], cxPos m.root [a, g])] []
      (le1.map lineErr ++ baseErrs gs ++ es2.map envErr)).ans = CtxWalk.gsAnswer m.root (si 1) [a, 0] [a, g] := by
    have hp : gsPops ms ⟨control, cip⟩ = [] := by
      simp only [gsPops, hagree.loopId]
      have : (ms.ids.isaLoop == ms.ids.gsLoop) = false := by simpa using hne
      simp [this]
    have hq : (Walker.idAt m.root [a] == Walker.idAt m.root [a, g]) = false := by rw [hidI, hidG]; simpa using hne
    simp [mkRound, answerAt, CtxWalk.gsAnswer, CtxWalk.answerOf, hp, cxPath_eq, cxPos_eq, CtxWalk.cvPops,
      CtxWalk.cvPushes, hq, hsi1]
  have hisaN : (mkRound ⟨control, cip⟩ ms.ids ⟨0, rs1.segCount, 1⟩ [] [] []
      (le0.map lineErr ++ baseErrs isa ++ es1.map envErr)).isaNode = true := by
    simp [mkRound, hagree.segId]
  have hall : ((mkRound ⟨control, cip⟩ ms.ids ⟨0, rs1.segCount, 1⟩ [] [] []
        (le0.map lineErr ++ baseErrs isa ++ es1.map envErr)) ::
      (mkRound ⟨m, [a, g, 0]⟩ ms.ids ⟨1, rs2.segCount, 2⟩ (gsPops ms ⟨control, cip⟩)
        [(cxPath m.root [a, g], cxPos m.root [a, g])] []
        (le1.map lineErr ++ baseErrs gs ++ es2.map envErr)) :: rounds).map (·.ans) =
      CtxWalk.answersOf ms.consts m.root m.rootId si a g
        (Walker.forceLoopStart (Walker.forceLoopStart [] [(ms.ids.isaLoop, 0)] [(ms.ids.isaLoop, 0), (ms.ids.isa, 0)])
          [(ms.ids.isaLoop, 0), (ms.ids.gsLoop, 0)] [(ms.ids.isaLoop, 0), (ms.ids.gsLoop, 0), (ms.ids.gs, 0)])
        (out1 ++ out2 ++ out3) := by
    simp only [List.map_cons, hansI, hansG, hans, CtxWalk.answersOf]
    rfl
  -- C09 ⟵ C02: these answers are consistent
  have hcons := CtxWalk.answers_consistent ms.consts m.root m.rootId hwf hun hok hroot hisaSeg hgsLoop hgsSeg hne hopt0 hopt1
    hg1 hg2 hg3 lid hlid si
  rw [hisaComp, hgsComp] at hcons
  -- the whole glue run
  have hgrun : GlueRun ms control (SegText.delimsOf h) 0 (cInitAcc ms control).st ((le0, isa) :: (le1, gs) :: ps)
      ((mkRound ⟨control, cip⟩ ms.ids ⟨0, rs1.segCount, 1⟩ [] [] []
        (le0.map lineErr ++ baseErrs isa ++ es1.map envErr)) ::
      (mkRound ⟨m, [a, g, 0]⟩ ms.ids ⟨1, rs2.segCount, 2⟩ (gsPops ms ⟨control, cip⟩)
        [(cxPath m.root [a, g], cxPos m.root [a, g])] []
        (le1.map lineErr ++ baseErrs gs ++ es2.map envErr)) :: rounds) st' :=
    ⟨_, _, _, hstepI, rfl, _, _, _, hstepG, rfl, hglue⟩
  obtain ⟨a', hdone, hy, hsegs, _, _⟩ := cRunSegs_of_glue ms control (SegText.delimsOf h) lid _ 0 (cInitAcc ms control) _ st'
    hgrun (Or.inr hisaN) (by
      have : (cInitAcc ms control).cur = none ∧ (cInitAcc ms control).hasPrev = false := ⟨rfl, rfl⟩
      rw [this.1, this.2, hall]
      exact Ctx.no_crash hcons)
  have hy' : a'.yields ++ Ctx.emit a'.cur = Ctx.ctxRun lid (CtxWalk.answersOf ms.consts m.root m.rootId si a g
        (Walker.forceLoopStart (Walker.forceLoopStart [] [(ms.ids.isaLoop, 0)] [(ms.ids.isaLoop, 0), (ms.ids.isa, 0)])
          [(ms.ids.isaLoop, 0), (ms.ids.gsLoop, 0)] [(ms.ids.isaLoop, 0), (ms.ids.gsLoop, 0), (ms.ids.gs, 0)])
        (out1 ++ out2 ++ out3)) := by
    rw [hy, hall]
    rfl
  have hlenO : (out1 ++ out2 ++ out3).length = ps.length := by
    have := congrArg List.length hem
    simpa using this
  simp only [ctxRead, hctl, hdone, cFinish, Bool.false_eq_true, if_false, outcomeOf]
  refine ⟨trivial, ?_, ?_⟩
  · rw [hy', Ctx.partition hcons, CtxWalk.answersOf_segs, hlenO, List.map_map]
    exact List.map_congr_left (fun j _ => hsiText j)
  · rw [hsegs]; rfl

theorem zipWith_of_maps {α β γ δ : Type} (f : β → δ) (gq : γ → δ → α) :
    ∀ (body : List (δ × γ)) (ps : List β), ps.map f = body.map (·.1) →
      List.zipWith (fun ip p => gq ip (f p)) (body.map (·.2)) ps = body.map (fun b => gq b.2 b.1)
  | [], [], _ => rfl
  | [], _ :: _, h => by simp at h
  | _ :: _, [], h => by simp at h
  | b :: body, p :: ps, h => by
    simp only [List.map_cons, List.cons.injEq] at h
    simp only [List.map_cons, List.zipWith_cons_cons, h.1, zipWith_of_maps f gq body ps h.2]

/-- **(b) C09 at pipeline level, from the text.**  `isa :: gs :: body` are clean segments in the reader's normal form
    (no trailing empty element or component: what `X12Reader` yields for any text), written with any pairwise distinct
    delimiters absent from the data and any CR/LF run after each terminator; the header line declares those delimiters.
    The body is a conformant derivation (Spec/WalkerGen.lean) of the map `m` the index selects, `m` satisfies
    `WFMap ∧ Unambiguous ∧ CtxMapOK`, the requested loop id is admissible (`LidOK?`: none, or an id that names
    segment-anchored loops only and at most one loop on a path).  Then `iter_segments(lid)` runs to its end without an
    exception, and the leaves of the yielded nodes — plain nodes and trees, in yield order, children in tree order — are
    the source segments 0, 1, …, n-1, each exactly once, each carrying its line number; `segs` are the source segments. -/
theorem ctxDoc_partition_generated (ms : Maps) (lid : Option Ctx.LoopId) (d : Delims) (b : List Char)
    (isa gs : Seg) (body : List (Seg × List Nat)) (text : List Char) (h : Tokenizer.Header) (control m : MapX)
    (a g : Nat) (cip cgp : List Nat)
    (hd : d.Distinct) (hb : C01.AllBrk b)
    (hclean : ∀ s ∈ isa :: gs :: body.map (·.1), SegText.Clean d s)
    (hnorm : ∀ s ∈ isa :: gs :: body.map (·.1), SegText.normSeg s = s)
    (henc : SegText.encode d b (isa :: gs :: body.map (·.1)) = some text)
    (hh : Tokenizer.parseHeader (text.take Tokenizer.ISA_LEN) = .ok h) (hdel : SegText.delimsOf h = d)
    (hwf : WFMap m.root = true) (hun : Unambiguous ms.consts m.root = true) (hok : CtxWalk.CtxMapOK m.root = true)
    {isaPos isaU isaRep : Nat} {isaW : Bool} {isaSeg : MapSkel.Node} {isaRest : List MapSkel.Node}
    (hroot : m.root[a]? = some (.loop ms.ids.isaLoop isaPos isaU isaRep isaW (isaSeg :: isaRest)))
    (hisaSeg : isaSeg.isSeg = true) (hisaComp : isaSeg.comp = (ms.ids.isa, 0))
    {gsPos gsU gsRep : Nat} {gsW : Bool} {gsSeg : MapSkel.Node} {gsRest : List MapSkel.Node}
    (hgsLoop : (isaSeg :: isaRest)[g]? = some (.loop ms.ids.gsLoop gsPos gsU gsRep gsW (gsSeg :: gsRest)))
    (hgsSeg : gsSeg.isSeg = true) (hgsComp : gsSeg.comp = (ms.ids.gs, 0))
    (hne : ms.ids.isaLoop ≠ ms.ids.gsLoop)
    (hopt0 : ∀ (j : Nat) (c : MapSkel.Node), j < a → m.root[j]? = some c → optional c = true)
    (hopt1 : ∀ (j : Nat) (c : MapSkel.Node), 0 < j → j < g → (isaSeg :: isaRest)[j]? = some c → optional c = true)
    {out1 out2 out3 : List Emit}
    (hg1 : GenList ms.consts [a, g] 1 gsRest out1)
    (hg2 : GenList ms.consts [a] (g + 1) ((isaSeg :: isaRest).drop (g + 1)) out2)
    (hg3 : GenList ms.consts [] (a + 1) (m.root.drop (a + 1)) out3)
    (hemits : body.map (fun x => (x.2, segData ms m d x.1)) = out1 ++ out2 ++ out3)
    (hlid : CtxWalk.LidOK? m.root lid)
    (hctl : findMap ms (controlFile h) = some control)
    (hisaNode : fetchIn ms control (isaPath ms) = some ⟨control, cip⟩)
    (hgsNode : fetchIn ms control (gsPath ms) = some ⟨control, cgp⟩)
    (hagree : CtlAgrees ms control m a cip)
    (hidx : getFilename ms.index (gv d isa 11) (gv d gs 7) (gv d gs 0) none = some m.file)
    (hmap : findMap ms m.file = some m)
    (hgsM : fetchIn ms m (gsPath ms) = some ⟨m, [a, g, 0]⟩)
    (h278 : gv d gs 7 ≠ some v278a ∧ gv d gs 7 ≠ some v278b)
    (hisaId : isa.id = Envelope.idISA) (hisa16 : isa.elems.length = 16) (hgsId : gs.id = Envelope.idGS)
    (hbodyId : ∀ x ∈ body, x.1.id ≠ Envelope.idISA ∧ x.1.id ≠ Envelope.idGS) :
    (ctxDoc ms lid text).stop = .done ∧
    (((ctxDoc ms lid text).yields.map Ctx.segsOf).flatten.map (fun i => (i.text, i.line))) =
      (List.range (body.length + 2)).map (fun k => (k, k + 1)) ∧
    (ctxDoc ms lid text).segs = isa :: gs :: body.map (·.1) := by
  have hread := C12.read_encoded_reports d hd b hb (isa :: gs :: body.map (·.1)) hclean text henc []
    (by intro k hk; cases hk) h hh hdel
  have hnI : SegText.normSeg isa = isa := hnorm isa (by simp)
  have hnG : SegText.normSeg gs = gs := hnorm gs (by simp)
  have hsegsB : (C12.readSpec [] (body.map (·.1))).segs.map (·.2) = body.map (·.1) := by
    rw [C12.readSpec_segs]
    have : ∀ (l : List Seg), (∀ s ∈ l, SegText.normSeg s = s) → l.map SegText.normSeg = l := by
      intro l hl
      induction l with
      | nil => rfl
      | cons x xs ih => simp only [List.map_cons, hl x (by simp), ih (fun s hs => hl s (List.mem_cons_of_mem _ hs))]
    exact this _ (fun s hs => hnorm s (by simp [hs]))
  have hrr : C12.readSpec [] (isa :: gs :: body.map (·.1)) =
      { segs := ([] ++ C12.lineReports isa, isa) :: ([] ++ C12.lineReports gs, gs) :: (C12.readSpec [] (body.map (·.1))).segs,
        crashed := false, pending := (C12.readSpec [] (body.map (·.1))).pending } := by
    simp only [C12.readSpec, SegText.ReadResult.push, hnI, hnG, C12.readSpec_crashed]
  have hlenP : (C12.readSpec [] (body.map (·.1))).segs.length = body.length := by
    have := congrArg List.length hsegsB
    simpa using this
  have hne' : ∀ s ∈ isa :: gs :: body.map (·.1), Pipeline.NonEmptyComps s :=
    fun s hs c hc => ((hclean s hs).1.2.2 c hc).1
  subst hdel
  have hz := zipWith_of_maps (fun p : List SegText.RErr × Seg => p.2)
    (fun (ip : List Nat) (sg : Seg) => (ip, segData ms m (SegText.delimsOf h) sg)) body
    (C12.readSpec [] (body.map (·.1))).segs hsegsB
  have hbodyP : ∀ p ∈ (C12.readSpec [] (body.map (·.1))).segs, BodySeg p.2 := by
    intro p hp
    have hmem : p.2 ∈ body.map (·.1) := by rw [← hsegsB]; exact List.mem_map_of_mem hp
    obtain ⟨x, hx, hxe⟩ := List.mem_map.1 hmem
    refine ⟨?_, ?_, hne' p.2 (by simp [hmem])⟩
    · rw [← hxe]; exact (hbodyId x hx).1
    · rw [← hxe]; exact (hbodyId x hx).2
  have key := ctxRead_partition ms lid h control m ([] ++ C12.lineReports isa) ([] ++ C12.lineReports gs) isa gs
    (C12.readSpec [] (body.map (·.1))).segs (body.map (·.2)) (C12.readSpec [] (body.map (·.1))).pending a g cip cgp
    hwf hun hok hroot hisaSeg hisaComp hgsLoop hgsSeg hgsComp hne hopt0 hopt1 hg1 hg2 hg3
    (by rw [hlenP]; simp) (by rw [hz]; exact hemits) hlid hctl hisaNode hgsNode hagree hidx hmap hgsM h278 hisaId hisa16 hgsId
    (hne' isa (by simp)) (hne' gs (by simp)) hbodyP
  simp only [ctxDoc, hread, hrr]
  rw [hlenP, hsegsB] at key
  exact key

end Pyx12Verif.Doc
