/-
Non-vacuity for `doc_accepts_generated` (Props/DocAccept.lean): ALL its hypotheses hold for the conformant document `good`
of Props/DocExample.lean — map facts by evaluation (`WFMap`, `Unambiguous`), a hand-made derivation of the body from the map
(`GenList`), conformance of every segment / silence of the reader by the checkers of Proofs/DocCheck.lean — so the theorem
yields, for this document, what the kernel computed there independently: verdict true and no error event.
-/
import Pyx12Verif.Props.DocExample
import Pyx12Verif.Proofs.DocCheck

namespace Pyx12Verif.Doc.Ex
open Pyx12Verif Pyx12Verif.Doc MapSkel WalkerGen

def dlm : Delims := ⟨'~', '*', ':'⟩
def hdr : Tokenizer.Header := { seg := '~', ele := '*', sub := ':', rep := none, icvn := "00401".toList }
def seg (s : String) : Seg := (SegText.parseSeg dlm s.toList).getD ⟨[], []⟩

def isa : Seg :=
  seg "ISA*00*          *00*          *ZZ*SENDER         *ZZ*RECEIVER       *200101*1200*U*00401*000000001*0*P*:"
def gs : Seg := seg "GS*HC*S*R*20200101*1200*1*X*004010X1"
def body : List (Seg × List Nat) :=
  [(seg "ST*837*0001", [0, 1, 1, 0]), (seg "REF*AB*1*X", [0, 1, 1, 1]), (seg "SE*3*0001", [0, 1, 1, 2]),
   (seg "GE*1*1", [0, 1, 2]), (seg "IEA*1*000000001", [0, 2])]

def control : MapX := mapX "x12.control.00401.xml"
def m : MapX := mapX "m.xml"

/-- the reader turns the text `good` into exactly these segments, with nothing to report at line level -/
example : SegText.readAll { rest := good, sizes := [] } = .ok hdr (readOf isa gs body) := by decide +kernel

def K : Walker.Consts := ⟨1, 2, 3⟩
def sdx (sid v01 v02 v03 : Nat) : Walker.SegData := { sid := sid, v01 := v01, v02 := v02, v03 := v03, v011 := v01 }

def eST : Emit := ([0, 1, 1, 0], sdx 15 999 999 0)
def eREF : Emit := ([0, 1, 1, 1], sdx 18 999 999 999)
def eSE : Emit := ([0, 1, 1, 2], sdx 24 999 999 0)
def eGE : Emit := ([0, 1, 2], sdx 25 999 999 0)
def eIEA : Emit := ([0, 2], sdx 26 999 999 0)

theorem hemits : emitsOf ms m dlm body = [eST, eREF, eSE, eGE] ++ [eIEA] ++ [] := by decide +kernel

def nISA : Node := .seg 11 0 10 0 1 [] [el 1]
def nGS : Node := .seg 13 0 10 0 1 [] [el 1]
def nST : Node := .seg 15 0 10 0 1 [] [el 1]
def nREF : Node := .seg 18 0 20 1 2 [] [el 1]
def nSE : Node := .seg 24 0 30 0 1 [] [el 1]
def nGE : Node := .seg 25 0 30 0 1 [] [el 1]
def nIEA : Node := .seg 26 0 30 0 1 [] [el 1]
def nSTLOOP : Node := .loop 14 20 0 0 false [nST, nREF, nSE]
def nGSLOOP : Node := .loop 12 20 0 0 false [nGS, nSTLOOP, nGE]

/-- the rest of the group after GS: one ST loop (ST, one REF, SE), then GE -/
theorem deriv1 : GenList K [0, 1] 1 [nSTLOOP, nGE] [eST, eREF, eSE, eGE] :=
  .cons (o1 := [eST, eREF, eSE]) (o2 := [eGE])
    (.counted rfl (.more (o1 := [eST, eREF, eSE]) (o2 := []) (by decide) (by decide)
      (.loop (s := sdx 15 999 999 0) rfl (by decide +kernel)
        (.cons (o1 := [eREF]) (o2 := [eSE]) (genChild_seg1 (by decide +kernel) (by decide) (by decide))
          (.cons (o1 := [eSE]) (o2 := []) (genChild_seg1 (by decide +kernel) (by decide) (by decide)) .nil)))
      (.stop (by decide))))
    (.cons (o1 := [eGE]) (o2 := []) (genChild_seg1 (by decide +kernel) (by decide) (by decide)) .nil)

theorem deriv2 : GenList K [0] 2 [nIEA] [eIEA] :=
  .cons (o1 := [eIEA]) (o2 := []) (genChild_seg1 (by decide +kernel) (by decide) (by decide)) .nil

def vISA : Envelope.SegView := (Pipeline.viewOf dlm isa).getD ⟨[], none, none, false⟩
def vGS : Envelope.SegView := (Pipeline.viewOf dlm gs).getD ⟨[], none, none, false⟩
def stateAfter (rs : Envelope.RState) (v : Envelope.SegView) : Envelope.RState :=
  match Envelope.step Envelope.Fixes.all rs v with
  | .ok p => p.1
  | _ => rs
def rs1 : Envelope.RState := stateAfter (Envelope.RState.init false) vISA
def rs2 : Envelope.RState := stateAfter rs1 vGS
def rs3 : Envelope.RState := (envQuietB dlm { rs2 with chk837 := m.is837 } (body.map (·.1))).getD rs2

theorem body_ok : ∀ b ∈ body, BodyOk ctx m dlm b := by
  have h : body.all (bodyOkB ctx m dlm) = true := by decide +kernel
  intro b hb
  exact bodyOk_of_b ctx m dlm b (List.all_eq_true.1 h b hb)

/-- **every hypothesis of `doc_accepts_generated` is satisfied by the document `good`** -/
theorem good_accepted :
    (validateRead ms ctx hdr (readOf isa gs body)).outcome = .verdict true ∧
      Quiet (validateRead ms ctx hdr (readOf isa gs body)).events :=
  doc_accepts_generated ms ctx hdr control m isa gs body 0 1 [0, 0] [0, 1, 0] isaDef gsDef vISA vGS rs1 rs2 rs3
    (by decide +kernel) (by decide +kernel)
    (isaSeg := nISA) (isaRest := [nGSLOOP, nIEA]) rfl rfl rfl
    (gsSeg := nGS) (gsRest := [nSTLOOP, nGE]) rfl rfl rfl
    (by intro j c hj; omega) (by intro j c h1 h2; omega)
    deriv1 deriv2 .nil hemits
    rfl rfl rfl rfl
    (segAdm_of_b _ _ _ _ _ (by decide +kernel))
    (by decide +kernel) rfl rfl rfl
    (segAdm_of_b _ _ _ _ _ (by decide +kernel))
    (by decide +kernel) (by decide +kernel) (by decide +kernel) (by decide +kernel) (by decide +kernel)
    (by decide +kernel) (by decide +kernel) (by decide +kernel) (by decide +kernel)
    (envQuiet_of_b _ _ _ _ (by decide +kernel)) (by decide +kernel)
    body_ok (seOk_of_b _ _ (by decide +kernel))

end Pyx12Verif.Doc.Ex
