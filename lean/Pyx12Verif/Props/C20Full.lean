/-
C20 — the statements `Props/C20.lean` left as `…_full : Prop`, closed.

  norm_idempotent_fix_holds : norm_idempotent_fix_full      with -f, EVERY text (trailing empty elements / components
                              included): a second `-f` pass over the output reproduces it character for character
  fix_reread_holds          : fix_reread_full               with -f, EVERY text: a reader of the OUTPUT TEXT reports no
                              IEA / GE / SE count error and no HL sequence error
  norm_idempotent_full      stays refuted (`norm_idempotent_counterexample`, finding D42); the strongest correct forms:
  norm_idempotent_iff / norm_idempotent_fix_iff / norm_idempotent_all
                              for every option combination, once the first pass went through, the second pass reproduces
                              the output IF AND ONLY IF no 16-element ISA of the input has an empty ISA16 (`IsaKept`)

Why the `-f` statements hold beyond the normal-form texts of the `_partial` versions: trimming (`Segment.format` drops
trailing empty elements and components) turns a trailing `''` into `None` for `get_value`.  That changes control-number
comparisons (so the second pass may pop OTHER id errors, e.g. `HL*1*` -> `HL*1` draws `HL2`), but no counter, no kind of
open loop and no value `int()` reads (`Proofs/C20FullSim.lean`: `step_sim`), hence none of the four codes `-f` acts on.

Extensions of the family:
  norm_reterm, norm_reterm_text   normalising commutes with changing the segment terminator
  fix_keeps_other_lines           with -f a segment other than IEA / GE / SE / HL is printed exactly as without -f
  fix_keeps_control_numbers       with -f no element but element 1 (of IEA / GE / SE / HL) changes: control numbers stay
  fix_body_unchanged_refuted      "-f changes envelope trailers only" is FALSE: HL01 is renumbered (as the property text
                                  says: HL sequence numbers are repaired)
-/
import Pyx12Verif.Proofs.C20FullLoop

namespace Pyx12Verif.Norm
open Pyx12Verif SegText Envelope Tokenizer
open Pyx12Verif.C01 (AllBrk encText isBrk)

/-! ### what a reader of the `-f` output gets -/

/-- the text a `-f` pass wrote, read again: the segments written, trimmed (no proviso on the input) -/
theorem fix_output_segments (d : Delims) (hd : d.Distinct) (eol : Bool) (text : List Char)
    (hok : FixOk true d (segments d text).length) (out : List (Seg × Line))
    (hl : loop ⟨eol, true⟩ d (RState.init false) (readSegs d text) = .ok out) :
    segments d (textOf ⟨eol, true⟩ (out.map (·.2))) = (out.map (·.1)).map normSeg ∧
    (∀ s ∈ out.map (·.1), Clean d s) ∧ All2 (Repaired d) (segments d text) (out.map (·.1)) := by
  obtain ⟨hnd, hsmall⟩ := hok rfl
  have hlen : (readSegs d text).length = (segments d text).length := by rw [← readSegs_segments]; simp
  have hshape := loop_fix_shape d hnd.2.2 eol (readSegs d text) _ 0 out rfl bounded_init (by omega) hl
  obtain ⟨i1, i2, i3⟩ := lines_of_shape ⟨eol, true⟩ d hnd _ out (readSegs_clean d text) hshape
  rw [readSegs_segments] at i3
  exact ⟨by rw [i1, segments_textOf _ d hd _ i2], i2, i3⟩

theorem loop_of_normText {o : Options} {d : Delims} {inp : List (List RErr × Seg)} {txt : List Char}
    (h : normText o d inp = .ok txt) :
    ∃ out, loop o d (RState.init false) inp = .ok out ∧ txt = textOf o (out.map (·.2)) := by
  obtain ⟨lines, hnorm, rfl⟩ := normText_ok h
  unfold norm at hnorm
  cases hl : loop o d (RState.init false) inp with
  | raised => rw [hl] at hnorm; cases hnorm
  | crash => rw [hl] at hnorm; cases hnorm
  | ok out =>
    rw [hl] at hnorm
    simp only [Res.map] at hnorm
    injection hnorm with hnorm
    exact ⟨out, rfl, by rw [← hnorm]⟩

theorem isaKept_inp (d : Delims) (text : List Char) (h : IsaKept d text) :
    ∀ x ∈ readSegs d text, x.2.id = idISA → x.2.elems.length = 16 → (normSeg x.2).elems.length = 16 := by
  intro x hx hid hlen
  have hm : x.2 ∈ segments d text := by
    rw [← readSegs_segments]; exact List.mem_map.mpr ⟨x, hx, rfl⟩
  exact h x.2 hm hid hlen

/-! ### 1. `norm_idempotent_fix_full` -/

/-- **With `-f`, every text.**  Normalising the output of `x12norm -f` again with `-f` reproduces it character for
    character (provided no 16-element ISA of the input has an empty ISA16 — finding D42 — and the hypotheses `FixOk`
    under which `-f` is analysed: no delimiter is a decimal digit, fewer than 10^4300 segments). -/
theorem norm_idempotent_fix_holds : norm_idempotent_fix_full := by
  intro d hd eol text txt hok hisa h
  obtain ⟨out, hl, rfl⟩ := loop_of_normText h
  obtain ⟨hnd, hsmall⟩ := hok rfl
  have hlen : (readSegs d text).length = (segments d text).length := by rw [← readSegs_segments]; simp
  obtain ⟨hseg, _, _⟩ := fix_output_segments d hd eol text hok out hl
  have := loop_fix_norm d hnd.2.2 eol (readSegs d text) (readSegs d (textOf ⟨eol, true⟩ (out.map (·.2))))
    (RState.init false) (RState.init false) 0 out (Sim.refl _ rfl) bounded_init (by omega)
    (fun x hx => clean_comps (readSegs_clean d text x hx)) (isaKept_inp d text hisa) hl
    (by rw [readSegs_segments]; exact hseg)
  unfold normText norm
  rw [this]
  simp only [Res.map, List.map_map]
  rfl

/-! ### 2. `fix_reread_full` -/

theorem no_count_of_filter {outs' outs : List (List Err)}
    (h : outs'.map (List.filter isCountErr) = (outs.map (List.filter (fun x => !isCountErr x))).map (List.filter isCountErr)) :
    ∀ e ∈ outs'.flatten, isCountErr e = false := by
  intro e he
  obtain ⟨l, hl, hel⟩ := List.mem_flatten.mp he
  cases hc : isCountErr e with
  | false => rfl
  | true =>
    have h1 : e ∈ l.filter isCountErr := List.mem_filter.mpr ⟨hel, hc⟩
    have h2 : l.filter isCountErr ∈ outs'.map (List.filter isCountErr) := List.mem_map.mpr ⟨l, hl, rfl⟩
    rw [h] at h2
    obtain ⟨l1, hl1, e1⟩ := List.mem_map.mp h2
    obtain ⟨l0, _, e0⟩ := List.mem_map.mp hl1
    rw [← e1, ← e0] at h1
    have h3 := (List.mem_filter.mp (List.mem_filter.mp h1).1).2
    simp [hc] at h3

/-- **With `-f`, every text.**  A reader of the text `x12norm -f` wrote (the deliberate X12Error for a trimmed ISA
    included: then it reports nothing) finds no IEA / GE / SE count error and no HL sequence error. -/
theorem fix_reread_holds : fix_reread_full := by
  intro d hd eol text txt hok h
  obtain ⟨out, hl, rfl⟩ := loop_of_normText h
  obtain ⟨hnd, hsmall⟩ := hok rfl
  have hlen : (readSegs d text).length = (segments d text).length := by rw [← readSegs_segments]; simp
  obtain ⟨hseg, hclean, _⟩ := fix_output_segments d hd eol text hok out hl
  obtain ⟨vs, vs', S, outs, _, k2, _, k4⟩ :=
    loop_fix d hnd.2.2 eol (readSegs d text) (RState.init false) 0 out rfl bounded_init (by omega) hl
  obtain ⟨ws, hws, hp⟩ := viewsOf_norm d (out.map (·.1)) vs' (fun s hs => clean_comps (hclean s hs)) k2
  rw [hseg]
  refine ⟨ws, hws, ?_⟩
  unfold countErrs run
  rcases runSegs_sim hp (Sim.refl _ rfl) k4 with k | ⟨T, outs', k5, _, k7⟩
  · rw [k]; rfl
  · rw [k5]
    simp only [Outcome.bind, errs, List.flatten_append, List.filter_append, List.append_eq_nil_iff,
      List.flatten_cons, List.flatten_nil, List.append_nil]
    constructor
    · rw [List.filter_eq_nil_iff]
      intro e he
      simp [no_count_of_filter k7 e he]
    · exact filter_nc _ (cleanup_nc T)

/-! ### 3. idempotence: the exact side condition, every option combination -/

theorem mem_segments_of_readSegs {d : Delims} {text : List Char} {s : Seg} (h : s ∈ segments d text) :
    ∃ x ∈ readSegs d text, x.2 = s := by
  rw [← readSegs_segments] at h
  obtain ⟨x, hx, e⟩ := List.mem_map.mp h
  exact ⟨x, hx, e⟩

/-- if the second pass goes through at all, every ISA of the first output has 16 elements -/
theorem second_pass_isa (o : Options) (d : Delims) (txt txt2 : List Char)
    (h : normText o d (readSegs d txt) = .ok txt2) :
    ∀ s ∈ segments d txt, s.id = idISA → s.elems.length = 16 := by
  obtain ⟨out, hl, _⟩ := loop_of_normText h
  intro s hs hid
  obtain ⟨x, hx, rfl⟩ := mem_segments_of_readSegs hs
  exact loop_nofix_inv o d _ _ out (fun y hy => clean_comps (readSegs_clean d txt y hy)) hl x hx hid

/-- Without `-f`: the second pass reproduces the output exactly when no 16-element ISA has an empty ISA16. -/
theorem norm_idempotent_iff (d : Delims) (hd : d.Distinct) (eol : Bool) (text txt : List Char)
    (h : normText ⟨eol, false⟩ d (readSegs d text) = .ok txt) :
    normText ⟨eol, false⟩ d (readSegs d txt) = .ok txt ↔ IsaKept d text := by
  constructor
  · intro h2 s hs hid _
    obtain ⟨lines, hn, rfl⟩ := normText_ok h
    obtain ⟨_, _, hseg⟩ := norm_preserves_segments d hd eol text lines hn
    exact second_pass_isa _ d _ _ h2 (normSeg s) (by rw [hseg]; exact List.mem_map.mpr ⟨s, hs, rfl⟩) hid
  · intro hk
    exact norm_idempotent d hd eol text txt hk h

/-- With `-f`: the same equivalence. -/
theorem norm_idempotent_fix_iff (d : Delims) (hd : d.Distinct) (eol : Bool) (text txt : List Char)
    (hok : FixOk true d (segments d text).length)
    (h : normText ⟨eol, true⟩ d (readSegs d text) = .ok txt) :
    normText ⟨eol, true⟩ d (readSegs d txt) = .ok txt ↔ IsaKept d text := by
  constructor
  · intro h2 s hs hid _
    obtain ⟨out, hl, rfl⟩ := loop_of_normText h
    obtain ⟨hseg, _, hrep⟩ := fix_output_segments d hd eol text hok out hl
    obtain ⟨s', hs', hr⟩ := hrep.of_mem_left s hs
    have : s' = s := by
      rcases hr with rfl | ⟨hc, _⟩
      · rfl
      · exact absurd hid (countId_ne_idISA hc)
    subst this
    exact second_pass_isa _ d _ _ h2 (normSeg s') (by rw [hseg]; exact List.mem_map.mpr ⟨s', hs', rfl⟩) hid
  · intro hk
    exact norm_idempotent_fix_holds d hd eol text txt hok hk h

/-- **Idempotence, every option combination** (the strongest correct form of `norm_idempotent_full`). -/
theorem norm_idempotent_all (d : Delims) (hd : d.Distinct) (o : Options) (text txt : List Char)
    (hok : FixOk o.fix d (segments d text).length)
    (h : normText o d (readSegs d text) = .ok txt) :
    normText o d (readSegs d txt) = .ok txt ↔ IsaKept d text := by
  obtain ⟨eol, fix⟩ := o
  cases fix with
  | false => exact norm_idempotent_iff d hd eol text txt h
  | true => exact norm_idempotent_fix_iff d hd eol text txt hok h

/-! ### 4. normalising commutes with changing the terminator -/

/-- Segment level, no hypothesis: under another terminator the normaliser makes the same decisions (same outcome, same
    count repairs) and writes the same lines with the terminator replaced. -/
theorem norm_reterm (o : Options) (d : Delims) (t' : Char) (inp : List (List RErr × Seg)) :
    norm o (withTerm d t') inp = (norm o d inp).map (List.map (swapTerm o t')) ∧
    normSegs o (withTerm d t') inp = normSegs o d inp := by
  unfold norm normSegs
  rw [loop_withTerm]
  cases loop o d (RState.init false) inp with
  | raised => exact ⟨rfl, rfl⟩
  | crash => exact ⟨rfl, rfl⟩
  | ok out => simp [Res.map, List.map_map, Function.comp_def]

/-- Text level: `segs` written with terminator `d.term` (any line breaks `b` between segments) and the same segments
    written with terminator `t'` (line breaks `b'`) are normalised to the same lines up to the terminator: the output
    for the second text is the output for the first with each line's terminator replaced. -/
theorem norm_reterm_text (o : Options) (d : Delims) (t' : Char) (hd : d.Distinct) (hd' : (withTerm d t').Distinct)
    (b b' : List Char) (hb : AllBrk b) (hb' : AllBrk b') (segs : List Seg)
    (hc : ∀ s ∈ segs, Clean d s) (hc' : ∀ s ∈ segs, Clean (withTerm d t') s) :
    normText o (withTerm d t') (readSegs (withTerm d t') (encText (withTerm d t') b' segs)) =
      (norm o d (readSegs d (encText d b segs))).map (fun lines => textOf o (lines.map (swapTerm o t'))) := by
  have e1 : segments d (encText d b segs) = segs.map normSeg := by
    obtain ⟨txt, h1, h2⟩ := C01.segments_encode d hd b hb segs hc
    rw [C01.encode_eq d _ segs (fun s hs => clean_comps (hc s hs))] at h1
    injection h1 with h1
    rw [h1]; exact h2
  have e2 : segments (withTerm d t') (encText (withTerm d t') b' segs) = segs.map normSeg := by
    obtain ⟨txt, h1, h2⟩ := C01.segments_encode (withTerm d t') hd' b' hb' segs hc'
    rw [C01.encode_eq (withTerm d t') _ segs (fun s hs => clean_comps (hc' s hs))] at h1
    injection h1 with h1
    rw [h1]; exact h2
  have hre : loop o (withTerm d t') (RState.init false) (readSegs (withTerm d t') (encText (withTerm d t') b' segs)) =
      loop o (withTerm d t') (RState.init false) (readSegs d (encText d b segs)) :=
    loop_re o (withTerm d t') _ _ _ (by rw [readSegs_segments, readSegs_segments, e1, e2])
  unfold normText
  have hn : norm o (withTerm d t') (readSegs (withTerm d t') (encText (withTerm d t') b' segs)) =
      norm o (withTerm d t') (readSegs d (encText d b segs)) := by
    unfold norm; rw [hre]
  rw [hn, (norm_reterm o d t' _).1]
  cases norm o d (readSegs d (encText d b segs)) with
  | raised => rfl
  | crash => rfl
  | ok lines => rfl

/-! ### 5. `-f` touches element 1 of IEA / GE / SE / HL and nothing else -/

/-- With `-f` the line of a segment other than IEA / GE / SE / HL is the line written without `-f`. -/
theorem fix_keeps_other_lines (d : Delims) (eol : Bool) (text : List Char)
    (hok : FixOk true d (segments d text).length) (lines : List Line)
    (h : norm ⟨eol, true⟩ d (readSegs d text) = .ok lines) :
    All2 (fun s l => ¬ CountId s.id → l = bodyOf d s ++ [d.term] ++ eolOf ⟨eol, false⟩) (segments d text) lines := by
  obtain ⟨segs', h1, _, h3, _⟩ := written d ⟨eol, true⟩ text hok lines h
  rw [h1]
  refine h3.map_right _ ?_
  intro s s' hr hn
  rcases hr with rfl | ⟨hc, _⟩
  · rfl
  · exact absurd hc hn

/-- With `-f` every element from the second on (the control numbers IEA02, GE02, SE02, the HL parent, …) is written as
    read, in every segment; ISA, GS, ST and every other segment keep element 1 as well. -/
theorem fix_keeps_control_numbers (d : Delims) (eol : Bool) (text : List Char)
    (hok : FixOk true d (segments d text).length) (segs' : List Seg)
    (h : normSegs ⟨eol, true⟩ d (readSegs d text) = .ok segs') :
    All2 (fun s s' => s'.id = s.id ∧ (∀ k, s'.elems[k + 1]? = s.elems[k + 1]?) ∧ (¬ CountId s.id → s' = s))
      (segments d text) segs' := by
  refine (fix_alters_nothing_else d eol text hok segs' h).imp ?_
  intro s _ s' ⟨h1, h2, h3, _⟩
  refine ⟨h1, ?_, h3⟩
  intro k
  have e1 : ∀ (l : List (List (List Char))), l[k + 1]? = l.tail[k]? := by
    intro l; cases l <;> simp
  rw [e1, e1, h2]

/-- the over-strong reading "only the envelope trailers SE / GE / IEA change" -/
def fix_body_unchanged_full : Prop :=
  ∀ (d : Delims) (eol : Bool) (text : List Char) (segs' : List Seg), FixOk true d (segments d text).length →
    normSegs ⟨eol, true⟩ d (readSegs d text) = .ok segs' →
    All2 (fun s s' => isEnvId s.id = false → s' = s) (segments d text) segs'

def hlText : List Char := "ST*837*1~HL*5**20~SE*3*1~".toList

theorem hl_witness : normSegs ⟨false, true⟩ C01.dflt (readSegs C01.dflt hlText) =
    .ok (segments C01.dflt "ST*837*1~HL*1**20~SE*3*1~".toList) := by decide +kernel

/-- … is false: HL is a body segment and `-f` renumbers HL01 (the fourth branch of the `if / elif` chain; this is what
    the property text asks for — "wrong IEA/GE/SE counts or HL sequence numbers" —, so no defect). -/
theorem fix_body_unchanged_refuted : ¬ fix_body_unchanged_full := by
  intro h
  have := h C01.dflt false hlText _ (fun _ => ⟨by unfold NoDigit; decide, small_ok _ (by decide +kernel)⟩) hl_witness
  have e1 : segments C01.dflt hlText =
      [⟨"ST".toList, [["837".toList], ["1".toList]]⟩, ⟨"HL".toList, [["5".toList], [[]], ["20".toList]]⟩,
       ⟨"SE".toList, [["3".toList], ["1".toList]]⟩] := by decide +kernel
  have e2 : segments C01.dflt "ST*837*1~HL*1**20~SE*3*1~".toList =
      [⟨"ST".toList, [["837".toList], ["1".toList]]⟩, ⟨"HL".toList, [["1".toList], [[]], ["20".toList]]⟩,
       ⟨"SE".toList, [["3".toList], ["1".toList]]⟩] := by decide +kernel
  rw [e1, e2] at this
  cases this with
  | cons _ h2 =>
    cases h2 with
    | cons hh _ => exact absurd (hh (by decide)) (by decide)

/-! ### 6. the hypotheses are satisfiable; the new statements say something -/

/-- a text NOT in normal form (trailing empty elements and components on GS, ST, HL, SE, GE) with wrong counts:
    outside the scope of the `_partial` theorems, inside the scope of the closed ones -/
def exTrail : List Char :=
  "ISA*a*b*c*d*e*f*g*h*i*j*k*l*7*n*o*:~GS*H*A*B*D*T**~ST*837*~HL*5*~NM1*85::*~HL*7*1:*22**~SE*9*~GE*4**~IEA*3*7~".toList

example : ¬ Normal C01.dflt exTrail := by unfold Normal; decide +kernel
example : IsaKept C01.dflt exTrail := by unfold IsaKept; decide +kernel
example : FixOk true C01.dflt (segments C01.dflt exTrail).length :=
  fun _ => ⟨by unfold NoDigit; decide, small_ok _ (by decide +kernel)⟩

def exTrailOut : List Char :=
  "ISA*a*b*c*d*e*f*g*h*i*j*k*l*7*n*o*:~GS*H*A*B*D*T~ST*837~HL*1~NM1*85~HL*2*1*22~SE*5~GE*1~IEA*1*7~\n".toList

/-- first pass … -/
theorem exTrail_first : normText ⟨false, true⟩ C01.dflt (readSegs C01.dflt exTrail) = .ok exTrailOut := by
  decide +kernel

/-- … and the second pass, by evaluation (what `norm_idempotent_fix_holds` predicts) -/
example : normText ⟨false, true⟩ C01.dflt (readSegs C01.dflt exTrailOut) = .ok exTrailOut := by decide +kernel

/-- the second pass does pop errors the first did not (`HL*1` has no HL02 any more: `HL2`; the trimmed control numbers
    are `None`), none of them a count error -/
example : (viewsOf C01.dflt (segments C01.dflt exTrailOut)).map (fun vs => errs (run Fixes.all false vs)) =
    .ok [Err.hl2] := by decide +kernel

example : (viewsOf C01.dflt (segments C01.dflt exTrail)).map (fun vs => countErrs (run Fixes.all false vs)) =
    .ok [Err.hl1, Err.hl1, Err.st4, Err.gs5, Err.isa021] := by decide +kernel

/-- the same body behind the fixed-width header, as a whole file (replayed on the real script: identical output, and
    the real second pass reproduces it) -/
def exFile : List Char :=
  C01.hdr ++ "GS*H*A*B*D*T**~ST*837*~HL*5*~NM1*85::*~HL*7*1:*22**~SE*9*~GE*4**~IEA*3*000000001~".toList
def exFileOut : List Char :=
  C01.hdr ++ "GS*H*A*B*D*T~ST*837~HL*1~NM1*85~HL*2*1*22~SE*5~GE*1~IEA*1*000000001~\n".toList

example : normFile ⟨false, true⟩ exFile = .ok exFileOut := by decide +kernel
example : normFile ⟨false, true⟩ exFileOut = .ok exFileOut := by decide +kernel

/-- the proviso of the equivalence: for the D42 witness the first pass goes through and the second does not -/
example : ¬ IsaKept C01.dflt witnessText := by unfold IsaKept; decide +kernel

/-- another terminator: same repairs, the lines differ in the terminator only -/
example : norm ⟨true, true⟩ (withTerm C01.dflt '!') (readSegs (withTerm C01.dflt '!') "ST*837*1!HL*5**20!SE*9*1!".toList) =
    .ok ["ST*837*1!\n".toList, "HL*1**20!\n".toList, "SE*3*1!\n".toList] := by decide +kernel
example : (norm ⟨true, true⟩ C01.dflt (readSegs C01.dflt "ST*837*1~\nHL*5**20~\nSE*9*1~\n".toList)).map
      (List.map (swapTerm ⟨true, true⟩ '!')) =
    .ok ["ST*837*1!\n".toList, "HL*1**20!\n".toList, "SE*3*1!\n".toList] := by decide +kernel

example : (withTerm C01.dflt '!').Distinct := ⟨by decide, by decide, by decide⟩
example : ∀ s ∈ segments C01.dflt "ST*837*1~HL*5**20~SE*9*1~".toList, Clean (withTerm C01.dflt '!') s :=
  fun s hs => C01.segments_clean (withTerm C01.dflt '!') "ST*837*1!HL*5**20!SE*9*1!".toList s
    (by revert hs; revert s; decide +kernel)
example : AllBrk ['\r', '\n'] := by intro c hc; simp at hc; rcases hc with rfl | rfl <;> simp [isBrk]

end Pyx12Verif.Norm
