/-
(2) C12 at pipeline level, gaps (a) and (b, same component separator) of Props/DocDelim.lean closed.

`doc_delimiter_independent`         two admissible encodings of ONE segment list — any segment terminators, any element
                                    separators, any CR/LF layout after the terminators, the same component separator —
                                    get the same `DocResult` from `validateDoc`: outcome, per-segment matched nodes and popped
                                    reader errors, event list, final error tree, acknowledgement choice.
`doc_delimiter_independent_views`   the same, itemised (verdict, nodes, errors, acknowledgement body for every clock).

Gap (a) is closed by Proofs/DocDelimRead.lean (`C12.read_encoded_reports`: the whole read result, line-level reports
included, is the delimiter-free `C12.readSpec`).  The hypothesis `hicvn` (both header lines carry the same ISA version at
offset 84..89) is NOT implied by the others: `parseHeader` reads the version by offset, and an element separator that is a
digit can sit inside those five characters (`…00401…` with separator `4` re-encoded with separator `5` reads `…00501…`), so
the statement `doc_delimiter_independent_full` of Props/DocDelim.lean is false as it stands
(`Ex.doc_delimiter_independent_full_counterexample`, Props/DocDelimCounter.lean); see Props/DocDelim3.lean for the
different-separator half.
-/
import Pyx12Verif.Props.DocDelim
import Pyx12Verif.Proofs.DocDelimRead

namespace Pyx12Verif.Doc
open Pyx12Verif

/-- **(2) for one component separator.**  `segs` written with `d₁` / line break `b₁` and with `d₂` / `b₂`; both triples
    pairwise distinct and absent from the data (`C12.Admissible`), both texts begin with a header line that declares the
    triple they were written with (and the same ISA version), `d₁.sub = d₂.sub`.  Then `validateDoc` returns the same
    result for both texts. -/
theorem doc_delimiter_independent (ms : Maps) (ctx : Ctx) (d₁ d₂ : Delims) (b₁ b₂ : List Char) (segs : List Seg)
    (t₁ t₂ : List Char) (hd₁ hd₂ : Tokenizer.Header)
    (hadm : C12.Admissible d₁ d₂ segs) (hb₁ : C01.AllBrk b₁) (hb₂ : C01.AllBrk b₂)
    (e₁ : SegText.encode d₁ b₁ segs = some t₁) (e₂ : SegText.encode d₂ b₂ segs = some t₂)
    (hh₁ : Tokenizer.parseHeader (t₁.take Tokenizer.ISA_LEN) = .ok hd₁)
    (hh₂ : Tokenizer.parseHeader (t₂.take Tokenizer.ISA_LEN) = .ok hd₂)
    (hdel₁ : SegText.delimsOf hd₁ = d₁) (hdel₂ : SegText.delimsOf hd₂ = d₂)
    (hsub : d₁.sub = d₂.sub) (hicvn : hd₁.icvn = hd₂.icvn) :
    validateDoc ms ctx t₁ = validateDoc ms ctx t₂ := by
  obtain ⟨r, hr₁, hr₂, _, _, _⟩ := C12.reencode_reports_invariant d₁ d₂ b₁ b₂ segs hadm hb₁ hb₂ t₁ t₂ e₁ e₂ [] []
    (by intro k hk; cases hk) (by intro k hk; cases hk) hd₁ hd₂ hh₁ hh₂ hdel₁ hdel₂
  have hs : hd₁.sub = hd₂.sub := by
    have h1 : (SegText.delimsOf hd₁).sub = hd₁.sub := rfl
    have h2 : (SegText.delimsOf hd₂).sub = hd₂.sub := rfl
    rw [← h1, ← h2, hdel₁, hdel₂]; exact hsub
  exact doc_delimiter_independent_partial ms ctx t₁ t₂ hd₁ hd₂ r hr₁ hr₂ hicvn hs

/-- the same, itemised: outcome (hence the verdict), per segment the identifier / whether a node was matched / the node /
    the reader errors popped / the events, the whole event list, the final error tree, and — for every clock and random
    value the visitors read — the acknowledgement written -/
theorem doc_delimiter_independent_views (ms : Maps) (ctx : Ctx) (d₁ d₂ : Delims) (b₁ b₂ : List Char) (segs : List Seg)
    (t₁ t₂ : List Char) (hd₁ hd₂ : Tokenizer.Header)
    (hadm : C12.Admissible d₁ d₂ segs) (hb₁ : C01.AllBrk b₁) (hb₂ : C01.AllBrk b₂)
    (e₁ : SegText.encode d₁ b₁ segs = some t₁) (e₂ : SegText.encode d₂ b₂ segs = some t₂)
    (hh₁ : Tokenizer.parseHeader (t₁.take Tokenizer.ISA_LEN) = .ok hd₁)
    (hh₂ : Tokenizer.parseHeader (t₂.take Tokenizer.ISA_LEN) = .ok hd₂)
    (hdel₁ : SegText.delimsOf hd₁ = d₁) (hdel₂ : SegText.delimsOf hd₂ = d₂)
    (hsub : d₁.sub = d₂.sub) (hicvn : hd₁.icvn = hd₂.icvn) :
    (validateDoc ms ctx t₁).outcome = (validateDoc ms ctx t₂).outcome ∧
    (validateDoc ms ctx t₁).segs.map (fun o => (o.sid, o.matched, o.node, o.popped)) =
      (validateDoc ms ctx t₂).segs.map (fun o => (o.sid, o.matched, o.node, o.popped)) ∧
    (validateDoc ms ctx t₁).segs.map SegOut.valErrs = (validateDoc ms ctx t₂).segs.map SegOut.valErrs ∧
    (validateDoc ms ctx t₁).events = (validateDoc ms ctx t₂).events ∧
    (validateDoc ms ctx t₁).final = (validateDoc ms ctx t₂).final ∧
    ∀ p, ackFor (validateDoc ms ctx t₁) p = ackFor (validateDoc ms ctx t₂) p := by
  rw [doc_delimiter_independent ms ctx d₁ d₂ b₁ b₂ segs t₁ t₂ hd₁ hd₂ hadm hb₁ hb₂ e₁ e₂ hh₁ hh₂ hdel₁ hdel₂ hsub hicvn]
  exact ⟨rfl, rfl, rfl, rfl, rfl, fun _ => rfl⟩

end Pyx12Verif.Doc
