/-
(3) C02 at pipeline level: a conformant document is accepted by the WHOLE model — verdict true, no error event.

`doc_accepts_of_runOK`   the composition proper: walker answers as intended (C02 `RunOK`), reader silent (C04), every segment
                         conforms to the definition of its node (C15 `Admissible`, C14 notes)  ⟹  `validateRead` returns
                         `verdict true` and feeds no error event to the error tree (C05 `run_clean` gives the zero count).
`doc_accepts_generated`  the same with the walker hypothesis discharged by C02 `walk_accepts_generated`:
                         `WFMap ∧ Unambiguous` and a derivation `GenList` of the body from the map.
`doc_accepts_generated_text`  from the text, given what the reader yields for it.
-/
import Pyx12Verif.Proofs.DocRun
import Pyx12Verif.Props.C02Walk

namespace Pyx12Verif.Doc
open Pyx12Verif WalkerGen

/-- counter after ISA and GS were pinned (`forceWalkCounterToLoopStart` twice on a fresh walker) -/
def pinnedCnt (ms : Maps) : Walker.Counter :=
  Walker.forceLoopStart
    (Walker.forceLoopStart [] [(ms.ids.isaLoop, 0)] [(ms.ids.isaLoop, 0), (ms.ids.isa, 0)])
    [(ms.ids.isaLoop, 0), (ms.ids.gsLoop, 0)] [(ms.ids.isaLoop, 0), (ms.ids.gsLoop, 0), (ms.ids.gs, 0)]

/-- what the reader yields for a document ISA, GS, body when the line wrapper has nothing to report -/
def readOf (isa gs : Seg) (body : List (Seg × List Nat)) : SegText.ReadResult :=
  { segs := ([], isa) :: ([], gs) :: body.map (fun b => ([], b.1)), crashed := false, pending := [] }

/-- loop state after the ISA round -/
def isaSt (ms : Maps) (control : MapX) (d : Delims) (isa : Seg) (cip : List Nat) (rs1 : Envelope.RState) : LState :=
  { initState ms control with
      rs := rs1, cnt := Walker.forceLoopStart [] [(ms.ids.isaLoop, 0)] [(ms.ids.isaLoop, 0), (ms.ids.isa, 0)],
      node := some ⟨control, cip⟩, icvn := gv d isa 11 }

def isaOut (control : MapX) (d : Delims) (isa : Seg) (cip : List Nat) (evI : List Event) : SegOut :=
  { sid := isa.id, matched := true, node := some (control.file, cip), popped := [],
    events := .addIsa (isaData d isa) :: evI }

/-- the part of the loop state that no longer changes after the GS round -/
def gsBase (ms : Maps) (control m : MapX) (d : Delims) (isa gs : Seg) : LState :=
  { initState ms control with
      mapFile := some m.file, curMap := some m, icvn := gv d isa 11, fic := gv d gs 0, vriic := gv d gs 7 }

def gsOut (m : MapX) (d : Delims) (gs : Seg) (a g : Nat) (rs2 : Envelope.RState) (evG : List Event) : SegOut :=
  { sid := gs.id, matched := true, node := some (m.file, [a, g, 0]), popped := [],
    events := .addGs (gsData d gs { rs2 with chk837 := m.is837 }) :: evG }

/-- error tree after the ISA round -/
theorem run_isa_events (x : ErrTree.IsaData) (tl : List Event) (h1 : EleOnly tl) (h2 : Quiet tl) :
    ∃ s', ErrTree.run ErrTree.State.init (.addIsa x :: tl) = .ok s' ∧ s'.curIsa ≠ none ∧
      s'.curSeg ≠ ErrTree.SegPtr.none ∧ ErrTree.NoError s'.tree ∧ s'.lost = 0 := by
  obtain ⟨s2, hs2, _, _, a3, _, _, a6⟩ := run_addEles tl (ErrTree.addIsaLoop ErrTree.State.init x) h1 h2
    (by simp [ErrTree.addIsaLoop])
  have hrun : ErrTree.run ErrTree.State.init (.addIsa x :: tl) = .ok s2 := by simp only [ErrTree.run, ErrTree.step, hs2]
  have hclean := ErrTree.run_clean (.addIsa x :: tl) ErrTree.State.init s2
    (by intro e he; rcases List.mem_cons.1 he with rfl | h; rfl; exact h2 e h)
    ⟨(by intro a ha; cases ha), rfl⟩ hrun
  refine ⟨s2, hrun, ?_, ?_, hclean.1, hclean.2⟩
  · rw [a3]; simp [ErrTree.addIsaLoop]
  · rw [a6]; simp [ErrTree.addIsaLoop]

/-- error tree after the GS round: all pointers but the set are in place -/
theorem run_gs_events (s : ErrTree.State) (x : ErrTree.GsData) (tl : List Event) (h1 : EleOnly tl) (h2 : Quiet tl)
    (hi : s.curIsa ≠ none) (hc : ErrTree.NoError s.tree ∧ s.lost = 0) :
    ∃ s', ErrTree.run s (.addGs x :: tl) = .ok s' ∧ Ptr s' false ∧ ErrTree.NoError s'.tree ∧ s'.lost = 0 := by
  obtain ⟨i, hi'⟩ := isSome_of_ne_none hi
  have hstep : ErrTree.step s (.addGs x) = .ok
      { s with tree := ErrTree.modIsa s.tree i (fun a => { a with children := a.children ++ [ErrTree.mkGs x] }),
               curGs := some (i, ErrTree.gsChildCount s.tree i),
               curSeg := .host (.gs i (ErrTree.gsChildCount s.tree i)) } := by
    simp only [ErrTree.step, ErrTree.addGsLoop, hi']
  obtain ⟨s2, hs2, _, _, a3, a4, _, a6⟩ := run_addEles tl _ h1 h2 (by simp : (ErrTree.State.curSeg
      { s with tree := ErrTree.modIsa s.tree i (fun a => { a with children := a.children ++ [ErrTree.mkGs x] }),
               curGs := some (i, ErrTree.gsChildCount s.tree i),
               curSeg := .host (.gs i (ErrTree.gsChildCount s.tree i)) }) ≠ ErrTree.SegPtr.none)
  have hrun : ErrTree.run s (.addGs x :: tl) = .ok s2 := by simp only [ErrTree.run, hstep, hs2]
  have hclean := ErrTree.run_clean (.addGs x :: tl) s s2
    (by intro e he; rcases List.mem_cons.1 he with rfl | h; rfl; exact h2 e h) hc hrun
  refine ⟨s2, hrun, ⟨?_, ?_, ?_, ?_⟩, hclean.1, hclean.2⟩
  · rw [a3]; simp [hi']
  · rw [a4]; simp
  · rw [a6]; simp
  · intro h; cases h

/-- **(3) composition.**  Document = ISA, GS, body.  Hypotheses, each the conclusion (or the domain) of a component property:

  maps      the control map has `/ISA_LOOP/ISA` and `/ISA_LOOP/GS_LOOP/GS`; the index sends (ISA12, GS08, GS01) to the
            file of `m`; `m` has `/ISA_LOOP/GS_LOOP/GS` at index path `[a, g, 0]`; GS08 is not one of the two 278 releases
            that switch maps at BHT;
  walker    C02 `RunOK`: started at the GS node with the pinned counter, the walker returns for every body segment the
            intended node and reports nothing;
  reader    C04: `_parse_segment` reports nothing for ISA, GS and the body (`EnvQuiet`; `check_837_lx` switched at GS as
            x12n_document does), nothing is left open at the end (`cleanup = []`), identifiers are well formed and no segment
            is empty (`baseErrs = []`), the line wrapper has nothing to report (`readOf`);
  values    C15 / C14: every segment conforms to the definition of its node (`SegAdm`: `ElemValid.Admissible` for every
            element and component, no surplus, notes satisfied);
  order     no SE before the first ST (`SeOk`; part of envelope consistency).

Then the verdict is `True` and no error is handed to the error handler. -/
theorem doc_accepts_of_runOK (ms : Maps) (ctx : Ctx) (h : Tokenizer.Header) (control m : MapX)
    (isa gs : Seg) (body : List (Seg × List Nat)) (a g : Nat) (cip cgp : List Nat) (isaDef gsDef : SegDef)
    (vISA vGS : Envelope.SegView) (rs1 rs2 rs3 : Envelope.RState)
    (hctl : findMap ms (controlFile h) = some control)
    (hisaNode : fetchIn ms control (isaPath ms) = some ⟨control, cip⟩)
    (hgsNode : fetchIn ms control (gsPath ms) = some ⟨control, cgp⟩)
    (hisaDef : lookupDef control cip = some isaDef)
    (hisaAdm : SegAdm ctx control.v5010 (SegText.delimsOf h) isaDef isa)
    (hidx : getFilename ms.index (gv (SegText.delimsOf h) isa 11) (gv (SegText.delimsOf h) gs 7)
              (gv (SegText.delimsOf h) gs 0) none = some m.file)
    (hmap : findMap ms m.file = some m)
    (hgsM : fetchIn ms m (gsPath ms) = some ⟨m, [a, g, 0]⟩)
    (hgsDef : lookupDef m [a, g, 0] = some gsDef)
    (hgsAdm : SegAdm ctx m.v5010 (SegText.delimsOf h) gsDef gs)
    (h278 : gv (SegText.delimsOf h) gs 7 ≠ some v278a ∧ gv (SegText.delimsOf h) gs 7 ≠ some v278b)
    (hisaId : isa.id = Envelope.idISA) (hgsId : gs.id = Envelope.idGS)
    (hbIsa : baseErrs isa = []) (hbGs : baseErrs gs = [])
    (hvIsa : Pipeline.viewOf (SegText.delimsOf h) isa = some vISA)
    (hsIsa : Envelope.step Envelope.Fixes.all (Envelope.RState.init false) vISA = .ok (rs1, []))
    (hvGs : Pipeline.viewOf (SegText.delimsOf h) gs = some vGS)
    (hsGs : Envelope.step Envelope.Fixes.all rs1 vGS = .ok (rs2, []))
    (henv : EnvQuiet (SegText.delimsOf h) { rs2 with chk837 := m.is837 } (body.map (·.1)) rs3)
    (hclean : Envelope.cleanup rs3 = [])
    (hbody : ∀ b ∈ body, BodyOk ctx m (SegText.delimsOf h) b)
    (hse : SeOk false (body.map (·.1.id)))
    (hrun : RunOK ms.consts m.root m.rootId (pinnedCnt ms) [a, g, 0] (emitsOf ms m (SegText.delimsOf h) body)) :
    (validateRead ms ctx h (readOf isa gs body)).outcome = .verdict true ∧
      Quiet (validateRead ms ctx h (readOf isa gs body)).events := by
  obtain ⟨evI, hevI, hqI⟩ := segEvents_clean ctx control.v5010 (SegText.delimsOf h) isaDef isa hisaAdm
  have heI := segEvents_eleOnly ctx control.v5010 (SegText.delimsOf h) isaDef isa
  rw [hevI] at heI
  obtain ⟨evG, hevG, hqG⟩ := segEvents_clean ctx m.v5010 (SegText.delimsOf h) gsDef gs hgsAdm
  have heG := segEvents_eleOnly ctx m.v5010 (SegText.delimsOf h) gsDef gs
  rw [hevG] at heG
  have hgsNe : gs.id ≠ Envelope.idISA := by rw [hgsId]; decide
  have hne1 : ¬ Envelope.idGS = Envelope.idISA := by decide
  have hne2 : ¬ Envelope.idGS = Envelope.idIEA := by decide
  -- the ISA round
  have hstepI : stepSeg ms ctx control (SegText.delimsOf h) [] isa (initState ms control) =
      .next (isaSt ms control (SegText.delimsOf h) isa cip rs1) (isaOut control (SegText.delimsOf h) isa cip evI) := by
    simp only [stepSeg, hvIsa, withView, hbIsa, initState, List.map_nil, List.append_nil, hsIsa, afterReader, afterStep,
      findNode, hisaId, if_true, hisaNode, afterFind, branch, LState.popped, popEvents, validate, hisaDef, hevI,
      List.nil_append, Bool.and_self, NodeRef.key, List.cons_append, isaSt, isaOut]
  -- the GS round
  have hstepG : stepSeg ms ctx control (SegText.delimsOf h) [] gs (isaSt ms control (SegText.delimsOf h) isa cip rs1) =
      .next (bodyState (gsBase ms control m (SegText.delimsOf h) isa gs) m [a, g, 0] (pinnedCnt ms)
              { rs2 with chk837 := m.is837 })
        (gsOut m (SegText.delimsOf h) gs a g rs2 evG) := by
    simp only [stepSeg, hvGs, withView, hbGs, isaSt, initState, List.map_nil, List.append_nil, hsGs, afterReader, afterStep,
      findNode, hgsId, hne1, hne2, if_true, if_false, hgsNode, afterFind, branch, gsBranch, Option.isNone_none, or_true,
      withNewMap, hidx, hmap, gsTail, hgsM, LState.popped, popEvents, validate, hgsDef, hevG,
      List.nil_append, Bool.and_self, NodeRef.key, List.cons_append, bodyState, gsBase, gsOut, pinnedCnt]
  -- the error tree after ISA and GS
  obtain ⟨e1, hrun1, hi1, _, hc1, hl1⟩ := run_isa_events (isaData (SegText.delimsOf h) isa) evI heI hqI
  obtain ⟨e2, hrun2, hp2, hc2, hl2⟩ :=
    run_gs_events e1 (gsData (SegText.delimsOf h) gs { rs2 with chk837 := m.is837 }) evG heG hqG hi1 ⟨hc1, hl1⟩
  -- the body
  have hq2 : Quiet (pushOut (pushOut (initAcc ms control) (isaSt ms control (SegText.delimsOf h) isa cip rs1) e1
        (isaOut control (SegText.delimsOf h) isa cip evI))
      (bodyState (gsBase ms control m (SegText.delimsOf h) isa gs) m [a, g, 0] (pinnedCnt ms) { rs2 with chk837 := m.is837 })
      e2 (gsOut m (SegText.delimsOf h) gs a g rs2 evG)).events := by
    intro e he
    simp only [pushOut, initAcc, isaOut, gsOut, List.nil_append, List.mem_append, List.mem_cons] at he
    rcases he with (rfl | he) | (rfl | he)
    · rfl
    · exact hqI e he
    · rfl
    · exact hqG e he
  obtain ⟨a', cur', cnt', seen', hbodyRun, hst', _, hc', hl', hq'⟩ :=
    run_body ms ctx control (SegText.delimsOf h) (gsBase ms control m (SegText.delimsOf h) isa gs)
      m h278 body [a, g, 0] (pinnedCnt ms) { rs2 with chk837 := m.is837 } rs3 false
      (pushOut (pushOut (initAcc ms control) (isaSt ms control (SegText.delimsOf h) isa cip rs1) e1
          (isaOut control (SegText.delimsOf h) isa cip evI))
        (bodyState (gsBase ms control m (SegText.delimsOf h) isa gs) m [a, g, 0] (pinnedCnt ms) { rs2 with chk837 := m.is837 })
        e2 (gsOut m (SegText.delimsOf h) gs a g rs2 evG))
      rfl hrun henv hbody hse hp2 ⟨hc2, hl2⟩ hq2
  -- assemble
  have hloop : runSegs ms ctx control (SegText.delimsOf h) (initAcc ms control) (readOf isa gs body).segs = .done a' := by
    have hr1 : ErrTree.run (initAcc ms control).est (isaOut control (SegText.delimsOf h) isa cip evI).events = .ok e1 := hrun1
    have hr2 : ErrTree.run e1 (gsOut m (SegText.delimsOf h) gs a g rs2 evG).events = .ok e2 := hrun2
    have hi0 : (initAcc ms control).st = initState ms control := rfl
    have hst1 : (pushOut (initAcc ms control) (isaSt ms control (SegText.delimsOf h) isa cip rs1) e1
        (isaOut control (SegText.delimsOf h) isa cip evI)).st = isaSt ms control (SegText.delimsOf h) isa cip rs1 := rfl
    have he1 : (pushOut (initAcc ms control) (isaSt ms control (SegText.delimsOf h) isa cip rs1) e1
        (isaOut control (SegText.delimsOf h) isa cip evI)).est = e1 := rfl
    simp only [readOf, runSegs, hi0, hstepI, hr1, hst1, hstepG, he1, hr2]
    exact hbodyRun
  have hfin : finalErrs (readOf isa gs body) a'.st = [] := by
    simp only [finalErrs, hst', bodyState, readOf, List.map_nil, List.append_nil, List.nil_append, hclean]
  have hvalid : a'.st.valid = true := by rw [hst']; rfl
  have hcount : ErrTree.errorCount a'.est.tree = 0 :=
    (ErrTree.errorCount_zero _).2 (ErrTree.NoError_of_clean _ hc')
  have hcr : (readOf isa gs body).crashed = false := rfl
  simp only [validateRead, hctl, hloop, finish, hcr, Bool.false_eq_true, if_false, hfin, List.map_nil, ErrTree.run,
    finishDone, List.append_nil, ErrTree.verdict, hvalid, hcount]
  exact ⟨rfl, hq'⟩

/-- **(3) with the walker hypothesis discharged by C02.**  The body is a conformant derivation of the map (Spec/WalkerGen.lean):
    the rest of the group `out1`, the rest of the interchange `out2`, what follows at top level `out3`, for a map that
    satisfies `WFMap ∧ Unambiguous`, whose interchange / group loops carry the ids the glue pins (`ms.ids`). -/
theorem doc_accepts_generated (ms : Maps) (ctx : Ctx) (h : Tokenizer.Header) (control m : MapX)
    (isa gs : Seg) (body : List (Seg × List Nat)) (a g : Nat) (cip cgp : List Nat) (isaDef gsDef : SegDef)
    (vISA vGS : Envelope.SegView) (rs1 rs2 rs3 : Envelope.RState)
    (hwf : WFMap m.root = true) (hun : Unambiguous ms.consts m.root = true)
    {isaPos isaU isaRep : Nat} {isaW : Bool} {isaSeg : MapSkel.Node} {isaRest : List MapSkel.Node}
    (hroot : m.root[a]? = some (.loop ms.ids.isaLoop isaPos isaU isaRep isaW (isaSeg :: isaRest)))
    (hisaSeg : isaSeg.isSeg = true) (hisaComp : isaSeg.comp = (ms.ids.isa, 0))
    {gsPos gsU gsRep : Nat} {gsW : Bool} {gsSeg : MapSkel.Node} {gsRest : List MapSkel.Node}
    (hgsLoop : (isaSeg :: isaRest)[g]? = some (.loop ms.ids.gsLoop gsPos gsU gsRep gsW (gsSeg :: gsRest)))
    (hgsSeg : gsSeg.isSeg = true) (hgsComp : gsSeg.comp = (ms.ids.gs, 0))
    (hopt0 : ∀ (j : Nat) (c : MapSkel.Node), j < a → m.root[j]? = some c → optional c = true)
    (hopt1 : ∀ (j : Nat) (c : MapSkel.Node), 0 < j → j < g → (isaSeg :: isaRest)[j]? = some c → optional c = true)
    {out1 out2 out3 : List Emit}
    (hg1 : GenList ms.consts [a, g] 1 gsRest out1)
    (hg2 : GenList ms.consts [a] (g + 1) ((isaSeg :: isaRest).drop (g + 1)) out2)
    (hg3 : GenList ms.consts [] (a + 1) (m.root.drop (a + 1)) out3)
    (hemits : emitsOf ms m (SegText.delimsOf h) body = out1 ++ out2 ++ out3)
    (hctl : findMap ms (controlFile h) = some control)
    (hisaNode : fetchIn ms control (isaPath ms) = some ⟨control, cip⟩)
    (hgsNode : fetchIn ms control (gsPath ms) = some ⟨control, cgp⟩)
    (hisaDef : lookupDef control cip = some isaDef)
    (hisaAdm : SegAdm ctx control.v5010 (SegText.delimsOf h) isaDef isa)
    (hidx : getFilename ms.index (gv (SegText.delimsOf h) isa 11) (gv (SegText.delimsOf h) gs 7)
              (gv (SegText.delimsOf h) gs 0) none = some m.file)
    (hmap : findMap ms m.file = some m)
    (hgsM : fetchIn ms m (gsPath ms) = some ⟨m, [a, g, 0]⟩)
    (hgsDef : lookupDef m [a, g, 0] = some gsDef)
    (hgsAdm : SegAdm ctx m.v5010 (SegText.delimsOf h) gsDef gs)
    (h278 : gv (SegText.delimsOf h) gs 7 ≠ some v278a ∧ gv (SegText.delimsOf h) gs 7 ≠ some v278b)
    (hisaId : isa.id = Envelope.idISA) (hgsId : gs.id = Envelope.idGS)
    (hbIsa : baseErrs isa = []) (hbGs : baseErrs gs = [])
    (hvIsa : Pipeline.viewOf (SegText.delimsOf h) isa = some vISA)
    (hsIsa : Envelope.step Envelope.Fixes.all (Envelope.RState.init false) vISA = .ok (rs1, []))
    (hvGs : Pipeline.viewOf (SegText.delimsOf h) gs = some vGS)
    (hsGs : Envelope.step Envelope.Fixes.all rs1 vGS = .ok (rs2, []))
    (henv : EnvQuiet (SegText.delimsOf h) { rs2 with chk837 := m.is837 } (body.map (·.1)) rs3)
    (hclean : Envelope.cleanup rs3 = [])
    (hbody : ∀ b ∈ body, BodyOk ctx m (SegText.delimsOf h) b)
    (hse : SeOk false (body.map (·.1.id))) :
    (validateRead ms ctx h (readOf isa gs body)).outcome = .verdict true ∧
      Quiet (validateRead ms ctx h (readOf isa gs body)).events := by
  have hrun := walk_accepts_generated ms.consts m.root m.rootId hwf hun hroot hisaSeg hgsLoop hgsSeg hopt0 hopt1 hg1 hg2 hg3
  rw [hisaComp, hgsComp, ← hemits] at hrun
  exact doc_accepts_of_runOK ms ctx h control m isa gs body a g cip cgp isaDef gsDef vISA vGS rs1 rs2 rs3
    hctl hisaNode hgsNode hisaDef hisaAdm hidx hmap hgsM hgsDef hgsAdm h278 hisaId hgsId hbIsa hbGs hvIsa hsIsa hvGs hsGs
    henv hclean hbody hse hrun

/-- from the text: when the reader yields ISA, GS and the body for it without reporting anything at line level -/
theorem doc_accepts_generated_text (ms : Maps) (ctx : Ctx) (text : List Char) (h : Tokenizer.Header)
    (isa gs : Seg) (body : List (Seg × List Nat))
    (hread : SegText.readAll { rest := text, sizes := [] } = .ok h (readOf isa gs body))
    (hacc : (validateRead ms ctx h (readOf isa gs body)).outcome = .verdict true ∧
      Quiet (validateRead ms ctx h (readOf isa gs body)).events) :
    (validateDoc ms ctx text).outcome = .verdict true ∧ Quiet (validateDoc ms ctx text).events := by
  unfold validateDoc
  rw [hread]
  exact hacc

end Pyx12Verif.Doc
