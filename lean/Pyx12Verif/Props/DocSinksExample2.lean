/-
Non-vacuity for Props/DocSinks.lean, second part (maps and documents of Props/DocSinksExample.lean): the HTML report of a
faulty document (segment lines, marks, message lines).
-/
import Pyx12Verif.Props.DocSinksExample

namespace Pyx12Verif.Doc.ExS
open Pyx12Verif Pyx12Verif.Doc Pyx12Verif.Doc.Ex MapSkel WalkerGen

/-- the faulty document: one segment line per reader segment, numbered, decoding to the segment as read -/
example : (docHtmlWrites msS ctx sc faulty).map
      (fun ws => ((ws.filter Html.isSegWrite).map (fun w => Html.unescape (Html.stripTags w))).drop 2) =
    some ["3: ST*837*0001~\n".toList, "4: REF*ABCD*1~\n".toList, "5: SE*3*0001~\n".toList, "6: GE*1*1~\n".toList,
          "7: IEA*1*000000001~\n".toList] := by decide +kernel

/-- … its two element messages after the REF line, the marks on REF01 and REF02 -/
example : (docHtmlWrites msS ctx sc faulty).map (fun ws => (ws.drop 7).take 3 |>.map Html.tags) =
    some ["<span class=\"seg\"><span class=\"ele_err\"></span><span class=\"ele_err\"></span></span><br />".toList,
          "<span class=\"error\"></span><br />".toList, "<span class=\"error\"></span><br />".toList] := by decide +kernel

end Pyx12Verif.Doc.ExS
