/-
Non-vacuity for Props/DocSinksTotal.lean : `doc_sinks_total` — every hypothesis holds for the example maps of
Props/DocSinksExample.lean, so the theorem speaks about EVERY text with sane delimiters on them; each of the three ways a run
can end is attained (kernel evaluation).
-/
import Pyx12Verif.Props.DocSinksTotal

namespace Pyx12Verif.Doc.ExS
open Pyx12Verif Pyx12Verif.Doc Pyx12Verif.Doc.Ex

theorem refSWF : Syn.AllWF refDefS.notes := by
  intro n hn
  simp only [refDefS, List.mem_singleton] at hn
  subst hn
  exact ⟨⟨by decide, by decide⟩, Or.inl rfl⟩

theorem msS_wf : MapsWF msS := by
  intro m hm p hp
  simp only [msS, List.mem_cons, List.mem_nil_iff, or_false] at hm
  rcases hm with rfl | rfl <;>
  · simp only [mapS, List.mem_cons, List.mem_nil_iff, or_false] at hp
    rcases hp with rfl | rfl | rfl | rfl | rfl | rfl | rfl
    · exact ⟨by decide, allWF_nil⟩
    · exact ⟨by decide, allWF_nil⟩
    · exact ⟨by decide, allWF_nil⟩
    · exact ⟨by decide, refSWF⟩
    · exact ⟨by decide, allWF_nil⟩
    · exact ⟨by decide, allWF_nil⟩
    · exact ⟨by decide, allWF_nil⟩

theorem ctlS_ok (f : Str) (control : MapX) (hf : f = ctl401 ∨ f = ctl501) (h : findMap msS f = some control) :
    ControlOk msS control := by
  rcases hf with rfl | rfl
  · have hc : control = mapS "x12.control.00401.xml" := by
      have : findMap msS ctl401 = some (mapS "x12.control.00401.xml") := rfl
      rw [this] at h
      exact (Option.some.inj h).symm
    subst hc
    refine ⟨⟨_, (rfl : fetchIn msS (mapS "x12.control.00401.xml") (isaPath msS) =
        some ⟨mapS "x12.control.00401.xml", [0, 0]⟩)⟩, ⟨_, (rfl :
        fetchIn msS (mapS "x12.control.00401.xml") (gsPath msS) = some ⟨mapS "x12.control.00401.xml", [0, 1, 0]⟩)⟩, ?_⟩
    intro n sd hn hl
    have hn' : fetchIn msS (mapS "x12.control.00401.xml") (isaPath msS) = some ⟨mapS "x12.control.00401.xml", [0, 0]⟩ :=
      rfl
    rw [hn'] at hn
    have := Option.some.inj hn
    subst this
    have hl' : lookupDef (mapS "x12.control.00401.xml") [0, 0] = some isaDef := rfl
    rw [hl'] at hl
    have := Option.some.inj hl
    subst this
    exact ⟨_, _, rfl⟩
  · have : findMap msS ctl501 = none := rfl
    rw [this] at h
    cases h

theorem msS_nested : EnvNested msS := envNested_of_b msS (by decide +kernel)

/-- **`doc_sinks_total` applies to the example maps, for every text with sane delimiters** -/
theorem msS_sinks_total (text : List Char)
    (hsane : ∀ hd, Tokenizer.parseHeader (text.take Tokenizer.ISA_LEN) = .ok hd → SaneHeader hd) :
    SinksEnd msS ctx sc text :=
  doc_sinks_total msS msS_wf (sinkMapsOK_of_b _ (by decide +kernel)) msS_ok2 (ctlIsaOK_of_b _ (by decide +kernel)) ctlS_ok
    msS_nested ctx sc text hsane

/-! the three ways to end are attained -/

example : (validateDoc msS ctx good).outcome = .verdict true ∧ (docXml msS ctx good).isSome = true ∧
    (docHtmlWrites msS ctx sc good).isSome = true := by decide +kernel
example : (validateDoc msS ctx noMap).outcome = .mapNotFound ∧ docXml msS ctx noMap = none ∧
    docHtmlWrites msS ctx sc noMap = none := by decide +kernel
example : (validateDoc msS ctx orphanSe).outcome = .crash (.errTree .stErrorNoSt) ∧ docXml msS ctx orphanSe = none ∧
    docHtmlWrites msS ctx sc orphanSe = none := by decide +kernel

end Pyx12Verif.Doc.ExS
