/-
Non-vacuity for Props/DocFaultSets.lean (`doc_fault_other_sets_accepted`, `runOK_of_multi_sets`): one group with three
transaction sets, REF01 too long in the SECOND one.  The first and the third set stay accepted (AK5*A), the second is
rejected (AK5*R) — by the theorem, and by kernel evaluation of `validateDoc` and of the 997 written for it.
-/
import Pyx12Verif.Props.DocFaultExample

namespace Pyx12Verif.Doc.Ex
open Pyx12Verif Pyx12Verif.Doc MapSkel WalkerGen

def refOk : Seg × List Nat := (seg "REF*AB*1*X", [0, 1, 1, 1])
def st2P : Seg × List Nat := (seg "ST*837*0002", [0, 1, 1, 0])
def se2P : Seg × List Nat := (seg "SE*3*0002", [0, 1, 1, 2])
def st3P : Seg × List Nat := (seg "ST*837*0003", [0, 1, 1, 0])
def se3P : Seg × List Nat := (seg "SE*3*0003", [0, 1, 1, 2])
def ge3P : Seg × List Nat := (seg "GE*3*1", [0, 1, 2])

def set1 : BSet := ⟨stP, [refOk], seP⟩
def set3 : BSet := ⟨st3P, [refOk], se3P⟩

def faulty6 : List Char :=
  (isaText ++ ("GS*HC*S*R*20200101*1200*1*X*004010X1~ST*837*0001~REF*AB*1*X~SE*3*0001~ST*837*0002~REF*ABCD*1*X~SE*3*0002~" ++
    "ST*837*0003~REF*AB*1*X~SE*3*0003~GE*3*1~IEA*1*000000001~")).toList

/-- (a notation, so that the statements below mention literally the term the theorem speaks about) -/
local notation "body6" => setsBody [set1] [set3] st2P [] refLong [] se2P [ge3P, ieaP]

example : SegText.readAll { rest := faulty6, sizes := [] } = .ok hdr (readOf isa gs body6) := by decide +kernel

/-- one set as the walker sees it (the control numbers are not among the strings the skeleton mentions) -/
def eSet : List Emit := [eST, eREF, eSE]

theorem eSet_deriv : GenOne K [0, 1, 1] nSTLOOP eSet :=
  .loop (s := sdx 15 999 999 0) rfl (by decide +kernel)
    (.cons (o1 := [eREF]) (o2 := [eSE]) (genChild_seg1 (by decide +kernel) (by decide) (by decide))
      (.cons (o1 := [eSE]) (o2 := []) (genChild_seg1 (by decide +kernel) (by decide) (by decide)) .nil))

/-- the walker hypothesis from C02 `walk_accepts_multi_sets`: three instances of ST_LOOP, then GE; then IEA -/
theorem run6 : RunOK ms.consts m.root m.rootId (pinnedCnt ms) [0, 1, 0] (emitsOf ms m dlm body6) := by
  have h := runOK_of_multi_sets ms m 0 1 (stLoop := nSTLOOP) (geRest := [nGE]) exGroup rfl (by decide)
    (sets := [eSet, eSet, eSet]) (trailer := [eGE]) (out2 := [eIEA]) (out3 := [])
    (by intro o ho; simp only [List.mem_cons, List.not_mem_nil, or_false, or_self] at ho; subst ho; exact eSet_deriv)
    (Or.inl rfl) (by intro _; simp)
    (.cons (o1 := [eGE]) (o2 := []) (genChild_seg1 (by decide +kernel) (by decide) (by decide)) .nil)
    deriv2 .nil
  have e : emitsOf ms m dlm body6 = [eSet, eSet, eSet].flatten ++ [eGE] ++ ([eIEA] ++ []) := by decide +kernel
  rw [e]
  exact h

/-- **every hypothesis of `doc_fault_other_sets_accepted` is satisfied by `faulty6`**: one accepted set node, the rejected
    one with the faulty REF node, one accepted set node -/
theorem faulty6_sets : ∃ (rsF : Envelope.RState) (tl : List Event), FaultForm tl 1 none (some ['1']) errsLong ∧
    OneFaultRun (validateRead ms ctx hdr (readOf isa gs body6)) 4 6
      { sid := refLong.1.id, matched := true, node := some (m.file, [0, 1, 1, 1]), popped := [],
        events := .addSeg refLong.1.id rsF.segCount none :: tl }
      (faultSeg refLong.1.id rsF.segCount 1 none (some ['1']) errsLong) ∧
    TreeIs (validateRead ms ctx hdr (readOf isa gs body6)).final.tree
      (SetsAre 1 1 (faultSeg refLong.1.id rsF.segCount 1 none (some ['1']) errsLong)) :=
  doc_fault_other_sets_accepted ms ctx hdr dlm rfl control m isa gs 0 1 [0, 0] [0, 1, 0] isaDef gsDef vISA vGS rs1 rs2
    (rsEnd body6) exEnv [set1] [set3] st2P [] refLong [] se2P [ge3P, ieaP] refDef
    (by
      intro x hx; simp only [List.mem_singleton] at hx; subst hx
      refine ⟨by decide +kernel, ?_, by decide +kernel⟩
      intro b hb; simp only [set1, List.mem_singleton] at hb; subst hb
      exact ⟨by decide +kernel, by decide +kernel, by decide +kernel, by decide +kernel⟩)
    (by
      intro x hx; simp only [List.mem_singleton] at hx; subst hx
      refine ⟨by decide +kernel, ?_, by decide +kernel⟩
      intro b hb; simp only [set3, List.mem_singleton] at hb; subst hb
      exact ⟨by decide +kernel, by decide +kernel, by decide +kernel, by decide +kernel⟩)
    (by decide +kernel) (by decide +kernel) (by intro b hb; cases hb) (by intro b hb; cases hb)
    (by
      intro b hb
      simp only [List.mem_cons, List.not_mem_nil, or_false] at hb
      rcases hb with rfl | rfl <;> exact ⟨by decide +kernel, by decide +kernel⟩)
    run6 (envQuiet_of_b _ _ _ _ (by decide +kernel)) (by decide +kernel) (seOk_of_b _ _ (by decide +kernel))
    (by
      have h : (([set1].map BSet.segs).flatten ++ st2P :: []).all (bodyOkB ctx m dlm) = true := by decide +kernel
      intro b hb; exact bodyOk_of_b ctx m dlm b (List.all_eq_true.1 h b hb))
    (by
      have h : ([] ++ se2P :: (([set3].map BSet.segs).flatten ++ [ge3P, ieaP])).all (bodyOkB ctx m dlm) = true := by
        decide +kernel
      intro b hb; exact bodyOk_of_b ctx m dlm b (List.all_eq_true.1 h b hb))
    ⟨by decide, by decide⟩ (by decide +kernel) ⟨by decide, by decide, by decide, by decide⟩ rfl 1 none (some ['1'])
    errsLong (by decide +kernel) (segEvents_elem_fault ctx m.v5010 dlm refDef refLong.1 0 1 none (some ['1']) errsLong refLong_fault)

def ackParams : Ack.Params :=
  { date6 := "200101".toList, time4 := "1200".toList, date8 := "20200101".toList, time6 := "120000".toList,
    gsCtl := "1".toList }

/-- the kernel on the same text: verdict false; the three set nodes carry A, R, A; the 997 written for the run holds
    `AK5*A`, `AK5*R*5`, `AK5*A` in this order -/
example : (validateDoc ms ctx faulty6).outcome = .verdict false ∧
    (validateDoc ms ctx faulty6).final.tree.map (fun a => a.children.map (fun g => g.children.map (·.ackCode))) =
      [[[['A'], ['R'], ['A']]]] ∧
    ((validateDoc ms ctx faulty6).segs.map (fun o => o.events.filter isErrorEvent)).flatten.length = 1 ∧
    (ackFor (validateDoc ms ctx faulty6) ackParams).segs.filter (fun l => l.take 3 = "AK5".toList) =
      ["AK5*A~".toList, "AK5*R*5~".toList, "AK5*A~".toList] := by decide +kernel

end Pyx12Verif.Doc.Ex
