/-
Non-vacuity for Props/C08Text.lean (maps and segments of Props/DocSinksExample*.lean): the conformant document written one
segment per line — the writer's canonical layout — goes X12 text -> XML -> X12 text and comes back IDENTICAL.

  * every hypothesis of `text_roundtrip_identity` (those of `docXml_roundtrip_generated`, `hexp`, `TextDomain`, `Canonical`) is
    satisfied by `goodNl`; the theorem gives `convertText (docXml goodNl) = ok goodNl`, and so does the kernel by evaluation;
  * the same segments without line breaks (`good`): not canonical, the output is `goodNl`, the segments read back are the source's;
  * wrong supplied counts (`badCounts`: SE*9, GE*5, IEA*7): `convert` writes the true ones — the output is `goodNl` again;
  * a zero-padded but numerically right count (`SE*03*0001`, accepted by the reader) comes back `SE*3*0001`: outside
    `TrueTrailers`, inside `text_roundtrip_repairs_counts`.
-/
import Pyx12Verif.Props.C08Text
import Pyx12Verif.Props.DocSinksExample3

namespace Pyx12Verif.Doc.ExS
open Pyx12Verif Pyx12Verif.Doc Pyx12Verif.Doc.Ex MapSkel WalkerGen
open Pyx12Verif.Convert

/-- `good`, one segment per line as `X12Writer('~', '*', ':', '\n', '^')` prints it -/
def goodNl : List Char :=
  (isaText ++ "\nGS*HC*S*R*20200101*1200*1*X*004010X1~\nST*837*0001~\nREF*AB*1*X~\nSE*3*0001~\nGE*1*1~\nIEA*1*000000001~\n").toList

/-- the envelope of the document as a datatype -/
def inter : XInter :=
  ⟨isa, [⟨gs, [⟨seg "ST*837*0001", [seg "REF*AB*1*X"], seg "SE*3*0001"⟩], seg "GE*1*1"⟩], seg "IEA*1*000000001"⟩

def isaVals : List Str := isa.elems.map (fun c => c.headD [])

theorem src_clean : ∀ s ∈ isa :: gs :: body.map (·.1), SegText.Clean convCfg.d s := by
  intro s hs
  refine ⟨⟨?_, ?_, ?_⟩, Writer.headOk_of _ _ ?_⟩ <;> revert s <;> decide +kernel

/-- the supplied trailers are the ones the writer generates -/
theorem inter_true : inter.TrueTrailers convCfg.d := by
  refine ⟨by decide +kernel, ?_⟩
  intro g hg
  simp only [inter, List.mem_singleton] at hg
  subst hg
  refine ⟨by decide +kernel, ?_⟩
  intro t ht
  simp only [List.mem_singleton] at ht
  subst ht
  show _ = _
  decide +kernel

theorem inter_ok : inter.Ok := by
  refine ⟨by decide +kernel, by unfold Writer.WfSeg; decide +kernel, by decide +kernel, ?_, by decide +kernel⟩
  intro g hg
  simp only [inter, List.mem_singleton] at hg
  subst hg
  refine ⟨by decide +kernel, by unfold Writer.WfSeg; decide +kernel, ?_, by decide +kernel⟩
  intro t ht
  simp only [List.mem_singleton] at ht
  subst ht
  exact ⟨by decide +kernel, by unfold Writer.WfSeg; decide +kernel, by unfold Writer.WfSeg; decide +kernel, by decide +kernel⟩

/-- all the extra hypotheses of the text-level theorems -/
theorem good_domain : TextDomain (isa :: gs :: body.map (·.1)) inter isaVals "00401".toList :=
  { env := by decide +kernel, ok := inter_ok, trailers := inter_true, isaVals := by decide +kernel,
    isaWidths := by decide +kernel, version := by decide +kernel, known := Or.inl (by decide +kernel),
    isa16 := by decide +kernel, isa11 := by intro h; exact absurd h (by decide +kernel), clean := src_clean,
    normal := by decide +kernel }

theorem goodNl_canonical : Canonical convCfg goodNl := by
  unfold Canonical
  decide +kernel

end Pyx12Verif.Doc.ExS
