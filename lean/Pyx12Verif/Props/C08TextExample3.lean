/-
Non-vacuity for Props/C08Text.lean, third part (document of Props/C08TextExample.lean): the kernel evaluates the composed
model — XML sink, converter, writer, reader — on the canonical text.
-/
import Pyx12Verif.Props.C08TextExample

namespace Pyx12Verif.Doc.ExS
open Pyx12Verif Pyx12Verif.Doc Pyx12Verif.Doc.Ex MapSkel WalkerGen
open Pyx12Verif.Convert

/-- the kernel agrees with `goodNl_identity` by evaluating the composed model on the text -/
example : convertOpt (docXml msS ctx goodNl) = some (.ok goodNl) := by decide +kernel

/-- the reader on the converted text yields the segments it yields for the source, trailers included -/
example : roundTripSegments [] msS ctx goodNl = readSegments [] goodNl := by decide +kernel
example : readSegments [] goodNl = some (isa :: gs :: body.map (·.1)) := by decide +kernel

end Pyx12Verif.Doc.ExS
