/-
Props/DocSinksTotalHtml.lean, non-vacuity (2).
A document with a segment the walker cannot place (verdict `false`): `hviews` holds, the writes exist (`docHtml_total`).
A document with a 100-element REF segment.  Validation ends with a verdict
(`false`: too many elements), every reported node has a view, and the HTML sink fails — as `docHtml_fails_iff` says
(`gen_seg`: `'%02i' % 100` is no reference designator).
-/
import Pyx12Verif.Props.DocSinksTotalHtmlExample

namespace Pyx12Verif.Doc.ExH
open Pyx12Verif Pyx12Verif.Doc Pyx12Verif.Doc.Ex Pyx12Verif.Doc.ExS

theorem views_unknown : ∀ o ∈ (validateDoc msS ctx unknownSeg).segs, ∃ v, nodeView msS o.node = some v :=
  views_of_b _ _ (by decide +kernel)

/-- all hypotheses of `docHtml_total` hold for a document with a segment the walker cannot place (verdict `false`) -/
example : ∃ ws, docHtmlWrites msS ctx sc unknownSeg = some ws := by
  have hs : allShort (SegText.readAll { rest := unknownSeg, sizes := [] }) = true := by decide +kernel
  cases hread : SegText.readAll { rest := unknownSeg, sizes := [] } with
  | error e => rw [hread] at hs; cases hs
  | ok hd rr =>
    exact (docHtml_total msS ctx sc unknownSeg hd rr hread ⟨false, by decide +kernel⟩ views_unknown).2
      (short_of_b unknownSeg hd rr hread hs)

/-- `REF*1*1*…*1~` with 100 elements in an otherwise conformant document -/
def longSeg : List Char :=
  isaText.toList ++ "GS*HC*S*R*20200101*1200*1*X*004010X1~ST*837*0001~REF".toList ++ (List.replicate 100 ['*', '1']).flatten ++
    "~SE*3*0001~GE*1*1~IEA*1*000000001~".toList

example : (validateDoc msS ctx longSeg).outcome = .verdict false := by decide +kernel
example : docHtmlWrites msS ctx sc longSeg = none := by decide +kernel

theorem views_long : ∀ o ∈ (validateDoc msS ctx longSeg).segs, ∃ v, nodeView msS o.node = some v :=
  views_of_b _ _ (by decide +kernel)

def someLong : SegText.ReaderOutcome → Bool
  | .ok _ rr => rr.segs.any (fun p => decide (100 ≤ p.2.elems.length))
  | .error _ => false

/-- `docHtml_fails_iff` applied: the hypotheses hold, the right-hand side holds, so the sink fails -/
example : docHtmlWrites msS ctx sc longSeg = none := by
  have hs : someLong (SegText.readAll { rest := longSeg, sizes := [] }) = true := by decide +kernel
  cases hread : SegText.readAll { rest := longSeg, sizes := [] } with
  | error e => rw [hread] at hs; cases hs
  | ok hd rr =>
    rw [hread] at hs
    simp only [someLong, List.any_eq_true, decide_eq_true_eq] at hs
    obtain ⟨p, hp, hge⟩ := hs
    exact (docHtml_fails_iff msS ctx sc longSeg hd rr hread ⟨false, by decide +kernel⟩ views_long).2 ⟨p, hp, hge⟩

end Pyx12Verif.Doc.ExH
