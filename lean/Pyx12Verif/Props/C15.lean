/-
C15 — element/composite validation enforces exactly what the map declares.

`elemValidIn` / `compValid` (Model/ElemValid.lean) mirror `element_if.is_valid` and
`composite_if.is_valid`; `Spec` / `CompSpec` (Spec/ElemValid.lean) say which codes the definition
implies.  The theorems hold for every definition, every setting and every value (no bounds).
-/
import Pyx12Verif.Proofs.ElemValid

namespace Pyx12Verif.ElemValid
open Pyx12Verif.Validation

/-! ### Boolean tests of the model vs. the declarative notions -/

theorem mem_cond (b : Bool) (k c : Code) : c ∈ cond b k ↔ b = true ∧ c = k := by
  cases b <;> simp [cond]

theorem tooShort_iff (d : ElemDef) (v : List Char) :
    tooShort d v = true ↔ ∃ n, LenOf d.dataType v n ∧ n < d.minLen := by
  simp [tooShort, effLen_spec]

theorem tooLong_iff (d : ElemDef) (v : List Char) :
    tooLong d v = true ↔ ∃ n, LenOf d.dataType v n ∧ d.maxLen < n := by
  simp [tooLong, effLen_spec]

theorem codeOk_false_iff (d : ElemDef) (ctx : Ctx) (v : List Char) :
    codeOk d ctx v = false ↔ DeclaresCodes d ∧ ¬ InCodes d ctx v := by
  unfold codeOk DeclaresCodes InCodes
  cases hd : d.extDeclared <;> cases hm : ctx.extMember <;> cases hc : d.codes <;>
    simp

theorem typeOk_iff (d : ElemDef) (ctx : Ctx) (v : List Char) :
    typeOk d ctx v = true ↔ InLang d.dataType (pickCharset ctx.extended ctx.v5010) v := by
  simp [typeOk, isValidDataType_iff]

theorem tlBad_iff (d : ElemDef) (ctx : Ctx) (v : List Char) :
    tlBad d ctx v = true ↔ d.typeList ≠ [] ∧ ¬ InSomeLang d.typeList ctx.extended v := by
  simp [tlBad, ← anyType_iff]

theorem anyDate_iff (tl : List (List Char)) :
    (tl.contains tyRD8 || tl.contains tyDT || tl.contains tyD8 || tl.contains tyD6) = true ↔
      ∃ t ∈ tl, DateType t := by
  simp only [Bool.or_eq_true, List.contains_eq_mem, decide_eq_true_eq, DateType]
  constructor
  · rintro (((h | h) | h) | h)
    · exact ⟨_, h, Or.inl rfl⟩
    · exact ⟨_, h, Or.inr (Or.inl rfl)⟩
    · exact ⟨_, h, Or.inr (Or.inr (Or.inl rfl))⟩
    · exact ⟨_, h, Or.inr (Or.inr (Or.inr rfl))⟩
  · rintro ⟨t, ht, rfl | rfl | rfl | rfl⟩
    · exact Or.inl (Or.inl (Or.inl ht))
    · exact Or.inl (Or.inl (Or.inr ht))
    · exact Or.inl (Or.inr ht)
    · exact Or.inr ht

theorem mem_tlCodes (tl : List (List Char)) (c : Code) :
    c ∈ tlCodes tl ↔ (c = 9 ∧ tyTM ∈ tl) ∨ (c = 8 ∧ tyTM ∉ tl ∧ ∃ t ∈ tl, DateType t) := by
  unfold tlCodes
  by_cases h : tyTM ∈ tl
  · have : tl.contains tyTM = true := by simpa using h
    rw [if_pos this]; simp [h]
  · have : ¬ (tl.contains tyTM = true) := by simpa using h
    rw [if_neg this]
    by_cases hb : (tl.contains tyRD8 || tl.contains tyDT || tl.contains tyD8 || tl.contains tyD6) = true
    · rw [if_pos hb]; have := (anyDate_iff tl).1 hb; simp [h, this]
    · rw [if_neg hb]
      have : ¬ ∃ t ∈ tl, DateType t := fun x => hb ((anyDate_iff tl).2 x)
      simp [h, this]

theorem regexBad_iff (d : ElemDef) (ctx : Ctx) :
    regexBad d ctx = true ↔ d.hasRegex = true ∧ ctx.regexFound = false := by
  simp [regexBad]

theorem typeCode_iff (ty : List Char) (c : Code) : c = typeCode ty ↔ WrongTypeCode ty c := by
  unfold typeCode WrongTypeCode
  by_cases hd : isDateType ty = true
  · have hD := (isDateType_iff ty).1 hd
    have : ty ≠ tyTM := by
      rcases hD with rfl | rfl | rfl | rfl <;> decide
    simp [hd, hD, this]
  · have hD : ¬ DateType ty := fun x => hd ((isDateType_iff ty).2 x)
    by_cases ht : ty = tyTM
    · subst ht
      have h1 : isDateType tyTM = false := by decide
      simp [h1, hD]
    · simp [hd, hD, ht]

theorem trailing_iff (d : ElemDef) (v : List Char) :
    trailing d v = true ↔ TextType d.dataType ∧ endsBlank v = true ∧ d.minLen ≤ (rstrip v).length := by
  simp [trailing, isTextType_iff, and_assoc]

theorem textType_typeCode (ty : List Char) (h : TextType ty) : typeCode ty = 6 := by
  rcases h with rfl | rfl <;> decide

theorem inLang_text (ty : List Char) (cs : Charset) (v : List Char) (ht : TextType ty)
    (h : InLang ty cs v) : InCharset cs v := by
  rcases ht with rfl | rfl <;>
    simpa [InLang, tyR, tyID, tyAN, tyRD8, tyDT, tyD8, tyD6, tyTM] using h

/-- the two sources of code 6 / the type code, model side against spec side -/
theorem six_iff (d : ElemDef) (ctx : Ctx) (v : List Char) (c : Code) :
    ((trailing d v = true ∧ c = 6) ∨ (typeOk d ctx v = false ∧ c = typeCode d.dataType)) ↔
    ((c = 6 ∧ TextType d.dataType ∧ NeedlessBlanks d.minLen v) ∨
     (¬ InLang d.dataType (pickCharset ctx.extended ctx.v5010) v ∧ WrongTypeCode d.dataType c)) := by
  rw [trailing_iff, typeCode_iff]
  by_cases hok : typeOk d ctx v = true
  · have hl := (typeOk_iff d ctx v).1 hok
    simp only [hok, hl, not_true_eq_false, false_and, or_false, Bool.true_eq_false]
    constructor
    · rintro ⟨⟨ht, hb⟩, rfl⟩
      exact ⟨rfl, ht, (trailing_iff_of_inCharset d v _ (inLang_text _ _ _ ht hl)).1 hb⟩
    · rintro ⟨rfl, ht, hn⟩
      exact ⟨⟨ht, (trailing_iff_of_inCharset d v _ (inLang_text _ _ _ ht hl)).2 hn⟩, rfl⟩
  · have hl : ¬ InLang d.dataType (pickCharset ctx.extended ctx.v5010) v :=
      fun x => hok ((typeOk_iff d ctx v).2 x)
    have hf : typeOk d ctx v = false := by simpa using hok
    simp only [hf, hl, not_false_eq_true, true_and]
    constructor
    · rintro (⟨⟨ht, hb⟩, rfl⟩ | h)
      · exact Or.inl ⟨rfl, ht, trailing_imp_needless d v hb⟩
      · exact Or.inr h
    · rintro (⟨rfl, ht, _⟩ | h)
      · exact Or.inr ((typeCode_iff _ _).1 (textType_typeCode _ ht).symm)
      · exact Or.inr h

/-! ### the property theorems -/

theorem checkValue_spec (d : ElemDef) (ctx : Ctx) (v : List Char) (c : Code) :
    c ∈ (checkValue d ctx v).2 ↔ ValueSpec d ctx v c := by
  unfold checkValue ValueSpec
  by_cases hc : hasControl v = true
  · have hC := (hasControl_iff v).1 hc
    simp only [hc, if_true, List.mem_append, mem_cond, tooShort_iff, tooLong_iff, List.mem_singleton,
      hC, not_true_eq_false, false_and, or_false, true_and]
    constructor
    · rintro ((⟨h, rfl⟩ | ⟨h, rfl⟩) | rfl)
      · exact Or.inl ⟨rfl, h⟩
      · exact Or.inr (Or.inl ⟨rfl, h⟩)
      · exact Or.inr (Or.inr rfl)
    · rintro (⟨rfl, h⟩ | ⟨rfl, h⟩ | rfl)
      · exact Or.inl (Or.inl ⟨h, rfl⟩)
      · exact Or.inl (Or.inr ⟨h, rfl⟩)
      · exact Or.inr rfl
  · have hC : ¬ HasControl v := fun x => hc ((hasControl_iff v).2 x)
    have hcf : hasControl v = false := by simpa using hc
    have h6 := six_iff d ctx v c
    simp only [hcf, Bool.false_eq_true, if_false, List.mem_append, mem_cond, tooShort_iff, tooLong_iff,
      hC, not_false_eq_true, false_and, true_and, false_or, Bool.not_eq_true', codeOk_false_iff,
      regexBad_iff]
    have htl : (c ∈ if tlBad d ctx v = true then tlCodes d.typeList else []) ↔
        (d.typeList ≠ [] ∧ ¬ InSomeLang d.typeList ctx.extended v ∧
          ((c = 9 ∧ tyTM ∈ d.typeList) ∨ (c = 8 ∧ tyTM ∉ d.typeList ∧ ∃ t ∈ d.typeList, DateType t))) := by
      by_cases hb : tlBad d ctx v = true
      · have := (tlBad_iff d ctx v).1 hb
        simp [hb, mem_tlCodes, this.1, this.2]
      · have hn : ¬ (d.typeList ≠ [] ∧ ¬ InSomeLang d.typeList ctx.extended v) :=
          fun x => hb ((tlBad_iff d ctx v).2 x)
        have hbf : tlBad d ctx v = false := by simpa using hb
        simp only [hbf, Bool.false_eq_true, if_false, List.not_mem_nil, false_iff]
        rintro ⟨a, b, _⟩; exact hn ⟨a, b⟩
    rw [htl]
    constructor
    · rintro ((((((⟨h, rfl⟩ | ⟨h, rfl⟩) | h) | ⟨h, rfl⟩) | h) | h) | ⟨h, rfl⟩)
      · exact Or.inl ⟨rfl, h⟩
      · exact Or.inr (Or.inl ⟨rfl, h⟩)
      · rcases h6.1 (Or.inl h) with x | x
        · exact Or.inr (Or.inr (Or.inl x))
        · exact Or.inr (Or.inr (Or.inr (Or.inr (Or.inl x))))
      · exact Or.inr (Or.inr (Or.inr (Or.inl ⟨rfl, h⟩)))
      · rcases h6.1 (Or.inr h) with x | x
        · exact Or.inr (Or.inr (Or.inl x))
        · exact Or.inr (Or.inr (Or.inr (Or.inr (Or.inl x))))
      · exact Or.inr (Or.inr (Or.inr (Or.inr (Or.inr (Or.inl h)))))
      · exact Or.inr (Or.inr (Or.inr (Or.inr (Or.inr (Or.inr ⟨rfl, h⟩)))))
    · rintro (⟨rfl, h⟩ | ⟨rfl, h⟩ | x | ⟨rfl, h⟩ | x | h | ⟨rfl, h⟩)
      · exact Or.inl (Or.inl (Or.inl (Or.inl (Or.inl (Or.inl ⟨h, rfl⟩)))))
      · exact Or.inl (Or.inl (Or.inl (Or.inl (Or.inl (Or.inr ⟨h, rfl⟩)))))
      · rcases h6.2 (Or.inl x) with y | y
        · exact Or.inl (Or.inl (Or.inl (Or.inl (Or.inr y))))
        · exact Or.inl (Or.inl (Or.inr y))
      · exact Or.inl (Or.inl (Or.inl (Or.inr ⟨h, rfl⟩)))
      · rcases h6.2 (Or.inr x) with y | y
        · exact Or.inl (Or.inl (Or.inl (Or.inl (Or.inr y))))
        · exact Or.inl (Or.inl (Or.inr y))
      · exact Or.inl (Or.inr h)
      · exact Or.inr ⟨h, rfl⟩


theorem emptyCase_spec (d : ElemDef) (c : Code) : c ∈ (emptyCase d).2 ↔ EmptySpec d c := by
  unfold emptyCase EmptySpec FirstOfOptionalComposite missingIsError
  cases hu : d.usage <;> cases hp : d.parentComposite <;> cases hr : d.parentRequired <;>
    by_cases hs : d.seq = 1 <;> simp [hs]

/-- **C15, elements.** The codes reported for a value are, as a set, exactly those the definition
    implies. -/
theorem elemErrors_spec (d : ElemDef) (ctx : Ctx) (i : Input) (c : Code) :
    c ∈ (elemValidIn d ctx i).2 ↔ Spec d ctx i c := by
  cases i with
  | composite => simp [elemValidIn, Spec]
  | absent => simpa [elemValidIn, Spec] using emptyCase_spec d c
  | simple v =>
    unfold elemValidIn Spec
    by_cases hv : v = []
    · subst hv; simpa using emptyCase_spec d c
    · have hv' : v.isEmpty = false := by simpa using hv
      by_cases hu : d.usage = .N
      · simp [hv, hv', hu]
      · simpa [hv, hv', hu] using checkValue_spec d ctx v c

/-- the same for `is_valid(None)` / `is_valid(value)` -/
theorem elemErrors_spec_opt (d : ElemDef) (ctx : Ctx) (v : Option (List Char)) (c : Code) :
    c ∈ (elemValid d ctx v).2 ↔ Spec d ctx (toInput v) c :=
  elemErrors_spec d ctx (toInput v) c

theorem tlCodes_ne_nil (tl : List (List Char)) (h : tyTM ∈ tl ∨ ∃ t ∈ tl, DateType t) : tlCodes tl ≠ [] := by
  intro e
  by_cases hTM : tyTM ∈ tl
  · have : (9 : Code) ∈ tlCodes tl := (mem_tlCodes tl 9).2 (Or.inl ⟨rfl, hTM⟩)
    rw [e] at this; exact absurd this (by simp)
  · have hd : ∃ t ∈ tl, DateType t := by
      rcases h with h | h
      · exact absurd h hTM
      · exact h
    have : (8 : Code) ∈ tlCodes tl := (mem_tlCodes tl 8).2 (Or.inr ⟨rfl, hTM, hd⟩)
    rw [e] at this; exact absurd this (by simp)

theorem checkValue_result (d : ElemDef) (ctx : Ctx) (v : List Char) (hwf : TypeListWF d) :
    (checkValue d ctx v).1 = false ↔ (checkValue d ctx v).2 ≠ [] := by
  unfold checkValue
  by_cases hc : hasControl v = true
  · simp [hc]
  · have hcf : hasControl v = false := by simpa using hc
    simp only [hcf, Bool.false_eq_true, if_false]
    have htl : tlBad d ctx v = true → tlCodes d.typeList ≠ [] := by
      intro hb
      have hne := ((tlBad_iff d ctx v).1 hb).1
      rcases hwf with h | h
      · exact absurd h hne
      · exact tlCodes_ne_nil _ h
    cases h1 : tooShort d v <;> cases h2 : tooLong d v <;> cases h3 : trailing d v <;>
      cases h4 : codeOk d ctx v <;> cases h5 : typeOk d ctx v <;> cases h6 : regexBad d ctx <;>
      cases h7 : tlBad d ctx v <;> simp [cond]
    all_goals exact htl h7

/-- **C15.** The boolean result is false exactly when at least one error was reported (for a
    qualifier-selected list that is empty or names a supported date/time format). -/
theorem result_false_iff_error (d : ElemDef) (ctx : Ctx) (i : Input) (hwf : TypeListWF d) :
    (elemValidIn d ctx i).1 = false ↔ (elemValidIn d ctx i).2 ≠ [] := by
  have hE : (emptyCase d).1 = false ↔ (emptyCase d).2 ≠ [] := by
    unfold emptyCase
    cases d.usage <;> simp
    split <;> simp
  cases i with
  | composite => simp [elemValidIn]
  | absent => simpa [elemValidIn] using hE
  | simple v =>
    unfold elemValidIn
    by_cases hv : v.isEmpty = true
    · simpa [hv] using hE
    · by_cases hu : d.usage = .N
      · simp [hv, hu]
      · simpa [hv, hu] using checkValue_result d ctx v hwf

/-- without the side condition one direction still holds: an error makes the result false -/
theorem error_imp_false (d : ElemDef) (ctx : Ctx) (i : Input) (h : (elemValidIn d ctx i).2 ≠ []) :
    (elemValidIn d ctx i).1 = false := by
  cases i with
  | composite => simp [elemValidIn]
  | absent =>
    revert h; unfold elemValidIn emptyCase
    cases d.usage <;> simp
    split <;> simp
  | simple v =>
    revert h; unfold elemValidIn
    by_cases hv : v.isEmpty = true
    · simp only [hv, if_true]; unfold emptyCase
      cases d.usage <;> simp
      split <;> simp
    · by_cases hu : d.usage = .N
      · simp [hv, hu]
      · simp only [hv, hu, if_false, Bool.false_eq_true]
        unfold checkValue
        by_cases hc : hasControl v = true
        · simp [hc]
        · have hcf : hasControl v = false := by simpa using hc
          simp only [hcf, Bool.false_eq_true, if_false]
          cases h1 : tooShort d v <;> cases h2 : tooLong d v <;> cases h3 : trailing d v <;>
            cases h4 : codeOk d ctx v <;> cases h5 : typeOk d ctx v <;> cases h6 : regexBad d ctx <;>
            cases h7 : tlBad d ctx v <;> simp [cond]

/-- **C15.** A value that meets the definition produces no error and the result is true. -/
theorem admissible_no_error (d : ElemDef) (ctx : Ctx) (i : Input) (h : Admissible d ctx i) :
    elemValidIn d ctx i = (true, []) := by
  have hE : (d.usage ≠ .R ∨ FirstOfOptionalComposite d) → emptyCase d = (true, []) := by
    unfold emptyCase FirstOfOptionalComposite missingIsError
    intro h
    cases hu : d.usage <;> simp
    rcases h with h | ⟨a, b, c⟩
    · exact absurd hu h
    · simp [a, b, c]
  cases i with
  | composite => exact absurd h (by simp [Admissible])
  | absent => exact hE h
  | simple v =>
    unfold elemValidIn
    unfold Admissible at h
    by_cases hv : v = []
    · subst hv; simpa using hE (by simpa using h)
    · have hv' : v.isEmpty = false := by simpa using hv
      simp only [hv, if_false] at h
      obtain ⟨hu, ⟨n, hn, hmin, hmax⟩, hctl, hblank, hcodes, hlang, htl, hre⟩ := h
      have hn' := (effLen_spec _ _ _).1 hn
      have h1 : tooShort d v = false := by simp [tooShort]; omega
      have h2 : tooLong d v = false := by simp [tooLong]; omega
      have h0 : hasControl v = false := by
        cases hh : hasControl v with
        | false => rfl
        | true => exact absurd ((hasControl_iff v).1 hh) hctl
      have h3 : trailing d v = false := by
        cases hh : trailing d v with
        | false => rfl
        | true =>
          have := (trailing_iff d v).1 hh
          exact absurd ⟨this.1, trailing_imp_needless d v this.2⟩ hblank
      have h4 : codeOk d ctx v = true := by
        cases hh : codeOk d ctx v with
        | true => rfl
        | false =>
          have := (codeOk_false_iff d ctx v).1 hh
          exact absurd (hcodes this.1) this.2
      have h5 : typeOk d ctx v = true := (typeOk_iff d ctx v).2 hlang
      have h6 : tlBad d ctx v = false := by
        cases hh : tlBad d ctx v with
        | false => rfl
        | true =>
          have := (tlBad_iff d ctx v).1 hh
          exact absurd (htl this.1) this.2
      have h7 : regexBad d ctx = false := by
        cases hh : regexBad d ctx with
        | false => rfl
        | true =>
          have := (regexBad_iff d ctx).1 hh
          have := hre this.1
          simp_all
      simp [hv', hu, checkValue, h0, h1, h2, h3, h4, h5, h6, h7, cond]

/-- conversely, no error for a well-formed definition means the value is admissible -/
theorem no_error_admissible (d : ElemDef) (ctx : Ctx) (i : Input) (hwf : TypeListWF d)
    (h : ∀ c, ¬ Spec d ctx i c) : Admissible d ctx i := by
  cases i with
  | composite => exact absurd rfl (h 6)
  | absent =>
    have := h 1
    simp only [Spec, EmptySpec, true_and] at this
    unfold Admissible
    by_cases hu : d.usage = .R
    · right; exact Classical.not_not.1 (fun x => this ⟨hu, x⟩)
    · left; exact hu
  | simple v =>
    unfold Admissible
    by_cases hv : v = []
    · simp only [hv, if_true]
      have := h 1
      simp only [Spec, hv, if_true, EmptySpec, true_and] at this
      by_cases hu : d.usage = .R
      · right; exact Classical.not_not.1 (fun x => this ⟨hu, x⟩)
      · left; exact hu
    · simp only [hv, if_false]
      have hu : d.usage ≠ .N := by
        intro hu; have := h 10; simp [Spec, hv, hu] at this
      have hs : ∀ c, ¬ ValueSpec d ctx v c := by
        intro c; have := h c; simpa [Spec, hv, hu] using this
      have hctl : ¬ HasControl v := fun x => hs 6 (Or.inr (Or.inr (Or.inl ⟨x, rfl⟩)))
      refine ⟨hu, ⟨effLen d.dataType v, (effLen_spec _ _ _).2 rfl, ?_, ?_⟩, hctl, ?_, ?_, ?_, ?_, ?_⟩
      · apply Nat.le_of_not_lt; intro x
        exact hs 4 (Or.inl ⟨rfl, _, (effLen_spec _ _ _).2 rfl, x⟩)
      · apply Nat.le_of_not_lt; intro x
        exact hs 5 (Or.inr (Or.inl ⟨rfl, _, (effLen_spec _ _ _).2 rfl, x⟩))
      · intro x
        exact hs 6 (Or.inr (Or.inr (Or.inr ⟨hctl, Or.inl ⟨rfl, x⟩⟩)))
      · intro x
        exact Classical.not_not.1 fun y =>
          hs 7 (Or.inr (Or.inr (Or.inr ⟨hctl, Or.inr (Or.inl ⟨rfl, x, y⟩)⟩)))
      · apply Classical.not_not.1; intro y
        exact hs (typeCode d.dataType)
          (Or.inr (Or.inr (Or.inr ⟨hctl, Or.inr (Or.inr (Or.inl ⟨y, (typeCode_iff _ _).1 rfl⟩))⟩)))
      · intro x
        apply Classical.not_not.1; intro y
        by_cases hTM : tyTM ∈ d.typeList
        · exact hs 9 (Or.inr (Or.inr (Or.inr ⟨hctl, Or.inr (Or.inr (Or.inr (Or.inl
            ⟨x, y, Or.inl ⟨rfl, hTM⟩⟩)))⟩)))
        · have hd : ∃ t ∈ d.typeList, DateType t := by
            rcases hwf with h | h | h
            · exact absurd h x
            · exact absurd h hTM
            · exact h
          exact hs 8 (Or.inr (Or.inr (Or.inr ⟨hctl, Or.inr (Or.inr (Or.inr (Or.inl
            ⟨x, y, Or.inr ⟨rfl, hTM, hd⟩⟩)))⟩)))
      · intro x
        cases hh : ctx.regexFound with
        | true => rfl
        | false => exact absurd (Or.inr (Or.inr (Or.inr ⟨hctl, Or.inr (Or.inr (Or.inr (Or.inr ⟨rfl, x, hh⟩)))⟩))) (hs 7)


/-! ### composites -/

theorem allEmpty_iff (vs : List (List Char)) : allEmpty vs = true ↔ ∀ v ∈ vs, v = [] := by
  induction vs with
  | nil => simp [allEmpty]
  | cons v r ih => simp [allEmpty, ih]

theorem anyNonEmpty_eq (vs : List (List Char)) : anyNonEmpty vs = !allEmpty vs := by
  induction vs with
  | nil => simp [anyNonEmpty, allEmpty]
  | cons v r ih => simp [anyNonEmpty, allEmpty, ih, Bool.not_and]

theorem exists_index_cons {α : Type} (k : α) (ks : List α) (P : Nat → α → Prop) :
    (∃ i x, (k :: ks)[i]? = some x ∧ P i x) ↔ P 0 k ∨ ∃ j x, ks[j]? = some x ∧ P (j + 1) x := by
  constructor
  · rintro ⟨i, x, hx, hp⟩
    cases i with
    | zero =>
      simp only [List.getElem?_cons_zero, Option.some.injEq] at hx
      subst hx; exact Or.inl hp
    | succ j =>
      simp only [List.getElem?_cons_succ] at hx
      exact Or.inr ⟨j, x, hx, hp⟩
  · rintro (hp | ⟨j, x, hx, hp⟩)
    · exact ⟨0, k, by simp, hp⟩
    · exact ⟨j + 1, x, by simpa using hx, hp⟩

theorem inputAt_nil (i : Nat) : inputAt [] i = .absent := by simp [inputAt]
theorem inputAt_zero (v : List Char) (vs : List (List Char)) : inputAt (v :: vs) 0 = .simple v := by
  simp [inputAt]
theorem inputAt_succ (v : List Char) (vs : List (List Char)) (j : Nat) :
    inputAt (v :: vs) (j + 1) = inputAt vs j := by
  simp [inputAt]

/-- the codes of the child loops: child `i` against component `i` (or nothing) -/
theorem mem_kidsValid (kids : List (ElemDef × Ctx)) (vs : List (List Char)) (c : Code) :
    c ∈ (kidsValid kids vs).2 ↔ ∃ i k, kids[i]? = some k ∧ c ∈ (elemValidIn k.1 k.2 (inputAt vs i)).2 := by
  induction kids generalizing vs with
  | nil => simp [kidsValid]
  | cons k ks ih =>
    rw [exists_index_cons k ks (fun i x => c ∈ (elemValidIn x.1 x.2 (inputAt vs i)).2)]
    cases vs with
    | nil =>
      simp only [kidsValid, both, List.mem_append, ih, inputAt_nil]
    | cons v r =>
      simp only [kidsValid, both, List.mem_append, ih, inputAt_zero, inputAt_succ]

/-- **C15, composites** (with the guard on the absent required composite). -/
theorem compErrors_spec (usage : Usage) (kids : List (ElemDef × Ctx))
    (data : Option (List (List Char))) (c : Code) :
    c ∈ codesOf (compValid true usage kids data) ↔ CompSpec usage kids data c := by
  cases data with
  | none => cases usage <;> simp [compValid, codesOf, CompSpec]
  | some vs =>
    simp only [compValid, CompSpec]
    by_cases he : allEmpty vs = true
    · have hE := (allEmpty_iff vs).1 he
      rw [if_pos hE]
      cases usage <;> simp [he, anyNonEmpty_eq, codesOf]
    · have hE : ¬ ∀ v ∈ vs, v = [] := fun x => he ((allEmpty_iff vs).2 x)
      have hef : allEmpty vs = false := by simpa using he
      rw [if_neg hE]
      simp only [hef, anyNonEmpty_eq, Bool.false_and, Bool.false_eq_true, if_false, Bool.not_false,
        Bool.not_true, Bool.and_false, codesOf]
      by_cases hu : usage = .N
      · simp [compPresent, hu, hef]
      · have hspec : ∀ (i : Nat) (k : ElemDef × Ctx),
            (c ∈ (elemValidIn k.1 k.2 (inputAt vs i)).2 ↔ Spec k.1 k.2 (inputAt vs i) c) :=
          fun i k => elemErrors_spec k.1 k.2 (inputAt vs i) c
        simp only [compPresent, hu, decide_false, Bool.false_and, Bool.false_eq_true, if_false, both,
          List.mem_append, mem_cond, mem_kidsValid, hspec, decide_eq_true_eq]
        constructor
        · rintro (⟨h, rfl⟩ | h)
          · exact Or.inl ⟨rfl, h⟩
          · exact Or.inr h
        · rintro (⟨rfl, h⟩ | h)
          · exact Or.inl ⟨h, rfl⟩
          · exact Or.inr h

theorem kidsValid_result (kids : List (ElemDef × Ctx)) (vs : List (List Char))
    (hwf : ∀ k ∈ kids, TypeListWF k.1) :
    (kidsValid kids vs).1 = false ↔ (kidsValid kids vs).2 ≠ [] := by
  induction kids generalizing vs with
  | nil => simp [kidsValid]
  | cons k ks ih =>
    have hk := hwf k (by simp)
    have hks : ∀ x ∈ ks, TypeListWF x.1 := fun x hx => hwf x (List.mem_cons_of_mem _ hx)
    cases vs with
    | nil =>
      have h1 := result_false_iff_error k.1 k.2 .absent hk
      have h2 := ih [] hks
      simp only [kidsValid, both, Bool.and_eq_false_iff, h1, h2, ne_eq, List.append_eq_nil_iff]
      by_cases a : (elemValidIn k.1 k.2 .absent).2 = [] <;> simp [a]
    | cons v r =>
      have h1 := result_false_iff_error k.1 k.2 (.simple v) hk
      have h2 := ih r hks
      simp only [kidsValid, both, Bool.and_eq_false_iff, h1, h2, ne_eq, List.append_eq_nil_iff]
      by_cases a : (elemValidIn k.1 k.2 (.simple v)).2 = [] <;> simp [a]

/-- the composite's boolean is false exactly when a code was reported -/
theorem comp_result_false_iff_error (usage : Usage) (kids : List (ElemDef × Ctx))
    (data : Option (List (List Char))) (hwf : ∀ k ∈ kids, TypeListWF k.1) :
    validOf (compValid true usage kids data) = false ↔ codesOf (compValid true usage kids data) ≠ [] := by
  cases data with
  | none => cases usage <;> simp [compValid, codesOf, validOf]
  | some vs =>
    simp only [compValid]
    by_cases h1 : (allEmpty vs && (decide (usage = .N) || decide (usage = .S))) = true
    · simp [h1, validOf, codesOf]
    · by_cases h2 : (decide (usage = .R) && !anyNonEmpty vs) = true
      · simp [h1, h2, validOf, codesOf]
      · simp only [h1, h2, validOf, codesOf, compPresent]
        by_cases h3 : (decide (usage = .N) && !allEmpty vs) = true
        · simp [h3]
        · have hk := kidsValid_result kids vs hwf
          simp only [h3, both]
          by_cases a : vs.length > kids.length
          · simp [a, cond]
          · simpa [a, cond] using hk

/-- the code as shipped differs from the guarded one only on the absent required composite, where
    it raises `TypeError` (`for sub_ele in None`) instead of reporting code 2 — D19 -/
theorem compValid_unpatched (usage : Usage) (kids : List (ElemDef × Ctx))
    (data : Option (List (List Char))) :
    compValid false usage kids data =
      if usage = .R ∧ data = none then .crashIterNone else compValid true usage kids data := by
  cases data with
  | none => cases usage <;> simp [compValid]
  | some vs => simp [compValid]

/-- for a composite that is present nothing can crash: the shipped code satisfies the spec -/
theorem compErrors_spec_shipped (usage : Usage) (kids : List (ElemDef × Ctx))
    (vs : List (List Char)) (c : Code) :
    c ∈ codesOf (compValid false usage kids (some vs)) ↔ CompSpec usage kids (some vs) c := by
  rw [compValid_unpatched]; simpa using compErrors_spec usage kids (some vs) c


/-- the shipped `composite_if.is_valid` violates the composite statement: an absent required
    composite should draw code 2 and raises instead (witness replayed on the real code by
    harness/c15.py, finding `crash:TypeError:map_if.py:is_valid`) -/
theorem compErrors_spec_shipped_counterexample :
    ¬ ∀ (usage : Usage) (kids : List (ElemDef × Ctx)) (data : Option (List (List Char))) (c : Code),
        (c ∈ codesOf (compValid false usage kids data) ↔ CompSpec usage kids data c) := by
  intro h
  have := (h .R [] none 2).2 (by simp [CompSpec])
  simp [compValid, codesOf] at this

/-! ### non-vacuity: concrete definitions, values on both sides of every theorem -/

/-- `CLM05-03` of the 837I 4010 map: required ID 1..1 with an inline list containing `'Z '` (D31) -/
def exCLM0503 : ElemDef :=
  { usage := .R, dataType := tyID, minLen := 1, maxLen := 1,
    codes := [['1'], ['7'], ['8'], ['Z', ' ']], extDeclared := false, hasRegex := false,
    typeList := [], seq := 3, parentComposite := true, parentRequired := true }

/-- a `DTP03`-like element: AN 1..35 with the format chosen by the qualifier -/
def exDTP03 (tl : List (List Char)) : ElemDef :=
  { usage := .R, dataType := tyAN, minLen := 1, maxLen := 35, codes := [], extDeclared := false,
    hasRegex := false, typeList := tl, seq := 3, parentComposite := false, parentRequired := true }

def exCtx : Ctx := { extended := false, v5010 := false, extMember := false, regexFound := false }

example : elemValidIn exCLM0503 exCtx (.simple ['1']) = (true, []) := by decide
example : elemValidIn exCLM0503 exCtx (.simple ['Z', ' ']) = (false, [5, 6]) := by decide
example : elemValidIn exCLM0503 exCtx (.simple ['2']) = (false, [7]) := by decide
example : elemValidIn exCLM0503 exCtx (.simple ['1', '\n']) = (false, [5, 6]) := by decide
example : elemValidIn exCLM0503 exCtx .absent = (false, [1]) := by decide
example : elemValidIn exCLM0503 exCtx .composite = (false, [6]) := by decide
example : elemValidIn (exDTP03 [tyD8]) exCtx (.simple "20240229".toList) = (true, []) := by decide
example : elemValidIn (exDTP03 [tyD8]) exCtx (.simple "20230229".toList) = (false, [8]) := by decide
example : elemValidIn (exDTP03 [tyTM]) exCtx (.simple "2460".toList) = (false, [9]) := by decide
example : elemValidIn (exDTP03 [tyRD8, tyD8]) exCtx (.simple "20240101-20240131".toList) = (true, []) := by decide
/-- a list naming no supported format gives `False` without any code: why `TypeListWF` is assumed -/
example : elemValidIn (exDTP03 [['C', 'M']]) exCtx (.simple ['1']) = (false, []) := by decide

example : TypeListWF exCLM0503 := Or.inl rfl
example : TypeListWF (exDTP03 [tyRD8, tyD8]) := Or.inr (Or.inr ⟨tyRD8, by simp [exDTP03], Or.inl rfl⟩)

/-- the hypothesis of `admissible_no_error` is satisfiable … -/
example : Admissible exCLM0503 exCtx (.simple ['1']) :=
  no_error_admissible _ _ _ (Or.inl rfl) (fun c hc => by
    have := (elemErrors_spec exCLM0503 exCtx (.simple ['1']) c).2 hc
    have e : (elemValidIn exCLM0503 exCtx (.simple ['1'])).2 = [] := by decide
    rw [e] at this; exact absurd this (by simp))

/-- … and not trivially: the listed code `'Z '` is not admissible -/
example : ¬ Admissible exCLM0503 exCtx (.simple ['Z', ' ']) := fun h => by
  have := admissible_no_error _ _ _ h
  exact absurd this (by decide)

/-- `Spec` is inhabited on both sides -/
example : Spec exCLM0503 exCtx (.simple ['Z', ' ']) 5 ∧ ¬ Spec exCLM0503 exCtx (.simple ['Z', ' ']) 7 := by
  constructor
  · exact (elemErrors_spec _ _ _ _).1 (by decide)
  · intro h; exact absurd ((elemErrors_spec _ _ _ _).2 h) (by decide)

def exKids : List (ElemDef × Ctx) := [(exCLM0503, exCtx), ({ exCLM0503 with usage := .S }, exCtx)]

example : compValid true .R exKids (some [['1'], ['7']]) = .ok true [] := by decide
example : compValid true .R exKids (some [['1'], ['7'], ['X']]) = .ok false [3] := by decide
example : compValid true .R exKids (some [[], ['7']]) = .ok false [1] := by decide
example : compValid true .R exKids (some [[], []]) = .ok false [2] := by decide
example : compValid true .N exKids (some [['1']]) = .ok false [5] := by decide
example : compValid true .R exKids none = .ok false [2] := by decide
example : compValid false .R exKids none = .crashIterNone := by decide
example : compValid false .S exKids none = .ok true [] := by decide

end Pyx12Verif.ElemValid
