/-
C14 — syntax notes (P, R, E, C, L) are evaluated exactly as X12 defines them.

Spec side: `Present seg k` (element `k` exists and is non-empty, via `List.getElem?`), and the X12 definitions of
the five note types written with `∀`/`∃` over the listed positions (`Satisfied`, `Violated`).  The theorems say
that the model of `is_syntax_valid` returns `.valid` / `.violated` exactly when the definition says so and never
crashes, for every note with at least two positions in 01..99, every segment (hence every length and every
presence pattern, `realise`), that a violated note is routed to exactly one element error with code 10 (E) or 2
(others) at the note's first position and a satisfied note to none, and that the note-text parser inverts the
two-digit rendering.
-/
import Pyx12Verif.Model.Syntax

namespace Pyx12Verif.Syn

/-! ### specification -/

/-- element `k` (1-based) of the segment is present: it exists and its value is not the empty string -/
def Present (seg : Seg) (k : Nat) : Prop := 1 ≤ k ∧ ∃ v, seg[k - 1]? = some v ∧ v ≠ []

/-- positions a map can write with two digits, at least two of them -/
def WF (n : Note) : Prop := 2 ≤ n.idx.length ∧ ∀ k ∈ n.idx, 1 ≤ k ∧ k < 100

def Known (c : Char) : Prop := c = 'P' ∨ c = 'R' ∨ c = 'E' ∨ c = 'C' ∨ c = 'L'

/-- X12: the note holds.  `P` is the presence predicate on positions. -/
def Satisfied (P : Nat → Prop) (c : Char) (idx : List Nat) : Prop :=
  (c = 'P' ∧ ((∀ k ∈ idx, P k) ∨ (∀ k ∈ idx, ¬ P k))) ∨
  (c = 'R' ∧ ∃ k ∈ idx, P k) ∨
  (c = 'E' ∧ ∀ (i j a b : Nat), i < j → idx[i]? = some a → idx[j]? = some b → ¬ (P a ∧ P b)) ∨
  (c = 'C' ∧ ∃ k rest, idx = k :: rest ∧ (P k → ∀ j ∈ rest, P j)) ∨
  (c = 'L' ∧ ∃ k rest, idx = k :: rest ∧ (P k → ∃ j ∈ rest, P j))

/-- X12: the note is violated, as the property text words it: paired — some but not all present; required — none
present; exclusion — more than one present (two different entries of the list); conditional — first present and
some other absent; list conditional — first present and all others absent. -/
def Violated (P : Nat → Prop) (c : Char) (idx : List Nat) : Prop :=
  (c = 'P' ∧ (∃ k ∈ idx, P k) ∧ (∃ k ∈ idx, ¬ P k)) ∨
  (c = 'R' ∧ ∀ k ∈ idx, ¬ P k) ∨
  (c = 'E' ∧ ∃ (i j a b : Nat), i < j ∧ idx[i]? = some a ∧ idx[j]? = some b ∧ P a ∧ P b) ∨
  (c = 'C' ∧ ∃ k rest, idx = k :: rest ∧ P k ∧ ∃ j ∈ rest, ¬ P j) ∨
  (c = 'L' ∧ ∃ k rest, idx = k :: rest ∧ P k ∧ ∀ j ∈ rest, ¬ P j)

/-! ### presence: the code's test equals `Present` -/

def presentB (seg : Seg) (k : Nat) : Bool :=
  match seg[k - 1]? with
  | some (_ :: _) => decide (1 ≤ k)
  | _ => false

theorem presentB_iff (seg : Seg) (k : Nat) : presentB seg k = true ↔ Present seg k := by
  unfold presentB Present
  cases h : seg[k - 1]? with
  | none => simp
  | some v =>
    cases v with
    | nil => simp
    | cons a r => simp

theorem presentB_false_iff (seg : Seg) (k : Nat) : presentB seg k = false ↔ ¬ Present seg k := by
  rw [← presentB_iff]; simp

theorem nthVal_eq (seg : Seg) (i : Nat) :
    nthVal seg i = (match seg[i]? with | none => GV.absent | some v => GV.val v) := by
  induction seg generalizing i with
  | nil => simp [nthVal]
  | cons a r ih =>
    cases i with
    | zero => simp [nthVal]
    | succ i => simp [nthVal, ih]

theorem getValue_eq (seg : Seg) (k : Nat) (h1 : 1 ≤ k) (h2 : k < 100) :
    getValue seg k = (match seg[k - 1]? with | none => GV.absent | some v => GV.val v) := by
  unfold getValue
  rw [if_neg (by omega), if_neg (by omega), nthVal_eq]

theorem countStep_eq (seg : Seg) (k : Nat) (h1 : 1 ≤ k) (h2 : k < 100) :
    countStep seg k = some (if presentB seg k = true then 1 else 0) := by
  unfold countStep presentB
  rw [getValue_eq seg k h1 h2]
  cases h : seg[k - 1]? with
  | none =>
    have := List.getElem?_eq_none_iff.mp h
    simp; omega
  | some v =>
    have := (List.getElem?_eq_some_iff.mp h).1
    cases v with
    | nil => simp [nonEmptyStr]
    | cons a r => simp [nonEmptyStr, h1, show k ≤ seg.length by omega]

theorem valueTest_eq (seg : Seg) (k : Nat) (h1 : 1 ≤ k) (h2 : k < 100) (h3 : k ≤ seg.length) :
    valueTest seg k = some (presentB seg k) := by
  unfold valueTest presentB
  rw [getValue_eq seg k h1 h2]
  cases h : seg[k - 1]? with
  | none =>
    have := List.getElem?_eq_none_iff.mp h
    omega
  | some v =>
    cases v with
    | nil => simp [nonEmptyStr]
    | cons a r => simp [nonEmptyStr, h1]

theorem presentB_le (seg : Seg) (k : Nat) (h : presentB seg k = true) : 1 ≤ k ∧ k ≤ seg.length := by
  have hp := (presentB_iff seg k).mp h
  obtain ⟨h1, v, hv, _⟩ := hp
  have := (List.getElem?_eq_some_iff.mp hv).1
  omega

theorem headPresentC_eq (seg : Seg) (k : Nat) (h1 : 1 ≤ k) (h2 : k < 100) :
    headPresentC seg k = some (presentB seg k) := by
  unfold headPresentC
  by_cases h3 : k ≤ seg.length
  · rw [if_pos h3, valueTest_eq seg k h1 h2 h3]
  · rw [if_neg h3]
    cases hp : presentB seg k with
    | false => rfl
    | true => exact absurd (presentB_le seg k hp).2 h3

theorem headPresentL_eq (seg : Seg) (k : Nat) (h1 : 1 ≤ k) (h2 : k < 100) :
    headPresentL seg k = some (presentB seg k) := by
  unfold headPresentL
  by_cases h3 : k ≤ seg.length
  · rw [if_pos (by omega), valueTest_eq seg k h1 h2 h3]
  · rw [if_neg (by omega)]
    cases hp : presentB seg k with
    | false => rfl
    | true => exact absurd (presentB_le seg k hp).2 h3

/-- the counting loop returns the number of listed entries that are present -/
theorem countPresent_eq (seg : Seg) (idx : List Nat) (h : ∀ k ∈ idx, 1 ≤ k ∧ k < 100) :
    countPresent seg idx = some (idx.countP (presentB seg)) := by
  induction idx with
  | nil => simp [countPresent]
  | cons k ks ih =>
    have hk := h k (by simp)
    have ih' := ih (fun j hj => h j (by simp [hj]))
    simp only [countPresent, ih', countStep_eq seg k hk.1 hk.2, countRest, addCount, List.countP_cons]
    cases presentB seg k <;> simp <;> omega

/-! ### the five note types, verdict by verdict -/

section types
variable (seg : Seg) (idx : List Nat)

theorem some_iff : (∃ k ∈ idx, Present seg k) ↔ 0 < idx.countP (presentB seg) := by
  rw [List.countP_pos_iff]; simp [presentB_iff]

theorem none_iff : (∀ k ∈ idx, ¬ Present seg k) ↔ idx.countP (presentB seg) = 0 := by
  rw [List.countP_eq_zero]; simp [presentB_iff]

theorem all_iff : (∀ k ∈ idx, Present seg k) ↔ idx.countP (presentB seg) = idx.length := by
  rw [List.countP_eq_length]; simp [presentB_iff]

theorem notall_iff : (∃ k ∈ idx, ¬ Present seg k) ↔ idx.countP (presentB seg) ≠ idx.length := by
  rw [Ne, ← all_iff]
  constructor
  · rintro ⟨k, hk, hn⟩ hall; exact hn (hall k hk)
  · intro h
    apply Classical.byContradiction
    intro hne
    apply h
    intro k hk
    apply Classical.byContradiction
    intro hp
    exact hne ⟨k, hk, hp⟩

/-- "more than one present" = two different entries of the list are both present -/
theorem two_iff : (∃ (i j a b : Nat), i < j ∧ idx[i]? = some a ∧ idx[j]? = some b ∧ Present seg a ∧ Present seg b) ↔
    1 < idx.countP (presentB seg) := by
  induction idx with
  | nil => simp
  | cons k ks ih =>
    rw [List.countP_cons]
    constructor
    · rintro ⟨i, j, a, b, hij, ha, hb, pa, pb⟩
      cases j with
      | zero => omega
      | succ j =>
        rw [List.getElem?_cons_succ] at hb
        cases i with
        | zero =>
          simp only [List.getElem?_cons_zero, Option.some.injEq] at ha
          subst ha
          have h1 : presentB seg k = true := (presentB_iff seg k).mpr pa
          have h2 : 0 < ks.countP (presentB seg) :=
            (some_iff seg ks).mp ⟨b, List.mem_of_getElem? hb, pb⟩
          simpa [h1] using h2
        | succ i =>
          rw [List.getElem?_cons_succ] at ha
          have := ih.mp ⟨i, j, a, b, Nat.lt_of_succ_lt_succ hij, ha, hb, pa, pb⟩
          exact Nat.lt_of_lt_of_le this (Nat.le_add_right _ _)
    · intro h
      by_cases h2 : 1 < ks.countP (presentB seg)
      · obtain ⟨i, j, a, b, hij, ha, hb, pa, pb⟩ := ih.mpr h2
        exact ⟨i + 1, j + 1, a, b, Nat.succ_lt_succ hij, by simpa using ha, by simpa using hb, pa, pb⟩
      · cases hk : presentB seg k with
        | false => rw [hk] at h; simp at h; exact absurd h h2
        | true =>
          have h3 : 0 < ks.countP (presentB seg) := by rw [hk] at h; simpa using h
          obtain ⟨b, hb, pb⟩ := (some_iff seg ks).mpr h3
          obtain ⟨j, hj⟩ := List.getElem?_of_mem hb
          exact ⟨0, j + 1, k, b, Nat.succ_pos j, by simp, by simpa using hj, (presentB_iff seg k).mp hk, pb⟩

end types

/-- the verdict as a function of the number of present entries (all five types, no crash) -/
theorem verdict_eq (seg : Seg) (c : Char) (k1 k2 : Nat) (rest : List Nat)
    (h : ∀ k ∈ k1 :: k2 :: rest, 1 ≤ k ∧ k < 100) :
    isSyntaxValid seg ⟨c, k1 :: k2 :: rest⟩ =
      if c = 'P' then
        (if (k1 :: k2 :: rest).countP (presentB seg) ≠ 0 ∧
            (k1 :: k2 :: rest).countP (presentB seg) ≠ (k1 :: k2 :: rest).length then .violated else .valid)
      else if c = 'R' then (if (k1 :: k2 :: rest).countP (presentB seg) = 0 then .violated else .valid)
      else if c = 'E' then (if 1 < (k1 :: k2 :: rest).countP (presentB seg) then .violated else .valid)
      else if c = 'C' then
        (if presentB seg k1 = true ∧ (k2 :: rest).countP (presentB seg) ≠ (k2 :: rest).length
          then .violated else .valid)
      else if c = 'L' then
        (if presentB seg k1 = true ∧ (k2 :: rest).countP (presentB seg) = 0 then .violated else .valid)
      else .violated := by
  have h1 := h k1 (by simp)
  have hr : ∀ k ∈ k2 :: rest, 1 ≤ k ∧ k < 100 := fun k hk => h k (List.mem_cons_of_mem _ hk)
  unfold isSyntaxValid
  simp only [List.length_cons, show ¬ (rest.length + 1 + 1 + 1 < 3) by omega, if_false]
  simp only [countPresent_eq seg _ h, evalP, evalR, evalE, evalC, evalL, headPresentC_eq seg k1 h1.1 h1.2,
    headPresentL_eq seg k1 h1.1 h1.2]
  cases hp : presentB seg k1 <;>
    simp [afterGuardC, afterGuardL, countPresent_eq seg _ hr, evalCRest, evalLRest]

/-! ### C14 core -/

theorem violated_core (seg : Seg) (c : Char) (k1 k2 : Nat) (rest : List Nat)
    (hpos : ∀ k ∈ k1 :: k2 :: rest, 1 ≤ k ∧ k < 100) (hk : Known c) :
    isSyntaxValid seg ⟨c, k1 :: k2 :: rest⟩ = .violated ↔ Violated (Present seg) c (k1 :: k2 :: rest) := by
  rw [verdict_eq seg c k1 k2 rest hpos]
  unfold Violated
  rw [some_iff, none_iff, notall_iff, two_iff]
  rcases hk with hk | hk | hk | hk | hk <;> subst hk
  · generalize List.countP (presentB seg) (k1 :: k2 :: rest) = c
    simp; omega
  · simp
  · simp
  · have : (∃ k rest', k1 :: k2 :: rest = k :: rest' ∧ Present seg k ∧ ∃ j ∈ rest', ¬ Present seg j) ↔
        (presentB seg k1 = true ∧ (k2 :: rest).countP (presentB seg) ≠ (k2 :: rest).length) := by
      rw [← notall_iff, presentB_iff]
      constructor
      · rintro ⟨k, r, he, hp, hj⟩
        simp only [List.cons.injEq] at he
        obtain ⟨rfl, rfl⟩ := he
        exact ⟨hp, hj⟩
      · rintro ⟨hp, hj⟩
        exact ⟨k1, k2 :: rest, rfl, hp, hj⟩
    rw [this]; simp
  · have : (∃ k rest', k1 :: k2 :: rest = k :: rest' ∧ Present seg k ∧ ∀ j ∈ rest', ¬ Present seg j) ↔
        (presentB seg k1 = true ∧ (k2 :: rest).countP (presentB seg) = 0) := by
      rw [← none_iff, presentB_iff]
      constructor
      · rintro ⟨k, r, he, hp, hj⟩
        simp only [List.cons.injEq] at he
        obtain ⟨rfl, rfl⟩ := he
        exact ⟨hp, hj⟩
      · rintro ⟨hp, hj⟩
        exact ⟨k1, k2 :: rest, rfl, hp, hj⟩
    rw [this]; simp

theorem valid_core (seg : Seg) (c : Char) (k1 k2 : Nat) (rest : List Nat)
    (hpos : ∀ k ∈ k1 :: k2 :: rest, 1 ≤ k ∧ k < 100) (hk : Known c) :
    isSyntaxValid seg ⟨c, k1 :: k2 :: rest⟩ = .valid ↔ Satisfied (Present seg) c (k1 :: k2 :: rest) := by
  rw [verdict_eq seg c k1 k2 rest hpos]
  unfold Satisfied
  have hE : (∀ (i j a b : Nat), i < j → (k1 :: k2 :: rest)[i]? = some a → (k1 :: k2 :: rest)[j]? = some b →
      ¬ (Present seg a ∧ Present seg b)) ↔ ¬ 1 < (k1 :: k2 :: rest).countP (presentB seg) := by
    rw [← two_iff]
    constructor
    · rintro h ⟨i, j, a, b, hij, ha, hb, pa, pb⟩; exact h i j a b hij ha hb ⟨pa, pb⟩
    · rintro h i j a b hij ha hb ⟨pa, pb⟩; exact h ⟨i, j, a, b, hij, ha, hb, pa, pb⟩
  rw [all_iff, none_iff, some_iff, hE]
  rcases hk with hk | hk | hk | hk | hk <;> subst hk
  · generalize List.countP (presentB seg) (k1 :: k2 :: rest) = c
    simp; omega
  · generalize List.countP (presentB seg) (k1 :: k2 :: rest) = c
    simp; omega
  · simp
  · have : (∃ k rest', k1 :: k2 :: rest = k :: rest' ∧ (Present seg k → ∀ j ∈ rest', Present seg j)) ↔
        ¬ (presentB seg k1 = true ∧ (k2 :: rest).countP (presentB seg) ≠ (k2 :: rest).length) := by
      rw [Ne, ← all_iff, presentB_iff]
      constructor
      · rintro ⟨k, r, he, h⟩ ⟨hp, hn⟩
        simp only [List.cons.injEq] at he
        obtain ⟨rfl, rfl⟩ := he
        exact hn (h hp)
      · intro h
        refine ⟨k1, k2 :: rest, rfl, fun hp => ?_⟩
        apply Classical.byContradiction
        intro hn
        exact h ⟨hp, hn⟩
    rw [this]; simp
  · have : (∃ k rest', k1 :: k2 :: rest = k :: rest' ∧ (Present seg k → ∃ j ∈ rest', Present seg j)) ↔
        ¬ (presentB seg k1 = true ∧ (k2 :: rest).countP (presentB seg) = 0) := by
      rw [← none_iff, presentB_iff]
      constructor
      · rintro ⟨k, r, he, h⟩ ⟨hp, hn⟩
        simp only [List.cons.injEq] at he
        obtain ⟨rfl, rfl⟩ := he
        obtain ⟨j, hj, pj⟩ := h hp
        exact hn j hj pj
      · intro h
        refine ⟨k1, k2 :: rest, rfl, fun hp => ?_⟩
        apply Classical.byContradiction
        intro hn
        apply h
        refine ⟨hp, fun j hj pj => hn ⟨j, hj, pj⟩⟩
    rw [this]; simp

/-- **reported violated ⇔ X12 says violated** — every note with ≥ 2 positions in 01..99, every segment -/
theorem syntaxViolated_iff (seg : Seg) (n : Note) (hwf : WF n) (hk : Known n.code) :
    isSyntaxValid seg n = .violated ↔ Violated (Present seg) n.code n.idx := by
  obtain ⟨c, idx⟩ := n
  obtain ⟨hlen, hpos⟩ := hwf
  cases idx with
  | nil => simp at hlen
  | cons k1 t =>
    cases t with
    | nil => simp at hlen
    | cons k2 rest => exact violated_core seg c k1 k2 rest hpos hk

/-- **reported valid ⇔ X12 says satisfied** (the statement of DESIGN §3 C14) -/
theorem syntaxValid_iff (seg : Seg) (n : Note) (hwf : WF n) (hk : Known n.code) :
    isSyntaxValid seg n = .valid ↔ Satisfied (Present seg) n.code n.idx := by
  obtain ⟨c, idx⟩ := n
  obtain ⟨hlen, hpos⟩ := hwf
  cases idx with
  | nil => simp at hlen
  | cons k1 t =>
    cases t with
    | nil => simp at hlen
    | cons k2 rest => exact valid_core seg c k1 k2 rest hpos hk

/-- a well-formed note is never evaluated with an exception: the verdict is `valid` or `violated` -/
theorem no_crash (seg : Seg) (n : Note) (hwf : WF n) : isSyntaxValid seg n ≠ .crash := by
  obtain ⟨c, idx⟩ := n
  obtain ⟨hlen, hpos⟩ := hwf
  cases idx with
  | nil => simp at hlen
  | cons k1 t =>
    cases t with
    | nil => simp at hlen
    | cons k2 rest =>
      rw [verdict_eq seg c k1 k2 rest hpos]
      repeat' split
      all_goals simp

/-- the two X12 wordings are complementary -/
theorem violated_iff_not_satisfied (seg : Seg) (n : Note) (hwf : WF n) (hk : Known n.code) :
    Violated (Present seg) n.code n.idx ↔ ¬ Satisfied (Present seg) n.code n.idx := by
  rw [← syntaxViolated_iff seg n hwf hk, ← syntaxValid_iff seg n hwf hk]
  have := no_crash seg n hwf
  cases h : isSyntaxValid seg n <;> simp_all

/-- exclusion, worded over position *values*: for a note that lists no position twice (every shipped note), E is
violated iff two different listed positions are both present -/
theorem exclusion_nodup (P : Nat → Prop) (idx : List Nat) (hnd : idx.Nodup) :
    (∃ (i j a b : Nat), i < j ∧ idx[i]? = some a ∧ idx[j]? = some b ∧ P a ∧ P b) ↔
    (∃ a ∈ idx, ∃ b ∈ idx, a ≠ b ∧ P a ∧ P b) := by
  constructor
  · rintro ⟨i, j, a, b, hij, ha, hb, pa, pb⟩
    refine ⟨a, List.mem_of_getElem? ha, b, List.mem_of_getElem? hb, ?_, pa, pb⟩
    intro hab
    subst hab
    obtain ⟨hi, _⟩ := List.getElem?_eq_some_iff.mp ha
    have := (List.getElem?_inj hi hnd).mp (ha.trans hb.symm)
    omega
  · rintro ⟨a, ha, b, hb, hab, pa, pb⟩
    obtain ⟨i, hi⟩ := List.getElem?_of_mem ha
    obtain ⟨j, hj⟩ := List.getElem?_of_mem hb
    have hne : i ≠ j := by
      intro h; subst h; rw [hi] at hj; exact hab (Option.some.inj hj)
    rcases Nat.lt_or_gt_of_ne hne with h | h
    · exact ⟨i, j, a, b, h, hi, hj, pa, pb⟩
    · exact ⟨j, i, b, a, h, hj, hi, pb, pa⟩

/-- exclusion counted as in the phase-0 prototype (`count ≤ 1`) is the same statement -/
theorem exclusion_count (seg : Seg) (idx : List Nat) :
    (∀ (i j a b : Nat), i < j → idx[i]? = some a → idx[j]? = some b → ¬ (Present seg a ∧ Present seg b)) ↔
    idx.countP (presentB seg) ≤ 1 := by
  rw [Nat.le_iff_lt_add_one, ← Nat.not_le, show (1 + 1 ≤ idx.countP (presentB seg)) = (1 < idx.countP (presentB seg)) from rfl,
    ← two_iff]
  constructor
  · rintro h ⟨i, j, a, b, hij, ha, hb, pa, pb⟩; exact h i j a b hij ha hb ⟨pa, pb⟩
  · rintro h i j a b hij ha hb ⟨pa, pb⟩; exact h ⟨i, j, a, b, hij, ha, hb, pa, pb⟩

/-- an unknown type letter is reported as violated by `is_syntax_valid` (the loader never produces one, `split_known`) -/
theorem unknown_type (seg : Seg) (n : Note) (hk : ¬ Known n.code) : isSyntaxValid seg n = .violated := by
  unfold Known at hk
  unfold isSyntaxValid
  split
  · rfl
  · simp only [not_or] at hk
    simp [hk.1, hk.2.1, hk.2.2.1, hk.2.2.2.1, hk.2.2.2.2]

/-- fewer than two positions: reported as violated whatever the segment -/
theorem too_few (seg : Seg) (n : Note) (h : n.idx.length < 2) : isSyntaxValid seg n = .violated := by
  unfold isSyntaxValid
  rw [if_pos (by omega)]

/-! ### every length and every presence pattern is a segment -/

def mkSeg (p : Nat → Bool) : Nat → Nat → Seg
  | _, 0 => []
  | i, n + 1 => (if p i = true then ['X'] else []) :: mkSeg p (i + 1) n

theorem mkSeg_length (p : Nat → Bool) (i n : Nat) : (mkSeg p i n).length = n := by
  induction n generalizing i with
  | zero => rfl
  | succ n ih => simp [mkSeg, ih]

theorem mkSeg_get (p : Nat → Bool) (i n j : Nat) (h : j < n) :
    (mkSeg p i n)[j]? = some (if p (i + j) = true then ['X'] else []) := by
  induction n generalizing i j with
  | zero => omega
  | succ n ih =>
    cases j with
    | zero => simp [mkSeg]
    | succ j =>
      simp only [mkSeg, List.getElem?_cons_succ]
      rw [ih (i + 1) j (by omega)]
      rw [show i + 1 + j = i + (j + 1) by omega]

/-- for every segment length `len` and every presence vector `p` there is a segment in which element `k` is present
exactly when `k ≤ len` and `p k`; so quantifying over segments covers all lengths × all presence patterns -/
theorem realise (len : Nat) (p : Nat → Bool) :
    ∃ seg : Seg, seg.length = len ∧ ∀ k, Present seg k ↔ (1 ≤ k ∧ k ≤ len ∧ p k = true) := by
  refine ⟨mkSeg p 1 len, mkSeg_length p 1 len, fun k => ?_⟩
  unfold Present
  constructor
  · rintro ⟨h1, v, hv, hne⟩
    have hlt : k - 1 < len := by
      have := (List.getElem?_eq_some_iff.mp hv).1
      rwa [mkSeg_length] at this
    rw [mkSeg_get p 1 len (k - 1) hlt, show 1 + (k - 1) = k by omega] at hv
    refine ⟨h1, by omega, ?_⟩
    cases hp : p k with
    | true => rfl
    | false => rw [hp] at hv; simp at hv; exact (hne hv).elim
  · rintro ⟨h1, h2, hp⟩
    refine ⟨h1, ['X'], ?_, by simp⟩
    rw [mkSeg_get p 1 len (k - 1) (by omega), show 1 + (k - 1) = k by omega, hp]
    simp

/-! ### routing: E → element error 10, others → 2, satisfied → none -/

theorem route_E_is_10 (seg : Seg) (n : Note) (hwf : WF n) (hc : n.code = 'E')
    (hv : Violated (Present seg) n.code n.idx) :
    ∃ k rest, n.idx = k :: rest ∧ routeNote seg n = some [⟨['1', '0'], k⟩] := by
  have h := (syntaxViolated_iff seg n hwf (by unfold Known; simp [hc])).mpr hv
  obtain ⟨c, idx⟩ := n
  cases idx with
  | nil => have := hwf.1; simp at this
  | cons k rest =>
    refine ⟨k, rest, rfl, ?_⟩
    simp only at hc
    subst hc
    simp [routeNote, h, routeVerdict, errFor, errCode]

theorem route_other_is_2 (seg : Seg) (n : Note) (hwf : WF n) (hk : Known n.code) (hc : n.code ≠ 'E')
    (hv : Violated (Present seg) n.code n.idx) :
    ∃ k rest, n.idx = k :: rest ∧ routeNote seg n = some [⟨['2'], k⟩] := by
  have h := (syntaxViolated_iff seg n hwf hk).mpr hv
  obtain ⟨c, idx⟩ := n
  cases idx with
  | nil => have := hwf.1; simp at this
  | cons k rest =>
    refine ⟨k, rest, rfl, ?_⟩
    simp only at hc
    simp [routeNote, h, routeVerdict, errFor, errCode, hc]

theorem satisfied_no_error (seg : Seg) (n : Note) (hwf : WF n) (hk : Known n.code)
    (hs : Satisfied (Present seg) n.code n.idx) : routeNote seg n = some [] := by
  have h := (syntaxValid_iff seg n hwf hk).mpr hs
  simp [routeNote, h, routeVerdict]

/-- converse direction: an error is produced only for a violated note, and its code tells E from the rest -/
theorem error_only_if_violated (seg : Seg) (n : Note) (hwf : WF n) (hk : Known n.code) (e : EleErr) (es : List EleErr)
    (h : routeNote seg n = some (e :: es)) :
    Violated (Present seg) n.code n.idx ∧ es = [] ∧ n.idx.head? = some e.pos ∧
      (e.code = ['1', '0'] ↔ n.code = 'E') ∧ (e.code = ['2'] ↔ n.code ≠ 'E') := by
  unfold routeNote at h
  cases hv : isSyntaxValid seg n with
  | crash => rw [hv] at h; simp [routeVerdict] at h
  | valid => rw [hv] at h; simp [routeVerdict] at h
  | violated =>
    rw [hv] at h
    refine ⟨(syntaxViolated_iff seg n hwf hk).mp hv, ?_⟩
    obtain ⟨c, idx⟩ := n
    cases idx with
    | nil => simp [routeVerdict, errFor] at h
    | cons k rest =>
      simp only [routeVerdict, errFor, Option.some.injEq, List.cons.injEq] at h
      obtain ⟨rfl, rfl⟩ := h
      by_cases hc : c = 'E' <;> simp [errCode, hc]

def AllWF (notes : List Note) : Prop := ∀ n ∈ notes, WF n ∧ Known n.code

/-- the whole loop of `segment_if.is_valid`: never an exception, and the errors are, in note order, one per
violated note — code 10 for E and 2 otherwise, at the note's first position -/
theorem syntaxErrors_spec (seg : Seg) (notes : List Note) (hwf : AllWF notes) :
    ∃ errs, syntaxErrors seg notes = some errs ∧
      ∀ e, e ∈ errs ↔ ∃ n ∈ notes, Violated (Present seg) n.code n.idx ∧
        e.code = (if n.code = 'E' then ['1', '0'] else ['2']) ∧ n.idx.head? = some e.pos := by
  induction notes with
  | nil => exact ⟨[], rfl, by simp⟩
  | cons n ns ih =>
    obtain ⟨errs, he, hspec⟩ := ih (fun m hm => hwf m (List.mem_cons_of_mem _ hm))
    obtain ⟨hw, hk⟩ := hwf n (by simp)
    simp only [syntaxErrors, he]
    cases hv : isSyntaxValid seg n with
    | crash => exact absurd hv (no_crash seg n hw)
    | valid =>
      refine ⟨errs, by simp [routeNote, hv, routeVerdict, thenErrs, appendErrs], fun e => ?_⟩
      rw [hspec e]
      have hnv : ¬ Violated (Present seg) n.code n.idx := by
        rw [← syntaxViolated_iff seg n hw hk, hv]; simp
      simp [hnv]
    | violated =>
      have hV := (syntaxViolated_iff seg n hw hk).mp hv
      obtain ⟨c, idx⟩ := n
      cases idx with
      | nil => have := hw.1; simp at this
      | cons k rest =>
        refine ⟨⟨errCode c, k⟩ :: errs,
          by simp [routeNote, hv, routeVerdict, errFor, thenErrs, appendErrs], fun e => ?_⟩
        simp only [List.mem_cons, hspec e, exists_eq_or_imp]
        constructor
        · rintro (rfl | h)
          · exact Or.inl ⟨hV, by simp [errCode], by simp⟩
          · exact Or.inr h
        · rintro (⟨_, h2, h3⟩ | h)
          · left
            obtain ⟨ec, ep⟩ := e
            simp only [List.head?_cons, Option.some.injEq] at h3
            simp only at h2
            subst h3
            simp [errCode, h2]
          · exact Or.inr h

/-! ### the note-text parser -/

theorem twoDigits_chunk (k : Nat) (h : k < 100) (r : List Char) :
    chunks (twoDigits k ++ r) = consChunk k (chunks r) := by
  have key : ∀ k : Fin 100, isDigit (Char.ofNat (48 + k.val / 10)) = true ∧
      isDigit (Char.ofNat (48 + k.val % 10)) = true ∧
      digitVal (Char.ofNat (48 + k.val / 10)) * 10 + digitVal (Char.ofNat (48 + k.val % 10)) = k.val := by
    decide +kernel
  obtain ⟨h1, h2, h3⟩ := key ⟨k, h⟩
  simp only at h1 h2 h3
  simp [twoDigits, chunks, h1, h2, h3]

theorem chunks_render (ks : List Nat) (h : ∀ k ∈ ks, k < 100) (tail : List Char) (ht : tail.length ≤ 1) :
    chunks (renderIdx ks ++ tail) = some ks := by
  induction ks with
  | nil =>
    match tail, ht with
    | [], _ => rfl
    | [_], _ => rfl
  | cons k ks ih =>
    rw [renderIdx, List.append_assoc, twoDigits_chunk k (h k (by simp)), ih (fun j hj => h j (by simp [hj]))]
    rfl

/-- **parser spec**: the text of a note (type letter, then each position as two decimal digits, optionally one
stray trailing character) parses back to exactly that note, e.g. `"P0304" ↦ ['P', 3, 4]` -/
theorem splitSyntax_spec (n : Note) (hk : Known n.code) (h : ∀ k ∈ n.idx, k < 100)
    (tail : List Char) (ht : tail.length ≤ 1) :
    splitSyntax (render n ++ tail) = .ok n := by
  obtain ⟨c, idx⟩ := n
  have hkc : knownCode c = true := by
    unfold Known at hk; simp only at hk
    rcases hk with rfl | rfl | rfl | rfl | rfl <;> decide
  simp only at h
  simp [render, splitSyntax, hkc, chunks_render idx h tail ht, parseOf]

theorem digitVal_le (c : Char) (h : isDigit c = true) : digitVal c ≤ 9 := by
  simp only [isDigit, decide_eq_true_eq, Char.le_def, UInt32.le_iff_toNat_le] at h
  unfold digitVal Char.toNat
  have h9 : '9'.val.toNat = 57 := by decide
  have h2 := h.2
  omega

theorem chunks_lt (s : List Char) : ∀ ks, chunks s = some ks → ∀ k ∈ ks, k < 100 := by
  induction s using chunks.induct with
  | case1 => intro ks h; simp [chunks] at h; subst h; simp
  | case2 => intro ks h; simp [chunks] at h; subst h; simp
  | case3 a b r hd ih =>
    intro ks h
    rw [chunks, if_pos hd] at h
    cases hr : chunks r with
    | none => rw [hr] at h; simp [consChunk] at h
    | some ks' =>
      rw [hr] at h
      simp only [consChunk, Option.some.injEq] at h
      subst h
      intro k hk
      rcases List.mem_cons.mp hk with rfl | hk
      · have := digitVal_le a hd.1
        have := digitVal_le b hd.2
        omega
      · exact ih ks' hr k hk
  | case4 a b r hd => intro ks h; rw [chunks, if_neg hd] at h; simp at h

/-- whatever the text, a parsed note has a known type letter and only positions below 100
(so `getValue` never sees a three-digit designator) -/
theorem split_known (s : List Char) (n : Note) (h : splitSyntax s = .ok n) :
    Known n.code ∧ ∀ k ∈ n.idx, k < 100 := by
  cases s with
  | nil => simp [splitSyntax] at h
  | cons c r =>
    simp only [splitSyntax] at h
    by_cases hc : knownCode c = true
    · rw [if_pos hc] at h
      cases hr : chunks r with
      | none => rw [hr] at h; simp [parseOf] at h
      | some ks =>
        rw [hr] at h
        simp only [parseOf, Parse.ok.injEq] at h
        subst h
        refine ⟨?_, chunks_lt r ks hr⟩
        simp only [knownCode, decide_eq_true_eq] at hc
        unfold Known
        simp only
        rcases hc with h | h | h | h | h <;> simp [h]
    · rw [if_neg hc] at h; simp at h

/-- the loader loop: the texts of notes with known type and positions below 100 load to exactly those notes -/
theorem loadNotes_render (ns : List Note) (h : ∀ n ∈ ns, Known n.code ∧ ∀ k ∈ n.idx, k < 100) :
    loadNotes (ns.map render) = some ns := by
  induction ns with
  | nil => rfl
  | cons n ns ih =>
    have hn := h n (by simp)
    have := splitSyntax_spec n hn.1 hn.2 [] (by simp)
    simp only [List.append_nil] at this
    simp [loadNotes, this, ih (fun m hm => h m (by simp [hm])), keepParse, consNote]

/-- an unknown type letter is dropped by the loader (never reaches `is_syntax_valid`) -/
theorem split_unknown (c : Char) (r : List Char) (h : ¬ Known c) : splitSyntax (c :: r) = .dropped := by
  unfold Known at h
  simp only [not_or] at h
  simp [splitSyntax, knownCode, h.1, h.2.1, h.2.2.1, h.2.2.2.1, h.2.2.2.2]

/-! ### the driver's hypothesis check implies the hypotheses of the theorems -/

theorem nodupB_iff (l : List Nat) : nodupB l = true ↔ l.Nodup := by
  induction l with
  | nil => simp [nodupB]
  | cons k ks ih => simp [nodupB, ih]

theorem wfB_sound (n : Note) (h : wfB n = true) : WF n ∧ Known n.code ∧ n.idx.Nodup := by
  simp only [wfB, Bool.and_eq_true, decide_eq_true_eq, List.all_eq_true, nodupB_iff, knownCode] at h
  obtain ⟨⟨⟨h1, h2⟩, h3⟩, h4⟩ := h
  refine ⟨⟨h1, fun k hk => h2 k hk⟩, ?_, h3⟩
  unfold Known
  rcases h4 with h | h | h | h | h <;> simp [h]

/-! ### non-vacuity and witnesses (kernel-evaluated on the model) -/

-- hypotheses are satisfiable: the shipped note L040203 of a 4-element segment
example : wfB ⟨'L', [4, 2, 3]⟩ = true := by decide
example : WF ⟨'L', [4, 2, 3]⟩ ∧ Known 'L' := (fun h => ⟨h.1, h.2.1⟩) (wfB_sound ⟨'L', [4, 2, 3]⟩ (by decide))
-- DESIGN §2.8 Example 1: only element 04 present, segment of length 4: violated
example : isSyntaxValid [[], [], [], ['X']] ⟨'L', [4, 2, 3]⟩ = .violated := by decide
example : isSyntaxValid [[], ['X'], [], ['X']] ⟨'L', [4, 2, 3]⟩ = .valid := by decide
example : isSyntaxValid [[], [], []] ⟨'L', [4, 2, 3]⟩ = .valid := by decide
-- both verdicts occur for every type
example : isSyntaxValid [[], [], ['X']] ⟨'P', [3, 4]⟩ = .violated := by decide
example : isSyntaxValid [[], [], ['X'], ['X']] ⟨'P', [3, 4]⟩ = .valid := by decide
example : isSyntaxValid [] ⟨'P', [3, 4]⟩ = .valid := by decide
example : isSyntaxValid [['X']] ⟨'R', [2, 3]⟩ = .violated := by decide
example : isSyntaxValid [['X'], [], ['X']] ⟨'R', [2, 3]⟩ = .valid := by decide
example : isSyntaxValid [[], ['X'], [], [], [], [], ['X']] ⟨'E', [2, 7]⟩ = .violated := by decide
example : isSyntaxValid [[], ['X'], [], [], [], [], []] ⟨'E', [2, 7]⟩ = .valid := by decide
example : isSyntaxValid [[], [], [], [], [], ['X']] ⟨'C', [6, 5]⟩ = .violated := by decide
example : isSyntaxValid [[], [], [], [], ['X'], ['X']] ⟨'C', [6, 5]⟩ = .valid := by decide
-- three-position C: the difference between `count != n-1` and `count == 0` (DESIGN §2.8 Example 2)
example : isSyntaxValid [['X'], ['X'], []] ⟨'C', [1, 2, 3]⟩ = .violated := by decide
-- routing
example : routeNote [[], ['X'], [], [], [], [], ['X']] ⟨'E', [2, 7]⟩ = some [⟨['1', '0'], 2⟩] := by decide
example : routeNote [[], [], ['X']] ⟨'P', [3, 4]⟩ = some [⟨['2'], 3⟩] := by decide
example : syntaxErrors [[], [], ['X'], [], [], [], [], ['X'], ['X']] [⟨'P', [3, 4]⟩, ⟨'E', [8, 9]⟩, ⟨'R', [1, 3]⟩] =
    some [⟨['2'], 3⟩, ⟨['1', '0'], 8⟩] := by decide
-- parser
example : splitSyntax "P0304".toList = .ok ⟨'P', [3, 4]⟩ := by decide
example : splitSyntax "L07030506".toList = .ok ⟨'L', [7, 3, 5, 6]⟩ := by decide
example : splitSyntax "X0304".toList = .dropped := by decide
example : splitSyntax "P03045".toList = .ok ⟨'P', [3, 4]⟩ := by decide
example : splitSyntax "P030x".toList = .outside := by decide
-- outside the hypotheses (no shipped note): position 00 reads the LAST element, a three-digit position raises
example : isSyntaxValid [[], ['X']] ⟨'R', [0, 1]⟩ = .valid := by decide
example : isSyntaxValid [] ⟨'R', [0, 1]⟩ = .crash := by decide
example : isSyntaxValid [] ⟨'P', [1, 100]⟩ = .crash := by decide
example : isSyntaxValid [] ⟨'C', [100, 1]⟩ = .valid := by decide
-- a one-position note is reported violated, and `syn[1]` still exists; a zero-position note raises in the router
example : routeNote [['X']] ⟨'P', [1]⟩ = some [⟨['2'], 1⟩] := by decide
example : routeNote [['X']] ⟨'P', []⟩ = none := by decide

end Pyx12Verif.Syn
