/-
C07, end-to-end: the open statement `doc_total_sharp_full` of Props/DocTotal2.lean, closed.

`doc_total_sharp_full` asked for "exactly the three listed `err_handler` sites" under `WFMap` of every map alone.  That is
FALSE — of the model (`doc_total_sharp_full_false`, kernel witnesses below) and of the real code: `WFMap` says nothing about
where the set header / trailer sit in a map, and the shipped map `830.4010.PS.xml` puts GS at the same position as ST_LOOP
and ST at the same position as HEADER / DETAIL / FOOTER, so that the loader orders ST_LOOP before GS and the three wrapper
loops before ST: an ST segment is never matched there, a segment of a wrapper loop is, and the SE that follows is matched
with no set open — `close_st_loop` raises AttributeError (`closeStNoSt`; `tie_closeSt` is that shape run by the kernel,
the real input is in DESIGN / the finding line).

What holds (the strongest correct form), for maps with the envelope nesting `EnvNested` (Spec/EnvNested.lean: decidable
per map, evaluated by the kernel on a skeleton):

  doc_envelope_order       in EVERY run — any text, however it ends — a matched ST round is preceded by a GS round and a
                           matched SE round by a matched ST round
  doc_no_walker_witness    hence neither witness of `doc_total_sharp` (`StWithoutGs`, `SeWithoutSt`) occurs
  doc_total_sharp_holds    hence an exception of the error handler that leaves `x12n_document` comes from one of exactly
                           the three listed sites (`st_error`, `gs_error`, `_add_cur_seg` without a set / group node);
                           `doc_total_sharp_nested_full` is `doc_total_sharp_full` with `WFMap` replaced by `EnvNested`
  doc_crash_sites_nested   with `doc_total`: every crash outcome of the pipeline, itemised

The walker lemma the old statement named (`walk_nested`) is Proofs/DocNestWalk.lean : `walk_nested` / `walk_guarded`;
it needs NO hypothesis on the map (not even `WFMap`): the static condition carries everything.
-/
import Pyx12Verif.Proofs.DocNestRun
import Pyx12Verif.Props.DocTotal2
import Pyx12Verif.Props.DocTotal2Example

namespace Pyx12Verif.Doc
open Pyx12Verif Pyx12Verif.EnvNest

/-- **the order of the envelope rounds.**  For maps with the envelope nesting `EnvNested`, in the rounds `validateDoc`
    reports for ANY text (whatever the outcome): a round in which the walker matched an ST comes after a round of a GS
    segment, and a round in which it matched an SE comes after a round in which it matched an ST. -/
theorem doc_envelope_order (ms : Maps) (ctx : Ctx) (text : List Char) (hnest : EnvNested ms)
    (pre : List SegOut) (o : SegOut) (post : List SegOut) (e : (validateDoc ms ctx text).segs = pre ++ o :: post)
    (hm : o.matched = true) :
    (o.sid = Envelope.idST → ∃ p ∈ pre, p.sid = Envelope.idGS) ∧
    (o.sid = Envelope.idSE → ∃ p ∈ pre, p.sid = Envelope.idST ∧ p.matched = true) :=
  noOrphan_split (validateDoc_orphan ms ctx text hnest) pre o post e hm

/-- neither walker witness of `doc_total_sharp` occurs -/
theorem doc_no_walker_witness (ms : Maps) (ctx : Ctx) (text : List Char) (hnest : EnvNested ms) :
    ¬ StWithoutGs (validateDoc ms ctx text).segs ∧ ¬ SeWithoutSt (validateDoc ms ctx text).segs := by
  refine ⟨?_, ?_⟩
  · rintro ⟨pre, o, e, hid, hm, hno⟩
    obtain ⟨p, hp, hgs⟩ := (doc_envelope_order ms ctx text hnest pre o [] e hm).1 hid
    exact hno p hp hgs
  · rintro ⟨pre, o, e, hid, hm, hno⟩
    obtain ⟨p, hp, hst⟩ := (doc_envelope_order ms ctx text hnest pre o [] e hm).2 hid
    exact hno p hp hst

/-- `doc_total_sharp_full` with the hypothesis it needs: `EnvNested` instead of `WFMap` -/
def doc_total_sharp_nested_full : Prop :=
  ∀ (ms : Maps) (ctx : Ctx) (text : List Char),
    (∀ hd, Tokenizer.parseHeader (text.take Tokenizer.ISA_LEN) = .ok hd → SaneHeader hd) →
    (∀ f control, (f = ctl401 ∨ f = ctl501) → findMap ms f = some control → ControlOk ms control) →
    EnvNested ms →
    ∀ c, (validateDoc ms ctx text).outcome = .crash (.errTree c) →
      c = .stErrorNoSt ∨ c = .gsErrorNoGs ∨ c = .eleErrorNoSt

/-- **Totality, sharpened, unconditional in the text.**  For every set of maps with the envelope nesting of the shipped
    maps, every text whose declared terminator and element separator are not letters of `ISA`: an exception of the error
    handler that leaves `x12n_document` was raised at one of exactly three call sites — `st_error`, `gs_error`,
    `_add_cur_seg` reached while no set / group node exists (the three listed findings). -/
theorem doc_total_sharp_holds : doc_total_sharp_nested_full := by
  intro ms ctx text hsane hctl hnest c h
  obtain ⟨h1, h2⟩ := doc_no_walker_witness ms ctx text hnest
  exact doc_total_three ms ctx text hsane hctl h1 h2 c h

/-- every crash outcome of the pipeline, itemised (with `doc_total`) -/
theorem doc_crash_sites_nested (ms : Maps) (hwf : MapsWF ms) (ctx : Ctx) (text : List Char)
    (hsane : ∀ hd, Tokenizer.parseHeader (text.take Tokenizer.ISA_LEN) = .ok hd → SaneHeader hd)
    (hctl : ∀ f control, (f = ctl401 ∨ f = ctl501) → findMap ms f = some control → ControlOk ms control)
    (hnest : EnvNested ms) (site : Site) (h : (validateDoc ms ctx text).outcome = .crash site) :
    site = .dataEle ∨ site = .nodeNone ∨ site = .noSegDef ∨ site = .errTree .stErrorNoSt ∨
      site = .errTree .gsErrorNoGs ∨ site = .errTree .eleErrorNoSt := by
  rcases doc_total ms hwf ctx text site h with h1 | h1 | h1 | ⟨c, rfl⟩
  · exact Or.inl h1
  · exact Or.inr (Or.inl h1)
  · exact Or.inr (Or.inr (Or.inl h1))
  · rcases doc_total_sharp_holds ms ctx text hsane hctl hnest c h with rfl | rfl | rfl
    · exact Or.inr (Or.inr (Or.inr (Or.inl rfl)))
    · exact Or.inr (Or.inr (Or.inr (Or.inr (Or.inl rfl))))
    · exact Or.inr (Or.inr (Or.inr (Or.inr (Or.inr rfl))))

/-- the decidable form (canonical guard candidates; evaluated by the driver on the loaded maps, op NESTOK) -/
theorem envNested_of_b (ms : Maps) (h : envNestedB ms = true) : EnvNested ms := by
  simp only [envNestedB, List.all_eq_true, Bool.and_eq_true, Bool.or_eq_true, Bool.not_eq_true'] at h
  refine ⟨?_, ?_⟩
  · intro m hm
    have := (h m hm).1
    simp only [setGuardOK, Bool.or_eq_true] at this
    rcases this with h1 | h1
    · exact ⟨_, h1⟩
    · exact ⟨_, h1⟩
  · intro f control hf hfind
    have hm : control ∈ ms.maps := findMap_mem hfind
    have hfile : control.file = f := by
      have := List.find?_some hfind
      simpa using this
    have hctl : isCtlFile control = true := by
      simp only [isCtlFile, Bool.or_eq_true, beq_iff_eq]
      rcases hf with rfl | rfl
      · exact Or.inl hfile
      · exact Or.inr hfile
    rcases (h control hm).2 with h1 | h1
    · rw [hctl] at h1; cases h1
    · simp only [ctlGuardOK, Bool.or_eq_true] at h1
      rcases h1 with h2 | h2
      · exact ⟨_, h2⟩
      · exact ⟨_, h2⟩

/-! ### the old statement is false -/

namespace Ex
open MapSkel

theorem saneOf (text : List Char)
    (h : Tokenizer.parseHeader (text.take Tokenizer.ISA_LEN) =
      .ok { seg := '~', ele := '*', sub := ':', rep := none, icvn := "00401".toList }) :
    ∀ hd, Tokenizer.parseHeader (text.take Tokenizer.ISA_LEN) = .ok hd → SaneHeader hd := by
  intro hd h'
  rw [h] at h'
  injection h' with h'
  subst h'
  exact ⟨by decide, by decide⟩

def badStText : List Char := (isaText ++ "ST*837*0001~").toList

theorem ctl_ok_badSt (f : Str) (control : MapX) (hf : f = ctl401 ∨ f = ctl501) (h : findMap msBadSt f = some control) :
    ControlOk msBadSt control := by
  rcases hf with rfl | rfl
  · have hc : control = mapBadSt "x12.control.00401.xml" := by
      have : findMap msBadSt ctl401 = some (mapBadSt "x12.control.00401.xml") := rfl
      rw [this] at h
      exact (Option.some.inj h).symm
    subst hc
    refine ⟨⟨_, (rfl : fetchIn msBadSt (mapBadSt "x12.control.00401.xml") (isaPath msBadSt) =
        some ⟨mapBadSt "x12.control.00401.xml", [0, 0]⟩)⟩, ⟨_, (rfl :
        fetchIn msBadSt (mapBadSt "x12.control.00401.xml") (gsPath msBadSt) =
          some ⟨mapBadSt "x12.control.00401.xml", [0, 2, 0]⟩)⟩, ?_⟩
    intro n sd hn hl
    have hn' : fetchIn msBadSt (mapBadSt "x12.control.00401.xml") (isaPath msBadSt) =
        some ⟨mapBadSt "x12.control.00401.xml", [0, 0]⟩ := rfl
    rw [hn'] at hn
    have := Option.some.inj hn
    subst this
    have hl' : lookupDef (mapBadSt "x12.control.00401.xml") [0, 0] = some isaDef := rfl
    rw [hl'] at hl
    have := Option.some.inj hl
    subst this
    exact ⟨_, _, rfl⟩
  · have : findMap msBadSt ctl501 = none := rfl
    rw [this] at h
    cases h

end Ex

/-- **`doc_total_sharp_full` is false**: a well-formed (`WFMap`) control map with the set header directly inside the
    interchange loop; `ISA~ST~` ends in `add_st_loop` without a group node — none of the three sites. -/
theorem doc_total_sharp_full_false : ¬ doc_total_sharp_full := by
  intro hfull
  have h := hfull Ex.msBadSt Ex.ctx Ex.badStText
    (Ex.saneOf _ (by decide +kernel)) Ex.ctl_ok_badSt
    (by
      intro m hm
      simp only [Ex.msBadSt, List.mem_singleton] at hm
      subst hm
      decide +kernel)
    .addStNoGs (by decide +kernel)
  rcases h with h | h | h <;> cases h

/-! ### the shape of the shipped 830 map, run by the kernel -/

namespace Ex
open MapSkel

/-- as the loader orders `830.4010.PS.xml` (loops before segments where positions tie): ST_LOOP before GS in GS_LOOP, the
    wrapper loop HEADER before ST in ST_LOOP -/
def rootTie : List Node :=
  [.loop 10 1 0 1 false
    [.seg 11 0 10 0 1 [] [el 1],
     .loop 12 20 0 0 false
       [.loop 14 20 0 0 false
          [.loop 16 10 0 0 true [.seg 18 0 10 0 1 [] [el 1]],
           .seg 15 0 10 0 1 [] [el 1],
           .seg 24 0 20 0 1 [] [el 1]],
        .seg 13 0 20 0 1 [] [el 1],
        .seg 25 0 30 0 1 [] [el 1]],
     .seg 26 0 30 0 1 [] [el 1]]]

def mapTie (file : String) : MapX :=
  { (mapX file) with
      root := rootTie,
      defs := [([0, 0], isaDef), ([0, 1, 1], gsDef), ([0, 1, 0, 0, 0], refDef), ([0, 1, 0, 1], stDef),
               ([0, 1, 0, 2], seDef), ([0, 1, 2], geDef), ([0, 2], ieaDef)] }

def msTie : Maps := { ms with maps := [mapX "x12.control.00401.xml", mapTie "m.xml"] }

def tieText : List Char :=
  (isaText ++ "GS*HC*S*R*20200101*1200*1*X*004010X1~ST*837*0001~REF*AB~SE*3*0001~").toList

/-- ST is not matched, REF (inside the wrapper loop) and SE are … -/
example : (validateDoc msTie ctx tieText).segs.map (fun o => (o.sid, o.matched)) =
    [("ISA".toList, true), ("GS".toList, true), ("ST".toList, false), ("REF".toList, true), ("SE".toList, true)] := by
  decide +kernel
/-- … and `close_st_loop` raises -/
theorem tie_closeSt : (validateDoc msTie ctx tieText).outcome = .crash (.errTree .closeStNoSt) := by decide +kernel
/-- the static condition rejects this map (with the number of "ST" as guard) … -/
example : setNestedB msTie (mapTie "m.xml") 15 = false := by decide +kernel
/-- … and the maps of `msBadSt` / `msBadSe` -/
example : ctlNestedB msBadSt (mapBadSt "x12.control.00401.xml") 13 = false := by decide +kernel
example : setNestedB msBadSe (mapBadSe "m.xml") 15 = false := by decide +kernel

/-! ### non-vacuity: the example maps have the envelope nesting -/

theorem ms_nested : EnvNested ms := by
  refine ⟨?_, ?_⟩
  · intro m hm
    simp only [ms, List.mem_cons, List.mem_nil_iff, or_false] at hm
    rcases hm with rfl | rfl <;> exact ⟨15, by decide +kernel⟩
  · intro f control hf h
    rcases hf with rfl | rfl
    · have hc : control = mapX "x12.control.00401.xml" := by
        have : findMap ms ctl401 = some (mapX "x12.control.00401.xml") := rfl
        rw [this] at h
        exact (Option.some.inj h).symm
      subst hc
      exact ⟨13, by decide +kernel⟩
    · have : findMap ms ctl501 = none := rfl
      rw [this] at h
      cases h

example : envNestedB ms = true := by decide +kernel

/-- `doc_total_sharp_holds` applies to the example maps, for every text with sane delimiters -/
example (text : List Char)
    (hsane : ∀ hd, Tokenizer.parseHeader (text.take Tokenizer.ISA_LEN) = .ok hd → SaneHeader hd)
    (c : ErrTree.Site) (h : (validateDoc ms ctx text).outcome = .crash (.errTree c)) :
    c = .stErrorNoSt ∨ c = .gsErrorNoGs ∨ c = .eleErrorNoSt :=
  doc_total_sharp_holds ms ctx text hsane ctl_ok ms_nested c h

/-- the three sites are reached on these maps (Props/DocTotal2Example.lean), e.g. -/
example : (validateDoc ms ctx orphanSe).outcome = .crash (.errTree .stErrorNoSt) := by decide +kernel

/-- `doc_envelope_order` on the conformant document: its premise is attained (SE is matched in round 5), so a matched ST
    precedes it -/
example : ((validateDoc ms ctx good).segs.map (fun o => (o.sid, o.matched)))[4]? = some (Envelope.idSE, true) := by
  decide +kernel
example (pre : List SegOut) (o : SegOut) (post : List SegOut) (e : (validateDoc ms ctx good).segs = pre ++ o :: post)
    (hid : o.sid = Envelope.idSE) (hm : o.matched = true) : ∃ p ∈ pre, p.sid = Envelope.idST ∧ p.matched = true :=
  (doc_envelope_order ms ctx good ms_nested pre o post e hm).2 hid

/-- the walker lemma on the example skeleton: from the GS node a data segment with the id of SE is not matched -/
example (cnt : Walker.Counter) (s : Walker.SegData) (hs : s.sid = 24) :
    (Walker.walk ms.consts root 0 cnt [0, 1, 0] s).node = none := by
  cases h : (Walker.walk ms.consts root 0 cnt [0, 1, 0] s).node with
  | none => rfl
  | some n =>
    have := (walk_guarded ms.consts root 0 15 [24, 17] (by decide +kernel) cnt [0, 1, 0] s (by rw [hs]; decide)
      (by decide +kernel) h).2
    rw [hs] at this
    exact absurd (by simp) this

end Ex

end Pyx12Verif.Doc
