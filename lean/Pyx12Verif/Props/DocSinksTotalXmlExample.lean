/-
Non-vacuity for Props/DocSinksTotalXml.lean: the example maps of Props/DocSinksExample.lean satisfy ALL hypotheses of
`docXml_total` / `docXml_total_iff` / `docXml_total_wf` (`SinkMapsOK`, `MapsOK2`, `CtlIsaOK`, by the kernel through their
decidable forms); the theorems are applied to documents outside C08's domain: surplus elements and sub-elements at a simple
element, a segment the walker cannot place, the header with element separator `A`.
-/
import Pyx12Verif.Props.DocSinksTotalXml

namespace Pyx12Verif.Doc
open Pyx12Verif

namespace ExT
open Pyx12Verif.Doc.Ex Pyx12Verif.Doc.ExS

theorem msS_sink : SinkMapsOK msS := sinkMapsOK_of_b _ (by decide +kernel)
theorem msS_ctlIsa : CtlIsaOK msS := ctlIsaOK_of_b _ (by decide +kernel)

/-- `docXml_total_iff` applies to the example maps, for every text -/
example (text : List Char) :
    (∃ evs, docXml msS ctx text = some evs) ↔ ∃ b, (validateDoc msS ctx text).outcome = .verdict b :=
  docXml_total_iff msS msS_sink (noRootSeg_of_ok2 _ msS_ok2) msS_ctlIsa ctx text

/-- surplus data: REF with five elements (the node defines three), ST01 with sub-elements at a simple element -/
def surplus : List Char :=
  (isaText ++ "GS*HC*S*R*20200101*1200*1*X*004010X1~ST*837:A:B*0001~REF*AB*1*X*Y*Z~SE*3*0001~GE*1*1~IEA*1*000000001~").toList

example : ∃ b, (validateDoc msS ctx surplus).outcome = .verdict b := ⟨false, by decide +kernel⟩

/-- … outside C08's domain (`fits` fails), yet written: the theorem's conclusion, and what the kernel computes -/
example : ∃ evs, docXml msS ctx surplus = some evs ∧ Xml.wellFormed evs = true := by
  obtain ⟨evs, _, he, _, hw, _⟩ := docXml_total_wf msS msS_sink msS_ok2 msS_ctlIsa ctx surplus ⟨false, by decide +kernel⟩
  exact ⟨evs, he, hw⟩

/-- the surplus elements REF04, REF05 are not written (first `break`); `837:A:B` is written as the value of ST01 -/
example : (docXml msS ctx surplus).map (fun evs => (Xml.valuesOf evs).drop 24) =
    some ["837:A:B".toList, "0001".toList, "AB".toList, "1".toList, "X".toList, "3".toList, "0001".toList, "1".toList,
          "1".toList, "1".toList, "000000001".toList] := by decide +kernel

/-- the `A` header of part 1 on maps that satisfy `CtlIsaOK`: verdict, and the document exists (segment `IS` written as `ISA`) -/
example : ∃ evs, docXml msS ctx textA = some evs :=
  docXml_total msS msS_sink msS_ok2 msS_ctlIsa ctx textA ⟨true, by decide +kernel⟩

/-- a segment the walker cannot place (`ZZZ`) -/
example : ∃ evs, docXml msS ctx unknownSeg = some evs :=
  docXml_total msS msS_sink msS_ok2 msS_ctlIsa ctx unknownSeg ⟨false, by decide +kernel⟩

end ExT

end Pyx12Verif.Doc
