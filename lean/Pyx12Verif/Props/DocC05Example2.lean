/-
Non-vacuity for `doc_ack_accepts_iff` (Props/DocC05Ack.lean) on the document `twoGroups` of Props/DocC05Example.lean: all
its hypotheses hold (evaluated), and it yields — for the set of the second group — node 1 of the final tree with ST01 / ST02
of its ST segment and code `R`, for the set of the first group node 0 with code `A`; the kernel computes the same codes from
the final tree directly.
-/
import Pyx12Verif.Props.DocC05Example

namespace Pyx12Verif.Doc.Ex
open Pyx12Verif Pyx12Verif.Doc DocC05

def dflt : SegOut := ⟨[], false, none, [], []⟩

/-- the rounds of a split, by position -/
theorem split_pick (l O1 OB O2 : List SegOut) (a b : SegOut) (n m : Nat) (h : l = O1 ++ a :: (OB ++ b :: O2))
    (h1 : O1.length = n) (h2 : OB.length = m) :
    a = l.getD n dflt ∧ OB = (l.drop (n + 1)).take m ∧ b = l.getD (n + 1 + m) dflt := by
  subst h h1 h2
  refine ⟨?_, ?_, ?_⟩
  · simp [List.getD]
  · have : O1 ++ a :: (OB ++ b :: O2) = (O1 ++ [a]) ++ (OB ++ b :: O2) := by simp
    rw [this, List.drop_left' (by simp), List.take_left' rfl]
  · have e : O1 ++ a :: (OB ++ b :: O2) = (O1 ++ [a] ++ OB) ++ b :: O2 := by simp
    have hl : (O1 ++ [a] ++ OB).length = O1.length + 1 + OB.length := by simp; omega
    rw [e, List.getD, ← hl, List.getElem?_append_right (Nat.le_refl _), Nat.sub_self]
    rfl

/-! #### the set of the second group (with errors) -/

def P1b : List (List SegText.RErr × Seg) := rr2.segs.take 7
def pSTb : List SegText.RErr × Seg := (rr2.segs.drop 7).headD ([], ⟨[], []⟩)
def PBb : List (List SegText.RErr × Seg) := (rr2.segs.drop 8).take 1
def pSEb : List SegText.RErr × Seg := (rr2.segs.drop 9).headD ([], ⟨[], []⟩)
def P2b : List (List SegText.RErr × Seg) := rr2.segs.drop 10

theorem split2b : rr2.segs = P1b ++ pSTb :: (PBb ++ pSEb :: P2b) := by decide +kernel
theorem idx2b : ((P1b.map (fun q => q.2)).filter isST).length = 1 := by decide +kernel
theorem len2b : P1b.length = 7 ∧ PBb.length = 1 := by decide +kernel
theorem ids2b : pSTb.2.id = Envelope.idST ∧ pSEb.2.id = Envelope.idSE ∧ ∀ q ∈ PBb, Envelope.isEnvId q.2.id = false := by
  decide +kernel
theorem st2b : gv (SegText.delimsOf hdr) pSTb.2 0 = some "837".toList ∧
    gv (SegText.delimsOf hdr) pSTb.2 1 = some "0002".toList := by decide +kernel
theorem body2b :
    anyCounts false (setBody (r2.segs.getD 7 dflt) ((r2.segs.drop 8).take 1) (r2.segs.getD 9 dflt)) = true := by
  decide +kernel

/-- `doc_ack_accepts_iff` on the second set: node 1 of the tree, ST01 / ST02 of its ST segment, rejected -/
theorem set2_rejected :
    ∃ st, (allS r2.final.tree)[1]? = some st ∧ st.trnSetId = some "837".toList ∧
      st.ctlNum = some "0002".toList ∧ st.closed = true ∧ st.ackCode = ['R'] := by
  obtain ⟨O1, oST, OB, oSE, O2, st, e0, l1, l2, h1, h2, h3, h4, h5, _⟩ :=
    doc_ack_accepts_iff ms ms_fresh ctx twoGroups false (r2_eq ▸ verdict2) hdr rr2 read2 nest2 (r2_eq ▸ matched2)
      P1b PBb P2b pSTb pSEb split2b ids2b.1 ids2b.2.1 ids2b.2.2
  rw [r2_eq] at e0 h1
  rw [idx2b] at h1
  obtain ⟨p1, p2, p3⟩ := split_pick _ _ _ _ _ _ 7 1 e0 (l1.trans len2b.1) (l2.trans len2b.2)
  rw [p1, p2, p3, body2b] at h5
  exact ⟨st, h1, h2.trans st2b.1, h3.trans st2b.2, h4, h5⟩

/-- the kernel computes the same from the final tree directly: first set accepted, second rejected -/
theorem codes2 : (allS r2.final.tree).map (fun st => (st.ctlNum, st.ackCode)) =
    [(some "0001".toList, ['A']), (some "0002".toList, ['R'])] := by decide +kernel

/-! #### the set of the first group (clean) -/

def P1a : List (List SegText.RErr × Seg) := rr2.segs.take 2
def pSTa : List SegText.RErr × Seg := (rr2.segs.drop 2).headD ([], ⟨[], []⟩)
def PBa : List (List SegText.RErr × Seg) := (rr2.segs.drop 3).take 1
def pSEa : List SegText.RErr × Seg := (rr2.segs.drop 4).headD ([], ⟨[], []⟩)
def P2a : List (List SegText.RErr × Seg) := rr2.segs.drop 5

theorem split2a : rr2.segs = P1a ++ pSTa :: (PBa ++ pSEa :: P2a) := by decide +kernel
theorem idx2a : ((P1a.map (fun q => q.2)).filter isST).length = 0 := by decide +kernel
theorem len2a : P1a.length = 2 ∧ PBa.length = 1 := by decide +kernel
theorem ids2a : pSTa.2.id = Envelope.idST ∧ pSEa.2.id = Envelope.idSE ∧ ∀ q ∈ PBa, Envelope.isEnvId q.2.id = false := by
  decide +kernel
theorem body2a :
    anyCounts false (setBody (r2.segs.getD 2 dflt) ((r2.segs.drop 3).take 1) (r2.segs.getD 4 dflt)) = false := by
  decide +kernel

theorem set1_accepted : ∃ st, (allS r2.final.tree)[0]? = some st ∧ st.closed = true ∧ st.ackCode = ['A'] := by
  obtain ⟨O1, oST, OB, oSE, O2, st, e0, l1, l2, h1, _, _, h4, h5, _⟩ :=
    doc_ack_accepts_iff ms ms_fresh ctx twoGroups false (r2_eq ▸ verdict2) hdr rr2 read2 nest2 (r2_eq ▸ matched2)
      P1a PBa P2a pSTa pSEa split2a ids2a.1 ids2a.2.1 ids2a.2.2
  rw [r2_eq] at e0 h1
  rw [idx2a] at h1
  obtain ⟨p1, p2, p3⟩ := split_pick _ _ _ _ _ _ 2 1 e0 (l1.trans len2a.1) (l2.trans len2a.2)
  rw [p1, p2, p3, body2a] at h5
  exact ⟨st, h1, h4, h5⟩

end Pyx12Verif.Doc.Ex
