/-
End-to-end theorems about `Doc.ctxDoc` (Model/CtxDoc.lean), the model of
`X12ContextReader(param, errh, fd).iter_segments(loop_id)` composed of the component models of C01 / C04 / C02 / C09.

(a) totality — which exceptions can leave the generator (this file; the context-reader part of C07)
      `ctxDoc_total`          all texts, all maps, all loop ids: the tokenizer, the line wrapper, `_parse_segment`,
                              `Segment.get_value` and the walker never raise; what is left is `nodeNone` (a map without an
                              envelope node), the exits of the tree part (`Ctx.Crash`) and the `noParent` assertion
      `ctxDoc_total_none`     no loop id requested: only `nodeNone` and `noParent`
      `ctxDoc_total_sharp`    sane header + the control maps pass `isaPinOK`: `noParent` and `noCurrentNode` are unreachable;
                              with no loop id requested only `nodeNone` is left (`ctxDoc_total_none_sharp`)
      `ctxDoc_outcomes`       the complete list of ways the generator ends
      `ctxDoc_total_full`     (NOT proved) of the seven `Ctx.Crash` sites only `plainNodeAsLoop` is reachable
(b) partition for generated documents given as text        Props/CtxDocPartition.lean
(c) delimiter independence                                  Props/CtxDocDelim.lean
Reachability witnesses and non-vacuity: Props/CtxDocExample.lean.
-/
import Pyx12Verif.Proofs.CtxDocSharp
import Pyx12Verif.Proofs.CtxWalkDefs

namespace Pyx12Verif.Doc
open Pyx12Verif

/-- the read result of a text: header and wrapped lines (C01 `raw_chunk_independent`), no crash of the wrapper
    (`reader_never_crashes`), no composite without a sub-element (`reader_segments_nonEmpty`) -/
theorem ctx_read_facts (text : List Char) (hd : Tokenizer.Header)
    (hp : Tokenizer.parseHeader (text.take Tokenizer.ISA_LEN) = .ok hd) :
    SegText.readAll { rest := text, sizes := [] } =
        .ok hd (SegText.readLines (SegText.delimsOf hd) [] (Tokenizer.spec hd.seg text)) ∧
      (SegText.readLines (SegText.delimsOf hd) [] (Tokenizer.spec hd.seg text)).crashed = false ∧
      ∀ p ∈ (SegText.readLines (SegText.delimsOf hd) [] (Tokenizer.spec hd.seg text)).segs, Pipeline.NonEmptyComps p.2 := by
  have hterm : (SegText.delimsOf hd).term = hd.seg := rfl
  have hcr := C01.reader_never_crashes (SegText.delimsOf hd) text
  have hne := Pipeline.reader_segments_nonEmpty (SegText.delimsOf hd) text
  rw [hterm] at hcr hne
  refine ⟨?_, hcr, hne⟩
  rw [Pipeline.readAll_of_text text [] (by intro k hk; cases hk)]
  unfold Tokenizer.rawSpec
  rw [hp]

/-- **(a) Totality of the context-reader model.**  For every text, every set of maps and every requested loop id, an
    exception can leave `iter_segments` only at
      * `nodeNone`: a map without `/ISA_LOOP/ISA`, `/ISA_LOOP/GS_LOOP/GS` or (278) `…/HEADER/BHT` — an inconsistency of
        `Maps` that the translator excludes for the shipped maps,
      * `reader c`: the exits of the tree part, `Ctx.Crash` (the known finding
        `crash:AttributeError:x12context.py:_add_segment` is `plainNodeAsLoop`),
      * `noParent`: the assertion of the plain arm.
    The tokenizer, the line wrapper, `_parse_segment`, `Segment.get_value` and the walker never raise
    (`readerLine`, `getValue`, `envelope e` are excluded). -/
theorem ctxDoc_total (ms : Maps) (lid : Option Ctx.LoopId) (text : List Char) (site : CSite)
    (h : (ctxDoc ms lid text).stop = .crash site) :
    site = .nodeNone ∨ site = .noParent ∨ ∃ c, site = .reader c := by
  have key : (ctxDoc ms lid text).stop.Ok := by
    unfold ctxDoc
    cases hp : Tokenizer.parseHeader (text.take Tokenizer.ISA_LEN) with
    | error e =>
      rw [Pipeline.readAll_of_text text [] (by intro k hk; cases hk)]
      unfold Tokenizer.rawSpec
      rw [hp]
      trivial
    | ok hd =>
      obtain ⟨hr, hcr, hne⟩ := ctx_read_facts text hd hp
      rw [hr]
      simp only [ctxRead]
      cases hm : findMap ms (controlFile hd) with
      | none => trivial
      | some control => exact cFinish_ok lid _ hcr _ (cRunSegs_ok ms control _ lid _ 0 _ hne)
  rw [h] at key
  exact key

/-- **(a) with no loop id** (`iter_segments()` as C07 calls it): no exit of the tree part is reachable -/
theorem ctxDoc_total_none (ms : Maps) (text : List Char) (site : CSite)
    (h : (ctxDoc ms none text).stop = .crash site) : site = .nodeNone ∨ site = .noParent := by
  have key : (ctxDoc ms none text).stop.OkNone := by
    unfold ctxDoc
    cases hp : Tokenizer.parseHeader (text.take Tokenizer.ISA_LEN) with
    | error e =>
      rw [Pipeline.readAll_of_text text [] (by intro k hk; cases hk)]
      unfold Tokenizer.rawSpec
      rw [hp]
      trivial
    | ok hd =>
      obtain ⟨hr, hcr, hne⟩ := ctx_read_facts text hd hp
      rw [hr]
      simp only [ctxRead]
      cases hm : findMap ms (controlFile hd) with
      | none => trivial
      | some control => exact cFinish_okNone _ hcr _ (cRunSegs_okNone ms control _ _ 0 _ hne)
  rw [h] at key
  exact key

/-- **(a) sharpened.**  Hypotheses: the terminator and the element separator are not letters of `ISA` (`SaneHeader`:
    otherwise the first piece is not the ISA segment), and in both control maps `/ISA_LOOP/ISA` is the first child of a
    top-level loop called ISA_LOOP (`isaPinOK`, evaluated by the driver op XPIN on the loaded maps).  Then
    `EngineError('Either cur_data_node or self.x12_map_node is None')` and `AssertionError('… has no parent')` are
    unreachable: what is left is `nodeNone` and the six other exits of the tree part. -/
theorem ctxDoc_total_sharp (ms : Maps) (lid : Option Ctx.LoopId) (text : List Char)
    (hsane : ∀ hd, Tokenizer.parseHeader (text.take Tokenizer.ISA_LEN) = .ok hd → SaneHeader hd)
    (hctl : ∀ f control, (f = ctl401 ∨ f = ctl501) → findMap ms f = some control → isaPinOK ms control = true)
    (site : CSite) (h : (ctxDoc ms lid text).stop = .crash site) :
    site = .nodeNone ∨ ∃ c, site = .reader c ∧ c ≠ Ctx.Crash.noCurrentNode := by
  have key : (ctxDoc ms lid text).stop.Sharp := by
    unfold ctxDoc
    cases hp : Tokenizer.parseHeader (text.take Tokenizer.ISA_LEN) with
    | error e =>
      rw [Pipeline.readAll_of_text text [] (by intro k hk; cases hk)]
      unfold Tokenizer.rawSpec
      rw [hp]
      trivial
    | ok hd =>
      obtain ⟨hr, hcr, hne⟩ := ctx_read_facts text hd hp
      rw [hr]
      simp only [ctxRead]
      cases hm : findMap ms (controlFile hd) with
      | none => trivial
      | some control =>
        simp only
        have hc : isaPinOK ms control = true := by
          refine hctl (controlFile hd) control ?_ hm
          unfold controlFile
          split
          · exact Or.inr rfl
          · exact Or.inl rfl
        obtain ⟨le, s, rest, hsegs, hid⟩ := first_segment_isa text hd hp (hsane hd hp)
        rw [hsegs] at hne ⊢
        have hloop : (cRunSegs ms control (SegText.delimsOf hd) lid 0 (cInitAcc ms control) ((le, s) :: rest)).Sharp := by
          simp only [cRunSegs]
          have h1 := ctx_first_round_sharp ms control (SegText.delimsOf hd) lid le s hid hc (hne (le, s) (by simp))
          have hst : (cInitAcc ms control).st = cInitState ms control := rfl
          rw [hst]
          cases hr1 : cRound lid ((cInitAcc ms control).read s)
              (cStepSeg ms control (SegText.delimsOf hd) 0 le s (cInitState ms control)) with
          | inl e => rw [hr1] at h1; exact h1
          | inr a' =>
            rw [hr1] at h1
            exact cRunSegs_sharp ms control _ lid rest _ a' h1 (fun q hq => hne q (List.mem_cons_of_mem _ hq))
        cases he : cRunSegs ms control (SegText.delimsOf hd) lid 0 (cInitAcc ms control) ((le, s) :: rest) with
        | stopped o a => rw [he] at hloop; exact hloop
        | done a =>
          have hcr' : (SegText.ReadResult.crashed
              (SegText.readLines (SegText.delimsOf hd) [] (Tokenizer.spec hd.seg text))) = false := hcr
          simp only [cFinish, hcr', Bool.false_eq_true, if_false, outcomeOf]
          trivial
  rw [h] at key
  exact key

/-- **(a) sharpened, no loop id**: `iter_segments()` can only fail on a map without an envelope node -/
theorem ctxDoc_total_none_sharp (ms : Maps) (text : List Char)
    (hsane : ∀ hd, Tokenizer.parseHeader (text.take Tokenizer.ISA_LEN) = .ok hd → SaneHeader hd)
    (hctl : ∀ f control, (f = ctl401 ∨ f = ctl501) → findMap ms f = some control → isaPinOK ms control = true)
    (site : CSite) (h : (ctxDoc ms none text).stop = .crash site) : site = .nodeNone := by
  rcases ctxDoc_total_sharp ms none text hsane hctl site h with h1 | ⟨c, h1, _⟩
  · exact h1
  · rcases ctxDoc_total_none ms text site h with h2 | h2
    · exact h2
    · rw [h1] at h2; cases h2

/-- every way the generator can end -/
theorem ctxDoc_outcomes (ms : Maps) (lid : Option Ctx.LoopId) (text : List Char) :
    (ctxDoc ms lid text).stop = .done ∨ (∃ e, (ctxDoc ms lid text).stop = .refused e) ∨
    (ctxDoc ms lid text).stop = .notX12 ∨ (ctxDoc ms lid text).stop = .mapNotFound ∨
    (ctxDoc ms lid text).stop = .mapLoadFailed ∨ (ctxDoc ms lid text).stop = .crash .nodeNone ∨
    (ctxDoc ms lid text).stop = .crash .noParent ∨ ∃ c, (ctxDoc ms lid text).stop = .crash (.reader c) := by
  have h := ctxDoc_total ms lid text
  cases hr : (ctxDoc ms lid text).stop with
  | done => exact Or.inl rfl
  | refused e => exact Or.inr (Or.inl ⟨e, rfl⟩)
  | notX12 => exact Or.inr (Or.inr (Or.inl rfl))
  | mapNotFound => exact Or.inr (Or.inr (Or.inr (Or.inl rfl)))
  | mapLoadFailed => exact Or.inr (Or.inr (Or.inr (Or.inr (Or.inl rfl))))
  | crash s =>
    rcases h s hr with rfl | rfl | ⟨c, rfl⟩
    · exact Or.inr (Or.inr (Or.inr (Or.inr (Or.inr (Or.inl rfl)))))
    · exact Or.inr (Or.inr (Or.inr (Or.inr (Or.inr (Or.inr (Or.inl rfl))))))
    · exact Or.inr (Or.inr (Or.inr (Or.inr (Or.inr (Or.inr (Or.inr ⟨c, rfl⟩))))))

/-- **Full statement (not proved).**  For maps that satisfy the C02 / C09 hypotheses (`WFMap`, `Unambiguous`, `CtxMapOK`:
    what `tools/xlate.py` decides per shipped map) the only exit of the tree part that any text can reach is
    `plainNodeAsLoop` — `_add_segment` entered with a plain segment node, the recorded finding
    `crash:AttributeError:x12context.py:_add_segment`, reached by requesting a loop that does not begin with a segment
    (Props/CtxDocExample.lean has the witness).  Gap to `ctxDoc_total_sharp`: `popMismatch`, `popPastRoot`, `pushOnNone`,
    `appendOnNone` and `pushAssert` need an invariant of `Walker.walk` on ARBITRARY segment sequences (the pop list is the
    chain of loops enclosing the start node, the push list the chain down to the node found, and an outer pushed loop is a
    wrapper) carried along `cRunSegs` together with "the cursor's frames spell the map path of the current node below the
    tree root" — C09 `Consistent` proves this only for runs in which every segment is found (`RunOK`).  harness/ctxdoc.py met
    none of the five on 6 500 compared (document, loop id) pairs over all indexed maps, nor did the real code on 5 700
    further runs over every loop id of the document's map. -/
def ctxDoc_total_full : Prop :=
  ∀ (ms : Maps) (lid : Option Ctx.LoopId) (text : List Char) (c : Ctx.Crash),
    (∀ m ∈ ms.maps, WalkerGen.WFMap m.root = true ∧ WalkerGen.Unambiguous ms.consts m.root = true ∧
      CtxWalk.CtxMapOK m.root = true) →
    (∀ hd, Tokenizer.parseHeader (text.take Tokenizer.ISA_LEN) = .ok hd → SaneHeader hd) →
    (∀ f control, (f = ctl401 ∨ f = ctl501) → findMap ms f = some control → isaPinOK ms control = true) →
    (ctxDoc ms lid text).stop = .crash (.reader c) → c = Ctx.Crash.plainNodeAsLoop

end Pyx12Verif.Doc
