/-
Non-vacuity for the structural theorems of Props/DocFault.lean, continuing Props/DocFaultExample.lean:
`doc_rejects_max_use` (a third REF where `max_use` is 2).
-/
import Pyx12Verif.Props.DocFaultExample

namespace Pyx12Verif.Doc.Ex
open Pyx12Verif Pyx12Verif.Doc MapSkel WalkerGen

def refP : Seg × List Nat := (seg "REF*AB*1*X", [0, 1, 1, 1])
def se5P : Seg × List Nat := (seg "SE*5*0001", [0, 1, 1, 2])
def se4P : Seg × List Nat := (seg "SE*4*0001", [0, 1, 1, 2])
/-- `ZZZ*1` (the node is irrelevant: the walker finds none) -/
def zzzP : Seg × List Nat := (seg "ZZZ*1", [])

/-! ### (3a) REF beyond `max_use` 2 -/

def faulty3 : List Char :=
  (isaText ++ ("GS*HC*S*R*20200101*1200*1*X*004010X1~ST*837*0001~REF*AB*1*X~REF*AB*1*X~REF*AB*1*X~SE*5*0001~" ++
    "GE*1*1~IEA*1*000000001~")).toList

example : SegText.readAll { rest := faulty3, sizes := [] } =
    .ok hdr (readOf isa gs ([stP, refP, refP] ++ refP :: [se5P, geP, ieaP])) := by decide +kernel

/-- the faulty derivation: ST, REF, REF, the surplus REF, SE; then GE -/
theorem xREF : XList K (Walker.ErrKind.segMaxCount, [0, 1, 1, 1]) [0, 1] 1 [nSTLOOP, nGE] [eST, eREF, eREF] eREF [eSE, eGE] :=
  .here (pre := [eST, eREF, eREF]) (post := [eSE]) (o2 := [eGE])
    (.counted rfl (.inside (pre := [eST, eREF, eREF]) (post := [eSE]) (o2 := []) (by decide) (by decide)
      (.loop (s := sdx 15 999 999 0) (pre := [eREF, eREF]) rfl (by decide +kernel)
        (.here (pre := [eREF, eREF]) (post := []) (o2 := [eSE])
          (.counted rfl (.later (o1 := [eREF]) (pre := [eREF]) (by decide) (by decide) (.seg (by decide +kernel))
            (.later (o1 := [eREF]) (pre := []) (by decide) (by decide) (.seg (by decide +kernel))
              (.over (by decide) (by decide) rfl (.seg (by decide +kernel)) rfl))))
          (.cons (o1 := [eSE]) (o2 := []) (genChild_seg1 (by decide +kernel) (by decide) (by decide)) .nil)))
      (.stop (by decide))))
    (.cons (o1 := [eGE]) (o2 := []) (genChild_seg1 (by decide +kernel) (by decide) (by decide)) .nil)

/-- **every hypothesis of `doc_rejects_max_use` is satisfied by `faulty3`**: `add_seg(REF, 4); seg_error('5')` in front of
    the calls of the (conforming) third REF, at the REF node -/
theorem faulty3_rejected : refP.2 = [0, 1, 1, 1] ∧ ∃ (rsF : Envelope.RState) (tl : List Event),
    EnvQuiet dlm (bodyRs m rs2) ([stP, refP, refP].map (·.1) ++ [refP.1]) rsF ∧ EleOnly tl ∧ Quiet tl ∧
    OneFaultRun (validateRead ms ctx hdr (readOf isa gs ([stP, refP, refP] ++ refP :: [se5P, geP, ieaP]))) 3 3
      { sid := refP.1.id, matched := true, node := some (m.file, refP.2), popped := [],
        events := [.addSeg refP.1.id rsF.segCount none, .segError ['5'] none] ++ headEvent dlm refP.1 rsF :: tl }
      (werrSeg refP.1.id rsF.segCount ['5']) :=
  doc_rejects_max_use ms ctx hdr dlm rfl control m isa gs 0 1 [0, 0] [0, 1, 0] isaDef gsDef vISA vGS rs1 rs2
    (rsEnd ([stP, refP, refP] ++ refP :: [se5P, geP, ieaP])) exEnv exGroup [0, 1, 1, 1] xREF deriv2 .nil
    [stP, refP, refP] [se5P, geP, ieaP] refP
    ⟨by decide +kernel, by decide +kernel, by decide +kernel⟩
    (envQuiet_of_b _ _ _ _ (by decide +kernel)) (by decide +kernel) (seOk_of_b _ _ (by decide +kernel))
    (by
      have h : [stP, refP, refP].all (bodyOkB ctx m dlm) = true := by decide +kernel
      intro b hb; exact bodyOk_of_b ctx m dlm b (List.all_eq_true.1 h b hb))
    (bodyOk_of_b ctx m dlm refP (by decide +kernel))
    (by
      have h : [se5P, geP, ieaP].all (bodyOkB ctx m dlm) = true := by decide +kernel
      intro b hb; exact bodyOk_of_b ctx m dlm b (List.all_eq_true.1 h b hb))
    (by decide +kernel)

/-- the kernel on the same text: verdict false although every `is_valid` returned True; the fourth segment of the set is
    reported with code 5; everything is matched -/
example : (validateDoc ms ctx faulty3).outcome = .verdict false ∧
    (validateDoc ms ctx faulty3).segs.map (fun o => o.matched) = [true, true, true, true, true, true, true, true, true] ∧
    ((validateDoc ms ctx faulty3).segs.map (fun o => o.events.filter isErrorEvent)) =
      [[], [], [], [], [], [.segError ['5'] none], [], [], []] ∧
    ErrTree.errorCount (validateDoc ms ctx faulty3).final.tree = 1 := by decide +kernel

end Pyx12Verif.Doc.Ex
