/-
Non-vacuity for Props/C08Text.lean, fifth part (document of Props/C08TextExample.lean): a zero-padded but numerically right
count — accepted by the reader, NOT the trailer the writer generates.
-/
import Pyx12Verif.Props.C08TextExample

namespace Pyx12Verif.Doc.ExS
open Pyx12Verif Pyx12Verif.Doc Pyx12Verif.Doc.Ex MapSkel WalkerGen
open Pyx12Verif.Convert

/-- a zero-padded count is accepted by the reader (`int('03') == 3`) and rewritten by the writer: the supplied SE is NOT
the one `_get_trailer_segment` generates, `TrueTrailers` fails, the output differs from the source in that one value -/
def padded : List Char :=
  (isaText ++ "\nGS*HC*S*R*20200101*1200*1*X*004010X1~\nST*837*0001~\nREF*AB*1*X~\nSE*03*0001~\nGE*1*1~\nIEA*1*000000001~\n").toList

example : convertOpt (docXml msS ctx padded) = some (.ok goodNl) := by decide +kernel
example : ¬ (⟨seg "ST*837*0001", [seg "REF*AB*1*X"], seg "SE*03*0001"⟩ : XSet).TrueTrailer convCfg.d := by
  unfold XSet.TrueTrailer
  decide +kernel

end Pyx12Verif.Doc.ExS
