/-
C02 — several functional groups (and several transaction sets per group) inside one interchange.

`walk_accepts_generated` covers `ISA GS … GE IEA`.  `x12n_document` handles every later `GS` exactly like the first:
`walker.forceWalkCounterToLoopStart('/ISA_LOOP/GS_LOOP', '/ISA_LOOP/GS_LOOP/GS')` on the *running* counter (the counts
strictly below the group loop are dropped, the group loop and GS are counted) and the current node becomes the map's GS
node; the walker is not asked, so the group loop's `repeat` is never checked.  `RunGroups` is that loop;
`walk_accepts_multi` says the walker accepts every segment of every group and of the interchange trailer.

Several transaction sets inside one group need no pinning: ST_LOOP is an ordinary counted child of the group loop, so
`GenReps` already allows `n` instances when `repeat` is unbounded (`rep = 0`) or `n ≤ rep` (`genChild_many`);
`walk_accepts_multi_sets` spells the combined statement out for the shape `GS_LOOP = [GS, ST_LOOP, …trailer]`.
-/
import Pyx12Verif.Props.C02Walk

namespace Pyx12Verif.WalkerGen
open Pyx12Verif.MapSkel Pyx12Verif.Walker

/-- the `for seg in src` loop of `x12n_document` over the groups of one interchange: every `GS` is pinned
    (`forceLoopStart` on the running counter, current node := the GS node `gcur`), the other segments of the group are
    walked; `tail` (what follows the last group: IEA …) is walked on from there -/
def RunGroups (K : Consts) (root : List Node) (rootId : Nat) (lk sk : PathKey) (gcur : List Nat) :
    Counter → List Emit → List (List Emit) → List Emit → Prop
  | cnt, o, [], tail => RunOK K root rootId (forceLoopStart cnt lk sk) gcur (o ++ tail)
  | cnt, o, o' :: r, tail =>
    RunOK K root rootId (forceLoopStart cnt lk sk) gcur o ∧
    RunGroups K root rootId lk sk gcur (runCnt K root rootId (forceLoopStart cnt lk sk) gcur o) o' r tail

/-- the same as a Bool, for concrete examples -/
def runGroupsb (K : Consts) (root : List Node) (rootId : Nat) (lk sk : PathKey) (gcur : List Nat) :
    Counter → List Emit → List (List Emit) → List Emit → Bool
  | cnt, o, [], tail => runOKb K root rootId (forceLoopStart cnt lk sk) gcur (o ++ tail)
  | cnt, o, o' :: r, tail =>
    runOKb K root rootId (forceLoopStart cnt lk sk) gcur o &&
    runGroupsb K root rootId lk sk gcur (runCnt K root rootId (forceLoopStart cnt lk sk) gcur o) o' r tail

set_option linter.unusedSectionVars false
section
variable {K : Consts} {root : List Node} (rootId : Nat) (h : MapOK K root)
  {a isaId isaPos isaU isaRep : Nat} {isaW : Bool} {isaSeg : Node} {isaRest : List Node}
  (hroot : root[a]? = some (.loop isaId isaPos isaU isaRep isaW (isaSeg :: isaRest)))
  {g gsId gsPos gsU gsRep : Nat} {gsW : Bool} {gsSeg : Node} {gsRest : List Node}
  (hgs : (isaSeg :: isaRest)[g]? = some (.loop gsId gsPos gsU gsRep gsW (gsSeg :: gsRest))) (hgseg : gsSeg.isSeg = true)
include h hroot hgs hgseg

/-- one group: GS pinned from any state in which the group loop may be (re-)entered, then the rest of the group walked;
    afterwards the group loop may be entered again, or left -/
theorem group_after {cnt : Counter} {cur : List Nat} (hinv : Inv root cnt cur) (hr : ReadyOn root cnt cur [a] g)
    {o : List Emit} (h1 : GenList K [a, g] 1 gsRest o) :
    After K root rootId (forceLoopStart cnt [(isaId, 0), (gsId, 0)] [(isaId, 0), (gsId, 0), gsSeg.comp]) [a, g, 0] o
      (fun cnt' cur' => ReadyAt root cnt' cur' [a] g g) := by
  have hch0 : chAt root [] = some root := rfl
  have hsubI : chAt root [a] = some (isaSeg :: isaRest) := by
    have := chAt_snoc hch0 a; simp only [List.nil_append] at this; rw [this, hroot]
  have hkeyI : keyAt root [a] = [(isaId, 0)] := by
    have := keyAt_snoc hch0 hroot; simpa [keyAt, Node.comp] using this
  have hinv1 := post_loop h hinv hr hsubI hgs hgseg
  rw [hkeyI] at hinv1
  have hsubG : chAt root ([a] ++ [g]) = some (gsSeg :: gsRest) := by rw [chAt_snoc hsubI, hgs]
  have hr1 : ReadyAt root (enterCnt cnt ([(isaId, 0)] ++ [(gsId, 0)]) gsSeg.comp)
      ([a] ++ [g] ++ [0]) ([a] ++ [g]) 0 1 := ready_skip (ready_here _ _ _ _) (by intro hh; omega)
  have e1 := g_list rootId h h1 ([a] ++ [g]) 0 (gsSeg :: gsRest) _ _ rfl hsubG (by simp) hinv1 hr1 (by omega)
    (Or.inr (Or.inl (by omega)))
  exact After.mono e1 (fun cnt1 cur1 ⟨⟨i', hi', hra⟩, _⟩ => ready_up hsubG hra (by simp; omega))

/-- what follows the last group: the rest of the interchange loop and of the map root -/
theorem tail_after {cnt : Counter} {cur : List Nat} (hinv : Inv root cnt cur) (hr : ReadyAt root cnt cur [a] g g)
    {out2 out3 : List Emit}
    (h2 : GenList K [a] (g + 1) ((isaSeg :: isaRest).drop (g + 1)) out2)
    (h3 : GenList K [] (a + 1) (root.drop (a + 1)) out3) :
    After K root rootId cnt cur (out2 ++ out3) (fun _ _ => True) := by
  have hch0 : chAt root [] = some root := rfl
  have hsubI : chAt root [a] = some (isaSeg :: isaRest) := by
    have := chAt_snoc hch0 a; simp only [List.nil_append] at this; rw [this, hroot]
  have hr2 : ReadyAt root cnt cur [a] g (g + 1) := ready_skip hr (by intro hh; omega)
  have e2 := g_list rootId h h2 [a] g (isaSeg :: isaRest) cnt cur rfl hsubI rfl hinv hr2 (by omega)
    (Or.inr (Or.inl (by omega)))
  have e23 := After.seq e2 (Q := fun _ _ _ => True)
    (fun cnt2 cur2 hinv' ⟨⟨i', hi', hra⟩, _⟩ => by
      have hlen : (isaSeg :: isaRest).length ≤ g + 1 + ((isaSeg :: isaRest).drop (g + 1)).length := by
        simp; omega
      have hup : ReadyAt root cnt2 cur2 [] a a := ready_up (q := []) hsubI hra hlen
      have hr3 : ReadyAt root cnt2 cur2 [] a (a + 1) := ready_skip hup (by intro hh; omega)
      have e3 := g_list rootId h h3 [] a root cnt2 cur2 rfl hch0 rfl hinv' hr3 (by omega) (Or.inl rfl)
      exact After.mono e3 (fun _ _ _ => trivial))
  exact e23

/-- all groups, from any state in which the group loop may be entered -/
theorem groups_run {out2 out3 : List Emit}
    (h2 : GenList K [a] (g + 1) ((isaSeg :: isaRest).drop (g + 1)) out2)
    (h3 : GenList K [] (a + 1) (root.drop (a + 1)) out3) :
    ∀ (os : List (List Emit)) (o : List Emit) (cnt : Counter) (cur : List Nat), Inv root cnt cur →
      ReadyOn root cnt cur [a] g → GenList K [a, g] 1 gsRest o → (∀ o' ∈ os, GenList K [a, g] 1 gsRest o') →
      RunGroups K root rootId [(isaId, 0), (gsId, 0)] [(isaId, 0), (gsId, 0), gsSeg.comp] [a, g, 0] cnt o os
        (out2 ++ out3)
  | [], o, cnt, cur, hinv, hr, h1, _ => by
    have e1 := group_after rootId h hroot hgs hgseg hinv hr h1
    have e := After.seq e1 (Q := fun _ _ _ => True)
      (fun cnt1 cur1 hinv1 hr1 => tail_after rootId h hroot hgs hgseg hinv1 hr1 h2 h3)
    exact e.1
  | o' :: r, o, cnt, cur, hinv, hr, h1, hos => by
    obtain ⟨hrun, hinv1, hr1⟩ := group_after rootId h hroot hgs hgseg hinv hr h1
    refine ⟨hrun, ?_⟩
    exact groups_run h2 h3 r o' _ _ hinv1 hr1.on (hos o' (by simp)) (fun o'' ho'' => hos o'' (by simp [ho'']))

end

/-- **Several groups per interchange.**  `root[a]` is the interchange loop, its child `g` the group loop.  ISA is pinned
    on an empty counter; every group — the first `o` and each of `os` — starts with a GS that is pinned with
    `forceWalkCounterToLoopStart` on the running counter (current node := `[a, g, 0]`), and continues with segments
    generated by walking the rest of the group loop in map order (`GenList K [a, g] 1 gsRest`); after the last group the
    rest of the interchange (`out2`) and of the root (`out3`) follow.  Then for every walked segment the walker returns
    exactly the intended node, reports no error and leaves nothing pending.  No bound on the number of groups is
    needed: pinning never checks the group loop's `repeat`. -/
theorem walk_accepts_multi (K : Consts) (root : List Node) (rootId : Nat)
    (hwf : WFMap root = true) (hun : Unambiguous K root = true)
    {a isaId isaPos isaU isaRep : Nat} {isaW : Bool} {isaSeg : Node} {isaRest : List Node}
    (hroot : root[a]? = some (.loop isaId isaPos isaU isaRep isaW (isaSeg :: isaRest))) (hisa : isaSeg.isSeg = true)
    {g gsId gsPos gsU gsRep : Nat} {gsW : Bool} {gsSeg : Node} {gsRest : List Node}
    (hgs : (isaSeg :: isaRest)[g]? = some (.loop gsId gsPos gsU gsRep gsW (gsSeg :: gsRest))) (hgseg : gsSeg.isSeg = true)
    (hopt0 : ∀ (j : Nat) (c : Node), j < a → root[j]? = some c → optional c = true)
    (hopt1 : ∀ (j : Nat) (c : Node), 0 < j → j < g → (isaSeg :: isaRest)[j]? = some c → optional c = true)
    {o : List Emit} {os : List (List Emit)} {out2 out3 : List Emit}
    (h1 : GenList K [a, g] 1 gsRest o) (hos : ∀ o' ∈ os, GenList K [a, g] 1 gsRest o')
    (h2 : GenList K [a] (g + 1) ((isaSeg :: isaRest).drop (g + 1)) out2)
    (h3 : GenList K [] (a + 1) (root.drop (a + 1)) out3) :
    RunGroups K root rootId [(isaId, 0), (gsId, 0)] [(isaId, 0), (gsId, 0), gsSeg.comp] [a, g, 0]
      (forceLoopStart [] [(isaId, 0)] [(isaId, 0), isaSeg.comp]) o os (out2 ++ out3) := by
  have h : MapOK K root := ⟨hwf, hun⟩
  have hinv0 := init_inv h hroot hisa hopt0
  have hch0 : chAt root [] = some root := rfl
  have hsubI : chAt root [a] = some (isaSeg :: isaRest) := by
    have := chAt_snoc hch0 a; simp only [List.nil_append] at this; rw [this, hroot]
  have hr0 : ReadyAt root (enterCnt [] [(isaId, 0)] isaSeg.comp) ([a] ++ [0]) [a] 0 g := by
    refine ⟨List.prefix_refl _, Nat.zero_le _, ?_, ?_⟩
    · intro ch hch j' c hj' hj'g hc
      rw [hsubI] at hch; simp only [Option.some.injEq] at hch; subst hch
      exact satisfied_of_optional c _ (hopt1 j' c hj' hj'g hc)
    · intro p i' hp1 hp2
      have l1 := List.IsPrefix.length_le hp1
      have l2 := List.IsPrefix.length_le hp2
      simp at l1 l2; omega
  exact groups_run rootId h hroot hgs hgseg h2 h3 os o _ _ hinv0 hr0.on h1 hos

/-- with a single group `RunGroups` is the run of `walk_accepts_generated` -/
theorem runGroups_single (K : Consts) (root : List Node) (rootId : Nat) (lk sk : PathKey) (gcur : List Nat) (cnt : Counter)
    (o tail : List Emit) :
    RunGroups K root rootId lk sk gcur cnt o [] tail ↔ RunOK K root rootId (forceLoopStart cnt lk sk) gcur (o ++ tail) :=
  Iff.rfl

/-! ### several transaction sets inside one group -/

/-- `n` further instances of a counted node after `k`: allowed when `repeat` is unbounded or `k + n` stays within it -/
theorem genReps_many {K : Consts} {ip : List Nat} {c : Node} (hu : c.usage ≠ 2) : ∀ (sets : List (List Emit)) (k : Nat),
    (∀ o ∈ sets, GenOne K ip c o) → (c.rep = 0 ∨ k + sets.length ≤ c.rep) → (c.usage = 0 → 1 ≤ k + sets.length) →
    GenReps K ip c k sets.flatten
  | [], k, _, _, h0 => by simpa using GenReps.stop (K := K) (ip := ip) (c := c) (k := k) (by simpa using h0)
  | o :: r, k, hall, hrep, h0 => by
    simp only [List.flatten_cons]
    refine .more hu ?_ (hall o (by simp)) (genReps_many hu r (k + 1) (fun o' ho' => hall o' (by simp [ho'])) ?_ ?_)
    · rcases hrep with e | e
      · exact Or.inl e
      · right; simp at e; omega
    · rcases hrep with e | e
      · exact Or.inl e
      · right; simp at e ⊢; omega
    · intro e; have := h0 e; simp at this ⊢; omega

/-- a counted child instantiated `n` times: `usage ≠ N`, `n ≥ 1` if required, `n ≤ repeat` unless unbounded -/
theorem genChild_many {K : Consts} {ip : List Nat} {c : Node} (hc : counted c = true) (hu : c.usage ≠ 2)
    (sets : List (List Emit)) (hall : ∀ o ∈ sets, GenOne K ip c o) (hrep : c.rep = 0 ∨ sets.length ≤ c.rep)
    (h0 : c.usage = 0 → 1 ≤ sets.length) : GenChild K ip c sets.flatten :=
  .counted hc (genReps_many hu sets 0 hall (by simpa using hrep) (by simpa using h0))

/-- a group given set by set: `sets` = the ST_LOOP instances, `trailer` = what follows them in the group (GE) -/
def groupOut (gr : List (List Emit) × List Emit) : List Emit := gr.1.flatten ++ gr.2

/-- **Several transaction sets per group, several groups per interchange.**  The group loop is
    `[GS, ST_LOOP, …trailer children]` (ST_LOOP directly after GS, as in every pyx12 map).  Each group `(sets, trailer)`
    consists of instances of ST_LOOP (`GenOne K [a, g, 1] stLoop`) — at least one if ST_LOOP is required, at most
    `repeat` many unless `repeat` is unbounded (0) — followed by the generated rest of the group loop.  Every GS pinned
    as in `x12n_document`.  The walker accepts every segment. -/
theorem walk_accepts_multi_sets (K : Consts) (root : List Node) (rootId : Nat)
    (hwf : WFMap root = true) (hun : Unambiguous K root = true)
    {a isaId isaPos isaU isaRep : Nat} {isaW : Bool} {isaSeg : Node} {isaRest : List Node}
    (hroot : root[a]? = some (.loop isaId isaPos isaU isaRep isaW (isaSeg :: isaRest))) (hisa : isaSeg.isSeg = true)
    {g gsId gsPos gsU gsRep : Nat} {gsW : Bool} {gsSeg stLoop : Node} {geRest : List Node}
    (hgs : (isaSeg :: isaRest)[g]? = some (.loop gsId gsPos gsU gsRep gsW (gsSeg :: stLoop :: geRest)))
    (hgseg : gsSeg.isSeg = true) (hst : counted stLoop = true) (hstu : stLoop.usage ≠ 2)
    (hopt0 : ∀ (j : Nat) (c : Node), j < a → root[j]? = some c → optional c = true)
    (hopt1 : ∀ (j : Nat) (c : Node), 0 < j → j < g → (isaSeg :: isaRest)[j]? = some c → optional c = true)
    {gr : List (List Emit) × List Emit} {grs : List (List (List Emit) × List Emit)} {out2 out3 : List Emit}
    (hgr : ∀ x ∈ gr :: grs,
      (∀ o ∈ x.1, GenOne K [a, g, 1] stLoop o) ∧ (stLoop.rep = 0 ∨ x.1.length ≤ stLoop.rep) ∧
      (stLoop.usage = 0 → 1 ≤ x.1.length) ∧ GenList K [a, g] 2 geRest x.2)
    (h2 : GenList K [a] (g + 1) ((isaSeg :: isaRest).drop (g + 1)) out2)
    (h3 : GenList K [] (a + 1) (root.drop (a + 1)) out3) :
    RunGroups K root rootId [(isaId, 0), (gsId, 0)] [(isaId, 0), (gsId, 0), gsSeg.comp] [a, g, 0]
      (forceLoopStart [] [(isaId, 0)] [(isaId, 0), isaSeg.comp]) (groupOut gr) (grs.map groupOut) (out2 ++ out3) := by
  have key : ∀ x ∈ gr :: grs, GenList K [a, g] 1 (stLoop :: geRest) (groupOut x) := by
    intro x hx
    obtain ⟨h1, h2', h3', h4⟩ := hgr x hx
    exact .cons (genChild_many hst hstu x.1 h1 h2' h3') h4
  refine walk_accepts_multi K root rootId hwf hun hroot hisa hgs hgseg hopt0 hopt1 (key gr (by simp)) ?_ h2 h3
  intro o' ho'
  obtain ⟨x, hx, rfl⟩ := List.mem_map.mp ho'
  exact key x (by simp [hx])

/-! ### non-vacuity on the `exRoot` skeleton -/

/-- one transaction set `ST BHT HL NM1 SE` -/
def exSetA : List Emit :=
  [([0, 1, 1, 0], sd 15 0 0), ([0, 1, 1, 1, 0], sd 17 0 0), ([0, 1, 1, 2, 0, 0], sd 2 1 201),
   ([0, 1, 1, 2, 0, 2, 0], sd 22 301 0), ([0, 1, 1, 3], sd 24 0 0)]

theorem exSetA_deriv : GenOne exK [0, 1, 1] exSTLOOP exSetA :=
  .loop (s := sd 15 0 0) rfl (by decide +kernel)
    (.cons (o1 := [([0, 1, 1, 1, 0], sd 17 0 0)])
      (o2 := [([0, 1, 1, 2, 0, 0], sd 2 1 201), ([0, 1, 1, 2, 0, 2, 0], sd 22 301 0), ([0, 1, 1, 3], sd 24 0 0)])
      (.counted rfl (.more (o1 := [([0, 1, 1, 1, 0], sd 17 0 0)]) (o2 := []) (by decide) (by decide)
        (.loop (s := sd 17 0 0) rfl (by decide +kernel)
          (.cons (o1 := []) (o2 := []) (genChild_none rfl (by decide))
            (.cons (o1 := []) (o2 := []) (genChild_none rfl (by decide)) .nil)))
        (.stop (by decide))))
      (.cons (o1 := [([0, 1, 1, 2, 0, 0], sd 2 1 201), ([0, 1, 1, 2, 0, 2, 0], sd 22 301 0)])
        (o2 := [([0, 1, 1, 3], sd 24 0 0)])
        (.wrapper rfl (by decide)
          (.cons (o1 := [([0, 1, 1, 2, 0, 0], sd 2 1 201), ([0, 1, 1, 2, 0, 2, 0], sd 22 301 0)]) (o2 := [])
            (.counted rfl
              (.more (o1 := [([0, 1, 1, 2, 0, 0], sd 2 1 201), ([0, 1, 1, 2, 0, 2, 0], sd 22 301 0)]) (o2 := [])
                (by decide) (by decide)
                (.loop (s := sd 2 1 201) rfl (by decide +kernel)
                  (.cons (o1 := []) (genChild_none rfl (by decide))
                    (.cons (o1 := [([0, 1, 1, 2, 0, 2, 0], sd 22 301 0)]) (o2 := [])
                      (.counted rfl
                        (.more (o1 := [([0, 1, 1, 2, 0, 2, 0], sd 22 301 0)]) (o2 := []) (by decide) (by decide)
                          (.loop (s := sd 22 301 0) rfl (by decide +kernel)
                            (.cons (o1 := []) (o2 := []) (genChild_none rfl (by decide)) .nil))
                          (.stop (by decide))))
                      .nil)))
                (.stop (by decide))))
            .nil))
        (.cons (o1 := [([0, 1, 1, 3], sd 24 0 0)]) (o2 := [])
          (genChild_seg1 (by decide +kernel) (by decide) (by decide)) .nil)))

def exGEout : List Emit := [([0, 1, 2], sd 25 0 0)]

theorem exGE_deriv : GenList exK [0, 1] 2 [exGE] exGEout :=
  .cons (o1 := exGEout) (o2 := []) (genChild_seg1 (by decide +kernel) (by decide) (by decide)) .nil

/-- three groups: two sets, one set, three sets -/
def exGroups : List (List (List Emit) × List Emit) :=
  [([exSetA, exSetA], exGEout), ([exSetA], exGEout), ([exSetA, exSetA, exSetA], exGEout)]

def exCntIsa : Counter := forceLoopStart [] [(10, 0)] [(10, 0), (11, 0)]

/-- the theorem applies to `ISA (GS ST…SE ST…SE GE) (GS ST…SE GE) (GS ST…SE ST…SE ST…SE GE) IEA` … -/
example : RunGroups exK exRoot 0 [(10, 0), (12, 0)] [(10, 0), (12, 0), (13, 0)] [0, 1, 0] exCntIsa
    (groupOut ([exSetA, exSetA], exGEout)) ([([exSetA], exGEout), ([exSetA, exSetA, exSetA], exGEout)].map groupOut)
    (exOut2 ++ []) :=
  walk_accepts_multi_sets exK exRoot 0 (by decide +kernel) (by decide +kernel) (a := 0) (g := 1)
    (isaSeg := exISA) (gsSeg := exGS) (stLoop := exSTLOOP) (geRest := [exGE]) rfl rfl rfl rfl rfl (by decide)
    (by intro j c hj; omega) (by intro j c h1 h2; omega)
    (by
      intro x hx
      simp only [List.mem_cons, List.not_mem_nil, or_false] at hx
      rcases hx with rfl | rfl | rfl <;>
        exact ⟨by intro o ho; simp only [List.mem_cons, List.not_mem_nil, or_false, or_self] at ho; subst ho; exact exSetA_deriv,
          Or.inl rfl, by intro _; simp, exGE_deriv⟩)
    exDeriv2 .nil

/-- … and the model, run on it with every GS pinned, indeed accepts (kernel evaluation, independent of the proof) -/
example : runGroupsb exK exRoot 0 [(10, 0), (12, 0)] [(10, 0), (12, 0), (13, 0)] [0, 1, 0] exCntIsa
    (groupOut ([exSetA, exSetA], exGEout)) ([([exSetA], exGEout), ([exSetA, exSetA, exSetA], exGEout)].map groupOut)
    exOut2 = true := by decide +kernel

/-- the limit on the number of sets matters: with ST_LOOP `repeat = 1` a second set in one group is reported -/
example : runOKb exK
    [.loop 10 1 0 1 false [exISA, .loop 12 20 0 0 false [exGS, .loop 14 20 0 1 false [exST, exHEADER, exDETAIL, exSE], exGE], exIEA]]
    0 exCnt0 [0, 1, 0] (exSetA ++ exSetA ++ exGEout) = false := by decide +kernel

end Pyx12Verif.WalkerGen
