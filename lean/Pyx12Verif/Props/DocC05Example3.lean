/-
Non-vacuity for `doc_ack_totals` and `doc_ack_names_groups_and_sets` (Props/DocC05Ack.lean) on the document `twoGroups` of
Props/DocC05Example.lean: for its second group the theorem yields node 1 of the final tree, GS01 / GS06 of the GS segment,
one set node and AK902–AK904 = 1 (GE01), 1 (ST segments), number of accepted sets; the kernel computes the complete AK9
heads (`A 1 1 1`, `R 1 1 0`) from the final tree independently.  The names are those of the two GS and the two ST segments.
-/
import Pyx12Verif.Props.DocC05Example

namespace Pyx12Verif.Doc.Ex
open Pyx12Verif Pyx12Verif.Doc DocC05

/-! #### totals of the second group -/

def P1g : List (List SegText.RErr × Seg) := rr2.segs.take 6
def pGSg : List SegText.RErr × Seg := (rr2.segs.drop 6).headD ([], ⟨[], []⟩)
def PGg : List (List SegText.RErr × Seg) := (rr2.segs.drop 7).take 3
def pGEg : List SegText.RErr × Seg := (rr2.segs.drop 10).headD ([], ⟨[], []⟩)
def P2g : List (List SegText.RErr × Seg) := rr2.segs.drop 11

theorem split2g : rr2.segs = P1g ++ pGSg :: (PGg ++ pGEg :: P2g) := by decide +kernel
theorem ids2g : pGSg.2.id = Envelope.idGS ∧ pGEg.2.id = Envelope.idGE ∧
    ∀ q ∈ PGg, q.2.id ≠ Envelope.idGS ∧ q.2.id ≠ Envelope.idGE := by decide +kernel
theorem idx2g : ((P1g.map (fun q => q.2)).filter isGS).length = 1 ∧ ((PGg.map (fun q => q.2)).filter isST).length = 1 := by
  decide +kernel
theorem gs2g : gv (SegText.delimsOf hdr) pGSg.2 0 = some "HC".toList ∧ gv (SegText.delimsOf hdr) pGSg.2 5 = some "2".toList ∧
    Ack.intStr (geCount (gv (SegText.delimsOf hdr) pGEg.2 0)).value = "1".toList := by decide +kernel

theorem group2_totals :
    ∃ g, (Ack.allGs r2.final.tree)[1]? = some g ∧ g.fic = some "HC".toList ∧ g.ctlNum = some "2".toList ∧
      g.children.length = 1 ∧
      (Ack.ak9Head g).drop 1 = ["1".toList, Ack.natStr 1, Ack.natStr (g.children.countP C05.accepted)] := by
  obtain ⟨g, h1, h2, h3, _, h5, h6⟩ :=
    doc_ack_totals ms ctx twoGroups false (r2_eq ▸ verdict2) hdr rr2 read2 nest2 (r2_eq ▸ matched2) P1g PGg P2g pGSg pGEg
      split2g ids2g.1 ids2g.2.1 ids2g.2.2
  rw [r2_eq] at h1
  rw [idx2g.1] at h1
  rw [idx2g.2] at h5 h6
  rw [gs2g.2.2] at h6
  exact ⟨g, h1, h2.trans gs2g.1, h3.trans gs2g.2.1, h5, h6⟩

/-- the complete AK9 heads, computed by the kernel from the final tree -/
theorem heads2 : (Ack.allGs r2.final.tree).map Ack.ak9Head =
    [["A".toList, "1".toList, "1".toList, "1".toList], ["R".toList, "1".toList, "1".toList, "0".toList]] := by
  decide +kernel

/-! #### names -/

theorem docNames2 : docNames (SegText.delimsOf hdr) (rr2.segs.map (fun q => q.2)) =
    [.gs (some "HC".toList) (some "1".toList), .st (some "837".toList) (some "0001".toList),
     .gs (some "HC".toList) (some "2".toList), .st (some "837".toList) (some "0002".toList)] := by decide +kernel

/-- whenever the 997 visitor completes on this run, its AK1 / AK2 lines name exactly these groups and sets -/
theorem names2 (p : Ack.Params) (hack : (Ack.ack997 { legacy := false } r2.final p).crash = none)
    (hsafe : ∀ g ∈ Ack.allGs r2.final.tree, C05.GsNamesSafe g) :
    C05.namesOf (Ack.ack997 { legacy := false } r2.final p).out =
      [.gs (some "HC".toList) (some "1".toList), .st (some "837".toList) (some "0001".toList),
       .gs (some "HC".toList) (some "2".toList), .st (some "837".toList) (some "0002".toList)] := by
  rw [← docNames2, ← r2_eq] at *
  exact doc_ack_names_groups_and_sets ms ctx twoGroups false p (r2_eq ▸ verdict2) hdr rr2 read2 nest2 (r2_eq ▸ matched2)
    hack hsafe

/-- the visitor does complete on this run, for fixed clock / control-number parameters -/
def params2 : Ack.Params :=
  { date6 := "200101".toList, time4 := "1200".toList, date8 := "20200101".toList, time6 := "120000".toList,
    gsCtl := "1".toList }

theorem ack2_completes : (Ack.ack997 { legacy := false } r2.final params2).crash = none := by decide +kernel

theorem noColon_iff (o : Option Str) : C05.NoColon o ↔ (match o with | some v => ':' ∉ v | none => True) := by
  cases o with
  | none => simp [C05.NoColon]
  | some v => simp [C05.NoColon]

def stSafeB (s : ErrTree.St) : Bool :=
  (match s.trnSetId with | some v => !v.contains ':' | none => true) &&
  (match s.ctlNum.map Ack.strip with | some v => !v.contains ':' | none => true)

def safeB (v : Str) : Bool := !v.contains '*' && !v.contains ':' && !v.contains '~'

def gsSafeB (g : ErrTree.Gs) : Bool :=
  safeB (Ack.pyStr g.fic) && safeB (Ack.pyStr g.ctlNum) && g.children.all stSafeB

theorem gsSafe_of_b (g : ErrTree.Gs) (h : gsSafeB g = true) : C05.GsNamesSafe g := by
  simp only [gsSafeB, safeB, Bool.and_eq_true, Bool.not_eq_true', List.contains_eq_mem, decide_eq_false_iff_not,
    List.all_eq_true] at h
  obtain ⟨⟨⟨⟨a1, a2⟩, a3⟩, ⟨⟨b1, b2⟩, b3⟩⟩, c⟩ := h
  refine ⟨⟨a1, a2, a3⟩, ⟨b1, b2, b3⟩, ?_⟩
  intro s hs
  have := c s hs
  simp only [stSafeB, Bool.and_eq_true] at this
  refine ⟨(noColon_iff _).2 ?_, (noColon_iff _).2 ?_⟩
  · cases h1 : s.trnSetId with
    | none => trivial
    | some v => have := this.1; rw [h1] at this; simpa using this
  · cases h1 : s.ctlNum.map Ack.strip with
    | none => trivial
    | some v => have := this.2; rw [h1] at this; simpa using this

theorem safe2_b : ((Ack.allGs r2.final.tree).all gsSafeB) = true := by decide +kernel

/-- **every hypothesis of `doc_ack_names_groups_and_sets` holds of `twoGroups`** -/
theorem names2_holds :
    C05.namesOf (Ack.ack997 { legacy := false } r2.final params2).out =
      [.gs (some "HC".toList) (some "1".toList), .st (some "837".toList) (some "0001".toList),
       .gs (some "HC".toList) (some "2".toList), .st (some "837".toList) (some "0002".toList)] :=
  names2 params2 ack2_completes (fun g hg => gsSafe_of_b g (List.all_eq_true.1 safe2_b g hg))

end Pyx12Verif.Doc.Ex
