/-
C03 at pipeline level, last clause: "other transaction sets in the interchange remain accepted".

One group with several transaction sets, the fault (an element / syntax-note fault as in Props/DocFault.lean (1), (2)) in
one of them.  The body is given set by set:

    preSets …   fST fpre… bF fpost… fSE   postSets …   tail (GE, IEA)

`doc_fault_other_sets_accepted`: besides `OneFaultRun` (verdict false, all other segments matched without any error
call — in particular every segment of the other sets — the displayed output for `bF`), the set nodes below the group are,
in order, `preSets.length` accepted ones, the rejected one, `postSets.length` accepted ones:
  * `AcceptedSet st`: closed when it held no error, no segment node, no error of its own ⇒ `ackCode = A` and the AK5 line of
    the 997 built from it says `A` (C05 `ak5_accept_iff`);
  * `RejectedSet f sg`: closed while it held exactly the faulty segment node ⇒ `ackCode = R`, AK5 does not say `A`.
The walker hypothesis is `RunOK` on what the walker reads off the body; `runOK_of_multi_sets` discharges it from
C02 `walk_accepts_multi_sets` (each set an instance of ST_LOOP, within `repeat`).
-/
import Pyx12Verif.Props.DocFault
import Pyx12Verif.Props.C02Multi
import Pyx12Verif.Props.C05

namespace Pyx12Verif.Doc
open Pyx12Verif WalkerGen MapSkel

/-- a transaction set of the body: ST, plain segments, SE — each with its map node -/
structure BSet where
  st : Seg × List Nat
  mids : List (Seg × List Nat)
  se : Seg × List Nat

def BSet.segs (x : BSet) : List (Seg × List Nat) := x.st :: (x.mids ++ [x.se])

def BSet.Ok (x : BSet) : Prop :=
  x.st.1.id = Envelope.idST ∧ (∀ b ∈ x.mids, PlainBodySeg b.1) ∧ x.se.1.id = Envelope.idSE

theorem plain_of_map (rM : List BRound) (mids : List (Seg × List Nat)) (h : rM.map (·.seg) = mids.map (·.1))
    (hp : ∀ b ∈ mids, PlainBodySeg b.1) : ∀ r ∈ rM, PlainBodySeg r.seg := by
  intro r hr
  have : r.seg ∈ rM.map (·.seg) := List.mem_map.2 ⟨r, hr, rfl⟩
  rw [h] at this
  obtain ⟨b, hb, hbe⟩ := List.mem_map.1 this
  rw [← hbe]
  exact hp b hb

/-- rounds that answer a body given set by set fall into sets themselves -/
theorem split_sets : ∀ (sets : List BSet) (rounds : List BRound),
    rounds.map (·.seg) = ((sets.map BSet.segs).flatten).map (·.1) → (∀ x ∈ sets, x.Ok) →
    ∃ R : List SetOf, rounds = (R.map SetOf.rounds).flatten ∧ R.length = sets.length ∧
      ∀ x ∈ R, SetRounds x.st x.mids x.se := by
  intro sets
  induction sets with
  | nil =>
    intro rounds h _
    simp only [List.map_nil, List.flatten_nil, List.map_eq_nil_iff] at h
    subst h
    exact ⟨[], rfl, rfl, by intro x hx; cases hx⟩
  | cons x rest ih =>
    intro rounds h hok
    simp only [List.map_cons, List.flatten_cons, List.map_append] at h
    obtain ⟨r1, r2, rfl, h1, h2⟩ := List.map_eq_append_iff.1 h
    obtain ⟨R, rfl, hlen, hR⟩ := ih r2 h2 (fun y hy => hok y (List.mem_cons_of_mem _ hy))
    simp only [BSet.segs, List.map_cons, List.map_append, List.map_nil] at h1
    obtain ⟨ra, r1', rfl, ha, h1'⟩ := List.map_eq_cons_iff.1 h1
    obtain ⟨rM, rz', rfl, hM, hz⟩ := List.map_eq_append_iff.1 h1'
    obtain ⟨rz, rz'', rfl, hzz, hnil⟩ := List.map_eq_cons_iff.1 hz
    simp only [List.map_eq_nil_iff] at hnil
    subst hnil
    obtain ⟨ok1, ok2, ok3⟩ := hok x (by simp)
    refine ⟨⟨ra, rM, rz⟩ :: R, by simp [SetOf.rounds], by simp [hlen], ?_⟩
    intro y hy
    rcases List.mem_cons.1 hy with rfl | hy
    · exact ⟨by simp only; rw [ha]; exact ok1, plain_of_map rM x.mids hM ok2, by simp only; rw [hzz]; exact ok3⟩
    · exact hR y hy

/-! ### accepted / rejected set nodes and their AK5 -/

/-- a set node closed while nothing was wrong with it -/
def AcceptedSet (st : ErrTree.St) : Prop :=
  ∃ st0 : ErrTree.St, st = st0.close ∧ st0.CountedClean ∧ st.children = [] ∧ st.errors = []

/-- a set node closed while it held exactly the segment node `sg` -/
def RejectedSet (f : ErrTree.St) (sg : ErrTree.Seg) : Prop :=
  ∃ st0 : ErrTree.St, f = st0.close ∧ ¬ st0.CountedClean ∧ f.children = [sg] ∧ f.errors = []

/-- AK5 of an accepted set: `A` -/
theorem AcceptedSet.ak5 {st : ErrTree.St} (h : AcceptedSet st) (codes : List Str) :
    st.ackCode = ['A'] ∧ (Ack.ak5Seg997 st codes).id = Ack.sAK5 ∧ (Ack.ak5Seg997 st codes).getValue 0 = some ['A'] := by
  obtain ⟨st0, rfl, hc, _⟩ := h
  exact ⟨(C05.close_accept_iff st0).2 hc, (C05.ak5_accept_iff st0 codes).1, ((C05.ak5_accept_iff st0 codes).2).2 hc⟩

/-- AK5 of the rejected set: not `A` -/
theorem RejectedSet.ak5 {f : ErrTree.St} {sg : ErrTree.Seg} (h : RejectedSet f sg) (codes : List Str) :
    f.ackCode = ['R'] ∧ (Ack.ak5Seg997 f codes).id = Ack.sAK5 ∧ (Ack.ak5Seg997 f codes).getValue 0 ≠ some ['A'] := by
  obtain ⟨st0, rfl, hc, _⟩ := h
  refine ⟨?_, (C05.ak5_accept_iff st0 codes).1, fun hA => hc (((C05.ak5_accept_iff st0 codes).2).1 hA)⟩
  have hne : ¬ st0.close.ackCode = ['A'] := fun hA => hc ((C05.close_accept_iff st0).1 hA)
  unfold ErrTree.St.close at hne ⊢
  by_cases hpos : st0.errCount > 0
  · simp [hpos]
  · simp [hpos] at hne

/-- the IK5 line of the 999 (`ik5Lines999`) carries the same `ack_code` in its first element -/
theorem AcceptedSet.ik5 {st : ErrTree.St} (h : AcceptedSet st) :
    ((Ack.bare Ack.sIK5).setEle 0 st.ackCode).getValue 0 = some ['A'] := by
  rw [(h.ak5 []).1, Ack.setEle_getValue]
  decide

theorem RejectedSet.ik5 {f : ErrTree.St} {sg : ErrTree.Seg} (h : RejectedSet f sg) :
    ((Ack.bare Ack.sIK5).setEle 0 f.ackCode).getValue 0 = some ['R'] := by
  rw [(h.ak5 []).1, Ack.setEle_getValue]
  decide

theorem cleanSt_accepted (d : Delims) (r : BRound) : AcceptedSet (cleanSt d r) := by
  refine ⟨ErrTree.mkSt (stData d r.seg r.rs), rfl, ?_, rfl, rfl⟩
  exact ⟨rfl, by intro sg hsg; cases hsg⟩

theorem faultSt_rejected (d : Delims) (r : BRound) (sg : ErrTree.Seg) (h : 0 < sg.errCount) :
    RejectedSet (faultSt d r sg) sg := by
  refine ⟨addChild (ErrTree.mkSt (stData d r.seg r.rs)) sg, rfl, ?_, faultSt_children d r sg, rfl⟩
  intro hc
  have := hc.2 sg (by simp [addChild, ErrTree.mkSt])
  rw [← ErrTree.Seg.errCount_zero] at this
  omega

/-- the shape of the set list: accepted …, rejected, accepted … -/
def SetsAre (npre npost : Nat) (sg : ErrTree.Seg) (sets : List ErrTree.St) : Prop :=
  ∃ (A B : List ErrTree.St) (f : ErrTree.St), sets = A ++ f :: B ∧ A.length = npre ∧ B.length = npost ∧
    (∀ st ∈ A ++ B, AcceptedSet st) ∧ RejectedSet f sg

/-- the body of one group, set by set, with the faulty segment inside the set `fST … fSE` -/
def setsBody (preSets postSets : List BSet) (fST : Seg × List Nat) (fpre : List (Seg × List Nat)) (bF : Seg × List Nat)
    (fpost : List (Seg × List Nat)) (fSE : Seg × List Nat) (tail : List (Seg × List Nat)) : List (Seg × List Nat) :=
  ((preSets.map BSet.segs).flatten ++ fST :: fpre) ++ bF :: (fpost ++ fSE :: ((postSets.map BSet.segs).flatten ++ tail))

theorem stIn_pre (preSets : List BSet) (fST : Seg × List Nat) (fpre : List (Seg × List Nat)) (h : fST.1.id = Envelope.idST) :
    stIn (((preSets.map BSet.segs).flatten ++ fST :: fpre).map (·.1.id)) = true := by
  simp [stIn, h]

theorem TreeIs.mono {t : ErrTree.Tree} {P Q : List ErrTree.St → Prop} (h : TreeIs t P) (hpq : ∀ s, P s → Q s) : TreeIs t Q := by
  obtain ⟨a, g, h1, h2, h3, h4, h5, h6, h7⟩ := h
  exact ⟨a, g, h1, h2, h3, h4, h5, h6, hpq _ h7⟩

theorem ids_of_map (rT : List BRound) (tail : List (Seg × List Nat)) (h : rT.map (·.seg) = tail.map (·.1))
    (hp : ∀ b ∈ tail, b.1.id ≠ Envelope.idST ∧ b.1.id ≠ Envelope.idSE) :
    ∀ r ∈ rT, r.seg.id ≠ Envelope.idST ∧ r.seg.id ≠ Envelope.idSE := by
  intro r hr
  have : r.seg ∈ rT.map (·.seg) := List.mem_map.2 ⟨r, hr, rfl⟩
  rw [h] at this
  obtain ⟨b, hb, hbe⟩ := List.mem_map.1 this
  rw [← hbe]
  exact hp b hb

/-- **(4) the other transaction sets remain accepted.**  Setting of (1)/(2) (`doc_rejects_segment_fault_of_runOK`: the
    validation of the plain segment `bF` returns `False` with reports on one element node), the body given set by set.
    Then, besides `OneFaultRun`: below the group there are, in order, `preSets.length` accepted set nodes, the rejected
    one holding exactly the faulty segment node, `postSets.length` accepted ones (`SetsAre`; AK5 by `AcceptedSet.ak5`,
    `RejectedSet.ak5`). -/
theorem doc_fault_other_sets_accepted (ms : Maps) (ctx : Ctx) (h : Tokenizer.Header) (d : Delims)
    (hd : d = SegText.delimsOf h) (control m : MapX) (isa gs : Seg) (a g : Nat)
    (cip cgp : List Nat) (isaDef gsDef : SegDef) (vISA vGS : Envelope.SegView) (rs1 rs2 rs3 : Envelope.RState)
    (henv : EnvOk ms ctx h control m isa gs a g cip cgp isaDef gsDef vISA vGS rs1 rs2)
    (preSets postSets : List BSet) (fST : Seg × List Nat) (fpre : List (Seg × List Nat)) (bF : Seg × List Nat)
    (fpost : List (Seg × List Nat)) (fSE : Seg × List Nat) (tail : List (Seg × List Nat)) (sdF : SegDef)
    (hpreSets : ∀ x ∈ preSets, x.Ok) (hpostSets : ∀ x ∈ postSets, x.Ok)
    (hfST : fST.1.id = Envelope.idST) (hfSE : fSE.1.id = Envelope.idSE)
    (hfpre : ∀ b ∈ fpre, PlainBodySeg b.1) (hfpost : ∀ b ∈ fpost, PlainBodySeg b.1)
    (htail : ∀ b ∈ tail, b.1.id ≠ Envelope.idST ∧ b.1.id ≠ Envelope.idSE)
    (hrun : RunOK ms.consts m.root m.rootId (pinnedCnt ms) [a, g, 0]
      (emitsOf ms m d (setsBody preSets postSets fST fpre bF fpost fSE tail)))
    (hquiet : EnvQuiet d (bodyRs m rs2) ((setsBody preSets postSets fST fpre bF fpost fSE tail).map (·.1)) rs3)
    (hclean : Envelope.cleanup rs3 = [])
    (hse : SeOk false ((setsBody preSets postSets fST fpre bF fpost fSE tail).map (·.1.id)))
    (hokPre : ∀ b ∈ (preSets.map BSet.segs).flatten ++ fST :: fpre, BodyOk ctx m d b)
    (hokPost : ∀ b ∈ fpost ++ fSE :: ((postSets.map BSet.segs).flatten ++ tail), BodyOk ctx m d b)
    (hFid : bF.1.id ≠ Envelope.idISA ∧ bF.1.id ≠ Envelope.idGS) (hFbase : baseErrs bF.1 = []) (hFplain : PlainBodySeg bF.1)
    (hFdef : lookupDef m bF.2 = some sdF)
    (p : Nat) (sp : Option Nat) (de : Option Str) (errs : List ErrTree.EleErr) (hne : errs ≠ [])
    (hF : (segEvents ctx m.v5010 d sdF bF.1).Fault p sp de errs) :
    ∃ (rsF : Envelope.RState) (tl : List Event), FaultForm tl p sp de errs ∧
      OneFaultRun (validateRead ms ctx h (readOf isa gs (setsBody preSets postSets fST fpre bF fpost fSE tail)))
        ((preSets.map BSet.segs).flatten ++ fST :: fpre).length
        (fpost ++ fSE :: ((postSets.map BSet.segs).flatten ++ tail)).length
        { sid := bF.1.id, matched := true, node := some (m.file, bF.2), popped := [],
          events := .addSeg bF.1.id rsF.segCount none :: tl }
        (faultSeg bF.1.id rsF.segCount p sp de errs) ∧
      TreeIs (validateRead ms ctx h (readOf isa gs (setsBody preSets postSets fST fpre bF fpost fSE tail))).final.tree
        (SetsAre preSets.length postSets.length (faultSeg bF.1.id rsF.segCount p sp de errs)) := by
  obtain ⟨rsF, tl, _, hform, hres, rpre, rpost, done, x, hp, hq, hdx, htree⟩ :=
    doc_rejects_segment_fault_of_runOK ms ctx h d hd control m isa gs a g cip cgp isaDef gsDef vISA vGS rs1 rs2 rs3 henv
      ((preSets.map BSet.segs).flatten ++ fST :: fpre) (fpost ++ fSE :: ((postSets.map BSet.segs).flatten ++ tail)) bF sdF
      hrun hquiet hclean hse hokPre hokPost (stIn_pre preSets fST fpre hfST) hFid hFbase hFplain hFdef p sp de errs hne hF
  refine ⟨rsF, tl, hform, hres, htree.mono ?_⟩
  intro sets hsets
  -- the rounds before, set by set
  rw [List.map_append] at hp
  obtain ⟨r1, r2, rfl, h1, h2⟩ := List.map_eq_append_iff.1 hp
  obtain ⟨R1, rfl, hl1, hR1⟩ := split_sets preSets r1 h1 hpreSets
  rw [List.map_cons] at h2
  obtain ⟨rst, rfp, rfl, hst, hfp⟩ := List.map_eq_cons_iff.1 h2
  have hstid : rst.seg.id = Envelope.idST := by rw [hst]; exact hfST
  have hpre : cleanSets d [] ((R1.map SetOf.rounds).flatten ++ rst :: rfp) =
      R1.map (fun y => cleanSt d y.st) ++ [ErrTree.mkSt (stData d rst.seg rst.rs)] := by
    rw [cleanSets_append, cleanSets_sets d R1 [] hR1, List.nil_append]
    simp only [cleanSets]
    rw [headSets_st d _ _ _ hstid, cleanSets_plain d rfp _ (plain_of_map rfp fpre hfp hfpre)]
  rw [hpre] at hdx
  obtain ⟨hdone, hx⟩ := List.append_inj' hdx rfl
  simp only [List.cons.injEq, and_true] at hx
  -- the rounds after, set by set
  rw [List.map_append] at hq
  obtain ⟨rfpost, r3, rfl, h3, h4⟩ := List.map_eq_append_iff.1 hq
  rw [List.map_cons] at h4
  obtain ⟨rse, r4, rfl, hse', h5⟩ := List.map_eq_cons_iff.1 h4
  rw [List.map_append] at h5
  obtain ⟨r5, rtail, rfl, h6, h7⟩ := List.map_eq_append_iff.1 h5
  obtain ⟨R3, rfl, hl3, hR3⟩ := split_sets postSets r5 h6 hpostSets
  have hseid : rse.seg.id = Envelope.idSE := by rw [hse']; exact hfSE
  have hpost : cleanSets d (done ++ [addChild x (faultSeg bF.1.id rsF.segCount p sp de errs)])
      (rfpost ++ rse :: ((R3.map SetOf.rounds).flatten ++ rtail)) =
      done ++ [(addChild x (faultSeg bF.1.id rsF.segCount p sp de errs)).close] ++ R3.map (fun y => cleanSt d y.st) := by
    rw [cleanSets_append, cleanSets_plain d rfpost _ (plain_of_map rfpost fpost h3 hfpost)]
    simp only [cleanSets]
    rw [headSets_se d _ _ _ hseid, modLast_append_single, cleanSets_append, cleanSets_sets d R3 _ hR3,
      cleanSets_tail d rtail _ (ids_of_map rtail tail h7 htail)]
  rw [hpost] at hsets
  refine ⟨done, R3.map (fun y => cleanSt d y.st),
    (addChild x (faultSeg bF.1.id rsF.segCount p sp de errs)).close, by rw [hsets]; simp, ?_, by simp [hl3], ?_, ?_⟩
  · rw [← hdone]; simp [hl1]
  · intro st hst'
    rcases List.mem_append.1 hst' with h' | h'
    · rw [← hdone] at h'
      obtain ⟨y, _, rfl⟩ := List.mem_map.1 h'
      exact cleanSt_accepted d y.st
    · obtain ⟨y, _, rfl⟩ := List.mem_map.1 h'
      exact cleanSt_accepted d y.st
  · rw [← hx]
    exact faultSt_rejected d rst _ (faultSeg_errCount _ _ _ _ _ _ hne)

/-- the walker hypothesis of (4) discharged by C02 `walk_accepts_multi_sets`: the group loop is `[GS, ST_LOOP, …]`, every
    set an instance of ST_LOOP (at least one if required, at most `repeat` many), then the generated rest of the group,
    of the interchange and of the top level -/
theorem runOK_of_multi_sets (ms : Maps) (m : MapX) (a g : Nat) {isaSeg : Node} {isaRest : List Node} {gsSeg stLoop : Node}
    {geRest : List Node} (hmap : GroupAt ms m a g isaSeg isaRest gsSeg (stLoop :: geRest))
    (hst : counted stLoop = true) (hstu : stLoop.usage ≠ 2)
    {sets : List (List Emit)} {trailer out2 out3 : List Emit}
    (hsets : ∀ o ∈ sets, GenOne ms.consts [a, g, 1] stLoop o)
    (hrep : stLoop.rep = 0 ∨ sets.length ≤ stLoop.rep) (hreq : stLoop.usage = 0 → 1 ≤ sets.length)
    (htr : GenList ms.consts [a, g] 2 geRest trailer)
    (hg2 : GenList ms.consts [a] (g + 1) ((isaSeg :: isaRest).drop (g + 1)) out2)
    (hg3 : GenList ms.consts [] (a + 1) (m.root.drop (a + 1)) out3) :
    RunOK ms.consts m.root m.rootId (pinnedCnt ms) [a, g, 0] (sets.flatten ++ trailer ++ (out2 ++ out3)) := by
  obtain ⟨isaPos, isaU, isaRep, isaW, hroot⟩ := hmap.root
  obtain ⟨gsPos, gsU, gsRep, gsW, hgs⟩ := hmap.gsLoop
  have := walk_accepts_multi_sets ms.consts m.root m.rootId hmap.wf hmap.un hroot hmap.hisaSeg hgs hmap.hgsSeg hst hstu
    hmap.opt0 hmap.opt1 (gr := (sets, trailer)) (grs := [])
    (by
      intro x hx
      simp only [List.mem_singleton] at hx
      subst hx
      exact ⟨hsets, hrep, hreq, htr⟩) hg2 hg3
  rw [hmap.isaComp, hmap.gsComp] at this
  exact this

/-! ### the full reading of the clause, and what is proved of it -/

/-- the segment at index `k` of a reading lies inside a transaction set: an ST before it, an SE after it, nothing but
    plain segments in between -/
def InsideSet (segs : List (List SegText.RErr × Seg)) (k : Nat) : Prop :=
  ∃ i j, i < k ∧ k < j ∧ (∃ x, segs[i]? = some x ∧ x.2.id = Envelope.idST) ∧ (∃ y, segs[j]? = some y ∧ y.2.id = Envelope.idSE) ∧
    ∀ l z, i < l → l < j → segs[l]? = some z → PlainBodySeg z.2 ∧ z.2.id ≠ Envelope.idISA ∧ z.2.id ≠ Envelope.idGS

/-- **full reading** of "other transaction sets in the interchange remain accepted" for the model: ANY reading — any
    number of interchanges, groups and sets, any maps — that is accepted without a report; ONE plain segment inside a
    set replaced by a segment that is the same for the walker (`segData`) and for the reader (`viewOf`) but whose
    validation against the node it is matched at reports on one element node.  Then the verdict is false and every set
    node of the final tree is accepted (`AK5*A`), except exactly one that is rejected and holds exactly the faulty
    segment node.  NOT proved in this generality; `doc_fault_other_sets_partial` proves it for one interchange with one
    group (the shape `doc_accepts_generated` covers: later GS segments are pinned by `x12n_document`, which the simulation
    `run_rounds` does not follow) under the explicit hypotheses of `doc_accepts_generated` in place of "is accepted". -/
def doc_fault_other_sets_full : Prop :=
  ∀ (ms : Maps) (ctx : Ctx) (h : Tokenizer.Header) (before after : List (List SegText.RErr × Seg)) (sC sF : Seg)
    (mF : MapX) (ip : List Nat) (sd : SegDef) (p : Nat) (sp : Option Nat) (de : Option Str) (errs : List ErrTree.EleErr),
    -- the conformant reading is accepted and nothing is reported
    (validateRead ms ctx h { segs := before ++ ([], sC) :: after, crashed := false, pending := [] }).outcome = .verdict true →
    Quiet (validateRead ms ctx h { segs := before ++ ([], sC) :: after, crashed := false, pending := [] }).events →
    -- `sC` lies inside a set and is matched at the node `ip` of the map `mF`, whose definition is `sd`
    InsideSet (before ++ ([], sC) :: after) before.length →
    ((validateRead ms ctx h { segs := before ++ ([], sC) :: after, crashed := false, pending := [] }).segs[before.length]?).bind
      (·.node) = some (mF.file, ip) →
    findMap ms mF.file = some mF → lookupDef mF ip = some sd →
    -- the faulty segment: the same for the walker and for the reader, well formed as a segment …
    sF.id = sC.id → segData ms mF (SegText.delimsOf h) sF = segData ms mF (SegText.delimsOf h) sC →
    Pipeline.viewOf (SegText.delimsOf h) sF = Pipeline.viewOf (SegText.delimsOf h) sC → baseErrs sF = [] →
    -- … whose validation reports on one element node
    (segEvents ctx mF.v5010 (SegText.delimsOf h) sd sF).Fault p sp de errs → errs ≠ [] →
    (validateRead ms ctx h { segs := before ++ ([], sF) :: after, crashed := false, pending := [] }).outcome = .verdict false ∧
    ∃ n : Nat, ∃ (pre post : List ErrTree.St) (f : ErrTree.St),
      ((validateRead ms ctx h { segs := before ++ ([], sF) :: after, crashed := false, pending := [] }).final.tree.flatMap
        (fun a => a.children.flatMap (fun g => g.children))) = pre ++ f :: post ∧
      (∀ st ∈ pre ++ post, AcceptedSet st) ∧ RejectedSet f (faultSeg sF.id n p sp de errs)

/-- what is proved of `doc_fault_other_sets_full`: one interchange, one group, the setting of `doc_accepts_generated` -/
theorem doc_fault_other_sets_partial (ms : Maps) (ctx : Ctx) (h : Tokenizer.Header) (d : Delims)
    (hd : d = SegText.delimsOf h) (control m : MapX) (isa gs : Seg) (a g : Nat)
    (cip cgp : List Nat) (isaDef gsDef : SegDef) (vISA vGS : Envelope.SegView) (rs1 rs2 rs3 : Envelope.RState)
    (henv : EnvOk ms ctx h control m isa gs a g cip cgp isaDef gsDef vISA vGS rs1 rs2)
    (preSets postSets : List BSet) (fST : Seg × List Nat) (fpre : List (Seg × List Nat)) (bF : Seg × List Nat)
    (fpost : List (Seg × List Nat)) (fSE : Seg × List Nat) (tail : List (Seg × List Nat)) (sdF : SegDef)
    (hpreSets : ∀ x ∈ preSets, x.Ok) (hpostSets : ∀ x ∈ postSets, x.Ok)
    (hfST : fST.1.id = Envelope.idST) (hfSE : fSE.1.id = Envelope.idSE)
    (hfpre : ∀ b ∈ fpre, PlainBodySeg b.1) (hfpost : ∀ b ∈ fpost, PlainBodySeg b.1)
    (htail : ∀ b ∈ tail, b.1.id ≠ Envelope.idST ∧ b.1.id ≠ Envelope.idSE)
    (hrun : RunOK ms.consts m.root m.rootId (pinnedCnt ms) [a, g, 0]
      (emitsOf ms m d (setsBody preSets postSets fST fpre bF fpost fSE tail)))
    (hquiet : EnvQuiet d (bodyRs m rs2) ((setsBody preSets postSets fST fpre bF fpost fSE tail).map (·.1)) rs3)
    (hclean : Envelope.cleanup rs3 = [])
    (hse : SeOk false ((setsBody preSets postSets fST fpre bF fpost fSE tail).map (·.1.id)))
    (hokPre : ∀ b ∈ (preSets.map BSet.segs).flatten ++ fST :: fpre, BodyOk ctx m d b)
    (hokPost : ∀ b ∈ fpost ++ fSE :: ((postSets.map BSet.segs).flatten ++ tail), BodyOk ctx m d b)
    (hFid : bF.1.id ≠ Envelope.idISA ∧ bF.1.id ≠ Envelope.idGS) (hFbase : baseErrs bF.1 = []) (hFplain : PlainBodySeg bF.1)
    (hFdef : lookupDef m bF.2 = some sdF)
    (p : Nat) (sp : Option Nat) (de : Option Str) (errs : List ErrTree.EleErr) (hne : errs ≠ [])
    (hF : (segEvents ctx m.v5010 d sdF bF.1).Fault p sp de errs) :
    (validateRead ms ctx h (readOf isa gs (setsBody preSets postSets fST fpre bF fpost fSE tail))).outcome = .verdict false ∧
    ∃ n : Nat, ∃ (pre post : List ErrTree.St) (f : ErrTree.St),
      ((validateRead ms ctx h (readOf isa gs (setsBody preSets postSets fST fpre bF fpost fSE tail))).final.tree.flatMap
        (fun a => a.children.flatMap (fun g => g.children))) = pre ++ f :: post ∧
      (∀ st ∈ pre ++ post, AcceptedSet st) ∧ RejectedSet f (faultSeg bF.1.id n p sp de errs) := by
  obtain ⟨rsF, tl, _, hrunres, a', g', ht, hag, _, _, _, _, A, B, f, hsets, _, _, hacc, hrej⟩ :=
    doc_fault_other_sets_accepted ms ctx h d hd control m isa gs a g cip cgp isaDef gsDef vISA vGS rs1 rs2 rs3 henv preSets
      postSets fST fpre bF fpost fSE tail sdF hpreSets hpostSets hfST hfSE hfpre hfpost htail hrun hquiet hclean hse hokPre
      hokPost hFid hFbase hFplain hFdef p sp de errs hne hF
  refine ⟨hrunres.outcome, rsF.segCount, A, B, f, ?_, hacc, hrej⟩
  rw [ht]
  simp [hag, hsets]

end Pyx12Verif.Doc
