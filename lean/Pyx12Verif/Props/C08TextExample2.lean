/-
Non-vacuity for Props/C08Text.lean, second part (document of Props/C08TextExample.lean): `text_roundtrip_identity` applied to
the canonical text — every hypothesis is satisfied.
-/
import Pyx12Verif.Props.C08TextExample

namespace Pyx12Verif.Doc.ExS
open Pyx12Verif Pyx12Verif.Doc Pyx12Verif.Doc.Ex MapSkel WalkerGen
open Pyx12Verif.Convert

/-- **the theorem applies**: every hypothesis of `text_roundtrip_identity` holds of `goodNl` -/
theorem goodNl_identity : ∃ evs, docXml msS ctx goodNl = some evs ∧ convertText evs = .ok goodNl :=
  text_roundtrip_identity msS ctx goodNl (fun steps h => docSteps_good2 msS msS_ok2 ctx goodNl steps h) Ex.hdr controlS mS isa gs
    body 0 1 [0, 0] [0, 1, 0] isaDef gsDef vISA vGS rs1 rs2 rs3
    (by decide +kernel)
    (by decide +kernel) (by decide +kernel)
    (isaSeg := nISA) (isaRest := [nGSLOOP, nIEA]) rfl rfl rfl
    (gsSeg := nGS) (gsRest := [nSTLOOP, nGE]) rfl rfl rfl
    (by intro j c hj; omega) (by intro j c h1 h2; omega)
    deriv1 deriv2 .nil hemitsS
    rfl rfl rfl rfl
    (segAdm_of_b _ _ _ _ _ (by decide +kernel))
    (by decide +kernel) rfl rfl rfl
    (segAdm_of_b _ _ _ _ _ (by decide +kernel))
    (by decide +kernel) (by decide +kernel) (by decide +kernel) (by decide +kernel) (by decide +kernel)
    (by decide +kernel) (by decide +kernel) (by decide +kernel) (by decide +kernel)
    (envQuiet_of_b _ _ _ _ (by decide +kernel)) (by decide +kernel)
    body_okS (seOk_of_b _ _ (by decide +kernel))
    (fitsAt_of_b _ _ _ _ (by decide +kernel)) (fitsAt_of_b _ _ _ _ (by decide +kernel)) body_fitsS
    (by decide +kernel) inter isaVals "00401".toList good_domain rfl goodNl_canonical

end Pyx12Verif.Doc.ExS
